import Dawgs.Model.C01Limit
import Dawgs.Model.C01With
import Dawgs.Model.C01Order
import Dawgs.Model.C01Distinct
import Dawgs.Model.C01Cross
import Dawgs.Model.C01
import Dawgs.Model.C01S2
import Dawgs.Model.C01Chain
import Dawgs.Model.C01Count
import Dawgs.Model.C03Bind
import Dawgs.Model.SqlSchema
/-
C03 on the C01 fragment: every statement the model translator `tr` produces (stage S1) is accepted by the verified binder under the
schema catalogue, with no parameters.
-/
namespace Dawgs.C03.Frag
open Dawgs Dawgs.Sql Dawgs.C01

def Γ0 : Env := ⟨schema, [], false⟩

/-- the scope inside the node frame `s0`: the `node` table under the alias n0 -/
def nodeRel : Rel := ⟨"n0", [⟨"id", "int8"⟩, ⟨"graph_id", "int4"⟩, ⟨"kind_ids", "int2[]"⟩, ⟨"properties", "jsonb"⟩]⟩

def scN : Scope := ⟨[], [[nodeRel]]⟩

theorem bType_jsonb : bType Γ0.cat "jsonb" = some () := by decide +kernel
theorem bType_int8 : bType Γ0.cat "int8" = some () := by decide +kernel

theorem b_arrow (k : String) : bExpr Γ0 scN (.bin "->" (S1.innerCol "properties") (S1.strLit k)) = some "" := rfl
theorem b_intLit (i : Int) : bExpr Γ0 scN (S1.intLit i) = some "int8" := rfl

theorem b_cast (e : Expr) (ty t : String) (he : bExpr Γ0 scN e = some t) (hty : bType Γ0.cat ty = some ()) :
    bExpr Γ0 scN (.cast e ty) = some ty := by
  rw [bExpr, he]
  simp only [bind, Option.bind, hty, pure]

theorem b_bin (op : String) (l r : Expr) (tl tr : String) (hl : bExpr Γ0 scN l = some tl) (hr : bExpr Γ0 scN r = some tr)
    (hop : (op == "||") = false) : bExpr Γ0 scN (.bin op l r) = some "" := by
  rw [bExpr, hl, hr]
  simp only [bind, Option.bind, pure, hop, Bool.false_eq_true, if_false]

theorem b_un (op : String) (e : Expr) (t : String) (he : bExpr Γ0 scN e = some t) : bExpr Γ0 scN (.un op e) = some "" := by
  rw [bExpr, he]; rfl

theorem b_paren (e : Expr) (t : String) (he : bExpr Γ0 scN e = some t) : bExpr Γ0 scN (.paren e) = some t := by
  rw [bExpr, he]

theorem b_tojsonb (e : Expr) (t : String) (he : bExpr Γ0 scN e = some t) :
    bExpr Γ0 scN (.call "to_jsonb" [e] false false "jsonb") = some "jsonb" := by
  rw [bExpr, bExprs, he, bExprs]
  have hf : bFunc "to_jsonb" Γ0.cat.funcs = some ⟨"to_jsonb", [1], false, "jsonb", []⟩ := by decide +kernel
  simp only [bind, Option.bind, pure, hf, bType_jsonb]
  have h1 : (⟨"to_jsonb", [1], false, "jsonb", []⟩ : Func).accepts [e].length = true := by show Func.accepts _ 1 = true; decide
  have h2 : (knownTy "jsonb" == "") = false := by decide
  simp only [h1, h2, if_true, Bool.false_eq_true, if_false]

theorem b_jsonNull : bExpr Γ0 scN S1.jsonNull = some "jsonb" := b_cast _ _ _ (rfl : bExpr Γ0 scN (.lit (.str "null") "text") = some "text") bType_jsonb

theorem b_propEqInt (neg : Bool) (k : String) (i : Int) :
    bExpr Γ0 scN (.bin (if neg then "<>" else "=") (.cast (.bin "->" (S1.innerCol "properties") (S1.strLit k)) "jsonb")
      (.call "to_jsonb" [.cast (S1.intLit i) "int8"] false false "jsonb")) = some "" :=
  b_bin _ _ _ _ _ (b_cast _ _ _ (b_arrow k) bType_jsonb) (b_tojsonb _ _ (b_cast _ _ _ (b_intLit i) bType_int8)) (by cases neg <;> decide)

theorem b_haskey (k : String) : bExpr Γ0 scN (.bin "?" (S1.innerCol "properties") (S1.strLit k)) = some "" := rfl

theorem b_isNull (k : String) : bExpr Γ0 scN (.bin "=" (.bin "->" (S1.innerCol "properties") (S1.strLit k)) S1.jsonNull) = some "" :=
  b_bin _ _ _ _ _ (b_arrow k) b_jsonNull (by decide)

/-- every lowered S1 predicate binds in the node frame (type: untyped boolean expression) -/
theorem bPred (km : KindMap) : ∀ (p : S1.Pred) (e : Expr), S1.Pred.tr km p = some e → bExpr Γ0 scN e = some ""
  | .propEqStr k s, e, he => by simp only [S1.Pred.tr, Option.some.injEq] at he; subst he; rfl
  | .propEqInt neg k i, e, he => by simp only [S1.Pred.tr, Option.some.injEq] at he; subst he; exact b_propEqInt neg k i
  | .propIsNull k, e, he => by
    simp only [S1.Pred.tr, Option.some.injEq] at he; subst he
    exact b_paren _ _ (b_bin _ _ _ _ _ (b_un _ _ _ (b_haskey k)) (b_isNull k) (by decide))
  | .propNotNull k, e, he => by
    simp only [S1.Pred.tr, Option.some.injEq] at he; subst he
    exact b_paren _ _ (b_bin _ _ _ _ _ (b_haskey k) (b_un _ _ _ (b_isNull k)) (by decide))
  | .idCmp op i, e, he => by simp only [S1.Pred.tr, Option.some.injEq] at he; subst he; cases op <;> rfl
  | .kinds ks, e, he => by
    simp only [S1.Pred.tr] at he
    cases hm : ks.mapM km.id? with
    | none => rw [hm] at he; cases he
    | some ids => rw [hm] at he; cases he; rfl
  | .and p q, e, he => by
    simp only [S1.Pred.tr] at he
    cases hp : S1.Pred.tr km p with
    | none => simp [hp, bind, Option.bind] at he
    | some a =>
      cases hq : S1.Pred.tr km q with
      | none => simp [hp, hq, bind, Option.bind] at he
      | some b =>
        simp [hp, hq, bind, Option.bind] at he
        subst he
        rw [bExpr, bPred km p a hp, bPred km q b hq]
        rfl
  | .or p q, e, he => by
    simp only [S1.Pred.tr] at he
    cases hp : S1.Pred.tr km p with
    | none => simp [hp, bind, Option.bind] at he
    | some a =>
      cases hq : S1.Pred.tr km q with
      | none => simp [hp, hq, bind, Option.bind] at he
      | some b =>
        simp [hp, hq, bind, Option.bind] at he
        subst he
        rw [bExpr, bPred km p a hp, bPred km q b hq]
        rfl
  | .not p, e, he => by
    simp only [S1.Pred.tr] at he
    cases hp : S1.Pred.tr km p with
    | none => simp [hp, bind, Option.bind] at he
    | some a =>
      simp [hp, bind, Option.bind] at he
      subst he
      rw [bExpr, bPred km p a hp]
      rfl
  | .paren p, e, he => by
    simp only [S1.Pred.tr] at he
    cases hp : S1.Pred.tr km p with
    | none => simp [hp, bind, Option.bind] at he
    | some a =>
      simp [hp, bind, Option.bind] at he
      subst he
      rw [bExpr, bPred km p a hp]

/-- the frame's WHERE binds -/
theorem bWhere (km : KindMap) (s : S1.Query) (w : Option Expr) (h : S1.whereOf km s = some w) : ∃ ty, bOpt Γ0 scN w = some ty := by
  unfold S1.whereOf at h
  cases hk : s.kinds.isEmpty with
  | true =>
    simp only [hk, if_true] at h
    cases hwh : s.wh with
    | none => rw [hwh] at h; cases h; exact ⟨_, rfl⟩
    | some p =>
      rw [hwh] at h
      simp only at h
      cases hp : S1.Pred.tr km p with
      | none => rw [hp] at h; cases h
      | some pe =>
        rw [hp] at h; cases h
        refine ⟨"", ?_⟩
        rw [bOpt, bExpr]; exact bPred km p pe hp
  | false =>
    simp only [hk, Bool.false_eq_true, if_false] at h
    cases hkt : S1.Pred.tr km (.kinds s.kinds) with
    | none => rw [hkt] at h; cases hwh : s.wh <;> (rw [hwh] at h; cases h)
    | some ke =>
      rw [hkt] at h
      cases hwh : s.wh with
      | none => rw [hwh] at h; cases h; exact ⟨"", by rw [bOpt]; exact bPred km _ ke hkt⟩
      | some p =>
        rw [hwh] at h
        simp only [Option.map_some] at h
        cases hp : S1.Pred.tr km p with
        | none => rw [hp] at h; cases h
        | some pe =>
          rw [hp] at h; cases h
          refine ⟨"", ?_⟩
          rw [bOpt, bExpr, bExpr, bPred km p pe hp, bPred km _ ke hkt]
          rfl

-- ------------------------------------------------------------------ the node frame

def frameSel (w : Option Expr) : SetExpr := .select false [S1.nodeComposite] [.mk (.table ["node"] (some "n0")) []] w [] none

theorem hFrom : bFromClauses Γ0 ⟨[], []⟩ [] [.mk (.table ["node"] (some "n0")) []] = some [nodeRel] := by decide +kernel

theorem hProjN : bProj Γ0 scN [nodeRel] [S1.nodeComposite] = some [⟨"n0", "nodecomposite"⟩] := by decide +kernel

theorem bFrame (w : Option Expr) (ty : String) (hw : bOpt Γ0 scN w = some ty) :
    bQuery Γ0 ⟨[], []⟩ (Query.simple (frameSel w)) = some [⟨"n0", "nodecomposite"⟩] := by
  have hw' : bOpt Γ0 ⟨[], [[nodeRel]]⟩ w = some ty := hw
  have hp' : bProj Γ0 ⟨[], [[nodeRel]]⟩ [nodeRel] [S1.nodeComposite] = some [⟨"n0", "nodecomposite"⟩] := hProjN
  unfold Query.simple frameSel
  rw [bQuery, bCtes]
  simp only [Scope.withCtes, Option.bind_eq_bind, Option.bind_some]
  rw [bSetExpr]
  simp only [hFrom, Scope.push, Option.bind_eq_bind, Option.bind_some, hw', hp', bGroupBy, bOpt, bOrderBy, Option.pure_def]

-- ------------------------------------------------------------------ the outer select and the whole statement

def s0Rel : Rel := ⟨"s0", [⟨"n0", "nodecomposite"⟩]⟩
def scO : Scope := ⟨[s0Rel], [[s0Rel]]⟩

theorem hFromO : bFromClauses Γ0 ⟨[s0Rel], []⟩ [] [.mk (.table ["s0"] none) []] = some [s0Rel] := by decide +kernel

theorem b_outerId : bExpr Γ0 scO (S1.outerCol "id") = some "int8" := by decide +kernel

theorem bItem (v : String) (it : S1.Item) : ∃ ty, bExpr Γ0 scO (it.tr v) = some ty := by
  cases it with
  | node a => exact ⟨_, rfl⟩
  | prop k a => cases a <;> exact ⟨_, rfl⟩
  | id a => cases a <;> exact ⟨_, rfl⟩

theorem item_not_wildcard (v : String) (it : S1.Item) : it.tr v ≠ .wildcard := by
  cases it with
  | node a => intro hh; cases hh
  | prop k a => cases a <;> (intro hh; cases hh)
  | id a => cases a <;> (intro hh; simp only [S1.Item.tr, S1.outerCol] at hh; cases hh)

theorem bProjItems (v : String) : ∀ (items : List S1.Item), ∃ cols, bProj Γ0 scO [s0Rel] (items.map (S1.Item.tr v)) = some cols
  | [] => ⟨[], by rw [List.map_nil, bProj]⟩
  | it :: items => by
    obtain ⟨ty, hty⟩ := bItem v it
    obtain ⟨cols, hcols⟩ := bProjItems v items
    refine ⟨⟨figureName (it.tr v), ty⟩ :: cols, ?_⟩
    rw [List.map_cons, bProj]
    · simp only [hty, hcols, Option.bind_eq_bind, Option.bind_some, Option.pure_def]
    · intro hh; exact item_not_wildcard v it hh

theorem bOrderKeys (out : List Col) (o : Option S1.Order) : bOrderBy Γ0 scO out true (S1.orderKeysS o) = some () := by
  cases o with
  | none => simp only [S1.orderKeysS, bOrderBy]
  | some o =>
    simp only [S1.orderKeysS]
    rw [bOrderBy]
    have hb : bareName (S1.outerCol "id") = none := rfl
    simp only [hb, if_true, b_outerId, Option.bind_eq_bind, Option.bind_some, bOrderBy, Option.pure_def]

theorem bCut (sc : Scope) (k : Option Nat) : ∃ ty, bOpt Γ0 sc (k.map S1.natLitS) = some ty := by
  cases k with
  | none => exact ⟨_, rfl⟩
  | some k => exact ⟨_, rfl⟩

/-- THE FRAGMENT THEOREM: every statement of stage S1 passes the verified binder under the schema catalogue with no parameters -/
theorem tr_wellScoped (km : KindMap) (s : S1.Query) (st : Stmt) (h : s.tr km = some st) : wellScoped Γ0 st = true := by
  unfold S1.Query.tr at h
  cases hwf : s.wf with
  | false => simp [hwf] at h
  | true =>
    simp only [hwf, Bool.not_true, Bool.false_eq_true, if_false] at h
    cases hwo : S1.whereOf km s with
    | none => rw [hwo] at h; cases h
    | some w =>
      rw [hwo] at h
      simp only [Option.some.injEq] at h
      subst h
      obtain ⟨ty, hw⟩ := bWhere km s w hwo
      obtain ⟨cols, hcols⟩ := bProjItems s.var s.items
      have hcols' : bProj Γ0 ⟨[s0Rel], [[s0Rel]]⟩ [s0Rel] (s.items.map (S1.Item.tr s.var)) = some cols := hcols
      have hfr := bFrame w ty hw
      unfold frameSel at hfr
      have h1' : ∃ t1, bOpt Γ0 ⟨[s0Rel], []⟩ (s.order.bind (fun o => o.skip.map S1.natLitS)) = some t1 := by
        cases s.order with
        | none => exact ⟨_, rfl⟩
        | some o => exact bCut _ o.skip
      have h2' : ∃ t2, bOpt Γ0 ⟨[s0Rel], []⟩ (s.order.bind (fun o => o.limit.map S1.natLitS)) = some t2 := by
        cases s.order with
        | none => exact ⟨_, rfl⟩
        | some o => exact bCut _ o.limit
      obtain ⟨t1, h1'⟩ := h1'
      obtain ⟨t2, h2'⟩ := h2'
      have hob : bOrderBy Γ0 ⟨[s0Rel], [[s0Rel]]⟩ cols true (S1.orderKeysS s.order) = some () := bOrderKeys cols s.order
      unfold wellScoped
      rw [bStmt, bQuery, bCtes]
      case x_2 => intro _ _ _ _ _ _ _ _ hh; cases hh
      simp only [Scope.empty, Scope.withCtes, hfr, Option.bind_eq_bind, Option.bind_some, bShape, List.contains_nil, Bool.false_eq_true,
        if_false, bCtes]
      rw [bSetExpr]
      have hs0 : (⟨"s0", [⟨"n0", "nodecomposite"⟩]⟩ : Rel) = s0Rel := rfl
      simp only [hs0, hFromO, Scope.push, Option.bind_eq_bind, Option.bind_some, bOpt, hcols', bGroupBy, Option.pure_def, isSelect, hob, h1', h2',
        Option.isSome_some]

-- ------------------------------------------------------------------ stage S2a: one directed hop

namespace Hop
open Dawgs.C01.S2

def frameCols : List Col := [⟨"e0", "edgecomposite"⟩, ⟨"n0", "nodecomposite"⟩, ⟨"n1", "nodecomposite"⟩]

/-- the columns of a frame that keeps only the flagged bindings -/
def keptColsB (ke ka kb : Bool) : List Col :=
  ([(ke, (⟨"e0", "edgecomposite"⟩ : Col)), (ka, ⟨"n0", "nodecomposite"⟩), (kb, ⟨"n1", "nodecomposite"⟩)].filter (·.1)).map (·.2)

def keepOfB (ke ka kb : Bool) : S2.Ref → Bool
  | .a => ka | .r => ke | .b => kb

-- generic "it binds" lemmas, for any scope

def Binds (sc : Scope) (e : Expr) : Prop := ∃ ty, bExpr Γ0 sc e = some ty

theorem bx_lit (sc : Scope) (l : Lit) (ty : String) : Binds sc (.lit l ty) := ⟨_, by rw [bExpr]⟩

theorem bx_bin (sc : Scope) (op : String) (l r : Expr) (hl : Binds sc l) (hr : Binds sc r) : Binds sc (.bin op l r) := by
  obtain ⟨a, ha⟩ := hl
  obtain ⟨b, hb⟩ := hr
  exact ⟨_, by rw [bExpr, ha, hb]; rfl⟩

theorem bx_un (sc : Scope) (op : String) (e : Expr) (he : Binds sc e) : Binds sc (.un op e) := by
  obtain ⟨a, ha⟩ := he
  exact ⟨_, by rw [bExpr, ha]; rfl⟩

theorem bx_paren (sc : Scope) (e : Expr) (he : Binds sc e) : Binds sc (.paren e) := by
  obtain ⟨a, ha⟩ := he
  exact ⟨_, by rw [bExpr, ha]⟩

theorem bx_anyOf (sc : Scope) (e : Expr) (he : Binds sc e) : Binds sc (.anyOf e) := by
  obtain ⟨a, ha⟩ := he
  exact ⟨_, by rw [bExpr, ha]; rfl⟩

theorem bx_cast (sc : Scope) (e : Expr) (ty : String) (he : Binds sc e) (hty : bType Γ0.cat ty = some ()) : Binds sc (.cast e ty) := by
  obtain ⟨a, ha⟩ := he
  exact ⟨ty, by rw [bExpr, ha]; simp only [bind, Option.bind, hty, pure]⟩

theorem bx_call1 (sc : Scope) (fn : String) (e : Expr) (ty : String) (f : Func) (he : Binds sc e) (hf : bFunc fn Γ0.cat.funcs = some f)
    (hacc : f.accepts 1 = true) (hty : bType Γ0.cat ty = some ()) : Binds sc (.call fn [e] false false ty) := by
  obtain ⟨a, ha⟩ := he
  have hacc' : f.accepts [e].length = true := hacc
  refine ⟨(if knownTy ty == "" then callTy f fn [a] else ty), ?_⟩
  rw [bExpr, bExprs, ha, bExprs]
  simp only [bind, Option.bind, pure, hf, hacc', if_true, hty]

theorem bType_empty : bType Γ0.cat "" = some () := by decide +kernel
theorem bFunc_typeof : bFunc "jsonb_typeof" Γ0.cat.funcs = some ⟨"jsonb_typeof", [1], false, "text", []⟩ := by decide +kernel
theorem bFunc_tojsonb : bFunc "to_jsonb" Γ0.cat.funcs = some ⟨"to_jsonb", [1], false, "jsonb", []⟩ := by decide +kernel

/-- the columns the predicate language reads resolve under alias `t` in scope `sc` -/
structure ColsAt (sc : Scope) (t : String) (edge : Bool) : Prop where
  id : Binds sc (.compound [t, "id"])
  props : Binds sc (.compound [t, "properties"])
  kind : Binds sc (.compound [t, if edge then "kind_id" else "kind_ids"])

theorem bx_arrow (sc : Scope) (t : String) (edge : Bool) (H : ColsAt sc t edge) (op k : String) :
    Binds sc (.bin op (.compound [t, "properties"]) (S1.strLit k)) := bx_bin sc _ _ _ H.props (bx_lit sc _ _)

theorem bx_jsonNull (sc : Scope) : Binds sc S1.jsonNull := bx_cast sc _ _ (bx_lit sc _ _) bType_jsonb

/-- every lowered S1 predicate binds wherever its alias shows the entity's columns -/
theorem bPredAt (km : KindMap) (sc : Scope) (t : String) (edge : Bool) (H : ColsAt sc t edge) :
    ∀ (p : S1.Pred) (e : Expr), S1.Pred.trAt km t edge p = some e → Binds sc e
  | .propEqStr k s, e, he => by
    simp only [S1.Pred.trAt, Option.some.injEq] at he; subst he
    exact bx_paren sc _ (bx_bin sc _ _ _
      (bx_bin sc _ _ _ (bx_call1 sc _ _ _ _ (bx_arrow sc t edge H "->" k) bFunc_typeof (by decide) bType_empty) (bx_lit sc _ _))
      (bx_bin sc _ _ _ (bx_arrow sc t edge H "->>" k) (bx_lit sc _ _)))
  | .propEqInt neg k i, e, he => by
    simp only [S1.Pred.trAt, Option.some.injEq] at he; subst he
    exact bx_bin sc _ _ _ (bx_cast sc _ _ (bx_arrow sc t edge H "->" k) bType_jsonb)
      (bx_call1 sc _ _ _ _ (bx_cast sc _ _ (bx_lit sc _ _) bType_int8) bFunc_tojsonb (by decide) bType_jsonb)
  | .propIsNull k, e, he => by
    simp only [S1.Pred.trAt, Option.some.injEq] at he; subst he
    exact bx_paren sc _ (bx_bin sc _ _ _ (bx_un sc _ _ (bx_arrow sc t edge H "?" k))
      (bx_bin sc _ _ _ (bx_arrow sc t edge H "->" k) (bx_jsonNull sc)))
  | .propNotNull k, e, he => by
    simp only [S1.Pred.trAt, Option.some.injEq] at he; subst he
    exact bx_paren sc _ (bx_bin sc _ _ _ (bx_arrow sc t edge H "?" k)
      (bx_un sc _ _ (bx_bin sc _ _ _ (bx_arrow sc t edge H "->" k) (bx_jsonNull sc))))
  | .idCmp op i, e, he => by
    simp only [S1.Pred.trAt, Option.some.injEq] at he; subst he
    exact bx_bin sc _ _ _ H.id (bx_lit sc _ _)
  | .kinds ks, e, he => by
    simp only [S1.Pred.trAt] at he
    cases hm : ks.mapM km.id? with
    | none => rw [hm] at he; cases he
    | some ids =>
      rw [hm] at he
      have hk := H.kind
      cases edge with
      | true => simp only [if_true, Option.some.injEq] at he hk; subst he; exact bx_bin sc _ _ _ hk (bx_anyOf sc _ (bx_lit sc _ _))
      | false => simp only [Bool.false_eq_true, if_false, Option.some.injEq] at he hk; subst he; exact bx_bin sc _ _ _ hk (bx_lit sc _ _)
  | .and p q, e, he => by
    simp only [S1.Pred.trAt] at he
    cases hp : S1.Pred.trAt km t edge p with
    | none => simp [hp, bind, Option.bind] at he
    | some a =>
      cases hq : S1.Pred.trAt km t edge q with
      | none => simp [hp, hq, bind, Option.bind] at he
      | some b =>
        simp [hp, hq, bind, Option.bind] at he
        subst he
        exact bx_bin sc _ _ _ (bPredAt km sc t edge H p a hp) (bPredAt km sc t edge H q b hq)
  | .or p q, e, he => by
    simp only [S1.Pred.trAt] at he
    cases hp : S1.Pred.trAt km t edge p with
    | none => simp [hp, bind, Option.bind] at he
    | some a =>
      cases hq : S1.Pred.trAt km t edge q with
      | none => simp [hp, hq, bind, Option.bind] at he
      | some b =>
        simp [hp, hq, bind, Option.bind] at he
        subst he
        exact bx_bin sc _ _ _ (bPredAt km sc t edge H p a hp) (bPredAt km sc t edge H q b hq)
  | .not p, e, he => by
    simp only [S1.Pred.trAt] at he
    cases hp : S1.Pred.trAt km t edge p with
    | none => simp [hp, bind, Option.bind] at he
    | some a =>
      simp [hp, bind, Option.bind] at he
      subst he
      exact bx_un sc _ _ (bPredAt km sc t edge H p a hp)
  | .paren p, e, he => by
    simp only [S1.Pred.trAt] at he
    cases hp : S1.Pred.trAt km t edge p with
    | none => simp [hp, bind, Option.bind] at he
    | some a =>
      simp [hp, bind, Option.bind] at he
      subst he
      exact bx_paren sc _ (bPredAt km sc t edge H p a hp)

theorem bPredsAnd (km : KindMap) (sc : Scope) (t : String) (edge : Bool) (H : ColsAt sc t edge) :
    ∀ (ps : List S1.Pred) (e : Expr), predsAnd km t edge ps = some e → Binds sc e
  | [], e, h => by simp [predsAnd] at h
  | [p], e, h => by simp only [predsAnd] at h; exact bPredAt km sc t edge H p e h
  | p :: p' :: ps, e, h => by
    simp only [predsAnd] at h
    cases hp : S1.Pred.trAt km t edge p with
    | none => simp [hp, bind, Option.bind] at h
    | some a =>
      cases hq : predsAnd km t edge (p' :: ps) with
      | none => simp [hp, hq, bind, Option.bind] at h
      | some b =>
        simp [hp, hq, bind, Option.bind] at h
        subst h
        exact bx_bin sc _ _ _ (bPredAt km sc t edge H p a hp) (bPredsAnd km sc t edge H (p' :: ps) b hq)

def BindsOpt (sc : Scope) (c : Option Expr) : Prop := ∃ ty, bOpt Γ0 sc c = some ty

theorem bindsOpt_some (sc : Scope) (e : Expr) (h : Binds sc e) : BindsOpt sc (some e) := by
  obtain ⟨ty, h⟩ := h; exact ⟨ty, by rw [bOpt]; exact h⟩

theorem bindsOpt_none (sc : Scope) : BindsOpt sc none := ⟨_, by rw [bOpt]⟩

theorem binds_of_opt (sc : Scope) (e : Expr) (h : BindsOpt sc (some e)) : Binds sc e := by
  obtain ⟨ty, h⟩ := h; rw [bOpt] at h; exact ⟨ty, h⟩

theorem bPredsE (km : KindMap) (sc : Scope) (t : String) (edge : Bool) (H : ColsAt sc t edge) (ps : List S1.Pred) (pe : Option Expr)
    (h : predsE km t edge ps = some pe) : BindsOpt sc pe := by
  unfold predsE at h
  cases hps : ps.isEmpty with
  | true => simp only [hps, if_true, Option.some.injEq] at h; subst h; exact bindsOpt_none sc
  | false =>
    simp only [hps, Bool.false_eq_true, if_false, Option.map_eq_some_iff] at h
    obtain ⟨e, he, rfl⟩ := h
    exact bindsOpt_some sc _ (bx_paren sc _ (bPredsAnd km sc t edge H ps e he))

theorem bBoth (sc : Scope) (p k : Option Expr) (hp : BindsOpt sc p) (hk : BindsOpt sc k) : BindsOpt sc (both p k) := by
  cases p with
  | none => exact hk
  | some pe =>
    cases k with
    | none => exact hp
    | some ke => exact bindsOpt_some sc _ (bx_bin sc _ _ _ (binds_of_opt sc pe hp) (binds_of_opt sc ke hk))

theorem bNodeKindsE (sc : Scope) (al : String) (H : ColsAt sc al false) (kid : Option (List Nat)) : BindsOpt sc (nodeKindsE al kid) := by
  cases kid with
  | none => exact bindsOpt_none sc
  | some ids =>
    have hk := H.kind
    simp only [Bool.false_eq_true, if_false] at hk
    exact bindsOpt_some sc _ (bx_bin sc _ _ _ hk (bx_lit sc _ _))

theorem bJoinOnC (sc : Scope) (al ep : String) (c : Option Expr) (hc : BindsOpt sc c) (hid : Binds sc (.compound [al, "id"]))
    (hep : Binds sc (.compound ["e0", ep])) : BindsOpt sc (some (joinOnC al ep c)) := by
  unfold joinOnC
  cases c with
  | none => exact bindsOpt_some sc _ (bx_bin sc _ _ _ hid hep)
  | some ce => exact bindsOpt_some sc _ (bx_bin sc _ _ _ (binds_of_opt sc ce hc) (bx_bin sc _ _ _ hid hep))

-- the FROM clause `edge e0 join node al1 on … join node al2 on …`

def eRel : Rel := ⟨"e0", [⟨"id", "int8"⟩, ⟨"graph_id", "int4"⟩, ⟨"start_id", "int8"⟩, ⟨"end_id", "int8"⟩, ⟨"kind_id", "int2"⟩, ⟨"properties", "jsonb"⟩]⟩
def nRel (al : String) : Rel := ⟨al, [⟨"id", "int8"⟩, ⟨"graph_id", "int4"⟩, ⟨"kind_ids", "int2[]"⟩, ⟨"properties", "jsonb"⟩]⟩

def aliasOf (second flip : Bool) : String := if second == flip then "n0" else "n1"

/-- FROM of the hop frame: first join under alias `al1`, second under `al2` -/
theorem bFrom2 (al1 al2 : String) (hal : (al1 = "n0" ∧ al2 = "n1") ∨ (al1 = "n1" ∧ al2 = "n0")) (on1 on2 : Expr)
    (h1 : BindsOpt ⟨[], [[eRel, nRel al1]]⟩ (some on1)) (h2 : BindsOpt ⟨[], [[eRel, nRel al1, nRel al2]]⟩ (some on2)) :
    bFromClauses Γ0 ⟨[], []⟩ [] [.mk (.table ["edge"] (some "e0"))
      [.mk .inner (.table ["node"] (some al1)) (some on1), .mk .inner (.table ["node"] (some al2)) (some on2)]] =
      some [eRel, nRel al1, nRel al2] := by
  obtain ⟨t1, h1⟩ := h1
  obtain ⟨t2, h2⟩ := h2
  have hE : bFromItem Γ0 ⟨[], []⟩ [] (.table ["edge"] (some "e0")) = some eRel := by decide +kernel
  have hN : ∀ (vis : List Rel) (al : String), bFromItem Γ0 ⟨[], []⟩ vis (.table ["node"] (some al)) = some (nRel al) := by
    intro vis al
    rw [bFromItem]
    have : bRelation Γ0.cat (⟨[], []⟩ : Scope).ctes ["node"] = some (nRel "node") := by decide +kernel
    simp only [this, Option.bind_eq_bind, Option.bind_some, Option.getD_some, Option.pure_def]
    rfl
  have hA0 : bAddRte eRel [] [] = some [eRel] := by decide +kernel
  rcases hal with ⟨rfl, rfl⟩ | ⟨rfl, rfl⟩
  · have hA1 : bAddRte (nRel "n0") [] [eRel] = some [eRel, nRel "n0"] := by decide +kernel
    have hA2 : bAddRte (nRel "n1") [] [eRel, nRel "n0"] = some [eRel, nRel "n0", nRel "n1"] := by decide +kernel
    rw [bFromClauses, hE]
    simp only [Option.bind_eq_bind, Option.bind_some, hA0]
    rw [bJoins, hN, ]
    simp only [Option.bind_eq_bind, Option.bind_some, List.nil_append, hA1, Scope.push, h1]
    rw [bJoins, hN]
    simp only [Option.bind_eq_bind, Option.bind_some, hA2, Scope.push, h2, bJoins, List.nil_append, bFromClauses]
  · have hA1 : bAddRte (nRel "n1") [] [eRel] = some [eRel, nRel "n1"] := by decide +kernel
    have hA2 : bAddRte (nRel "n0") [] [eRel, nRel "n1"] = some [eRel, nRel "n1", nRel "n0"] := by decide +kernel
    rw [bFromClauses, hE]
    simp only [Option.bind_eq_bind, Option.bind_some, hA0]
    rw [bJoins, hN]
    simp only [Option.bind_eq_bind, Option.bind_some, List.nil_append, hA1, Scope.push, h1]
    rw [bJoins, hN]
    simp only [Option.bind_eq_bind, Option.bind_some, hA2, Scope.push, h2, bJoins, List.nil_append, bFromClauses]

theorem colsAt_J (lvl : List Rel) (t : String) (edge : Bool)
    (h1 : bExpr Γ0 ⟨[], [lvl]⟩ (.compound [t, "id"]) = some "int8") (h2 : bExpr Γ0 ⟨[], [lvl]⟩ (.compound [t, "properties"]) = some "jsonb")
    (h3 : ∃ ty, bExpr Γ0 ⟨[], [lvl]⟩ (.compound [t, if edge then "kind_id" else "kind_ids"]) = some ty) : ColsAt ⟨[], [lvl]⟩ t edge :=
  ⟨⟨_, h1⟩, ⟨_, h2⟩, h3⟩

/-- a LIMIT literal binds in every scope -/
theorem bOpt_natLit (sc : Scope) (kf : Option Nat) : ∃ u, bOpt Γ0 sc (kf.map S1.natLitS) = some u := by
  cases kf with
  | none => exact ⟨_, rfl⟩
  | some k => exact ⟨_, rfl⟩

/-- the hop frame (with or without a LIMIT literal of its own) binds, in either join order, for every kind constraint and every list of WHERE conjuncts -/
theorem bFrame2L (km : KindMap) (flip : Bool) (ke ka' kb' : Bool) (ka kr kb : Option (List Nat)) (psa psr psb : List S1.Pred) (pa pr pb : Option Expr) (kf : Option Nat)
    (hpa : predsE km "n0" false psa = some pa) (hpr : predsE km "e0" true psr = some pr) (hpb : predsE km "n1" false psb = some pb) :
    bQuery Γ0 ⟨[], []⟩ (.mk false [] (.select false (frameProj ke ka' kb')
      [.mk (.table ["edge"] (some "e0"))
        (if flip then [.mk .inner (.table ["node"] (some "n1")) (some (joinOnC "n1" "end_id" (both pb (nodeKindsE "n1" kb)))),
                       .mk .inner (.table ["node"] (some "n0")) (some (joinOnC "n0" "start_id" (both pa (nodeKindsE "n0" ka))))]
         else [.mk .inner (.table ["node"] (some "n0")) (some (joinOnC "n0" "start_id" (both pa (nodeKindsE "n0" ka)))),
               .mk .inner (.table ["node"] (some "n1")) (some (joinOnC "n1" "end_id" (both pb (nodeKindsE "n1" kb))))])]
      (both pr (kr.map (fun ids => .bin "=" (col "e0" "kind_id") (.anyOf (kindsLit ids))))) [] none) [] none (kf.map S1.natLitS)) = some (keptColsB ke ka' kb') := by
  -- column facts in the four scopes
  have onA : ∀ (lvl : List Rel), bExpr Γ0 ⟨[], [lvl]⟩ (.compound ["n0", "id"]) = some "int8" → bExpr Γ0 ⟨[], [lvl]⟩ (.compound ["n0", "properties"]) = some "jsonb" →
      bExpr Γ0 ⟨[], [lvl]⟩ (.compound ["n0", "kind_ids"]) = some "int2[]" → bExpr Γ0 ⟨[], [lvl]⟩ (.compound ["e0", "start_id"]) = some "int8" →
      BindsOpt ⟨[], [lvl]⟩ (some (joinOnC "n0" "start_id" (both pa (nodeKindsE "n0" ka)))) := by
    intro lvl h1 h2 h3 h4
    have H := colsAt_J lvl "n0" false h1 h2 ⟨_, h3⟩
    exact bJoinOnC _ _ _ _ (bBoth _ _ _ (bPredsE km _ _ _ H psa pa hpa) (bNodeKindsE _ _ H ka)) ⟨_, h1⟩ ⟨_, h4⟩
  have onB : ∀ (lvl : List Rel), bExpr Γ0 ⟨[], [lvl]⟩ (.compound ["n1", "id"]) = some "int8" → bExpr Γ0 ⟨[], [lvl]⟩ (.compound ["n1", "properties"]) = some "jsonb" →
      bExpr Γ0 ⟨[], [lvl]⟩ (.compound ["n1", "kind_ids"]) = some "int2[]" → bExpr Γ0 ⟨[], [lvl]⟩ (.compound ["e0", "end_id"]) = some "int8" →
      BindsOpt ⟨[], [lvl]⟩ (some (joinOnC "n1" "end_id" (both pb (nodeKindsE "n1" kb)))) := by
    intro lvl h1 h2 h3 h4
    have H := colsAt_J lvl "n1" false h1 h2 ⟨_, h3⟩
    exact bJoinOnC _ _ _ _ (bBoth _ _ _ (bPredsE km _ _ _ H psb pb hpb) (bNodeKindsE _ _ H kb)) ⟨_, h1⟩ ⟨_, h4⟩
  have whR : ∀ (lvl : List Rel), bExpr Γ0 ⟨[], [lvl]⟩ (.compound ["e0", "id"]) = some "int8" → bExpr Γ0 ⟨[], [lvl]⟩ (.compound ["e0", "properties"]) = some "jsonb" →
      bExpr Γ0 ⟨[], [lvl]⟩ (.compound ["e0", "kind_id"]) = some "int2" →
      BindsOpt ⟨[], [lvl]⟩ (both pr (kr.map (fun ids => .bin "=" (col "e0" "kind_id") (.anyOf (kindsLit ids))))) := by
    intro lvl h1 h2 h3
    have H := colsAt_J lvl "e0" true h1 h2 ⟨_, h3⟩
    refine bBoth _ _ _ (bPredsE km _ _ _ H psr pr hpr) ?_
    cases kr with
    | none => exact bindsOpt_none _
    | some ids => exact bindsOpt_some _ _ (bx_bin _ _ _ _ ⟨_, h3⟩ (bx_anyOf _ _ (bx_lit _ _ _)))
  obtain ⟨ul, hul⟩ := bOpt_natLit ⟨[], []⟩ kf
  rw [bQuery, bCtes]
  simp only [Scope.withCtes, Option.bind_eq_bind, Option.bind_some]
  rw [bSetExpr]
  cases flip with
  | false =>
    have hfrom := bFrom2 "n0" "n1" (Or.inl ⟨rfl, rfl⟩) _ _
      (onA [eRel, nRel "n0"] (by decide +kernel) (by decide +kernel) (by decide +kernel) (by decide +kernel))
      (onB [eRel, nRel "n0", nRel "n1"] (by decide +kernel) (by decide +kernel) (by decide +kernel) (by decide +kernel))
    obtain ⟨tw, hw⟩ := whR [eRel, nRel "n0", nRel "n1"] (by decide +kernel) (by decide +kernel) (by decide +kernel)
    have hproj : bProj Γ0 ⟨[], [[eRel, nRel "n0", nRel "n1"]]⟩ [eRel, nRel "n0", nRel "n1"] (frameProj ke ka' kb') = some (keptColsB ke ka' kb') := by
      cases ke <;> cases ka' <;> cases kb' <;> decide +kernel
    simp only [Bool.false_eq_true, if_false, hfrom, Scope.push, Option.bind_eq_bind, Option.bind_some, hw, hproj, bGroupBy, bOrderBy,
      Option.pure_def, hul, show bOpt Γ0 ⟨[], []⟩ none = some "" from rfl, show ∀ sc, bOpt Γ0 sc none = some "" from fun _ => rfl]
  | true =>
    have hfrom := bFrom2 "n1" "n0" (Or.inr ⟨rfl, rfl⟩) _ _
      (onB [eRel, nRel "n1"] (by decide +kernel) (by decide +kernel) (by decide +kernel) (by decide +kernel))
      (onA [eRel, nRel "n1", nRel "n0"] (by decide +kernel) (by decide +kernel) (by decide +kernel) (by decide +kernel))
    obtain ⟨tw, hw⟩ := whR [eRel, nRel "n1", nRel "n0"] (by decide +kernel) (by decide +kernel) (by decide +kernel)
    have hproj : bProj Γ0 ⟨[], [[eRel, nRel "n1", nRel "n0"]]⟩ [eRel, nRel "n1", nRel "n0"] (frameProj ke ka' kb') = some (keptColsB ke ka' kb') := by
      cases ke <;> cases ka' <;> cases kb' <;> decide +kernel
    simp only [if_true, hfrom, Scope.push, Option.bind_eq_bind, Option.bind_some, hw, hproj, bGroupBy, bOrderBy, Option.pure_def, hul, show ∀ sc, bOpt Γ0 sc none = some "" from fun _ => rfl]

/-- the hop frame binds, in either join order, for every kind constraint and every list of WHERE conjuncts -/
theorem bFrame2 (km : KindMap) (flip : Bool) (ke ka' kb' : Bool) (ka kr kb : Option (List Nat)) (psa psr psb : List S1.Pred) (pa pr pb : Option Expr)
    (hpa : predsE km "n0" false psa = some pa) (hpr : predsE km "e0" true psr = some pr) (hpb : predsE km "n1" false psb = some pb) :
    bQuery Γ0 ⟨[], []⟩ (Sql.Query.simple (.select false (frameProj ke ka' kb')
      [.mk (.table ["edge"] (some "e0"))
        (if flip then [.mk .inner (.table ["node"] (some "n1")) (some (joinOnC "n1" "end_id" (both pb (nodeKindsE "n1" kb)))),
                       .mk .inner (.table ["node"] (some "n0")) (some (joinOnC "n0" "start_id" (both pa (nodeKindsE "n0" ka))))]
         else [.mk .inner (.table ["node"] (some "n0")) (some (joinOnC "n0" "start_id" (both pa (nodeKindsE "n0" ka)))),
               .mk .inner (.table ["node"] (some "n1")) (some (joinOnC "n1" "end_id" (both pb (nodeKindsE "n1" kb))))])]
      (both pr (kr.map (fun ids => .bin "=" (col "e0" "kind_id") (.anyOf (kindsLit ids))))) [] none)) = some (keptColsB ke ka' kb') := by
  exact bFrame2L km flip ke ka' kb' ka kr kb psa psr psb pa pr pb none hpa hpr hpb

def s0RelK (ke ka kb : Bool) : Rel := ⟨"s0", keptColsB ke ka kb⟩

theorem hFromOK (ke ka kb : Bool) : bFromClauses Γ0 ⟨[s0RelK ke ka kb], []⟩ [] [.mk (.table ["s0"] none) []] = some [s0RelK ke ka kb] := by
  cases ke <;> cases ka <;> cases kb <;> decide +kernel

theorem bItem2 (q : S2.Query) (ke ka kb : Bool) (it : S2.Item) (hk : keepOfB ke ka kb it.ref = true) :
    ∃ ty, bExpr Γ0 ⟨[s0RelK ke ka kb], [[s0RelK ke ka kb]]⟩ (it.tr q) = some ty := by
  cases it with
  | ent x al => cases x <;> cases ke <;> cases ka <;> cases kb <;> simp [keepOfB, S2.Item.ref] at hk <;> exact ⟨_, rfl⟩
  | idOf x al => cases x <;> cases al <;> cases ke <;> cases ka <;> cases kb <;> simp [keepOfB, S2.Item.ref] at hk <;> exact ⟨_, rfl⟩
  | prop x k al => cases x <;> cases al <;> cases ke <;> cases ka <;> cases kb <;> simp [keepOfB, S2.Item.ref] at hk <;> exact ⟨_, rfl⟩

theorem item2_not_wildcard (q : S2.Query) (it : S2.Item) : it.tr q ≠ .wildcard := by
  cases it with
  | ent x al => intro hh; cases hh
  | idOf x al => cases al <;> (intro hh; cases hh)
  | prop x k al => cases al <;> (intro hh; cases hh)

theorem bProjItems2 (q : S2.Query) (ke ka kb : Bool) : ∀ (items : List S2.Item), (∀ it ∈ items, keepOfB ke ka kb it.ref = true) →
    ∃ cols, bProj Γ0 ⟨[s0RelK ke ka kb], [[s0RelK ke ka kb]]⟩ [s0RelK ke ka kb] (items.map (S2.Item.tr q)) = some cols
  | [], _ => ⟨[], by rw [List.map_nil, bProj]⟩
  | it :: items, h => by
    obtain ⟨ty, hty⟩ := bItem2 q ke ka kb it (h it (List.mem_cons_self ..))
    obtain ⟨cols, hcols⟩ := bProjItems2 q ke ka kb items (fun i hi => h i (List.mem_cons_of_mem _ hi))
    refine ⟨⟨figureName (it.tr q), ty⟩ :: cols, ?_⟩
    rw [List.map_cons, bProj]
    · simp only [hty, hcols, Option.bind_eq_bind, Option.bind_some, Option.pure_def]
    · intro hh; exact item2_not_wildcard q it hh

/-- THE FRAGMENT THEOREM, stage S2 (one hop with WHERE, either join order): every statement passes the verified binder under the schema
catalogue with no parameters -/
theorem tr_wellScoped2L (km : KindMap) (s : S2.Query) (flip prune : Bool) (kf ko : Option Nat) (st : Stmt)
    (h : s.stmtWith km flip prune (kf.map S1.natLitS) (ko.map S1.natLitS) = some st) : wellScoped Γ0 st = true := by
  unfold S2.Query.stmtWith at h
  cases hwf : s.wf with
  | false => simp [hwf] at h
  | true =>
    simp only [hwf, Bool.not_true, Bool.false_eq_true, if_false] at h
    cases hka : kindIds? km s.akinds with
    | none => simp [hka] at h
    | some ka =>
    cases hkr : kindIds? km s.rkinds with
    | none => simp [hka, hkr] at h
    | some kr =>
    cases hkb : kindIds? km s.bkinds with
    | none => simp [hka, hkr, hkb] at h
    | some kb =>
    cases hpa : predsE km "n0" false (s.preds .a) with
    | none => simp [hka, hkr, hkb, hpa] at h
    | some pa =>
    cases hpr : predsE km "e0" true (s.preds .r) with
    | none => simp [hka, hkr, hkb, hpa, hpr] at h
    | some pr =>
    cases hpb : predsE km "n1" false (s.preds .b) with
    | none => simp [hka, hkr, hkb, hpa, hpr, hpb] at h
    | some pb =>
    simp only [hka, hkr, hkb, hpa, hpr, hpb, Option.some.injEq] at h
    subst h
    have hkeep : ∀ it ∈ s.items, keepOfB (!prune || s.reads .r) (!prune || s.reads .a) (!prune || s.reads .b) it.ref = true := by
      intro it hit
      have hr : s.reads it.ref = true := by
        unfold S2.Query.reads
        simp only [Bool.or_eq_true, List.any_eq_true]
        exact Or.inl ⟨it, hit, by simp⟩
      cases hx : it.ref <;> (rw [hx] at hr; simp [keepOfB, hr])
    obtain ⟨cols, hcols⟩ := bProjItems2 s _ _ _ s.items hkeep
    have hfr := bFrame2L km flip (!prune || s.reads .r) (!prune || s.reads .a) (!prune || s.reads .b) ka kr kb (s.preds .a) (s.preds .r) (s.preds .b) pa pr pb kf hpa hpr hpb
    obtain ⟨uo, huo⟩ := bOpt_natLit ⟨[s0RelK (!prune || s.reads .r) (!prune || s.reads .a) (!prune || s.reads .b)], []⟩ ko
    unfold wellScoped
    rw [bStmt, bQuery, bCtes]
    case x_2 => intro _ _ _ _ _ _ _ _ hh; cases hh
    simp only [Scope.empty, Scope.withCtes, hfr, Option.bind_eq_bind, Option.bind_some, bShape, List.contains_nil, Bool.false_eq_true,
      if_false, bCtes]
    rw [bSetExpr]
    have hs0 : (⟨"s0", keptColsB (!prune || s.reads .r) (!prune || s.reads .a) (!prune || s.reads .b)⟩ : Rel) =
        s0RelK (!prune || s.reads .r) (!prune || s.reads .a) (!prune || s.reads .b) := rfl
    simp only [hs0, hFromOK, Scope.push, Option.bind_eq_bind, Option.bind_some, show ∀ sc, bOpt Γ0 sc none = some "" from fun _ => rfl, huo,
      hcols, bGroupBy, Option.pure_def, bOrderBy, Option.isSome_some]

theorem tr_wellScoped2 (km : KindMap) (s : S2.Query) (flip prune : Bool) (st : Stmt) (h : s.trWith km flip prune = some st) : wellScoped Γ0 st = true :=
  tr_wellScoped2L km s flip prune none none st h

end Hop

-- ------------------------------------------------------------------ stage S2c: chains of two or three hops

namespace ChainB
open Dawgs.C01.S2 Dawgs.C01.Ch

def cols5 : List Col := [⟨"e0", "edgecomposite"⟩, ⟨"e1", "edgecomposite"⟩, ⟨"n0", "nodecomposite"⟩, ⟨"n1", "nodecomposite"⟩, ⟨"n2", "nodecomposite"⟩]
def cols7 : List Col := [⟨"e0", "edgecomposite"⟩, ⟨"e1", "edgecomposite"⟩, ⟨"e2", "edgecomposite"⟩, ⟨"n0", "nodecomposite"⟩, ⟨"n1", "nodecomposite"⟩,
  ⟨"n2", "nodecomposite"⟩, ⟨"n3", "nodecomposite"⟩]
def s0R : Rel := ⟨"s0", Hop.frameCols⟩
def s1R : Rel := ⟨"s1", cols5⟩
def s2R : Rel := ⟨"s2", cols7⟩

theorem bFrame0 (km : KindMap) (ka kr kb : Option (List Nat)) (psa psr psb : List S1.Pred) (pa pr pb : Option Expr)
    (hpa : predsE km "n0" false psa = some pa) (hpr : predsE km "e0" true psr = some pr) (hpb : predsE km "n1" false psb = some pb) (flip : Bool) :
    bQuery Γ0 ⟨[], []⟩ (Ch.frame0 ka kr kb pa pr pb flip) = some Hop.frameCols :=
  Hop.bFrame2 km flip true true true ka kr kb psa psr psb pa pr pb hpa hpr hpb

/-- the relation a relationship table shows under alias `al` -/
def eRelA (al : String) : Rel := ⟨al, [⟨"id", "int8"⟩, ⟨"graph_id", "int4"⟩, ⟨"start_id", "int8"⟩, ⟨"end_id", "int8"⟩, ⟨"kind_id", "int2"⟩, ⟨"properties", "jsonb"⟩]⟩

/-- FROM of a step frame: `<sp> join edge <ek> on onE join node <nk> on onN` under the frames `cs` -/
theorem bFromStep (cs : List Rel) (sp : String) (spR : Rel) (ek nk : String) (onE onN : Expr)
    (hS : bFromItem Γ0 ⟨cs, []⟩ [] (.table [sp] none) = some spR)
    (hE : ∀ vis, bFromItem Γ0 ⟨cs, []⟩ vis (.table ["edge"] (some ek)) = some (eRelA ek))
    (hN : ∀ vis, bFromItem Γ0 ⟨cs, []⟩ vis (.table ["node"] (some nk)) = some (Hop.nRel nk))
    (hA0 : bAddRte spR [] [] = some [spR]) (hA1 : bAddRte (eRelA ek) [] [spR] = some [spR, eRelA ek])
    (hA2 : bAddRte (Hop.nRel nk) [] [spR, eRelA ek] = some [spR, eRelA ek, Hop.nRel nk])
    (h1 : Hop.BindsOpt ⟨cs, [[spR, eRelA ek]]⟩ (some onE)) (h2 : Hop.BindsOpt ⟨cs, [[spR, eRelA ek, Hop.nRel nk]]⟩ (some onN)) :
    bFromClauses Γ0 ⟨cs, []⟩ [] [.mk (.table [sp] none)
      [.mk .inner (.table ["edge"] (some ek)) (some onE), .mk .inner (.table ["node"] (some nk)) (some onN)]] =
      some [spR, eRelA ek, Hop.nRel nk] := by
  obtain ⟨t1, h1⟩ := h1
  obtain ⟨t2, h2⟩ := h2
  rw [bFromClauses, hS]
  simp only [Option.bind_eq_bind, Option.bind_some, hA0]
  rw [bJoins, hE]
  simp only [Option.bind_eq_bind, Option.bind_some, List.nil_append, hA1, Scope.push, h1]
  rw [bJoins, hN]
  simp only [Option.bind_eq_bind, Option.bind_some, hA2, Scope.push, h2, bJoins, List.nil_append, bFromClauses]

theorem bFromItem_tbl (cs : List Rel) (vis : List Rel) (t al : String) (r : Rel) (h : bRelation Γ0.cat cs [t] = some r) :
    bFromItem Γ0 ⟨cs, []⟩ vis (.table [t] (some al)) = some ⟨al, r.cols⟩ := by
  rw [bFromItem]
  simp only [h, Option.bind_eq_bind, Option.bind_some, Option.getD_some, Option.pure_def]

/-- `[constraint and] n.id = e.end_id` binds where the constraint does and both aliases show their id columns -/
theorem bJoinOnE (sc : Scope) (al ek : String) (c : Option Expr) (hc : Hop.BindsOpt sc c) (hid : Hop.Binds sc (.compound [al, "id"]))
    (hep : Hop.Binds sc (.compound [ek, "end_id"])) : Hop.BindsOpt sc (some (Ch.joinOnE al ek c)) := by
  unfold Ch.joinOnE
  cases c with
  | none => exact Hop.bindsOpt_some sc _ (Hop.bx_bin sc _ _ _ hid hep)
  | some ce => exact Hop.bindsOpt_some sc _ (Hop.bx_bin sc _ _ _ (Hop.binds_of_opt sc ce hc) (Hop.bx_bin sc _ _ _ hid hep))

/-- frame s1 binds under the scope that knows s0, for every kind constraint and every list of WHERE conjuncts over e1 / n2 -/
theorem bStep1 (km : KindMap) (kr kn : Option (List Nat)) (psr psn : List S1.Pred) (pr pn : Option Expr)
    (hpr : predsE km "e1" true psr = some pr) (hpn : predsE km "n2" false psn = some pn) :
    bQuery Γ0 ⟨[s0R], []⟩ (Ch.stepFrame 1 kr kn pr pn) = some cols5 := by
  have hq : Ch.stepFrame 1 kr kn pr pn = Sql.Query.simple (.select false
      [Ch.carry "s0" "e0", Ch.edgeCompositeOf "e1", Ch.carry "s0" "n0", Ch.carry "s0" "n1", nodeCompositeOf "n2"]
      [.mk (.table ["s0"] none)
        [.mk .inner (.table ["edge"] (some "e1")) (some (.bin "=" (.rowCol (col "s0" "n1") "id") (col "e1" "start_id"))),
         .mk .inner (.table ["node"] (some "n2")) (some (Ch.joinOnE "n2" "e1" (both pn (nodeKindsE "n2" kn))))]]
      (both (both pr (kr.map (fun ids => Expr.bin "=" (col "e1" "kind_id") (.anyOf (kindsLit ids))))) (some (Ch.guard "s0" 1 0))) [] none) := rfl
  have HN : Hop.ColsAt ⟨[s0R], [[s0R, eRelA "e1", Hop.nRel "n2"]]⟩ "n2" false :=
    ⟨⟨"int8", by decide +kernel⟩, ⟨"jsonb", by decide +kernel⟩, ⟨"int2[]", by decide +kernel⟩⟩
  have HE : Hop.ColsAt ⟨[s0R], [[s0R, eRelA "e1", Hop.nRel "n2"]]⟩ "e1" true :=
    ⟨⟨"int8", by decide +kernel⟩, ⟨"jsonb", by decide +kernel⟩, ⟨"int2", by decide +kernel⟩⟩
  have hOnN := bJoinOnE ⟨[s0R], [[s0R, eRelA "e1", Hop.nRel "n2"]]⟩ "n2" "e1" _
    (Hop.bBoth _ _ _ (Hop.bPredsE km _ _ _ HN psn pn hpn) (Hop.bNodeKindsE _ _ HN kn)) HN.id ⟨"int8", by decide +kernel⟩
  have hOnE : Hop.BindsOpt ⟨[s0R], [[s0R, eRelA "e1"]]⟩ (some (.bin "=" (.rowCol (col "s0" "n1") "id") (col "e1" "start_id"))) :=
    ⟨"", by decide +kernel⟩
  have hfrom := bFromStep [s0R] "s0" s0R "e1" "n2" _ _ (by decide +kernel)
    (fun vis => bFromItem_tbl [s0R] vis "edge" "e1" (eRelA "edge") (by decide +kernel))
    (fun vis => bFromItem_tbl [s0R] vis "node" "n2" (Hop.nRel "node") (by decide +kernel))
    (by decide +kernel) (by decide +kernel) (by decide +kernel) hOnE hOnN
  have hkinds : Hop.BindsOpt ⟨[s0R], [[s0R, eRelA "e1", Hop.nRel "n2"]]⟩ (kr.map (fun ids => Expr.bin "=" (col "e1" "kind_id") (.anyOf (kindsLit ids)))) := by
    cases kr with
    | none => exact Hop.bindsOpt_none _
    | some ids => exact Hop.bindsOpt_some _ _ (Hop.bx_bin _ _ _ _ ⟨"int2", by decide +kernel⟩ (Hop.bx_anyOf _ _ (Hop.bx_lit _ _ _)))
  obtain ⟨tw, hw⟩ := Hop.bBoth _ _ _ (Hop.bBoth _ _ _ (Hop.bPredsE km _ _ _ HE psr pr hpr) hkinds)
    (⟨"", by decide +kernel⟩ : Hop.BindsOpt ⟨[s0R], [[s0R, eRelA "e1", Hop.nRel "n2"]]⟩ (some (Ch.guard "s0" 1 0)))
  have hproj : bProj Γ0 ⟨[s0R], [[s0R, eRelA "e1", Hop.nRel "n2"]]⟩ [s0R, eRelA "e1", Hop.nRel "n2"]
      [Ch.carry "s0" "e0", Ch.edgeCompositeOf "e1", Ch.carry "s0" "n0", Ch.carry "s0" "n1", nodeCompositeOf "n2"] = some cols5 := by decide +kernel
  rw [hq]
  unfold Sql.Query.simple
  rw [bQuery, bCtes]
  simp only [Scope.withCtes, Option.bind_eq_bind, Option.bind_some]
  rw [bSetExpr]
  simp only [hfrom, Scope.push, Option.bind_eq_bind, Option.bind_some, hw, hproj, bGroupBy, bOpt, bOrderBy, Option.pure_def]

theorem bStep2 (km : KindMap) (kr kn : Option (List Nat)) (psr psn : List S1.Pred) (pr pn : Option Expr)
    (hpr : predsE km "e2" true psr = some pr) (hpn : predsE km "n3" false psn = some pn) :
    bQuery Γ0 ⟨[s1R, s0R], []⟩ (Ch.stepFrame 2 kr kn pr pn) = some cols7 := by
  have hq : Ch.stepFrame 2 kr kn pr pn = Sql.Query.simple (.select false
      [Ch.carry "s1" "e0", Ch.carry "s1" "e1", Ch.edgeCompositeOf "e2", Ch.carry "s1" "n0", Ch.carry "s1" "n1", Ch.carry "s1" "n2", nodeCompositeOf "n3"]
      [.mk (.table ["s1"] none)
        [.mk .inner (.table ["edge"] (some "e2")) (some (.bin "=" (.rowCol (col "s1" "n2") "id") (col "e2" "start_id"))),
         .mk .inner (.table ["node"] (some "n3")) (some (Ch.joinOnE "n3" "e2" (both pn (nodeKindsE "n3" kn))))]]
      (both (both pr (kr.map (fun ids => Expr.bin "=" (col "e2" "kind_id") (.anyOf (kindsLit ids)))))
        (some (.bin "and" (Ch.guard "s1" 2 0) (Ch.guard "s1" 2 1)))) [] none) := rfl
  have HN : Hop.ColsAt ⟨[s1R, s0R], [[s1R, eRelA "e2", Hop.nRel "n3"]]⟩ "n3" false :=
    ⟨⟨"int8", by decide +kernel⟩, ⟨"jsonb", by decide +kernel⟩, ⟨"int2[]", by decide +kernel⟩⟩
  have HE : Hop.ColsAt ⟨[s1R, s0R], [[s1R, eRelA "e2", Hop.nRel "n3"]]⟩ "e2" true :=
    ⟨⟨"int8", by decide +kernel⟩, ⟨"jsonb", by decide +kernel⟩, ⟨"int2", by decide +kernel⟩⟩
  have hOnN := bJoinOnE ⟨[s1R, s0R], [[s1R, eRelA "e2", Hop.nRel "n3"]]⟩ "n3" "e2" _
    (Hop.bBoth _ _ _ (Hop.bPredsE km _ _ _ HN psn pn hpn) (Hop.bNodeKindsE _ _ HN kn)) HN.id ⟨"int8", by decide +kernel⟩
  have hOnE : Hop.BindsOpt ⟨[s1R, s0R], [[s1R, eRelA "e2"]]⟩ (some (.bin "=" (.rowCol (col "s1" "n2") "id") (col "e2" "start_id"))) :=
    ⟨"", by decide +kernel⟩
  have hfrom := bFromStep [s1R, s0R] "s1" s1R "e2" "n3" _ _ (by decide +kernel)
    (fun vis => bFromItem_tbl [s1R, s0R] vis "edge" "e2" (eRelA "edge") (by decide +kernel))
    (fun vis => bFromItem_tbl [s1R, s0R] vis "node" "n3" (Hop.nRel "node") (by decide +kernel))
    (by decide +kernel) (by decide +kernel) (by decide +kernel) hOnE hOnN
  have hkinds : Hop.BindsOpt ⟨[s1R, s0R], [[s1R, eRelA "e2", Hop.nRel "n3"]]⟩ (kr.map (fun ids => Expr.bin "=" (col "e2" "kind_id") (.anyOf (kindsLit ids)))) := by
    cases kr with
    | none => exact Hop.bindsOpt_none _
    | some ids => exact Hop.bindsOpt_some _ _ (Hop.bx_bin _ _ _ _ ⟨"int2", by decide +kernel⟩ (Hop.bx_anyOf _ _ (Hop.bx_lit _ _ _)))
  obtain ⟨tw, hw⟩ := Hop.bBoth _ _ _ (Hop.bBoth _ _ _ (Hop.bPredsE km _ _ _ HE psr pr hpr) hkinds)
    (⟨"", by decide +kernel⟩ : Hop.BindsOpt ⟨[s1R, s0R], [[s1R, eRelA "e2", Hop.nRel "n3"]]⟩ (some (.bin "and" (Ch.guard "s1" 2 0) (Ch.guard "s1" 2 1))))
  have hproj : bProj Γ0 ⟨[s1R, s0R], [[s1R, eRelA "e2", Hop.nRel "n3"]]⟩ [s1R, eRelA "e2", Hop.nRel "n3"]
      [Ch.carry "s1" "e0", Ch.carry "s1" "e1", Ch.edgeCompositeOf "e2", Ch.carry "s1" "n0", Ch.carry "s1" "n1", Ch.carry "s1" "n2", nodeCompositeOf "n3"] =
      some cols7 := by decide +kernel
  rw [hq]
  unfold Sql.Query.simple
  rw [bQuery, bCtes]
  simp only [Scope.withCtes, Option.bind_eq_bind, Option.bind_some]
  rw [bSetExpr]
  simp only [hfrom, Scope.push, Option.bind_eq_bind, Option.bind_some, hw, hproj, bGroupBy, bOpt, bOrderBy, Option.pure_def]

def refOK (k : Nat) : Ch.Ref → Bool
  | .node i => decide (i < k + 1)
  | .rel i => decide (i < k)

theorem bItem_s1 (q : Ch.Query) (it : Ch.Item) (hv : refOK 2 it.ref = true) : ∃ ty, bExpr Γ0 ⟨[s1R, s0R], [[s1R]]⟩ (it.tr q "s1") = some ty := by
  cases it with
  | ent x al =>
    cases x with
    | node i => rcases i with _ | _ | _ | i <;> first | exact ⟨_, rfl⟩ | (simp [refOK, Ch.Item.ref] at hv; omega)
    | rel i => rcases i with _ | _ | i <;> first | exact ⟨_, rfl⟩ | (simp [refOK, Ch.Item.ref] at hv; omega)
  | idOf x al =>
    cases x with
    | node i => rcases i with _ | _ | _ | i <;> cases al <;> first | exact ⟨_, rfl⟩ | (simp [refOK, Ch.Item.ref] at hv; omega)
    | rel i => rcases i with _ | _ | i <;> cases al <;> first | exact ⟨_, rfl⟩ | (simp [refOK, Ch.Item.ref] at hv; omega)
  | prop x k al =>
    cases x with
    | node i => rcases i with _ | _ | _ | i <;> cases al <;> first | exact ⟨_, rfl⟩ | (simp [refOK, Ch.Item.ref] at hv; omega)
    | rel i => rcases i with _ | _ | i <;> cases al <;> first | exact ⟨_, rfl⟩ | (simp [refOK, Ch.Item.ref] at hv; omega)

theorem bItem_s2 (q : Ch.Query) (it : Ch.Item) (hv : refOK 3 it.ref = true) : ∃ ty, bExpr Γ0 ⟨[s2R, s1R, s0R], [[s2R]]⟩ (it.tr q "s2") = some ty := by
  cases it with
  | ent x al =>
    cases x with
    | node i => rcases i with _ | _ | _ | _ | i <;> first | exact ⟨_, rfl⟩ | (simp [refOK, Ch.Item.ref] at hv; omega)
    | rel i => rcases i with _ | _ | _ | i <;> first | exact ⟨_, rfl⟩ | (simp [refOK, Ch.Item.ref] at hv; omega)
  | idOf x al =>
    cases x with
    | node i => rcases i with _ | _ | _ | _ | i <;> cases al <;> first | exact ⟨_, rfl⟩ | (simp [refOK, Ch.Item.ref] at hv; omega)
    | rel i => rcases i with _ | _ | _ | i <;> cases al <;> first | exact ⟨_, rfl⟩ | (simp [refOK, Ch.Item.ref] at hv; omega)
  | prop x k al =>
    cases x with
    | node i => rcases i with _ | _ | _ | _ | i <;> cases al <;> first | exact ⟨_, rfl⟩ | (simp [refOK, Ch.Item.ref] at hv; omega)
    | rel i => rcases i with _ | _ | _ | i <;> cases al <;> first | exact ⟨_, rfl⟩ | (simp [refOK, Ch.Item.ref] at hv; omega)

theorem itemCh_not_wildcard (q : Ch.Query) (s : String) (it : Ch.Item) : it.tr q s ≠ .wildcard := by
  cases it with
  | ent x al => intro hh; cases hh
  | idOf x al => cases al <;> (intro hh; cases hh)
  | prop x k al => cases al <;> (intro hh; cases hh)

theorem bProjCh (q : Ch.Query) (s : String) (sc : Scope) (lvl : List Rel) (hb : ∀ it ∈ q.items, ∃ ty, bExpr Γ0 sc (it.tr q s) = some ty) :
    ∀ (items : List Ch.Item), (∀ it ∈ items, it ∈ q.items) → ∃ cols, bProj Γ0 sc lvl (items.map (Ch.Item.tr q s)) = some cols
  | [], _ => ⟨[], by rw [List.map_nil, bProj]⟩
  | it :: items, h => by
    obtain ⟨ty, hty⟩ := hb it (h it (List.mem_cons_self ..))
    obtain ⟨cols, hcols⟩ := bProjCh q s sc lvl hb items (fun i hi => h i (List.mem_cons_of_mem _ hi))
    refine ⟨⟨figureName (it.tr q s), ty⟩ :: cols, ?_⟩
    rw [List.map_cons, bProj]
    · simp only [hty, hcols, Option.bind_eq_bind, Option.bind_some, Option.pure_def]
    · intro hh; exact itemCh_not_wildcard q s it hh

theorem refs_ok (q : Ch.Query) (x : Ch.Ref) (h : q.refs.contains x = true) : refOK q.hops.length x = true := by
  unfold Ch.Query.refs at h
  simp only [List.contains_eq_mem, List.mem_append, List.mem_map, List.mem_range, decide_eq_true_eq] at h
  cases x with
  | node i =>
    rcases h with ⟨j, hj, hh⟩ | ⟨j, _, hh⟩
    · cases hh; simp [refOK, hj]
    · cases hh
  | rel i =>
    rcases h with ⟨j, _, hh⟩ | ⟨j, hj, hh⟩
    · cases hh
    · cases hh; simp [refOK, hj]

/-- THE FRAGMENT THEOREM, stage S2c: every chain statement passes the verified binder under the schema catalogue with no parameters -/
theorem stepPreds_some (km : KindMap) (q : Ch.Query) (i : Nat) (pr pn : Option Expr) (h : Ch.stepPreds km q i = some (pr, pn)) :
    predsE km (Ch.eN i) true (q.preds (.rel i)) = some pr ∧ predsE km (Ch.nN (i + 1)) false (q.preds (.node (i + 1))) = some pn := by
  unfold Ch.stepPreds at h
  cases h1 : predsE km (Ch.eN i) true (q.preds (.rel i)) with
  | none => simp [h1, bind, Option.bind] at h
  | some a =>
    cases h2 : predsE km (Ch.nN (i + 1)) false (q.preds (.node (i + 1))) with
    | none => simp [h1, h2, bind, Option.bind] at h
    | some b => simp [h1, h2, bind, Option.bind] at h; exact ⟨by rw [h.1], by rw [h.2]⟩

theorem tr_wellScopedCh (km : KindMap) (q : Ch.Query) (flip : Bool) (st : Stmt) (h : q.trWith km flip = some st) : wellScoped Γ0 st = true := by
  unfold Ch.Query.trWith at h
  cases hwf : q.wf with
  | false => simp [hwf] at h
  | true =>
  simp only [hwf, Bool.not_true, Bool.false_eq_true, if_false] at h
  have hwf' := hwf
  unfold Ch.Query.wf at hwf'
  simp only [Bool.and_eq_true, decide_eq_true_eq, List.all_eq_true, Bool.or_eq_true, beq_iff_eq] at hwf'
  obtain ⟨⟨⟨⟨hlen, _⟩, hitems⟩, _⟩, _⟩ := hwf'
  cases hh : q.hops with
  | nil => rw [hh] at hlen; simp at hlen
  | cons h0 hs =>
  rw [hh] at h hlen
  simp only at h
  cases hka : kindIds? km q.akinds with
  | none => simp [hka, bind, Option.bind] at h
  | some ka =>
  cases hk0 : Ch.hopKinds km h0 with
  | none => simp [hka, hk0, bind, Option.bind] at h
  | some k0 =>
  obtain ⟨kr, kb⟩ := k0
  cases hpa : predsE km "n0" false (q.preds (.node 0)) with
  | none => simp [hka, hk0, hpa, bind, Option.bind] at h
  | some pa =>
  cases hsp0 : Ch.stepPreds km q 0 with
  | none => simp [hka, hk0, hpa, hsp0, bind, Option.bind] at h
  | some sp0 =>
  obtain ⟨pr0, pb0⟩ := sp0
  obtain ⟨hpr0, hpb0⟩ := stepPreds_some km q 0 pr0 pb0 hsp0
  cases hs with
  | nil => simp at hlen
  | cons h1 hs' =>
  cases hk1 : Ch.hopKinds km h1 with
  | none => simp [hka, hk0, hpa, hsp0, hk1, Ch.stepCtes, bind, Option.bind] at h
  | some k1 =>
  obtain ⟨kr1, kn1⟩ := k1
  cases hsp1 : Ch.stepPreds km q 1 with
  | none => simp [hka, hk0, hpa, hsp0, hk1, hsp1, Ch.stepCtes, bind, Option.bind] at h
  | some sp1 =>
  obtain ⟨pr1, pn1⟩ := sp1
  obtain ⟨hpr1, hpn1⟩ := stepPreds_some km q 1 pr1 pn1 hsp1
  have hf0 := bFrame0 km ka kr kb (q.preds (.node 0)) (q.preds (.rel 0)) (q.preds (.node 1)) pa pr0 pb0 hpa hpr0 hpb0 flip
  have hf1 := bStep1 km kr1 kn1 (q.preds (.rel 1)) (q.preds (.node 2)) pr1 pn1 hpr1 hpn1
  cases hs' with
  | nil =>
    simp [hka, hk0, hpa, hsp0, hk1, hsp1, Ch.stepCtes, bind, Option.bind, Ch.sN] at h
    subst h
    have hb : ∀ it ∈ q.items, ∃ ty, bExpr Γ0 ⟨[s1R, s0R], [[s1R]]⟩ (it.tr q "s1") = some ty := fun it hit =>
      bItem_s1 q it (by have := refs_ok q it.ref (by simpa using hitems it hit); rw [hh] at this; exact this)
    obtain ⟨cols, hcols⟩ := bProjCh q "s1" ⟨[s1R, s0R], [[s1R]]⟩ [s1R] hb q.items (fun _ hi => hi)
    have hFrom : bFromClauses Γ0 ⟨[s1R, s0R], []⟩ [] [.mk (.table ["s1"] none) []] = some [s1R] := by decide +kernel
    unfold wellScoped
    rw [bStmt, bQuery, bCtes]
    case x_2 => intro _ _ _ _ _ _ _ _ hh; cases hh
    simp only [Scope.empty, Scope.withCtes, hf0, Option.bind_eq_bind, Option.bind_some, bShape, List.contains_nil, Bool.false_eq_true, if_false]
    rw [bCtes]
    case x_2 => intro _ _ _ _ _ _ _ _ hh; cases hh
    have hs0 : (⟨"s0", Hop.frameCols⟩ : Rel) = s0R := rfl
    simp only [hs0, Scope.withCtes, hf1, Option.bind_eq_bind, Option.bind_some, bShape, List.contains_cons, List.contains_nil,
      Bool.or_false, show ("s1" == "s0") = false from by decide, Bool.false_eq_true, if_false, bCtes]
    rw [bSetExpr]
    have hs1 : (⟨"s1", cols5⟩ : Rel) = s1R := rfl
    simp only [hs1, hFrom, Scope.push, Option.bind_eq_bind, Option.bind_some, bOpt, hcols, bGroupBy, Option.pure_def, bOrderBy,
      Option.isSome_some]
  | cons h2 hs'' =>
    cases hs'' with
    | cons h3 _ => simp at hlen
    | nil =>
    cases hk2 : Ch.hopKinds km h2 with
    | none => simp [hka, hk0, hpa, hsp0, hk1, hsp1, hk2, Ch.stepCtes, bind, Option.bind] at h
    | some k2 =>
    obtain ⟨kr2, kn2⟩ := k2
    cases hsp2 : Ch.stepPreds km q 2 with
    | none => simp [hka, hk0, hpa, hsp0, hk1, hsp1, hk2, hsp2, Ch.stepCtes, bind, Option.bind] at h
    | some sp2 =>
    obtain ⟨pr2, pn2⟩ := sp2
    obtain ⟨hpr2, hpn2⟩ := stepPreds_some km q 2 pr2 pn2 hsp2
    have hf2 := bStep2 km kr2 kn2 (q.preds (.rel 2)) (q.preds (.node 3)) pr2 pn2 hpr2 hpn2
    simp [hka, hk0, hpa, hsp0, hk1, hsp1, hk2, hsp2, Ch.stepCtes, bind, Option.bind, Ch.sN] at h
    subst h
    have hb : ∀ it ∈ q.items, ∃ ty, bExpr Γ0 ⟨[s2R, s1R, s0R], [[s2R]]⟩ (it.tr q "s2") = some ty := fun it hit =>
      bItem_s2 q it (by have := refs_ok q it.ref (by simpa using hitems it hit); rw [hh] at this; exact this)
    obtain ⟨cols, hcols⟩ := bProjCh q "s2" ⟨[s2R, s1R, s0R], [[s2R]]⟩ [s2R] hb q.items (fun _ hi => hi)
    have hFrom : bFromClauses Γ0 ⟨[s2R, s1R, s0R], []⟩ [] [.mk (.table ["s2"] none) []] = some [s2R] := by decide +kernel
    unfold wellScoped
    rw [bStmt, bQuery, bCtes]
    case x_2 => intro _ _ _ _ _ _ _ _ hh; cases hh
    simp only [Scope.empty, Scope.withCtes, hf0, Option.bind_eq_bind, Option.bind_some, bShape, List.contains_nil, Bool.false_eq_true, if_false]
    rw [bCtes]
    case x_2 => intro _ _ _ _ _ _ _ _ hh; cases hh
    have hs0 : (⟨"s0", Hop.frameCols⟩ : Rel) = s0R := rfl
    simp only [hs0, Scope.withCtes, hf1, Option.bind_eq_bind, Option.bind_some, bShape, List.contains_cons, List.contains_nil,
      Bool.or_false, show ("s1" == "s0") = false from by decide, Bool.false_eq_true, if_false]
    rw [bCtes]
    case x_2 => intro _ _ _ _ _ _ _ _ hh; cases hh
    have hs1 : (⟨"s1", cols5⟩ : Rel) = s1R := rfl
    simp only [hs1, Scope.withCtes, hf2, Option.bind_eq_bind, Option.bind_some, bShape, List.contains_cons, List.contains_nil,
      Bool.or_false, show ("s2" == "s1") = false from by decide, show ("s2" == "s0") = false from by decide, Bool.false_eq_true, if_false, bCtes]
    rw [bSetExpr]
    have hs2 : (⟨"s2", cols7⟩ : Rel) = s2R := rfl
    simp only [hs2, hFrom, Scope.push, Option.bind_eq_bind, Option.bind_some, bOpt, hcols, bGroupBy, Option.pure_def, bOrderBy,
      Option.isSome_some]

end ChainB

-- ------------------------------------------------------------------ stage S3a: one WITH between a node MATCH and the RETURN

namespace WithB
open Dawgs.C01.S3

def s1Rel : Rel := ⟨"s1", [⟨"n0", "nodecomposite"⟩]⟩

/-- type of the column a WITH item exports: the node composite, or an untyped value -/
def wty : WItem → Ty
  | .node _ => "nodecomposite"
  | .prop _ _ => ""

/-- the columns of the hand-over frame -/
def wcolsB : List WItem → List String → List Col
  | w :: ws, c :: cs => ⟨c, wty w⟩ :: wcolsB ws cs
  | _, _ => []

theorem wcolsB_names : ∀ (ws : List WItem) (cs : List String), ws.length = cs.length → (wcolsB ws cs).map (·.name) = cs
  | [], [], _ => rfl
  | [], _ :: _, h => by simp at h
  | _ :: _, [], h => by simp at h
  | w :: ws, c :: cs, h => by rw [wcolsB, List.map_cons, wcolsB_names ws cs (by simpa using h)]

theorem wcolsB_get : ∀ (ws : List WItem) (cs : List String) (i : Nat) (w : WItem) (c : String), ws[i]? = some w → cs[i]? = some c →
    (wcolsB ws cs)[i]? = some ⟨c, wty w⟩
  | [], _, i, w, c, hw, _ => by simp at hw
  | _ :: _, [], i, w, c, _, hc => by simp at hc
  | w0 :: ws, c0 :: cs, 0, w, c, hw, hc => by
    simp only [List.getElem?_cons_zero, Option.some.injEq] at hw hc
    subst hw hc
    rfl
  | w0 :: ws, c0 :: cs, i + 1, w, c, hw, hc => by
    simp only [List.getElem?_cons_succ] at hw hc
    rw [wcolsB, List.getElem?_cons_succ]
    exact wcolsB_get ws cs i w c hw hc

/-- every WITH item binds over the node frame `s1` -/
theorem bWItems : ∀ (ws : List WItem) (cs : List String), bProj Γ0 ⟨[s1Rel], [[s1Rel]]⟩ [s1Rel] (witemsTr ws cs) = some (wcolsB ws cs)
  | [], _ => by
    show bProj Γ0 _ [s1Rel] [] = _
    rw [bProj]; rfl
  | _ :: _, [] => by
    show bProj Γ0 _ [s1Rel] [] = _
    rw [bProj]; rfl
  | w :: ws, c :: cs => by
    rw [witemsTr, bProj]
    · rw [bWItems ws cs]
      cases w <;> rfl
    · cases w <;> (intro hh; cases hh)

theorem hFromS1 : bFromClauses Γ0 ⟨[s1Rel], []⟩ [] [.mk (.table ["s1"] none) []] = some [s1Rel] := by decide +kernel

/-- the hand-over frame `s0 as (with s1 as (<node frame>) select <WITH items> from s1)` binds where no frame is visible yet: `s1` is in scope
inside it and nowhere else -/
theorem bHandOver (w : Option Expr) (ty : String) (hw : bOpt Γ0 scN w = some ty) (ws : List WItem) (cs : List String) :
    bQuery Γ0 ⟨[], []⟩ (.mk false [.mk "s1" none none (Query.simple (frameSel w))]
      (.select false (witemsTr ws cs) [.mk (.table ["s1"] none) []] none [] none) [] none none) = some (wcolsB ws cs) := by
  have hfr := bFrame w ty hw
  rw [bQuery, bCtes]
  case x_2 => intro _ _ _ _ _ _ _ _ hh; cases hh
  simp only [Scope.withCtes, hfr, Option.bind_eq_bind, Option.bind_some, bShape, List.contains_nil, Bool.false_eq_true, if_false, bCtes]
  rw [bSetExpr]
  have hs1 : (⟨"s1", [⟨"n0", "nodecomposite"⟩]⟩ : Rel) = s1Rel := rfl
  simp only [hs1, hFromS1, Scope.push, Option.bind_eq_bind, Option.bind_some, bOpt, bWItems, bGroupBy, Option.pure_def, bOrderBy]

theorem bColTy_idx : ∀ (cols : List Col), (cols.map (·.name)).Nodup → ∀ (i : Nat) (c : Col), cols[i]? = some c → bColTy c.name cols = some c.ty
  | [], _, i, c, h => by simp at h
  | x :: cols, hnd, i, c, h => by
    rw [List.map_cons, List.nodup_cons] at hnd
    cases i with
    | zero =>
      simp only [List.getElem?_cons_zero, Option.some.injEq] at h
      subst h
      have hz : cols.countP (fun y => y.name == x.name) = 0 := by
        rw [List.countP_eq_zero]
        intro y hy
        have : y.name ∈ cols.map (·.name) := List.mem_map.mpr ⟨y, hy, rfl⟩
        intro hh
        exact hnd.1 (by rw [← eq_of_beq hh]; exact this)
      simp [bColTy, bCount, List.countP_cons, hz]
    | succ j =>
      simp only [List.getElem?_cons_succ] at h
      have hmem : c.name ∈ cols.map (·.name) := List.mem_map.mpr ⟨c, List.mem_of_getElem? h, rfl⟩
      have hne : (x.name == c.name) = false := by
        cases hh : x.name == c.name with
        | false => rfl
        | true => exact absurd (by rw [eq_of_beq hh]; exact hmem) hnd.1
      have ih := bColTy_idx cols hnd.2 j c h
      unfold bColTy bCount at ih ⊢
      simp only [List.countP_cons, hne, Bool.false_eq_true, if_false, Nat.add_zero, List.find?_cons]
      exact ih

def s0R (q : S3.Query) : Rel := ⟨"s0", wcolsB q.witems q.wcols⟩

theorem wcols_len (q : S3.Query) : q.witems.length = q.wcols.length := by
  have : ∀ (ws : List WItem) (nn ni : Nat), (wcolsFrom q.var nn ni ws).length = ws.length := by
    intro ws
    induction ws with
    | nil => intro nn ni; rfl
    | cons w ws ih =>
      intro nn ni
      cases w with
      | node a =>
        unfold wcolsFrom
        split
        · rw [List.length_cons, List.length_cons, ih]
        · rw [List.length_cons, List.length_cons, ih]
      | prop k a => unfold wcolsFrom; rw [List.length_cons, List.length_cons, ih]
  exact (this q.witems 1 0).symm

/-- a column of the hand-over frame resolves, from the final select, to the type its WITH item exports -/
theorem bWcol (q : S3.Query) (hnd : q.wcols.Nodup) (i : Nat) (w : WItem) (hw : q.witems[i]? = some w) :
    bExpr Γ0 ⟨[s0R q], [[s0R q]]⟩ (S2.col "s0" (wcol q i)) = some (wty w) := by
  have hi : i < q.wcols.length := by
    rw [← wcols_len]
    cases h : decide (i < q.witems.length) with
    | true => exact of_decide_eq_true h
    | false =>
      have : q.witems.length ≤ i := by have := of_decide_eq_false h; omega
      rw [List.getElem?_eq_none this] at hw; cases hw
  have hc : q.wcols[i]? = some (wcol q i) := by simp [wcol, List.getElem?_eq_getElem hi]
  have hget := wcolsB_get q.witems q.wcols i w _ hw hc
  have hnames : ((wcolsB q.witems q.wcols).map (·.name)).Nodup := by rw [wcolsB_names _ _ (wcols_len q)]; exact hnd
  have := bColTy_idx _ hnames i _ hget
  show bName [[s0R q]] ["s0", wcol q i] = _
  simp only [bName, bQualified, bRel, s0R, List.find?_cons, beq_self_eq_true]
  exact this

theorem bRItem (q : S3.Query) (hnd : q.wcols.Nodup) (r : RItem) (hfit : r.fits q.witems = true) :
    ∃ ty, bExpr Γ0 ⟨[s0R q], [[s0R q]]⟩ (r.tr q) = some ty := by
  have hnode : ∀ i, ((q.witems[i]?).any (fun w => w.isNode)) = true →
      bExpr Γ0 ⟨[s0R q], [[s0R q]]⟩ (S2.col "s0" (wcol q i)) = some "nodecomposite" := by
    intro i h
    cases hw : q.witems[i]? with
    | none => rw [hw] at h; cases h
    | some w =>
      rw [hw] at h
      cases w with
      | node a => exact bWcol q hnd i _ hw
      | prop k a => simp [WItem.isNode] at h
  have hprops : bFieldTy Γ0.cat "nodecomposite" "properties" = some "jsonb" := by decide +kernel
  have hid : bFieldTy Γ0.cat "nodecomposite" "id" = some "int8" := by decide +kernel
  cases r with
  | node i a =>
    simp only [RItem.fits, RItem.idx] at hfit
    exact ⟨"nodecomposite", by simp only [RItem.tr]; rw [bExpr]; exact hnode i hfit⟩
  | val i a =>
    simp only [RItem.fits] at hfit
    cases hw : q.witems[i]? with
    | none => rw [hw] at hfit; cases hfit
    | some w => exact ⟨wty w, by simp only [RItem.tr]; rw [bExpr]; exact bWcol q hnd i w hw⟩
  | prop i k a =>
    simp only [RItem.fits, RItem.idx] at hfit
    have h1 : bExpr Γ0 ⟨[s0R q], [[s0R q]]⟩ (.bin "->" (.rowCol (S2.col "s0" (wcol q i)) "properties") (S1.strLit k)) = some "" := by
      rw [bExpr, bExpr, hnode i hfit]
      simp only [Option.bind_eq_bind, Option.bind_some, hprops]
      rfl
    cases a with
    | none => exact ⟨"", by simp only [RItem.tr]; exact h1⟩
    | some al => exact ⟨"", by simp only [RItem.tr]; rw [bExpr]; exact h1⟩
  | id i a =>
    simp only [RItem.fits, RItem.idx] at hfit
    have h1 : bExpr Γ0 ⟨[s0R q], [[s0R q]]⟩ (.rowCol (S2.col "s0" (wcol q i)) "id") = some "int8" := by
      rw [bExpr, hnode i hfit]
      simp only [Option.bind_eq_bind, Option.bind_some, hid]
    cases a with
    | none => exact ⟨"int8", by simp only [RItem.tr]; exact h1⟩
    | some al => exact ⟨"int8", by simp only [RItem.tr]; rw [bExpr]; exact h1⟩

theorem ritem_not_wildcard (q : S3.Query) (r : RItem) : r.tr q ≠ .wildcard := by
  cases r with
  | node i a => intro hh; cases hh
  | val i a => intro hh; cases hh
  | prop i k a => cases a <;> (intro hh; cases hh)
  | id i a => cases a <;> (intro hh; cases hh)

theorem bRItems (q : S3.Query) (hnd : q.wcols.Nodup) : ∀ (rs : List RItem), (∀ r ∈ rs, r.fits q.witems = true) →
    ∃ cols, bProj Γ0 ⟨[s0R q], [[s0R q]]⟩ [s0R q] (rs.map (RItem.tr q)) = some cols
  | [], _ => ⟨[], by rw [List.map_nil, bProj]⟩
  | r :: rs, h => by
    obtain ⟨ty, hty⟩ := bRItem q hnd r (h r (List.mem_cons_self ..))
    obtain ⟨cols, hcols⟩ := bRItems q hnd rs (fun x hx => h x (List.mem_cons_of_mem _ hx))
    refine ⟨⟨figureName (r.tr q), ty⟩ :: cols, ?_⟩
    rw [List.map_cons, bProj]
    · simp only [hty, hcols, Option.bind_eq_bind, Option.bind_some, Option.pure_def]
    · intro hh; exact ritem_not_wildcard q r hh

theorem hFromS0 (q : S3.Query) : bFromClauses Γ0 ⟨[s0R q], []⟩ [] [.mk (.table ["s0"] none) []] = some [s0R q] := by
  simp [bFromClauses, bFromItem, bRelation, bRel, s0R, bAddRte, bJoins, Option.orElse]

/-- THE FRAGMENT THEOREM, stage S3a: every statement `with s0 as (with s1 as (…) select … from s1) select … from s0` of the stage passes the
verified binder — the WITH items read the node frame `s1` only, the RETURN items read the hand-over frame `s0` only -/
theorem tr_wellScopedWith (km : KindMap) (q : S3.Query) (st : Stmt) (h : q.tr km = some st) : wellScoped Γ0 st = true := by
  unfold S3.Query.tr at h
  cases hwf : q.wf with
  | false => simp [hwf] at h
  | true =>
    simp only [hwf, Bool.not_true, Bool.false_eq_true, if_false] at h
    have hwf' := hwf
    unfold S3.Query.wf at hwf'
    simp only [Bool.and_eq_true, decide_eq_true_eq, List.all_eq_true] at hwf'
    obtain ⟨⟨⟨⟨⟨_, _⟩, _⟩, hndc⟩, _⟩, hfits⟩ := hwf'
    cases hwo : S1.whereOf km q.base with
    | none => rw [hwo] at h; cases h
    | some w =>
      rw [hwo] at h
      simp only [Option.some.injEq] at h
      subst h
      obtain ⟨ty, hw⟩ := bWhere km q.base w hwo
      have hho := bHandOver w ty hw q.witems q.wcols
      unfold frameSel at hho
      obtain ⟨cols, hcols⟩ := bRItems q hndc q.ritems hfits
      unfold wellScoped
      rw [bStmt, bQuery, bCtes]
      case x_2 => intro _ _ _ _ _ _ _ _ hh; cases hh
      simp only [Scope.empty, Scope.withCtes, hho, Option.bind_eq_bind, Option.bind_some, bShape, List.contains_nil, Bool.false_eq_true,
        if_false, bCtes]
      rw [bSetExpr]
      have hs0 : (⟨"s0", wcolsB q.witems q.wcols⟩ : Rel) = s0R q := rfl
      simp only [hs0, hFromS0, Scope.push, Option.bind_eq_bind, Option.bind_some, bOpt, hcols, bGroupBy, Option.pure_def, bOrderBy,
        Option.isSome_some]

end WithB

/-- both proved stages, every join-order choice: every statement of `tr2F` is closed and carries no parameters -/
theorem tr2_wellScoped (flipOf : C01.S2.Query → Bool) (prune : Bool) (km : KindMap) (q : Cy.Query) (st : Stmt) (ps : List (String × Val))
    (h : C01.tr2F flipOf prune km q = some (st, ps)) : wellScoped Γ0 st = true ∧ ps = [] := by
  unfold C01.tr2F at h
  cases h1 : C01.tr km q with
  | some r =>
    rw [h1] at h; cases h
    unfold C01.tr at h1
    cases ho : C01.ofCy q with
    | none => rw [ho] at h1; cases h1
    | some s =>
      rw [ho] at h1
      simp only [Option.map_eq_some_iff] at h1
      obtain ⟨st', hst, heq⟩ := h1
      cases heq
      exact ⟨tr_wellScoped km s _ hst, rfl⟩
  | none =>
    rw [h1] at h
    cases ho : C01.ofCy2 q with
    | none => rw [ho] at h; cases h
    | some s =>
      rw [ho] at h
      simp only [Option.map_eq_some_iff] at h
      obtain ⟨st', hst, heq⟩ := h
      cases heq
      exact ⟨Hop.tr_wellScoped2 km s _ _ _ hst, rfl⟩

-- ------------------------------------------------------------------ stage S1c: count over one node pattern

namespace CountB
open Dawgs.C01.S1c

theorem bCountItem (sc : Scope) (lvl : List Rel) (al : Option String) (arg : Expr) (ty : String)
    (h : bExpr Γ0 sc (.call "count" [arg] false false "int8") = some ty) : ∃ cols, bProj Γ0 sc lvl [countItem al arg] = some cols := by
  cases al with
  | none =>
    refine ⟨[⟨figureName (countItem none arg), ty⟩], ?_⟩
    simp only [countItem]
    rw [bProj]
    · simp only [h, bProj, Option.bind_eq_bind, Option.bind_some, Option.pure_def]
    · intro hh; cases hh
  | some a =>
    refine ⟨[⟨figureName (countItem (some a) arg), ty⟩], ?_⟩
    simp only [countItem]
    rw [bProj]
    · rw [bExpr]
      simp only [h, bProj, Option.bind_eq_bind, Option.bind_some, Option.pure_def]
    · intro hh; cases hh

theorem bProjFast (al : Option String) : ∃ cols, bProj Γ0 scN [nodeRel] [countItem al .wildcard] = some cols :=
  bCountItem scN [nodeRel] al .wildcard "int8" (by decide +kernel)

theorem bProjFrame (al : Option String) : ∃ cols, bProj Γ0 scO [s0Rel] [countItem al (.compound ["s0", "n0"])] = some cols :=
  bCountItem scO [s0Rel] al (.compound ["s0", "n0"]) "int8" (by decide +kernel)

/-- THE FRAGMENT THEOREM, stage S1c: both count statements pass the verified binder under the schema catalogue with no parameters -/
theorem tr_wellScopedCount (km : KindMap) (q : S1c.Query) (fast : Bool) (st : Stmt) (h : q.trWith km fast = some st) : wellScoped Γ0 st = true := by
  unfold S1c.Query.trWith at h
  obtain ⟨w, hwo, hst⟩ := Option.map_eq_some_iff.mp h
  obtain ⟨ty, hw⟩ := bWhere km q.s1 w hwo
  cases hf : (fast && q.fastOK) with
  | true =>
    rw [hf] at hst
    simp only [if_true] at hst
    subst hst
    obtain ⟨cols, hcols⟩ := bProjFast q.alias
    have hw' : bOpt Γ0 ⟨[], [[nodeRel]]⟩ w = some ty := hw
    have hcols' : bProj Γ0 ⟨[], [[nodeRel]]⟩ [nodeRel] [countItem q.alias .wildcard] = some cols := hcols
    unfold wellScoped S1c.fastStmt Sql.Query.simple
    rw [bStmt, bQuery, bCtes]
    simp only [Scope.empty, Scope.withCtes, Option.bind_eq_bind, Option.bind_some]
    rw [bSetExpr]
    simp only [hFrom, Scope.push, Option.bind_eq_bind, Option.bind_some, hw', hcols', bGroupBy, bOpt, bOrderBy, Option.pure_def, Option.isSome_some]
  | false =>
    rw [hf] at hst
    simp only [Bool.false_eq_true, if_false] at hst
    subst hst
    obtain ⟨cols, hcols⟩ := bProjFrame q.alias
    have hcols' : bProj Γ0 ⟨[s0Rel], [[s0Rel]]⟩ [s0Rel] [countItem q.alias (.compound ["s0", "n0"])] = some cols := hcols
    have hfr := bFrame w ty hw
    unfold frameSel at hfr
    unfold wellScoped S1c.frameStmt
    rw [bStmt, bQuery, bCtes]
    case x_2 => intro _ _ _ _ _ _ _ _ hh; cases hh
    simp only [Scope.empty, Scope.withCtes, hfr, Option.bind_eq_bind, Option.bind_some, bShape, List.contains_nil, Bool.false_eq_true,
      if_false, bCtes]
    rw [bSetExpr]
    have hs0 : (⟨"s0", [⟨"n0", "nodecomposite"⟩]⟩ : Rel) = s0Rel := rfl
    simp only [hs0, hFromO, Scope.push, Option.bind_eq_bind, Option.bind_some, bOpt, hcols', bGroupBy, Option.pure_def, bOrderBy,
      Option.isSome_some]

end CountB

/-- all three proved stages -/
theorem tr3_wellScoped (flipOf : C01.S2.Query → Bool) (flipCh : C01.Ch.Query → Bool) (prune : Bool) (km : KindMap) (q : Cy.Query) (st : Stmt)
    (ps : List (String × Val)) (h : C01.tr3F flipOf flipCh prune km q = some (st, ps)) : wellScoped Γ0 st = true ∧ ps = [] := by
  unfold C01.tr3F at h
  cases h1 : C01.tr2F flipOf prune km q with
  | some r => rw [h1] at h; cases h; exact tr2_wellScoped flipOf prune km q st ps h1
  | none =>
    rw [h1] at h
    cases ho : C01.ofCyChain q with
    | none => rw [ho] at h; cases h
    | some s =>
      rw [ho] at h
      simp only [Option.map_eq_some_iff] at h
      obtain ⟨st', hst, heq⟩ := h
      cases heq
      exact ⟨ChainB.tr_wellScopedCh km s _ _ hst, rfl⟩

-- ------------------------------------------------------------------ stage S2n: count over one hop

namespace CountHopB
open Dawgs.C01.S2 Dawgs.C01.S1c

theorem bCountCol (ke ka kb : Bool) (x : S2.Ref) (hk : Hop.keepOfB ke ka kb x = true) :
    ∃ ty, bExpr Γ0 ⟨[Hop.s0RelK ke ka kb], [[Hop.s0RelK ke ka kb]]⟩ (.call "count" [col "s0" (frameName x)] false false "int8") = some ty := by
  cases x <;> cases ke <;> cases ka <;> cases kb <;> simp [Hop.keepOfB] at hk <;> exact ⟨"int8", by decide +kernel⟩

/-- THE FRAGMENT THEOREM, stage S2n: every count-over-hop statement passes the verified binder under the schema catalogue, no parameters -/
theorem tr_wellScopedCountHop (km : KindMap) (q : S2n.Query) (flip prune : Bool) (st : Stmt) (h : q.trWith km flip prune = some st) :
    wellScoped Γ0 st = true := by
  unfold S2n.Query.trWith at h
  cases hwf : q.base.wf with
  | false => simp [hwf] at h
  | true =>
    simp only [hwf, Bool.not_true, Bool.false_eq_true, if_false] at h
    cases hka : kindIds? km q.akinds with
    | none => simp [hka] at h
    | some ka =>
    cases hkr : kindIds? km q.rkinds with
    | none => simp [hka, hkr] at h
    | some kr =>
    cases hkb : kindIds? km q.bkinds with
    | none => simp [hka, hkr, hkb] at h
    | some kb =>
    cases hpa : predsE km "n0" false (q.base.preds .a) with
    | none => simp [hka, hkr, hkb, hpa] at h
    | some pa =>
    cases hpr : predsE km "e0" true (q.base.preds .r) with
    | none => simp [hka, hkr, hkb, hpa, hpr] at h
    | some pr =>
    cases hpb : predsE km "n1" false (q.base.preds .b) with
    | none => simp [hka, hkr, hkb, hpa, hpr, hpb] at h
    | some pb =>
    simp only [hka, hkr, hkb, hpa, hpr, hpb, Option.some.injEq] at h
    subst h
    have hkeep : Hop.keepOfB (!prune || q.base.reads .r) (!prune || q.base.reads .a) (!prune || q.base.reads .b) q.x = true := by
      have hr : q.base.reads q.x = true := by
        unfold S2.Query.reads S2n.Query.base
        simp [S2.Item.ref]
      cases hx : q.x <;> (rw [hx] at hr; simp [Hop.keepOfB, hr])
    obtain ⟨ty, hty⟩ := bCountCol _ _ _ q.x hkeep
    obtain ⟨cols, hcols⟩ := CountB.bCountItem ⟨[Hop.s0RelK (!prune || q.base.reads .r) (!prune || q.base.reads .a) (!prune || q.base.reads .b)],
        [[Hop.s0RelK (!prune || q.base.reads .r) (!prune || q.base.reads .a) (!prune || q.base.reads .b)]]⟩
      [Hop.s0RelK (!prune || q.base.reads .r) (!prune || q.base.reads .a) (!prune || q.base.reads .b)] q.alias (col "s0" (frameName q.x)) ty hty
    have hfr := Hop.bFrame2 km flip (!prune || q.base.reads .r) (!prune || q.base.reads .a) (!prune || q.base.reads .b) ka kr kb
      (q.base.preds .a) (q.base.preds .r) (q.base.preds .b) pa pr pb hpa hpr hpb
    unfold wellScoped
    rw [bStmt, bQuery, bCtes]
    case x_2 => intro _ _ _ _ _ _ _ _ hh; cases hh
    simp only [Scope.empty, Scope.withCtes, hfr, Option.bind_eq_bind, Option.bind_some, bShape, List.contains_nil, Bool.false_eq_true,
      if_false, bCtes]
    rw [bSetExpr]
    have hs0 : (⟨"s0", Hop.keptColsB (!prune || q.base.reads .r) (!prune || q.base.reads .a) (!prune || q.base.reads .b)⟩ : Rel) =
        Hop.s0RelK (!prune || q.base.reads .r) (!prune || q.base.reads .a) (!prune || q.base.reads .b) := rfl
    simp only [hs0, Hop.hFromOK, Scope.push, Option.bind_eq_bind, Option.bind_some, bOpt, hcols, bGroupBy, Option.pure_def, bOrderBy,
      Option.isSome_some]

end CountHopB

/-- all four proved stages -/
theorem tr4_wellScoped (flipOf : C01.S2.Query → Bool) (flipCh : C01.Ch.Query → Bool) (fast prune : Bool) (km : KindMap) (q : Cy.Query) (st : Stmt)
    (ps : List (String × Val)) (h : C01.tr4F flipOf flipCh fast prune km q = some (st, ps)) : wellScoped Γ0 st = true ∧ ps = [] := by
  unfold C01.tr4F at h
  cases h1 : C01.tr3F flipOf flipCh prune km q with
  | some r => rw [h1] at h; cases h; exact tr3_wellScoped flipOf flipCh prune km q st ps h1
  | none =>
    rw [h1] at h
    cases ho : C01.ofCyCount1 q with
    | none => rw [ho] at h; cases h
    | some s =>
      rw [ho] at h
      simp only [Option.map_eq_some_iff] at h
      obtain ⟨st', hst, heq⟩ := h
      cases heq
      exact ⟨CountB.tr_wellScopedCount km s _ _ hst, rfl⟩

/-- all five proved stages -/
theorem tr5_wellScoped (flipOf : C01.S2.Query → Bool) (flipCh : C01.Ch.Query → Bool) (flipN : C01.S2n.Query → Bool) (fast prune : Bool) (km : KindMap)
    (q : Cy.Query) (st : Stmt) (ps : List (String × Val)) (h : C01.tr5F flipOf flipCh flipN fast prune km q = some (st, ps)) :
    wellScoped Γ0 st = true ∧ ps = [] := by
  unfold C01.tr5F at h
  cases h1 : C01.tr4F flipOf flipCh fast prune km q with
  | some r => rw [h1] at h; cases h; exact tr4_wellScoped flipOf flipCh fast prune km q st ps h1
  | none =>
    rw [h1] at h
    cases ho : C01.ofCyCount2 q with
    | none => rw [ho] at h; cases h
    | some s =>
      rw [ho] at h
      simp only [Option.map_eq_some_iff] at h
      obtain ⟨st', hst, heq⟩ := h
      cases heq
      exact ⟨CountHopB.tr_wellScopedCountHop km s _ _ _ hst, rfl⟩

/-- all six proved stages: the hop statement with a LIMIT literal on the statement and (pushdown) on the frame is closed as well -/
theorem tr6_wellScoped (flipOf : C01.S2.Query → Bool) (flipCh : C01.Ch.Query → Bool) (flipN : C01.S2n.Query → Bool) (fast prune push : Bool) (km : KindMap)
    (q : Cy.Query) (st : Stmt) (ps : List (String × Val)) (h : C01.tr6F flipOf flipCh flipN fast prune push km q = some (st, ps)) :
    wellScoped Γ0 st = true ∧ ps = [] := by
  unfold C01.tr6F at h
  cases ho : C01.ofCyLimit2 q with
  | none => rw [ho] at h; exact tr5_wellScoped flipOf flipCh flipN fast prune km q st ps h
  | some s =>
    rw [ho] at h
    simp only [Option.map_eq_some_iff] at h
    obtain ⟨st', hst, heq⟩ := h
    cases heq
    refine ⟨Hop.tr_wellScoped2L km s.base (flipOf s.base) prune (if push then some s.k else none) (some s.k) _ ?_, rfl⟩
    unfold C01.S2L.Query.trWith at hst
    cases push <;> exact hst

-- ------------------------------------------------------------------ stage S1o: ORDER BY on a property

/-- THE FRAGMENT THEOREM, stage S1o: the S1 statement with `order by ((s0.n0).properties -> 'k') [desc] [offset] [limit]` passes the binder (the
sort expression is not a bare name: it is bound in the scope of the select's FROM, where `s0.n0` is a nodecomposite column) -/
theorem tr_wellScopedOrd (km : KindMap) (q : C01.S1o.Query) (st : Stmt) (h : q.tr km = some st) : wellScoped Γ0 st = true := by
  unfold C01.S1o.Query.tr at h
  cases hwf : q.wf with
  | false => simp [hwf] at h
  | true =>
    simp only [hwf, Bool.not_true, Bool.false_eq_true, if_false] at h
    cases hwo : S1.whereOf km q.base with
    | none => rw [hwo] at h; cases h
    | some w =>
      rw [hwo] at h
      simp only [Option.some.injEq] at h
      subst h
      obtain ⟨ty, hw⟩ := bWhere km q.base w hwo
      obtain ⟨cols, hcols⟩ := bProjItems q.base.var q.base.items
      have hcols' : bProj Γ0 ⟨[s0Rel], [[s0Rel]]⟩ [s0Rel] (q.base.items.map (S1.Item.tr q.base.var)) = some cols := hcols
      have hfr := bFrame w ty hw
      unfold frameSel at hfr
      obtain ⟨t1, h1'⟩ := bCut ⟨[s0Rel], []⟩ q.skip
      obtain ⟨t2, h2'⟩ := bCut ⟨[s0Rel], []⟩ q.limit
      have hkey : bExpr Γ0 ⟨[s0Rel], [[s0Rel]]⟩ (C01.S1o.keyExpr q.key) = some "" := rfl
      have hob : bOrderBy Γ0 ⟨[s0Rel], [[s0Rel]]⟩ cols true [(C01.S1o.keyExpr q.key, q.asc)] = some () := by
        rw [bOrderBy]
        have hb : bareName (C01.S1o.keyExpr q.key) = none := rfl
        simp only [hb, if_true, hkey, Option.bind_eq_bind, Option.bind_some, bOrderBy, Option.pure_def]
      unfold wellScoped
      rw [bStmt, bQuery, bCtes]
      case x_2 => intro _ _ _ _ _ _ _ _ hh; cases hh
      simp only [Scope.empty, Scope.withCtes, hfr, Option.bind_eq_bind, Option.bind_some, bShape, List.contains_nil, Bool.false_eq_true,
        if_false, bCtes]
      rw [bSetExpr]
      have hs0 : (⟨"s0", [⟨"n0", "nodecomposite"⟩]⟩ : Rel) = s0Rel := rfl
      simp only [hs0, hFromO, Scope.push, Option.bind_eq_bind, Option.bind_some, bOpt, hcols', bGroupBy, Option.pure_def, isSelect, hob, h1', h2',
        Option.isSome_some]

-- ------------------------------------------------------------------ stage S3b: a hop from the carried node after the WITH

namespace WithHopB
open Dawgs.C01.S2 Dawgs.C01.Ch

def s2R : Rel := ⟨"s2", Hop.frameCols⟩

/-- frame s2 = `Ch.stepFrame 0` binds under the scope that knows the one-column hand-over frame s0 -/
theorem bStep0 (kr kn : Option (List Nat)) : bQuery Γ0 ⟨[s0Rel], []⟩ (Ch.stepFrame 0 kr kn none none) = some Hop.frameCols := by
  cases kr <;> cases kn <;> rfl

theorem bItem_s2w (q : Ch.Query) (it : Ch.Item) (hv : ChainB.refOK 1 it.ref = true) :
    ∃ ty, bExpr Γ0 ⟨[s2R, s0Rel], [[s2R]]⟩ (it.tr q "s2") = some ty := by
  cases it with
  | ent x al =>
    cases x with
    | node i => rcases i with _ | _ | i <;> first | exact ⟨_, rfl⟩ | (simp [ChainB.refOK, Ch.Item.ref] at hv <;> omega)
    | rel i => rcases i with _ | i <;> first | exact ⟨_, rfl⟩ | (simp [ChainB.refOK, Ch.Item.ref] at hv <;> omega)
  | idOf x al =>
    cases x with
    | node i => rcases i with _ | _ | i <;> cases al <;> first | exact ⟨_, rfl⟩ | (simp [ChainB.refOK, Ch.Item.ref] at hv <;> omega)
    | rel i => rcases i with _ | i <;> cases al <;> first | exact ⟨_, rfl⟩ | (simp [ChainB.refOK, Ch.Item.ref] at hv <;> omega)
  | prop x k al =>
    cases x with
    | node i => rcases i with _ | _ | i <;> cases al <;> first | exact ⟨_, rfl⟩ | (simp [ChainB.refOK, Ch.Item.ref] at hv <;> omega)
    | rel i => rcases i with _ | i <;> cases al <;> first | exact ⟨_, rfl⟩ | (simp [ChainB.refOK, Ch.Item.ref] at hv <;> omega)

/-- THE FRAGMENT THEOREM, stage S3b: the statement `with s0 as (<hand-over of n>), s2 as (<step frame from s0>) select … from s2` passes the
verified binder: s1 is visible only inside s0, the step frame reads s0 and the base tables only, the final select reads s2 only -/
theorem tr_wellScopedWithHop (km : KindMap) (q : C01.S3b.Query) (st : Stmt) (h : q.tr km = some st) : wellScoped Γ0 st = true := by
  unfold C01.S3b.Query.tr at h
  cases hwf : q.wf with
  | false => simp [hwf] at h
  | true =>
    simp only [hwf, Bool.not_true, Bool.false_eq_true, if_false] at h
    have hwf' := hwf
    unfold C01.S3b.Query.wf at hwf'
    simp only [Bool.and_eq_true, decide_eq_true_eq, List.all_eq_true] at hwf'
    obtain ⟨⟨⟨_, _⟩, hitems⟩, _⟩ := hwf'
    cases hwo : S1.whereOf km q.base with
    | none => simp [hwo] at h
    | some w =>
    cases hk : Ch.hopKinds km q.hop with
    | none => simp [hwo, hk] at h
    | some k0 =>
      obtain ⟨kr, kn⟩ := k0
      simp only [hwo, hk, Option.some.injEq] at h
      subst h
      obtain ⟨ty, hw⟩ := bWhere km q.base w hwo
      have hho : bQuery Γ0 ⟨[], []⟩ (.mk false
          [.mk "s1" none none (Sql.Query.simple (.select false [S1.nodeComposite] [.mk (.table ["node"] (some "n0")) []] w [] none))]
          (.select false [.aliased (S2.col "s1" "n0") (some "n0")] [.mk (.table ["s1"] none) []] none [] none) [] none none) =
          some [⟨"n0", "nodecomposite"⟩] := WithB.bHandOver w ty hw [.node none] ["n0"]
      have hs2 := bStep0 kr kn
      have hb : ∀ it ∈ q.ch.items, ∃ ty, bExpr Γ0 ⟨[s2R, s0Rel], [[s2R]]⟩ (it.tr q.ch "s2") = some ty := fun it hit =>
        bItem_s2w q.ch it (by have := ChainB.refs_ok q.ch it.ref (by simpa using hitems it hit); exact this)
      obtain ⟨cols, hcols⟩ := ChainB.bProjCh q.ch "s2" ⟨[s2R, s0Rel], [[s2R]]⟩ [s2R] hb q.items (fun _ hi => hi)
      have hFrom : bFromClauses Γ0 ⟨[s2R, s0Rel], []⟩ [] [.mk (.table ["s2"] none) []] = some [s2R] := by decide +kernel
      unfold wellScoped
      rw [bStmt, bQuery, bCtes]
      case x_2 => intro _ _ _ _ _ _ _ _ hh; cases hh
      have hw0 : (⟨"s0", [⟨"n0", "nodecomposite"⟩]⟩ : Rel) = s0Rel := rfl
      simp only [Scope.empty, Scope.withCtes, hho, Option.bind_eq_bind, Option.bind_some, bShape, List.contains_nil, Bool.false_eq_true, if_false]
      rw [bCtes]
      case x_2 => intro _ _ _ _ _ _ _ _ hh; cases hh
      simp only [hw0, Scope.withCtes, hs2, Option.bind_eq_bind, Option.bind_some, bShape, List.contains_cons, List.contains_nil,
        Bool.or_false, show ("s2" == "s0") = false from by decide, Bool.false_eq_true, if_false, bCtes]
      rw [bSetExpr]
      have hs2' : (⟨"s2", Hop.frameCols⟩ : Rel) = s2R := rfl
      simp only [hs2', hFrom, Scope.push, Option.bind_eq_bind, Option.bind_some, bOpt, hcols, bGroupBy, Option.pure_def, bOrderBy,
        Option.isSome_some]

end WithHopB

/-- all seven proved stages: S3a (MATCH … WITH … RETURN with plain items) where the query has that reading, else `tr6F` -/
theorem tr7_wellScoped (flipOf : C01.S2.Query → Bool) (flipCh : C01.Ch.Query → Bool) (flipN : C01.S2n.Query → Bool) (fast prune push : Bool) (km : KindMap)
    (q : Cy.Query) (st : Stmt) (ps : List (String × Val)) (h : C01.tr7F flipOf flipCh flipN fast prune push km q = some (st, ps)) :
    wellScoped Γ0 st = true ∧ ps = [] := by
  unfold C01.tr7F at h
  cases ho : C01.ofCyWith q with
  | some s =>
    rw [ho] at h
    simp only [Option.map_eq_some_iff] at h
    obtain ⟨st', hst, heq⟩ := h
    cases heq
    exact ⟨WithB.tr_wellScopedWith km s _ hst, rfl⟩
  | none =>
    rw [ho] at h
    cases ho2 : C01.ofCyWithHop q with
    | some s =>
      rw [ho2] at h
      simp only [Option.map_eq_some_iff] at h
      obtain ⟨st', hst, heq⟩ := h
      cases heq
      exact ⟨WithHopB.tr_wellScopedWithHop km s _ hst, rfl⟩
    | none => rw [ho2] at h; exact tr6_wellScoped flipOf flipCh flipN fast prune push km q st ps h

/-- all eight proved stages: S1o (ORDER BY on a property) where the query has that reading, else `tr7F` -/
theorem tr8_wellScoped (flipOf : C01.S2.Query → Bool) (flipCh : C01.Ch.Query → Bool) (flipN : C01.S2n.Query → Bool) (fast prune push : Bool) (km : KindMap)
    (q : Cy.Query) (st : Stmt) (ps : List (String × Val)) (h : C01.tr8F flipOf flipCh flipN fast prune push km q = some (st, ps)) :
    wellScoped Γ0 st = true ∧ ps = [] := by
  unfold C01.tr8F at h
  cases ho : C01.ofCyOrder q with
  | none => rw [ho] at h; exact tr7_wellScoped flipOf flipCh flipN fast prune push km q st ps h
  | some s =>
    rw [ho] at h
    simp only [Option.map_eq_some_iff] at h
    obtain ⟨st', hst, heq⟩ := h
    cases heq
    exact ⟨tr_wellScopedOrd km s _ hst, rfl⟩

/-- THE FRAGMENT THEOREM, stage S1d: the S1 statement with `select distinct` passes the binder -/
theorem tr_wellScopedDist (km : KindMap) (q : C01.S1d.Query) (st : Stmt) (h : q.tr km = some st) : wellScoped Γ0 st = true := by
  unfold C01.S1d.Query.tr at h
  cases hwf : q.wf with
  | false => simp [hwf] at h
  | true =>
    simp only [hwf, Bool.not_true, Bool.false_eq_true, if_false] at h
    cases hwo : S1.whereOf km q.base with
    | none => rw [hwo] at h; cases h
    | some w =>
      rw [hwo] at h
      simp only [Option.some.injEq] at h
      subst h
      obtain ⟨ty, hw⟩ := bWhere km q.base w hwo
      obtain ⟨cols, hcols⟩ := bProjItems q.base.var q.base.items
      have hcols' : bProj Γ0 ⟨[s0Rel], [[s0Rel]]⟩ [s0Rel] (q.base.items.map (S1.Item.tr q.base.var)) = some cols := hcols
      have hfr := bFrame w ty hw
      unfold frameSel at hfr
      unfold wellScoped
      rw [bStmt, bQuery, bCtes]
      case x_2 => intro _ _ _ _ _ _ _ _ hh; cases hh
      simp only [Scope.empty, Scope.withCtes, hfr, Option.bind_eq_bind, Option.bind_some, bShape, List.contains_nil, Bool.false_eq_true,
        if_false, bCtes]
      rw [bSetExpr]
      have hs0 : (⟨"s0", [⟨"n0", "nodecomposite"⟩]⟩ : Rel) = s0Rel := rfl
      simp only [hs0, hFromO, Scope.push, Option.bind_eq_bind, Option.bind_some, bOpt, hcols', bGroupBy, Option.pure_def, isSelect, bOrderBy,
        Option.isSome_some]

theorem tr9_wellScoped (flipOf : C01.S2.Query → Bool) (flipCh : C01.Ch.Query → Bool) (flipN : C01.S2n.Query → Bool) (fast prune push : Bool) (km : KindMap)
    (q : Cy.Query) (st : Stmt) (ps : List (String × Val)) (h : C01.tr9F flipOf flipCh flipN fast prune push km q = some (st, ps)) :
    wellScoped Γ0 st = true ∧ ps = [] := by
  unfold C01.tr9F at h
  cases ho : C01.ofCyDistinct q with
  | none => rw [ho] at h; exact tr8_wellScoped flipOf flipCh flipN fast prune push km q st ps h
  | some s =>
    rw [ho] at h
    simp only [Option.map_eq_some_iff] at h
    obtain ⟨st', hst, heq⟩ := h
    cases heq
    exact ⟨tr_wellScopedDist km s _ hst, rfl⟩

-- ------------------------------------------------------------------ stage S2x: a hop whose WHERE compares properties of a and b

namespace CrossB
open Dawgs.C01.S2 Hop

/-- the hop frame with an arbitrary WHERE that binds where e0, n0 and n1 are visible (either join order), and any constraint on the join of n1 -/
theorem bFrame2G (km : KindMap) (flip : Bool) (ke ka' kb' : Bool) (ka : Option (List Nat)) (psa : List S1.Pred) (pa : Option Expr)
    (hpa : predsE km "n0" false psa = some pa) (cb : Option Expr)
    (hcb : ∀ lvl, ColsAt ⟨[], [lvl]⟩ "n1" false → BindsOpt ⟨[], [lvl]⟩ cb)
    (wh : Option Expr) (hwh : ∀ lvl, ColsAt ⟨[], [lvl]⟩ "e0" true → ColsAt ⟨[], [lvl]⟩ "n0" false → ColsAt ⟨[], [lvl]⟩ "n1" false → BindsOpt ⟨[], [lvl]⟩ wh) :
    bQuery Γ0 ⟨[], []⟩ (.mk false [] (.select false (frameProj ke ka' kb')
      [.mk (.table ["edge"] (some "e0"))
        (if flip then [.mk .inner (.table ["node"] (some "n1")) (some (joinOnC "n1" "end_id" cb)),
                       .mk .inner (.table ["node"] (some "n0")) (some (joinOnC "n0" "start_id" (both pa (nodeKindsE "n0" ka))))]
         else [.mk .inner (.table ["node"] (some "n0")) (some (joinOnC "n0" "start_id" (both pa (nodeKindsE "n0" ka)))),
               .mk .inner (.table ["node"] (some "n1")) (some (joinOnC "n1" "end_id" cb))])]
      wh [] none) [] none none) = some (keptColsB ke ka' kb') := by
  have onA : ∀ (lvl : List Rel), bExpr Γ0 ⟨[], [lvl]⟩ (.compound ["n0", "id"]) = some "int8" → bExpr Γ0 ⟨[], [lvl]⟩ (.compound ["n0", "properties"]) = some "jsonb" →
      bExpr Γ0 ⟨[], [lvl]⟩ (.compound ["n0", "kind_ids"]) = some "int2[]" → bExpr Γ0 ⟨[], [lvl]⟩ (.compound ["e0", "start_id"]) = some "int8" →
      BindsOpt ⟨[], [lvl]⟩ (some (joinOnC "n0" "start_id" (both pa (nodeKindsE "n0" ka)))) := by
    intro lvl h1 h2 h3 h4
    have H := colsAt_J lvl "n0" false h1 h2 ⟨_, h3⟩
    exact bJoinOnC _ _ _ _ (bBoth _ _ _ (bPredsE km _ _ _ H psa pa hpa) (bNodeKindsE _ _ H ka)) ⟨_, h1⟩ ⟨_, h4⟩
  have onB : ∀ (lvl : List Rel), bExpr Γ0 ⟨[], [lvl]⟩ (.compound ["n1", "id"]) = some "int8" → bExpr Γ0 ⟨[], [lvl]⟩ (.compound ["n1", "properties"]) = some "jsonb" →
      bExpr Γ0 ⟨[], [lvl]⟩ (.compound ["n1", "kind_ids"]) = some "int2[]" → bExpr Γ0 ⟨[], [lvl]⟩ (.compound ["e0", "end_id"]) = some "int8" →
      BindsOpt ⟨[], [lvl]⟩ (some (joinOnC "n1" "end_id" cb)) := by
    intro lvl h1 h2 h3 h4
    have H := colsAt_J lvl "n1" false h1 h2 ⟨_, h3⟩
    exact bJoinOnC _ _ _ _ (hcb lvl H) ⟨_, h1⟩ ⟨_, h4⟩
  rw [bQuery, bCtes]
  simp only [Scope.withCtes, Option.bind_eq_bind, Option.bind_some]
  rw [bSetExpr]
  cases flip with
  | false =>
    have hfrom := bFrom2 "n0" "n1" (Or.inl ⟨rfl, rfl⟩) _ _
      (onA [eRel, nRel "n0"] (by decide +kernel) (by decide +kernel) (by decide +kernel) (by decide +kernel))
      (onB [eRel, nRel "n0", nRel "n1"] (by decide +kernel) (by decide +kernel) (by decide +kernel) (by decide +kernel))
    obtain ⟨tw, hw⟩ := hwh [eRel, nRel "n0", nRel "n1"]
      (colsAt_J _ "e0" true (by decide +kernel) (by decide +kernel) ⟨_, (by decide +kernel : bExpr Γ0 ⟨[], [[eRel, nRel "n0", nRel "n1"]]⟩ (.compound ["e0", "kind_id"]) = some "int2")⟩)
      (colsAt_J _ "n0" false (by decide +kernel) (by decide +kernel) ⟨_, (by decide +kernel : bExpr Γ0 ⟨[], [[eRel, nRel "n0", nRel "n1"]]⟩ (.compound ["n0", "kind_ids"]) = some "int2[]")⟩)
      (colsAt_J _ "n1" false (by decide +kernel) (by decide +kernel) ⟨_, (by decide +kernel : bExpr Γ0 ⟨[], [[eRel, nRel "n0", nRel "n1"]]⟩ (.compound ["n1", "kind_ids"]) = some "int2[]")⟩)
    have hproj : bProj Γ0 ⟨[], [[eRel, nRel "n0", nRel "n1"]]⟩ [eRel, nRel "n0", nRel "n1"] (frameProj ke ka' kb') = some (keptColsB ke ka' kb') := by
      cases ke <;> cases ka' <;> cases kb' <;> decide +kernel
    simp only [Bool.false_eq_true, if_false, hfrom, Scope.push, Option.bind_eq_bind, Option.bind_some, hw, hproj, bGroupBy, bOrderBy,
      Option.pure_def, show ∀ sc, bOpt Γ0 sc none = some "" from fun _ => rfl]
  | true =>
    have hfrom := bFrom2 "n1" "n0" (Or.inr ⟨rfl, rfl⟩) _ _
      (onB [eRel, nRel "n1"] (by decide +kernel) (by decide +kernel) (by decide +kernel) (by decide +kernel))
      (onA [eRel, nRel "n1", nRel "n0"] (by decide +kernel) (by decide +kernel) (by decide +kernel) (by decide +kernel))
    obtain ⟨tw, hw⟩ := hwh [eRel, nRel "n1", nRel "n0"]
      (colsAt_J _ "e0" true (by decide +kernel) (by decide +kernel) ⟨_, (by decide +kernel : bExpr Γ0 ⟨[], [[eRel, nRel "n1", nRel "n0"]]⟩ (.compound ["e0", "kind_id"]) = some "int2")⟩)
      (colsAt_J _ "n0" false (by decide +kernel) (by decide +kernel) ⟨_, (by decide +kernel : bExpr Γ0 ⟨[], [[eRel, nRel "n1", nRel "n0"]]⟩ (.compound ["n0", "kind_ids"]) = some "int2[]")⟩)
      (colsAt_J _ "n1" false (by decide +kernel) (by decide +kernel) ⟨_, (by decide +kernel : bExpr Γ0 ⟨[], [[eRel, nRel "n1", nRel "n0"]]⟩ (.compound ["n1", "kind_ids"]) = some "int2[]")⟩)
    have hproj : bProj Γ0 ⟨[], [[eRel, nRel "n1", nRel "n0"]]⟩ [eRel, nRel "n1", nRel "n0"] (frameProj ke ka' kb') = some (keptColsB ke ka' kb') := by
      cases ke <;> cases ka' <;> cases kb' <;> decide +kernel
    simp only [if_true, hfrom, Scope.push, Option.bind_eq_bind, Option.bind_some, hw, hproj, bGroupBy, bOrderBy, Option.pure_def,
      show ∀ sc, bOpt Γ0 sc none = some "" from fun _ => rfl]

theorem colsAt_frame (sc : Scope) (He : ColsAt sc "e0" true) (Ha : ColsAt sc "n0" false) (Hb : ColsAt sc "n1" false) (x : S2.Ref) :
    Binds sc (.compound [frameName x, "properties"]) := by
  cases x
  · exact Ha.props
  · exact He.props
  · exact Hb.props

theorem bCross (sc : Scope) (He : ColsAt sc "e0" true) (Ha : ColsAt sc "n0" false) (Hb : ColsAt sc "n1" false) (c : S2x.Cross) : Binds sc c.tr :=
  bx_bin sc _ _ _ (bx_bin sc _ _ _ (colsAt_frame sc He Ha Hb c.x) (bx_lit sc _ _)) (bx_bin sc _ _ _ (colsAt_frame sc He Ha Hb c.y) (bx_lit sc _ _))

theorem bCrossAnd (sc : Scope) (He : ColsAt sc "e0" true) (Ha : ColsAt sc "n0" false) (Hb : ColsAt sc "n1" false) :
    ∀ (cs : List S2x.Cross) (e : Expr), S2x.crossAnd cs = some e → Binds sc e
  | [], e, h => by simp [S2x.crossAnd] at h
  | [c], e, h => by simp only [S2x.crossAnd, Option.some.injEq] at h; subst h; exact bCross sc He Ha Hb c
  | c :: c' :: cs, e, h => by
    simp only [S2x.crossAnd, Option.map_eq_some_iff] at h
    obtain ⟨r, hr, rfl⟩ := h
    exact bx_bin sc _ _ _ (bCross sc He Ha Hb c) (bCrossAnd sc He Ha Hb (c' :: cs) r hr)

theorem bRightUser (km : KindMap) (sc : Scope) (He : ColsAt sc "e0" true) (Ha : ColsAt sc "n0" false) (Hb : ColsAt sc "n1" false)
    (q : S2x.Query) (ru : Expr) (h : q.rightUser km = some ru) : Binds sc ru := by
  unfold S2x.Query.rightUser at h
  cases hca : S2x.crossAnd q.cross with
  | none => rw [hca] at h; cases h
  | some ab =>
    rw [hca] at h
    simp only at h
    have hab := bCrossAnd sc He Ha Hb q.cross ab hca
    cases hemp : (q.base.preds .b).isEmpty with
    | true =>
      simp only [hemp, if_true, Option.some.injEq] at h
      subst h
      exact bx_paren sc _ hab
    | false =>
      simp only [hemp, Bool.false_eq_true, if_false, Option.map_eq_some_iff] at h
      obtain ⟨pb, hpb, rfl⟩ := h
      have hb := bPredsAnd km sc "n1" false Hb (q.base.preds .b) pb hpb
      cases q.bFirst with
      | true => exact bx_paren sc _ (bx_bin sc _ _ _ hb hab)
      | false => exact bx_paren sc _ (bx_bin sc _ _ _ hab hb)

/-- THE FRAGMENT THEOREM, stage S2x: the hop statement whose frame WHERE also holds the conjuncts over b and the two-variable conjuncts
passes the binder, in either join order (the WHERE is bound where e0, n0 and n1 are all visible; the join condition of n1 reads n1 and e0 only) -/
theorem tr_wellScopedX (km : KindMap) (q : S2x.Query) (flip prune : Bool) (st : Stmt) (h : q.stmtWith km flip prune = some st) : wellScoped Γ0 st = true := by
  unfold S2x.Query.stmtWith at h
  cases hwf : q.wf with
  | false => simp [hwf] at h
  | true =>
    simp only [hwf, Bool.not_true, Bool.false_eq_true, if_false] at h
    cases hka : kindIds? km q.akinds with
    | none => simp [hka] at h
    | some ka =>
    cases hkr : kindIds? km q.rkinds with
    | none => simp [hka, hkr] at h
    | some kr =>
    cases hkb : kindIds? km q.bkinds with
    | none => simp [hka, hkr, hkb] at h
    | some kb =>
    cases hpa : predsE km "n0" false (q.base.preds .a) with
    | none => simp [hka, hkr, hkb, hpa] at h
    | some pa =>
    cases hpr : predsE km "e0" true (q.base.preds .r) with
    | none => simp [hka, hkr, hkb, hpa, hpr] at h
    | some pr =>
    cases hru : q.rightUser km with
    | none => simp [hka, hkr, hkb, hpa, hpr, hru] at h
    | some ru =>
    simp only [hka, hkr, hkb, hpa, hpr, hru, Option.some.injEq] at h
    subst h
    have hkeep : ∀ it ∈ q.items, keepOfB (!prune || q.base.reads .r) true true it.ref = true := by
      intro it hit
      have hr : q.base.reads it.ref = true := by
        unfold S2.Query.reads
        simp only [Bool.or_eq_true, List.any_eq_true]
        exact Or.inl ⟨it, hit, by simp⟩
      cases hx : it.ref <;> (rw [hx] at hr; simp [keepOfB, hr])
    obtain ⟨cols, hcols⟩ := bProjItems2 q.base _ _ _ q.items hkeep
    have hedge : ∀ lvl, ColsAt ⟨[], [lvl]⟩ "e0" true → BindsOpt ⟨[], [lvl]⟩ (both pr (kr.map (fun ids => .bin "=" (col "e0" "kind_id") (.anyOf (kindsLit ids))))) := by
      intro lvl H
      refine bBoth _ _ _ (bPredsE km _ _ _ H (q.base.preds .r) pr hpr) ?_
      cases kr with
      | none => exact bindsOpt_none _
      | some ids => exact bindsOpt_some _ _ (bx_bin _ _ _ _ H.kind (bx_anyOf _ _ (bx_lit _ _ _)))
    have hfr := bFrame2G km flip (!prune || q.base.reads .r) true true ka (q.base.preds .a) pa hpa (nodeKindsE "n1" kb)
      (fun lvl H => bNodeKindsE _ _ H kb)
      (if flip then both (both pr (kr.map (fun ids => .bin "=" (col "e0" "kind_id") (.anyOf (kindsLit ids))))) (some ru)
        else both (some ru) (both pr (kr.map (fun ids => .bin "=" (col "e0" "kind_id") (.anyOf (kindsLit ids))))))
      (fun lvl He Ha Hb => by
        have h1 := hedge lvl He
        have h2 := bindsOpt_some _ _ (bRightUser km _ He Ha Hb q ru hru)
        cases flip
        · exact bBoth _ _ _ h2 h1
        · exact bBoth _ _ _ h1 h2)
    unfold wellScoped
    rw [bStmt, bQuery, bCtes]
    case x_2 => intro _ _ _ _ _ _ _ _ hh; cases hh
    simp only [Scope.empty, Scope.withCtes, hfr, Option.bind_eq_bind, Option.bind_some, bShape, List.contains_nil, Bool.false_eq_true,
      if_false, bCtes]
    rw [bSetExpr]
    have hs0 : (⟨"s0", keptColsB (!prune || q.base.reads .r) true true⟩ : Rel) = s0RelK (!prune || q.base.reads .r) true true := rfl
    simp only [hs0, hFromOK, Scope.push, Option.bind_eq_bind, Option.bind_some, show ∀ sc, bOpt Γ0 sc none = some "" from fun _ => rfl,
      hcols, bGroupBy, Option.pure_def, bOrderBy, Option.isSome_some]

end CrossB

theorem tr10_wellScoped (flipOf : C01.S2.Query → Bool) (flipCh : C01.Ch.Query → Bool) (flipN : C01.S2n.Query → Bool) (flipX : C01.S2x.Query → Bool)
    (fast prune push : Bool) (km : KindMap)
    (q : Cy.Query) (st : Stmt) (ps : List (String × Val)) (h : C01.tr10F flipOf flipCh flipN flipX fast prune push km q = some (st, ps)) :
    wellScoped Γ0 st = true ∧ ps = [] := by
  unfold C01.tr10F at h
  cases ho : C01.ofCyCross q with
  | none => rw [ho] at h; exact tr9_wellScoped flipOf flipCh flipN fast prune push km q st ps h
  | some s =>
    rw [ho] at h
    simp only [Option.map_eq_some_iff] at h
    obtain ⟨st', hst, heq⟩ := h
    cases heq
    exact ⟨CrossB.tr_wellScopedX km s _ _ _ hst, rfl⟩

end Dawgs.C03.Frag
