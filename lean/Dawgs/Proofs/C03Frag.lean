import Dawgs.Model.C01
import Dawgs.Model.C01S2
import Dawgs.Model.C03Bind
import Dawgs.Model.SqlSchema
/-
C03 on the C01 fragment: every statement the model translator `tr` produces (stage S1) is accepted by the verified binder under the
schema catalogue, with no parameters.
-/
namespace Dawgs.C03.Frag
open Dawgs Dawgs.Sql Dawgs.C01

def Γ0 : Env := ⟨schema, [], false⟩

/-- the scope inside the node frame `s0`: the `node` table under the alias n0 -/
def nodeRel : Rel := ⟨"n0", [⟨"id", "int8"⟩, ⟨"graph_id", "int4"⟩, ⟨"kind_ids", "int2[]"⟩, ⟨"properties", "jsonb"⟩]⟩

def scN : Scope := ⟨[], [[nodeRel]]⟩

theorem bType_jsonb : bType Γ0.cat "jsonb" = some () := by decide +kernel
theorem bType_int8 : bType Γ0.cat "int8" = some () := by decide +kernel

theorem b_arrow (k : String) : bExpr Γ0 scN (.bin "->" (S1.innerCol "properties") (S1.strLit k)) = some "" := rfl
theorem b_intLit (i : Int) : bExpr Γ0 scN (S1.intLit i) = some "int8" := rfl

theorem b_cast (e : Expr) (ty t : String) (he : bExpr Γ0 scN e = some t) (hty : bType Γ0.cat ty = some ()) :
    bExpr Γ0 scN (.cast e ty) = some ty := by
  rw [bExpr, he]
  simp only [bind, Option.bind, hty, pure]

theorem b_bin (op : String) (l r : Expr) (tl tr : String) (hl : bExpr Γ0 scN l = some tl) (hr : bExpr Γ0 scN r = some tr)
    (hop : (op == "||") = false) : bExpr Γ0 scN (.bin op l r) = some "" := by
  rw [bExpr, hl, hr]
  simp only [bind, Option.bind, pure, hop, Bool.false_eq_true, if_false]

theorem b_un (op : String) (e : Expr) (t : String) (he : bExpr Γ0 scN e = some t) : bExpr Γ0 scN (.un op e) = some "" := by
  rw [bExpr, he]; rfl

theorem b_paren (e : Expr) (t : String) (he : bExpr Γ0 scN e = some t) : bExpr Γ0 scN (.paren e) = some t := by
  rw [bExpr, he]

theorem b_tojsonb (e : Expr) (t : String) (he : bExpr Γ0 scN e = some t) :
    bExpr Γ0 scN (.call "to_jsonb" [e] false false "jsonb") = some "jsonb" := by
  rw [bExpr, bExprs, he, bExprs]
  have hf : bFunc "to_jsonb" Γ0.cat.funcs = some ⟨"to_jsonb", [1], false, "jsonb", []⟩ := by decide +kernel
  simp only [bind, Option.bind, pure, hf, bType_jsonb]
  have h1 : (⟨"to_jsonb", [1], false, "jsonb", []⟩ : Func).accepts [e].length = true := by show Func.accepts _ 1 = true; decide
  have h2 : (knownTy "jsonb" == "") = false := by decide
  simp only [h1, h2, if_true, Bool.false_eq_true, if_false]

theorem b_jsonNull : bExpr Γ0 scN S1.jsonNull = some "jsonb" := b_cast _ _ _ (rfl : bExpr Γ0 scN (.lit (.str "null") "text") = some "text") bType_jsonb

theorem b_propEqInt (neg : Bool) (k : String) (i : Int) :
    bExpr Γ0 scN (.bin (if neg then "<>" else "=") (.cast (.bin "->" (S1.innerCol "properties") (S1.strLit k)) "jsonb")
      (.call "to_jsonb" [.cast (S1.intLit i) "int8"] false false "jsonb")) = some "" :=
  b_bin _ _ _ _ _ (b_cast _ _ _ (b_arrow k) bType_jsonb) (b_tojsonb _ _ (b_cast _ _ _ (b_intLit i) bType_int8)) (by cases neg <;> decide)

theorem b_haskey (k : String) : bExpr Γ0 scN (.bin "?" (S1.innerCol "properties") (S1.strLit k)) = some "" := rfl

theorem b_isNull (k : String) : bExpr Γ0 scN (.bin "=" (.bin "->" (S1.innerCol "properties") (S1.strLit k)) S1.jsonNull) = some "" :=
  b_bin _ _ _ _ _ (b_arrow k) b_jsonNull (by decide)

/-- every lowered S1 predicate binds in the node frame (type: untyped boolean expression) -/
theorem bPred (km : KindMap) : ∀ (p : S1.Pred) (e : Expr), S1.Pred.tr km p = some e → bExpr Γ0 scN e = some ""
  | .propEqStr k s, e, he => by simp only [S1.Pred.tr, Option.some.injEq] at he; subst he; rfl
  | .propEqInt neg k i, e, he => by simp only [S1.Pred.tr, Option.some.injEq] at he; subst he; exact b_propEqInt neg k i
  | .propIsNull k, e, he => by
    simp only [S1.Pred.tr, Option.some.injEq] at he; subst he
    exact b_paren _ _ (b_bin _ _ _ _ _ (b_un _ _ _ (b_haskey k)) (b_isNull k) (by decide))
  | .propNotNull k, e, he => by
    simp only [S1.Pred.tr, Option.some.injEq] at he; subst he
    exact b_paren _ _ (b_bin _ _ _ _ _ (b_haskey k) (b_un _ _ _ (b_isNull k)) (by decide))
  | .idCmp op i, e, he => by simp only [S1.Pred.tr, Option.some.injEq] at he; subst he; cases op <;> rfl
  | .kinds ks, e, he => by
    simp only [S1.Pred.tr] at he
    cases hm : ks.mapM km.id? with
    | none => rw [hm] at he; cases he
    | some ids => rw [hm] at he; cases he; rfl
  | .and p q, e, he => by
    simp only [S1.Pred.tr] at he
    cases hp : S1.Pred.tr km p with
    | none => simp [hp, bind, Option.bind] at he
    | some a =>
      cases hq : S1.Pred.tr km q with
      | none => simp [hp, hq, bind, Option.bind] at he
      | some b =>
        simp [hp, hq, bind, Option.bind] at he
        subst he
        rw [bExpr, bPred km p a hp, bPred km q b hq]
        rfl
  | .or p q, e, he => by
    simp only [S1.Pred.tr] at he
    cases hp : S1.Pred.tr km p with
    | none => simp [hp, bind, Option.bind] at he
    | some a =>
      cases hq : S1.Pred.tr km q with
      | none => simp [hp, hq, bind, Option.bind] at he
      | some b =>
        simp [hp, hq, bind, Option.bind] at he
        subst he
        rw [bExpr, bPred km p a hp, bPred km q b hq]
        rfl
  | .not p, e, he => by
    simp only [S1.Pred.tr] at he
    cases hp : S1.Pred.tr km p with
    | none => simp [hp, bind, Option.bind] at he
    | some a =>
      simp [hp, bind, Option.bind] at he
      subst he
      rw [bExpr, bPred km p a hp]
      rfl
  | .paren p, e, he => by
    simp only [S1.Pred.tr] at he
    cases hp : S1.Pred.tr km p with
    | none => simp [hp, bind, Option.bind] at he
    | some a =>
      simp [hp, bind, Option.bind] at he
      subst he
      rw [bExpr, bPred km p a hp]

/-- the frame's WHERE binds -/
theorem bWhere (km : KindMap) (s : S1.Query) (w : Option Expr) (h : S1.whereOf km s = some w) : ∃ ty, bOpt Γ0 scN w = some ty := by
  unfold S1.whereOf at h
  cases hk : s.kinds.isEmpty with
  | true =>
    simp only [hk, if_true] at h
    cases hwh : s.wh with
    | none => rw [hwh] at h; cases h; exact ⟨_, rfl⟩
    | some p =>
      rw [hwh] at h
      simp only at h
      cases hp : S1.Pred.tr km p with
      | none => rw [hp] at h; cases h
      | some pe =>
        rw [hp] at h; cases h
        refine ⟨"", ?_⟩
        rw [bOpt, bExpr]; exact bPred km p pe hp
  | false =>
    simp only [hk, Bool.false_eq_true, if_false] at h
    cases hkt : S1.Pred.tr km (.kinds s.kinds) with
    | none => rw [hkt] at h; cases hwh : s.wh <;> (rw [hwh] at h; cases h)
    | some ke =>
      rw [hkt] at h
      cases hwh : s.wh with
      | none => rw [hwh] at h; cases h; exact ⟨"", by rw [bOpt]; exact bPred km _ ke hkt⟩
      | some p =>
        rw [hwh] at h
        simp only [Option.map_some] at h
        cases hp : S1.Pred.tr km p with
        | none => rw [hp] at h; cases h
        | some pe =>
          rw [hp] at h; cases h
          refine ⟨"", ?_⟩
          rw [bOpt, bExpr, bExpr, bPred km p pe hp, bPred km _ ke hkt]
          rfl

-- ------------------------------------------------------------------ the node frame

def frameSel (w : Option Expr) : SetExpr := .select false [S1.nodeComposite] [.mk (.table ["node"] (some "n0")) []] w [] none

theorem hFrom : bFromClauses Γ0 ⟨[], []⟩ [] [.mk (.table ["node"] (some "n0")) []] = some [nodeRel] := by decide +kernel

theorem hProjN : bProj Γ0 scN [nodeRel] [S1.nodeComposite] = some [⟨"n0", "nodecomposite"⟩] := by decide +kernel

theorem bFrame (w : Option Expr) (ty : String) (hw : bOpt Γ0 scN w = some ty) :
    bQuery Γ0 ⟨[], []⟩ (Query.simple (frameSel w)) = some [⟨"n0", "nodecomposite"⟩] := by
  have hw' : bOpt Γ0 ⟨[], [[nodeRel]]⟩ w = some ty := hw
  have hp' : bProj Γ0 ⟨[], [[nodeRel]]⟩ [nodeRel] [S1.nodeComposite] = some [⟨"n0", "nodecomposite"⟩] := hProjN
  unfold Query.simple frameSel
  rw [bQuery, bCtes]
  simp only [Scope.withCtes, Option.bind_eq_bind, Option.bind_some]
  rw [bSetExpr]
  simp only [hFrom, Scope.push, Option.bind_eq_bind, Option.bind_some, hw', hp', bGroupBy, bOpt, bOrderBy, Option.pure_def]

-- ------------------------------------------------------------------ the outer select and the whole statement

def s0Rel : Rel := ⟨"s0", [⟨"n0", "nodecomposite"⟩]⟩
def scO : Scope := ⟨[s0Rel], [[s0Rel]]⟩

theorem hFromO : bFromClauses Γ0 ⟨[s0Rel], []⟩ [] [.mk (.table ["s0"] none) []] = some [s0Rel] := by decide +kernel

theorem b_outerId : bExpr Γ0 scO (S1.outerCol "id") = some "int8" := by decide +kernel

theorem bItem (v : String) (it : S1.Item) : ∃ ty, bExpr Γ0 scO (it.tr v) = some ty := by
  cases it with
  | node a => exact ⟨_, rfl⟩
  | prop k a => cases a <;> exact ⟨_, rfl⟩
  | id a => cases a <;> exact ⟨_, rfl⟩

theorem item_not_wildcard (v : String) (it : S1.Item) : it.tr v ≠ .wildcard := by
  cases it with
  | node a => intro hh; cases hh
  | prop k a => cases a <;> (intro hh; cases hh)
  | id a => cases a <;> (intro hh; simp only [S1.Item.tr, S1.outerCol] at hh; cases hh)

theorem bProjItems (v : String) : ∀ (items : List S1.Item), ∃ cols, bProj Γ0 scO [s0Rel] (items.map (S1.Item.tr v)) = some cols
  | [] => ⟨[], by rw [List.map_nil, bProj]⟩
  | it :: items => by
    obtain ⟨ty, hty⟩ := bItem v it
    obtain ⟨cols, hcols⟩ := bProjItems v items
    refine ⟨⟨figureName (it.tr v), ty⟩ :: cols, ?_⟩
    rw [List.map_cons, bProj]
    · simp only [hty, hcols, Option.bind_eq_bind, Option.bind_some, Option.pure_def]
    · intro hh; exact item_not_wildcard v it hh

theorem bOrderKeys (out : List Col) (o : Option S1.Order) : bOrderBy Γ0 scO out true (S1.orderKeysS o) = some () := by
  cases o with
  | none => simp only [S1.orderKeysS, bOrderBy]
  | some o =>
    simp only [S1.orderKeysS]
    rw [bOrderBy]
    have hb : bareName (S1.outerCol "id") = none := rfl
    simp only [hb, if_true, b_outerId, Option.bind_eq_bind, Option.bind_some, bOrderBy, Option.pure_def]

theorem bCut (sc : Scope) (k : Option Nat) : ∃ ty, bOpt Γ0 sc (k.map S1.natLitS) = some ty := by
  cases k with
  | none => exact ⟨_, rfl⟩
  | some k => exact ⟨_, rfl⟩

/-- THE FRAGMENT THEOREM: every statement of stage S1 passes the verified binder under the schema catalogue with no parameters -/
theorem tr_wellScoped (km : KindMap) (s : S1.Query) (st : Stmt) (h : s.tr km = some st) : wellScoped Γ0 st = true := by
  unfold S1.Query.tr at h
  cases hwf : s.wf with
  | false => simp [hwf] at h
  | true =>
    simp only [hwf, Bool.not_true, Bool.false_eq_true, if_false] at h
    cases hwo : S1.whereOf km s with
    | none => rw [hwo] at h; cases h
    | some w =>
      rw [hwo] at h
      simp only [Option.some.injEq] at h
      subst h
      obtain ⟨ty, hw⟩ := bWhere km s w hwo
      obtain ⟨cols, hcols⟩ := bProjItems s.var s.items
      have hcols' : bProj Γ0 ⟨[s0Rel], [[s0Rel]]⟩ [s0Rel] (s.items.map (S1.Item.tr s.var)) = some cols := hcols
      have hfr := bFrame w ty hw
      unfold frameSel at hfr
      have h1' : ∃ t1, bOpt Γ0 ⟨[s0Rel], []⟩ (s.order.bind (fun o => o.skip.map S1.natLitS)) = some t1 := by
        cases s.order with
        | none => exact ⟨_, rfl⟩
        | some o => exact bCut _ o.skip
      have h2' : ∃ t2, bOpt Γ0 ⟨[s0Rel], []⟩ (s.order.bind (fun o => o.limit.map S1.natLitS)) = some t2 := by
        cases s.order with
        | none => exact ⟨_, rfl⟩
        | some o => exact bCut _ o.limit
      obtain ⟨t1, h1'⟩ := h1'
      obtain ⟨t2, h2'⟩ := h2'
      have hob : bOrderBy Γ0 ⟨[s0Rel], [[s0Rel]]⟩ cols true (S1.orderKeysS s.order) = some () := bOrderKeys cols s.order
      unfold wellScoped
      rw [bStmt, bQuery, bCtes]
      case x_2 => intro _ _ _ _ _ _ _ _ hh; cases hh
      simp only [Scope.empty, Scope.withCtes, hfr, Option.bind_eq_bind, Option.bind_some, bShape, List.contains_nil, Bool.false_eq_true,
        if_false, bCtes]
      rw [bSetExpr]
      have hs0 : (⟨"s0", [⟨"n0", "nodecomposite"⟩]⟩ : Rel) = s0Rel := rfl
      simp only [hs0, hFromO, Scope.push, Option.bind_eq_bind, Option.bind_some, bOpt, hcols', bGroupBy, Option.pure_def, isSelect, hob, h1', h2',
        Option.isSome_some]

-- ------------------------------------------------------------------ stage S2a: one directed hop

namespace Hop
open Dawgs.C01.S2

def joinsOf (ka kb : Option (List Nat)) : List Join :=
  let ja : Join := .mk .inner (.table ["node"] (some "n0")) (some (joinOn "n0" "start_id" ka))
  let jb : Join := .mk .inner (.table ["node"] (some "n1")) (some (joinOn "n1" "end_id" kb))
  if ka.isNone && kb.isSome then [jb, ja] else [ja, jb]

def whOf (kr : Option (List Nat)) : Option Expr := kr.map (fun ids => .bin "=" (col "e0" "kind_id") (.anyOf (kindsLit ids)))

def frameQ (ka kr kb : Option (List Nat)) : Sql.Query :=
  Sql.Query.simple (.select false [edgeComposite, nodeCompositeOf "n0", nodeCompositeOf "n1"] [.mk (.table ["edge"] (some "e0")) (joinsOf ka kb)] (whOf kr) [] none)

def frameCols : List Col := [⟨"e0", "edgecomposite"⟩, ⟨"n0", "nodecomposite"⟩, ⟨"n1", "nodecomposite"⟩]

/-- the hop frame binds for every choice of kind constraints (the kind-id lists are literals: their content is never inspected) -/
theorem bFrame2 (ka kr kb : Option (List Nat)) : bQuery Γ0 ⟨[], []⟩ (frameQ ka kr kb) = some frameCols := by
  cases ka <;> cases kb <;> cases kr <;> rfl

def s0Rel2 : Rel := ⟨"s0", frameCols⟩
def scO2 : Scope := ⟨[s0Rel2], [[s0Rel2]]⟩

theorem hFromO2 : bFromClauses Γ0 ⟨[s0Rel2], []⟩ [] [.mk (.table ["s0"] none) []] = some [s0Rel2] := by decide +kernel

theorem bItem2 (q : S2.Query) (it : S2.Item) : ∃ ty, bExpr Γ0 scO2 (it.tr q) = some ty := by
  cases it with
  | ent x al => cases x <;> exact ⟨_, rfl⟩
  | idOf x al => cases x <;> cases al <;> exact ⟨_, rfl⟩
  | prop x k al => cases x <;> cases al <;> exact ⟨_, rfl⟩

theorem item2_not_wildcard (q : S2.Query) (it : S2.Item) : it.tr q ≠ .wildcard := by
  cases it with
  | ent x al => intro hh; cases hh
  | idOf x al => cases al <;> (intro hh; cases hh)
  | prop x k al => cases al <;> (intro hh; cases hh)

theorem bProjItems2 (q : S2.Query) : ∀ (items : List S2.Item), ∃ cols, bProj Γ0 scO2 [s0Rel2] (items.map (S2.Item.tr q)) = some cols
  | [] => ⟨[], by rw [List.map_nil, bProj]⟩
  | it :: items => by
    obtain ⟨ty, hty⟩ := bItem2 q it
    obtain ⟨cols, hcols⟩ := bProjItems2 q items
    refine ⟨⟨figureName (it.tr q), ty⟩ :: cols, ?_⟩
    rw [List.map_cons, bProj]
    · simp only [hty, hcols, Option.bind_eq_bind, Option.bind_some, Option.pure_def]
    · intro hh; exact item2_not_wildcard q it hh

/-- THE FRAGMENT THEOREM, stage S2a: every one-hop statement passes the verified binder under the schema catalogue with no parameters -/
theorem tr_wellScoped2 (km : KindMap) (s : S2.Query) (st : Stmt) (h : s.tr km = some st) : wellScoped Γ0 st = true := by
  unfold S2.Query.tr at h
  cases hwf : s.wf with
  | false => simp [hwf] at h
  | true =>
    simp only [hwf, Bool.not_true, Bool.false_eq_true, if_false] at h
    cases hka : kindIds? km s.akinds with
    | none => simp [hka] at h
    | some ka =>
      cases hkr : kindIds? km s.rkinds with
      | none => simp [hka, hkr] at h
      | some kr =>
        cases hkb : kindIds? km s.bkinds with
        | none => simp [hka, hkr, hkb] at h
        | some kb =>
          simp only [hka, hkr, hkb, Option.some.injEq] at h
          subst h
          obtain ⟨cols, hcols⟩ := bProjItems2 s s.items
          have hcols' : bProj Γ0 ⟨[s0Rel2], [[s0Rel2]]⟩ [s0Rel2] (s.items.map (S2.Item.tr s)) = some cols := hcols
          have hfr := bFrame2 ka kr kb
          unfold frameQ joinsOf whOf at hfr
          unfold wellScoped
          rw [bStmt, bQuery, bCtes]
          case x_2 => intro _ _ _ _ _ _ _ _ hh; cases hh
          simp only [Scope.empty, Scope.withCtes, hfr, Option.bind_eq_bind, Option.bind_some, bShape, List.contains_nil, Bool.false_eq_true,
            if_false, bCtes]
          rw [bSetExpr]
          have hs0 : (⟨"s0", frameCols⟩ : Rel) = s0Rel2 := rfl
          simp only [hs0, hFromO2, Scope.push, Option.bind_eq_bind, Option.bind_some, bOpt, hcols', bGroupBy, Option.pure_def, isSelect, bOrderBy,
            Option.isSome_some]

end Hop

/-- both proved stages: every statement of `tr2` is closed and carries no parameters -/
theorem tr2_wellScoped (km : KindMap) (q : Cy.Query) (st : Stmt) (ps : List (String × Val)) (h : C01.tr2 km q = some (st, ps)) :
    wellScoped Γ0 st = true ∧ ps = [] := by
  unfold C01.tr2 at h
  cases h1 : C01.tr km q with
  | some r =>
    rw [h1] at h; cases h
    unfold C01.tr at h1
    cases ho : C01.ofCy q with
    | none => rw [ho] at h1; cases h1
    | some s =>
      rw [ho] at h1
      simp only [Option.map_eq_some_iff] at h1
      obtain ⟨st', hst, heq⟩ := h1
      cases heq
      exact ⟨tr_wellScoped km s _ hst, rfl⟩
  | none =>
    rw [h1] at h
    cases ho : C01.ofCy2 q with
    | none => rw [ho] at h; cases h
    | some s =>
      rw [ho] at h
      simp only [Option.map_eq_some_iff] at h
      obtain ⟨st', hst, heq⟩ := h
      cases heq
      exact ⟨Hop.tr_wellScoped2 km s _ hst, rfl⟩

end Dawgs.C03.Frag
