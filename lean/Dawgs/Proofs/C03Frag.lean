import Dawgs.Model.C01
import Dawgs.Model.C01S2
import Dawgs.Model.C01Chain
import Dawgs.Model.C01Count
import Dawgs.Model.C03Bind
import Dawgs.Model.SqlSchema
/-
C03 on the C01 fragment: every statement the model translator `tr` produces (stage S1) is accepted by the verified binder under the
schema catalogue, with no parameters.
-/
namespace Dawgs.C03.Frag
open Dawgs Dawgs.Sql Dawgs.C01

def Γ0 : Env := ⟨schema, [], false⟩

/-- the scope inside the node frame `s0`: the `node` table under the alias n0 -/
def nodeRel : Rel := ⟨"n0", [⟨"id", "int8"⟩, ⟨"graph_id", "int4"⟩, ⟨"kind_ids", "int2[]"⟩, ⟨"properties", "jsonb"⟩]⟩

def scN : Scope := ⟨[], [[nodeRel]]⟩

theorem bType_jsonb : bType Γ0.cat "jsonb" = some () := by decide +kernel
theorem bType_int8 : bType Γ0.cat "int8" = some () := by decide +kernel

theorem b_arrow (k : String) : bExpr Γ0 scN (.bin "->" (S1.innerCol "properties") (S1.strLit k)) = some "" := rfl
theorem b_intLit (i : Int) : bExpr Γ0 scN (S1.intLit i) = some "int8" := rfl

theorem b_cast (e : Expr) (ty t : String) (he : bExpr Γ0 scN e = some t) (hty : bType Γ0.cat ty = some ()) :
    bExpr Γ0 scN (.cast e ty) = some ty := by
  rw [bExpr, he]
  simp only [bind, Option.bind, hty, pure]

theorem b_bin (op : String) (l r : Expr) (tl tr : String) (hl : bExpr Γ0 scN l = some tl) (hr : bExpr Γ0 scN r = some tr)
    (hop : (op == "||") = false) : bExpr Γ0 scN (.bin op l r) = some "" := by
  rw [bExpr, hl, hr]
  simp only [bind, Option.bind, pure, hop, Bool.false_eq_true, if_false]

theorem b_un (op : String) (e : Expr) (t : String) (he : bExpr Γ0 scN e = some t) : bExpr Γ0 scN (.un op e) = some "" := by
  rw [bExpr, he]; rfl

theorem b_paren (e : Expr) (t : String) (he : bExpr Γ0 scN e = some t) : bExpr Γ0 scN (.paren e) = some t := by
  rw [bExpr, he]

theorem b_tojsonb (e : Expr) (t : String) (he : bExpr Γ0 scN e = some t) :
    bExpr Γ0 scN (.call "to_jsonb" [e] false false "jsonb") = some "jsonb" := by
  rw [bExpr, bExprs, he, bExprs]
  have hf : bFunc "to_jsonb" Γ0.cat.funcs = some ⟨"to_jsonb", [1], false, "jsonb", []⟩ := by decide +kernel
  simp only [bind, Option.bind, pure, hf, bType_jsonb]
  have h1 : (⟨"to_jsonb", [1], false, "jsonb", []⟩ : Func).accepts [e].length = true := by show Func.accepts _ 1 = true; decide
  have h2 : (knownTy "jsonb" == "") = false := by decide
  simp only [h1, h2, if_true, Bool.false_eq_true, if_false]

theorem b_jsonNull : bExpr Γ0 scN S1.jsonNull = some "jsonb" := b_cast _ _ _ (rfl : bExpr Γ0 scN (.lit (.str "null") "text") = some "text") bType_jsonb

theorem b_propEqInt (neg : Bool) (k : String) (i : Int) :
    bExpr Γ0 scN (.bin (if neg then "<>" else "=") (.cast (.bin "->" (S1.innerCol "properties") (S1.strLit k)) "jsonb")
      (.call "to_jsonb" [.cast (S1.intLit i) "int8"] false false "jsonb")) = some "" :=
  b_bin _ _ _ _ _ (b_cast _ _ _ (b_arrow k) bType_jsonb) (b_tojsonb _ _ (b_cast _ _ _ (b_intLit i) bType_int8)) (by cases neg <;> decide)

theorem b_haskey (k : String) : bExpr Γ0 scN (.bin "?" (S1.innerCol "properties") (S1.strLit k)) = some "" := rfl

theorem b_isNull (k : String) : bExpr Γ0 scN (.bin "=" (.bin "->" (S1.innerCol "properties") (S1.strLit k)) S1.jsonNull) = some "" :=
  b_bin _ _ _ _ _ (b_arrow k) b_jsonNull (by decide)

/-- every lowered S1 predicate binds in the node frame (type: untyped boolean expression) -/
theorem bPred (km : KindMap) : ∀ (p : S1.Pred) (e : Expr), S1.Pred.tr km p = some e → bExpr Γ0 scN e = some ""
  | .propEqStr k s, e, he => by simp only [S1.Pred.tr, Option.some.injEq] at he; subst he; rfl
  | .propEqInt neg k i, e, he => by simp only [S1.Pred.tr, Option.some.injEq] at he; subst he; exact b_propEqInt neg k i
  | .propIsNull k, e, he => by
    simp only [S1.Pred.tr, Option.some.injEq] at he; subst he
    exact b_paren _ _ (b_bin _ _ _ _ _ (b_un _ _ _ (b_haskey k)) (b_isNull k) (by decide))
  | .propNotNull k, e, he => by
    simp only [S1.Pred.tr, Option.some.injEq] at he; subst he
    exact b_paren _ _ (b_bin _ _ _ _ _ (b_haskey k) (b_un _ _ _ (b_isNull k)) (by decide))
  | .idCmp op i, e, he => by simp only [S1.Pred.tr, Option.some.injEq] at he; subst he; cases op <;> rfl
  | .kinds ks, e, he => by
    simp only [S1.Pred.tr] at he
    cases hm : ks.mapM km.id? with
    | none => rw [hm] at he; cases he
    | some ids => rw [hm] at he; cases he; rfl
  | .and p q, e, he => by
    simp only [S1.Pred.tr] at he
    cases hp : S1.Pred.tr km p with
    | none => simp [hp, bind, Option.bind] at he
    | some a =>
      cases hq : S1.Pred.tr km q with
      | none => simp [hp, hq, bind, Option.bind] at he
      | some b =>
        simp [hp, hq, bind, Option.bind] at he
        subst he
        rw [bExpr, bPred km p a hp, bPred km q b hq]
        rfl
  | .or p q, e, he => by
    simp only [S1.Pred.tr] at he
    cases hp : S1.Pred.tr km p with
    | none => simp [hp, bind, Option.bind] at he
    | some a =>
      cases hq : S1.Pred.tr km q with
      | none => simp [hp, hq, bind, Option.bind] at he
      | some b =>
        simp [hp, hq, bind, Option.bind] at he
        subst he
        rw [bExpr, bPred km p a hp, bPred km q b hq]
        rfl
  | .not p, e, he => by
    simp only [S1.Pred.tr] at he
    cases hp : S1.Pred.tr km p with
    | none => simp [hp, bind, Option.bind] at he
    | some a =>
      simp [hp, bind, Option.bind] at he
      subst he
      rw [bExpr, bPred km p a hp]
      rfl
  | .paren p, e, he => by
    simp only [S1.Pred.tr] at he
    cases hp : S1.Pred.tr km p with
    | none => simp [hp, bind, Option.bind] at he
    | some a =>
      simp [hp, bind, Option.bind] at he
      subst he
      rw [bExpr, bPred km p a hp]

/-- the frame's WHERE binds -/
theorem bWhere (km : KindMap) (s : S1.Query) (w : Option Expr) (h : S1.whereOf km s = some w) : ∃ ty, bOpt Γ0 scN w = some ty := by
  unfold S1.whereOf at h
  cases hk : s.kinds.isEmpty with
  | true =>
    simp only [hk, if_true] at h
    cases hwh : s.wh with
    | none => rw [hwh] at h; cases h; exact ⟨_, rfl⟩
    | some p =>
      rw [hwh] at h
      simp only at h
      cases hp : S1.Pred.tr km p with
      | none => rw [hp] at h; cases h
      | some pe =>
        rw [hp] at h; cases h
        refine ⟨"", ?_⟩
        rw [bOpt, bExpr]; exact bPred km p pe hp
  | false =>
    simp only [hk, Bool.false_eq_true, if_false] at h
    cases hkt : S1.Pred.tr km (.kinds s.kinds) with
    | none => rw [hkt] at h; cases hwh : s.wh <;> (rw [hwh] at h; cases h)
    | some ke =>
      rw [hkt] at h
      cases hwh : s.wh with
      | none => rw [hwh] at h; cases h; exact ⟨"", by rw [bOpt]; exact bPred km _ ke hkt⟩
      | some p =>
        rw [hwh] at h
        simp only [Option.map_some] at h
        cases hp : S1.Pred.tr km p with
        | none => rw [hp] at h; cases h
        | some pe =>
          rw [hp] at h; cases h
          refine ⟨"", ?_⟩
          rw [bOpt, bExpr, bExpr, bPred km p pe hp, bPred km _ ke hkt]
          rfl

-- ------------------------------------------------------------------ the node frame

def frameSel (w : Option Expr) : SetExpr := .select false [S1.nodeComposite] [.mk (.table ["node"] (some "n0")) []] w [] none

theorem hFrom : bFromClauses Γ0 ⟨[], []⟩ [] [.mk (.table ["node"] (some "n0")) []] = some [nodeRel] := by decide +kernel

theorem hProjN : bProj Γ0 scN [nodeRel] [S1.nodeComposite] = some [⟨"n0", "nodecomposite"⟩] := by decide +kernel

theorem bFrame (w : Option Expr) (ty : String) (hw : bOpt Γ0 scN w = some ty) :
    bQuery Γ0 ⟨[], []⟩ (Query.simple (frameSel w)) = some [⟨"n0", "nodecomposite"⟩] := by
  have hw' : bOpt Γ0 ⟨[], [[nodeRel]]⟩ w = some ty := hw
  have hp' : bProj Γ0 ⟨[], [[nodeRel]]⟩ [nodeRel] [S1.nodeComposite] = some [⟨"n0", "nodecomposite"⟩] := hProjN
  unfold Query.simple frameSel
  rw [bQuery, bCtes]
  simp only [Scope.withCtes, Option.bind_eq_bind, Option.bind_some]
  rw [bSetExpr]
  simp only [hFrom, Scope.push, Option.bind_eq_bind, Option.bind_some, hw', hp', bGroupBy, bOpt, bOrderBy, Option.pure_def]

-- ------------------------------------------------------------------ the outer select and the whole statement

def s0Rel : Rel := ⟨"s0", [⟨"n0", "nodecomposite"⟩]⟩
def scO : Scope := ⟨[s0Rel], [[s0Rel]]⟩

theorem hFromO : bFromClauses Γ0 ⟨[s0Rel], []⟩ [] [.mk (.table ["s0"] none) []] = some [s0Rel] := by decide +kernel

theorem b_outerId : bExpr Γ0 scO (S1.outerCol "id") = some "int8" := by decide +kernel

theorem bItem (v : String) (it : S1.Item) : ∃ ty, bExpr Γ0 scO (it.tr v) = some ty := by
  cases it with
  | node a => exact ⟨_, rfl⟩
  | prop k a => cases a <;> exact ⟨_, rfl⟩
  | id a => cases a <;> exact ⟨_, rfl⟩

theorem item_not_wildcard (v : String) (it : S1.Item) : it.tr v ≠ .wildcard := by
  cases it with
  | node a => intro hh; cases hh
  | prop k a => cases a <;> (intro hh; cases hh)
  | id a => cases a <;> (intro hh; simp only [S1.Item.tr, S1.outerCol] at hh; cases hh)

theorem bProjItems (v : String) : ∀ (items : List S1.Item), ∃ cols, bProj Γ0 scO [s0Rel] (items.map (S1.Item.tr v)) = some cols
  | [] => ⟨[], by rw [List.map_nil, bProj]⟩
  | it :: items => by
    obtain ⟨ty, hty⟩ := bItem v it
    obtain ⟨cols, hcols⟩ := bProjItems v items
    refine ⟨⟨figureName (it.tr v), ty⟩ :: cols, ?_⟩
    rw [List.map_cons, bProj]
    · simp only [hty, hcols, Option.bind_eq_bind, Option.bind_some, Option.pure_def]
    · intro hh; exact item_not_wildcard v it hh

theorem bOrderKeys (out : List Col) (o : Option S1.Order) : bOrderBy Γ0 scO out true (S1.orderKeysS o) = some () := by
  cases o with
  | none => simp only [S1.orderKeysS, bOrderBy]
  | some o =>
    simp only [S1.orderKeysS]
    rw [bOrderBy]
    have hb : bareName (S1.outerCol "id") = none := rfl
    simp only [hb, if_true, b_outerId, Option.bind_eq_bind, Option.bind_some, bOrderBy, Option.pure_def]

theorem bCut (sc : Scope) (k : Option Nat) : ∃ ty, bOpt Γ0 sc (k.map S1.natLitS) = some ty := by
  cases k with
  | none => exact ⟨_, rfl⟩
  | some k => exact ⟨_, rfl⟩

/-- THE FRAGMENT THEOREM: every statement of stage S1 passes the verified binder under the schema catalogue with no parameters -/
theorem tr_wellScoped (km : KindMap) (s : S1.Query) (st : Stmt) (h : s.tr km = some st) : wellScoped Γ0 st = true := by
  unfold S1.Query.tr at h
  cases hwf : s.wf with
  | false => simp [hwf] at h
  | true =>
    simp only [hwf, Bool.not_true, Bool.false_eq_true, if_false] at h
    cases hwo : S1.whereOf km s with
    | none => rw [hwo] at h; cases h
    | some w =>
      rw [hwo] at h
      simp only [Option.some.injEq] at h
      subst h
      obtain ⟨ty, hw⟩ := bWhere km s w hwo
      obtain ⟨cols, hcols⟩ := bProjItems s.var s.items
      have hcols' : bProj Γ0 ⟨[s0Rel], [[s0Rel]]⟩ [s0Rel] (s.items.map (S1.Item.tr s.var)) = some cols := hcols
      have hfr := bFrame w ty hw
      unfold frameSel at hfr
      have h1' : ∃ t1, bOpt Γ0 ⟨[s0Rel], []⟩ (s.order.bind (fun o => o.skip.map S1.natLitS)) = some t1 := by
        cases s.order with
        | none => exact ⟨_, rfl⟩
        | some o => exact bCut _ o.skip
      have h2' : ∃ t2, bOpt Γ0 ⟨[s0Rel], []⟩ (s.order.bind (fun o => o.limit.map S1.natLitS)) = some t2 := by
        cases s.order with
        | none => exact ⟨_, rfl⟩
        | some o => exact bCut _ o.limit
      obtain ⟨t1, h1'⟩ := h1'
      obtain ⟨t2, h2'⟩ := h2'
      have hob : bOrderBy Γ0 ⟨[s0Rel], [[s0Rel]]⟩ cols true (S1.orderKeysS s.order) = some () := bOrderKeys cols s.order
      unfold wellScoped
      rw [bStmt, bQuery, bCtes]
      case x_2 => intro _ _ _ _ _ _ _ _ hh; cases hh
      simp only [Scope.empty, Scope.withCtes, hfr, Option.bind_eq_bind, Option.bind_some, bShape, List.contains_nil, Bool.false_eq_true,
        if_false, bCtes]
      rw [bSetExpr]
      have hs0 : (⟨"s0", [⟨"n0", "nodecomposite"⟩]⟩ : Rel) = s0Rel := rfl
      simp only [hs0, hFromO, Scope.push, Option.bind_eq_bind, Option.bind_some, bOpt, hcols', bGroupBy, Option.pure_def, isSelect, hob, h1', h2',
        Option.isSome_some]

-- ------------------------------------------------------------------ stage S2a: one directed hop

namespace Hop
open Dawgs.C01.S2

def frameCols : List Col := [⟨"e0", "edgecomposite"⟩, ⟨"n0", "nodecomposite"⟩, ⟨"n1", "nodecomposite"⟩]

/-- the columns of a frame that keeps only the flagged bindings -/
def keptColsB (ke ka kb : Bool) : List Col :=
  ([(ke, (⟨"e0", "edgecomposite"⟩ : Col)), (ka, ⟨"n0", "nodecomposite"⟩), (kb, ⟨"n1", "nodecomposite"⟩)].filter (·.1)).map (·.2)

def keepOfB (ke ka kb : Bool) : S2.Ref → Bool
  | .a => ka | .r => ke | .b => kb

-- generic "it binds" lemmas, for any scope

def Binds (sc : Scope) (e : Expr) : Prop := ∃ ty, bExpr Γ0 sc e = some ty

theorem bx_lit (sc : Scope) (l : Lit) (ty : String) : Binds sc (.lit l ty) := ⟨_, by rw [bExpr]⟩

theorem bx_bin (sc : Scope) (op : String) (l r : Expr) (hl : Binds sc l) (hr : Binds sc r) : Binds sc (.bin op l r) := by
  obtain ⟨a, ha⟩ := hl
  obtain ⟨b, hb⟩ := hr
  exact ⟨_, by rw [bExpr, ha, hb]; rfl⟩

theorem bx_un (sc : Scope) (op : String) (e : Expr) (he : Binds sc e) : Binds sc (.un op e) := by
  obtain ⟨a, ha⟩ := he
  exact ⟨_, by rw [bExpr, ha]; rfl⟩

theorem bx_paren (sc : Scope) (e : Expr) (he : Binds sc e) : Binds sc (.paren e) := by
  obtain ⟨a, ha⟩ := he
  exact ⟨_, by rw [bExpr, ha]⟩

theorem bx_anyOf (sc : Scope) (e : Expr) (he : Binds sc e) : Binds sc (.anyOf e) := by
  obtain ⟨a, ha⟩ := he
  exact ⟨_, by rw [bExpr, ha]; rfl⟩

theorem bx_cast (sc : Scope) (e : Expr) (ty : String) (he : Binds sc e) (hty : bType Γ0.cat ty = some ()) : Binds sc (.cast e ty) := by
  obtain ⟨a, ha⟩ := he
  exact ⟨ty, by rw [bExpr, ha]; simp only [bind, Option.bind, hty, pure]⟩

theorem bx_call1 (sc : Scope) (fn : String) (e : Expr) (ty : String) (f : Func) (he : Binds sc e) (hf : bFunc fn Γ0.cat.funcs = some f)
    (hacc : f.accepts 1 = true) (hty : bType Γ0.cat ty = some ()) : Binds sc (.call fn [e] false false ty) := by
  obtain ⟨a, ha⟩ := he
  have hacc' : f.accepts [e].length = true := hacc
  refine ⟨(if knownTy ty == "" then callTy f fn [a] else ty), ?_⟩
  rw [bExpr, bExprs, ha, bExprs]
  simp only [bind, Option.bind, pure, hf, hacc', if_true, hty]

theorem bType_empty : bType Γ0.cat "" = some () := by decide +kernel
theorem bFunc_typeof : bFunc "jsonb_typeof" Γ0.cat.funcs = some ⟨"jsonb_typeof", [1], false, "text", []⟩ := by decide +kernel
theorem bFunc_tojsonb : bFunc "to_jsonb" Γ0.cat.funcs = some ⟨"to_jsonb", [1], false, "jsonb", []⟩ := by decide +kernel

/-- the columns the predicate language reads resolve under alias `t` in scope `sc` -/
structure ColsAt (sc : Scope) (t : String) (edge : Bool) : Prop where
  id : Binds sc (.compound [t, "id"])
  props : Binds sc (.compound [t, "properties"])
  kind : Binds sc (.compound [t, if edge then "kind_id" else "kind_ids"])

theorem bx_arrow (sc : Scope) (t : String) (edge : Bool) (H : ColsAt sc t edge) (op k : String) :
    Binds sc (.bin op (.compound [t, "properties"]) (S1.strLit k)) := bx_bin sc _ _ _ H.props (bx_lit sc _ _)

theorem bx_jsonNull (sc : Scope) : Binds sc S1.jsonNull := bx_cast sc _ _ (bx_lit sc _ _) bType_jsonb

/-- every lowered S1 predicate binds wherever its alias shows the entity's columns -/
theorem bPredAt (km : KindMap) (sc : Scope) (t : String) (edge : Bool) (H : ColsAt sc t edge) :
    ∀ (p : S1.Pred) (e : Expr), S1.Pred.trAt km t edge p = some e → Binds sc e
  | .propEqStr k s, e, he => by
    simp only [S1.Pred.trAt, Option.some.injEq] at he; subst he
    exact bx_paren sc _ (bx_bin sc _ _ _
      (bx_bin sc _ _ _ (bx_call1 sc _ _ _ _ (bx_arrow sc t edge H "->" k) bFunc_typeof (by decide) bType_empty) (bx_lit sc _ _))
      (bx_bin sc _ _ _ (bx_arrow sc t edge H "->>" k) (bx_lit sc _ _)))
  | .propEqInt neg k i, e, he => by
    simp only [S1.Pred.trAt, Option.some.injEq] at he; subst he
    exact bx_bin sc _ _ _ (bx_cast sc _ _ (bx_arrow sc t edge H "->" k) bType_jsonb)
      (bx_call1 sc _ _ _ _ (bx_cast sc _ _ (bx_lit sc _ _) bType_int8) bFunc_tojsonb (by decide) bType_jsonb)
  | .propIsNull k, e, he => by
    simp only [S1.Pred.trAt, Option.some.injEq] at he; subst he
    exact bx_paren sc _ (bx_bin sc _ _ _ (bx_un sc _ _ (bx_arrow sc t edge H "?" k))
      (bx_bin sc _ _ _ (bx_arrow sc t edge H "->" k) (bx_jsonNull sc)))
  | .propNotNull k, e, he => by
    simp only [S1.Pred.trAt, Option.some.injEq] at he; subst he
    exact bx_paren sc _ (bx_bin sc _ _ _ (bx_arrow sc t edge H "?" k)
      (bx_un sc _ _ (bx_bin sc _ _ _ (bx_arrow sc t edge H "->" k) (bx_jsonNull sc))))
  | .idCmp op i, e, he => by
    simp only [S1.Pred.trAt, Option.some.injEq] at he; subst he
    exact bx_bin sc _ _ _ H.id (bx_lit sc _ _)
  | .kinds ks, e, he => by
    simp only [S1.Pred.trAt] at he
    cases hm : ks.mapM km.id? with
    | none => rw [hm] at he; cases he
    | some ids =>
      rw [hm] at he
      have hk := H.kind
      cases edge with
      | true => simp only [if_true, Option.some.injEq] at he hk; subst he; exact bx_bin sc _ _ _ hk (bx_anyOf sc _ (bx_lit sc _ _))
      | false => simp only [Bool.false_eq_true, if_false, Option.some.injEq] at he hk; subst he; exact bx_bin sc _ _ _ hk (bx_lit sc _ _)
  | .and p q, e, he => by
    simp only [S1.Pred.trAt] at he
    cases hp : S1.Pred.trAt km t edge p with
    | none => simp [hp, bind, Option.bind] at he
    | some a =>
      cases hq : S1.Pred.trAt km t edge q with
      | none => simp [hp, hq, bind, Option.bind] at he
      | some b =>
        simp [hp, hq, bind, Option.bind] at he
        subst he
        exact bx_bin sc _ _ _ (bPredAt km sc t edge H p a hp) (bPredAt km sc t edge H q b hq)
  | .or p q, e, he => by
    simp only [S1.Pred.trAt] at he
    cases hp : S1.Pred.trAt km t edge p with
    | none => simp [hp, bind, Option.bind] at he
    | some a =>
      cases hq : S1.Pred.trAt km t edge q with
      | none => simp [hp, hq, bind, Option.bind] at he
      | some b =>
        simp [hp, hq, bind, Option.bind] at he
        subst he
        exact bx_bin sc _ _ _ (bPredAt km sc t edge H p a hp) (bPredAt km sc t edge H q b hq)
  | .not p, e, he => by
    simp only [S1.Pred.trAt] at he
    cases hp : S1.Pred.trAt km t edge p with
    | none => simp [hp, bind, Option.bind] at he
    | some a =>
      simp [hp, bind, Option.bind] at he
      subst he
      exact bx_un sc _ _ (bPredAt km sc t edge H p a hp)
  | .paren p, e, he => by
    simp only [S1.Pred.trAt] at he
    cases hp : S1.Pred.trAt km t edge p with
    | none => simp [hp, bind, Option.bind] at he
    | some a =>
      simp [hp, bind, Option.bind] at he
      subst he
      exact bx_paren sc _ (bPredAt km sc t edge H p a hp)

theorem bPredsAnd (km : KindMap) (sc : Scope) (t : String) (edge : Bool) (H : ColsAt sc t edge) :
    ∀ (ps : List S1.Pred) (e : Expr), predsAnd km t edge ps = some e → Binds sc e
  | [], e, h => by simp [predsAnd] at h
  | [p], e, h => by simp only [predsAnd] at h; exact bPredAt km sc t edge H p e h
  | p :: p' :: ps, e, h => by
    simp only [predsAnd] at h
    cases hp : S1.Pred.trAt km t edge p with
    | none => simp [hp, bind, Option.bind] at h
    | some a =>
      cases hq : predsAnd km t edge (p' :: ps) with
      | none => simp [hp, hq, bind, Option.bind] at h
      | some b =>
        simp [hp, hq, bind, Option.bind] at h
        subst h
        exact bx_bin sc _ _ _ (bPredAt km sc t edge H p a hp) (bPredsAnd km sc t edge H (p' :: ps) b hq)

def BindsOpt (sc : Scope) (c : Option Expr) : Prop := ∃ ty, bOpt Γ0 sc c = some ty

theorem bindsOpt_some (sc : Scope) (e : Expr) (h : Binds sc e) : BindsOpt sc (some e) := by
  obtain ⟨ty, h⟩ := h; exact ⟨ty, by rw [bOpt]; exact h⟩

theorem bindsOpt_none (sc : Scope) : BindsOpt sc none := ⟨_, by rw [bOpt]⟩

theorem binds_of_opt (sc : Scope) (e : Expr) (h : BindsOpt sc (some e)) : Binds sc e := by
  obtain ⟨ty, h⟩ := h; rw [bOpt] at h; exact ⟨ty, h⟩

theorem bPredsE (km : KindMap) (sc : Scope) (t : String) (edge : Bool) (H : ColsAt sc t edge) (ps : List S1.Pred) (pe : Option Expr)
    (h : predsE km t edge ps = some pe) : BindsOpt sc pe := by
  unfold predsE at h
  cases hps : ps.isEmpty with
  | true => simp only [hps, if_true, Option.some.injEq] at h; subst h; exact bindsOpt_none sc
  | false =>
    simp only [hps, Bool.false_eq_true, if_false, Option.map_eq_some_iff] at h
    obtain ⟨e, he, rfl⟩ := h
    exact bindsOpt_some sc _ (bx_paren sc _ (bPredsAnd km sc t edge H ps e he))

theorem bBoth (sc : Scope) (p k : Option Expr) (hp : BindsOpt sc p) (hk : BindsOpt sc k) : BindsOpt sc (both p k) := by
  cases p with
  | none => exact hk
  | some pe =>
    cases k with
    | none => exact hp
    | some ke => exact bindsOpt_some sc _ (bx_bin sc _ _ _ (binds_of_opt sc pe hp) (binds_of_opt sc ke hk))

theorem bNodeKindsE (sc : Scope) (al : String) (H : ColsAt sc al false) (kid : Option (List Nat)) : BindsOpt sc (nodeKindsE al kid) := by
  cases kid with
  | none => exact bindsOpt_none sc
  | some ids =>
    have hk := H.kind
    simp only [Bool.false_eq_true, if_false] at hk
    exact bindsOpt_some sc _ (bx_bin sc _ _ _ hk (bx_lit sc _ _))

theorem bJoinOnC (sc : Scope) (al ep : String) (c : Option Expr) (hc : BindsOpt sc c) (hid : Binds sc (.compound [al, "id"]))
    (hep : Binds sc (.compound ["e0", ep])) : BindsOpt sc (some (joinOnC al ep c)) := by
  unfold joinOnC
  cases c with
  | none => exact bindsOpt_some sc _ (bx_bin sc _ _ _ hid hep)
  | some ce => exact bindsOpt_some sc _ (bx_bin sc _ _ _ (binds_of_opt sc ce hc) (bx_bin sc _ _ _ hid hep))

-- the FROM clause `edge e0 join node al1 on … join node al2 on …`

def eRel : Rel := ⟨"e0", [⟨"id", "int8"⟩, ⟨"graph_id", "int4"⟩, ⟨"start_id", "int8"⟩, ⟨"end_id", "int8"⟩, ⟨"kind_id", "int2"⟩, ⟨"properties", "jsonb"⟩]⟩
def nRel (al : String) : Rel := ⟨al, [⟨"id", "int8"⟩, ⟨"graph_id", "int4"⟩, ⟨"kind_ids", "int2[]"⟩, ⟨"properties", "jsonb"⟩]⟩

def aliasOf (second flip : Bool) : String := if second == flip then "n0" else "n1"

/-- FROM of the hop frame: first join under alias `al1`, second under `al2` -/
theorem bFrom2 (al1 al2 : String) (hal : (al1 = "n0" ∧ al2 = "n1") ∨ (al1 = "n1" ∧ al2 = "n0")) (on1 on2 : Expr)
    (h1 : BindsOpt ⟨[], [[eRel, nRel al1]]⟩ (some on1)) (h2 : BindsOpt ⟨[], [[eRel, nRel al1, nRel al2]]⟩ (some on2)) :
    bFromClauses Γ0 ⟨[], []⟩ [] [.mk (.table ["edge"] (some "e0"))
      [.mk .inner (.table ["node"] (some al1)) (some on1), .mk .inner (.table ["node"] (some al2)) (some on2)]] =
      some [eRel, nRel al1, nRel al2] := by
  obtain ⟨t1, h1⟩ := h1
  obtain ⟨t2, h2⟩ := h2
  have hE : bFromItem Γ0 ⟨[], []⟩ [] (.table ["edge"] (some "e0")) = some eRel := by decide +kernel
  have hN : ∀ (vis : List Rel) (al : String), bFromItem Γ0 ⟨[], []⟩ vis (.table ["node"] (some al)) = some (nRel al) := by
    intro vis al
    rw [bFromItem]
    have : bRelation Γ0.cat (⟨[], []⟩ : Scope).ctes ["node"] = some (nRel "node") := by decide +kernel
    simp only [this, Option.bind_eq_bind, Option.bind_some, Option.getD_some, Option.pure_def]
    rfl
  have hA0 : bAddRte eRel [] [] = some [eRel] := by decide +kernel
  rcases hal with ⟨rfl, rfl⟩ | ⟨rfl, rfl⟩
  · have hA1 : bAddRte (nRel "n0") [] [eRel] = some [eRel, nRel "n0"] := by decide +kernel
    have hA2 : bAddRte (nRel "n1") [] [eRel, nRel "n0"] = some [eRel, nRel "n0", nRel "n1"] := by decide +kernel
    rw [bFromClauses, hE]
    simp only [Option.bind_eq_bind, Option.bind_some, hA0]
    rw [bJoins, hN, ]
    simp only [Option.bind_eq_bind, Option.bind_some, List.nil_append, hA1, Scope.push, h1]
    rw [bJoins, hN]
    simp only [Option.bind_eq_bind, Option.bind_some, hA2, Scope.push, h2, bJoins, List.nil_append, bFromClauses]
  · have hA1 : bAddRte (nRel "n1") [] [eRel] = some [eRel, nRel "n1"] := by decide +kernel
    have hA2 : bAddRte (nRel "n0") [] [eRel, nRel "n1"] = some [eRel, nRel "n1", nRel "n0"] := by decide +kernel
    rw [bFromClauses, hE]
    simp only [Option.bind_eq_bind, Option.bind_some, hA0]
    rw [bJoins, hN]
    simp only [Option.bind_eq_bind, Option.bind_some, List.nil_append, hA1, Scope.push, h1]
    rw [bJoins, hN]
    simp only [Option.bind_eq_bind, Option.bind_some, hA2, Scope.push, h2, bJoins, List.nil_append, bFromClauses]

theorem colsAt_J (lvl : List Rel) (t : String) (edge : Bool)
    (h1 : bExpr Γ0 ⟨[], [lvl]⟩ (.compound [t, "id"]) = some "int8") (h2 : bExpr Γ0 ⟨[], [lvl]⟩ (.compound [t, "properties"]) = some "jsonb")
    (h3 : ∃ ty, bExpr Γ0 ⟨[], [lvl]⟩ (.compound [t, if edge then "kind_id" else "kind_ids"]) = some ty) : ColsAt ⟨[], [lvl]⟩ t edge :=
  ⟨⟨_, h1⟩, ⟨_, h2⟩, h3⟩

/-- the hop frame binds, in either join order, for every kind constraint and every list of WHERE conjuncts -/
theorem bFrame2 (km : KindMap) (flip : Bool) (ke ka' kb' : Bool) (ka kr kb : Option (List Nat)) (psa psr psb : List S1.Pred) (pa pr pb : Option Expr)
    (hpa : predsE km "n0" false psa = some pa) (hpr : predsE km "e0" true psr = some pr) (hpb : predsE km "n1" false psb = some pb) :
    bQuery Γ0 ⟨[], []⟩ (Sql.Query.simple (.select false (frameProj ke ka' kb')
      [.mk (.table ["edge"] (some "e0"))
        (if flip then [.mk .inner (.table ["node"] (some "n1")) (some (joinOnC "n1" "end_id" (both pb (nodeKindsE "n1" kb)))),
                       .mk .inner (.table ["node"] (some "n0")) (some (joinOnC "n0" "start_id" (both pa (nodeKindsE "n0" ka))))]
         else [.mk .inner (.table ["node"] (some "n0")) (some (joinOnC "n0" "start_id" (both pa (nodeKindsE "n0" ka)))),
               .mk .inner (.table ["node"] (some "n1")) (some (joinOnC "n1" "end_id" (both pb (nodeKindsE "n1" kb))))])]
      (both pr (kr.map (fun ids => .bin "=" (col "e0" "kind_id") (.anyOf (kindsLit ids))))) [] none)) = some (keptColsB ke ka' kb') := by
  -- column facts in the four scopes
  have onA : ∀ (lvl : List Rel), bExpr Γ0 ⟨[], [lvl]⟩ (.compound ["n0", "id"]) = some "int8" → bExpr Γ0 ⟨[], [lvl]⟩ (.compound ["n0", "properties"]) = some "jsonb" →
      bExpr Γ0 ⟨[], [lvl]⟩ (.compound ["n0", "kind_ids"]) = some "int2[]" → bExpr Γ0 ⟨[], [lvl]⟩ (.compound ["e0", "start_id"]) = some "int8" →
      BindsOpt ⟨[], [lvl]⟩ (some (joinOnC "n0" "start_id" (both pa (nodeKindsE "n0" ka)))) := by
    intro lvl h1 h2 h3 h4
    have H := colsAt_J lvl "n0" false h1 h2 ⟨_, h3⟩
    exact bJoinOnC _ _ _ _ (bBoth _ _ _ (bPredsE km _ _ _ H psa pa hpa) (bNodeKindsE _ _ H ka)) ⟨_, h1⟩ ⟨_, h4⟩
  have onB : ∀ (lvl : List Rel), bExpr Γ0 ⟨[], [lvl]⟩ (.compound ["n1", "id"]) = some "int8" → bExpr Γ0 ⟨[], [lvl]⟩ (.compound ["n1", "properties"]) = some "jsonb" →
      bExpr Γ0 ⟨[], [lvl]⟩ (.compound ["n1", "kind_ids"]) = some "int2[]" → bExpr Γ0 ⟨[], [lvl]⟩ (.compound ["e0", "end_id"]) = some "int8" →
      BindsOpt ⟨[], [lvl]⟩ (some (joinOnC "n1" "end_id" (both pb (nodeKindsE "n1" kb)))) := by
    intro lvl h1 h2 h3 h4
    have H := colsAt_J lvl "n1" false h1 h2 ⟨_, h3⟩
    exact bJoinOnC _ _ _ _ (bBoth _ _ _ (bPredsE km _ _ _ H psb pb hpb) (bNodeKindsE _ _ H kb)) ⟨_, h1⟩ ⟨_, h4⟩
  have whR : ∀ (lvl : List Rel), bExpr Γ0 ⟨[], [lvl]⟩ (.compound ["e0", "id"]) = some "int8" → bExpr Γ0 ⟨[], [lvl]⟩ (.compound ["e0", "properties"]) = some "jsonb" →
      bExpr Γ0 ⟨[], [lvl]⟩ (.compound ["e0", "kind_id"]) = some "int2" →
      BindsOpt ⟨[], [lvl]⟩ (both pr (kr.map (fun ids => .bin "=" (col "e0" "kind_id") (.anyOf (kindsLit ids))))) := by
    intro lvl h1 h2 h3
    have H := colsAt_J lvl "e0" true h1 h2 ⟨_, h3⟩
    refine bBoth _ _ _ (bPredsE km _ _ _ H psr pr hpr) ?_
    cases kr with
    | none => exact bindsOpt_none _
    | some ids => exact bindsOpt_some _ _ (bx_bin _ _ _ _ ⟨_, h3⟩ (bx_anyOf _ _ (bx_lit _ _ _)))
  unfold Sql.Query.simple
  rw [bQuery, bCtes]
  simp only [Scope.withCtes, Option.bind_eq_bind, Option.bind_some]
  rw [bSetExpr]
  cases flip with
  | false =>
    have hfrom := bFrom2 "n0" "n1" (Or.inl ⟨rfl, rfl⟩) _ _
      (onA [eRel, nRel "n0"] (by decide +kernel) (by decide +kernel) (by decide +kernel) (by decide +kernel))
      (onB [eRel, nRel "n0", nRel "n1"] (by decide +kernel) (by decide +kernel) (by decide +kernel) (by decide +kernel))
    obtain ⟨tw, hw⟩ := whR [eRel, nRel "n0", nRel "n1"] (by decide +kernel) (by decide +kernel) (by decide +kernel)
    have hproj : bProj Γ0 ⟨[], [[eRel, nRel "n0", nRel "n1"]]⟩ [eRel, nRel "n0", nRel "n1"] (frameProj ke ka' kb') = some (keptColsB ke ka' kb') := by
      cases ke <;> cases ka' <;> cases kb' <;> decide +kernel
    simp only [Bool.false_eq_true, if_false, hfrom, Scope.push, Option.bind_eq_bind, Option.bind_some, hw, hproj, bGroupBy, bOpt, bOrderBy,
      Option.pure_def]
  | true =>
    have hfrom := bFrom2 "n1" "n0" (Or.inr ⟨rfl, rfl⟩) _ _
      (onB [eRel, nRel "n1"] (by decide +kernel) (by decide +kernel) (by decide +kernel) (by decide +kernel))
      (onA [eRel, nRel "n1", nRel "n0"] (by decide +kernel) (by decide +kernel) (by decide +kernel) (by decide +kernel))
    obtain ⟨tw, hw⟩ := whR [eRel, nRel "n1", nRel "n0"] (by decide +kernel) (by decide +kernel) (by decide +kernel)
    have hproj : bProj Γ0 ⟨[], [[eRel, nRel "n1", nRel "n0"]]⟩ [eRel, nRel "n1", nRel "n0"] (frameProj ke ka' kb') = some (keptColsB ke ka' kb') := by
      cases ke <;> cases ka' <;> cases kb' <;> decide +kernel
    simp only [if_true, hfrom, Scope.push, Option.bind_eq_bind, Option.bind_some, hw, hproj, bGroupBy, bOpt, bOrderBy, Option.pure_def]

def s0RelK (ke ka kb : Bool) : Rel := ⟨"s0", keptColsB ke ka kb⟩

theorem hFromOK (ke ka kb : Bool) : bFromClauses Γ0 ⟨[s0RelK ke ka kb], []⟩ [] [.mk (.table ["s0"] none) []] = some [s0RelK ke ka kb] := by
  cases ke <;> cases ka <;> cases kb <;> decide +kernel

theorem bItem2 (q : S2.Query) (ke ka kb : Bool) (it : S2.Item) (hk : keepOfB ke ka kb it.ref = true) :
    ∃ ty, bExpr Γ0 ⟨[s0RelK ke ka kb], [[s0RelK ke ka kb]]⟩ (it.tr q) = some ty := by
  cases it with
  | ent x al => cases x <;> cases ke <;> cases ka <;> cases kb <;> simp [keepOfB, S2.Item.ref] at hk <;> exact ⟨_, rfl⟩
  | idOf x al => cases x <;> cases al <;> cases ke <;> cases ka <;> cases kb <;> simp [keepOfB, S2.Item.ref] at hk <;> exact ⟨_, rfl⟩
  | prop x k al => cases x <;> cases al <;> cases ke <;> cases ka <;> cases kb <;> simp [keepOfB, S2.Item.ref] at hk <;> exact ⟨_, rfl⟩

theorem item2_not_wildcard (q : S2.Query) (it : S2.Item) : it.tr q ≠ .wildcard := by
  cases it with
  | ent x al => intro hh; cases hh
  | idOf x al => cases al <;> (intro hh; cases hh)
  | prop x k al => cases al <;> (intro hh; cases hh)

theorem bProjItems2 (q : S2.Query) (ke ka kb : Bool) : ∀ (items : List S2.Item), (∀ it ∈ items, keepOfB ke ka kb it.ref = true) →
    ∃ cols, bProj Γ0 ⟨[s0RelK ke ka kb], [[s0RelK ke ka kb]]⟩ [s0RelK ke ka kb] (items.map (S2.Item.tr q)) = some cols
  | [], _ => ⟨[], by rw [List.map_nil, bProj]⟩
  | it :: items, h => by
    obtain ⟨ty, hty⟩ := bItem2 q ke ka kb it (h it (List.mem_cons_self ..))
    obtain ⟨cols, hcols⟩ := bProjItems2 q ke ka kb items (fun i hi => h i (List.mem_cons_of_mem _ hi))
    refine ⟨⟨figureName (it.tr q), ty⟩ :: cols, ?_⟩
    rw [List.map_cons, bProj]
    · simp only [hty, hcols, Option.bind_eq_bind, Option.bind_some, Option.pure_def]
    · intro hh; exact item2_not_wildcard q it hh

/-- THE FRAGMENT THEOREM, stage S2 (one hop with WHERE, either join order): every statement passes the verified binder under the schema
catalogue with no parameters -/
theorem tr_wellScoped2 (km : KindMap) (s : S2.Query) (flip prune : Bool) (st : Stmt) (h : s.trWith km flip prune = some st) : wellScoped Γ0 st = true := by
  unfold S2.Query.trWith at h
  cases hwf : s.wf with
  | false => simp [hwf] at h
  | true =>
    simp only [hwf, Bool.not_true, Bool.false_eq_true, if_false] at h
    cases hka : kindIds? km s.akinds with
    | none => simp [hka] at h
    | some ka =>
    cases hkr : kindIds? km s.rkinds with
    | none => simp [hka, hkr] at h
    | some kr =>
    cases hkb : kindIds? km s.bkinds with
    | none => simp [hka, hkr, hkb] at h
    | some kb =>
    cases hpa : predsE km "n0" false (s.preds .a) with
    | none => simp [hka, hkr, hkb, hpa] at h
    | some pa =>
    cases hpr : predsE km "e0" true (s.preds .r) with
    | none => simp [hka, hkr, hkb, hpa, hpr] at h
    | some pr =>
    cases hpb : predsE km "n1" false (s.preds .b) with
    | none => simp [hka, hkr, hkb, hpa, hpr, hpb] at h
    | some pb =>
    simp only [hka, hkr, hkb, hpa, hpr, hpb, Option.some.injEq] at h
    subst h
    have hkeep : ∀ it ∈ s.items, keepOfB (!prune || s.reads .r) (!prune || s.reads .a) (!prune || s.reads .b) it.ref = true := by
      intro it hit
      have hr : s.reads it.ref = true := by
        unfold S2.Query.reads
        simp only [Bool.or_eq_true, List.any_eq_true]
        exact Or.inl ⟨it, hit, by simp⟩
      cases hx : it.ref <;> (rw [hx] at hr; simp [keepOfB, hr])
    obtain ⟨cols, hcols⟩ := bProjItems2 s _ _ _ s.items hkeep
    have hfr := bFrame2 km flip (!prune || s.reads .r) (!prune || s.reads .a) (!prune || s.reads .b) ka kr kb (s.preds .a) (s.preds .r) (s.preds .b) pa pr pb hpa hpr hpb
    unfold wellScoped
    rw [bStmt, bQuery, bCtes]
    case x_2 => intro _ _ _ _ _ _ _ _ hh; cases hh
    simp only [Scope.empty, Scope.withCtes, hfr, Option.bind_eq_bind, Option.bind_some, bShape, List.contains_nil, Bool.false_eq_true,
      if_false, bCtes]
    rw [bSetExpr]
    have hs0 : (⟨"s0", keptColsB (!prune || s.reads .r) (!prune || s.reads .a) (!prune || s.reads .b)⟩ : Rel) =
        s0RelK (!prune || s.reads .r) (!prune || s.reads .a) (!prune || s.reads .b) := rfl
    simp only [hs0, hFromOK, Scope.push, Option.bind_eq_bind, Option.bind_some, bOpt, hcols, bGroupBy, Option.pure_def, bOrderBy,
      Option.isSome_some]

end Hop

-- ------------------------------------------------------------------ stage S2c: chains of two or three hops

namespace ChainB
open Dawgs.C01.S2 Dawgs.C01.Ch

def cols5 : List Col := [⟨"e0", "edgecomposite"⟩, ⟨"e1", "edgecomposite"⟩, ⟨"n0", "nodecomposite"⟩, ⟨"n1", "nodecomposite"⟩, ⟨"n2", "nodecomposite"⟩]
def cols7 : List Col := [⟨"e0", "edgecomposite"⟩, ⟨"e1", "edgecomposite"⟩, ⟨"e2", "edgecomposite"⟩, ⟨"n0", "nodecomposite"⟩, ⟨"n1", "nodecomposite"⟩,
  ⟨"n2", "nodecomposite"⟩, ⟨"n3", "nodecomposite"⟩]
def s0R : Rel := ⟨"s0", Hop.frameCols⟩
def s1R : Rel := ⟨"s1", cols5⟩
def s2R : Rel := ⟨"s2", cols7⟩

theorem bFrame0 (km : KindMap) (ka kr kb : Option (List Nat)) (flip : Bool) : bQuery Γ0 ⟨[], []⟩ (Ch.frame0 ka kr kb flip) = some Hop.frameCols :=
  Hop.bFrame2 km flip true true true ka kr kb [] [] [] none none none rfl rfl rfl

/-- frame s1 binds under the scope that knows s0 (the kind-id lists are literals: their content is never inspected) -/
theorem bStep1 (kr kn : Option (List Nat)) : bQuery Γ0 ⟨[s0R], []⟩ (Ch.stepFrame 1 kr kn) = some cols5 := by
  cases kr <;> cases kn <;> rfl

theorem bStep2 (kr kn : Option (List Nat)) : bQuery Γ0 ⟨[s1R, s0R], []⟩ (Ch.stepFrame 2 kr kn) = some cols7 := by
  cases kr <;> cases kn <;> rfl

def refOK (k : Nat) : Ch.Ref → Bool
  | .node i => decide (i < k + 1)
  | .rel i => decide (i < k)

theorem bItem_s1 (q : Ch.Query) (it : Ch.Item) (hv : refOK 2 it.ref = true) : ∃ ty, bExpr Γ0 ⟨[s1R, s0R], [[s1R]]⟩ (it.tr q "s1") = some ty := by
  cases it with
  | ent x al =>
    cases x with
    | node i => rcases i with _ | _ | _ | i <;> first | exact ⟨_, rfl⟩ | (simp [refOK, Ch.Item.ref] at hv; omega)
    | rel i => rcases i with _ | _ | i <;> first | exact ⟨_, rfl⟩ | (simp [refOK, Ch.Item.ref] at hv; omega)
  | idOf x al =>
    cases x with
    | node i => rcases i with _ | _ | _ | i <;> cases al <;> first | exact ⟨_, rfl⟩ | (simp [refOK, Ch.Item.ref] at hv; omega)
    | rel i => rcases i with _ | _ | i <;> cases al <;> first | exact ⟨_, rfl⟩ | (simp [refOK, Ch.Item.ref] at hv; omega)
  | prop x k al =>
    cases x with
    | node i => rcases i with _ | _ | _ | i <;> cases al <;> first | exact ⟨_, rfl⟩ | (simp [refOK, Ch.Item.ref] at hv; omega)
    | rel i => rcases i with _ | _ | i <;> cases al <;> first | exact ⟨_, rfl⟩ | (simp [refOK, Ch.Item.ref] at hv; omega)

theorem bItem_s2 (q : Ch.Query) (it : Ch.Item) (hv : refOK 3 it.ref = true) : ∃ ty, bExpr Γ0 ⟨[s2R, s1R, s0R], [[s2R]]⟩ (it.tr q "s2") = some ty := by
  cases it with
  | ent x al =>
    cases x with
    | node i => rcases i with _ | _ | _ | _ | i <;> first | exact ⟨_, rfl⟩ | (simp [refOK, Ch.Item.ref] at hv; omega)
    | rel i => rcases i with _ | _ | _ | i <;> first | exact ⟨_, rfl⟩ | (simp [refOK, Ch.Item.ref] at hv; omega)
  | idOf x al =>
    cases x with
    | node i => rcases i with _ | _ | _ | _ | i <;> cases al <;> first | exact ⟨_, rfl⟩ | (simp [refOK, Ch.Item.ref] at hv; omega)
    | rel i => rcases i with _ | _ | _ | i <;> cases al <;> first | exact ⟨_, rfl⟩ | (simp [refOK, Ch.Item.ref] at hv; omega)
  | prop x k al =>
    cases x with
    | node i => rcases i with _ | _ | _ | _ | i <;> cases al <;> first | exact ⟨_, rfl⟩ | (simp [refOK, Ch.Item.ref] at hv; omega)
    | rel i => rcases i with _ | _ | _ | i <;> cases al <;> first | exact ⟨_, rfl⟩ | (simp [refOK, Ch.Item.ref] at hv; omega)

theorem itemCh_not_wildcard (q : Ch.Query) (s : String) (it : Ch.Item) : it.tr q s ≠ .wildcard := by
  cases it with
  | ent x al => intro hh; cases hh
  | idOf x al => cases al <;> (intro hh; cases hh)
  | prop x k al => cases al <;> (intro hh; cases hh)

theorem bProjCh (q : Ch.Query) (s : String) (sc : Scope) (lvl : List Rel) (hb : ∀ it ∈ q.items, ∃ ty, bExpr Γ0 sc (it.tr q s) = some ty) :
    ∀ (items : List Ch.Item), (∀ it ∈ items, it ∈ q.items) → ∃ cols, bProj Γ0 sc lvl (items.map (Ch.Item.tr q s)) = some cols
  | [], _ => ⟨[], by rw [List.map_nil, bProj]⟩
  | it :: items, h => by
    obtain ⟨ty, hty⟩ := hb it (h it (List.mem_cons_self ..))
    obtain ⟨cols, hcols⟩ := bProjCh q s sc lvl hb items (fun i hi => h i (List.mem_cons_of_mem _ hi))
    refine ⟨⟨figureName (it.tr q s), ty⟩ :: cols, ?_⟩
    rw [List.map_cons, bProj]
    · simp only [hty, hcols, Option.bind_eq_bind, Option.bind_some, Option.pure_def]
    · intro hh; exact itemCh_not_wildcard q s it hh

theorem refs_ok (q : Ch.Query) (x : Ch.Ref) (h : q.refs.contains x = true) : refOK q.hops.length x = true := by
  unfold Ch.Query.refs at h
  simp only [List.contains_eq_mem, List.mem_append, List.mem_map, List.mem_range, decide_eq_true_eq] at h
  cases x with
  | node i =>
    rcases h with ⟨j, hj, hh⟩ | ⟨j, _, hh⟩
    · cases hh; simp [refOK, hj]
    · cases hh
  | rel i =>
    rcases h with ⟨j, _, hh⟩ | ⟨j, hj, hh⟩
    · cases hh
    · cases hh; simp [refOK, hj]

/-- THE FRAGMENT THEOREM, stage S2c: every chain statement passes the verified binder under the schema catalogue with no parameters -/
theorem tr_wellScopedCh (km : KindMap) (q : Ch.Query) (flip : Bool) (st : Stmt) (h : q.trWith km flip = some st) : wellScoped Γ0 st = true := by
  unfold Ch.Query.trWith at h
  cases hwf : q.wf with
  | false => simp [hwf] at h
  | true =>
  simp only [hwf, Bool.not_true, Bool.false_eq_true, if_false] at h
  have hwf' := hwf
  unfold Ch.Query.wf at hwf'
  simp only [Bool.and_eq_true, decide_eq_true_eq, List.all_eq_true, Bool.or_eq_true, beq_iff_eq] at hwf'
  obtain ⟨⟨⟨hlen, _⟩, hitems⟩, _⟩ := hwf'
  cases hh : q.hops with
  | nil => rw [hh] at hlen; simp at hlen
  | cons h0 hs =>
  rw [hh] at h hlen
  simp only at h
  cases hka : kindIds? km q.akinds with
  | none => simp [hka, bind, Option.bind] at h
  | some ka =>
  cases hk0 : Ch.hopKinds km h0 with
  | none => simp [hka, hk0, bind, Option.bind] at h
  | some k0 =>
  obtain ⟨kr, kb⟩ := k0
  cases hs with
  | nil => simp at hlen
  | cons h1 hs' =>
  cases hk1 : Ch.hopKinds km h1 with
  | none => simp [hka, hk0, hk1, Ch.stepCtes, bind, Option.bind] at h
  | some k1 =>
  obtain ⟨kr1, kn1⟩ := k1
  have hf0 := bFrame0 km ka kr kb flip
  have hf1 := bStep1 kr1 kn1
  cases hs' with
  | nil =>
    simp [hka, hk0, hk1, Ch.stepCtes, bind, Option.bind, Ch.sN] at h
    subst h
    have hb : ∀ it ∈ q.items, ∃ ty, bExpr Γ0 ⟨[s1R, s0R], [[s1R]]⟩ (it.tr q "s1") = some ty := fun it hit =>
      bItem_s1 q it (by have := refs_ok q it.ref (by simpa using hitems it hit); rw [hh] at this; exact this)
    obtain ⟨cols, hcols⟩ := bProjCh q "s1" ⟨[s1R, s0R], [[s1R]]⟩ [s1R] hb q.items (fun _ hi => hi)
    have hFrom : bFromClauses Γ0 ⟨[s1R, s0R], []⟩ [] [.mk (.table ["s1"] none) []] = some [s1R] := by decide +kernel
    unfold wellScoped
    rw [bStmt, bQuery, bCtes]
    case x_2 => intro _ _ _ _ _ _ _ _ hh; cases hh
    simp only [Scope.empty, Scope.withCtes, hf0, Option.bind_eq_bind, Option.bind_some, bShape, List.contains_nil, Bool.false_eq_true, if_false]
    rw [bCtes]
    case x_2 => intro _ _ _ _ _ _ _ _ hh; cases hh
    have hs0 : (⟨"s0", Hop.frameCols⟩ : Rel) = s0R := rfl
    simp only [hs0, Scope.withCtes, hf1, Option.bind_eq_bind, Option.bind_some, bShape, List.contains_cons, List.contains_nil,
      Bool.or_false, show ("s1" == "s0") = false from by decide, Bool.false_eq_true, if_false, bCtes]
    rw [bSetExpr]
    have hs1 : (⟨"s1", cols5⟩ : Rel) = s1R := rfl
    simp only [hs1, hFrom, Scope.push, Option.bind_eq_bind, Option.bind_some, bOpt, hcols, bGroupBy, Option.pure_def, bOrderBy,
      Option.isSome_some]
  | cons h2 hs'' =>
    cases hs'' with
    | cons h3 _ => simp at hlen
    | nil =>
    cases hk2 : Ch.hopKinds km h2 with
    | none => simp [hka, hk0, hk1, hk2, Ch.stepCtes, bind, Option.bind] at h
    | some k2 =>
    obtain ⟨kr2, kn2⟩ := k2
    have hf2 := bStep2 kr2 kn2
    simp [hka, hk0, hk1, hk2, Ch.stepCtes, bind, Option.bind, Ch.sN] at h
    subst h
    have hb : ∀ it ∈ q.items, ∃ ty, bExpr Γ0 ⟨[s2R, s1R, s0R], [[s2R]]⟩ (it.tr q "s2") = some ty := fun it hit =>
      bItem_s2 q it (by have := refs_ok q it.ref (by simpa using hitems it hit); rw [hh] at this; exact this)
    obtain ⟨cols, hcols⟩ := bProjCh q "s2" ⟨[s2R, s1R, s0R], [[s2R]]⟩ [s2R] hb q.items (fun _ hi => hi)
    have hFrom : bFromClauses Γ0 ⟨[s2R, s1R, s0R], []⟩ [] [.mk (.table ["s2"] none) []] = some [s2R] := by decide +kernel
    unfold wellScoped
    rw [bStmt, bQuery, bCtes]
    case x_2 => intro _ _ _ _ _ _ _ _ hh; cases hh
    simp only [Scope.empty, Scope.withCtes, hf0, Option.bind_eq_bind, Option.bind_some, bShape, List.contains_nil, Bool.false_eq_true, if_false]
    rw [bCtes]
    case x_2 => intro _ _ _ _ _ _ _ _ hh; cases hh
    have hs0 : (⟨"s0", Hop.frameCols⟩ : Rel) = s0R := rfl
    simp only [hs0, Scope.withCtes, hf1, Option.bind_eq_bind, Option.bind_some, bShape, List.contains_cons, List.contains_nil,
      Bool.or_false, show ("s1" == "s0") = false from by decide, Bool.false_eq_true, if_false]
    rw [bCtes]
    case x_2 => intro _ _ _ _ _ _ _ _ hh; cases hh
    have hs1 : (⟨"s1", cols5⟩ : Rel) = s1R := rfl
    simp only [hs1, Scope.withCtes, hf2, Option.bind_eq_bind, Option.bind_some, bShape, List.contains_cons, List.contains_nil,
      Bool.or_false, show ("s2" == "s1") = false from by decide, show ("s2" == "s0") = false from by decide, Bool.false_eq_true, if_false, bCtes]
    rw [bSetExpr]
    have hs2 : (⟨"s2", cols7⟩ : Rel) = s2R := rfl
    simp only [hs2, hFrom, Scope.push, Option.bind_eq_bind, Option.bind_some, bOpt, hcols, bGroupBy, Option.pure_def, bOrderBy,
      Option.isSome_some]

end ChainB

/-- both proved stages, every join-order choice: every statement of `tr2F` is closed and carries no parameters -/
theorem tr2_wellScoped (flipOf : C01.S2.Query → Bool) (prune : Bool) (km : KindMap) (q : Cy.Query) (st : Stmt) (ps : List (String × Val))
    (h : C01.tr2F flipOf prune km q = some (st, ps)) : wellScoped Γ0 st = true ∧ ps = [] := by
  unfold C01.tr2F at h
  cases h1 : C01.tr km q with
  | some r =>
    rw [h1] at h; cases h
    unfold C01.tr at h1
    cases ho : C01.ofCy q with
    | none => rw [ho] at h1; cases h1
    | some s =>
      rw [ho] at h1
      simp only [Option.map_eq_some_iff] at h1
      obtain ⟨st', hst, heq⟩ := h1
      cases heq
      exact ⟨tr_wellScoped km s _ hst, rfl⟩
  | none =>
    rw [h1] at h
    cases ho : C01.ofCy2 q with
    | none => rw [ho] at h; cases h
    | some s =>
      rw [ho] at h
      simp only [Option.map_eq_some_iff] at h
      obtain ⟨st', hst, heq⟩ := h
      cases heq
      exact ⟨Hop.tr_wellScoped2 km s _ _ _ hst, rfl⟩

-- ------------------------------------------------------------------ stage S1c: count over one node pattern

namespace CountB
open Dawgs.C01.S1c

theorem bCountItem (sc : Scope) (lvl : List Rel) (al : Option String) (arg : Expr) (ty : String)
    (h : bExpr Γ0 sc (.call "count" [arg] false false "int8") = some ty) : ∃ cols, bProj Γ0 sc lvl [countItem al arg] = some cols := by
  cases al with
  | none =>
    refine ⟨[⟨figureName (countItem none arg), ty⟩], ?_⟩
    simp only [countItem]
    rw [bProj]
    · simp only [h, bProj, Option.bind_eq_bind, Option.bind_some, Option.pure_def]
    · intro hh; cases hh
  | some a =>
    refine ⟨[⟨figureName (countItem (some a) arg), ty⟩], ?_⟩
    simp only [countItem]
    rw [bProj]
    · rw [bExpr]
      simp only [h, bProj, Option.bind_eq_bind, Option.bind_some, Option.pure_def]
    · intro hh; cases hh

theorem bProjFast (al : Option String) : ∃ cols, bProj Γ0 scN [nodeRel] [countItem al .wildcard] = some cols :=
  bCountItem scN [nodeRel] al .wildcard "int8" (by decide +kernel)

theorem bProjFrame (al : Option String) : ∃ cols, bProj Γ0 scO [s0Rel] [countItem al (.compound ["s0", "n0"])] = some cols :=
  bCountItem scO [s0Rel] al (.compound ["s0", "n0"]) "int8" (by decide +kernel)

/-- THE FRAGMENT THEOREM, stage S1c: both count statements pass the verified binder under the schema catalogue with no parameters -/
theorem tr_wellScopedCount (km : KindMap) (q : S1c.Query) (fast : Bool) (st : Stmt) (h : q.trWith km fast = some st) : wellScoped Γ0 st = true := by
  unfold S1c.Query.trWith at h
  obtain ⟨w, hwo, hst⟩ := Option.map_eq_some_iff.mp h
  obtain ⟨ty, hw⟩ := bWhere km q.s1 w hwo
  cases hf : (fast && q.fastOK) with
  | true =>
    rw [hf] at hst
    simp only [if_true] at hst
    subst hst
    obtain ⟨cols, hcols⟩ := bProjFast q.alias
    have hw' : bOpt Γ0 ⟨[], [[nodeRel]]⟩ w = some ty := hw
    have hcols' : bProj Γ0 ⟨[], [[nodeRel]]⟩ [nodeRel] [countItem q.alias .wildcard] = some cols := hcols
    unfold wellScoped S1c.fastStmt Sql.Query.simple
    rw [bStmt, bQuery, bCtes]
    simp only [Scope.empty, Scope.withCtes, Option.bind_eq_bind, Option.bind_some]
    rw [bSetExpr]
    simp only [hFrom, Scope.push, Option.bind_eq_bind, Option.bind_some, hw', hcols', bGroupBy, bOpt, bOrderBy, Option.pure_def, Option.isSome_some]
  | false =>
    rw [hf] at hst
    simp only [Bool.false_eq_true, if_false] at hst
    subst hst
    obtain ⟨cols, hcols⟩ := bProjFrame q.alias
    have hcols' : bProj Γ0 ⟨[s0Rel], [[s0Rel]]⟩ [s0Rel] [countItem q.alias (.compound ["s0", "n0"])] = some cols := hcols
    have hfr := bFrame w ty hw
    unfold frameSel at hfr
    unfold wellScoped S1c.frameStmt
    rw [bStmt, bQuery, bCtes]
    case x_2 => intro _ _ _ _ _ _ _ _ hh; cases hh
    simp only [Scope.empty, Scope.withCtes, hfr, Option.bind_eq_bind, Option.bind_some, bShape, List.contains_nil, Bool.false_eq_true,
      if_false, bCtes]
    rw [bSetExpr]
    have hs0 : (⟨"s0", [⟨"n0", "nodecomposite"⟩]⟩ : Rel) = s0Rel := rfl
    simp only [hs0, hFromO, Scope.push, Option.bind_eq_bind, Option.bind_some, bOpt, hcols', bGroupBy, Option.pure_def, bOrderBy,
      Option.isSome_some]

end CountB

/-- all three proved stages -/
theorem tr3_wellScoped (flipOf : C01.S2.Query → Bool) (flipCh : C01.Ch.Query → Bool) (prune : Bool) (km : KindMap) (q : Cy.Query) (st : Stmt)
    (ps : List (String × Val)) (h : C01.tr3F flipOf flipCh prune km q = some (st, ps)) : wellScoped Γ0 st = true ∧ ps = [] := by
  unfold C01.tr3F at h
  cases h1 : C01.tr2F flipOf prune km q with
  | some r => rw [h1] at h; cases h; exact tr2_wellScoped flipOf prune km q st ps h1
  | none =>
    rw [h1] at h
    cases ho : C01.ofCyChain q with
    | none => rw [ho] at h; cases h
    | some s =>
      rw [ho] at h
      simp only [Option.map_eq_some_iff] at h
      obtain ⟨st', hst, heq⟩ := h
      cases heq
      exact ⟨ChainB.tr_wellScopedCh km s _ _ hst, rfl⟩

-- ------------------------------------------------------------------ stage S2n: count over one hop

namespace CountHopB
open Dawgs.C01.S2 Dawgs.C01.S1c

theorem bCountCol (ke ka kb : Bool) (x : S2.Ref) (hk : Hop.keepOfB ke ka kb x = true) :
    ∃ ty, bExpr Γ0 ⟨[Hop.s0RelK ke ka kb], [[Hop.s0RelK ke ka kb]]⟩ (.call "count" [col "s0" (frameName x)] false false "int8") = some ty := by
  cases x <;> cases ke <;> cases ka <;> cases kb <;> simp [Hop.keepOfB] at hk <;> exact ⟨"int8", by decide +kernel⟩

/-- THE FRAGMENT THEOREM, stage S2n: every count-over-hop statement passes the verified binder under the schema catalogue, no parameters -/
theorem tr_wellScopedCountHop (km : KindMap) (q : S2n.Query) (flip prune : Bool) (st : Stmt) (h : q.trWith km flip prune = some st) :
    wellScoped Γ0 st = true := by
  unfold S2n.Query.trWith at h
  cases hwf : q.base.wf with
  | false => simp [hwf] at h
  | true =>
    simp only [hwf, Bool.not_true, Bool.false_eq_true, if_false] at h
    cases hka : kindIds? km q.akinds with
    | none => simp [hka] at h
    | some ka =>
    cases hkr : kindIds? km q.rkinds with
    | none => simp [hka, hkr] at h
    | some kr =>
    cases hkb : kindIds? km q.bkinds with
    | none => simp [hka, hkr, hkb] at h
    | some kb =>
    cases hpa : predsE km "n0" false (q.base.preds .a) with
    | none => simp [hka, hkr, hkb, hpa] at h
    | some pa =>
    cases hpr : predsE km "e0" true (q.base.preds .r) with
    | none => simp [hka, hkr, hkb, hpa, hpr] at h
    | some pr =>
    cases hpb : predsE km "n1" false (q.base.preds .b) with
    | none => simp [hka, hkr, hkb, hpa, hpr, hpb] at h
    | some pb =>
    simp only [hka, hkr, hkb, hpa, hpr, hpb, Option.some.injEq] at h
    subst h
    have hkeep : Hop.keepOfB (!prune || q.base.reads .r) (!prune || q.base.reads .a) (!prune || q.base.reads .b) q.x = true := by
      have hr : q.base.reads q.x = true := by
        unfold S2.Query.reads S2n.Query.base
        simp [S2.Item.ref]
      cases hx : q.x <;> (rw [hx] at hr; simp [Hop.keepOfB, hr])
    obtain ⟨ty, hty⟩ := bCountCol _ _ _ q.x hkeep
    obtain ⟨cols, hcols⟩ := CountB.bCountItem ⟨[Hop.s0RelK (!prune || q.base.reads .r) (!prune || q.base.reads .a) (!prune || q.base.reads .b)],
        [[Hop.s0RelK (!prune || q.base.reads .r) (!prune || q.base.reads .a) (!prune || q.base.reads .b)]]⟩
      [Hop.s0RelK (!prune || q.base.reads .r) (!prune || q.base.reads .a) (!prune || q.base.reads .b)] q.alias (col "s0" (frameName q.x)) ty hty
    have hfr := Hop.bFrame2 km flip (!prune || q.base.reads .r) (!prune || q.base.reads .a) (!prune || q.base.reads .b) ka kr kb
      (q.base.preds .a) (q.base.preds .r) (q.base.preds .b) pa pr pb hpa hpr hpb
    unfold wellScoped
    rw [bStmt, bQuery, bCtes]
    case x_2 => intro _ _ _ _ _ _ _ _ hh; cases hh
    simp only [Scope.empty, Scope.withCtes, hfr, Option.bind_eq_bind, Option.bind_some, bShape, List.contains_nil, Bool.false_eq_true,
      if_false, bCtes]
    rw [bSetExpr]
    have hs0 : (⟨"s0", Hop.keptColsB (!prune || q.base.reads .r) (!prune || q.base.reads .a) (!prune || q.base.reads .b)⟩ : Rel) =
        Hop.s0RelK (!prune || q.base.reads .r) (!prune || q.base.reads .a) (!prune || q.base.reads .b) := rfl
    simp only [hs0, Hop.hFromOK, Scope.push, Option.bind_eq_bind, Option.bind_some, bOpt, hcols, bGroupBy, Option.pure_def, bOrderBy,
      Option.isSome_some]

end CountHopB

/-- all four proved stages -/
theorem tr4_wellScoped (flipOf : C01.S2.Query → Bool) (flipCh : C01.Ch.Query → Bool) (fast prune : Bool) (km : KindMap) (q : Cy.Query) (st : Stmt)
    (ps : List (String × Val)) (h : C01.tr4F flipOf flipCh fast prune km q = some (st, ps)) : wellScoped Γ0 st = true ∧ ps = [] := by
  unfold C01.tr4F at h
  cases h1 : C01.tr3F flipOf flipCh prune km q with
  | some r => rw [h1] at h; cases h; exact tr3_wellScoped flipOf flipCh prune km q st ps h1
  | none =>
    rw [h1] at h
    cases ho : C01.ofCyCount1 q with
    | none => rw [ho] at h; cases h
    | some s =>
      rw [ho] at h
      simp only [Option.map_eq_some_iff] at h
      obtain ⟨st', hst, heq⟩ := h
      cases heq
      exact ⟨CountB.tr_wellScopedCount km s _ _ hst, rfl⟩

/-- all five proved stages -/
theorem tr5_wellScoped (flipOf : C01.S2.Query → Bool) (flipCh : C01.Ch.Query → Bool) (flipN : C01.S2n.Query → Bool) (fast prune : Bool) (km : KindMap)
    (q : Cy.Query) (st : Stmt) (ps : List (String × Val)) (h : C01.tr5F flipOf flipCh flipN fast prune km q = some (st, ps)) :
    wellScoped Γ0 st = true ∧ ps = [] := by
  unfold C01.tr5F at h
  cases h1 : C01.tr4F flipOf flipCh fast prune km q with
  | some r => rw [h1] at h; cases h; exact tr4_wellScoped flipOf flipCh fast prune km q st ps h1
  | none =>
    rw [h1] at h
    cases ho : C01.ofCyCount2 q with
    | none => rw [ho] at h; cases h
    | some s =>
      rw [ho] at h
      simp only [Option.map_eq_some_iff] at h
      obtain ⟨st', hst, heq⟩ := h
      cases heq
      exact ⟨CountHopB.tr_wellScopedCountHop km s _ _ _ hst, rfl⟩

end Dawgs.C03.Frag
