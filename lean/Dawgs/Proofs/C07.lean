import Dawgs.Model.C07
namespace Dawgs.C07

/-! ### the range mini-parser (`ex`: with / without the exact-length repair of hooks/C07-fix2.patch) -/

theorem parseRange_star (ex : Bool) : parseRangeWith ex [.star] = { state := 1 } := by cases ex <;> rfl

/-- the emitter's output for a stored range parses back to the same range, without errors -/
theorem parse_emitRangeT_with (ex : Bool) (r : Option Int × Option Int) :
    (parseRangeWith ex (emitRangeT r)).start = r.1 ∧ (parseRangeWith ex (emitRangeT r)).stop = r.2 ∧
    (parseRangeWith ex (emitRangeT r)).errors = 0 := by
  obtain ⟨a, b⟩ := r
  cases ex <;> cases a <;> cases b <;> simp [emitRangeT, parseRangeWith, rangeStep, RTok.isDots]

theorem parse_emitRangeT (r : Option Int × Option Int) :
    (parseRange (emitRangeT r)).start = r.1 ∧ (parseRange (emitRangeT r)).stop = r.2 ∧ (parseRange (emitRangeT r)).errors = 0 :=
  parse_emitRangeT_with _ r

/-- every grammatical form `* a? (.. b?)?` parses without error; the start index is `a`; the end index is `b` when the range
operator is present, otherwise nothing (old) or `a` again (repaired) -/
theorem parse_rangeTokens_with (ex : Bool) (a : Option Nat) (dots : Bool) (b : Option Nat) :
    (parseRangeWith ex (rangeTokens a dots b)).errors = 0 ∧ (parseRangeWith ex (rangeTokens a dots b)).start = a.map Int.ofNat ∧
    (parseRangeWith ex (rangeTokens a dots b)).stop = (if dots then b.map Int.ofNat else if ex then a.map Int.ofNat else none) := by
  cases ex <;> cases a <;> cases b <;> cases dots <;> simp [rangeTokens, parseRangeWith, rangeStep, RTok.isDots]

end Dawgs.C07
