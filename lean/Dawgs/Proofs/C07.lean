import Dawgs.Model.C07
namespace Dawgs.C07

/-! ### the range mini-parser -/

theorem parseRange_star : parseRange [.star] = { state := 1 } := rfl

/-- the emitter's output for a stored range parses back to the same range, without errors -/
theorem parse_emitRangeT (r : Option Int × Option Int) :
    (parseRange (emitRangeT r)).start = r.1 ∧ (parseRange (emitRangeT r)).stop = r.2 ∧ (parseRange (emitRangeT r)).errors = 0 := by
  obtain ⟨a, b⟩ := r
  cases a <;> cases b <;> simp [emitRangeT, parseRange, rangeStep]

/-- every grammatical form `* a? (.. b?)?` parses without error into (a, b) -/
theorem parse_rangeTokens (a : Option Nat) (dots : Bool) (b : Option Nat) :
    (parseRange (rangeTokens a dots b)).errors = 0 ∧ (parseRange (rangeTokens a dots b)).start = a.map Int.ofNat ∧
    (parseRange (rangeTokens a dots b)).stop = (if dots then b.map Int.ofNat else none) := by
  cases a <;> cases b <;> cases dots <;> simp [rangeTokens, parseRange, rangeStep]

end Dawgs.C07
