/- Helper lemmas for C10 at clause level (queries, parameter lifting). Core Lean only. -/
import Std.Data.String.ToNat
import Dawgs.Proofs.C10
import Dawgs.Model.C10Q
set_option linter.unusedSimpArgs false
set_option linter.unusedVariables false
namespace Dawgs.C10
/-! ## clause level: the parser inverts the emitter -/

/-- what may follow a clause or a list inside a clause: the end, or the keyword opening the next part -/
def cf0 : List Tok → Bool
  | [] => true
  | .kwSet :: _ | .kwRemove :: _ | .kwDelete :: _ | .kwDetachDelete :: _ | .kwCreate :: _ | .kwReturn :: _
  | .kwOrderBy :: _ | .kwSkip :: _ | .kwLimit :: _ | .kwWhere :: _ => true
  | _ => false

/-- what may follow a list element: the above, or a comma -/
def cfe : List Tok → Bool
  | .comma :: _ => true
  | ts => cf0 ts

theorem cf0_cfe {r : List Tok} (h : cf0 r = true) : cfe r = true := by
  cases r with
  | nil => rfl
  | cons t r => cases t <;> simp_all [cf0, cfe]

theorem cfe_oFollow {r : List Tok} (h : cfe r = true) : oFollow r = true := by
  cases r with
  | nil => rfl
  | cons t r => cases t <;> simp_all [cf0, cfe, oFollow]

theorem parseLabels_tail_gen : ∀ (ks : List String) (rest : List Tok), (∀ r, rest ≠ Tok.colon :: r) →
    parseLabels (labelTail ks ++ rest) = (ks, rest)
  | [], rest, h => by
    cases rest with
    | nil => simp [labelTail, parseLabels]
    | cons t r =>
      cases t <;> simp_all [labelTail, parseLabels]
  | k :: ks, rest, h => by
    simp [labelTail, parseLabels, parseLabels_tail_gen ks rest h]

theorem parsePipes_tail : ∀ (ks : List String) (rest : List Tok), (∀ r, rest ≠ Tok.pipe :: r) →
    parsePipes (pipeTail ks ++ rest) = (ks, rest)
  | [], rest, h => by
    cases rest with
    | nil => simp [pipeTail, parsePipes]
    | cons t r => cases t <;> simp_all [pipeTail, parsePipes]
  | k :: ks, rest, h => by
    simp [pipeTail, parsePipes, parsePipes_tail ks rest h]

theorem parseRelKinds_tail (ks : List String) (rest : List Tok) (h1 : ∀ r, rest ≠ Tok.pipe :: r) (h2 : ∀ r, rest ≠ Tok.colon :: r) :
    parseRelKinds (relKindsT ks ++ rest) = (ks, rest) := by
  cases ks with
  | nil =>
    cases rest with
    | nil => simp [relKindsT, parseRelKinds]
    | cons t r => cases t <;> simp_all [relKindsT, parseRelKinds]
  | cons k ks => simp [relKindsT, parseRelKinds, parsePipes_tail ks rest h1]

theorem parseEl_emit (el : PatEl) (rest : List Tok) : parseEl (emitEl el ++ rest) = some (el, rest) := by
  cases el with
  | node v ks p =>
    cases v <;> cases p <;> cases ks <;>
      simp [emitEl, parseEl, optIdentT, optParamT, optIdentP, optParamP, labelTail, parseLabels, parseLabels_tail_gen]
  | rel v ks p =>
    cases v <;> cases p <;> cases ks <;>
      simp [emitEl, parseEl, optIdentT, optParamT, optIdentP, optParamP, relKindsT, parseRelKinds, parsePipes_tail]

theorem emitEl_head (el : PatEl) : ∃ r, emitEl el = (if el.isNode then Tok.lp else Tok.relOpen) :: r := by
  cases el <;> simp [emitEl, PatEl.isNode]

/-- nothing that continues a pattern -/
def patStop : List Tok → Bool
  | .lp :: _ | .relOpen :: _ | .comma :: _ => false
  | _ => true

theorem parsePat_emit : ∀ (els : List PatEl) (prev : Bool) (f : Nat), els.length + 1 ≤ f → ∀ acc rest, patStop rest = true →
    parsePat f acc (emitPat prev els ++ rest) = some (acc ++ els, rest)
  | [], prev, f, hf, acc, rest, hr => by
    cases f with
    | zero => omega
    | succ f =>
      cases rest with
      | nil => simp [emitPat, parsePat]
      | cons t r => cases t <;> simp_all [emitPat, parsePat, patStop]
  | el :: els, prev, f, hf, acc, rest, hr => by
    cases f with
    | zero => omega
    | succ f =>
      simp only [List.length_cons] at hf
      have ih := parsePat_emit els el.isNode f (by omega) (acc ++ [el]) rest hr
      have hel := parseEl_emit el (emitPat el.isNode els ++ rest)
      cases el with
      | node v ks p =>
        cases prev <;>
          simp_all [emitPat, PatEl.isNode, emitEl, parsePat, List.append_assoc]
      | rel v ks p =>
        simp_all [emitPat, PatEl.isNode, emitEl, parsePat, List.append_assoc]

/-! ### separated lists -/
theorem parseSep_emit {α : Type} (pe : Nat → List Tok → Option (α × List Tok)) (ee : α → List Tok) :
    ∀ (xs : List α), (∀ x ∈ xs, ∀ f, 2 * (ee x).length + 2 ≤ f → ∀ rest, cfe rest = true → pe f (ee x ++ rest) = some (x, rest)) →
    ∀ f, 2 * (emitSep ee xs).length + 2 ≤ f → ∀ acc rest, cf0 rest = true →
    parseSep pe f acc (emitSep ee xs ++ rest) = some (acc ++ xs, rest)
  | [], _, f, hf, acc, rest, hr => by
    cases f with
    | zero => omega
    | succ f =>
      cases rest with
      | nil => simp [emitSep, parseSep]
      | cons t r => cases t <;> simp_all [emitSep, parseSep, cf0]
  | x :: xs, hel, f, hf, acc, rest, hr => by
    cases f with
    | zero => omega
    | succ f =>
      simp only [emitSep, List.length_cons, List.length_append] at hf
      have hfollow : cfe (emitSep ee xs ++ rest) = true := by
        cases xs with
        | nil => simpa [emitSep] using cf0_cfe hr
        | cons y ys => simp [emitSep, cfe]
      have h1 := hel x (by simp) f (by omega) (emitSep ee xs ++ rest) hfollow
      have ih := parseSep_emit pe ee xs (fun y hy => hel y (by simp [hy])) f (by omega) (acc ++ [x]) rest hr
      simp only [emitSep, List.cons_append, List.append_assoc, parseSep, h1]
      simpa using ih

theorem parseList_emit {α : Type} (pe : Nat → List Tok → Option (α × List Tok)) (ee : α → List Tok) (x : α) (xs : List α)
    (hel : ∀ y ∈ x :: xs, ∀ f, 2 * (ee y).length + 2 ≤ f → ∀ rest, cfe rest = true → pe f (ee y ++ rest) = some (y, rest))
    (f : Nat) (hf : 2 * (emitList ee (x :: xs)).length + 2 ≤ f) (rest : List Tok) (hr : cf0 rest = true) :
    parseList pe f (emitList ee (x :: xs) ++ rest) = some (x :: xs, rest) := by
  simp only [emitList, List.length_append] at hf
  have hfollow : cfe (emitSep ee xs ++ rest) = true := by
    cases xs with
    | nil => simpa [emitSep] using cf0_cfe hr
    | cons y ys => simp [emitSep, cfe]
  have h1 := hel x (by simp) f (by omega) (emitSep ee xs ++ rest) hfollow
  have h2 := parseSep_emit pe ee xs (fun y hy => hel y (by simp [hy])) f (by omega) [x] rest hr
  simp only [parseList, emitList, List.append_assoc, h1]
  simpa using h2

/-! ### elements -/
def Item.ok : Item → Bool
  | .op o => o.ok
  | .fnDistinct _ a => a.ok

def SetItem.ok : SetItem → Bool
  | .prop _ _ val => val.ok
  | .kinds _ ks => !ks.isEmpty

def RemItem.ok : RemItem → Bool
  | .prop _ _ => true
  | .kinds _ ks => !ks.isEmpty

theorem parseItem_not_distinct (f : Nat) (ts : List Tok) (h : ∀ g r, ts ≠ Tok.ident g :: Tok.lp :: Tok.kwDistinct :: r) :
    parseItem f ts = (match parseO f ts with | some (o, r) => some (Item.op o, r) | none => none) := by
  unfold parseItem
  split
  · rename_i g r; exact absurd rfl (h g r)
  · rfl

theorem emitO_not_distinct (o : Operand) (rest : List Tok) (hr : oFollow rest = true) :
    ∀ g r, emitO true o ++ rest ≠ Tok.ident g :: Tok.lp :: Tok.kwDistinct :: r := by
  intro g r
  cases o with
  | var v =>
    cases rest with
    | nil => simp [emitO]
    | cons t rs => cases t <;> simp_all [emitO, oFollow]
  | prop v p => simp [emitO]
  | fn fnm a =>
    obtain ⟨t, r', ht, hh⟩ := emitO_head true a
    simp only [emitO, ht, List.cons_append]
    intro heq
    cases t <;> simp_all [oHead]
  | param s => simp [emitO]
  | lit l =>
    cases l with
    | null => simp [emitO, emitLit]
    | bool b => cases b <;> simp [emitO, emitLit]
    | int i => by_cases h : i < 0 <;> simp [emitO, emitLit, h]
    | float d =>
      obtain ⟨ng, n, fr⟩ := d
      cases ng <;> cases fr <;> simp [emitO, emitLit]
    | str s => simp [emitO, emitLit]
  | list xs => cases xs <;> simp [emitO]

theorem parseItem_emit (it : Item) (hok : it.ok = true) (f : Nat) (hf : 2 * (emitItem true it).length + 2 ≤ f) (rest : List Tok)
    (hr : cfe rest = true) : parseItem f (emitItem true it ++ rest) = some (it, rest) := by
  cases it with
  | op o =>
    simp only [emitItem] at hf ⊢
    have hn := needO_le o
    rw [parseItem_not_distinct f _ (emitO_not_distinct o rest (cfe_oFollow hr))]
    rw [parseO_emit o hok f (by omega) rest (cfe_oFollow hr)]
  | fnDistinct g a =>
    simp only [emitItem, List.length_cons, List.length_append] at hf
    have hn := needO_le a
    have h1 := parseO_emit a hok f (by omega) (Tok.rp :: rest) (by simp [oFollow])
    simp only [emitItem, List.cons_append, List.append_assoc, List.nil_append, parseItem]
    rw [h1]

theorem parseSort_emit (s : SortItem) (hok : s.o.ok = true) (f : Nat) (hf : 2 * (emitSort true s).length + 2 ≤ f) (rest : List Tok)
    (hr : cfe rest = true) : parseSort f (emitSort true s ++ rest) = some (s, rest) := by
  obtain ⟨o, asc⟩ := s
  simp only [emitSort, List.length_append] at hf
  have hn := needO_le o
  cases asc with
  | true =>
    have h1 := parseO_emit o hok f (by omega) (Tok.kwAsc :: rest) (by simp [oFollow])
    simp only [emitSort, List.append_assoc, List.cons_append, List.nil_append, parseSort] at h1 ⊢
    simp [h1]
  | false =>
    have h1 := parseO_emit o hok f (by omega) (Tok.kwDesc :: rest) (by simp [oFollow])
    simp only [emitSort, List.append_assoc, List.cons_append, List.nil_append, parseSort] at h1 ⊢
    simp [h1]

theorem cfe_not_colon {rest : List Tok} (hr : cfe rest = true) : ∀ r, rest ≠ Tok.colon :: r := by
  intro r h; subst h; simp [cfe, cf0] at hr

theorem parseSetItem_emit (it : SetItem) (hok : it.ok = true) (f : Nat) (hf : 2 * (emitSetItem true it).length + 2 ≤ f)
    (rest : List Tok) (hr : cfe rest = true) : parseSetItem f (emitSetItem true it ++ rest) = some (it, rest) := by
  cases it with
  | prop v p val =>
    simp only [emitSetItem, List.length_cons] at hf
    have hn := needO_le val
    have h1 := parseO_emit val hok f (by omega) rest (cfe_oFollow hr)
    simp [emitSetItem, parseSetItem, h1]
  | kinds v ks =>
    cases ks with
    | nil => simp [SetItem.ok] at hok
    | cons k ks => simp [emitSetItem, parseSetItem, labelTail, parseLabels_tail_gen ks rest (cfe_not_colon hr)]

theorem parseRemItem_emit (it : RemItem) (hok : it.ok = true) (f : Nat) (rest : List Tok) (hr : cfe rest = true) :
    parseRemItem f (emitRemItem it ++ rest) = some (it, rest) := by
  cases it with
  | prop v p =>
    cases rest with
    | nil => simp [emitRemItem, parseRemItem]
    | cons t r => simp [emitRemItem, parseRemItem]
  | kinds v ks =>
    cases ks with
    | nil => simp [RemItem.ok] at hok
    | cons k ks => simp [emitRemItem, parseRemItem, labelTail, parseLabels_tail_gen ks rest (cfe_not_colon hr)]

theorem parseVar_emit (v : String) (f : Nat) (rest : List Tok) : parseVar f ([Tok.ident v] ++ rest) = some (v, rest) := by
  simp [parseVar]

/-! ### projection -/
def optOk : Option Operand → Bool
  | some o => o.ok
  | none => true

def Proj.ok (p : Proj) : Bool :=
  !p.items.isEmpty && p.items.all Item.ok && p.order.all (fun s => s.o.ok) && optOk p.skip && optOk p.limit

theorem parseOptO_emit (kw : Tok) (x : Option Operand) (hok : optOk x = true) (f : Nat) (hf : 2 * (emitOpt kw true x).length + 2 ≤ f)
    (rest : List Tok) (h1 : ∀ r, rest ≠ kw :: r) (h2 : oFollow rest = true) :
    parseOptO kw f (emitOpt kw true x ++ rest) = some (x, rest) := by
  cases x with
  | none =>
    cases rest with
    | nil => simp [emitOpt, parseOptO]
    | cons t r =>
      have : t ≠ kw := by intro hh; subst hh; exact h1 r rfl
      simp [emitOpt, parseOptO, this]
  | some o =>
    simp only [emitOpt, List.length_cons] at hf
    have hn := needO_le o
    have := parseO_emit o hok f (by omega) rest h2
    simp [emitOpt, parseOptO, this]

theorem emitItem_head (it : Item) : ∃ t r, emitItem true it = t :: r ∧ t ≠ Tok.kwDistinct := by
  cases it with
  | op o =>
    obtain ⟨t, r, ht, hh⟩ := emitO_head true o
    exact ⟨t, r, by simp [emitItem, ht], by intro h; subst h; simp [oHead] at hh⟩
  | fnDistinct g a => exact ⟨_, _, rfl, by simp⟩

theorem allOk_mem {α : Type} {p : α → Bool} {xs : List α} (h : xs.all p = true) : ∀ x ∈ xs, p x = true := by
  simpa [List.all_eq_true] using h

theorem parseProj_emit (p : Proj) (hok : p.ok = true) (f : Nat) (hf : 2 * (emitProj true p).length + 2 ≤ f) :
    parseProj f (emitProj true p) = some (p, []) := by
  obtain ⟨d, items, order, sk, lim⟩ := p
  simp only [Proj.ok, Bool.and_eq_true, Bool.not_eq_true', List.isEmpty_eq_false_iff] at hok
  obtain ⟨⟨⟨⟨hne, hitems⟩, horder⟩, hsk⟩, hlim⟩ := hok
  simp only [emitProj, List.length_append] at hf
  cases items with
  | nil => exact absurd rfl hne
  | cons it items =>
  have hL : parseOptO .kwLimit f (emitOpt .kwLimit true lim ++ []) = some (lim, []) :=
    parseOptO_emit .kwLimit lim hlim f (by omega) [] (by simp) rfl
  have hLfollow : oFollow (emitOpt .kwLimit true lim) = true := by cases lim <;> simp [emitOpt, oFollow]
  have hLne : ∀ r, emitOpt .kwLimit true lim ≠ Tok.kwSkip :: r := by cases lim <;> simp [emitOpt]
  have hS : parseOptO .kwSkip f (emitOpt .kwSkip true sk ++ emitOpt .kwLimit true lim) = some (sk, emitOpt .kwLimit true lim) :=
    parseOptO_emit .kwSkip sk hsk f (by omega) _ hLne hLfollow
  have hSLcf : cf0 (emitOpt .kwSkip true sk ++ emitOpt .kwLimit true lim) = true := by
    cases sk <;> cases lim <;> simp [emitOpt, cf0]
  have hO : parseOrder f (emitOrder true order ++ (emitOpt .kwSkip true sk ++ emitOpt .kwLimit true lim)) =
      some (order, emitOpt .kwSkip true sk ++ emitOpt .kwLimit true lim) := by
    cases order with
    | nil => cases sk <;> cases lim <;> simp [emitOrder, emitOpt, parseOrder]
    | cons o os =>
      have := parseList_emit parseSort (emitSort true) o os
        (fun y hy g hg rest hr => parseSort_emit y (allOk_mem horder y hy) g hg rest hr) f
        (by simp only [emitOrder, List.length_cons] at hf; omega) _ hSLcf
      simp only [emitOrder, List.cons_append, parseOrder]
      exact this
  have hOcf : cf0 (emitOrder true order ++ (emitOpt .kwSkip true sk ++ emitOpt .kwLimit true lim)) = true := by
    cases order with
    | nil => simpa [emitOrder] using hSLcf
    | cons o os => simp [emitOrder, cf0]
  have hI := parseList_emit parseItem (emitItem true) it items
    (fun y hy g hg rest hr => parseItem_emit y (allOk_mem hitems y hy) g hg rest hr) f (by omega) _ hOcf
  simp only [List.append_nil] at hL
  have hD : parseDistinct ((if d = true then [Tok.kwDistinct] else []) ++ (emitList (emitItem true) (it :: items) ++
      (emitOrder true order ++ (emitOpt .kwSkip true sk ++ emitOpt .kwLimit true lim)))) =
      (d, emitList (emitItem true) (it :: items) ++ (emitOrder true order ++ (emitOpt .kwSkip true sk ++ emitOpt .kwLimit true lim))) := by
    cases d with
    | true => simp [parseDistinct]
    | false =>
      obtain ⟨t, r, ht, hne'⟩ := emitItem_head it
      simp only [Bool.false_eq_true, if_false, List.nil_append, emitList, ht, List.cons_append]
      cases t <;> simp_all [parseDistinct]
  simp only [emitProj, parseProj, hD, hI, hO, hS, hL]

/-! ### update clauses -/
def Upd.ok : Upd → Bool
  | .set items => !items.isEmpty && items.all SetItem.ok
  | .remove items => !items.isEmpty && items.all RemItem.ok
  | .delete _ vs => !vs.isEmpty
  | .create pat => !pat.isEmpty

theorem emitEl_len (el : PatEl) : 2 ≤ (emitEl el).length := by
  cases el <;> simp [emitEl] <;> omega

theorem emitPat_len : ∀ (pat : List PatEl) (b : Bool), pat.length ≤ (emitPat b pat).length
  | [], _ => by simp [emitPat]
  | el :: r, b => by
    have := emitPat_len r el.isNode
    have := emitEl_len el
    simp [emitPat]; omega

theorem cf0_patStop {r : List Tok} (h : cf0 r = true) : patStop r = true := by
  cases r with
  | nil => rfl
  | cons t r => cases t <;> simp_all [cf0, patStop]

theorem parseUpd_emit (u : Upd) (hok : u.ok = true) (f : Nat) (hf : 2 * (emitUpd true u).length + 2 ≤ f) (rest : List Tok)
    (hr : cf0 rest = true) : parseUpd f (emitUpd true u ++ rest) = some (u, rest) := by
  cases u with
  | set items =>
    simp only [Upd.ok, Bool.and_eq_true, Bool.not_eq_true', List.isEmpty_eq_false_iff] at hok
    cases items with
    | nil => exact absurd rfl hok.1
    | cons it items =>
      simp only [emitUpd, List.length_cons] at hf
      have := parseList_emit parseSetItem (emitSetItem true) it items
        (fun y hy g hg rest hr => parseSetItem_emit y (allOk_mem hok.2 y hy) g hg rest hr) f (by omega) rest hr
      simp [emitUpd, parseUpd, this]
  | remove items =>
    simp only [Upd.ok, Bool.and_eq_true, Bool.not_eq_true', List.isEmpty_eq_false_iff] at hok
    cases items with
    | nil => exact absurd rfl hok.1
    | cons it items =>
      simp only [emitUpd, List.length_cons] at hf
      have := parseList_emit parseRemItem emitRemItem it items
        (fun y hy g hg rest hr => parseRemItem_emit y (allOk_mem hok.2 y hy) g rest hr) f (by omega) rest hr
      simp [emitUpd, parseUpd, this]
  | delete detach vs =>
    simp only [Upd.ok, Bool.not_eq_true', List.isEmpty_eq_false_iff] at hok
    cases vs with
    | nil => exact absurd rfl hok
    | cons v vs =>
      have h := fun (hf' : 2 * (emitList (fun v => [Tok.ident v]) (v :: vs)).length + 2 ≤ f) =>
        parseList_emit parseVar (fun v => [Tok.ident v]) v vs
          (fun y hy g hg rest hr => parseVar_emit y g rest) f hf' rest hr
      cases detach with
      | true =>
        simp only [emitUpd, List.length_cons] at hf
        simp [emitUpd, parseUpd, h (by omega)]
      | false =>
        simp only [emitUpd, List.length_cons] at hf
        simp [emitUpd, parseUpd, h (by omega)]
  | create pat =>
    simp only [emitUpd, List.length_cons] at hf
    have hl := emitPat_len pat false
    have := parsePat_emit pat false f (by omega) [] rest (cf0_patStop hr)
    simp [emitUpd, parseUpd, this]

theorem emitUpd_head (u : Upd) : ∃ t r, emitUpd true u = t :: r ∧ t.startsUpd = true := by
  cases u with
  | delete d vs => cases d <;> exact ⟨_, _, rfl, rfl⟩
  | _ => exact ⟨_, _, rfl, rfl⟩

/-- after the update clauses: the end or RETURN -/
def retStop : List Tok → Bool
  | [] => true
  | .kwReturn :: _ => true
  | _ => false

theorem parseUpds_emit : ∀ (us : List Upd), us.all Upd.ok = true → ∀ f, 2 * (emitUpds true us).length + us.length + 2 ≤ f →
    ∀ acc rest, retStop rest = true → parseUpds f acc (emitUpds true us ++ rest) = some (acc ++ us, rest)
  | [], _, f, hf, acc, rest, hr => by
    cases f with
    | zero => omega
    | succ f =>
      cases rest with
      | nil => simp [emitUpds, parseUpds]
      | cons t r => cases t <;> simp_all [emitUpds, parseUpds, retStop, Tok.startsUpd]
  | u :: us, hok, f, hf, acc, rest, hr => by
    cases f with
    | zero => omega
    | succ f =>
      simp only [List.all_cons, Bool.and_eq_true] at hok
      simp only [emitUpds, List.length_append, List.length_cons] at hf
      have hfollow : cf0 (emitUpds true us ++ rest) = true := by
        cases us with
        | nil =>
          cases rest with
          | nil => rfl
          | cons t r => cases t <;> simp_all [emitUpds, retStop, cf0]
        | cons u' us' =>
          obtain ⟨t, r, ht, hs⟩ := emitUpd_head u'
          simp only [emitUpds, ht, List.cons_append]
          cases t <;> simp_all [Tok.startsUpd, cf0]
      have h1 := parseUpd_emit u hok.1 f (by omega) (emitUpds true us ++ rest) hfollow
      have ih := parseUpds_emit us hok.2 f (by omega) (acc ++ [u]) rest hr
      obtain ⟨t, r, ht, hs⟩ := emitUpd_head u
      simp only [emitUpds, List.append_assoc] at h1 ⊢
      rw [ht] at h1 ⊢
      simp only [List.cons_append] at h1 ⊢
      simp only [parseUpds, hs, if_true, h1]
      simpa using ih

/-! ### WHERE, MATCH, the whole query -/
theorem retStop_cf0 {r : List Tok} (h : retStop r = true) : cf0 r = true := by
  cases r with
  | nil => rfl
  | cons t r => cases t <;> simp_all [retStop, cf0]

/-- what follows the reading clause: an update clause, RETURN, or the end -/
def afterMatch : List Tok → Bool
  | [] => true
  | t :: _ => t.endsExpr

theorem parseWhere_emit (w : Option Expr) (hv : ∀ e, w = some e → valid e = true) (f : Nat)
    (hf : 10 * (emitWhere Fix.all w).length ≤ f) (rest : List Tok) (hr : afterMatch rest = true) :
    parseWhere f (emitWhere Fix.all w ++ rest) = some (w.map canon, rest) := by
  cases w with
  | none =>
    cases rest with
    | nil => simp [emitWhere, parseWhere]
    | cons t r => cases t <;> simp_all [emitWhere, parseWhere, afterMatch, Tok.endsExpr]
  | some e =>
    have hve := hv e rfl
    have hc := canonL_mono _ _ 0 (canon_canonical e hve) (Nat.zero_le _)
    have hb := needE_le (canon e) 0 hc
    have hstop : stopAt 0 rest = true := by
      cases rest with
      | nil => rfl
      | cons t r => cases t <;> simp_all [afterMatch, stopAt, Tok.endsExpr]
    simp only [emitWhere, List.length_cons, emitFixed_eq e hve] at hf
    have := parse_at (canon e) 0 (by omega) hc f (by omega) rest hstop
    simp [emitWhere, parseWhere, emitFixed_eq e hve, this]

def validQ (q : Query) : Bool :=
  (match q.where_ with | some e => valid e && !q.pattern.isEmpty | none => true) &&
  q.updates.all Upd.ok && (match q.ret with | some p => p.ok | none => true)

/-- the query the parser builds: the WHERE is the canonical representative of the criteria -/
def canonQ (q : Query) : Query := { q with where_ := q.where_.map canon }
def normQ (q : Query) : Query := { q with where_ := q.where_.map norm }

theorem afterMatch_patStop {r : List Tok} (h : afterMatch r = true) : patStop r = true := by
  cases r with
  | nil => rfl
  | cons t r => cases t <;> simp_all [afterMatch, patStop, Tok.endsExpr]

theorem parseMatch_emit (q : Query) (hw : ∀ e, q.where_ = some e → valid e = true ∧ q.pattern ≠ []) (f : Nat)
    (hf : 10 * (emitMatch Fix.all q).length + 10 ≤ f) (rest : List Tok) (hr : afterMatch rest = true) :
    parseMatch f (emitMatch Fix.all q ++ rest) = some ((q.pattern, q.where_.map canon), rest) := by
  obtain ⟨pat, w, us, ret⟩ := q
  simp only at hw ⊢
  cases pat with
  | nil =>
    have hwn : w = none := by
      cases w with
      | none => rfl
      | some e => exact absurd rfl (hw e rfl).2
    subst hwn
    cases rest with
    | nil => simp [emitMatch, parseMatch]
    | cons t r => cases t <;> simp_all [emitMatch, parseMatch, afterMatch, Tok.endsExpr]
  | cons el r =>
    simp only [emitMatch, List.length_cons, List.length_append] at hf
    have hl := emitPat_len (el :: r) false
    have hstop : patStop (emitWhere Fix.all w ++ rest) = true := by
      cases w with
      | none => simpa [emitWhere] using afterMatch_patStop hr
      | some e => simp [emitWhere, patStop]
    have h1 := parsePat_emit (el :: r) false f (by omega) [] (emitWhere Fix.all w ++ rest) hstop
    have h2 := parseWhere_emit w (fun e he => (hw e he).1) f (by omega) rest hr
    simp only [emitMatch, List.cons_append, List.append_assoc, parseMatch]
    simp only [List.nil_append] at h1
    simp [h1, h2]

theorem emitUpds_len : ∀ (us : List Upd), us.length ≤ (emitUpds true us).length
  | [] => by simp [emitUpds]
  | u :: us => by
    have := emitUpds_len us
    obtain ⟨t, r, ht, _⟩ := emitUpd_head u
    simp [emitUpds, ht]; omega

theorem parseQ_emit (q : Query) (hv : validQ q = true) : parseQ (emitQ q) = some (canonQ q) := by
  obtain ⟨pat, w, us, ret⟩ := q
  simp only [validQ, Bool.and_eq_true] at hv
  obtain ⟨⟨hw, hus⟩, hret⟩ := hv
  have hw' : ∀ e, w = some e → valid e = true ∧ pat ≠ [] := by
    intro e he; subst he
    simp only [Bool.and_eq_true, Bool.not_eq_true', List.isEmpty_eq_false_iff] at hw
    exact hw
  have hretStop : retStop (emitRet true ret) = true := by cases ret <;> simp [emitRet, retStop]
  have hafter : afterMatch (emitUpds true us ++ emitRet true ret) = true := by
    cases us with
    | nil => cases ret <;> simp [emitUpds, emitRet, afterMatch, Tok.endsExpr]
    | cons u us' =>
      obtain ⟨t, r, ht, hs⟩ := emitUpd_head u
      simp only [emitUpds, ht, List.cons_append, afterMatch]
      cases t <;> simp_all [Tok.startsUpd, Tok.endsExpr]
  have hlen : (emitQ ⟨pat, w, us, ret⟩).length =
      (emitMatch Fix.all ⟨pat, w, us, ret⟩).length + ((emitUpds true us).length + (emitRet true ret).length) := by
    simp [emitQ, emitQG, Fix.all]
  have hul := emitUpds_len us
  have he : emitQ ⟨pat, w, us, ret⟩ = emitMatch Fix.all ⟨pat, w, us, ret⟩ ++ (emitUpds true us ++ emitRet true ret) := by
    simp [emitQ, emitQG, Fix.all]
  have hF : 10 * ((emitMatch Fix.all ⟨pat, w, us, ret⟩).length + ((emitUpds true us).length + (emitRet true ret).length)) + 10 ≤
      fuelFor (emitQ ⟨pat, w, us, ret⟩) := by simp only [fuelFor, hlen]; omega
  simp only [parseQ]
  generalize fuelFor (emitQ ⟨pat, w, us, ret⟩) = F at hF ⊢
  have h1 := parseMatch_emit ⟨pat, w, us, ret⟩ hw' F (by omega) _ hafter
  have h2 := parseUpds_emit us hus F (by omega) [] _ hretStop
  have h3 : parseRet F (emitRet true ret) = some (ret, []) := by
    cases ret with
    | none => simp [emitRet, parseRet]
    | some p =>
      simp only [emitRet, List.length_cons] at hF
      have := parseProj_emit p hret F (by omega)
      simp [emitRet, parseRet, this]
  rw [he]
  simp only [h1, List.nil_append] at h2 ⊢
  simp [h2, h3, canonQ]

theorem normQ_canonQ (q : Query) : normQ (canonQ q) = normQ q := by
  obtain ⟨pat, w, us, ret⟩ := q
  cases w <;> simp [normQ, canonQ, norm_canon]

/-! ## parameter lifting: numbering is the text order, every parameter gets its own name, nothing else changes -/

theorem paramToks_append : ∀ (a b : List Tok), paramToks (a ++ b) = paramToks a ++ paramToks b
  | [], b => rfl
  | t :: a, b => by
    cases t <;> simp [paramToks, paramToks_append a b]

theorem names_add (n : Nat) : ∀ (a b : Nat), names n (a + b) = names n a ++ names (n + a) b
  | 0, b => by simp [names]
  | a + 1, b => by
    have : a + 1 + b = (a + b) + 1 := by omega
    rw [this]
    simp only [names, names_add (n + 1) a b, List.cons_append]
    have : n + 1 + a = n + (a + 1) := by omega
    rw [this]

theorem names_zero (n : Nat) : names n 0 = [] := rfl
theorem names_one (n : Nat) : names n 1 = [pname n] := rfl

theorem paramToks_emitLit (fr : Bool) (l : Lit) : paramToks (emitLit fr l) = [] := by
  cases l with
  | null => rfl
  | bool b => cases b <;> rfl
  | int i => by_cases h : i < 0 <;> simp [emitLit, h, paramToks]
  | float d =>
    obtain ⟨ng, n, frc⟩ := d
    cases ng <;> cases frc <;> cases fr <;> simp [emitLit, paramToks]
  | str s => rfl

mutual
theorem paramToks_liftO (fr : Bool) : ∀ (o : Operand) (n : Nat), paramToks (emitO fr (liftO n o)) = names n (cntO o)
  | .var v, n => by simp [liftO, emitO, paramToks, cntO, names]
  | .prop v p, n => by simp [liftO, emitO, paramToks, cntO, names]
  | .param s, n => by simp [liftO, emitO, paramToks, cntO, names]
  | .lit l, n => by simp [liftO, emitO, paramToks_emitLit, cntO, names]
  | .fn f a, n => by
    simp [liftO, emitO, paramToks, paramToks_append, cntO, paramToks_liftO fr a n]
  | .list [], n => by simp [liftO, liftOs, emitO, paramToks, cntO, cntOs, names]
  | .list (x :: xs), n => by
    simp [liftO, liftOs, emitO, paramToks, paramToks_append, cntO, cntOs, names_add, paramToks_liftO fr x n,
      paramToks_liftOTail fr xs (n + cntO x)]
theorem paramToks_liftOTail (fr : Bool) : ∀ (xs : List Operand) (n : Nat),
    paramToks (emitOTail fr (liftOs n xs)) = names n (cntOs xs)
  | [], n => by simp [liftOs, emitOTail, paramToks, cntOs, names]
  | x :: xs, n => by
    simp [liftOs, emitOTail, paramToks, paramToks_append, cntOs, names_add, paramToks_liftO fr x n,
      paramToks_liftOTail fr xs (n + cntO x)]
end

theorem paramToks_wrapIf (b : Bool) (ts : List Tok) : paramToks (wrapIf b ts) = paramToks ts := by
  cases b <;> simp [wrapIf, paramToks, paramToks_append]

theorem paramToks_labelTail : ∀ ks, paramToks (labelTail ks) = []
  | [] => rfl
  | k :: ks => by simp [labelTail, paramToks, paramToks_labelTail ks]

theorem paramToks_kindTail (ref : String) : ∀ ks, paramToks (kindTail ref [.kw .or] ks) = []
  | [] => rfl
  | k :: ks => by simp [kindTail, paramToks, paramToks_kindTail ref ks]

theorem paramToks_emitKinds (fx : Fix) (ref : String) (ks : List String) (a : Bool) : paramToks (emitKinds fx ref ks a) = [] := by
  match ks with
  | [] => rfl
  | [k] => rfl
  | k :: k' :: r =>
    simp only [emitKinds]
    split <;> simp [paramToks, paramToks_append, paramToks_labelTail, labelTail, kindTail, paramToks_kindTail]

mutual
theorem paramToks_liftE (fx : Fix) : ∀ (e : Expr) (n : Nat), paramToks (emitE fx (liftE n e)) = names n (cntE e)
  | .cmp l op r, n => by
    simp [liftE, emitE, paramToks, paramToks_append, cntE, names_add, paramToks_liftO]
  | .isNull l b, n => by simp [liftE, emitE, paramToks, paramToks_append, cntE, paramToks_liftO]
  | .kinds ref ks a, n => by simp [liftE, emitE, paramToks_emitKinds, cntE, names]
  | .neg c, n => by simp [liftE, emitE, paramToks, paramToks_wrapIf, cntE, paramToks_liftE fx c n]
  | .paren c, n => by simp [liftE, emitE, paramToks, paramToks_append, cntE, paramToks_liftE fx c n]
  | .join op [], n => by simp [liftE, liftEs, emitE, paramToks, cntE, cntEs, names]
  | .join op (c :: cs), n => by
    simp [liftE, liftEs, emitE, paramToks_append, paramToks_wrapIf, cntE, cntEs, names_add, paramToks_liftE fx c n,
      paramToks_liftETail fx op cs (n + cntE c)]
theorem paramToks_liftETail (fx : Fix) (op : Op) : ∀ (cs : List Expr) (n : Nat),
    paramToks (emitETail fx op (liftEs n cs)) = names n (cntEs cs)
  | [], n => by simp [liftEs, emitETail, paramToks, cntEs, names]
  | c :: cs, n => by
    simp [liftEs, emitETail, paramToks, paramToks_append, paramToks_wrapIf, cntEs, names_add, paramToks_liftE fx c n,
      paramToks_liftETail fx op cs (n + cntE c)]
end

/-! ### clause level -/
theorem paramToks_relKinds : ∀ ks, paramToks (relKindsT ks) = [] := by
  have hp : ∀ ks, paramToks (pipeTail ks) = [] := by
    intro ks; induction ks with
    | nil => rfl
    | cons k ks ih => simp [pipeTail, paramToks, ih]
  intro ks; cases ks <;> simp [relKindsT, paramToks, hp]

theorem paramToks_optIdent (v : Option String) : paramToks (optIdentT v) = [] := by cases v <;> rfl

theorem paramToks_liftEl (el : PatEl) (n : Nat) : paramToks (emitEl (liftEl n el)) = names n (cntEl el) := by
  cases el with
  | node v ks p =>
    cases p <;> simp [liftEl, emitEl, paramToks, paramToks_append, paramToks_optIdent, paramToks_labelTail, optParamT, cntEl, cntOpt, names]
  | rel v ks p =>
    cases p <;> simp [liftEl, emitEl, paramToks, paramToks_append, paramToks_optIdent, paramToks_relKinds, optParamT, cntEl, cntOpt, names]

theorem liftEl_isNode (el : PatEl) (n : Nat) : (liftEl n el).isNode = el.isNode := by
  cases el with
  | node v ks p => cases p <;> rfl
  | rel v ks p => cases p <;> rfl

theorem paramToks_liftPat : ∀ (pat : List PatEl) (b : Bool) (n : Nat), paramToks (emitPat b (liftPat n pat)) = names n (cntPat pat)
  | [], b, n => by simp [liftPat, emitPat, paramToks, cntPat, names]
  | el :: r, b, n => by
    simp only [liftPat, emitPat, paramToks_append, cntPat, names_add, paramToks_liftEl, liftEl_isNode,
      paramToks_liftPat r el.isNode (n + cntEl el)]
    cases b <;> cases el.isNode <;> simp [paramToks]

/-- generic: a list of parameter carriers printed with any separator scheme that adds no `$` token -/
theorem paramToks_liftSep {α : Type} (c : α → Nat) (l : Nat → α → α) (ee : α → List Tok)
    (h : ∀ x k, paramToks (ee (l k x)) = names k (c x)) : ∀ (xs : List α) (n : Nat),
    paramToks (emitSep ee (liftL c l n xs)) = names n (cntL c xs)
  | [], n => by simp [liftL, emitSep, paramToks, cntL, names]
  | x :: xs, n => by
    simp [liftL, emitSep, paramToks, paramToks_append, cntL, names_add, h, paramToks_liftSep c l ee h xs (n + c x)]

theorem paramToks_liftList {α : Type} (c : α → Nat) (l : Nat → α → α) (ee : α → List Tok)
    (h : ∀ x k, paramToks (ee (l k x)) = names k (c x)) (xs : List α) (n : Nat) :
    paramToks (emitList ee (liftL c l n xs)) = names n (cntL c xs) := by
  cases xs with
  | nil => simp [liftL, emitList, paramToks, cntL, names]
  | cons x xs => simp [liftL, emitList, paramToks_append, cntL, names_add, h, paramToks_liftSep c l ee h xs (n + c x)]

theorem paramToks_liftItem (fr : Bool) (it : Item) (k : Nat) : paramToks (emitItem fr (liftItem k it)) = names k (cntItem it) := by
  cases it <;> simp [liftItem, emitItem, paramToks, paramToks_append, cntItem, paramToks_liftO]

theorem paramToks_liftSort (fr : Bool) (s : SortItem) (k : Nat) :
    paramToks (emitSort fr ⟨liftO k s.o, s.asc⟩) = names k (cntO s.o) := by
  cases h : s.asc <;> simp [emitSort, h, paramToks, paramToks_append, paramToks_liftO]

theorem paramToks_liftSetItem (fr : Bool) (it : SetItem) (k : Nat) :
    paramToks (emitSetItem fr (liftSetItem k it)) = names k (cntSetItem it) := by
  cases it <;> simp [liftSetItem, emitSetItem, paramToks, cntSetItem, paramToks_liftO, paramToks_labelTail, names]

theorem paramToks_liftOpt (kw : Tok) (hkw : ∀ s, kw ≠ Tok.param s) (fr : Bool) (x : Option Operand) (k : Nat) :
    paramToks (emitOpt kw fr (x.map (liftO k))) = names k (cntOptO x) := by
  cases x with
  | none => simp [emitOpt, paramToks, cntOptO, names]
  | some o =>
    simp only [Option.map_some, emitOpt, cntOptO]
    cases kw <;> simp_all [paramToks, paramToks_liftO]

theorem paramToks_liftOrder (fr : Bool) (order : List SortItem) (k : Nat) :
    paramToks (emitOrder fr (liftL (fun s => cntO s.o) (fun k s => ⟨liftO k s.o, s.asc⟩) k order)) =
      names k (cntL (fun s => cntO s.o) order) := by
  cases order with
  | nil => simp [liftL, emitOrder, paramToks, cntL, names]
  | cons o os =>
    have := paramToks_liftList (fun s : SortItem => cntO s.o) (fun k s => ⟨liftO k s.o, s.asc⟩) (emitSort fr)
      (fun x k => paramToks_liftSort fr x k) (o :: os) k
    simp only [liftL] at this ⊢
    simpa [emitOrder, paramToks] using this

theorem paramToks_liftProj (fr : Bool) (p : Proj) (n : Nat) : paramToks (emitProj fr (liftProj n p)) = names n (cntProj p) := by
  obtain ⟨d, items, order, sk, lim⟩ := p
  simp only [liftProj, emitProj, cntProj, paramToks_append, names_add, paramToks_liftOrder,
    paramToks_liftList cntItem liftItem (emitItem fr) (fun x k => paramToks_liftItem fr x k),
    paramToks_liftOpt .kwSkip (by simp) fr, paramToks_liftOpt .kwLimit (by simp) fr]
  cases d <;> simp [paramToks, Nat.add_assoc]

theorem paramToks_emitRemList (items : List RemItem) : paramToks (emitList emitRemItem items) = [] := by
  have hi : ∀ it, paramToks (emitRemItem it) = [] := by
    intro it; cases it <;> simp [emitRemItem, paramToks, paramToks_labelTail]
  have hs : ∀ xs : List RemItem, paramToks (emitSep emitRemItem xs) = [] := by
    intro xs; induction xs with
    | nil => rfl
    | cons x xs ih => simp [emitSep, paramToks, paramToks_append, hi, ih]
  cases items <;> simp [emitList, paramToks_append, hi, hs, paramToks]

theorem paramToks_emitVarList (vs : List String) : paramToks (emitList (fun v => [Tok.ident v]) vs) = [] := by
  have hs : ∀ xs : List String, paramToks (emitSep (fun v => [Tok.ident v]) xs) = [] := by
    intro xs; induction xs with
    | nil => rfl
    | cons x xs ih => simp [emitSep, paramToks, ih]
  cases vs <;> simp [emitList, paramToks_append, hs, paramToks]

theorem paramToks_liftUpd (fr : Bool) (u : Upd) (k : Nat) : paramToks (emitUpd fr (liftUpd k u)) = names k (cntUpd u) := by
  cases u with
  | set items =>
    simpa [liftUpd, emitUpd, paramToks, cntUpd] using
      paramToks_liftList cntSetItem liftSetItem (emitSetItem fr) (fun x k => paramToks_liftSetItem fr x k) items k
  | remove items => simp [liftUpd, emitUpd, paramToks, cntUpd, paramToks_emitRemList, names]
  | delete d vs => cases d <;> simp [liftUpd, emitUpd, paramToks, cntUpd, paramToks_emitVarList, names]
  | create pat => simp [liftUpd, emitUpd, paramToks, cntUpd, paramToks_liftPat]

theorem paramToks_liftUpds (fr : Bool) : ∀ (us : List Upd) (n : Nat),
    paramToks (emitUpds fr (liftL cntUpd liftUpd n us)) = names n (cntL cntUpd us)
  | [], n => by simp [liftL, emitUpds, paramToks, cntL, names]
  | u :: us, n => by
    simp [liftL, emitUpds, paramToks_append, cntL, names_add, paramToks_liftUpd, paramToks_liftUpds fr us (n + cntUpd u)]

theorem paramToks_liftQ (q : Query) (hw : q.pattern = [] → q.where_ = none) (n : Nat) :
    paramToks (emitQ (liftQ n q)) = names n (cntQ q) := by
  obtain ⟨pat, w, us, ret⟩ := q
  simp only at hw
  have hm : paramToks (emitMatch Fix.all (liftQ n ⟨pat, w, us, ret⟩)) = names n (cntPat pat + cntOptE w) := by
    cases pat with
    | nil =>
      have := hw rfl
      subst this
      simp [liftQ, liftPat, emitMatch, paramToks, cntPat, cntOptE, names]
    | cons el r =>
      have hp := paramToks_liftPat (el :: r) false n
      simp only [liftPat] at hp
      cases w with
      | none => simp [liftQ, liftPat, emitMatch, emitWhere, paramToks, paramToks_append, cntOptE, hp]
      | some e =>
        simp [liftQ, liftPat, emitMatch, emitWhere, paramToks, paramToks_append, cntOptE, hp, names_add, paramToks_liftE]
  have hr : ∀ k, paramToks (emitRet true (ret.map (liftProj k))) = names k (cntRet ret) := by
    intro k; cases ret <;> simp [emitRet, paramToks, paramToks_liftProj, names, cntRet]
  have he : emitQ (liftQ n ⟨pat, w, us, ret⟩) = emitMatch Fix.all (liftQ n ⟨pat, w, us, ret⟩) ++
      (emitUpds true (liftQ n ⟨pat, w, us, ret⟩).updates ++ emitRet true (liftQ n ⟨pat, w, us, ret⟩).ret) := rfl
  rw [he, paramToks_append, paramToks_append, hm]
  simp only [liftQ, paramToks_liftUpds, hr, cntQ, names_add, Nat.add_assoc, List.append_assoc]

/-- the names are pairwise different -/
theorem pname_inj {a b : Nat} (h : pname a = pname b) : a = b := by
  have h' := congrArg String.toList h
  simp only [pname, String.toList_append] at h'
  have h2 := List.append_cancel_left h'
  have h3 : toString a = toString b := String.toList_inj.mp h2
  exact Nat.repr_injective h3

theorem names_mem {n k : Nat} {s : String} : s ∈ names n k → ∃ i, n ≤ i ∧ i < n + k ∧ s = pname i := by
  induction k generalizing n with
  | zero => simp [names]
  | succ k ih =>
    intro h
    simp only [names, List.mem_cons] at h
    rcases h with h | h
    · exact ⟨n, by omega, by omega, h⟩
    · obtain ⟨i, h1, h2, h3⟩ := ih h
      exact ⟨i, by omega, by omega, h3⟩

theorem names_nodup (n k : Nat) : (names n k).Nodup := by
  induction k generalizing n with
  | zero => simp [names]
  | succ k ih =>
    simp only [names, List.nodup_cons]
    refine ⟨?_, ih (n + 1)⟩
    intro h
    obtain ⟨i, h1, _, h3⟩ := names_mem h
    have := pname_inj h3
    omega

theorem bindings_fst {V : Type} : ∀ (vs : List V) (n : Nat), (bindings n vs).map Prod.fst = names n vs.length
  | [], n => rfl
  | v :: vs, n => by simp [bindings, names, bindings_fst vs (n + 1)]

theorem bindings_snd {V : Type} : ∀ (vs : List V) (n : Nat), (bindings n vs).map Prod.snd = vs
  | [], n => rfl
  | v :: vs, n => by simp [bindings, bindings_snd vs (n + 1)]

/-! ## naming the parameters does not touch well-formedness: the query Prepare renders is valid when the applied one is -/

mutual
theorem ok_liftO : ∀ (o : Operand) (n : Nat), (liftO n o).ok = o.ok
  | .var _, _ => rfl
  | .prop _ _, _ => rfl
  | .param _, _ => rfl
  | .lit _, _ => rfl
  | .fn f a, n => by simp [liftO, Operand.ok, ok_liftO a n]
  | .list xs, n => by simp [liftO, Operand.ok, oks_liftOs xs n]
theorem oks_liftOs : ∀ (xs : List Operand) (n : Nat), Operand.oks (liftOs n xs) = Operand.oks xs
  | [], _ => rfl
  | x :: xs, n => by simp [liftOs, Operand.oks, ok_liftO x n, oks_liftOs xs (n + cntO x)]
end

mutual
theorem valid_liftE : ∀ (e : Expr) (n : Nat), valid (liftE n e) = valid e
  | .cmp l op r, n => by simp [liftE, valid, ok_liftO]
  | .isNull l b, n => by simp [liftE, valid, ok_liftO]
  | .kinds _ _ _, _ => rfl
  | .neg c, n => by simp [liftE, valid, valid_liftE c n]
  | .paren c, n => by simp [liftE, valid, valid_liftE c n]
  | .join op es, n => by
    have h := valids_liftEs es n
    cases es with
    | nil => rfl
    | cons c cs => simp only [liftE, liftEs, valid] at h ⊢; simp [liftEs] at h ⊢; exact h
theorem valids_liftEs : ∀ (es : List Expr) (n : Nat), valids (liftEs n es) = valids es
  | [], _ => rfl
  | e :: es, n => by simp [liftEs, valids, valid_liftE e n, valids_liftEs es (n + cntE e)]
end

theorem all_liftL {α : Type} (c : α → Nat) (l : Nat → α → α) (ok : α → Bool) (h : ∀ k x, ok (l k x) = ok x) :
    ∀ (xs : List α) (n : Nat), (liftL c l n xs).all ok = xs.all ok
  | [], _ => rfl
  | x :: xs, n => by simp [liftL, h, all_liftL c l ok h xs (n + c x)]

theorem isEmpty_liftL {α : Type} (c : α → Nat) (l : Nat → α → α) (xs : List α) (n : Nat) :
    (liftL c l n xs).isEmpty = xs.isEmpty := by cases xs <;> rfl

theorem isEmpty_liftPat (p : List PatEl) (n : Nat) : (liftPat n p).isEmpty = p.isEmpty := by cases p <;> rfl

theorem ok_liftItem (k : Nat) (it : Item) : (liftItem k it).ok = it.ok := by
  cases it <;> simp [liftItem, Item.ok, ok_liftO]

theorem ok_liftSetItem (k : Nat) (it : SetItem) : (liftSetItem k it).ok = it.ok := by
  cases it <;> simp [liftSetItem, SetItem.ok, ok_liftO]

theorem optOk_lift (x : Option Operand) (k : Nat) : optOk (x.map (liftO k)) = optOk x := by
  cases x <;> simp [optOk, ok_liftO]

theorem ok_liftUpd (k : Nat) (u : Upd) : (liftUpd k u).ok = u.ok := by
  cases u with
  | set items => simp [liftUpd, Upd.ok, isEmpty_liftL, all_liftL cntSetItem liftSetItem SetItem.ok ok_liftSetItem]
  | remove items => rfl
  | delete d vs => rfl
  | create pat => simp [liftUpd, Upd.ok, isEmpty_liftPat]

theorem ok_liftProj (n : Nat) (p : Proj) : (liftProj n p).ok = p.ok := by
  obtain ⟨d, items, order, sk, lim⟩ := p
  simp only [liftProj, Proj.ok, isEmpty_liftL, optOk_lift,
    all_liftL cntItem liftItem Item.ok ok_liftItem,
    all_liftL (fun s : SortItem => cntO s.o) (fun k s => ⟨liftO k s.o, s.asc⟩) (fun s => s.o.ok) (fun k x => ok_liftO x.o k)]

theorem validQ_liftQ (q : Query) (n : Nat) : validQ (liftQ n q) = validQ q := by
  obtain ⟨pat, w, us, ret⟩ := q
  simp only [validQ, liftQ]
  congr 1
  · congr 1
    · cases w with
      | none => rfl
      | some e => simp [valid_liftE, isEmpty_liftPat]
    · exact all_liftL cntUpd liftUpd Upd.ok ok_liftUpd us _
  · cases ret with
    | none => rfl
    | some p => simp [ok_liftProj]

end Dawgs.C10
