import Dawgs.Model.C01
/-
C01 — the fragment recogniser `ofCy` is sound: a parsed query it accepts IS the Cypher reading of the S1 query it returns.
-/
namespace Dawgs.C01.Proofs
open Dawgs Dawgs.C01

theorem conjTail_single (v : String) (q : S1.Pred) (h : ∀ a b, q ≠ .and a b) : S1.Pred.conjTail v q = [q.toCy v] := by
  cases q <;> first | rfl | exact absurd rfl (h _ _)

theorem disjTail_single (v : String) (q : S1.Pred) (h : ∀ a b, q ≠ .or a b) : S1.Pred.disjTail v q = [q.toCy v] := by
  cases q <;> first | rfl | exact absurd rfl (h _ _)

theorem predOf_sound (v : String) :
    (∀ e p, predOf v e = some p → p.toCy v = e) ∧
    (∀ es p, disjOf v es = some p → ∃ a b, p = .or a b ∧ es = a.toCy v :: S1.Pred.disjTail v b) ∧
    (∀ es p, conjOf v es = some p → ∃ a b, p = .and a b ∧ es = a.toCy v :: S1.Pred.conjTail v b) := by
  apply predOf.mutual_induct v
    (motive_1 := fun e => ∀ p, predOf v e = some p → p.toCy v = e)
    (motive_2 := fun es => ∀ p, disjOf v es = some p → ∃ a b, p = .or a b ∧ es = a.toCy v :: S1.Pred.disjTail v b)
    (motive_3 := fun es => ∀ p, conjOf v es = some p → ∃ a b, p = .and a b ∧ es = a.toCy v :: S1.Pred.conjTail v b)
  all_goals intros
  all_goals (try (rename_i hp; simp [predOf, conjOf, disjOf] at hp))
  all_goals (try (subst_vars; simp_all [S1.Pred.toCy, Cmp.cy]; done))
  case case2 => obtain ⟨rfl, rfl⟩ := hp; rfl
  case case3 => obtain ⟨rfl, rfl⟩ := hp; rfl
  case case4 => obtain ⟨rfl, rfl⟩ := hp; rfl
  case case5 => obtain ⟨rfl, rfl⟩ := hp; rfl
  case case6 => obtain ⟨rfl, rfl⟩ := hp; rfl
  case case8 => rename_i h _ hp; rw [predOf.eq_def] at hp; simp [h] at hp
  case case9 => obtain ⟨rfl, rfl⟩ := hp; rfl
  case case10 => obtain ⟨rfl, rfl⟩ := hp; rfl
  case case11 => obtain ⟨rfl, rfl⟩ := hp; rfl
  case case12 => obtain ⟨rfl, rfl⟩ := hp; rfl
  case case13 => obtain ⟨rfl, rfl⟩ := hp; rfl
  case case14 => obtain ⟨rfl, rfl⟩ := hp; rfl
  case case16 => obtain ⟨⟨rfl, _⟩, rfl⟩ := hp; rfl
  case case18 => rename_i ih _; obtain ⟨a, b, rfl, rfl⟩ := ih _ hp; rfl
  case case19 => rename_i ih _; obtain ⟨a, b, rfl, rfl⟩ := ih _ hp; rfl
  case case20 => rename_i ih _; obtain ⟨a, ha, rfl⟩ := hp; simp only [S1.Pred.toCy, ih a ha]
  case case21 => rename_i ih _; obtain ⟨a, ha, rfl⟩ := hp; simp only [S1.Pred.toCy, ih a ha]
  case case25 =>
    rename_i ea eb iha ihb _
    cases hpa : predOf v ea with
    | none => simp [hpa] at hp
    | some pa =>
      cases hpb : predOf v eb with
      | none => simp [hpa, hpb] at hp
      | some pb =>
        simp only [hpa, hpb, Option.bind_some] at hp
        refine ⟨pa, pb, ?_, ?_⟩
        · cases pb <;> simp_all
        · rw [disjTail_single v pb (by intro x y hh; subst hh; simp at hp), iha pa hpa, ihb pb hpb]
  case case26 =>
    rename_i ea rest _ _ iha ihr _
    cases hpa : predOf v ea with
    | none => simp [hpa] at hp
    | some pa =>
      cases hpr : disjOf v rest with
      | none => simp [hpa, hpr] at hp
      | some pr =>
        simp only [hpa, hpr, Option.bind_some, Option.some.injEq] at hp
        obtain ⟨a, b, rfl, hrest⟩ := ihr pr hpr
        refine ⟨pa, .or a b, hp.symm, ?_⟩
        rw [iha pa hpa, hrest]; rfl
  case case29 =>
    rename_i ea eb iha ihb _
    cases hpa : predOf v ea with
    | none => simp [hpa] at hp
    | some pa =>
      cases hpb : predOf v eb with
      | none => simp [hpa, hpb] at hp
      | some pb =>
        simp only [hpa, hpb, Option.bind_some] at hp
        refine ⟨pa, pb, ?_, ?_⟩
        · cases pb <;> simp_all
        · rw [conjTail_single v pb (by intro x y hh; subst hh; simp at hp), iha pa hpa, ihb pb hpb]
  case case30 =>
    rename_i ea rest _ _ iha ihr _
    cases hpa : predOf v ea with
    | none => simp [hpa] at hp
    | some pa =>
      cases hpr : conjOf v rest with
      | none => simp [hpa, hpr] at hp
      | some pr =>
        simp only [hpa, hpr, Option.bind_some, Option.some.injEq] at hp
        obtain ⟨a, b, rfl, hrest⟩ := ihr pr hpr
        refine ⟨pa, .and a b, hp.symm, ?_⟩
        rw [iha pa hpa, hrest]; rfl

theorem itemOf_sound (v : String) (it : Cy.ProjItem) (i : S1.Item) (h : itemOf v it = some i) : i.toCy v = it := by
  unfold itemOf at h
  cases it with
  | mk e alias =>
    simp only at h
    split at h
    · rename_i v' heq
      split at h
      · rename_i hv; cases h; have := eq_of_beq hv; subst this; simp only [S1.Item.toCy]
      · cases h
    · rename_i v' k heq
      split at h
      · rename_i hv; cases h; have := eq_of_beq hv; subst this; simp only [S1.Item.toCy]
      · cases h
    · rename_i v' heq
      split at h
      · rename_i hv; cases h; have := eq_of_beq hv; subst this; simp only [S1.Item.toCy]
      · cases h
    · cases h

theorem itemsOf_sound (v : String) : ∀ (its : List Cy.ProjItem) (is : List S1.Item), its.mapM (itemOf v) = some is →
    is.map (S1.Item.toCy v) = its
  | [], is, h => by simp only [List.mapM_nil] at h; cases h; rfl
  | it :: its, is, h => by
    rw [List.mapM_cons] at h
    cases hi : itemOf v it with
    | none => rw [hi] at h; cases h
    | some i =>
      rw [hi] at h
      cases hr : its.mapM (itemOf v) with
      | none => rw [hr] at h; cases h
      | some is' =>
        rw [hr] at h; cases h
        rw [List.map_cons, itemOf_sound v it i hi, itemsOf_sound v its is' hr]

theorem natOf_sound (e : Option Cy.Expr) (k : Option Nat) (h : natOf e = some k) : k.map S1.natLit = e := by
  unfold natOf at h
  split at h
  · cases h; rfl
  · rename_i i
    split at h
    · rename_i hi
      cases h
      simp only [Option.map_some, S1.natLit, Int.toNat_of_nonneg hi]
    · cases h
  · cases h

/-- the recogniser is sound: an accepted parsed query is exactly the Cypher reading of the S1 query returned -/
theorem ofCy_sound (q : Cy.Query) (s : S1.Query) (h : ofCy q = some s) : s.toCy = q := by
  unfold ofCy at h
  split at h
  · rename_i v kinds wh hparts hclauses
    split at h
    · cases h
    · rename_i hda
      simp only [Bool.or_eq_true, not_or, Bool.not_eq_true] at hda
      simp only [bind, Option.bind_eq_some_iff, pure] at h
      obtain ⟨w, hw, items, hitems, skip, hskip, limit, hlimit, order, horder, h⟩ := h
      split at h
      · cases h
      · simp only [Option.some.injEq] at h
        subst h
        have hwh : w.map (S1.Pred.toCy v) = wh := by
          cases wh with
          | none => simp only at hw; cases hw; rfl
          | some e =>
            simp only [Option.map_eq_some_iff] at hw
            obtain ⟨p, hp, rfl⟩ := hw
            simp only [Option.map_some, (predOf_sound v).1 e p hp]
        have hit := itemsOf_sound v _ _ hitems
        have hsk := natOf_sound _ _ hskip
        have hli := natOf_sound _ _ hlimit
        cases q with
        | mk parts clauses ret =>
          cases ret with
          | mk distinct all ritems orderBy rskip rlimit =>
            simp only at hparts hclauses hda hit hsk hli horder
            subst hparts hclauses
            obtain ⟨hd, ha⟩ := hda
            subst hd ha
            simp only [S1.Query.toCy, hwh, hit, Cy.Query.mk.injEq, Cy.Projection.mk.injEq, true_and]
            split at horder
            · split at horder
              · cases horder
                rename_i hsl
                simp only [Bool.and_eq_true, Option.isNone_iff_eq_none] at hsl
                obtain ⟨h1, h2⟩ := hsl
                subst h1 h2
                simp only [Option.map_none] at hsk hli
                simp [S1.orderKeysC, ← hsk, ← hli]
              · cases horder
            · split at horder
              · cases horder
                rename_i hv
                have := eq_of_beq hv
                subst this
                simp [S1.orderKeysC, hsk, hli]
              · cases horder
            · cases horder
  · cases h

end Dawgs.C01.Proofs
