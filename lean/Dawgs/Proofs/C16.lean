/- Helper lemmas for C16 (no property statements here; those live in Props/C16.lean). -/
import Dawgs.Spec.C16
set_option linter.unusedSimpArgs false
namespace Dawgs.C16

@[simp] theorem keys_nil : keys [] = [] := rfl
@[simp] theorem keys_cons (e : Ent) (q) : keys (e :: q) = e.key :: keys q := rfl

theorem find_nil (k) : find [] k = none := rfl
theorem find_cons (e : Ent) (q k) : find (e :: q) k = if e.key = k then some e else find q k := by
  unfold find; rw [List.find?_cons]
  by_cases h : e.key = k
  · have : (e.key == k) = true := by simp [h]
    simp [this, h]
  · have : (e.key == k) = false := by simp [h]
    simp [this, h]
theorem setVisited_nil (k b) : setVisited [] k b = [] := rfl
theorem setVisited_cons (e : Ent) (q k b) :
    setVisited (e :: q) k b = (if e.key = k then { e with visited := b } else e) :: setVisited q k b := rfl
theorem setValVisited_nil (k v) : setValVisited [] k v = [] := rfl
theorem setValVisited_cons (e : Ent) (q k v) :
    setValVisited (e :: q) k v = (if e.key = k then { e with val := v, visited := true } else e) :: setValVisited q k v := rfl
theorem remove_nil (k) : remove [] k = [] := rfl
theorem remove_cons (e : Ent) (q k) : remove (e :: q) k = if e.key = k then remove q k else e :: remove q k := by
  simp only [remove, List.filter_cons]; by_cases h : e.key = k <;> simp [h]

theorem keys_setVisited (q k b) : keys (setVisited q k b) = keys q := by
  induction q with
  | nil => rfl
  | cons e q ih => rw [setVisited_cons, keys_cons, keys_cons, ih]; split <;> rfl

theorem keys_setValVisited (q k v) : keys (setValVisited q k v) = keys q := by
  induction q with
  | nil => rfl
  | cons e q ih => rw [setValVisited_cons, keys_cons, keys_cons, ih]; split <;> rfl

theorem length_setVisited (q k b) : (setVisited q k b).length = q.length := by simp [setVisited]
theorem length_setValVisited (q k v) : (setValVisited q k v).length = q.length := by simp [setValVisited]
theorem length_keys (q) : (keys q).length = q.length := by simp [keys]

theorem keys_remove (q k) : keys (remove q k) = (keys q).filter (· != k) := by
  induction q with
  | nil => rfl
  | cons e q ih =>
    rw [remove_cons, keys_cons, List.filter_cons]
    by_cases h : e.key = k <;> simp [h, ih]

theorem find_none_iff (q k) : find q k = none ↔ k ∉ keys q := by
  induction q with
  | nil => simp [find_nil]
  | cons e q ih =>
    rw [find_cons, keys_cons, List.mem_cons, not_or]
    by_cases h : e.key = k
    · simp [h]
    · simp only [h, if_false, ih]
      exact ⟨fun h' => ⟨fun hk => h hk.symm, h'⟩, fun h' => h'.2⟩

theorem find_some_mem {q k e} (h : find q k = some e) : e ∈ q ∧ e.key = k := by
  unfold find at h
  exact ⟨List.mem_of_find?_eq_some h, by simpa using List.find?_some h⟩

theorem find_isSome_iff (q k) : (find q k).isSome ↔ k ∈ keys q := by
  cases h : find q k with
  | none => simp [(find_none_iff q k).1 h]
  | some e =>
    simp
    have := find_some_mem h
    exact List.mem_map.2 ⟨e, this.1, this.2⟩

theorem length_remove_le (q k) : (remove q k).length ≤ q.length := List.length_filter_le _ _

theorem remove_of_not_mem {q k} (h : k ∉ keys q) : remove q k = q := by
  induction q with
  | nil => rfl
  | cons e q ih =>
    rw [keys_cons, List.mem_cons, not_or] at h
    rw [remove_cons, if_neg (fun he => h.1 he.symm), ih h.2]

theorem length_remove_of_mem {q k} (hn : (keys q).Nodup) (hm : k ∈ keys q) :
    (remove q k).length + 1 = q.length := by
  induction q with
  | nil => simp at hm
  | cons e q ih =>
    rw [keys_cons, List.nodup_cons] at hn
    rw [keys_cons, List.mem_cons] at hm
    rw [remove_cons]
    by_cases h : e.key = k
    · subst h; simp [remove_of_not_mem hn.1]
    · have hk : k ∈ keys q := by
        rcases hm with hm | hm
        · exact absurd hm.symm h
        · exact hm
      simp [h, ih hn.2 hk]

theorem nodup_remove {q} (k) (hn : (keys q).Nodup) : (keys (remove q k)).Nodup := by
  rw [keys_remove]; exact hn.filter _

theorem mem_keys_remove {q k x} : x ∈ keys (remove q k) ↔ x ∈ keys q ∧ x ≠ k := by
  rw [keys_remove]; simp

theorem prevKey_mem {q k p} (hn : (keys q).Nodup) (h : prevKey q k = some p) :
    p ∈ keys q ∧ p ≠ k ∧ k ∈ keys q := by
  induction q with
  | nil => simp [prevKey] at h
  | cons a q ih =>
    cases q with
    | nil => simp [prevKey] at h
    | cons b rest =>
      simp only [prevKey] at h
      have hn' := hn
      simp only [keys_cons, List.nodup_cons, List.mem_cons] at hn ⊢
      split at h
      · rename_i hb
        simp at h; subst h; subst hb
        refine ⟨Or.inl rfl, ?_, Or.inr (Or.inl rfl)⟩
        intro he; exact hn.1 (Or.inl he)
      · have := ih (List.nodup_cons.1 hn').2 h
        simp only [keys_cons, List.mem_cons] at this
        refine ⟨Or.inr this.1, this.2.1, Or.inr this.2.2⟩

theorem backKey_mem {q p} (h : backKey q = some p) : p ∈ keys q := by
  unfold backKey at h
  cases hl : q.getLast? with
  | none => simp [hl] at h
  | some e =>
    simp [hl] at h; subst h
    exact List.mem_map.2 ⟨e, List.mem_of_getLast? hl, rfl⟩

theorem backKey_isSome {q : List Ent} (h : q ≠ []) : ∃ p, backKey q = some p := by
  unfold backKey
  cases hl : q.getLast? with
  | none => exact absurd (List.getLast?_eq_none_iff.1 hl) h
  | some e => exact ⟨e.key, rfl⟩

/-- value stored under a key -/
def valOf (q : List Ent) (k : Nat) : Option Nat := (find q k).map (·.val)

theorem valOf_nil (x) : valOf [] x = none := rfl
theorem valOf_cons (e : Ent) (q x) : valOf (e :: q) x = if e.key = x then some e.val else valOf q x := by
  unfold valOf; rw [find_cons]; split <;> rfl

theorem valOf_setVisited (q k b x) : valOf (setVisited q k b) x = valOf q x := by
  induction q with
  | nil => rfl
  | cons e q ih =>
    rw [setVisited_cons, valOf_cons, valOf_cons, ih]
    by_cases hk : e.key = k <;> simp [hk]

theorem valOf_remove (q k x) : valOf (remove q k) x = if x = k then none else valOf q x := by
  induction q with
  | nil => simp [remove_nil, valOf_nil]
  | cons e q ih =>
    rw [remove_cons]
    by_cases hk : e.key = k
    · rw [if_pos hk, ih, valOf_cons]
      by_cases hx : x = k
      · simp [hx]
      · have : ¬ e.key = x := fun h => hx (h ▸ hk)
        simp [hx, this]
    · rw [if_neg hk, valOf_cons, valOf_cons, ih]
      by_cases hx : e.key = x
      · have : ¬ x = k := fun h => hk (hx ▸ h)
        simp [hx, this]
      · simp [hx]

theorem valOf_setValVisited (q k v x) :
    valOf (setValVisited q k v) x = if x = k ∧ k ∈ keys q then some v else valOf q x := by
  induction q with
  | nil => simp [setValVisited_nil, valOf_nil]
  | cons e q ih =>
    rw [setValVisited_cons, valOf_cons, valOf_cons, ih]
    simp only [keys_cons, List.mem_cons]
    by_cases hk : e.key = k
    · by_cases hx : e.key = x
      · have : x = k := hx ▸ hk
        simp [hk, this]
      · have : ¬ x = k := fun h => hx (h ▸ hk)
        have h2 : ¬ k = x := fun h => this h.symm
        simp [hk, this, h2]
    · by_cases hx : e.key = x
      · have : ¬ x = k := fun h => hk (h ▸ hx)
        simp [hk, hx, this]
      · have : ¬ k = e.key := fun h => hk h.symm
        simp [hk, hx, this]

theorem valOf_isSome_iff (q k) : (valOf q k).isSome ↔ k ∈ keys q := by
  unfold valOf; rw [Option.isSome_map]; exact find_isSome_iff q k

theorem valOf_none_of_not_mem {q k} (h : k ∉ keys q) : valOf q k = none := by
  unfold valOf; rw [(find_none_iff q k).2 h]; rfl

end Dawgs.C16

namespace Dawgs.C16

theorem prevOrBack_mem {q} (hn : (keys q).Nodup) (hne : q ≠ []) (h : Nat) :
    ∃ p, prevOrBack q h = some p ∧ p ∈ keys q := by
  unfold prevOrBack
  cases hp : prevKey q h with
  | none =>
    obtain ⟨p, hb⟩ := backKey_isSome hne
    exact ⟨p, hb, backKey_mem hb⟩
  | some p => exact ⟨p, rfl, (prevKey_mem hn hp).1⟩

def countVisited (q : List Ent) : Nat := (q.filter (·.visited)).length

theorem countVisited_cons (e : Ent) (q) :
    countVisited (e :: q) = (if e.visited then 1 else 0) + countVisited q := by
  unfold countVisited; rw [List.filter_cons]; split <;> simp <;> omega

theorem countVisited_le (q) : countVisited q ≤ q.length := List.length_filter_le _ _

theorem countVisited_setVisited_false_le (q k) :
    countVisited (setVisited q k false) ≤ countVisited q := by
  induction q with
  | nil => exact Nat.le_refl _
  | cons e q ih =>
    rw [setVisited_cons, countVisited_cons, countVisited_cons]
    by_cases hk : e.key = k
    · simp [hk]; omega
    · simp [hk]; omega

theorem countVisited_clear_lt {q k e} (hf : find q k = some e) (hv : e.visited = true) :
    countVisited (setVisited q k false) < countVisited q := by
  induction q with
  | nil => simp [find_nil] at hf
  | cons a q ih =>
    rw [find_cons] at hf
    rw [setVisited_cons, countVisited_cons, countVisited_cons]
    by_cases hk : a.key = k
    · simp [hk] at hf; subst hf
      have := countVisited_setVisited_false_le q k
      simp [hk, hv]; omega
    · simp [hk] at hf
      have := ih hf
      simp [hk]; omega

/-- What a successful sweep preserves. -/
theorem sweep_spec {fuel q h q' h'} (hs : sweep fuel q h = some (q', h')) (hn : (keys q).Nodup) :
    keys q' = keys q ∧ (∀ x, valOf q' x = valOf q x) ∧ h' ∈ keys q' := by
  induction fuel generalizing q h with
  | zero => simp [sweep] at hs
  | succ fuel ih =>
    unfold sweep at hs
    cases hf : find q h with
    | none => simp [hf] at hs
    | some e =>
      simp only [hf] at hs
      by_cases hv : e.visited = true
      · simp only [hv, if_true] at hs
        cases hp : prevOrBack (setVisited q h false) h with
        | none => simp [hp] at hs
        | some p =>
          simp only [hp] at hs
          have hn' : (keys (setVisited q h false)).Nodup := by rw [keys_setVisited]; exact hn
          have := ih hs hn'
          refine ⟨by rw [this.1, keys_setVisited], ?_, this.2.2⟩
          intro x; rw [this.2.1 x, valOf_setVisited]
      · simp only [hv] at hs
        simp at hs
        obtain ⟨rfl, rfl⟩ := hs
        refine ⟨rfl, fun _ => rfl, ?_⟩
        exact (find_isSome_iff q h).1 (by simp [hf])

/-- The sweep never runs out of fuel when given more fuel than there are visited entries. -/
theorem sweep_fuel_sufficient_aux {fuel q h} (hn : (keys q).Nodup) (hm : h ∈ keys q)
    (hc : countVisited q < fuel) : (sweep fuel q h).isSome := by
  induction fuel generalizing q h with
  | zero => omega
  | succ fuel ih =>
    unfold sweep
    cases hf : find q h with
    | none => exact absurd hm ((find_none_iff q h).1 hf)
    | some e =>
      simp only
      by_cases hv : e.visited = true
      · simp only [hv, if_true]
        have hn' : (keys (setVisited q h false)).Nodup := by rw [keys_setVisited]; exact hn
        have hlt := countVisited_clear_lt hf hv
        have hne : setVisited q h false ≠ [] := by
          intro h0
          have := congrArg List.length h0
          rw [length_setVisited] at this
          have hq : q = [] := List.length_eq_zero_iff.1 this
          subst hq; simp at hm
        obtain ⟨p, hp, hpm⟩ := prevOrBack_mem hn' hne h
        simp only [hp]
        exact ih hn' hpm (by omega)
      · simp [hv]

end Dawgs.C16

namespace Dawgs.C16

/-- State invariant of the SIEVE cache. -/
structure Sieve.Inv (s : Sieve) : Prop where
  nodup : (keys s.queue).Nodup
  bounded : s.queue.length ≤ s.cap
  capPos : 1 ≤ s.cap
  hand : ∀ h, s.hand = some h → h ∈ keys s.queue
  size : s.size = s.queue.length

/-- The cache holds only bindings of the ideal map. -/
def Sieve.Sub (s : Sieve) (m : Ideal) : Prop := ∀ k v, valOf s.queue k = some v → m.get k = some v

theorem Sieve.inv_new (c : Int) : (Sieve.new c).Inv := by
  refine ⟨by simp [Sieve.new], by simp [Sieve.new], ?_, by simp [Sieve.new], by simp [Sieve.new]⟩
  unfold Sieve.new; simp only; split <;> omega

/-- Everything `evict` does to a non-empty cache that satisfies the invariant. -/
theorem Sieve.evict_spec {s : Sieve} (hi : s.Inv) (hne : s.queue ≠ []) :
    (keys s.evict.queue).Nodup ∧ s.evict.queue.length + 1 = s.queue.length ∧ s.evict.cap = s.cap ∧
    (∀ h, s.evict.hand = some h → h ∈ keys s.evict.queue) ∧ s.evict.size = s.size - 1 ∧
    (∀ x v, valOf s.evict.queue x = some v → valOf s.queue x = some v) ∧
    (∀ x, x ∈ keys s.evict.queue → x ∈ keys s.queue) ∧
    s.evict.hits = s.hits ∧ s.evict.misses = s.misses := by
  have ⟨h0, hh0, hm0⟩ : ∃ h0, s.handOrBack = some h0 ∧ h0 ∈ keys s.queue := by
    unfold Sieve.handOrBack
    cases hh : s.hand with
    | some h => exact ⟨h, rfl, hi.hand h hh⟩
    | none =>
      obtain ⟨p, hb⟩ := backKey_isSome hne
      exact ⟨p, hb, backKey_mem hb⟩
  have hsome := sweep_fuel_sufficient_aux (fuel := s.queue.length + 1) hi.nodup hm0
    (by have := countVisited_le s.queue; omega)
  obtain ⟨⟨q, h⟩, hsw⟩ := Option.isSome_iff_exists.1 hsome
  have hspec := sweep_spec hsw hi.nodup
  have hev : s.evict = { s with hand := prevKey q h, queue := remove q h, size := s.size - 1 } := by
    unfold Sieve.evict; rw [hh0]; simp only; rw [hsw]
  have hnq : (keys q).Nodup := by rw [hspec.1]; exact hi.nodup
  rw [hev]
  refine ⟨nodup_remove h hnq, ?_, rfl, ?_, rfl, ?_, ?_, rfl, rfl⟩
  · show (remove q h).length + 1 = s.queue.length
    have := length_remove_of_mem hnq hspec.2.2
    have hl : q.length = s.queue.length := by rw [← length_keys, hspec.1, length_keys]
    omega
  · intro p hp
    have := prevKey_mem hnq hp
    exact mem_keys_remove.2 ⟨this.1, this.2.1⟩
  · intro x v hx
    rw [valOf_remove] at hx
    by_cases hxh : x = h
    · simp [hxh] at hx
    · simp only [hxh, if_false] at hx; rw [← hspec.2.1 x]; exact hx
  · intro x hx
    have := (mem_keys_remove.1 hx).1
    rw [hspec.1] at this; exact this

theorem Ideal.get_put (m : Ideal) (k v x) : (m.put k v).get x = if x = k then some v else m.get x := by
  unfold Ideal.put Ideal.get Ideal.del
  rw [List.find?_cons]
  by_cases h : x = k
  · subst h; simp
  · have : ((k, v).1 == x) = false := by simp; exact fun h' => h h'.symm
    rw [this]; simp only [h, if_false]
    congr 1
    rw [List.find?_filter]
    congr 1; funext p
    by_cases hp : p.1 = x
    · have : p.1 ≠ k := fun h' => h (hp ▸ h')
      simp [hp, this]; exact h
    · simp [hp]

theorem Ideal.get_del (m : Ideal) (k x) : (m.del k).get x = if x = k then none else m.get x := by
  unfold Ideal.get Ideal.del
  rw [List.find?_filter]
  by_cases h : x = k
  · subst h
    have : (fun a : Nat × Nat => (a.1 != x && a.1 == x)) = fun _ => false := by
      funext a; by_cases ha : a.1 = x <;> simp [ha]
    simp [this]
  · simp only [h, if_false]
    congr 1; congr 1; funext p
    by_cases hp : p.1 = x
    · have : p.1 ≠ k := fun h' => h (hp ▸ h')
      simp [hp, this]; exact h
    · simp [hp]

theorem Sieve.put_inv {s : Sieve} (hi : s.Inv) (k v) : (s.put k v).Inv := by
  unfold Sieve.put
  cases hf : find s.queue k with
  | some e =>
    simp only
    exact ⟨by simpa [keys_setValVisited] using hi.nodup, by simpa [length_setValVisited] using hi.bounded,
      hi.capPos, by simpa [keys_setValVisited] using hi.hand, by simpa [length_setValVisited] using hi.size⟩
  | none =>
    simp only
    have hk : k ∉ keys s.queue := (find_none_iff _ _).1 hf
    unfold Sieve.putEntry
    by_cases hfull : s.queue.length ≥ s.cap
    · have hne : s.queue ≠ [] := by
        intro h0; have := hi.capPos; simp [h0] at hfull; omega
      have ev := Sieve.evict_spec hi hne
      simp only [hfull, if_true]
      refine ⟨?_, ?_, by simpa [ev.2.2.1] using hi.capPos, ?_, ?_⟩
      · simp only [keys_cons, List.nodup_cons]
        exact ⟨fun h => hk (ev.2.2.2.2.2.2.1 k h), ev.1⟩
      · simp only [List.length_cons, ev.2.2.1]; have := hi.bounded; omega
      · intro h hh; simp only [keys_cons, List.mem_cons]; exact Or.inr (ev.2.2.2.1 h hh)
      · simp only [List.length_cons, ev.2.2.2.2.1, hi.size]; have := ev.2.1; omega
    · simp only [hfull, if_false]
      refine ⟨?_, ?_, hi.capPos, ?_, ?_⟩
      · simp only [keys_cons, List.nodup_cons]; exact ⟨hk, hi.nodup⟩
      · simp only [List.length_cons]; omega
      · intro h hh; simp only [keys_cons, List.mem_cons]; exact Or.inr (hi.hand h hh)
      · simp only [List.length_cons, hi.size]; omega

theorem Sieve.get_inv {s : Sieve} (hi : s.Inv) (k) : (s.get k).1.Inv := by
  unfold Sieve.get
  cases hf : find s.queue k with
  | some e =>
    simp only
    exact ⟨by simpa [keys_setVisited] using hi.nodup, by simpa [length_setVisited] using hi.bounded,
      hi.capPos, by simpa [keys_setVisited] using hi.hand, by simpa [length_setVisited] using hi.size⟩
  | none => simp only; exact ⟨hi.nodup, hi.bounded, hi.capPos, hi.hand, hi.size⟩

theorem Sieve.delete_inv {s : Sieve} (hi : s.Inv) (k) : (s.delete k).Inv := by
  unfold Sieve.delete
  cases hf : find s.queue k with
  | none => exact hi
  | some e =>
    simp only
    have hk : k ∈ keys s.queue := (find_isSome_iff _ _).1 (by simp [hf])
    refine ⟨nodup_remove k hi.nodup, Nat.le_trans (length_remove_le _ _) hi.bounded, hi.capPos, ?_, ?_⟩
    · intro h hh
      by_cases hhk : s.hand = some k
      · simp only [hhk, if_true] at hh
        have := prevKey_mem hi.nodup hh
        exact mem_keys_remove.2 ⟨this.1, this.2.1⟩
      · simp only [hhk, if_false] at hh
        refine mem_keys_remove.2 ⟨hi.hand h hh, ?_⟩
        intro he; subst he; exact hhk hh
    · have := length_remove_of_mem hi.nodup hk
      show s.size - 1 = ((remove s.queue k).length : Int)
      rw [hi.size]; omega

theorem Sieve.step_inv {s : Sieve} (hi : s.Inv) (o : Op) : (s.step o).1.Inv := by
  cases o with
  | put k v => exact Sieve.put_inv hi k v
  | get k =>
    exact Sieve.get_inv hi k
  | del k => exact Sieve.delete_inv hi k

theorem Sieve.run_inv {s : Sieve} (hi : s.Inv) (ops : List Op) : (s.run ops).Inv := by
  induction ops generalizing s with
  | nil => exact hi
  | cons o ops ih => exact ih (Sieve.step_inv hi o)

end Dawgs.C16

namespace Dawgs.C16

theorem Sieve.put_sub {s : Sieve} {m : Ideal} (hi : s.Inv) (hs : s.Sub m) (k v) :
    (s.put k v).Sub (m.put k v) := by
  intro x w hx
  rw [Ideal.get_put]
  unfold Sieve.put at hx
  cases hf : find s.queue k with
  | some e =>
    simp only [hf] at hx
    rw [valOf_setValVisited] at hx
    have hk : k ∈ keys s.queue := (find_isSome_iff _ _).1 (by simp [hf])
    by_cases hxk : x = k
    · simp [hxk, hk] at hx; simp [hxk, hx]
    · simp [hxk] at hx; simp [hxk]; exact hs x w hx
  | none =>
    simp only [hf] at hx
    unfold Sieve.putEntry at hx
    by_cases hxk : x = k
    · subst hxk
      split at hx <;> simp [valOf_cons] at hx <;> simp [hx]
    · simp only [hxk, if_false]
      have hkx : ¬ k = x := fun h => hxk h.symm
      by_cases hfull : s.queue.length ≥ s.cap
      · have hne : s.queue ≠ [] := by
          intro h0; have := hi.capPos; simp [h0] at hfull; omega
        have ev := Sieve.evict_spec hi hne
        simp only [hfull, if_true, valOf_cons, hkx, if_false] at hx
        exact hs x w (ev.2.2.2.2.2.1 x w hx)
      · simp only [hfull, if_false, valOf_cons, hkx] at hx
        exact hs x w hx

theorem Sieve.get_sub {s : Sieve} {m : Ideal} (hs : s.Sub m) (k) : (s.get k).1.Sub m := by
  intro x w hx
  unfold Sieve.get at hx
  cases hf : find s.queue k with
  | some e => simp only [hf, valOf_setVisited] at hx; exact hs x w hx
  | none => simp only [hf] at hx; exact hs x w hx

theorem Sieve.get_out {s : Sieve} {m : Ideal} (hs : s.Sub m) (k v) (h : (s.get k).2 = some v) :
    m.get k = some v := by
  unfold Sieve.get at h
  cases hf : find s.queue k with
  | some e =>
    simp only [hf] at h
    apply hs k v; unfold valOf; rw [hf]; simpa using h
  | none => simp [hf] at h

theorem Sieve.delete_sub {s : Sieve} {m : Ideal} (hs : s.Sub m) (k) : (s.delete k).Sub (m.del k) := by
  intro x w hx
  rw [Ideal.get_del]
  unfold Sieve.delete at hx
  cases hf : find s.queue k with
  | some e =>
    simp only [hf, valOf_remove] at hx
    by_cases hxk : x = k
    · simp [hxk] at hx
    · simp only [hxk, if_false] at hx ⊢; exact hs x w hx
  | none =>
    simp only [hf] at hx
    have hk : valOf s.queue k = none := by unfold valOf; rw [hf]; rfl
    by_cases hxk : x = k
    · subst hxk; rw [hk] at hx; cases hx
    · simp only [hxk, if_false]; exact hs x w hx

theorem Sieve.step_refines {s : Sieve} {m : Ideal} (hi : s.Inv) (hs : s.Sub m) (o : Op) :
    accepts m o (s.step o).2 = true ∧ (s.step o).1.Sub (m.step o) := by
  cases o with
  | put k v => exact ⟨rfl, Sieve.put_sub hi hs k v⟩
  | del k => exact ⟨rfl, Sieve.delete_sub hs k⟩
  | get k =>
    refine ⟨?_, Sieve.get_sub hs k⟩
    have h2 := Sieve.get_out hs k
    show accepts m (.get k) (outOf (s.get k).2) = true
    cases hr : (s.get k).2 with
    | none => rfl
    | some v => simp [outOf, accepts, h2 v hr]

/-- The observable trace of running `ops` from `s`. -/
def Sieve.trace : Sieve → List Op → List (Op × Out)
  | _, [] => []
  | s, o :: ops => (o, (s.step o).2) :: Sieve.trace (s.step o).1 ops

theorem Sieve.trace_accepted {s : Sieve} {m : Ideal} (hi : s.Inv) (hs : s.Sub m) (ops : List Op) :
    acceptsTrace m (s.trace ops) = true := by
  induction ops generalizing s m with
  | nil => rfl
  | cons o ops ih =>
    have := Sieve.step_refines hi hs o
    simp only [Sieve.trace, acceptsTrace, this.1, Bool.true_and]
    exact ih (Sieve.step_inv hi o) this.2

theorem Sieve.sub_new (c : Int) : (Sieve.new c).Sub [] := by
  intro k v h; simp [Sieve.new, valOf_nil] at h

/-- A `put` is immediately visible. -/
theorem Sieve.get_after_put (s : Sieve) (k v) : ((s.put k v).get k).2 = some v := by
  have hv : valOf (s.put k v).queue k = some v := by
    unfold Sieve.put
    cases hf : find s.queue k with
    | some e =>
      have hk : k ∈ keys s.queue := (find_isSome_iff _ _).1 (by simp [hf])
      simp only [valOf_setValVisited, hk, and_self, if_true]
    | none => simp only [Sieve.putEntry]; split <;> simp [valOf_cons]
  unfold Sieve.get
  unfold valOf at hv
  cases hf : find (s.put k v).queue k with
  | none => simp [hf] at hv
  | some e => simp [hf] at hv ⊢; exact hv

/-! ### NonExpiringMapCache -/

def skeys (st : List (Nat × Nat)) : List Nat := st.map (·.1)

structure NeMap.Inv (s : NeMap) : Prop where
  nodup : (skeys s.store).Nodup
  size : s.size = s.store.length
  bounded : (s.store.length : Int) ≤ max s.cap 0

def NeMap.Sub (s : NeMap) (m : Ideal) : Prop := ∀ k v, s.lookup k = some v → m.get k = some v

theorem NeMap.inv_new (c : Int) : (NeMap.new c).Inv :=
  ⟨by simp [NeMap.new, skeys], by simp [NeMap.new], by simp [NeMap.new]; omega⟩

theorem NeMap.lookup_eq_get (s : NeMap) (k) : s.lookup k = Ideal.get s.store k := rfl

theorem lookup_none_iff (st : List (Nat × Nat)) (k) : Ideal.get st k = none ↔ k ∉ skeys st := by
  induction st with
  | nil => simp [Ideal.get, skeys]
  | cons p st ih =>
    unfold Ideal.get skeys at *
    rw [List.find?_cons]
    by_cases h : p.1 = k
    · simp [h]
    · have : (p.1 == k) = false := by simp [h]
      simp only [this, List.map_cons, List.mem_cons, not_or]
      rw [ih]; exact ⟨fun h' => ⟨fun hk => h hk.symm, h'⟩, fun h' => h'.2⟩

theorem skeys_filter (st : List (Nat × Nat)) (k) :
    skeys (st.filter (fun p => p.1 != k)) = (skeys st).filter (· != k) := by
  induction st with
  | nil => rfl
  | cons p st ih =>
    simp only [skeys, List.filter_cons, List.map_cons] at *
    by_cases h : p.1 = k <;> simp [h, ih]

theorem skeys_update (st : List (Nat × Nat)) (k v) :
    skeys (st.map (fun p => if p.1 = k then (k, v) else p)) = skeys st := by
  induction st with
  | nil => rfl
  | cons p st ih =>
    simp only [skeys, List.map_cons] at *
    rw [ih]; by_cases h : p.1 = k <;> simp [h]

theorem Ideal.get_cons (p : Nat × Nat) (st : List (Nat × Nat)) (x) :
    Ideal.get (p :: st) x = if p.1 = x then some p.2 else Ideal.get st x := by
  unfold Ideal.get; rw [List.find?_cons]
  by_cases h : p.1 = x
  · have : (p.1 == x) = true := by simp [h]
    simp [this, h]
  · have : (p.1 == x) = false := by simp [h]
    simp [this, h]

theorem skeys_cons (p : Nat × Nat) (st) : skeys (p :: st) = p.1 :: skeys st := rfl

theorem get_update (st : List (Nat × Nat)) (k v x) :
    Ideal.get (st.map (fun p => if p.1 = k then (k, v) else p)) x =
      if x = k ∧ k ∈ skeys st then some v else Ideal.get st x := by
  induction st with
  | nil => simp [Ideal.get, skeys]
  | cons p st ih =>
    rw [List.map_cons, Ideal.get_cons, Ideal.get_cons, ih, skeys_cons]
    by_cases hk : p.1 = k
    · by_cases hx : p.1 = x
      · have : x = k := hx ▸ hk
        simp [hk, this]
      · have hxk : ¬ x = k := fun h => hx (h ▸ hk)
        have hkx : ¬ k = x := fun h => hxk h.symm
        simp [hk, hkx, hxk]
    · by_cases hx : p.1 = x
      · have hxk : ¬ x = k := fun h => hk (h ▸ hx)
        simp [hk, hx, hxk]
      · have hkp : ¬ k = p.1 := fun h => hk h.symm
        simp [hk, hx, hkp]

theorem length_filter_of_mem {st : List (Nat × Nat)} {k} (hn : (skeys st).Nodup) (hm : k ∈ skeys st) :
    (st.filter (fun p => p.1 != k)).length + 1 = st.length := by
  induction st with
  | nil => simp [skeys] at hm
  | cons p st ih =>
    simp only [skeys, List.map_cons, List.nodup_cons, List.mem_cons] at hn hm
    rw [List.filter_cons]
    by_cases h : p.1 = k
    · subst h
      have : st.filter (fun q => q.1 != p.1) = st := by
        apply List.filter_eq_self.2
        intro a ha
        have : a.1 ∈ st.map (·.1) := List.mem_map.2 ⟨a, ha, rfl⟩
        simp; intro h'; exact hn.1 (h' ▸ this)
      simp [this]
    · have hk : k ∈ skeys st := by
        rcases hm with hm | hm
        · exact absurd hm.symm h
        · exact hm
      simp [h, ih hn.2 hk]

theorem NeMap.put_inv {s : NeMap} (hi : s.Inv) (k v) : (s.put k v).Inv := by
  unfold NeMap.put
  cases hl : s.lookup k with
  | some w =>
    simp only
    exact ⟨by rw [skeys_update]; exact hi.nodup, by simpa using hi.size, by simpa using hi.bounded⟩
  | none =>
    simp only
    have hk : k ∉ skeys s.store := (lookup_none_iff _ _).1 hl
    by_cases hc : s.size < s.cap
    · simp only [hc, if_true]
      refine ⟨?_, by simp [hi.size], ?_⟩
      · simp only [skeys, List.map_cons, List.nodup_cons]; exact ⟨hk, hi.nodup⟩
      · have := hi.size; simp only [List.length_cons]; omega
    · simp only [hc, if_false]; exact hi

theorem NeMap.delete_inv {s : NeMap} (hi : s.Inv) (k) : (s.delete k).Inv := by
  unfold NeMap.delete
  cases hl : s.lookup k with
  | none => exact hi
  | some w =>
    simp only
    have hk : k ∈ skeys s.store := by
      apply Classical.byContradiction; intro hn
      have := (lookup_none_iff _ _).2 hn
      rw [NeMap.lookup_eq_get] at hl; rw [hl] at this; cases this
    have hlen := length_filter_of_mem hi.nodup hk
    refine ⟨by rw [skeys_filter]; exact hi.nodup.filter _, ?_, ?_⟩
    · show s.size - 1 = ((s.store.filter (fun p => p.1 != k)).length : Int)
      rw [hi.size]; omega
    · have := hi.bounded
      show ((s.store.filter (fun p => p.1 != k)).length : Int) ≤ max s.cap 0
      omega

theorem NeMap.get_inv {s : NeMap} (hi : s.Inv) (k) : (s.get k).1.Inv := by
  unfold NeMap.get
  cases hl : s.lookup k <;> exact ⟨hi.nodup, hi.size, hi.bounded⟩

theorem NeMap.step_inv {s : NeMap} (hi : s.Inv) (o : Op) : (s.step o).1.Inv := by
  cases o with
  | put k v => exact NeMap.put_inv hi k v
  | get k =>
    exact NeMap.get_inv hi k
  | del k => exact NeMap.delete_inv hi k

theorem NeMap.run_inv {s : NeMap} (hi : s.Inv) (ops : List Op) : (s.run ops).Inv := by
  induction ops generalizing s with
  | nil => exact hi
  | cons o ops ih => exact ih (NeMap.step_inv hi o)

theorem NeMap.step_refines {s : NeMap} {m : Ideal} (hs : s.Sub m) (o : Op) :
    accepts m o (s.step o).2 = true ∧ (s.step o).1.Sub (m.step o) := by
  cases o with
  | put k v =>
    refine ⟨rfl, ?_⟩
    intro x w hx
    show (m.put k v).get x = some w
    rw [Ideal.get_put]
    simp only [NeMap.step, NeMap.put] at hx
    cases hl : s.lookup k with
    | some w' =>
      simp only [hl, NeMap.lookup_eq_get, get_update] at hx
      by_cases hxk : x = k
      · have hk : k ∈ skeys s.store := by
          apply Classical.byContradiction; intro hn
          have := (lookup_none_iff _ _).2 hn
          rw [NeMap.lookup_eq_get] at hl; rw [hl] at this; cases this
        simp [hxk, hk] at hx; simp [hxk, hx]
      · simp [hxk] at hx; simp [hxk]; exact hs x w hx
    | none =>
      simp only [hl] at hx
      by_cases hc : s.size < s.cap
      · simp only [hc, if_true, NeMap.lookup_eq_get, Ideal.get_cons] at hx
        by_cases hxk : x = k
        · subst hxk; simp at hx; simp [hx]
        · have : ¬ k = x := fun h => hxk h.symm
          simp only [this, if_false] at hx
          simp only [hxk, if_false]; exact hs x w hx
      · simp only [hc, if_false] at hx
        by_cases hxk : x = k
        · subst hxk; rw [hl] at hx; cases hx
        · simp only [hxk, if_false]; exact hs x w hx
  | del k =>
    refine ⟨rfl, ?_⟩
    intro x w hx
    show (m.del k).get x = some w
    rw [Ideal.get_del]
    simp only [NeMap.step, NeMap.delete] at hx
    cases hl : s.lookup k with
    | some w' =>
      simp only [hl, NeMap.lookup_eq_get] at hx
      have := Ideal.get_del s.store k x
      unfold Ideal.del at this; rw [this] at hx
      by_cases hxk : x = k
      · simp [hxk] at hx
      · simp only [hxk, if_false] at hx ⊢; exact hs x w hx
    | none =>
      simp only [hl] at hx
      by_cases hxk : x = k
      · subst hxk; rw [hl] at hx; cases hx
      · simp only [hxk, if_false]; exact hs x w hx
  | get k =>
    show accepts m (.get k) (outOf (s.get k).2) = true ∧ (s.get k).1.Sub m
    unfold NeMap.get
    cases hl : s.lookup k with
    | none => exact ⟨rfl, fun x w hx => hs x w hx⟩
    | some v => exact ⟨by simp [outOf, accepts, hs k v hl], fun x w hx => hs x w hx⟩

def NeMap.trace : NeMap → List Op → List (Op × Out)
  | _, [] => []
  | s, o :: ops => (o, (s.step o).2) :: NeMap.trace (s.step o).1 ops

theorem NeMap.trace_accepted {s : NeMap} {m : Ideal} (hs : s.Sub m) (ops : List Op) :
    acceptsTrace m (s.trace ops) = true := by
  induction ops generalizing s m with
  | nil => rfl
  | cons o ops ih =>
    have := NeMap.step_refines hs o
    simp only [NeMap.trace, acceptsTrace, this.1, Bool.true_and]
    exact ih this.2

theorem NeMap.sub_new (c : Int) : (NeMap.new c).Sub [] := by
  intro k v h; simp [NeMap.new, NeMap.lookup] at h

end Dawgs.C16
