/- Helper lemmas for C14: NumEdges of every container against the edge list. -/
import Dawgs.Proofs.C14Csr
import Dawgs.Proofs.C14TS
set_option linter.unusedSimpArgs false
set_option linter.unusedVariables false
namespace Dawgs.C14

theorem dedupP_nil : dedupP [] = [] := rfl
theorem dedupP_cons (p : Nat × Nat) (ps : List (Nat × Nat)) :
    dedupP (p :: ps) = if p ∈ dedupP ps then dedupP ps else p :: dedupP ps := rfl

theorem mem_dedupP {ps : List (Nat × Nat)} {x : Nat × Nat} : x ∈ dedupP ps ↔ x ∈ ps := by
  induction ps with
  | nil => simp [dedupP_nil]
  | cons p ps ih =>
    rw [dedupP_cons]
    split
    · rename_i h
      rw [ih, List.mem_cons]
      constructor
      · intro hx; exact Or.inr hx
      · rintro (rfl | hx)
        · exact ih.mp h
        · exact hx
    · simp [ih]

theorem nodup_dedupP (ps : List (Nat × Nat)) : (dedupP ps).Nodup := by
  induction ps with
  | nil => simp [dedupP_nil]
  | cons p ps ih =>
    rw [dedupP_cons]
    split
    · exact ih
    · rename_i h; exact List.nodup_cons.mpr ⟨h, ih⟩

theorem mem_pairs {g : G} {s t : Nat} : (s, t) ∈ g.pairs ↔ HasEdge g.edges s t := by
  unfold G.pairs HasEdge
  rw [mem_dedupP, List.mem_map]
  constructor
  · rintro ⟨e, he, h⟩; simp at h; exact ⟨e, he, h.1, h.2⟩
  · rintro ⟨e, he, h1, h2⟩; exact ⟨e, he, by simp [h1, h2]⟩

/-- the (start, end) pairs the CSR out-array encodes, row by row -/
def csrPairs (b : CsrB) : List (Nat × Nat) :=
  (List.range b.denseToId.length).flatMap (fun i => (mget b.outTmp i).map (fun j => (idOf b.denseToId i, idOf b.denseToId j)))

theorem sum_map_length_flatMap {α β : Type} (l : List α) (f : α → List β) :
    (l.flatMap f).length = (l.map (fun a => (f a).length)).sum := by
  induction l with
  | nil => rfl
  | cons a l ih => simp [List.flatMap_cons, ih]

theorem csrPairs_length (b : CsrB) : (csrPairs b).length = b.build.numEdges := by
  have h := (buildSide_spec b.denseToId b.outTmp).2.2.2.1
  show _ = (buildSide b.denseToId b.outTmp).2.length
  rw [h]
  unfold csrPairs rowsOf
  rw [sum_map_length_flatMap, List.length_flatten]
  simp [List.map_map, Function.comp_def]

theorem asc_pairwise_ne {l : List Nat} (h : Asc l) : l.Pairwise (· ≠ ·) := Asc.nodup h

theorem csrPairs_nodup {b : CsrB} {g : G} (r : b.Rel g) : (csrPairs b).Nodup := by
  unfold csrPairs List.Nodup
  rw [List.pairwise_flatMap]
  have hvalid : ∀ i, i < b.denseToId.length → b.denseToId[i]? = some (idOf b.denseToId i) := by
    intro i hi
    unfold idOf
    rw [List.getD_eq_getElem?_getD, List.getElem?_eq_getElem hi]; rfl
  have hinj : ∀ i j, b.denseToId[i]? = some (idOf b.denseToId i) → b.denseToId[j]? = some (idOf b.denseToId j) →
      idOf b.denseToId i = idOf b.denseToId j → i = j := by
    intro i j hi hj e
    rw [e] at hi
    exact nodup_getElem?_inj r.nodup hi hj
  constructor
  · intro i hi
    rw [List.pairwise_map]
    have hasc := asc_pairwise_ne (r.ascOut i)
    refine List.Pairwise.imp_of_mem ?_ hasc
    intro j j' hj hj' hne heq
    simp only [Prod.mk.injEq, true_and] at heq
    obtain ⟨_, _, _, h1, _⟩ := (r.out i j).mp hj
    obtain ⟨_, _, _, h2, _⟩ := (r.out i j').mp hj'
    have e1 := idOf_of_get h1
    have e2 := idOf_of_get h2
    apply hne
    apply hinj j j' (by rw [e1]; exact h1) (by rw [e2]; exact h2) heq
  · have hr : (List.range b.denseToId.length).Pairwise (· ≠ ·) :=
      List.pairwise_lt_range.imp (fun h => Nat.ne_of_lt h)
    refine List.Pairwise.imp_of_mem ?_ hr
    intro i i' hi hi' hne x hx y hy heq
    obtain ⟨j, _, rfl⟩ := List.mem_map.mp hx
    obtain ⟨j', _, rfl⟩ := List.mem_map.mp hy
    simp only [Prod.mk.injEq] at heq
    exact hne (hinj i i' (hvalid i (List.mem_range.mp hi)) (hvalid i' (List.mem_range.mp hi')) heq.1)

theorem mem_csrPairs {b : CsrB} {g : G} (r : b.Rel g) (s t : Nat) : (s, t) ∈ csrPairs b ↔ HasEdge g.edges s t := by
  unfold csrPairs
  simp only [List.mem_flatMap, List.mem_map, List.mem_range, Prod.mk.injEq]
  constructor
  · rintro ⟨i, hi, j, hj, rfl, rfl⟩
    obtain ⟨s', t', h1, h2, he⟩ := (r.out i j).mp hj
    rw [idOf_of_get h1, idOf_of_get h2]; exact he
  · intro he
    have hn := r.closed s t he
    obtain ⟨i, hi⟩ := List.getElem?_of_mem ((r.nodes s).mpr hn.1)
    obtain ⟨j, hj⟩ := List.getElem?_of_mem ((r.nodes t).mpr hn.2)
    have hlt : i < b.denseToId.length := by
      rcases Nat.lt_or_ge i b.denseToId.length with h | h
      · exact h
      · rw [List.getElem?_eq_none h] at hi; cases hi
    exact ⟨i, hlt, j, (r.out i j).mpr ⟨s, t, hi, hj, he⟩, idOf_of_get hi, idOf_of_get hj⟩

/-- `csrDigraph.NumEdges` = number of distinct (start, end) pairs of the edge list -/
theorem Csr.numEdges_spec {b : CsrB} {g : G} (r : b.Rel g) : b.build.numEdges = g.pairs.length := by
  rw [← csrPairs_length]
  apply List.Perm.length_eq
  have hp : g.pairs.Nodup := nodup_dedupP _
  rw [List.perm_ext_iff_of_nodup (csrPairs_nodup r) hp]
  rintro ⟨s, t⟩
  rw [mem_csrPairs r, mem_pairs]

theorem TS.numEdges_spec {t : TS} {g : G} (r : t.Rel g) : t.numEdges = g.edges.length := by
  unfold TS.numEdges; rw [r.edges]

theorem Proj.numEdges_spec {t : TS} {g : G} (r : t.Rel g) (dn de : List Nat) :
    Proj.numEdges ⟨t, dn, de⟩ = (g.project dn de).edges.length := by
  unfold Proj.numEdges
  simp only
  rw [project_edges_eq, r.edges]
  rfl

/-- when no two triples share (start, end), pairs and triples are equally many -/
theorem pairs_length_of_nodup {g : G} (h : (g.edges.map (fun e => (e.start, e.stop))).Nodup) : g.pairs.length = g.edges.length := by
  unfold G.pairs
  have : ∀ ps : List (Nat × Nat), ps.Nodup → dedupP ps = ps := by
    intro ps
    induction ps with
    | nil => intro _; rfl
    | cons p ps ih =>
      intro hn
      rw [List.nodup_cons] at hn
      rw [dedupP_cons, ih hn.2, if_neg hn.1]
  rw [this _ h, List.length_map]

end Dawgs.C14
