/- Helper lemmas for C14: the monitor's naive oracle (`naiveDists` / `naiveReach`, layers of walks of ≤ n steps)
is EXACTLY the declarative spec (`IsDist` / `Reachable`) once n ≥ the number of nodes; and distances are preserved
along any isomorphism given by a reverse index (Normalize). -/
import Dawgs.Proofs.C14Glue
set_option linter.unusedSimpArgs false
set_option linter.unusedVariables false
namespace Dawgs.C14

theorem mem_layer (adj : Nat → List Nat) (s : Nat) : ∀ k w, w ∈ layer adj s k ↔ w ∈ walkEnds adj s k := by
  intro k
  induction k with
  | zero => intro w; rfl
  | succ k ih =>
    intro w
    show w ∈ canon ((layer adj s k).flatMap adj) ↔ _
    unfold canon
    rw [mem_sofList, mem_walkEnds_succ, List.mem_flatMap]
    constructor
    · rintro ⟨u, hu, hw⟩; exact ⟨u, (ih u).mp hu, hw⟩
    · rintro ⟨u, hu, hw⟩; exact ⟨u, (ih u).mpr hu, hw⟩

theorem firstLayer_zero (adj : Nat → List Nat) (s w k : Nat) : firstLayer adj s w 0 k = none := rfl
theorem firstLayer_succ (adj : Nat → List Nat) (s w fuel k : Nat) :
    firstLayer adj s w (fuel + 1) k = if (layer adj s k).contains w then some k else firstLayer adj s w fuel (k + 1) := rfl

theorem firstLayer_iff (adj : Nat → List Nat) (s w : Nat) : ∀ (fuel k d : Nat),
    firstLayer adj s w fuel k = some d ↔
      k ≤ d ∧ d < k + fuel ∧ w ∈ walkEnds adj s d ∧ ∀ j, k ≤ j → j < d → w ∉ walkEnds adj s j := by
  intro fuel
  induction fuel with
  | zero => intro k d; rw [firstLayer_zero]; constructor
            · intro h; cases h
            · rintro ⟨h1, h2, _⟩; omega
  | succ fuel ih =>
    intro k d
    rw [firstLayer_succ]
    by_cases hc : (layer adj s k).contains w = true
    · rw [if_pos hc]
      have hm : w ∈ walkEnds adj s k := (mem_layer adj s k w).mp (by simpa using hc)
      constructor
      · intro h; cases h
        exact ⟨Nat.le_refl _, by omega, hm, fun j h1 h2 => by omega⟩
      · rintro ⟨h1, h2, h3, h4⟩
        by_cases e : k = d
        · rw [e]
        · exact absurd hm (h4 k (Nat.le_refl _) (by omega))
    · rw [if_neg hc, ih]
      have hm : w ∉ walkEnds adj s k := fun h => hc (by simpa using (mem_layer adj s k w).mpr h)
      constructor
      · rintro ⟨h1, h2, h3, h4⟩
        refine ⟨by omega, by omega, h3, ?_⟩
        intro j hj1 hj2
        by_cases e : j = k
        · rw [e]; exact hm
        · exact h4 j (by omega) hj2
      · rintro ⟨h1, h2, h3, h4⟩
        have hne : k ≠ d := by intro e; rw [e] at hm; exact hm h3
        exact ⟨by omega, by omega, h3, fun j hj1 hj2 => h4 j (by omega) hj2⟩

/-- the oracle is sound for every bound, and complete up to the bound -/
theorem naiveDists_iff (adj : Nat → List Nat) (s n w d : Nat) :
    (w, d) ∈ naiveDists adj s n ↔ IsDist adj s w d ∧ d ≤ n := by
  unfold naiveDists IsDist
  rw [List.mem_filterMap]
  constructor
  · rintro ⟨w', _, h⟩
    cases hf : firstLayer adj s w' n 1 with
    | none => rw [hf] at h; cases h
    | some d' =>
      rw [hf] at h
      simp at h
      obtain ⟨rfl, rfl⟩ := h
      obtain ⟨h1, h2, h3, h4⟩ := (firstLayer_iff adj s w' n 1 d').mp hf
      exact ⟨⟨h1, h3, fun k hk1 hk2 => h4 k hk1 hk2⟩, by omega⟩
  · rintro ⟨⟨h1, h2, h3⟩, hn⟩
    refine ⟨w, ?_, ?_⟩
    · unfold canon
      rw [mem_sofList, List.mem_flatMap]
      refine ⟨d - 1, List.mem_range.mpr (by omega), ?_⟩
      have : d - 1 + 1 = d := by omega
      rw [this]; exact (mem_layer adj s d w).mpr h2
    · have := (firstLayer_iff adj s w n 1 d).mpr ⟨h1, by omega, h2, fun j hj1 hj2 => h3 j hj1 hj2⟩
      rw [this]; rfl

theorem isDist_unique {adj : Nat → List Nat} {s w d d' : Nat} (h : IsDist adj s w d) (h' : IsDist adj s w d') : d = d' := by
  obtain ⟨a1, a2, a3⟩ := h
  obtain ⟨b1, b2, b3⟩ := h'
  rcases Nat.lt_trichotomy d d' with hlt | heq | hgt
  · exact absurd a2 (b3 d a1 hlt)
  · exact heq
  · exact absurd b2 (a3 d' b1 hgt)

/-- PIGEONHOLE via the BFS theorem: a shortest walk never has more steps than there are nodes -/
theorem isDist_le_nodes (adj : Nat → List Nat) (nodes : List Nat) (hadj : ∀ v w, w ∈ adj v → w ∈ nodes) (s w d : Nat)
    (h : IsDist adj s w d) : d ≤ nodes.length := by
  obtain ⟨ts, hts⟩ := Option.isSome_iff_exists.mp (bfsTree_total adj nodes hadj s)
  obtain ⟨hnodup, hreach, hdist⟩ := bfsTree_correct adj _ s ts hts
  -- every level 1..dist of a term is inhabited by a term
  have hlevel : ∀ (k : Nat) (t : Term), t ∈ ts → t.dist = k + 1 → ∀ j, j ≤ k → ∃ t' ∈ ts, t'.dist = j + 1 := by
    intro k
    induction k with
    | zero => intro t ht hd j hj; exact ⟨t, ht, by omega⟩
    | succ k ih =>
      intro t ht hd j hj
      by_cases e : j = k + 1
      · exact ⟨t, ht, by omega⟩
      · obtain ⟨h1, h2, h3⟩ := hdist t ht
        rw [hd] at h2 h3
        obtain ⟨u, hu, hwu⟩ := mem_walkEnds_succ.mp h2
        obtain ⟨tu, htu, htun⟩ := (hreach u).mpr ⟨k + 1, by omega, hu⟩
        obtain ⟨g1, g2, g3⟩ := hdist tu htu
        rw [htun] at g2 g3
        have hle : tu.dist ≤ k + 1 := by
          rcases Nat.lt_or_ge (k + 1) tu.dist with hlt | hge
          · exact absurd hu (g3 (k + 1) (by omega) hlt)
          · exact hge
        have hge : k + 1 ≤ tu.dist := by
          rcases Nat.lt_or_ge tu.dist (k + 1) with hlt | hge
          · have : t.node ∈ walkEnds adj s (tu.dist + 1) := mem_walkEnds_succ.mpr ⟨u, g2, hwu⟩
            exact absurd this (h3 (tu.dist + 1) (by omega) (by omega))
          · exact hge
        exact ih tu htu (by omega) j (by omega)
  obtain ⟨t, ht, htn⟩ := (hreach w).mpr ⟨d, h.1, h.2.1⟩
  have hd : t.dist = d := by
    have := hdist t ht
    rw [htn] at this
    exact isDist_unique this h
  obtain ⟨k, rfl⟩ : ∃ k, d = k + 1 := ⟨d - 1, by have := h.1; omega⟩
  have hsub : (List.range (k + 1)).map (· + 1) ⊆ ts.map (·.dist) := by
    intro x hx
    obtain ⟨j, hj, rfl⟩ := List.mem_map.mp hx
    obtain ⟨t', ht', hd'⟩ := hlevel k t ht hd j (by have := List.mem_range.mp hj; omega)
    exact List.mem_map.mpr ⟨t', ht', hd'⟩
  have hnd : ((List.range (k + 1)).map (· + 1)).Nodup := by
    unfold List.Nodup
    rw [List.pairwise_map]
    exact List.pairwise_lt_range.imp (fun h => by omega)
  have h1 := List.Nodup.length_le_of_subset hnd hsub
  have hsubn : ts.map (·.node) ⊆ nodes := by
    intro x hx
    obtain ⟨t', ht', rfl⟩ := List.mem_map.mp hx
    obtain ⟨g1, g2, _⟩ := hdist t' ht'
    obtain ⟨k', hk'⟩ : ∃ k', t'.dist = k' + 1 := ⟨t'.dist - 1, by omega⟩
    rw [hk'] at g2
    obtain ⟨u, _, hwu⟩ := mem_walkEnds_succ.mp g2
    exact hadj u _ hwu
  have h2 := List.Nodup.length_le_of_subset hnodup hsubn
  simp only [List.length_map, List.length_range] at h1 h2
  omega

/-- the naive oracle with a bound ≥ |nodes| is exactly the spec -/
theorem naiveDists_exact (adj : Nat → List Nat) (nodes : List Nat) (hadj : ∀ v w, w ∈ adj v → w ∈ nodes) (s n : Nat)
    (hn : nodes.length ≤ n) (w d : Nat) : (w, d) ∈ naiveDists adj s n ↔ IsDist adj s w d := by
  rw [naiveDists_iff]
  constructor
  · exact fun h => h.1
  · exact fun h => ⟨h, Nat.le_trans (isDist_le_nodes adj nodes hadj s w d h) hn⟩

theorem reachable_has_dist (adj : Nat → List Nat) (nodes : List Nat) (hadj : ∀ v w, w ∈ adj v → w ∈ nodes) (s w : Nat)
    (h : Reachable adj s w) : ∃ d, IsDist adj s w d := by
  obtain ⟨ts, hts⟩ := Option.isSome_iff_exists.mp (bfsTree_total adj nodes hadj s)
  obtain ⟨_, hreach, hdist⟩ := bfsTree_correct adj _ s ts hts
  obtain ⟨t, ht, rfl⟩ := (hreach w).mpr h
  exact ⟨t.dist, hdist t ht⟩

theorem naiveReach_exact (adj : Nat → List Nat) (nodes : List Nat) (hadj : ∀ v w, w ∈ adj v → w ∈ nodes) (s n : Nat)
    (hn : nodes.length ≤ n) (w : Nat) : w ∈ naiveReach adj s n ↔ Reachable adj s w := by
  unfold naiveReach
  rw [List.mem_map]
  constructor
  · rintro ⟨⟨w', d⟩, hm, rfl⟩
    have := (naiveDists_exact adj nodes hadj s n hn w' d).mp hm
    exact ⟨d, this.1, this.2.1⟩
  · intro h
    obtain ⟨d, hd⟩ := reachable_has_dist adj nodes hadj s w h
    exact ⟨(w, d), (naiveDists_exact adj nodes hadj s n hn w d).mpr hd, rfl⟩

/-! ### walks along an isomorphism given by a reverse index -/

theorem walkEnds_iso (adj adj' : Nat → List Nat) (rev : List Nat) (hn : rev.Nodup)
    (hiso : ∀ i v, rev[i]? = some v → ∀ j, j ∈ adj' i ↔ ∃ w, rev[j]? = some w ∧ w ∈ adj v)
    (hlisted : ∀ (v w : Nat), w ∈ adj v → ∃ j : Nat, rev[j]? = some w)
    (i v : Nat) (hi : rev[i]? = some v) :
    ∀ k j, j ∈ walkEnds adj' i k ↔ ∃ w, rev[j]? = some w ∧ w ∈ walkEnds adj v k := by
  intro k
  induction k with
  | zero =>
    intro j
    simp only [walkEnds_zero, List.mem_singleton]
    constructor
    · rintro rfl; exact ⟨v, hi, rfl⟩
    · rintro ⟨w, hj, rfl⟩; exact nodup_getElem?_inj hn hj hi
  | succ k ih =>
    intro j
    rw [mem_walkEnds_succ]
    constructor
    · rintro ⟨u', hu', hj⟩
      obtain ⟨u, hru, hu⟩ := (ih u').mp hu'
      obtain ⟨w, hrw, hw⟩ := (hiso u' u hru j).mp hj
      exact ⟨w, hrw, mem_walkEnds_succ.mpr ⟨u, hu, hw⟩⟩
    · rintro ⟨w, hrw, hw⟩
      obtain ⟨u, hu, hwu⟩ := mem_walkEnds_succ.mp hw
      have hulisted : ∃ u' : Nat, rev[u']? = some u := by
        cases k with
        | zero => simp [walkEnds_zero] at hu; subst hu; exact ⟨i, hi⟩
        | succ k' =>
          obtain ⟨x, _, hux⟩ := mem_walkEnds_succ.mp hu
          exact hlisted x u hux
      obtain ⟨u', hu'⟩ := hulisted
      exact ⟨u', (ih u').mpr ⟨u, hu', hu⟩, (hiso u' u hu' j).mpr ⟨w, hrw, hwu⟩⟩

/-- reachability and shortest distances are preserved along the isomorphism -/
theorem isDist_iso (adj adj' : Nat → List Nat) (rev : List Nat) (hn : rev.Nodup)
    (hiso : ∀ i v, rev[i]? = some v → ∀ j, j ∈ adj' i ↔ ∃ w, rev[j]? = some w ∧ w ∈ adj v)
    (hlisted : ∀ (v w : Nat), w ∈ adj v → ∃ j : Nat, rev[j]? = some w)
    (i v j w : Nat) (hi : rev[i]? = some v) (hj : rev[j]? = some w) :
    (Reachable adj' i j ↔ Reachable adj v w) ∧ ∀ d, IsDist adj' i j d ↔ IsDist adj v w d := by
  have key : ∀ k, j ∈ walkEnds adj' i k ↔ w ∈ walkEnds adj v k := by
    intro k
    rw [walkEnds_iso adj adj' rev hn hiso hlisted i v hi k j]
    constructor
    · rintro ⟨w', hw', h⟩; rw [hj] at hw'; cases hw'; exact h
    · intro h; exact ⟨w, hj, h⟩
  constructor
  · unfold Reachable
    constructor
    · rintro ⟨k, hk, h⟩; exact ⟨k, hk, (key k).mp h⟩
    · rintro ⟨k, hk, h⟩; exact ⟨k, hk, (key k).mpr h⟩
  · intro d
    unfold IsDist
    constructor
    · rintro ⟨h1, h2, h3⟩; exact ⟨h1, (key d).mp h2, fun k a b c => h3 k a b ((key k).mpr c)⟩
    · rintro ⟨h1, h2, h3⟩; exact ⟨h1, (key d).mpr h2, fun k a b c => h3 k a b ((key k).mp c)⟩

end Dawgs.C14
