import Dawgs.Proofs.C01
/-! C01 / S1: the SQL lowering of every S1 predicate evaluates, on the row of graph node `n`, to `sem n p` (whenever it evaluates at all). -/
namespace Dawgs.C01.Proofs
open Dawgs Dawgs.Sql

macro "cast_tac" : tactic => `(tactic| (rw [castVal] <;> first | rfl | (intro _ hh; cases hh) | (intro hh; cases hh)))
theorem castVal_int8_int (i : Int) : castVal "int8" (.int i) = .ok (.int i) := by cast_tac
theorem castVal_jsonb_jsonb (j : Json) : castVal "jsonb" (.jsonb j) = .ok (.jsonb j) := by cast_tac
theorem castVal_null (ty : String) : castVal ty .null = .ok .null := by rw [castVal]
theorem castVal_empty (v : Val) : castVal "" v = .ok v := by
  cases v <;> first | rfl | cast_tac
theorem castVal_jsonb_textnull : castVal "jsonb" (.text "null") = .ok (.jsonb .null) := by cast_tac

theorem strCmp_eq (a b : String) : (strCmp a b == .eq) = (a == b) := by
  unfold strCmp
  by_cases h : a = b
  · subst h; simp
  · have hb : (a == b) = false := by simpa using h
    simp only [hb, Bool.false_eq_true, if_false]
    by_cases hl : a < b <;> simp [hl]

theorem eval_arrowText (km : KindMap) (n : NodeRec) (E : EEnv) (k : String) :
    evalExpr (E.push (nodeLvl km n)) (.bin "->>" (S1.innerCol "properties") (S1.strLit k)) =
      (match Json.lookup k n.props with
       | none => .ok .null
       | some .null => .ok .null
       | some j => match jsonScalarText j with
         | some s => .ok (.text s)
         | none => .error (.unmodelled "->>-of-container")) := by
  rw [eval_bin _ _ _ _ (by decide) (strLit_not_any k).1 (strLit_not_any k).2]
  simp only [(eval_innerCol km n E).2.2, eval_strLit, ebind_ok]
  unfold binOp
  simp only [arrowTextOp, jsonGetText, jsonGet]
  cases h : Json.lookup k n.props with
  | none => rfl
  | some j => cases j <;> rfl

theorem eval_typeof (km : KindMap) (n : NodeRec) (E : EEnv) (k : String) :
    evalExpr (E.push (nodeLvl km n)) (.call "jsonb_typeof" [.bin "->" (S1.innerCol "properties") (S1.strLit k)] false false "") =
      .ok (match Json.lookup k n.props with | some j => .text j.typeName | none => .null) := by
  rw [evalExpr]
  have h1 : isAggFn "jsonb_typeof" = false := by decide
  have h2 : ("jsonb_typeof" == "coalesce") = false := by decide
  simp only [h1, h2, Bool.false_eq_true, if_false, evalExprs, eval_arrow, ebind_ok, epure_ok]
  cases h : Json.lookup k n.props with
  | none => unfold applyFn; simp only [fnJsonbTypeof, ebind_ok, castVal_empty]
  | some j => unfold applyFn; simp only [fnJsonbTypeof, ebind_ok, castVal_empty]

-- ------------------------------------------------------------------ AND / OR / NOT with absorbed run-time errors

open Dawgs.Cy in
theorem vAnd_tri (a b : Cy.Tri) : vAnd (triVal a) (triVal b) = .ok (triVal (triAnd a b)) := by
  cases a with
  | none => cases b with
    | none => rfl
    | some y => cases y <;> rfl
  | some x => cases b with
    | none => cases x <;> rfl
    | some y => cases x <;> cases y <;> rfl

open Dawgs.Cy in
theorem vOr_tri (a b : Cy.Tri) : vOr (triVal a) (triVal b) = .ok (triVal (triOr a b)) := by
  cases a with
  | none => cases b with
    | none => rfl
    | some y => cases y <;> rfl
  | some x => cases b with
    | none => cases x <;> rfl
    | some y => cases x <;> cases y <;> rfl

open Dawgs.Cy in
theorem vNot_tri (a : Cy.Tri) : vNot (triVal a) = .ok (triVal (triNot a)) := by
  cases a with
  | none => rfl
  | some x => cases x <;> rfl

theorem triVal_false {t : Cy.Tri} (h : triVal t = .bool false) : t = some false := by
  cases t with
  | none => cases h
  | some b => cases b with
    | false => rfl
    | true => cases h

theorem triVal_true {t : Cy.Tri} (h : triVal t = .bool true) : t = some true := by
  cases t with
  | none => cases h
  | some b => cases b with
    | true => rfl
    | false => cases h

open Dawgs.Cy in
theorem triAnd_false_right (t : Cy.Tri) : triAnd t (some false) = some false := by
  cases t with
  | none => rfl
  | some b => cases b <;> rfl

open Dawgs.Cy in
theorem triOr_true_right (t : Cy.Tri) : triOr t (some true) = some true := by
  cases t with
  | none => rfl
  | some b => cases b <;> rfl

/-- AND of two lowered predicates: whenever the SQL evaluates, it yields the three-valued conjunction -/
theorem and_corr (E : EEnv) (l r : Expr) (tl tr : Cy.Tri)
    (hl : ∀ v, evalExpr E l = .ok v → v = triVal tl) (hr : ∀ v, evalExpr E r = .ok v → v = triVal tr)
    (hr1 : ∀ arr, r ≠ .anyOf arr) (hr2 : ∀ arr, r ≠ .allOf arr)
    (v : Val) (h : evalExpr E (.bin "and" l r) = .ok v) : v = triVal (Cy.triAnd tl tr) := by
  rw [evalExpr] at h
  case x_1 => intro arr hh; exact hr1 arr hh
  case x_2 => intro arr hh; exact hr2 arr hh
  have h2 : ("and" == "and") = true := by decide
  simp only [if_true, h2] at h
  cases hel : evalExpr E l with
  | ok a =>
    have ha := hl a hel
    cases her : evalExpr E r with
    | ok b =>
      have hb := hr b her
      simp only [hel, her] at h
      rw [ha, hb, vAnd_tri] at h
      cases h; rfl
    | error e =>
      simp only [hel, her] at h
      cases e with
      | runtime m =>
        simp only at h
        subst ha
        cases tl with
        | none => cases h
        | some x => cases x with
          | false => cases h; rfl
          | true => cases h
      | unmodelled w => cases h
      | typing w => cases h
      | name w => cases h
  | error e =>
    cases her : evalExpr E r with
    | ok b =>
      have hb := hr b her
      simp only [hel, her] at h
      cases e with
      | runtime m =>
        simp only at h
        subst hb
        cases tr with
        | none => cases h
        | some x => cases x with
          | false => cases h; rw [triAnd_false_right]; rfl
          | true => cases h
      | unmodelled w => cases h
      | typing w => cases h
      | name w => cases h
    | error e' =>
      simp only [hel, her] at h
      cases e <;> cases e' <;> cases h

theorem or_corr (E : EEnv) (l r : Expr) (tl tr : Cy.Tri)
    (hl : ∀ v, evalExpr E l = .ok v → v = triVal tl) (hr : ∀ v, evalExpr E r = .ok v → v = triVal tr)
    (hr1 : ∀ arr, r ≠ .anyOf arr) (hr2 : ∀ arr, r ≠ .allOf arr)
    (v : Val) (h : evalExpr E (.bin "or" l r) = .ok v) : v = triVal (Cy.triOr tl tr) := by
  rw [evalExpr] at h
  case x_1 => intro arr hh; exact hr1 arr hh
  case x_2 => intro arr hh; exact hr2 arr hh
  have h1 : ("or" == "and" || "or" == "or") = true := by decide
  have h2 : ("or" == "and") = false := by decide
  simp only [h1, if_true, h2, Bool.false_eq_true, if_false] at h
  cases hel : evalExpr E l with
  | ok a =>
    have ha := hl a hel
    cases her : evalExpr E r with
    | ok b =>
      have hb := hr b her
      simp only [hel, her] at h
      rw [ha, hb, vOr_tri] at h
      cases h; rfl
    | error e =>
      simp only [hel, her] at h
      cases e with
      | runtime m =>
        simp only at h
        subst ha
        cases tl with
        | none => cases h
        | some x => cases x with
          | true => cases h; rfl
          | false => cases h
      | unmodelled w => cases h
      | typing w => cases h
      | name w => cases h
  | error e =>
    cases her : evalExpr E r with
    | ok b =>
      have hb := hr b her
      simp only [hel, her] at h
      cases e with
      | runtime m =>
        simp only at h
        subst hb
        cases tr with
        | none => cases h
        | some x => cases x with
          | true => cases h; rw [triOr_true_right]; rfl
          | false => cases h
      | unmodelled w => cases h
      | typing w => cases h
      | name w => cases h
    | error e' =>
      simp only [hel, her] at h
      cases e <;> cases e' <;> cases h

theorem not_corr (E : EEnv) (e : Expr) (t : Cy.Tri) (he : ∀ v, evalExpr E e = .ok v → v = triVal t)
    (v : Val) (h : evalExpr E (.un "not" e) = .ok v) : v = triVal (Cy.triNot t) := by
  rw [evalExpr] at h
  obtain ⟨a, ha, h⟩ := ebind_eq_ok h
  have := he a ha
  subst this
  simp only at h
  rw [vNot_tri] at h
  cases h; rfl

theorem paren_corr (E : EEnv) (e : Expr) (t : Cy.Tri) (he : ∀ v, evalExpr E e = .ok v → v = triVal t)
    (v : Val) (h : evalExpr E (.paren e) = .ok v) : v = triVal t := by
  rw [evalExpr] at h
  exact he v h

-- ------------------------------------------------------------------ atoms

theorem binOp_eq (a b : Val) : binOp "=" a b = vCompare "=" a b := by unfold binOp; rfl
theorem binOp_ne (a b : Val) : binOp "<>" a b = vCompare "<>" a b := by unfold binOp; rfl

theorem vCompare_text_eq (a b : String) : vCompare "=" (.text a) (.text b) = .ok (.bool (a == b)) := by
  simp only [vCompare, valCmp, relOp, strCmp_eq]

theorem eval_typeofEq (km : KindMap) (n : NodeRec) (E : EEnv) (k : String) :
    evalExpr (E.push (nodeLvl km n))
      (.bin "=" (.call "jsonb_typeof" [.bin "->" (S1.innerCol "properties") (S1.strLit k)] false false "") (S1.strLit "string")) =
      .ok (match Json.lookup k n.props with | some j => .bool (j.typeName == "string") | none => .null) := by
  rw [eval_bin _ _ _ _ (by decide) (strLit_not_any _).1 (strLit_not_any _).2]
  simp only [eval_typeof, eval_strLit, ebind_ok, binOp_eq]
  cases Json.lookup k n.props with
  | none => rfl
  | some j => simp only [vCompare_text_eq]

theorem eval_textEq (km : KindMap) (n : NodeRec) (E : EEnv) (k s : String) :
    evalExpr (E.push (nodeLvl km n)) (.bin "=" (.bin "->>" (S1.innerCol "properties") (S1.strLit k)) (S1.strLit s)) =
      (match Json.lookup k n.props with
       | none => .ok .null
       | some .null => .ok .null
       | some j => match jsonScalarText j with
         | some t => .ok (.bool (t == s))
         | none => .error (.unmodelled "->>-of-container")) := by
  rw [eval_bin _ _ _ _ (by decide) (strLit_not_any _).1 (strLit_not_any _).2]
  simp only [eval_arrowText, eval_strLit]
  cases Json.lookup k n.props with
  | none => rfl
  | some j =>
    cases j with
    | null => rfl
    | str t => simp only [jsonScalarText, ebind_ok, binOp_eq, vCompare_text_eq]
    | num d => simp only [jsonScalarText, ebind_ok, binOp_eq, vCompare_text_eq]
    | bool b => simp only [jsonScalarText, ebind_ok, binOp_eq, vCompare_text_eq]
    | arr xs => rfl
    | obj kvs => rfl

theorem bin_not_any (op : String) (l r : Expr) : (∀ arr, Expr.bin op l r ≠ .anyOf arr) ∧ (∀ arr, Expr.bin op l r ≠ .allOf arr) := by
  constructor <;> (intro arr hh; cases hh)

/-- `string_eq_guard`: `jsonb_typeof(p -> k) = 'string' and (p ->> k) = s` is Cypher's `n.k = 's'` — true exactly for a string-valued
property equal to s, false for every other stored value (numbers rendered as the same text do NOT match), null when the property is missing -/
theorem string_eq_guard (km : KindMap) (n : NodeRec) (E : EEnv) (k s : String) (hnn : Json.lookup k n.props ≠ some .null)
    (v : Val) (e : Expr) (he : S1.Pred.tr km (.propEqStr k s) = some e) (h : evalExpr (E.push (nodeLvl km n)) e = .ok v) :
    v = triVal (sem n (.propEqStr k s)) := by
  simp only [S1.Pred.tr, Option.some.injEq] at he
  subst he
  apply paren_corr _ _ _ _ v h
  intro v hv
  simp only [sem, propC]
  cases hl : Json.lookup k n.props with
  | none =>
    have hh := and_corr _ _ _ none none ?_ ?_ (bin_not_any ..).1 (bin_not_any ..).2 v hv
    · rw [hh]; rfl
    · intro w hw; rw [eval_typeofEq, hl] at hw; cases hw; rfl
    · intro w hw; rw [eval_textEq, hl] at hw; cases hw; rfl
  | some j =>
    cases j with
    | null => exact absurd hl hnn
    | str t =>
      have hh := and_corr _ _ _ (some true) (some (t == s)) ?_ ?_ (bin_not_any ..).1 (bin_not_any ..).2 v hv
      · rw [hh]; simp only [Option.map, Option.getD, Cy.jsonToC, Cy.cEq]; cases (t == s) <;> rfl
      · intro w hw; rw [eval_typeofEq, hl] at hw; cases hw; rfl
      · intro w hw; rw [eval_textEq, hl] at hw; cases hw; rfl
    | num d =>
      have hh := and_corr _ _ _ (some false) (some (d.toText == s)) ?_ ?_ (bin_not_any ..).1 (bin_not_any ..).2 v hv
      · rw [hh]; rfl
      · intro w hw; rw [eval_typeofEq, hl] at hw; cases hw; rfl
      · intro w hw; rw [eval_textEq, hl] at hw; cases hw; rfl
    | bool b =>
      have hh := and_corr _ _ _ (some false) (some ((if b then "true" else "false") == s)) ?_ ?_ (bin_not_any ..).1 (bin_not_any ..).2 v hv
      · rw [hh]; rfl
      · intro w hw; rw [eval_typeofEq, hl] at hw; cases hw; rfl
      · intro w hw; rw [eval_textEq, hl] at hw; cases hw; rfl
    | arr xs =>
      have hh := and_corr _ _ _ (some false) none ?_ ?_ (bin_not_any ..).1 (bin_not_any ..).2 v hv
      · rw [hh]; rfl
      · intro w hw; rw [eval_typeofEq, hl] at hw; cases hw; rfl
      · intro w hw; rw [eval_textEq, hl] at hw; cases hw
    | obj kvs =>
      have hh := and_corr _ _ _ (some false) none ?_ ?_ (bin_not_any ..).1 (bin_not_any ..).2 v hv
      · rw [hh]; rfl
      · intro w hw; rw [eval_typeofEq, hl] at hw; cases hw; rfl
      · intro w hw; rw [eval_textEq, hl] at hw; cases hw

theorem jsonCmp_num (j : Json) (d' : Dec) :
    jsonCmp j (.num d') = (match j with
      | .num d => some (Dec.cmp d d')
      | .null => some .lt | .str _ => some .lt | .bool _ => some .gt | .arr _ => some .gt | .obj _ => some .gt) := by
  unfold jsonCmp
  cases j <;> simp [Json.canon, jsonCmpC, jsonRank] <;> rfl

theorem eval_toJsonbInt (E : EEnv) (i : Int) :
    evalExpr E (.call "to_jsonb" [.cast (S1.intLit i) "int8"] false false "jsonb") = .ok (.jsonb (.num (Dec.ofInt i))) := by
  rw [evalExpr]
  have h1 : isAggFn "to_jsonb" = false := by decide
  have h2 : ("to_jsonb" == "coalesce") = false := by decide
  simp only [h1, h2, Bool.false_eq_true, if_false, evalExprs]
  rw [evalExpr]
  simp only [eval_intLit, ebind_ok, epure_ok, castVal_int8_int]
  unfold applyFn
  simp only [fnToJsonb, toJsonb, ebind_ok, epure_ok, castVal_jsonb_jsonb]

theorem eval_propJsonb (km : KindMap) (n : NodeRec) (E : EEnv) (k : String) :
    evalExpr (E.push (nodeLvl km n)) (.cast (.bin "->" (S1.innerCol "properties") (S1.strLit k)) "jsonb") =
      .ok (match Json.lookup k n.props with | some j => .jsonb j | none => .null) := by
  rw [evalExpr, eval_arrow]
  cases Json.lookup k n.props with
  | none => simp only [ebind_ok, castVal_null]
  | some j => simp only [ebind_ok, castVal_jsonb_jsonb]

theorem call_not_any (fn : String) (args : List Expr) (d b : Bool) (ty : String) :
    (∀ arr, Expr.call fn args d b ty ≠ .anyOf arr) ∧ (∀ arr, Expr.call fn args d b ty ≠ .allOf arr) := by
  constructor <;> (intro arr hh; cases hh)

theorem sql_propEqInt (km : KindMap) (n : NodeRec) (E : EEnv) (neg : Bool) (k : String) (i : Int) (hnn : Json.lookup k n.props ≠ some .null)
    (v : Val) (e : Expr) (he : S1.Pred.tr km (.propEqInt neg k i) = some e) (h : evalExpr (E.push (nodeLvl km n)) e = .ok v) :
    v = triVal (sem n (.propEqInt neg k i)) := by
  simp only [S1.Pred.tr, Option.some.injEq] at he
  subst he
  simp only [sem, propC]
  cases neg with
  | false =>
    simp only [Bool.false_eq_true, if_false] at h ⊢
    rw [eval_bin _ _ _ _ (by decide) (call_not_any ..).1 (call_not_any ..).2, eval_propJsonb, eval_toJsonbInt] at h
    simp only [ebind_ok, binOp_eq] at h
    cases hl : Json.lookup k n.props with
    | none => rw [hl] at h; cases h; rfl
    | some j =>
      rw [hl] at h
      simp only [vCompare, valCmp, jsonCmp_num] at h
      cases j <;> first | (exact absurd hl hnn) | (cases h; rfl)
  | true =>
    simp only [if_true] at h ⊢
    rw [eval_bin _ _ _ _ (by decide) (call_not_any ..).1 (call_not_any ..).2, eval_propJsonb, eval_toJsonbInt] at h
    simp only [ebind_ok, binOp_ne] at h
    cases hl : Json.lookup k n.props with
    | none => rw [hl] at h; cases h; rfl
    | some j =>
      rw [hl] at h
      simp only [vCompare, valCmp, jsonCmp_num] at h
      cases j <;> first | (exact absurd hl hnn) | (cases h; rfl)

theorem intCmp_eq (a b : Int) : (intCmp a b == .eq) = (a == b) := by
  unfold intCmp
  by_cases h : a = b
  · subst h; simp
  · have hb : (a == b) = false := by simpa using h
    simp only [hb, Bool.false_eq_true, if_false]
    by_cases hl : a < b <;> simp [hl]

theorem cast_not_any (e : Expr) (ty : String) : (∀ arr, Expr.cast e ty ≠ .anyOf arr) ∧ (∀ arr, Expr.cast e ty ≠ .allOf arr) := by
  constructor <;> (intro arr hh; cases hh)

theorem eval_jsonNull (E : EEnv) : evalExpr E S1.jsonNull = .ok (.jsonb .null) := by
  unfold S1.jsonNull
  rw [evalExpr, evalExpr]
  simp only [litVal, ebind_ok, castVal_jsonb_textnull]

theorem eval_hasKey (km : KindMap) (n : NodeRec) (E : EEnv) (k : String) :
    evalExpr (E.push (nodeLvl km n)) (.bin "?" (S1.innerCol "properties") (S1.strLit k)) = .ok (.bool (Json.lookup k n.props).isSome) := by
  rw [eval_bin _ _ _ _ (by decide) (strLit_not_any k).1 (strLit_not_any k).2]
  simp only [(eval_innerCol km n E).2.2, eval_strLit, ebind_ok]
  unfold binOp
  rfl

theorem eval_isJsonNull (km : KindMap) (n : NodeRec) (E : EEnv) (k : String) (hnn : Json.lookup k n.props ≠ some .null) :
    evalExpr (E.push (nodeLvl km n)) (.bin "=" (.bin "->" (S1.innerCol "properties") (S1.strLit k)) S1.jsonNull) =
      .ok (match Json.lookup k n.props with | some _ => .bool false | none => .null) := by
  rw [eval_bin _ _ _ _ (by decide) (by unfold S1.jsonNull; exact (cast_not_any ..).1) (by unfold S1.jsonNull; exact (cast_not_any ..).2)]
  simp only [eval_arrow, eval_jsonNull, ebind_ok, binOp_eq]
  cases hl : Json.lookup k n.props with
  | none => rfl
  | some j =>
    cases j with
    | null => exact absurd hl hnn
    | str s => rfl
    | num d => rfl
    | bool b => rfl
    | arr xs => rfl
    | obj kvs => rfl

theorem un_not_any (op : String) (e : Expr) : (∀ arr, Expr.un op e ≠ .anyOf arr) ∧ (∀ arr, Expr.un op e ≠ .allOf arr) := by
  constructor <;> (intro arr hh; cases hh)

theorem jsonToC_ne_null (j : Json) (h : j ≠ .null) : Cy.jsonToC j ≠ .null := by
  cases j <;> simp_all [Cy.jsonToC]

theorem sql_propIsNull (km : KindMap) (n : NodeRec) (E : EEnv) (k : String) (hnn : Json.lookup k n.props ≠ some .null)
    (v : Val) (e : Expr) (he : S1.Pred.tr km (.propIsNull k) = some e) (h : evalExpr (E.push (nodeLvl km n)) e = .ok v) :
    v = triVal (sem n (.propIsNull k)) := by
  simp only [S1.Pred.tr, Option.some.injEq] at he
  subst he
  apply paren_corr _ _ _ _ v h
  intro v hv
  simp only [sem, propC]
  cases hl : Json.lookup k n.props with
  | none =>
    have hh := or_corr _ _ _ (some true) none ?_ ?_ (bin_not_any ..).1 (bin_not_any ..).2 v hv
    · rw [hh]; rfl
    · intro w hw
      have := not_corr _ _ (some false) (by intro u hu; rw [eval_hasKey, hl] at hu; cases hu; rfl) w hw
      exact this
    · intro w hw; rw [eval_isJsonNull km n E k hnn, hl] at hw; cases hw; rfl
  | some j =>
    have hj : j ≠ .null := by intro hh; subst hh; exact hnn hl
    have hh := or_corr _ _ _ (some false) (some false) ?_ ?_ (bin_not_any ..).1 (bin_not_any ..).2 v hv
    · rw [hh]
      have := jsonToC_ne_null j hj
      simp only [Option.map, Option.getD]
      cases hc : Cy.jsonToC j <;> first | (exact absurd hc this) | rfl
    · intro w hw
      have := not_corr _ _ (some true) (by intro u hu; rw [eval_hasKey, hl] at hu; cases hu; rfl) w hw
      exact this
    · intro w hw; rw [eval_isJsonNull km n E k hnn, hl] at hw; cases hw; rfl

theorem sql_propNotNull (km : KindMap) (n : NodeRec) (E : EEnv) (k : String) (hnn : Json.lookup k n.props ≠ some .null)
    (v : Val) (e : Expr) (he : S1.Pred.tr km (.propNotNull k) = some e) (h : evalExpr (E.push (nodeLvl km n)) e = .ok v) :
    v = triVal (sem n (.propNotNull k)) := by
  simp only [S1.Pred.tr, Option.some.injEq] at he
  subst he
  apply paren_corr _ _ _ _ v h
  intro v hv
  simp only [sem, propC]
  cases hl : Json.lookup k n.props with
  | none =>
    have hh := and_corr _ _ _ (some false) none ?_ ?_ (un_not_any ..).1 (un_not_any ..).2 v hv
    · rw [hh]; rfl
    · intro w hw; rw [eval_hasKey, hl] at hw; cases hw; rfl
    · intro w hw
      exact not_corr _ _ none (by intro u hu; rw [eval_isJsonNull km n E k hnn, hl] at hu; cases hu; rfl) w hw
  | some j =>
    have hj : j ≠ .null := by intro hh; subst hh; exact hnn hl
    have hh := and_corr _ _ _ (some true) (some true) ?_ ?_ (un_not_any ..).1 (un_not_any ..).2 v hv
    · rw [hh]
      have := jsonToC_ne_null j hj
      simp only [Option.map, Option.getD]
      cases hc : Cy.jsonToC j <;> first | (exact absurd hc this) | rfl
    · intro w hw; rw [eval_hasKey, hl] at hw; cases hw; rfl
    · intro w hw
      exact not_corr _ _ (some false) (by intro u hu; rw [eval_isJsonNull km n E k hnn, hl] at hu; cases hu; rfl) w hw

theorem binOp_cmp (op : Cmp) (a b : Val) : binOp op.sql a b = vCompare op.sql a b := by
  cases op <;> (unfold binOp; rfl)

theorem sql_idCmp (km : KindMap) (n : NodeRec) (E : EEnv) (op : Cmp) (i : Int)
    (v : Val) (e : Expr) (he : S1.Pred.tr km (.idCmp op i) = some e) (h : evalExpr (E.push (nodeLvl km n)) e = .ok v) :
    v = triVal (sem n (.idCmp op i)) := by
  simp only [S1.Pred.tr, Option.some.injEq] at he
  subst he
  rw [eval_bin _ _ _ _ (by cases op <;> decide) (intLit_not_any i).1 (intLit_not_any i).2] at h
  simp only [(eval_innerCol km n E).1, eval_intLit, ebind_ok, binOp_cmp] at h
  simp only [sem]
  cases op <;> simp only [vCompare, valCmp, Cmp.sql, Cmp.cy, relOp] at h <;> cases h <;>
    simp only [relT, Cy.cEq, Cy.cCmp, Cy.triNot, Option.map, triVal, intCmp_eq, bne]

-- ------------------------------------------------------------------ kinds

theorem intCmp_eq_iff (a b : Int) : (intCmp a b == .eq) = true ↔ a = b := by
  rw [intCmp_eq]; simp

theorem kindIdsOf_cons (km : KindMap) (k : String) (ks : List String) :
    kindIdsOf km (k :: ks) = (match km.id? k with | none => kindIdsOf km ks | some id => Val.int (Int.ofNat id) :: kindIdsOf km ks) := by
  unfold kindIdsOf
  rw [List.filterMap_cons]
  cases km.id? k <;> rfl

/-- membership of a kind id in the encoded `kind_ids` array = membership of the kind name in the node's kinds (injective kind map) -/
theorem arrHas_kindIds (km : KindMap) (hinj : ∀ a b i, km.id? a = some i → km.id? b = some i → a = b)
    (kinds : List String) (k : String) (id : Nat) (hk : km.id? k = some id) :
    arrHas (kindIdsOf km kinds) (.int (Int.ofNat id)) = kinds.contains k := by
  induction kinds with
  | nil => rfl
  | cons k' ks ih =>
    rw [kindIdsOf_cons]
    cases hk' : km.id? k' with
    | none =>
      simp only
      rw [ih]
      have hne' : (k == k') = false := by
        cases hkk : k == k' with
        | false => rfl
        | true => have := eq_of_beq hkk; subst this; rw [hk] at hk'; cases hk'
      rw [List.contains_cons, hne', Bool.false_or]
    | some id' =>
      simp only
      unfold arrHas at ih ⊢
      rw [List.any_cons, ih, List.contains_cons]
      congr 1
      simp only [valCmp]
      by_cases hkk : k = k'
      · subst hkk
        rw [hk] at hk'; cases hk'
        simp [intCmp]
      · have h1 : (k == k') = false := by simpa using hkk
        rw [h1]
        have : id' ≠ id := by
          intro hh; subst hh
          exact hkk (hinj k k' id' hk hk')
        have h2 : ((id' : Int) == (id : Int)) = false := by
          have : (id' : Int) ≠ (id : Int) := fun hh => this (Int.ofNat.inj hh)
          simpa using this
        simp only [intCmp, Int.ofNat_eq_natCast, h2, Bool.false_eq_true, if_false]
        by_cases hl : (id' : Int) < (id : Int) <;> simp [hl]

/-- `kind_match_encode`: on an encoded node, `kind_ids @> ARRAY[ids of ks]` is true exactly when the node carries every kind in ks -/
theorem kind_match_encode (km : KindMap) (hinj : ∀ a b i, km.id? a = some i → km.id? b = some i → a = b)
    (kinds : List String) : ∀ (ks : List String) (ids : List Nat), ks.mapM km.id? = some ids →
    (ids.map (fun i => Val.int (Int.ofNat i))).all (arrHas (kindIdsOf km kinds)) = Cy.kindsAllOf kinds ks
  | [], ids, h => by
    simp only [List.mapM_nil] at h
    cases h; rfl
  | k :: ks, ids, h => by
    rw [List.mapM_cons] at h
    cases hk : km.id? k with
    | none => rw [hk] at h; cases h
    | some id =>
      rw [hk] at h
      cases hks : ks.mapM km.id? with
      | none => rw [hks] at h; cases h
      | some ids' =>
        rw [hks] at h
        cases h
        have ih := kind_match_encode km hinj kinds ks ids' hks
        unfold Cy.kindsAllOf at ih ⊢
        rw [List.map_cons, List.all_cons, List.all_cons, ih, arrHas_kindIds km hinj kinds k id hk]

theorem lit_not_any (l : Lit) (ty : String) : (∀ arr, Expr.lit l ty ≠ .anyOf arr) ∧ (∀ arr, Expr.lit l ty ≠ .allOf arr) := by
  constructor <;> (intro arr hh; cases hh)

theorem sql_kinds (km : KindMap) (hinj : ∀ a b i, km.id? a = some i → km.id? b = some i → a = b) (n : NodeRec) (E : EEnv) (ks : List String)
    (v : Val) (e : Expr) (he : S1.Pred.tr km (.kinds ks) = some e) (h : evalExpr (E.push (nodeLvl km n)) e = .ok v) :
    v = triVal (sem n (.kinds ks)) := by
  simp only [S1.Pred.tr] at he
  cases hm : ks.mapM km.id? with
  | none => rw [hm] at he; cases he
  | some ids =>
    rw [hm] at he
    cases he
    rw [eval_bin _ _ _ _ (by decide) (lit_not_any ..).1 (lit_not_any ..).2] at h
    rw [evalExpr.eq_def (E.push (nodeLvl km n)) (.lit ..)] at h
    simp only [(eval_innerCol km n E).2.1, litVal, ebind_ok] at h
    unfold binOp at h
    simp only [containsOp, List.map_map] at h
    cases h
    simp only [sem, triVal]
    congr 1
    exact kind_match_encode km hinj n.kinds ks ids hm

-- ------------------------------------------------------------------ total form: every lowered predicate evaluates to the three-valued
-- meaning, or the MODEL stops with `unmodelled` (only `->>` of an array / object valued property); never a run-time or type error

def Benign (r : EM Val) (t : Cy.Tri) : Prop := r = .ok (triVal t) ∨ ∃ w, r = .error (.unmodelled w)

theorem and_ben (E : EEnv) (l r : Expr) (tl tr : Cy.Tri) (hl : Benign (evalExpr E l) tl) (hr : Benign (evalExpr E r) tr)
    (hr1 : ∀ arr, r ≠ .anyOf arr) (hr2 : ∀ arr, r ≠ .allOf arr) : Benign (evalExpr E (.bin "and" l r)) (Cy.triAnd tl tr) := by
  unfold Benign
  rw [evalExpr]
  case x_1 => intro arr hh; exact hr1 arr hh
  case x_2 => intro arr hh; exact hr2 arr hh
  have h2 : ("and" == "and") = true := by decide
  simp only [if_true, h2]
  rcases hl with hl | ⟨w, hl⟩ <;> rcases hr with hr | ⟨w', hr⟩ <;> simp only [hl, hr]
  · left; exact vAnd_tri tl tr
  · right; exact ⟨w', rfl⟩
  · right; exact ⟨w, rfl⟩
  · right; exact ⟨w, rfl⟩

theorem or_ben (E : EEnv) (l r : Expr) (tl tr : Cy.Tri) (hl : Benign (evalExpr E l) tl) (hr : Benign (evalExpr E r) tr)
    (hr1 : ∀ arr, r ≠ .anyOf arr) (hr2 : ∀ arr, r ≠ .allOf arr) : Benign (evalExpr E (.bin "or" l r)) (Cy.triOr tl tr) := by
  unfold Benign
  rw [evalExpr]
  case x_1 => intro arr hh; exact hr1 arr hh
  case x_2 => intro arr hh; exact hr2 arr hh
  have h1 : ("or" == "and" || "or" == "or") = true := by decide
  have h2 : ("or" == "and") = false := by decide
  simp only [h1, if_true, h2, Bool.false_eq_true, if_false]
  rcases hl with hl | ⟨w, hl⟩ <;> rcases hr with hr | ⟨w', hr⟩ <;> simp only [hl, hr]
  · left; exact vOr_tri tl tr
  · right; exact ⟨w', rfl⟩
  · right; exact ⟨w, rfl⟩
  · right; exact ⟨w, rfl⟩

theorem not_ben (E : EEnv) (e : Expr) (t : Cy.Tri) (he : Benign (evalExpr E e) t) : Benign (evalExpr E (.un "not" e)) (Cy.triNot t) := by
  unfold Benign
  rw [evalExpr]
  rcases he with he | ⟨w, he⟩ <;> simp only [he]
  · left; simp only [ebind_ok]; exact vNot_tri t
  · right; exact ⟨w, rfl⟩

theorem paren_ben (E : EEnv) (e : Expr) (t : Cy.Tri) (he : Benign (evalExpr E e) t) : Benign (evalExpr E (.paren e)) t := by
  unfold Benign
  rw [evalExpr]
  exact he

theorem ben_ok {r : EM Val} {t : Cy.Tri} (h : r = .ok (triVal t)) : Benign r t := Or.inl h

end Dawgs.C01.Proofs
