import Dawgs.Proofs.C01S2Sql
import Dawgs.Proofs.C01At
/-
C01 / S2a — Cypher side: MATCH (a[:K])-[r[:T]]->(b[:K]) under the reference semantics.
-/
namespace Dawgs.C01.Proofs
open Dawgs Dawgs.Cy

/-- the state after binding a, r, b -/
def hopState (q : S2.Query) (a : NodeRec) (e : EdgeRec) (b : NodeRec) : MState :=
  ⟨[(q.b, .node b.id), (q.r, .rel e.id), (q.a, .node a.id)], [e.id]⟩

/-- the far node of edge e, if it exists and carries the pattern's kinds -/
def farNodes (g : Graph) (q : S2.Query) (e : EdgeRec) : List NodeRec :=
  match g.node? e.stop with
  | some b => if kindsAllOf b.kinds q.bkinds then [b] else []
  | none => []

theorem hopsFrom_out (g : Graph) (i : Int) : hopsFrom g .out i = (g.edges.filter (fun e => e.start == i)).map (fun e => (e, e.stop)) := by
  unfold hopsFrom
  simp only
  exact flatMap_ite_single' (fun e => e.start == i) (fun e => (e, e.stop)) g.edges
where
  flatMap_ite_single' {β γ : Type} (c : β → Bool) (mk : β → γ) : ∀ (B : List β),
      B.flatMap (fun b => if c b then [mk b] else []) = (B.filter c).map mk
    | [] => rfl
    | b :: B => by
      rw [List.flatMap_cons, flatMap_ite_single' c mk B, List.filter_cons]
      cases c b <;> rfl

theorem node?_id (g : Graph) (i : Int) (b : NodeRec) (h : g.node? i = some b) : b.id = i := by
  unfold Graph.node? at h
  have := List.find?_some h
  exact eq_of_beq this

/-- binding the far node pattern `(b:K…)` of the hop -/
theorem matchNode_far (g : Graph) (q : S2.Query) (har : ¬ q.a = q.r) (hab : ¬ q.a = q.b) (hrb : ¬ q.r = q.b) (a : NodeRec) (e : EdgeRec) :
    matchNode .none g ⟨[(q.r, .rel e.id), (q.a, .node a.id)], [e.id]⟩ e.stop (.mk (some q.b) q.bkinds []) =
      .ok (match farNodes g q e with | [b] => some (hopState q a e b) | _ => none) := by
  rw [matchNode]
  unfold farNodes
  cases hn : g.node? e.stop with
  | none => rfl
  | some b =>
    have hid := node?_id g e.stop b hn
    simp only [propsMatch_nil, ebind_ok]
    cases hk : kindsAllOf b.kinds q.bkinds with
    | false => rfl
    | true =>
      have h1 : (q.b == q.r) = false := by
        cases h : q.b == q.r with
        | false => rfl
        | true => exact absurd (eq_of_beq h).symm hrb
      have h2 : (q.b == q.a) = false := by
        cases h : q.b == q.a with
        | false => rfl
        | true => exact absurd (eq_of_beq h).symm hab
      simp only [Bool.not_true, Bool.false_eq_true, if_false, if_true, List.lookup, h1, h2, epure_ok, hopState, hid]

/-- one fixed outgoing step from the freshly bound node a -/
theorem matchSteps_hop (g : Graph) (q : S2.Query) (hwf : q.wf = true) (a : NodeRec) :
    matchSteps .none g ⟨[(q.a, .node a.id)], []⟩ a.id [a.id] [] false (some q.a) true
        [(.mk (some q.r) q.rkinds .out none [], .mk (some q.b) q.bkinds [])] =
      .ok (((g.edges.filter (fun e => e.start == a.id && kindAnyOf e.kind q.rkinds)).flatMap (fun e =>
        (farNodes g q e).map (fun b => (e, b)))).map (fun eb => (hopState q a eb.1 eb.2, [a.id, eb.2.id], [eb.1.id]))) := by
  unfold S2.Query.wf at hwf
  simp only [Bool.and_eq_true, bne_iff_ne, ne_eq] at hwf
  obtain ⟨⟨⟨⟨har, hab⟩, hrb⟩, _⟩, _⟩ := hwf
  have hra : (q.r == q.a) = false := by
    cases h : q.r == q.a with
    | false => rfl
    | true => exact absurd (eq_of_beq h).symm har
  rw [matchSteps]
  have hd : (Dir.out == Dir.both) = false := by decide
  simp only [Quirks.none, hd, Bool.false_and, Bool.and_false, Bool.false_eq_true, if_false, Bool.not_false, Bool.and_true,
    List.contains_nil, hopsFrom_out, propsMatch_nil, ebind_ok, Bool.not_true, List.lookup, hra, NodePat.var]
  have hcands : List.filter (fun (p : EdgeRec × Int) => kindAnyOf p.1.kind q.rkinds) ((g.edges.filter (fun e => e.start == a.id)).map (fun e => (e, e.stop))) =
      (g.edges.filter (fun e => e.start == a.id && kindAnyOf e.kind q.rkinds)).map (fun e => (e, e.stop)) := by
    rw [List.filter_map, List.filter_filter]
    congr 2
    funext e
    simp only [Function.comp_def, Bool.and_comm]
  rw [hcands]
  rw [mapE_map_ok (fun e => (e, e.stop)) _ (fun e => (farNodes g q e).map (fun b => (hopState q a e b, [a.id, b.id], [e.id])))]
  · simp only [ebind_ok, epure_ok]
    rw [List.map_flatMap]
    simp only [List.map_map, Function.comp_def, List.flatMap_def]
  · intro e _
    have := matchNode_far g q har hab hrb a e
    simp only [Quirks.none] at this
    have hpm : ∀ (env : Env) (props : List (String × Json)), propsMatch {} g env props [] = .ok true := fun env props => propsMatch_nil g env props
    simp only [hpm, this, ebind_ok, Bool.not_true, Bool.false_eq_true, if_false]
    unfold farNodes
    cases hn : g.node? e.stop with
    | none => rfl
    | some b =>
      have hid := node?_id g e.stop b hn
      cases hk : kindsAllOf b.kinds q.bkinds with
      | false => simp only [hk, Bool.false_eq_true, if_false, List.map_nil]; rfl
      | true =>
        have h2 := matchSteps_nil g (hopState q a e b) e.stop ([a.id] ++ [e.stop]) ([] ++ [e.id]) true (some q.b) false
        simp only [Quirks.none] at h2
        simp only [hk, if_true, List.map_cons, List.map_nil, hid, List.cons_append, List.nil_append] at h2 ⊢
        exact h2

/-- the matches of the hop pattern, in the order the reference semantics enumerates them: a-nodes, then their outgoing edges, then the far node -/
def hopMatchesCy (g : Graph) (q : S2.Query) : List (NodeRec × EdgeRec × NodeRec) :=
  (g.nodes.filter (fun a => kindsAllOf a.kinds q.akinds)).flatMap (fun a =>
    (g.edges.filter (fun e => e.start == a.id && kindAnyOf e.kind q.rkinds)).flatMap (fun e => (farNodes g q e).map (fun b => (a, e, b))))

theorem matchPart_hop (g : Graph) (q : S2.Query) (hwf : q.wf = true) (hn : ∀ n ∈ g.nodes, g.node? n.id = some n) :
    matchPart .none g ⟨[], []⟩ (.mk none false false (.mk (some q.a) q.akinds []) [(.mk (some q.r) q.rkinds .out none [], .mk (some q.b) q.bkinds [])]) =
      .ok ((hopMatchesCy g q).map (fun m => hopState q m.1 m.2.1 m.2.2)) := by
  rw [matchPart]
  simp only [Bool.or_self, Bool.false_eq_true, if_false, NodePat.var, Option.bind_some, List.lookup, Option.isSome_none,
    Quirks.none, Bool.and_false, Bool.false_and, flatMap_replicate_one]
  rw [mapE_map_ok (fun (n : NodeRec) => n.id) _ (fun a => if kindsAllOf a.kinds q.akinds then
    (((g.edges.filter (fun e => e.start == a.id && kindAnyOf e.kind q.rkinds)).flatMap (fun e => (farNodes g q e).map (fun b => (e, b)))).map
      (fun eb => hopState q a eb.1 eb.2)) else [])]
  · simp only [ebind_ok, epure_ok]
    unfold hopMatchesCy
    rw [List.map_flatMap, List.flatMap_def (l := g.nodes.filter _)]
    have : ∀ (ns : List NodeRec), (ns.map (fun a => if kindsAllOf a.kinds q.akinds = true then
        (((g.edges.filter (fun e => e.start == a.id && kindAnyOf e.kind q.rkinds)).flatMap (fun e => (farNodes g q e).map (fun b => (e, b)))).map
          (fun eb => hopState q a eb.1 eb.2)) else [])).flatten =
        ((ns.filter (fun a => kindsAllOf a.kinds q.akinds)).map (fun a => ((g.edges.filter (fun e => e.start == a.id && kindAnyOf e.kind q.rkinds)).flatMap
          (fun e => (farNodes g q e).map (fun b => (a, e, b)))).map (fun m => hopState q m.1 m.2.1 m.2.2))).flatten := by
      intro ns
      induction ns with
      | nil => rfl
      | cons n ns ih =>
        rw [List.map_cons, List.flatten_cons, ih, List.filter_cons]
        cases kindsAllOf n.kinds q.akinds
        · simp
        · simp [List.map_flatMap, List.map_map, Function.comp_def]
    rw [this]
  · intro a ha
    have h1 := matchNode_fresh g a q.a q.akinds (hn a ha)
    simp only [Quirks.none] at h1
    simp only [h1, ebind_ok]
    cases hk : kindsAllOf a.kinds q.akinds
    · rfl
    · have h2 := matchSteps_hop g q hwf a
      simp only [Quirks.none] at h2
      simp only [if_true, h2, ebind_ok, epure_ok, List.map_map, Function.comp_def]

/-- the Cypher value of a RETURN item on the match (a, e, b) -/
def itemC2 (a : NodeRec) (e : EdgeRec) (b : NodeRec) : S2.Item → CVal
  | .ent .a _ => .node a.id
  | .ent .r _ => .rel e.id
  | .ent .b _ => .node b.id
  | .idOf .a _ => .int a.id
  | .idOf .r _ => .int e.id
  | .idOf .b _ => .int b.id
  | .prop .a k _ => ((Json.lookup k a.props).map jsonToC).getD .null
  | .prop .r k _ => ((Json.lookup k e.props).map jsonToC).getD .null
  | .prop .b k _ => ((Json.lookup k b.props).map jsonToC).getD .null

theorem hopEnv_lookup (q : S2.Query) (hwf : q.wf = true) (a : NodeRec) (e : EdgeRec) (b : NodeRec) :
    (hopState q a e b).env.lookup q.a = some (.node a.id) ∧ (hopState q a e b).env.lookup q.r = some (.rel e.id) ∧
    (hopState q a e b).env.lookup q.b = some (.node b.id) := by
  unfold S2.Query.wf at hwf
  simp only [Bool.and_eq_true, bne_iff_ne, ne_eq] at hwf
  obtain ⟨⟨⟨⟨har, hab⟩, hrb⟩, _⟩, _⟩ := hwf
  have h1 : (q.a == q.b) = false := by simpa using hab
  have h2 : (q.a == q.r) = false := by simpa using har
  have h3 : (q.r == q.b) = false := by simpa using hrb
  simp [hopState, List.lookup, h1, h2, h3]

theorem eval_itemC2 (g : Graph) (q : S2.Query) (hwf : q.wf = true) (a : NodeRec) (e : EdgeRec) (b : NodeRec)
    (ha : g.node? a.id = some a) (he : g.edge? e.id = some e) (hb : g.node? b.id = some b) (it : S2.Item) :
    Cy.evalExpr .none g (hopState q a e b).env false (it.toCy q).e = .ok (itemC2 a e b it) := by
  obtain ⟨la, lr, lb⟩ := hopEnv_lookup q hwf a e b
  have hfn : ∀ (v : String) (x : CVal) (i : Int), (hopState q a e b).env.lookup v = some x → evalFn g "id" [x] = .ok (.int i) →
      Cy.evalExpr .none g (hopState q a e b).env false (.fn "id" false [.var v]) = .ok (.int i) := by
    intro v x i hl hf
    rw [Cy.evalExpr]
    have hc : (["count", "collect", "sum", "avg", "min", "max"].contains "id") = false := by decide
    simp only [isAggregate, Cy.evalExprs, Cy.evalExpr, lookupVar, hl, ebind_ok, epure_ok, hc, Bool.false_eq_true, if_false, hf]
  cases it with
  | ent x al =>
    cases x <;> (simp only [S2.Item.toCy, S2.Query.name, itemC2]; rw [Cy.evalExpr]; simp only [lookupVar, la, lr, lb])
  | idOf x al =>
    cases x <;> simp only [S2.Item.toCy, S2.Query.name, itemC2]
    · exact hfn _ _ _ la (by simp [evalFn])
    · exact hfn _ _ _ lr (by simp [evalFn])
    · exact hfn _ _ _ lb (by simp [evalFn])
  | prop x k al =>
    cases x <;> (simp only [S2.Item.toCy, S2.Query.name, itemC2]; rw [Cy.evalExpr, Cy.evalExpr]) <;>
      simp [lookupVar, la, lr, lb, propOf, nodeProps, edgeProps, ha, he, hb]

theorem hasAggregate_item2 (q : S2.Query) (it : S2.Item) : hasAggregate (it.toCy q).e = false := by
  cases it <;> simp [S2.Item.toCy, hasAggregate, hasAggregateL, isAggregate]

theorem anyAgg_items2 (q : S2.Query) : ∀ (items : List S2.Item), (items.map (S2.Item.toCy q)).any (fun it => hasAggregate it.e) = false
  | [] => rfl
  | it :: items => by rw [List.map_cons, List.any_cons, hasAggregate_item2, anyAgg_items2 q items]; rfl

theorem hopMatches_mem (g : Graph) (q : S2.Query) (hn : ∀ n ∈ g.nodes, g.node? n.id = some n) (he : ∀ e ∈ g.edges, g.edge? e.id = some e)
    (m : NodeRec × EdgeRec × NodeRec) (hm : m ∈ hopMatchesCy g q) :
    g.node? m.1.id = some m.1 ∧ g.edge? m.2.1.id = some m.2.1 ∧ g.node? m.2.2.id = some m.2.2 ∧ m.2.1.stop = m.2.2.id ∧ m.2.1.start = m.1.id := by
  unfold hopMatchesCy at hm
  obtain ⟨a, ha, hm⟩ := List.mem_flatMap.mp hm
  obtain ⟨e, hee, hm⟩ := List.mem_flatMap.mp hm
  obtain ⟨b, hb, rfl⟩ := List.mem_map.mp hm
  have ha' := (List.mem_filter.mp ha).1
  have he' := List.mem_filter.mp hee
  unfold farNodes at hb
  cases hnb : g.node? e.stop with
  | none => rw [hnb] at hb; cases hb
  | some b' =>
    rw [hnb] at hb
    have hid := node?_id g e.stop b' hnb
    have hb' : kindsAllOf b'.kinds q.bkinds = true ∧ b = b' := by simpa using hb
    obtain ⟨_, rfl⟩ := hb'
    have hst : e.start = a.id := by
      have := he'.2
      simp only [Bool.and_eq_true, beq_iff_eq] at this
      exact this.1
    exact ⟨hn a ha', he e he'.1, by rw [hid]; exact hnb, hid.symm, hst⟩

-- ------------------------------------------------------------------ WHERE over the hop

def entOf (a : NodeRec) (e : EdgeRec) (b : NodeRec) : S2.Ref → Ent
  | .a => nodeEnt a
  | .r => edgeEnt e
  | .b => nodeEnt b

/-- every WHERE conjunct holds on the match (a, e, b) -/
def okWhere (q : S2.Query) (a : NodeRec) (e : EdgeRec) (b : NodeRec) : Bool :=
  q.wh.all (fun c => semE (entOf a e b c.1) c.2 == some true)

/-- the matches of the hop that pass WHERE, in Cypher's enumeration order -/
def whereMatchesCy (g : Graph) (q : S2.Query) : List (NodeRec × EdgeRec × NodeRec) :=
  (hopMatchesCy g q).filter (fun m => okWhere q m.1 m.2.1 m.2.2)

theorem conjunct_hop (g : Graph) (q : S2.Query) (hwf : q.wf = true) (a : NodeRec) (e : EdgeRec) (b : NodeRec)
    (ha : g.node? a.id = some a) (he : g.edge? e.id = some e) (hb : g.node? b.id = some b) (c : S2.Ref × S1.Pred) (fl : Bool) :
    Cy.evalExpr .none g (hopState q a e b).env fl (S1.Pred.toCy (q.name c.1) c.2) = .ok (triToC (semE (entOf a e b c.1) c.2)) := by
  obtain ⟨la, lr, lb⟩ := hopEnv_lookup q hwf a e b
  obtain ⟨x, p⟩ := c
  cases x with
  | a => exact (cy_predAt g _ _ q.a _ (cyEnt_node g a ha) la p).1 fl
  | r => exact (cy_predAt g _ _ q.r _ (cyEnt_edge g e he) lr p).1 fl
  | b => exact (cy_predAt g _ _ q.b _ (cyEnt_node g b hb) lb p).1 fl

theorem foldr_triAnd_true : ∀ (ts : List Tri), (ts.foldr triAnd (some true) == some true) = ts.all (fun t => t == some true)
  | [] => rfl
  | t :: ts => by
    rw [List.foldr_cons, List.all_cons, ← foldr_triAnd_true ts]
    cases t with
    | none => cases ts.foldr triAnd (some true) with
      | none => rfl
      | some y => cases y <;> rfl
    | some x => cases ts.foldr triAnd (some true) with
      | none => cases x <;> rfl
      | some y => cases x <;> cases y <;> rfl

theorem evalConj_hop (g : Graph) (q : S2.Query) (hwf : q.wf = true) (a : NodeRec) (e : EdgeRec) (b : NodeRec)
    (ha : g.node? a.id = some a) (he : g.edge? e.id = some e) (hb : g.node? b.id = some b) : ∀ (cs : List (S2.Ref × S1.Pred)),
    Cy.evalConj .none g (hopState q a e b).env (cs.map (fun c => S1.Pred.toCy (q.name c.1) c.2)) =
      .ok ((cs.map (fun c => semE (entOf a e b c.1) c.2)).foldr triAnd (some true))
  | [] => by rw [List.map_nil, Cy.evalConj]; rfl
  | c :: cs => by
    rw [List.map_cons, Cy.evalConj, conjunct_hop g q hwf a e b ha he hb c false, evalConj_hop g q hwf a e b ha he hb cs]
    simp only [ebind_ok, triOfC_triToC, epure_ok, List.map_cons, List.foldr_cons]

/-- the WHERE test of the MATCH clause on a match of the hop -/
theorem where_hop (g : Graph) (q : S2.Query) (hwf : q.wf = true) (a : NodeRec) (e : EdgeRec) (b : NodeRec)
    (ha : g.node? a.id = some a) (he : g.edge? e.id = some e) (hb : g.node? b.id = some b) :
    (q.whereCy = none → okWhere q a e b = true) ∧
    (∀ w, q.whereCy = some w → (do let v ← Cy.evalExpr .none g (hopState q a e b).env false w; truthy v) = .ok (okWhere q a e b)) := by
  unfold S2.Query.whereCy okWhere
  cases hw : q.wh with
  | nil => exact ⟨fun _ => rfl, fun w h => by cases h⟩
  | cons c cs =>
    cases cs with
    | nil =>
      refine ⟨fun h => (by cases h), fun w h => ?_⟩
      simp only [Option.some.injEq] at h
      subst h
      simp only [conjunct_hop g q hwf a e b ha he hb c false, ebind_ok, truthy_tri, List.all_cons, List.all_nil, Bool.and_true]
    | cons c' cs' =>
      refine ⟨fun h => (by cases h), fun w h => ?_⟩
      simp only [Option.some.injEq] at h
      subst h
      rw [Cy.evalExpr, evalConj_hop g q hwf a e b ha he hb (c :: c' :: cs')]
      simp only [ebind_ok, epure_ok, truthy_tri, foldr_triAnd_true, List.all_map]
      rfl

theorem whereMatches_mem (g : Graph) (q : S2.Query) (m : NodeRec × EdgeRec × NodeRec) (hm : m ∈ whereMatchesCy g q) : m ∈ hopMatchesCy g q :=
  (List.mem_filter.mp hm).1

theorem clause_hop (g : Graph) (q : S2.Query) (hwf : q.wf = true) (hn : ∀ n ∈ g.nodes, g.node? n.id = some n)
    (he : ∀ e ∈ g.edges, g.edge? e.id = some e) :
    evalClauses .none g true [[]] q.toCy.clauses = .ok ((whereMatchesCy g q).map (fun m => (hopState q m.1 m.2.1 m.2.2).env)) := by
  unfold S2.Query.toCy
  have hmp := matchPart_hop g q hwf hn
  simp only [evalClauses, evalClause, mapE_singleton, matchParts, ite_self, hmp, ebind_ok, epure_ok, List.flatten_cons, List.flatten_nil,
    List.append_nil]
  rw [filterE_map_ok (fun m => hopState q m.1 m.2.1 m.2.2) _ (fun m => okWhere q m.1 m.2.1 m.2.2) (hopMatchesCy g q)]
  · simp only [ebind_ok, Bool.false_and, Bool.and_false, Bool.false_eq_true, if_false, List.map_map, Function.comp_def,
      List.flatten_cons, List.flatten_nil, List.append_nil]
    rfl
  · intro m hm
    obtain ⟨h1, h2, h3, _, _⟩ := hopMatches_mem g q hn he m hm
    obtain ⟨w1, w2⟩ := where_hop g q hwf m.1 m.2.1 m.2.2 h1 h2 h3
    cases hw : q.whereCy with
    | none => simp only [w1 hw]
    | some w => exact w2 w hw

/-- CYPHER SIDE of S2: the reference semantics returns one row per match that passes WHERE, in the order a-nodes / outgoing edges -/
theorem cy_side2 (g : Graph) (q : S2.Query) (hwf : q.wf = true) (hn : ∀ n ∈ g.nodes, g.node? n.id = some n) (he : ∀ e ∈ g.edges, g.edge? e.id = some e) :
    Cy.eval .none g q.toCy = .ok (Cy.projNames (q.items.map (S2.Item.toCy q)),
      (whereMatchesCy g q).map (fun m => q.items.map (itemC2 m.1 m.2.1 m.2.2))) := by
  have hc := clause_hop g q hwf hn he
  unfold Cy.eval
  have hparts : q.toCy.parts = [] := rfl
  simp only [hparts, evalParts, ebind_ok, List.isEmpty_nil, hc]
  unfold evalProjection
  have hall : q.toCy.ret.all = false := rfl
  have hdist : q.toCy.ret.distinct = false := rfl
  have hitems : q.toCy.ret.items = q.items.map (S2.Item.toCy q) := rfl
  have hob : q.toCy.ret.orderBy = [] := rfl
  have hskip : q.toCy.ret.skip = none := rfl
  have hlim : q.toCy.ret.limit = none := rfl
  simp only [hall, hdist, hitems, hob, hskip, hlim, Bool.false_eq_true, if_false, anyAgg_items2, Bool.or_self]
  have hpr : plainRows .none g (Cy.projNames (q.items.map (S2.Item.toCy q))) (q.items.map (S2.Item.toCy q))
      ((whereMatchesCy g q).map (fun m => (hopState q m.1 m.2.1 m.2.2).env)) =
      .ok ((whereMatchesCy g q).map (fun m => (q.items.map (itemC2 m.1 m.2.1 m.2.2),
        (Cy.projNames (q.items.map (S2.Item.toCy q))).zip (q.items.map (itemC2 m.1 m.2.1 m.2.2)) ++ (hopState q m.1 m.2.1 m.2.2).env))) := by
    unfold plainRows
    apply mapE_map_ok
    intro m hm
    obtain ⟨h1, h2, h3, _, _⟩ := hopMatches_mem g q hn he m (whereMatches_mem g q m hm)
    have : (q.items.map (S2.Item.toCy q)).mapE (fun it => Cy.evalExpr .none g (hopState q m.1 m.2.1 m.2.2).env false it.e) =
        .ok (q.items.map (itemC2 m.1 m.2.1 m.2.2)) :=
      mapE_map_ok _ _ _ q.items (fun it _ => eval_itemC2 g q hwf m.1 m.2.1 m.2.2 h1 h2 h3 it)
    simp only [this, ebind_ok, epure_ok]
  rw [hpr]
  simp only [ebind_ok, keyRows_none, intOf, cutKeyed, epure_ok, List.map_map, Function.comp_def, Bool.false_eq_true, if_false]

end Dawgs.C01.Proofs
