/-
C11 proofs, part 4: the tree-aware monitor `TMon` (Spec/C11) accepts every run of the transcribed `walk.Generic`,
for every visitor — in particular for every Consume schedule, Consume calls in Exit callbacks included.
-/
import Dawgs.Proofs.C11
namespace Dawgs.C11
variable {α : Type} [DecidableEq α]

theorem treplay_append (v : Visitor α) (seen A B : List (Ev α)) (m : TMon α) :
    treplay v seen (A ++ B) m = (treplay v seen A m).bind (fun m' => treplay v (seen ++ A) B m') := by
  induction A generalizing seen m with
  | nil => simp [treplay]
  | cons e es ih =>
    simp only [List.cons_append, treplay]
    cases hs : m.step (v (seen ++ [e])) e with
    | none => simp
    | some m' => simp [ih, List.append_assoc]

theorem treplay_snoc (v : Visitor α) (L : List (Ev α)) (e : Ev α) (m0 : TMon α) :
    treplay v [] (L ++ [e]) m0 = (treplay v [] L m0).bind (fun m => m.step (v (L ++ [e])) e) := by
  rw [treplay_append]
  congr 1; funext m
  simp only [treplay, List.nil_append]
  cases m.step (v (L ++ [e])) e <;> rfl

omit [DecidableEq α] in
/-- put a not-yet-entered branch back in front of the innermost open node's remaining branches -/
def addHead (t : Tree α) : List (Frame α) → List (Frame α)
  | f :: fs => ⟨f.lbl, t :: f.rest⟩ :: fs
  | [] => []

/-- the monitor's stack that corresponds to the walker's stack of cursors -/
def framesOf : List (Cursor α) → List (Frame α)
  | [] => [⟨none, []⟩]
  | c :: rest =>
    if c.idx = 0 then addHead (.node c.node c.branches) (framesOf rest)
    else ⟨some c.node, c.branches.drop c.idx⟩ :: framesOf rest

omit [DecidableEq α] in
theorem framesOf_ne_nil (st : List (Cursor α)) : ∃ f fs, framesOf st = f :: fs := by
  induction st with
  | nil => exact ⟨_, _, rfl⟩
  | cons c rest ih =>
    obtain ⟨f, fs, h⟩ := ih
    unfold framesOf
    split
    · rw [h]; exact ⟨_, _, rfl⟩
    · exact ⟨_, _, rfl⟩

def TInvBody (s : State α) (m : TMon α) : Prop :=
  m.must = none ∧
  match s.ret with
  | none => s.h.consumed = false ∧ s.h.err = false ∧ m.stack = framesOf s.stack ∧
            m.stopped = (if s.h.done then some Stop.done else none)
  | some r => tokRes r m

def TInv (v : Visitor α) (t : Tree α) (s : State α) : Prop :=
  ∃ m, treplay v [] s.log (TMon.init t) = some m ∧ TInvBody s m

theorem start_tinv (v : Visitor α) (t : Tree α) : TInv v t (start t) := by
  cases t with
  | node l kids =>
    exact ⟨TMon.init (Tree.node l kids), by simp [start, construct, treplay],
      by simp [TInvBody, start, construct, TMon.init, framesOf, addHead, Handler.fresh]⟩
  | bad => exact ⟨TMon.init Tree.bad, by simp [start, construct, treplay],
      by simp [TInvBody, start, construct, TMon.init, tokRes]⟩

theorem halt_tinv (v : Visitor α) (t : Tree α) (s : State α) (r : Result) (m : TMon α)
    (hm : treplay v [] s.log (TMon.init t) = some m) (hmust : m.must = none) (hr : tokRes r m) :
    TInv v t (halt s r) := ⟨m, by simpa using hm, hmust, by simpa [TInvBody] using hr⟩

theorem exitAndPop_tinv (v : Visitor α) (t : Tree α) (s : State α) (c : Cursor α) (rest : List (Cursor α))
    (m : TMon α) (R : List (Tree α))
    (hm : treplay v [] s.log (TMon.init t) = some m) (hst : m.stopped = none)
    (hstack : m.stack = ⟨some c.node, R⟩ :: framesOf rest)
    (hmust : (R = [] ∧ m.must = none) ∨ m.must = some c.node)
    (hret : s.ret = none) (herr : s.h.err = false) (hdone : s.h.done = false) :
    TInv v t (exitAndPop v s c rest) := by
  have hstep : ∀ a, m.step a (Ev.exit c.node) =
      some (TMon.after { m with stack := framesOf rest, must := none } a c.node true) := by
    intro a
    rcases hmust with ⟨hR, hm0⟩ | hm1
    · simp [TMon.step, hst, hstack, hR, hm0]
    · simp [TMon.step, hst, hstack, hm1]
  refine ⟨TMon.after { m with stack := framesOf rest, must := none } (v (s.log ++ [Ev.exit c.node])) c.node true, ?_, ?_⟩
  · rw [exitAndPop_log, treplay_snoc, hm]; simp [hstep]
  · unfold exitAndPop
    cases ha : v (s.log ++ [Ev.exit c.node]) <;>
      simp [TInvBody, fire, ha, Handler.apply, herr, hret, hdone, TMon.after, hst, halt, tokRes]

theorem descend_tinv (v : Visitor α) (t : Tree α) (s : State α) (c : Cursor α) (rest : List (Cursor α)) (m : TMon α)
    (hm : treplay v [] s.log (TMon.init t) = some m) (hst : m.stopped = none)
    (hstack : m.stack = ⟨some c.node, c.branches.drop c.idx⟩ :: framesOf rest) (hmust : m.must = none)
    (hlt : c.idx < c.branches.length)
    (hret : s.ret = none) (herr : s.h.err = false) (hdone : s.h.done = false) (hcons : s.h.consumed = false) :
    TInv v t (descend s c rest) := by
  have hdrop : c.branches.drop c.idx = c.branches.getD c.idx Tree.bad :: c.branches.drop (c.idx + 1) := by
    rw [List.drop_eq_getElem_cons hlt]; simp [List.getD_eq_getElem?_getD, hlt]
  unfold descend
  cases hk : construct (c.branches.getD c.idx Tree.bad) with
  | none => exact ⟨m, by simpa [halt] using hm, by simp [TInvBody, halt, hmust, tokRes, hst]⟩
  | some k =>
    obtain ⟨hk0, hb⟩ := construct_some _ _ hk
    refine ⟨m, by simpa using hm, ?_⟩
    simp only [TInvBody, hmust, hret, herr, hcons, hdone, hst, true_and, Bool.false_eq_true, ite_false]
    simp only [framesOf, hk0, ite_true, Nat.add_one_ne_zero, ite_false, addHead]
    rw [hstack, hdrop, hb]
    simp

theorem fire_treplay (v : Visitor α) (t : Tree α) (s : State α) (e : Ev α) (m m' : TMon α)
    (hm : treplay v [] s.log (TMon.init t) = some m) (hs : m.step (v (s.log ++ [e])) e = some m') :
    treplay v [] (fire v s e).log (TMon.init t) = some m' := by
  simp [treplay_snoc, hm, hs]

theorem iter_tinv (v : Visitor α) (t : Tree α) (s : State α) (c : Cursor α) (rest : List (Cursor α)) (m : TMon α)
    (hm : treplay v [] s.log (TMon.init t) = some m) (hmust : m.must = none) (hst : m.stopped = none)
    (hstack : m.stack = framesOf (c :: rest)) (hret : s.ret = none) (hcons : s.h.consumed = false)
    (herr : s.h.err = false) (hdone : s.h.done = false) :
    TInv v t (iter v s c rest) := by
  unfold iter
  by_cases h0 : c.idx = 0
  · -- first visit: Enter
    obtain ⟨f, fs, hfr⟩ := framesOf_ne_nil rest
    have hstack' : m.stack = ⟨f.lbl, Tree.node c.node c.branches :: f.rest⟩ :: fs := by
      rw [hstack]; simp [framesOf, h0, hfr, addHead]
    have hstepE : ∀ a, m.step a (Ev.enter c.node) =
        some (TMon.after { m with stack := ⟨some c.node, c.branches⟩ :: framesOf rest } a c.node false) := by
      intro a; simp [TMon.step, hst, hmust, hstack', hfr]
    have hrep := fire_treplay v t s (Ev.enter c.node) m _ hm (hstepE _)
    have hb : (c.idx == 0) = true := by simp [h0]
    simp only [hb, ite_true, Bool.true_and]
    generalize hs1 : fire v s (Ev.enter c.node) = s1 at hrep ⊢
    have h1h : s1.h = s.h.apply (v (s.log ++ [Ev.enter c.node])) := by rw [← hs1]; rfl
    have h1r : s1.ret = none := by rw [← hs1]; exact hret
    cases ha : v (s.log ++ [Ev.enter c.node]) with
    | error cc =>
      rw [ha] at h1h hrep
      have : s1.h.err = true := by rw [h1h]; rfl
      simp only [this, ite_true]
      exact halt_tinv v t s1 _ _ hrep (by simp [TMon.after, hmust]) (by simp [tokRes, TMon.after])
    | done cc =>
      rw [ha] at h1h hrep
      have e1 : s1.h.err = false := by rw [h1h]; exact herr
      have e2 : s1.h.done = true := by rw [h1h]; rfl
      simp only [e1, e2, Bool.false_eq_true, ite_false, ite_true]
      exact halt_tinv v t s1 _ _ hrep (by simp [TMon.after, hmust]) (by simp [tokRes, TMon.after])
    | «continue» =>
      rw [ha] at h1h hrep
      have e1 : s1.h.err = false := by rw [h1h]; exact herr
      have e2 : s1.h.done = false := by rw [h1h]; exact hdone
      have e3 : s1.h.consumed = false := by rw [h1h]; exact hcons
      simp only [e1, e2, e3, Bool.false_eq_true, ite_false]
      split
      · rename_i hlt
        have hnil : c.branches = [] := by
          have : c.branches.length ≤ 0 := by simpa [h0] using hlt
          exact List.eq_nil_of_length_eq_zero (by omega)
        exact exitAndPop_tinv v t s1 c rest _ c.branches hrep (by simp [TMon.after, hst]) (by simp [TMon.after])
          (Or.inl ⟨hnil, by simp [TMon.after, hmust]⟩) h1r e1 e2
      · rename_i hlt
        have hlt' : c.idx < c.branches.length := by simpa using hlt
        exact descend_tinv v t _ c rest _ (by simpa using hrep) (by simp [TMon.after, hst])
          (by simp [TMon.after, h0]) (by simp [TMon.after, hmust]) hlt' (by simpa using h1r)
          (by simpa using e1) (by simpa using e2) (by simp)
    | consume =>
      rw [ha] at h1h hrep
      have e1 : s1.h.err = false := by rw [h1h]; exact herr
      have e2 : s1.h.done = false := by rw [h1h]; exact hdone
      have e3 : s1.h.consumed = true := by rw [h1h]; rfl
      simp only [e1, e2, e3, Bool.false_eq_true, ite_false, ite_true]
      split
      · exact exitAndPop_tinv v t s1 c rest _ c.branches hrep (by simp [TMon.after, hst]) (by simp [TMon.after])
          (Or.inr (by simp [TMon.after])) h1r e1 e2
      · exact exitAndPop_tinv v t _ c rest _ c.branches (by simpa using hrep) (by simp [TMon.after, hst])
          (by simp [TMon.after]) (Or.inr (by simp [TMon.after])) (by simpa using h1r)
          (by simpa using e1) (by simpa using e2)
  · -- a later visit
    have hstack' : m.stack = ⟨some c.node, c.branches.drop c.idx⟩ :: framesOf rest := by
      rw [hstack]; simp [framesOf, h0]
    have hb : (c.idx == 0) = false := by simp [h0]
    simp only [hb, Bool.false_eq_true, ite_false, Bool.false_and, Bool.not_false, ite_true, hcons]
    split
    · rename_i hlt
      have hle : c.branches.length ≤ c.idx := by simpa using hlt
      exact exitAndPop_tinv v t s c rest m _ hm hst hstack'
        (Or.inl ⟨List.drop_eq_nil_of_le hle, hmust⟩) hret herr hdone
    · rename_i hlt
      have hlt' : c.idx < c.branches.length := by simpa using hlt
      have hdrop : c.branches.drop c.idx = c.branches.getD c.idx Tree.bad :: c.branches.drop (c.idx + 1) := by
        rw [List.drop_eq_getElem_cons hlt']; simp [List.getD_eq_getElem?_getD, hlt']
      have hstepV : ∀ a, m.step a (Ev.visit c.node) = some (m.after a c.node false) := by
        intro a; simp [TMon.step, hst, hmust, hstack', hdrop]
      have hrep := fire_treplay v t (clearConsumed s) (Ev.visit c.node) m _ (by simpa using hm) (hstepV _)
      generalize hs3 : fire v (clearConsumed s) (Ev.visit c.node) = s3 at hrep ⊢
      have h3h : s3.h = ({ s.h with consumed := false } : Handler).apply (v (s.log ++ [Ev.visit c.node])) := by
        rw [← hs3]; rfl
      have h3r : s3.ret = none := by rw [← hs3]; exact hret
      rw [clear_log] at hrep
      cases ha : v (s.log ++ [Ev.visit c.node]) with
      | error cc =>
        rw [ha] at h3h hrep
        have : s3.h.err = true := by rw [h3h]; rfl
        simp only [this, ite_true]
        exact halt_tinv v t s3 _ _ hrep (by simp [TMon.after, hmust]) (by simp [tokRes, TMon.after])
      | done cc =>
        rw [ha] at h3h hrep
        have e1 : s3.h.err = false := by rw [h3h]; exact herr
        have e2 : s3.h.done = true := by rw [h3h]; rfl
        simp only [e1, e2, Bool.false_eq_true, ite_false, ite_true]
        exact halt_tinv v t s3 _ _ hrep (by simp [TMon.after, hmust]) (by simp [tokRes, TMon.after])
      | «continue» =>
        rw [ha] at h3h hrep
        have e1 : s3.h.err = false := by rw [h3h]; exact herr
        have e2 : s3.h.done = false := by rw [h3h]; exact hdone
        have e3 : s3.h.consumed = false := by rw [h3h]; rfl
        simp only [e1, e2, e3, Bool.false_eq_true, ite_false]
        exact descend_tinv v t _ c rest _ (by simpa using hrep) (by simp [TMon.after, hst])
          (by simpa [TMon.after] using hstack') (by simp [TMon.after, hmust]) hlt' (by simpa using h3r)
          (by simpa using e1) (by simpa using e2) (by simp)
      | consume =>
        rw [ha] at h3h hrep
        have e1 : s3.h.err = false := by rw [h3h]; exact herr
        have e2 : s3.h.done = false := by rw [h3h]; exact hdone
        have e3 : s3.h.consumed = true := by rw [h3h]; rfl
        simp only [e1, e2, e3, Bool.false_eq_true, ite_false, ite_true]
        exact exitAndPop_tinv v t _ c rest _ _ (by simpa using hrep) (by simp [TMon.after, hst])
          (by simpa [TMon.after] using hstack') (Or.inr (by simp [TMon.after])) (by simpa using h3r)
          (by simpa using e1) (by simpa using e2)

theorem step_tinv (v : Visitor α) (t : Tree α) (s : State α) (h : TInv v t s) : TInv v t (step v s) := by
  obtain ⟨m, hm, hmust, hb⟩ := h
  unfold step
  cases hret : s.ret with
  | some r => simp only; exact ⟨m, hm, hmust, hb⟩
  | none =>
    simp only [hret] at hb
    obtain ⟨hcons, herr, hstack, hst⟩ := hb
    simp only
    cases hstk : s.stack with
    | nil =>
      refine ⟨m, by simpa [halt] using hm, hmust, ?_⟩
      simp only [halt, tokRes]
      rw [hstk] at hstack
      constructor
      · intro _; simpa [framesOf] using hstack
      · rw [hst]; split <;> simp
    | cons c rest =>
      simp only
      by_cases hd : s.h.done = true
      · simp only [hd, ite_true]
        refine ⟨m, by simpa [halt] using hm, hmust, ?_⟩
        simp [halt, tokRes, hst, hd]
      · have hd' : s.h.done = false := by simpa using hd
        simp only [hd', Bool.false_eq_true, ite_false]
        rw [hstk] at hstack
        exact iter_tinv v t s c rest m hm hmust (by simp [hst, hd']) hstack hret hcons herr hd'

theorem steps_tinv (v : Visitor α) (t : Tree α) (n : Nat) (s : State α) (h : TInv v t s) : TInv v t (steps v n s) := by
  induction n generalizing s with
  | zero => exact h
  | succ n ih => exact ih _ (step_tinv v t s h)

/-- every run is accepted by the tree-aware monitor, and the returned value agrees with it -/
theorem generic_taccepted (v : Visitor α) (t : Tree α) :
    ∃ r m, (generic v t).ret = some r ∧ treplay v [] (generic v t).log (TMon.init t) = some m ∧
      m.must = none ∧ tokRes r m := by
  obtain ⟨m, hm, hmust, hb⟩ := steps_tinv v t (fuel t) _ (start_tinv v t)
  obtain ⟨r, hr⟩ := Option.isSome_iff_exists.1 (generic_terminates v t)
  unfold generic at hr ⊢
  simp only [hr] at hb
  exact ⟨r, m, hr, hm, hmust, hb⟩

theorem judgeRunT_generic (v : Visitor α) (t : Tree α) (r : Result) (h : (generic v t).ret = some r) :
    judgeRunT v t (generic v t).log r = none := by
  obtain ⟨r', m, hr, hm, hmust, hok⟩ := generic_taccepted v t
  rw [h] at hr; cases hr
  unfold judgeRunT
  simp only [hm, hmust, Option.isSome_none, Bool.false_eq_true, ite_false]
  cases r with
  | ok =>
    simp only [tokRes] at hok
    cases hs : m.stopped with
    | none => simp [hok.1 hs]
    | some a =>
      cases a with
      | error => exact absurd hs hok.2
      | _ => simp
  | visitorError => simp only [tokRes] at hok; simp [hok]
  | cursorError => simp only [tokRes] at hok; simp [hok]

omit [DecidableEq α] in
theorem tafter_stopped (m0 : TMon α) (a : Act) (l : α) (b : Bool) (h1 : a.stop = none) :
    (m0.after a l b).stopped = m0.stopped := by
  unfold TMon.after
  cases a with
  | «continue» => rfl
  | consume => cases b <;> rfl
  | done cc => cases h1
  | error cc => cases h1

theorem tstep_stopped (m m' : TMon α) (a : Act) (e : Ev α) (h : m.step a e = some m')
    (h1 : a.stop = none) (hm : m.stopped = none) : m'.stopped = none := by
  unfold TMon.step at h
  split at h
  · cases h
  · cases e with
    | enter l =>
      simp only at h
      split at h
      · cases h
      · split at h
        · split at h
          · simp only [Option.some.injEq] at h; rw [← h, tafter_stopped _ _ _ _ h1]; exact hm
          · cases h
        · cases h
    | visit l =>
      simp only at h
      split at h
      · cases h
      · split at h
        · split at h
          · simp only [Option.some.injEq] at h; rw [← h, tafter_stopped _ _ _ _ h1]; exact hm
          · cases h
        · cases h
    | exit l =>
      simp only at h
      split at h
      · split at h
        · simp only [Option.some.injEq] at h; rw [← h, tafter_stopped _ _ _ _ h1]; exact hm
        · cases h
      · cases h

theorem treplay_never_stopped (v : Visitor α) (hv : ∀ h, (v h).stop = none) (seen L : List (Ev α))
    (m m' : TMon α) (h : treplay v seen L m = some m') (hm : m.stopped = none) : m'.stopped = none := by
  induction L generalizing seen m with
  | nil => simp only [treplay, Option.some.injEq] at h; rw [← h]; exact hm
  | cons e es ih =>
    simp only [treplay] at h
    cases hs : m.step (v (seen ++ [e])) e with
    | none => simp [hs] at h
    | some m1 =>
      simp only [hs] at h
      exact ih _ _ h (tstep_stopped m m1 _ e hs (hv _) hm)

end Dawgs.C11
