import Dawgs.Proofs.C01Pred
/-
C01 / S1 — the whole statement: the SQL evaluator on `S1.Query.tr`, the Cypher evaluator on `S1.Query.toCy`, both equal to one
specification (`specRows`), hence equal to each other.
-/
namespace Dawgs.C01.Proofs
open Dawgs Dawgs.Sql

/-- evaluation yields `x`, or the MODEL stops with `unmodelled` (never a run-time, type or name error) -/
def BenignT {α : Type} (r : EM α) (x : α) : Prop := r = .ok x ∨ ∃ w, r = .error (.unmodelled w)

theorem benT_ok {α : Type} {r : EM α} {x : α} (h : r = .ok x) : BenignT r x := Or.inl h

theorem benT_bind {α β : Type} {r : EM α} {x : α} {f : α → EM β} {y : β} (h1 : BenignT r x) (h2 : BenignT (f x) y) :
    BenignT (r >>= f) y := by
  rcases h1 with h1 | ⟨w, h1⟩
  · rw [h1]; exact h2
  · rw [h1]; exact Or.inr ⟨w, rfl⟩

theorem filterE_ben {α β : Type} (f : α → β) (t : β → EM Bool) (p : α → Bool) :
    ∀ (xs : List α), (∀ x ∈ xs, BenignT (t (f x)) (p x)) → BenignT ((xs.map f).filterE t) ((xs.filter p).map f)
  | [], _ => Or.inl rfl
  | x :: xs, h => by
    rw [List.map_cons, filterE_cons]
    apply benT_bind (h x (List.mem_cons_self ..))
    apply benT_bind (filterE_ben f t p xs (fun y hy => h y (List.mem_cons_of_mem _ hy)))
    left
    rw [List.filter_cons]
    cases p x <;> rfl

theorem isTrue_triVal (t : Cy.Tri) : isTrue (triVal t) = (t == some true) := by
  cases t with
  | none => rfl
  | some b => cases b <;> rfl

/-- the row filter of the node frame -/
def keepW (n : NodeRec) (wsem : Option (NodeRec → Cy.Tri)) : Bool :=
  match wsem with
  | none => true
  | some f => f n == some true

theorem lookup_node_table (km : KindMap) (g : Graph) :
    lookupTableE (E0 (encode km g)) "node" = .ok ⟨nodeCols, g.nodes.map (encodeNode km)⟩ := by
  simp [lookupTableE, E0, encode, Db.table?, List.lookup, nodeCols]

/-- the frame's WHERE expression `w` computes the three-valued row predicate `wsem` on every node row -/
def WOK (km : KindMap) (g : Graph) (E : EEnv) (w : Option Expr) (wsem : Option (NodeRec → Cy.Tri)) : Prop :=
  match w, wsem with
  | none, none => True
  | some c, some f => ∀ n ∈ g.nodes, Benign (evalExpr (E.push (nodeLvl km n)) c) (f n)
  | _, _ => False

/-- the node frame `s0`: one `nodecomposite` row per graph node that passes the WHERE predicate -/
theorem frame_eval (km : KindMap) (g : Graph) (w : Option Expr) (wsem : Option (NodeRec → Cy.Tri))
    (hw : WOK km g (E0 (encode km g)) w wsem) :
    BenignT (evalQuery (E0 (encode km g)) (Query.simple (.select false [S1.nodeComposite] [.mk (.table ["node"] (some "n0")) []] w [] none)))
      (⟨["n0"], (g.nodes.filter (fun n => keepW n wsem)).map (fun n => [nodeVal km n])⟩ : Table) := by
  rw [evalQuery_simple, evalSelect_single _ _ _ _ _ _ (lookup_node_table km g) (by decide)]
  simp only [bind_assoc]
  have hrows : (((⟨nodeCols, g.nodes.map (encodeNode km)⟩ : Table).rows).map (fun r => [(⟨(some "n0").getD "node", nodeCols, r⟩ : Binding)])) =
      g.nodes.map (nodeLvl km) := by
    simp [List.map_map, Function.comp_def, nodeLvl]
  rw [hrows]
  apply benT_bind (x := (g.nodes.filter (fun n => keepW n wsem)).map (nodeLvl km))
  · apply filterE_ben
    intro n hn
    cases w with
    | none =>
      cases wsem with
      | none => exact Or.inl rfl
      | some f => exact absurd hw id
    | some c =>
      cases wsem with
      | none => exact absurd hw id
      | some f =>
        simp only [WOK] at hw
        rcases hw n hn with h | ⟨u, h⟩
        · left; simp only [whTest, h, ebind_ok, epure_ok, isTrue_triVal, keepW]
        · right; exact ⟨u, by simp only [whTest, h]; rfl⟩
  · left
    have hm : ((g.nodes.filter (fun n => keepW n wsem)).map (nodeLvl km)).mapE
        (fun l => do let vals ← evalProj ((E0 (encode km g)).push l) l [S1.nodeComposite]; pure (vals, some ((E0 (encode km g)).push l))) =
        .ok ((g.nodes.filter (fun n => keepW n wsem)).map (fun n => ([nodeVal km n], some ((E0 (encode km g)).push (nodeLvl km n))))) := by
      apply mapE_of_forall₂
      generalize g.nodes.filter (fun n => keepW n wsem) = ns
      induction ns with
      | nil => exact .nil
      | cons n ns ih =>
        refine .cons ?_ ih
        rw [evalProj]
        · simp only [eval_nodeComposite, ebind_ok, evalProj, epure_ok]
        · intro hh; cases hh
    rw [hm]
    simp only [ebind_ok, epure_ok, List.map_map, Function.comp_def]
    rfl

-- ------------------------------------------------------------------ the outer select over s0

def sLvl (km : KindMap) (n : NodeRec) : Level := [⟨"s0", ["n0"], [nodeVal km n]⟩]

/-- the SQL value of a RETURN item on node `n` -/
def itemVal (km : KindMap) (n : NodeRec) : S1.Item → Val
  | .node _ => nodeVal km n
  | .prop k _ => (match Json.lookup k n.props with | some j => .jsonb j | none => .null)
  | .id _ => .int n.id

theorem eval_s0n0 (km : KindMap) (n : NodeRec) (E : EEnv) :
    evalExpr (E.push (sLvl km n)) (.compound ["s0", "n0"]) = .ok (nodeVal km n) := by
  rw [evalExpr]
  simp [EEnv.push, lookupQualifiedV, sLvl, findBinding, colVals]

theorem eval_outerCol (km : KindMap) (n : NodeRec) (E : EEnv) :
    evalExpr (E.push (sLvl km n)) (S1.outerCol "id") = .ok (.int n.id) ∧
    evalExpr (E.push (sLvl km n)) (S1.outerCol "properties") = .ok (.jsonb (.obj n.props)) := by
  constructor <;> (unfold S1.outerCol; rw [evalExpr, eval_s0n0]; simp [nodeVal, compositeFields, List.zip, List.lookup])

theorem rowCol_not_any (e : Expr) (c : String) : (∀ arr, Expr.rowCol e c ≠ .anyOf arr) ∧ (∀ arr, Expr.rowCol e c ≠ .allOf arr) := by
  constructor <;> (intro arr hh; cases hh)

theorem eval_outerArrow (km : KindMap) (n : NodeRec) (E : EEnv) (k : String) :
    evalExpr (E.push (sLvl km n)) (.bin "->" (S1.outerCol "properties") (S1.strLit k)) =
      .ok (match Json.lookup k n.props with | some j => .jsonb j | none => .null) := by
  rw [eval_bin _ _ _ _ (by decide) (strLit_not_any k).1 (strLit_not_any k).2]
  simp only [(eval_outerCol km n E).2, eval_strLit, ebind_ok]
  unfold binOp
  simp only [arrowOp, jsonGet]
  rfl

theorem eval_item (km : KindMap) (n : NodeRec) (E : EEnv) (v : String) (it : S1.Item) :
    evalExpr (E.push (sLvl km n)) (it.tr v) = .ok (itemVal km n it) := by
  cases it with
  | node a => simp only [S1.Item.tr]; rw [evalExpr, eval_s0n0]; rfl
  | prop k a =>
    cases a with
    | none => simp only [S1.Item.tr]; rw [eval_outerArrow]; rfl
    | some a => simp only [S1.Item.tr]; rw [evalExpr, eval_outerArrow]; rfl
  | id a =>
    cases a with
    | none => simp only [S1.Item.tr]; rw [(eval_outerCol km n E).1]; rfl
    | some a => simp only [S1.Item.tr]; rw [evalExpr, (eval_outerCol km n E).1]; rfl

theorem item_not_wildcard (v : String) (it : S1.Item) : it.tr v ≠ .wildcard := by
  cases it with
  | node a => intro hh; cases hh
  | prop k a => cases a <;> (intro hh; cases hh)
  | id a => cases a <;> (intro hh; simp only [S1.Item.tr, S1.outerCol] at hh; cases hh)

theorem evalProj_items (km : KindMap) (n : NodeRec) (E : EEnv) (v : String) (lvl : Level) : ∀ (items : List S1.Item),
    evalProj (E.push (sLvl km n)) lvl (items.map (S1.Item.tr v)) = .ok (items.map (itemVal km n))
  | [] => by rw [List.map_nil, evalProj]; rfl
  | it :: items => by
    rw [List.map_cons, evalProj]
    · rw [eval_item, evalProj_items km n E v lvl items]; rfl
    · intro hh; exact item_not_wildcard v it hh

theorem hasAgg_item (v : String) (it : S1.Item) : hasAgg (it.tr v) = false := by
  cases it with
  | node a => simp [S1.Item.tr, hasAgg]
  | prop k a => cases a <;> simp [S1.Item.tr, S1.outerCol, S1.strLit, hasAgg]
  | id a => cases a <;> simp [S1.Item.tr, S1.outerCol, hasAgg]

theorem hasAggL_items (v : String) : ∀ (items : List S1.Item), hasAggL (items.map (S1.Item.tr v)) = false
  | [] => by simp [hasAggL]
  | it :: items => by rw [List.map_cons, hasAggL, hasAgg_item, hasAggL_items v items]; rfl

theorem outer_rows (km : KindMap) (E : EEnv) (v : String) (items : List S1.Item) : ∀ (ns : List NodeRec),
    (ns.map (sLvl km)).mapE (fun l => do let vals ← evalProj (E.push l) l (items.map (S1.Item.tr v)); pure (vals, some (E.push l))) =
      .ok (ns.map (fun n => (items.map (itemVal km n), some (E.push (sLvl km n)))))
  | [] => rfl
  | n :: ns => by
    rw [List.map_cons, mapE_cons, evalProj_items, outer_rows km E v items ns]; rfl

theorem whTest_none (E : EEnv) : whTest E none = fun _ => Except.ok true := by
  funext l; rfl

/-- the outer select: one output row per frame row, in frame order -/
theorem outer_eval (km : KindMap) (db : Db) (ns : List NodeRec) (v : String) (items : List S1.Item) (t0 : Table)
    (ht0 : t0 = ⟨["n0"], ns.map (fun n => [nodeVal km n])⟩) :
    evalSetExpr (E1 db t0) (.select false (items.map (S1.Item.tr v)) [.mk (.table ["s0"] none) []] none [] none) =
      .ok (projNames (items.map (S1.Item.tr v)) (ns.map (sLvl km)),
           ns.map (fun n => (items.map (itemVal km n), some ((E1 db t0).push (sLvl km n))))) := by
  have hl : lookupTableE (E1 db t0) "s0" = .ok t0 := by simp [lookupTableE, E1]
  rw [evalSelect_single _ _ _ _ _ _ hl (hasAggL_items v items)]
  have hrows : (t0.rows.map (fun r => [(⟨(none : Option String).getD "s0", t0.cols, r⟩ : Binding)])) = ns.map (sLvl km) := by
    subst ht0
    simp [List.map_map, Function.comp_def, sLvl]
  rw [hrows, whTest_none, filterE_true]
  simp only [ebind_ok]
  rw [outer_rows]
  rfl

-- ------------------------------------------------------------------ specification of the result rows

/-- does node `n` satisfy the pattern's kinds and the WHERE predicate (three-valued: only `true` passes) -/
def keepS (s : S1.Query) (n : NodeRec) : Bool :=
  Cy.kindsAllOf n.kinds s.kinds && (match s.wh with | none => true | some p => sem n p == some true)

def idLe (asc : Bool) (a b : NodeRec) : Bool :=
  match intCmp a.id b.id with
  | .eq => true
  | .lt => asc
  | .gt => !asc

def cutN {α : Type} (skip limit : Option Nat) (xs : List α) : List α :=
  let xs := match skip with | some k => xs.drop k | none => xs
  match limit with | some k => xs.take k | none => xs

def ordNodes (o : Option S1.Order) (ns : List NodeRec) : List NodeRec :=
  match o with
  | none => ns
  | some o => cutN o.skip o.limit (sortBy (idLe o.asc) ns)

/-- THE SPECIFICATION: the nodes a S1 query returns, in result order -/
def specNodes (s : S1.Query) (g : Graph) : List NodeRec := ordNodes s.order (g.nodes.filter (keepS s))

-- ------------------------------------------------------------------ ORDER BY (s0.n0).id, OFFSET, LIMIT

theorem insertBy_map {α β : Type} (f : α → β) (le : α → α → Bool) (le' : β → β → Bool) (h : ∀ a b, le' (f a) (f b) = le a b) (x : α) :
    ∀ (xs : List α), insertBy le' (f x) (xs.map f) = (insertBy le x xs).map f
  | [] => rfl
  | y :: ys => by
    simp only [List.map_cons, insertBy, h]
    cases le x y
    · simp only [Bool.false_eq_true, if_false, List.map_cons, insertBy_map f le le' h x ys]
    · simp only [if_true, List.map_cons]

theorem sortBy_map {α β : Type} (f : α → β) (le : α → α → Bool) (le' : β → β → Bool) (h : ∀ a b, le' (f a) (f b) = le a b) :
    ∀ (xs : List α), sortBy le' (xs.map f) = (sortBy le xs).map f
  | [] => rfl
  | x :: xs => by
    show insertBy le' (f x) (sortBy le' (xs.map f)) = (insertBy le x (sortBy le xs)).map f
    rw [sortBy_map f le le' h xs, insertBy_map f le le' h]

theorem keysLe_id (asc : Bool) (a b : NodeRec) (x y : α) :
    keysLe ([(Val.int a.id, asc)], x).1 ([(Val.int b.id, asc)], y).1 = idLe asc a b := by
  simp only [keysLe, keyLe, valCmp, idLe]
  cases intCmp a.id b.id <;> rfl

theorem keysComparable_ids {α : Type} (asc : Bool) (f : α → Int) (ns : List α) :
    keysComparable (ns.map (fun n => [(Val.int (f n), asc)])) = true := by
  cases ns with
  | nil => rfl
  | cons n ns =>
    have hcol : ∀ (ms : List α), (ms.map (fun n => [(Val.int (f n), asc)])).filterMap (fun k => (k[0]?).map (·.1)) = ms.map (fun n => Val.int (f n)) := by
      intro ms; induction ms with
      | nil => rfl
      | cons m ms ih => simp [List.filterMap_cons, ih]
    have hf : ∀ (ms : List α), (ms.map (fun n => Val.int (f n))).filterMap sortFamily = ms.map (fun _ => 1) := by
      intro ms; induction ms with
      | nil => rfl
      | cons m ms ih => simp [List.filterMap_cons, sortFamily, ih]
    have hall : ∀ (ms : List α), (ms.map (fun n => Val.int (f n))).all (fun v => match v with | .jsonb (.obj _) => false | _ => true) = true := by
      intro ms; induction ms with
      | nil => rfl
      | cons m ms ih => simp [List.all_cons, ih]
    have hfil : ∀ (ms : List α), (ms.map (fun _ => 1)).filter (fun b => !b == 1) = [] := by
      intro ms; induction ms with
      | nil => rfl
      | cons m ms ih => simp [List.filter_cons, ih]
    rw [List.map_cons]
    unfold keysComparable
    simp only
    have h1 : ([(Val.int (f n), asc)] : List (Val × Bool)).length = 1 := rfl
    rw [h1, List.range_one, List.all_cons, List.all_nil, Bool.and_true, Bool.and_eq_true, decide_eq_true_eq]
    rw [← List.map_cons (f := fun n => [(Val.int (f n), asc)]), hcol, hf]
    refine ⟨?_, hall _⟩
    rw [List.map_cons, List.eraseDups_cons, hfil]
    decide

theorem intArg_nat (k : Nat) : intArg (.int (Int.ofNat k)) = .ok k := by
  unfold intArg
  have : ¬ (Int.ofNat k < 0) := by simp
  simp only [this, if_false]
  rfl

theorem cutRows_nat {α : Type} (skip limit : Option Nat) (rows : List α) :
    cutRows (skip.map (fun k => Val.int (Int.ofNat k))) (limit.map (fun k => Val.int (Int.ofNat k))) rows = .ok (cutN skip limit rows) := by
  cases skip <;> cases limit <;> simp only [cutRows, cutN, Option.map_none, Option.map_some, intArg_nat, ebind_ok, epure_ok]

theorem evalOpt_nat (E : EEnv) (k : Option Nat) : evalOpt E (k.map S1.natLitS) = .ok (k.map (fun k => Val.int (Int.ofNat k))) := by
  cases k with
  | none => simp only [Option.map_none, evalOpt]
  | some k => simp only [Option.map_some, evalOpt, S1.natLitS, eval_intLit, ebind_ok, epure_ok]

-- ------------------------------------------------------------------ the frame's WHERE

open Dawgs.Cy in
def semW (s : S1.Query) : Option (NodeRec → Cy.Tri) :=
  match s.wh, s.kinds.isEmpty with
  | none, true => none
  | none, false => some (fun n => sem n (.kinds s.kinds))
  | some p, true => some (fun n => sem n p)
  | some p, false => some (fun n => triAnd (sem n p) (sem n (.kinds s.kinds)))

theorem keepW_semW (s : S1.Query) (n : NodeRec) : keepW n (semW s) = keepS s n := by
  unfold semW keepS keepW
  cases hwh : s.wh with
  | none =>
    cases hk : s.kinds.isEmpty with
    | true =>
      have : s.kinds = [] := List.isEmpty_iff.mp hk
      simp [this, Cy.kindsAllOf]
    | false => simp [sem]
  | some p =>
    cases hk : s.kinds.isEmpty with
    | true =>
      have : s.kinds = [] := List.isEmpty_iff.mp hk
      simp [this, Cy.kindsAllOf]
    | false =>
      simp only [sem]
      cases sem n p with
      | none => cases Cy.kindsAllOf n.kinds s.kinds <;> rfl
      | some b => cases b <;> cases Cy.kindsAllOf n.kinds s.kinds <;> rfl

theorem whereOf_ok (km : KindMap) (g : Graph) (hok : GraphOK km g) (s : S1.Query) (w : Option Expr) (E : EEnv)
    (h : S1.whereOf km s = some w) : WOK km g E w (semW s) := by
  unfold S1.whereOf at h
  unfold semW WOK
  cases hk : s.kinds.isEmpty with
  | true =>
    simp only [hk, if_true] at h
    cases hwh : s.wh with
    | none => rw [hwh] at h; cases h; trivial
    | some p =>
      rw [hwh] at h
      simp only at h
      cases hp : S1.Pred.tr km p with
      | none => rw [hp] at h; cases h
      | some pe =>
        rw [hp] at h; cases h
        intro n hn
        exact paren_ben _ _ _ (sql_pred km n E hok.inj (hok.noNull n hn) p pe hp)
  | false =>
    simp only [hk, Bool.false_eq_true, if_false] at h
    cases hkt : S1.Pred.tr km (.kinds s.kinds) with
    | none => rw [hkt] at h; cases hwh : s.wh <;> (rw [hwh] at h; cases h)
    | some ke =>
      rw [hkt] at h
      cases hwh : s.wh with
      | none =>
        rw [hwh] at h; cases h
        intro n hn
        exact sql_pred km n E hok.inj (hok.noNull n hn) _ ke hkt
      | some p =>
        rw [hwh] at h
        simp only [Option.map_some] at h
        cases hp : S1.Pred.tr km p with
        | none => rw [hp] at h; cases h
        | some pe =>
          rw [hp] at h; cases h
          intro n hn
          exact and_ben _ _ _ _ _ (paren_ben _ _ _ (sql_pred km n E hok.inj (hok.noNull n hn) p pe hp))
            (sql_pred km n E hok.inj (hok.noNull n hn) _ ke hkt) (tr_not_any km _ ke hkt).1 (tr_not_any km _ ke hkt).2

-- ------------------------------------------------------------------ the SQL side of S1

theorem orderKeys_id (km : KindMap) (n : NodeRec) (E : EEnv) (names : List String) (vals : List Val) (asc : Bool) :
    evalOrderKeys names (vals, some (E.push (sLvl km n))) [(S1.outerCol "id", asc)] = .ok [(.int n.id, asc)] := by
  rw [evalOrderKeys]
  have hb : bareNameE (S1.outerCol "id") = none := rfl
  simp only [hb, (eval_outerCol km n E).1, ebind_ok, evalOrderKeys, epure_ok]

theorem orderKeys_nil (names : List String) (row : List Val × Option EEnv) : evalOrderKeys names row [] = .ok [] := by
  rw [evalOrderKeys]

/-- column names of the emitted statement's result (not part of the compared result) -/
def sqlNames (km : KindMap) (s : S1.Query) (g : Graph) : List String :=
  projNames (s.items.map (S1.Item.tr s.var)) ((g.nodes.filter (keepS s)).map (sLvl km))

/-- SQL SIDE: the emitted statement evaluates, on the encoded graph, to the specified nodes' item values in the specified order
(or the model stops with `unmodelled`) -/
theorem sql_side (km : KindMap) (g : Graph) (hok : GraphOK km g) (s : S1.Query) (st : Stmt) (h : s.tr km = some st) :
    BenignT (Sql.eval (encode km g) st [])
      (⟨sqlNames km s g, (specNodes s g).map (fun n => s.items.map (itemVal km n))⟩ : Table) := by
  unfold S1.Query.tr at h
  cases hwf : s.wf with
  | false => simp [hwf] at h
  | true =>
  simp only [hwf, Bool.not_true, Bool.false_eq_true, if_false] at h
  cases hwo : S1.whereOf km s with
  | none => rw [hwo] at h; cases h
  | some w =>
    rw [hwo] at h
    simp only [Option.some.injEq] at h
    subst h
    have hst := eval_s1Stmt (encode km g) w (s.items.map (S1.Item.tr s.var))
      (S1.orderKeysS s.order)
      (s.order.bind (fun o => o.skip.map S1.natLitS)) (s.order.bind (fun o => o.limit.map S1.natLitS))
    unfold s1Stmt at hst
    rw [hst]
    have hfr := frame_eval km g w (semW s) (whereOf_ok km g hok s w (E0 (encode km g)) hwo)
    apply benT_bind hfr
    left
    have hkeep : (fun n => keepW n (semW s)) = keepS s := by funext n; exact keepW_semW s n
    rw [hkeep]
    rw [outer_eval km (encode km g) (g.nodes.filter (keepS s)) s.var s.items _ rfl]
    simp only [ebind_ok]
    generalize hE : E1 (encode km g) ⟨["n0"], (g.nodes.filter (keepS s)).map (fun n => [nodeVal km n])⟩ = E
    unfold specNodes ordNodes sqlNames
    generalize g.nodes.filter (keepS s) = ns
    generalize projNames (s.items.map (S1.Item.tr s.var)) (ns.map (sLvl km)) = names
    cases ho : s.order with
    | none =>
      simp only [Option.bind_none, S1.orderKeysS]
      have hk : (ns.map (fun n => (s.items.map (itemVal km n), some (E.push (sLvl km n))))).mapE
          (fun row => do let k ← evalOrderKeys names row []; pure (k, row)) =
          .ok ((ns.map (fun n => (s.items.map (itemVal km n), some (E.push (sLvl km n))))).map (fun r => (([] : List (Val × Bool)), r))) := by
        simp only [orderKeys_nil, ebind_ok, epure_ok]
        exact mapE_pure _ _
      rw [hk]
      simp only [ebind_ok]
      rw [orderRows_nokeys]
      simp only [ebind_ok, evalOpt, cutRows_none, epure_ok, List.map_map, Function.comp_def]
    | some o =>
      simp only [Option.bind_some, S1.orderKeysS]
      have hk : (ns.map (fun n => (s.items.map (itemVal km n), some (E.push (sLvl km n))))).mapE
          (fun row => do let k ← evalOrderKeys names row [(S1.outerCol "id", o.asc)]; pure (k, row)) =
          .ok (ns.map (fun n => ([(Val.int n.id, o.asc)], (s.items.map (itemVal km n), some (E.push (sLvl km n)))))) := by
        apply mapE_of_forall₂
        induction ns with
        | nil => exact .nil
        | cons n ns ih => exact .cons (by rw [orderKeys_id]; rfl) ih
      rw [hk]
      simp only [ebind_ok]
      unfold orderRows
      have hkc : keysComparable ((ns.map (fun n => ([(Val.int n.id, o.asc)], (s.items.map (itemVal km n), some (E.push (sLvl km n)))))).map (·.1)) = true := by
        rw [List.map_map]
        exact keysComparable_ids o.asc (fun n => n.id) ns
      rw [hkc]
      simp only [if_true, ebind_ok]
      rw [sortBy_map (fun n => ([(Val.int n.id, o.asc)], (s.items.map (itemVal km n), some (E.push (sLvl km n))))) (idLe o.asc) _
        (fun a b => keysLe_id o.asc a b _ _)]
      rw [evalOpt_nat, evalOpt_nat]
      simp only [ebind_ok, cutRows_nat, epure_ok]
      congr 1
      cases o.skip <;> cases o.limit <;> simp [cutN, List.map_map, Function.comp_def, List.map_drop, List.map_take]

end Dawgs.C01.Proofs
