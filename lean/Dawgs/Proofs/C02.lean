import Dawgs.Model.C02
import Dawgs.Proofs.C01Query
/-
C02 proofs: the count-store fast path under `Sql.eval` (real statement shapes), on every encoded graph.
-/
namespace Dawgs.C02.Proofs
open Dawgs Dawgs.Sql Dawgs.C01 Dawgs.C01.Proofs

/-- GROUP BY nothing: all rows fall into the one group with the empty key, in input order -/
theorem group_all {α : Type} (pre : List α) : ∀ (rest : List α),
    (rest.map (fun l => (([] : List Val), l))).foldl (fun (acc : List (List Val × List α)) kl =>
        if acc.any (fun g => rowSame g.1 kl.1) then acc.map (fun g => if rowSame g.1 kl.1 then (g.1, g.2 ++ [kl.2]) else g)
        else acc ++ [(kl.1, [kl.2])]) [([], pre)] = [([], pre ++ rest)]
  | [] => by simp
  | x :: rest => by
    rw [List.map_cons, List.foldl_cons]
    have h : rowSame ([] : List Val) [] = true := rfl
    simp only [List.any_cons, List.any_nil, h, Bool.or_false, if_true, List.map_cons, List.map_nil]
    rw [group_all (pre ++ [x]) rest, List.append_assoc]
    rfl

theorem group_all' {α : Type} : ∀ (rows : List α),
    (rows.map (fun l => (([] : List Val), l))).foldl (fun (acc : List (List Val × List α)) kl =>
        if acc.any (fun g => rowSame g.1 kl.1) then acc.map (fun g => if rowSame g.1 kl.1 then (g.1, g.2 ++ [kl.2]) else g)
        else acc ++ [(kl.1, [kl.2])]) [] = (if rows.isEmpty then [] else [([], rows)])
  | [] => rfl
  | x :: rest => by
    rw [List.map_cons, List.foldl_cons]
    simp only [List.any_nil, Bool.false_eq_true, if_false, List.nil_append]
    rw [group_all [x] rest]
    rfl

theorem namedItems_none (E : EEnv) (e : Expr) : evalNamedItems E [] [e] = .ok [] := by
  rw [evalNamedItems, evalNamedItems]
  simp

theorem groupKey_nil (E : EEnv) (items : List (String × Val)) : evalGroupKey E items [] = .ok [] := by
  rw [evalGroupKey]

/-- `select count(arg)::int8 from <table> [where …]` without GROUP BY: one output row, the aggregate over all rows that pass WHERE -/
theorem evalSelect_count (E : EEnv) (t : String) (alias : Option String) (tbl : Table) (arg : Expr) (wh : Option Expr)
    (h : lookupTableE E t = .ok tbl) :
    evalSetExpr E (.select false [.call "count" [arg] false false "int8"] [.mk (.table [t] alias) []] wh [] none) =
      (do let rows ← (tbl.rows.map (fun r => [(⟨alias.getD t, tbl.cols, r⟩ : Binding)])).filterE (whTest E wh)
          let Eg : EEnv := { (E.push (rows.headD [])) with group := some rows }
          let v ← evalAggregate Eg rows "count" false [arg]
          let v' ← castVal "int8" v
          pure (["count"], [([v'], some Eg)])) := by
  rw [evalSetExpr]
  simp only [Option.isSome_none, Bool.false_eq_true, if_false, evalFrom_single E t alias tbl h, ebind_ok]
  have hagg : hasAggL [Expr.call "count" [arg] false false "int8"] = true := by
    simp [hasAggL, hasAgg, isAggFn]
  simp only [hagg, Bool.true_or, if_true, List.filterMap_nil]
  refine bind_congr (fun rows => ?_)
  simp only [namedItems_none, groupKey_nil, ebind_ok, epure_ok]
  rw [mapE_pure (fun l => (([] : List Val), l)) rows]
  simp only [ebind_ok, group_all']
  have hev : ∀ (Eg : EEnv) (lvl : Level), Eg.group = some rows →
      evalProj Eg lvl [Expr.call "count" [arg] false false "int8"] =
        (do let v ← evalAggregate Eg rows "count" false [arg]; let v' ← castVal "int8" v; pure [v']) := by
    intro Eg lvl hg
    rw [evalProj]
    · rw [evalExpr]
      have hc : isAggFn "count" = true := by decide
      simp only [hc, if_true, hg, evalProj, bind_assoc, ebind_ok, epure_ok]
    · intro hh; cases hh
  cases rows with
  | nil =>
    simp only [List.isEmpty_nil, Bool.and_self, if_true, mapE_singleton, List.headD_nil]
    rw [hev _ _ rfl]
    simp only [bind_assoc, ebind_ok, epure_ok, List.flatMap_cons, List.flatMap_nil, List.append_nil, figureNameE]
  | cons r rs =>
    simp only [List.isEmpty_cons, Bool.false_and, Bool.false_eq_true, if_false, mapE_singleton, List.headD_cons]
    rw [hev _ _ rfl]
    simp only [bind_assoc, ebind_ok, epure_ok, List.flatMap_cons, List.flatMap_nil, List.append_nil, figureNameE]

def cfpOptW (w : Option Expr) : Stmt :=
  .query (Query.simple (.select false [.call "count" [.wildcard] false false "int8"] [.mk (.table ["node"] (some "n0")) []] w [] none))

def cfpUnoptW (w : Option Expr) : Stmt := s1Stmt w [.call "count" [.compound ["s0", "n0"]] false false "int8"] [] none none

theorem castVal_int8 (i : Int) : castVal "int8" (.int i) = .ok (.int i) := castVal_int8_int i

/-- the number of nodes that pass the frame's WHERE -/
def passing (g : Graph) (wsem : Option (NodeRec → Cy.Tri)) : Nat := (g.nodes.filter (fun n => keepW n wsem)).length

theorem whTest_ben (km : KindMap) (g : Graph) (E : EEnv) (w : Option Expr) (wsem : Option (NodeRec → Cy.Tri)) (hw : WOK km g E w wsem) :
    ∀ n ∈ g.nodes, BenignT (whTest E w (nodeLvl km n)) (keepW n wsem) := by
  intro n hn
  cases w with
  | none =>
    cases wsem with
    | none => exact Or.inl rfl
    | some f => exact absurd hw id
  | some c =>
    cases wsem with
    | none => exact absurd hw id
    | some f =>
      simp only [WOK] at hw
      rcases hw n hn with h | ⟨u, h⟩
      · left; simp only [whTest, h, ebind_ok, epure_ok, isTrue_triVal, keepW]
      · right; exact ⟨u, by simp only [whTest, h]; rfl⟩

/-- optimised: `select count(*)::int8 from node n0 [where w]` -/
theorem cfpOpt_eval (km : KindMap) (g : Graph) (w : Option Expr) (wsem : Option (NodeRec → Cy.Tri))
    (hw : WOK km g (E0 (encode km g)) w wsem) :
    BenignT (Sql.eval (encode km g) (cfpOptW w) []) (⟨["count"], [[.int (passing g wsem)]]⟩ : Table) := by
  unfold cfpOptW
  show BenignT (evalQuery (E0 (encode km g)) _) _
  rw [evalQuery_simple, evalSelect_count _ _ _ _ _ _ (lookup_node_table km g)]
  have hrows : (((⟨nodeCols, g.nodes.map (encodeNode km)⟩ : Table).rows).map (fun r => [(⟨(some "n0").getD "node", nodeCols, r⟩ : Binding)])) =
      g.nodes.map (nodeLvl km) := by
    simp [List.map_map, Function.comp_def, nodeLvl]
  rw [hrows]
  simp only [bind_assoc]
  apply benT_bind (filterE_ben (nodeLvl km) _ (fun n => keepW n wsem) g.nodes (whTest_ben km g _ w wsem hw))
  left
  rw [evalAggregate]
  simp only [if_true, ebind_ok, castVal_int8, epure_ok, List.length_map, List.map_cons, List.map_nil, passing]
  rfl

theorem count_s0 (km : KindMap) (ns : List NodeRec) (Eg : EEnv) :
    (ns.map (sLvl km)).mapE (fun r => evalExpr (Eg.withRow r) (.compound ["s0", "n0"])) = .ok (ns.map (nodeVal km)) := by
  apply mapE_map_ok'
  intro n _
  rw [evalExpr]
  simp [EEnv.withRow, lookupQualifiedV, sLvl, findBinding, colVals]
where
  mapE_map_ok' {ε α β γ : Type} {f : α → β} {F : β → Except ε γ} {G : α → γ} {xs : List α}
      (h : ∀ x ∈ xs, F (f x) = .ok (G x)) : (xs.map f).mapE F = .ok (xs.map G) := by
    induction xs with
    | nil => rfl
    | cons x xs ih =>
      rw [List.map_cons, mapE_cons, h x (List.mem_cons_self ..), ih (fun y hy => h y (List.mem_cons_of_mem _ hy))]
      rfl

theorem filter_nonnull_nodeVal (km : KindMap) (ns : List NodeRec) :
    ((ns.map (nodeVal km)).filter (fun v => match v with | .null => false | _ => true)).length = ns.length := by
  induction ns with
  | nil => rfl
  | cons n ns ih => simp [List.filter_cons, nodeVal, ih]

/-- unoptimised: `with s0 as (select (…)::nodecomposite as n0 from node n0 [where w]) select count(s0.n0)::int8 from s0` -/
theorem cfpUnopt_eval (km : KindMap) (g : Graph) (w : Option Expr) (wsem : Option (NodeRec → Cy.Tri))
    (hw : WOK km g (E0 (encode km g)) w wsem) :
    BenignT (Sql.eval (encode km g) (cfpUnoptW w) []) (⟨["count"], [[.int (passing g wsem)]]⟩ : Table) := by
  unfold cfpUnoptW
  rw [eval_s1Stmt]
  apply benT_bind (frame_eval km g w wsem hw)
  left
  generalize hns : g.nodes.filter (fun n => keepW n wsem) = ns
  have hl : lookupTableE (E1 (encode km g) ⟨["n0"], ns.map (fun n => [nodeVal km n])⟩) "s0" = .ok ⟨["n0"], ns.map (fun n => [nodeVal km n])⟩ := by
    simp [lookupTableE, E1]
  rw [evalSelect_count _ _ _ _ _ _ hl]
  have hrows : (((⟨["n0"], ns.map (fun n => [nodeVal km n])⟩ : Table).rows).map (fun r => [(⟨(none : Option String).getD "s0", ["n0"], r⟩ : Binding)])) =
      ns.map (sLvl km) := by
    simp [List.map_map, Function.comp_def, sLvl]
  rw [hrows, whTest_none, filterE_true]
  simp only [ebind_ok]
  rw [evalAggregate]
  · rw [count_s0]
    simp only [ebind_ok, Bool.false_eq_true, if_false, epure_ok, filter_nonnull_nodeVal, castVal_int8, evalOrderKeys, mapE_singleton,
      orderRows, keysComparable, List.map_cons, List.map_nil]
    simp [passing, hns, evalOpt, cutRows, Sql.sortBy, Sql.insertBy]
    clear hl hrows hns hw
    induction ns with
    | nil => rfl
    | cons n ns ih => simp_all [List.filter_cons, nodeVal]
  · intro hh; cases hh

end Dawgs.C02.Proofs
