import Dawgs.Proofs.C01Count
import Dawgs.Proofs.C01S2Sound
/-
C01 / S2n — the count aggregate over one directed hop: the hop frame of stage S2b (pruned or complete, either join order) followed by
`select count(s0.<x>)::int8`; both sides return the number of matches.
-/
namespace Dawgs.C01.Proofs
open Dawgs Dawgs.Sql Dawgs.C02.Proofs

-- ------------------------------------------------------------------ Cypher side: count over any list of binding rows

section Cy
open Dawgs.Cy

/-- `RETURN count(v)` over rows that all bind `v` to a non-null value: one row, the number of rows -/
theorem cy_count_eval (g : Graph) (q : Cy.Query) (envs : List Env) (v : String) (al : Option String)
    (hparts : q.parts = []) (hcl : evalClauses .none g true [[]] q.clauses = .ok envs)
    (hret : q.ret = { distinct := false, all := false, items := [⟨.fn "count" false [.var v], al⟩], orderBy := [], skip := none, limit := none })
    (hv : ∀ env ∈ envs, ∃ cv, env.lookup v = some cv ∧ (match cv with | .null => false | _ => true) = true) :
    ∃ names, Cy.eval .none g q = .ok (names, [[.int envs.length]]) := by
  unfold Cy.eval
  simp only [hparts, evalParts, ebind_ok, List.isEmpty_nil, hcl, hret]
  unfold evalProjection
  have hagg : hasAggregate (.fn "count" false [.var v]) = true := by simp [hasAggregate, isAggregate]
  simp only [Bool.false_eq_true, if_false, List.any_cons, List.any_nil, hagg, Bool.or_false, if_true, Bool.or_true]
  have hgr : groupedRows .none g (Cy.projNames [⟨.fn "count" false [.var v], al⟩]) [⟨.fn "count" false [.var v], al⟩] envs =
      .ok [([.int envs.length], (Cy.projNames [⟨.fn "count" false [.var v], al⟩]).zip [CVal.int envs.length])] := by
    unfold groupedRows
    simp only [List.filter_cons, hagg, Bool.not_true, Bool.false_eq_true, if_false, List.filter_nil, List.map_nil, groupRows_nokeys, ebind_ok]
    have hev : ∀ (grp : List Env), (∀ env ∈ grp, ∃ cv, env.lookup v = some cv ∧ (match cv with | .null => false | _ => true) = true) →
        evalItem .none g grp (grp.headD []) (.fn "count" false [.var v]) = .ok (.int grp.length) := by
      intro grp hgrp
      unfold evalItem aggCall?
      simp only [isAggregate, List.contains_cons, beq_self_eq_true, Bool.true_or, if_true]
      unfold aggregate
      have hm : grp.mapE (fun env => Cy.evalExpr .none g env false (.var v)) = .ok (grp.map (fun env => (env.lookup v).getD .null)) := by
        have := mapE_map_ok (fun (e : Env) => e) (fun env => Cy.evalExpr .none g env false (.var v)) (fun env => (env.lookup v).getD .null) grp
          (fun env henv => by
            obtain ⟨cv, hi, _⟩ := hgrp env henv
            rw [Cy.evalExpr]; simp only [lookupVar, hi, Option.getD_some])
        simpa using this
      simp only [hm, ebind_ok, Bool.false_eq_true, if_false, epure_ok]
      congr 2
      rw [List.filter_eq_self.mpr ?_, List.length_map]
      intro w hw
      obtain ⟨env, henv, rfl⟩ := List.mem_map.mp hw
      obtain ⟨cv, hi, hnn⟩ := hgrp env henv
      simp only [hi, Option.getD_some]
      exact hnn
    cases envs with
    | nil =>
      simp only [List.isEmpty_nil, if_true, Bool.and_self, mapE_singleton]
      rw [hev [] (fun _ h => by cases h)]
      simp only [ebind_ok, epure_ok, List.length_nil]
    | cons e0 es =>
      simp only [List.isEmpty_cons, Bool.false_eq_true, if_false, Bool.false_and, mapE_singleton]
      rw [hev (e0 :: es) hv]
      simp only [ebind_ok, epure_ok]
  rw [hgr]
  simp only [ebind_ok, keyRows_none, intOf, cutKeyed, epure_ok, List.map_cons, List.map_nil, Bool.false_eq_true, if_false]
  exact ⟨_, rfl⟩

end Cy

-- ------------------------------------------------------------------ SQL side

/-- `count(s0.<x>)` over the rows of the (pruned) hop frame: every kept binding is a non-null composite -/
theorem count_s0K (km : KindMap) (ke ka kb : Bool) {T : Type} (ts : List T) (eOf : T → EdgeRec) (aOf bOf : T → NodeRec) (Eg : EEnv)
    (x : S2.Ref) (hk : keepOf ke ka kb x = true) :
    (ts.map (fun t => sLvlK km ke ka kb (eOf t) (aOf t) (bOf t))).mapE (fun r => evalExpr (Eg.withRow r) (S2.col "s0" (S2.frameName x))) =
      .ok (ts.map (fun t => refVal km (eOf t) (aOf t) (bOf t) x)) := by
  apply mapE_map_ok
  intro t _
  have := eval_s0colK km ke ka kb (eOf t) (aOf t) (bOf t) ⟨Eg.db, Eg.params, Eg.ctes, Eg.levels.tail, none⟩ x hk
  simpa [EEnv.withRow, EEnv.push] using this

/-- the whole count statement, given the frame's FROM rows in either join order and the meaning of its WHERE -/
theorem sql_hop_count (km : KindMap) (g : Graph) (al : Option String) (x : S2.Ref) (ke ka kb : Bool) (hk : keepOf ke ka kb x = true)
    {T : Type} (ts : List T) (lv : T → Level) (eOf : T → EdgeRec) (aOf bOf : T → NodeRec) (joins : List Join)
    (hfrom : BenignT (evalFromClauses (E0 (encode km g)) [[]] [.mk (.table ["edge"] (some "e0")) joins]) (ts.map lv))
    (hb : ∀ t ∈ ts, findBinding "e0" (lv t) = some (eB km (eOf t)) ∧ findBinding "n0" (lv t) = some (nB "n0" km (aOf t)) ∧
      findBinding "n1" (lv t) = some (nB "n1" km (bOf t)))
    (wh : Option Expr) (pw : T → Bool) (hwh : ∀ t ∈ ts, BenignT (whTest (E0 (encode km g)) wh (lv t)) (pw t)) :
    BenignT (Sql.eval (encode km g) (.query (.mk false
      [.mk "s0" none none (Query.simple (.select false (S2.frameProj ke ka kb) [.mk (.table ["edge"] (some "e0")) joins] wh [] none))]
      (.select false [S1c.countItem al (S2.col "s0" (S2.frameName x))] [.mk (.table ["s0"] none) []] none [] none) [] none none)) [])
      (⟨[countName al], [[.int (ts.filter pw).length]]⟩ : Table) := by
  rw [eval_cteStmt]
  generalize hts : ts.filter pw = ts'
  generalize ht0 : (⟨keptCols ke ka kb, ts'.map (fun t => keptVals km ke ka kb (eOf t) (aOf t) (bOf t))⟩ : Table) = t0
  have hfr := hop_frame_ben km g ke ka kb ts lv eOf aOf bOf _ hfrom hb wh pw hwh
  rw [hts, ht0] at hfr
  apply benT_bind hfr
  left
  have hl : lookupTableE (E1 (encode km g) t0) "s0" = .ok t0 := by simp [lookupTableE, E1]
  have hrows : (t0.rows.map (fun r => [(⟨(none : Option String).getD "s0", t0.cols, r⟩ : Binding)])) = ts'.map (fun t => sLvlK km ke ka kb (eOf t) (aOf t) (bOf t)) := by
    subst ht0
    simp [List.map_map, Function.comp_def, sLvlK]
  rw [evalSelect_countA _ _ _ _ _ _ _ hl, hrows, whTest_none, filterE_true]
  simp only [ebind_ok]
  rw [evalAggregate]
  · rw [count_s0K km ke ka kb ts' eOf aOf bOf _ x hk]
    simp only [ebind_ok, Bool.false_eq_true, if_false, epure_ok, castVal_int8, List.map_cons, List.map_nil]
    rw [List.filter_eq_self.mpr ?_, List.length_map]
    intro v hv
    obtain ⟨t, _, rfl⟩ := List.mem_map.mp hv
    cases x <;> simp [refVal, nodeVal, edgeVal]
  · intro hh; unfold S2.col at hh; cases hh

/-- STAGE S2n (count over one directed hop), for ALL graphs satisfying `GraphOK2`, ALL queries of the stage, BOTH join orders and the frame
pruned or complete: the reference semantics yields one row with the number of matches; the emitted statement yields the same row, or the
SQL model stops with `unmodelled` -/
theorem count_hop_sound (km : KindMap) (g : Graph) (hok : GraphOK2 km g) (q : S2n.Query) (flip prune : Bool) (st : Stmt)
    (h : q.trWith km flip prune = some st) :
    ∃ r names rows, Cy.eval .none g q.toCy = .ok r ∧ BenignT (Sql.eval (encode km g) st []) (⟨names, rows⟩ : Table) ∧
      sqlRows ⟨names, rows⟩ = cyRows g km r := by
  have hnd := hok.nodup
  have hinj := hok.inj
  have hn : ∀ n ∈ g.nodes, g.node? n.id = some n := find_of_nodup g.nodes hnd
  have he : ∀ e ∈ g.edges, g.edge? e.id = some e := fun e hm => hok.edge? e hm
  unfold S2n.Query.trWith at h
  cases hwf : q.base.wf with
  | false => simp [hwf] at h
  | true =>
  simp only [hwf, Bool.not_true, Bool.false_eq_true, if_false] at h
  cases hka : S2.kindIds? km q.akinds with
  | none => simp [hka] at h
  | some ka =>
  cases hkr : S2.kindIds? km q.rkinds with
  | none => simp [hka, hkr] at h
  | some kr =>
  cases hkb : S2.kindIds? km q.bkinds with
  | none => simp [hka, hkr, hkb] at h
  | some kb =>
  cases hpa : S2.predsE km "n0" false (q.base.preds .a) with
  | none => simp [hka, hkr, hkb, hpa] at h
  | some pa =>
  cases hpr : S2.predsE km "e0" true (q.base.preds .r) with
  | none => simp [hka, hkr, hkb, hpa, hpr] at h
  | some pr =>
  cases hpb : S2.predsE km "n1" false (q.base.preds .b) with
  | none => simp [hka, hkr, hkb, hpa, hpr, hpb] at h
  | some pb =>
  simp only [hka, hkr, hkb, hpa, hpr, hpb, Option.some.injEq] at h
  -- Cypher side: the matches of the hop that pass WHERE, then count
  have hclause := clause_hop g q.base hwf hn he
  have hcy := cy_count_eval g q.toCy _ (q.base.name q.x) q.alias rfl hclause rfl (by
    intro env henv
    obtain ⟨m, _, rfl⟩ := List.mem_map.mp henv
    obtain ⟨la, lr, lb⟩ := hopEnv_lookup q.base hwf m.1 m.2.1 m.2.2
    cases hx : q.x with
    | a => exact ⟨_, by simpa [S2.Query.name, hx] using la, rfl⟩
    | r => exact ⟨_, by simpa [S2.Query.name, hx] using lr, rfl⟩
    | b => exact ⟨_, by simpa [S2.Query.name, hx] using lb, rfl⟩)
  obtain ⟨names, hcy⟩ := hcy
  rw [List.length_map] at hcy
  have hkeep : keepOf (!prune || q.base.reads .r) (!prune || q.base.reads .a) (!prune || q.base.reads .b) q.x = true := by
    have hr : q.base.reads q.x = true := by
      unfold S2.Query.reads S2n.Query.base
      simp [S2.Item.ref]
    cases hx : q.x <;> (rw [hx] at hr; simp [keepOf, hr])
  have hCyPerm : (g.edges.flatMap (fun e => (g.nodes.filter (pA q.base e)).flatMap (fun a => hopF g q.base e a))).Perm (hopMatchesCy g q.base) := by
    rw [hopMatchesCy_eq]
    exact flatMap_filter_swap (pA q.base) (hopF g q.base) g.edges g.nodes
  have honA : ∀ (l : Level) (e : EdgeRec) (n : NodeRec), e ∈ g.edges → n ∈ g.nodes → findBinding "e0" l = some (eB km e) →
      findBinding "n0" l = some (nB "n0" km n) →
      BenignT (whTest (E0 (encode km g)) (some (S2.joinOnC "n0" "start_id" (S2.both pa (S2.nodeKindsE "n0" ka)))) l) (pA' q.base e n) :=
    fun l e n _ hnm hfe hfn => joinOnC_ben km hinj _ l "n0" "start_id" e n e.start hfn (hok.noNull n hnm)
      (lookup_e0 km l _ e hfe).2.1 q.akinds ka hka (q.base.preds .a) pa hpa
  have honB : ∀ (l : Level) (e : EdgeRec) (n : NodeRec), e ∈ g.edges → n ∈ g.nodes → findBinding "e0" l = some (eB km e) →
      findBinding "n1" l = some (nB "n1" km n) →
      BenignT (whTest (E0 (encode km g)) (some (S2.joinOnC "n1" "end_id" (S2.both pb (S2.nodeKindsE "n1" kb)))) l) (pB' q.base e n) :=
    fun l e n _ hnm hfe hfn => joinOnC_ben km hinj _ l "n1" "end_id" e n e.stop hfn (hok.noNull n hnm)
      (lookup_e0 km l _ e hfe).2.2.1 q.bkinds kb hkb (q.base.preds .b) pb hpb
  have hrowsEq : ∀ (k : Nat), k = (whereMatchesCy g q.base).length →
      sqlRows ⟨[countName q.alias], [[.int k]]⟩ = cyRows g km (names, [[Cy.CVal.int ((whereMatchesCy g q.base).length)]]) := by
    intro k hk'
    simp [sqlRows, cyRows, valsToR, valToR, Cy.CVal.toR, hk']
  cases flip with
  | false =>
    simp only [Bool.false_eq_true, if_false] at h
    subst h
    have hfrom := hop_from_ben km g "n0" "n1" _ _ (pA' q.base) (pB' q.base) (by decide) (by decide) (by decide) honA honB
    have hsql := sql_hop_count km g q.alias q.x _ _ _ hkeep (hopTriples g (pA' q.base) (pB' q.base)) (fun t => [eB km t.1.1, nB "n0" km t.1.2, nB "n1" km t.2])
      (fun t => t.1.1) (fun t => t.1.2) (fun t => t.2) _ hfrom
      (fun t _ => ⟨by simp [findBinding, eB], by simp [findBinding, eB, nB], by simp [findBinding, eB, nB]⟩)
      _ (fun t => wR' q.base t.1.1)
      (fun t ht => hop_where_ben km hinj _ _ t.1.1 (by simp [findBinding, eB]) (hok.edgeKinds _ (hopTriples_mem g _ _ t ht))
        (hok.edgeNoNull _ (hopTriples_mem g _ _ t ht)) q.rkinds kr hkr (q.base.preds .r) pr hpr)
    have hM : (((hopTriples g (pA' q.base) (pB' q.base)).filter (fun t => wR' q.base t.1.1)).map (fun t => (t.1.2, t.1.1, t.2))).Perm (whereMatchesCy g q.base) := by
      rw [sqlMatches'_eq, whereMatchesCy_eq, sqlMatches_eq g hnd q.base]
      exact hCyPerm.filter _
    have hlen := hM.length_eq
    rw [List.length_map] at hlen
    exact ⟨_, _, _, hcy, hsql, hrowsEq _ hlen⟩
  | true =>
    simp only [if_true] at h
    subst h
    have hfrom := hop_from_ben km g "n1" "n0" _ _ (pB' q.base) (pA' q.base) (by decide) (by decide) (by decide) honB honA
    have hsql := sql_hop_count km g q.alias q.x _ _ _ hkeep (hopTriples g (pB' q.base) (pA' q.base)) (fun t => [eB km t.1.1, nB "n1" km t.1.2, nB "n0" km t.2])
      (fun t => t.1.1) (fun t => t.2) (fun t => t.1.2) _ hfrom
      (fun t _ => ⟨by simp [findBinding, eB], by simp [findBinding, eB, nB], by simp [findBinding, eB, nB]⟩)
      _ (fun t => wR' q.base t.1.1)
      (fun t ht => hop_where_ben km hinj _ _ t.1.1 (by simp [findBinding, eB]) (hok.edgeKinds _ (hopTriples_mem g _ _ t ht))
        (hok.edgeNoNull _ (hopTriples_mem g _ _ t ht)) q.rkinds kr hkr (q.base.preds .r) pr hpr)
    have hM : (((hopTriples g (pB' q.base) (pA' q.base)).filter (fun t => wR' q.base t.1.1)).map (fun t => (t.2, t.1.1, t.1.2))).Perm (whereMatchesCy g q.base) := by
      rw [sqlMatches'_flip_eq, whereMatchesCy_eq]
      exact ((sqlMatches_flip_perm g hnd q.base).trans hCyPerm).filter _
    have hlen := hM.length_eq
    rw [List.length_map] at hlen
    exact ⟨_, _, _, hcy, hsql, hrowsEq _ hlen⟩

/-- an accepted parsed query is exactly the Cypher reading of the S2n query returned -/
theorem ofCyCount2_sound (q : Cy.Query) (s : S2n.Query) (h : ofCyCount2 q = some s) : s.toCy = q := by
  unfold ofCyCount2 at h
  split at h
  · rename_i a akinds r rkinds b bkinds wh hparts hclauses
    split at h
    · cases h
    · rename_i hcond
      simp only [Bool.or_eq_true, not_or, Bool.not_eq_true, Bool.not_eq_true'] at hcond
      simp only [bind, Option.bind_eq_some_iff] at h
      obtain ⟨cs, hcs, h⟩ := h
      split at h
      · rename_i v al hitems
        simp only [Option.bind_eq_some_iff] at h
        obtain ⟨x, hx, h⟩ := h
        split at h
        · simp only [pure, Option.some.injEq] at h
          subst h
          have hwh := whereOf2_sound (S2n.Query.base ⟨a, r, b, akinds, rkinds, bkinds, cs, x, al⟩) wh hcs
          have hname := refOf2_name a r b v x hx (S2n.Query.base ⟨a, r, b, akinds, rkinds, bkinds, cs, x, al⟩) rfl rfl rfl
          cases q with
          | mk parts clauses ret =>
            cases ret with
            | mk distinct all ritems orderBy rskip rlimit =>
              simp only at hparts hclauses hcond hitems
              subst hparts hclauses hitems
              simp only [S2n.Query.toCy, S2.Query.toCy, hwh, hname, Cy.Query.mk.injEq, Cy.Projection.mk.injEq, true_and]
              simp_all [S2n.Query.base]
        · cases h
      · cases h
  · cases h

end Dawgs.C01.Proofs
