/- C15: what holds of `componentReachDFS` AS THE CODE HAS IT (either variant): it never reports or caches an
unreachable component (helper lemmas; statement `reach_cache_sound_partial` in Props/C15.lean). -/
import Dawgs.Proofs.C15
set_option linter.unusedSimpArgs false
set_option linter.unusedVariables false
namespace Dawgs.C15
open Dawgs.C16 (Sieve Ideal)

section Sound
variable {σ : Type} (C : CacheI σ) (Rep : σ → Ideal → Prop) (adjf : Nat → List Nat)

/-- bit set `r` contains `c` and only components reachable from `c` -/
def SoundBits (c r : Nat) : Prop := hasBit r c = true ∧ ∀ x, hasBit r x = true → Reach adjf c x

def CacheSound (m : Ideal) : Prop := ∀ k v, m.get k = some v → SoundBits adjf k v

theorem cacheSound_put {m : Ideal} (hm : CacheSound adjf m) {k v : Nat} (hv : SoundBits adjf k v) :
    CacheSound adjf (m.put k v) := by
  intro x w hx
  rw [Dawgs.C16.Ideal.get_put] at hx
  by_cases hxk : x = k
  · simp [hxk] at hx; subst hx; subst hxk; exact hv
  · simp [hxk] at hx; exact hm x w hx

structure SCur (rootComp : Nat) (X : RCur) : Prop where
  adj_eq : X.adj = adjf X.comp
  self : hasBit X.reach X.comp = true
  sound : ∀ z, hasBit X.reach z = true → Reach adjf X.comp z
  fromRoot : Reach adjf rootComp X.comp

/-- each cursor was pushed for a neighbour of the cursor below it -/
def Linked : List RCur → Prop
  | [] => True
  | [_] => True
  | X :: P :: rest => X.comp ∈ P.adj ∧ Linked (P :: rest)

structure SInv (s : DState σ) : Prop where
  cache : ∃ m, Rep s.cache m ∧ CacheSound adjf m
  root : SCur adjf s.root.comp s.root
  curs : ∀ X, X ∈ s.stack → SCur adjf s.root.comp X
  linked : Linked s.stack

theorem putCursor_sound (hL : Lawful C Rep) (fixed : Bool) {cache : σ} {m : Ideal} (hrep : Rep cache m)
    (hex : CacheSound adjf m) (X : RCur) (hX : SoundBits adjf X.comp X.reach) :
    ∃ m', Rep (putCursor C fixed cache X) m' ∧ CacheSound adjf m' := by
  unfold putCursor
  split
  · exact ⟨m, hrep, hex⟩
  · exact ⟨m.put X.comp X.reach, hL.put_rep _ _ _ _ hrep, cacheSound_put adjf hex hX⟩

theorem newCursor_scur (rootComp n : Nat) (h : Reach adjf rootComp n) : SCur adjf rootComp (newCursor adjf n) := by
  refine ⟨rfl, ?_, newCursor_sound adjf n, h⟩
  show hasBit (bitsOf (adjf n ++ [n])) n = true
  rw [hasBit_bitsOf]; simp

theorem dfsStep_sinv (hL : Lawful C Rep) (fixed : Bool) (s : DState σ) (hinv : SInv Rep adjf s) :
    match dfsStep C adjf fixed s with
    | .running s' => SInv Rep adjf s' ∧ s'.root.comp = s.root.comp
    | .done cache' r => SoundBits adjf s.root.comp r ∧ ∃ m, Rep cache' m ∧ CacheSound adjf m := by
  obtain ⟨cache, root, stack⟩ := s
  obtain ⟨m, hrep, hex⟩ := hinv.cache
  have hroot := hinv.root
  have hcurs := hinv.curs
  have hlink := hinv.linked
  simp only at hroot hcurs hlink
  cases stack with
  | nil =>
    cases hn : root.adj[root.idx]? with
    | none =>
      simp only [dfsStep, hn]
      have hb : SoundBits adjf root.comp root.reach := ⟨hroot.self, hroot.sound⟩
      exact ⟨hb, m.put root.comp root.reach, hL.put_rep _ _ _ _ hrep, cacheSound_put adjf hex hb⟩
    | some n =>
      have hnadj : n ∈ adjf root.comp := hroot.adj_eq ▸ getElem?_mem hn
      cases hv : hasBit root.reach n with
      | true =>
        simp only [dfsStep, hn, hv, if_true]
        exact ⟨⟨⟨m, hrep, hex⟩, ⟨hroot.adj_eq, hroot.self, hroot.sound, hroot.fromRoot⟩, by simp, trivial⟩, by first | rfl | trivial⟩
      | false =>
        cases hg : (C.get cache n).2 with
        | some r =>
          simp only [dfsStep, hn, hv, hg]
          have hr := hex n r (hL.get_hit _ _ _ _ hrep hg)
          refine ⟨⟨⟨m, hL.get_rep _ _ _ hrep, hex⟩, ⟨hroot.adj_eq, ?_, ?_, hroot.fromRoot⟩, by simp, trivial⟩, by first | rfl | trivial⟩
          · exact hasBit_or_left (hasBit_setBit_of _ _ _ hroot.self)
          · intro z hz
            rcases hasBit_or_iff.1 hz with h | h
            · rcases (hasBit_setBit _ _ _).1 h with h | rfl
              · exact hroot.sound z h
              · exact Reach.single hnadj
            · exact Reach.head hnadj (hr.2 z h)
        | none =>
          simp only [dfsStep, hn, hv, hg]
          refine ⟨⟨⟨m, hL.get_rep _ _ _ hrep, hex⟩, ⟨hroot.adj_eq, hasBit_setBit_of _ _ _ hroot.self, ?_, hroot.fromRoot⟩,
            ?_, trivial⟩, by first | rfl | trivial⟩
          · intro z hz
            rcases (hasBit_setBit _ _ _).1 hz with h | rfl
            · exact hroot.sound z h
            · exact Reach.single hnadj
          · intro X hX; simp at hX; subst hX
            exact newCursor_scur adjf _ n (Reach.single hnadj)
  | cons top rest =>
    have htop := hcurs top (by simp)
    cases hn : top.adj[top.idx]? with
    | none =>
      have hcache := putCursor_sound C Rep adjf hL fixed hrep hex top ⟨htop.self, htop.sound⟩
      cases rest with
      | nil =>
        simp only [dfsStep, hn]
        refine ⟨⟨hcache, ⟨hroot.adj_eq, hasBit_or_left hroot.self, ?_, hroot.fromRoot⟩, by simp, trivial⟩, by first | rfl | trivial⟩
        intro z hz
        rcases hasBit_or_iff.1 hz with h | h
        · exact hroot.sound z h
        · exact htop.fromRoot.trans (htop.sound z h)
      | cons P rest' =>
        simp only [dfsStep, hn]
        have hP := hcurs P (by simp)
        have hl : top.comp ∈ P.adj ∧ Linked (P :: rest') := hlink
        refine ⟨⟨hcache, hroot, ?_, ?_⟩, by first | rfl | trivial⟩
        · intro X hX
          simp at hX
          rcases hX with rfl | hX
          · refine ⟨hP.adj_eq, hasBit_or_left hP.self, ?_, hP.fromRoot⟩
            intro z hz
            rcases hasBit_or_iff.1 hz with h | h
            · exact hP.sound z h
            · exact (Reach.single (hP.adj_eq ▸ hl.1)).trans (htop.sound z h)
          · exact hcurs X (by simp [hX])
        · cases rest' with
          | nil => trivial
          | cons Q r2 => exact hl.2
    | some n =>
      have hnadj : n ∈ adjf top.comp := htop.adj_eq ▸ getElem?_mem hn
      have hlink' : ∀ T : RCur, T.comp = top.comp → T.adj = top.adj → Linked (T :: rest) := by
        intro T h1 h2
        cases rest with
        | nil => trivial
        | cons P r2 => exact ⟨h1 ▸ hlink.1, hlink.2⟩
      cases hv : hasBit root.reach n with
      | true =>
        simp only [dfsStep, hn, hv, if_true]
        refine ⟨⟨⟨m, hrep, hex⟩, hroot, ?_, hlink' _ rfl rfl⟩, by first | rfl | trivial⟩
        intro X hX
        simp at hX
        rcases hX with rfl | hX
        · exact ⟨htop.adj_eq, htop.self, htop.sound, htop.fromRoot⟩
        · exact hcurs X (by simp [hX])
      | false =>
        have hroot' : SCur adjf root.comp { root with reach := setBit root.reach n } := by
          refine ⟨hroot.adj_eq, hasBit_setBit_of _ _ _ hroot.self, ?_, hroot.fromRoot⟩
          intro z hz
          rcases (hasBit_setBit _ _ _).1 hz with h | rfl
          · exact hroot.sound z h
          · exact htop.fromRoot.trans (Reach.single hnadj)
        cases hg : (C.get cache n).2 with
        | some r =>
          simp only [dfsStep, hn, hv, hg]
          have hr := hex n r (hL.get_hit _ _ _ _ hrep hg)
          refine ⟨⟨⟨m, hL.get_rep _ _ _ hrep, hex⟩, hroot', ?_, hlink' _ rfl rfl⟩, by first | rfl | trivial⟩
          intro X hX
          simp at hX
          rcases hX with rfl | hX
          · refine ⟨htop.adj_eq, hasBit_or_left htop.self, ?_, htop.fromRoot⟩
            intro z hz
            rcases hasBit_or_iff.1 hz with h | h
            · exact htop.sound z h
            · exact Reach.head hnadj (hr.2 z h)
          · exact hcurs X (by simp [hX])
        | none =>
          simp only [dfsStep, hn, hv, hg]
          refine ⟨⟨⟨m, hL.get_rep _ _ _ hrep, hex⟩, hroot', ?_, ?_⟩, by first | rfl | trivial⟩
          · intro X hX
            simp at hX
            rcases hX with rfl | rfl | hX
            · exact newCursor_scur adjf _ n (htop.fromRoot.trans (Reach.single hnadj))
            · exact ⟨htop.adj_eq, htop.self, htop.sound, htop.fromRoot⟩
            · exact hcurs X (by simp [hX])
          · exact ⟨by simpa [newCursor] using getElem?_mem hn, hlink' _ rfl rfl⟩

theorem dfsLoop_sinv (hL : Lawful C Rep) (fixed : Bool) (fuel : Nat) (s : DState σ) (hinv : SInv Rep adjf s)
    (cache' : σ) (r : Nat) (h : dfsLoop C adjf fixed fuel s = some (cache', r)) :
    SoundBits adjf s.root.comp r ∧ ∃ m, Rep cache' m ∧ CacheSound adjf m := by
  induction fuel generalizing s with
  | zero => simp [dfsLoop] at h
  | succ fuel ih =>
    unfold dfsLoop at h
    have := dfsStep_sinv C Rep adjf hL fixed s hinv
    cases hs : dfsStep C adjf fixed s with
    | running s' =>
      rw [hs] at this h
      have h2 := ih s' this.1 h
      rw [this.2] at h2
      exact h2
    | done c r' =>
      rw [hs] at this h
      simp at h
      obtain ⟨rfl, rfl⟩ := h
      exact this

/-- either variant of `componentReachDFS`: sound answers, sound cache -/
theorem reachDFS_sound (hL : Lawful C Rep) (fixed : Bool) (fuel : Nat) (cache : σ) (m : Ideal) (hrep : Rep cache m)
    (hex : CacheSound adjf m) (c : Nat) (cache' : σ) (r : Nat)
    (h : reachDFS C adjf fixed fuel cache c = some (cache', r)) :
    SoundBits adjf c r ∧ ∃ m', Rep cache' m' ∧ CacheSound adjf m' := by
  unfold reachDFS at h
  cases hg : (C.get cache c).2 with
  | some r' =>
    rw [hg] at h
    simp at h
    obtain ⟨rfl, rfl⟩ := h
    exact ⟨hex c r' (hL.get_hit _ _ _ _ hrep hg), m, hL.get_rep _ _ _ hrep, hex⟩
  | none =>
    rw [hg] at h
    simp only at h
    refine dfsLoop_sinv C Rep adjf hL fixed fuel _ ?_ cache' r h
    refine ⟨⟨m, hL.get_rep _ _ c hrep, hex⟩, ⟨rfl, hasBit_setBit_self _ _, ?_, Reach.refl _⟩, by simp, trivial⟩
    intro z hz
    rcases (hasBit_setBit _ _ _).1 hz with h' | rfl
    · simp [hasBit_zero] at h'
    · exact Reach.refl _

end Sound

end Dawgs.C15
