import Dawgs.Model.C01Limit
import Dawgs.Proofs.C01S2Sound
/-
C01 / S2L — one directed hop with `LIMIT k`, no ORDER BY, no SKIP; the LIMIT on the statement only, or on the statement and on the hop frame
(limit pushdown). Everything is stated against the rows of the base query (the query without LIMIT).
-/
namespace Dawgs.C01.Proofs
open Dawgs Dawgs.Sql

section Cy
open Dawgs.Cy

/-- rows without sort keys all tie: a cut after k rows is a choice exactly when 0 < k < number of rows -/
theorem tieAt_nokeys (rows : List (List CVal × Env)) (k : Nat) :
    tieAt (rows.map (fun r => (([] : List (CVal × Bool)), r))) k = (decide (0 < k) && decide (k < rows.length)) := by
  unfold tieAt
  by_cases hk : 0 < k
  · by_cases hl : k < rows.length
    · have h1 : k - 1 < rows.length := by omega
      simp [hk, hl, h1]
    · have : rows.length ≤ k := by omega
      simp [hk, hl]
  · simp [hk]

/-- CYPHER SIDE of S2L: the reference semantics refuses the query when the LIMIT would have to choose among rows (0 < k < number of base
rows); otherwise it returns the first k (= all, or none) of the base rows -/
theorem cy_side2_lim (g : Graph) (q : S2L.Query) (hwf : q.base.wf = true) (hn : ∀ n ∈ g.nodes, g.node? n.id = some n) (he : ∀ e ∈ g.edges, g.edge? e.id = some e) :
    Cy.eval .none g q.toCy =
      if 0 < q.k ∧ q.k < (whereMatchesCy g q.base).length then .error "nondeterministic-limit-inside-ties"
      else .ok (Cy.projNames (q.base.items.map (S2.Item.toCy q.base)),
        ((whereMatchesCy g q.base).take q.k).map (fun m => q.base.items.map (itemC2 m.1 m.2.1 m.2.2))) := by
  have hc := clause_hop g q.base hwf hn he
  unfold Cy.eval
  have hparts : q.toCy.parts = [] := rfl
  have hcl : q.toCy.clauses = q.base.toCy.clauses := rfl
  simp only [hparts, hcl, evalParts, ebind_ok, List.isEmpty_nil, hc]
  unfold evalProjection
  have hall : q.toCy.ret.all = false := rfl
  have hdist : q.toCy.ret.distinct = false := rfl
  have hitems : q.toCy.ret.items = q.base.items.map (S2.Item.toCy q.base) := rfl
  have hob : q.toCy.ret.orderBy = [] := rfl
  have hskip : q.toCy.ret.skip = none := rfl
  have hlim : q.toCy.ret.limit = (some q.k).map S1.natLit := rfl
  simp only [hall, hdist, hitems, hob, hskip, hlim, Bool.false_eq_true, if_false, anyAgg_items2, Bool.or_self]
  have hpr : plainRows .none g (Cy.projNames (q.base.items.map (S2.Item.toCy q.base))) (q.base.items.map (S2.Item.toCy q.base))
      ((whereMatchesCy g q.base).map (fun m => (hopState q.base m.1 m.2.1 m.2.2).env)) =
      .ok ((whereMatchesCy g q.base).map (fun m => (q.base.items.map (itemC2 m.1 m.2.1 m.2.2),
        (Cy.projNames (q.base.items.map (S2.Item.toCy q.base))).zip (q.base.items.map (itemC2 m.1 m.2.1 m.2.2)) ++ (hopState q.base m.1 m.2.1 m.2.2).env))) := by
    unfold plainRows
    apply mapE_map_ok
    intro m hm
    obtain ⟨h1, h2, h3, _, _⟩ := hopMatches_mem g q.base hn he m (whereMatches_mem g q.base m hm)
    have : (q.base.items.map (S2.Item.toCy q.base)).mapE (fun it => Cy.evalExpr .none g (hopState q.base m.1 m.2.1 m.2.2).env false it.e) =
        .ok (q.base.items.map (itemC2 m.1 m.2.1 m.2.2)) :=
      mapE_map_ok _ _ _ q.base.items (fun it _ => eval_itemC2 g q.base hwf m.1 m.2.1 m.2.2 h1 h2 h3 it)
    simp only [this, ebind_ok, epure_ok]
  rw [hpr]
  simp only [ebind_ok, keyRows_none, intOf_nat, show intOf .none g none = .ok none from rfl, cutKeyed, tieAt_nokeys, List.length_map,
    Bool.false_eq_true, if_false]
  by_cases hk : 0 < q.k ∧ q.k < (whereMatchesCy g q.base).length
  · simp [hk]
  · have : (decide (0 < q.k) && decide (q.k < (whereMatchesCy g q.base).length)) = false := by
      cases hd : (decide (0 < q.k) && decide (q.k < (whereMatchesCy g q.base).length)) with
      | false => rfl
      | true =>
        simp only [Bool.and_eq_true, decide_eq_true_eq] at hd
        exact absurd hd hk
    simp only [this, hk, Bool.false_eq_true, if_false, epure_ok, List.map_take, List.map_map, Function.comp_def]
    simp only [ebind_ok, epure_ok, List.map_take, List.map_map, Function.comp_def]

end Cy

/-- `xs` is a sub-bag of `ys`: `ys` is `xs` plus some rest, in some order -/
def SubBag {α : Type} (xs ys : List α) : Prop := ∃ rest, (xs ++ rest).Perm ys

/-- the client-visible row of one match -/
def rowOf2 (km : KindMap) (g : Graph) (q : S2.Query) (m : NodeRec × EdgeRec × NodeRec) : List RVal :=
  q.items.map (fun it => Cy.CVal.toR g km (itemC2 m.1 m.2.1 m.2.2 it))

/-- client-visible rows of the statement over any list of matches drawn from Cypher's matches -/
theorem rows_conv (km : KindMap) (g : Graph) (q : S2.Query) (hn : ∀ n ∈ g.nodes, g.node? n.id = some n) (he : ∀ e ∈ g.edges, g.edge? e.id = some e)
    (names : List String) (M : List (NodeRec × EdgeRec × NodeRec)) (hM : ∀ m ∈ M, m ∈ whereMatchesCy g q) :
    sqlRows ⟨names, M.map (fun m => q.items.map (itemVal2 km m.2.1 m.1 m.2.2))⟩ = M.map (rowOf2 km g q) := by
  unfold sqlRows rowOf2
  simp only [List.map_map, Function.comp_def]
  apply List.map_congr_left
  intro m hm
  obtain ⟨h1, h2, h3, _, _⟩ := hopMatches_mem g q hn he m (whereMatches_mem g q m (hM m hm))
  rw [valsToR_map, List.map_map]
  apply List.map_congr_left
  intro it _
  exact item2_toR km g m.1 m.2.1 m.2.2 h1 h2 h3 it

theorem cyRows_conv (km : KindMap) (g : Graph) (q : S2.Query) (names : List String) (M : List (NodeRec × EdgeRec × NodeRec)) :
    cyRows g km (names, M.map (fun m => q.items.map (itemC2 m.1 m.2.1 m.2.2))) = M.map (rowOf2 km g q) := by
  unfold cyRows rowOf2
  simp only [List.map_map, Function.comp_def]

/-- STAGE S2L (one directed hop, optional WHERE, LIMIT k without ORDER BY / SKIP), for ALL graphs satisfying `GraphOK2`, ALL queries of the
stage, BOTH join orders, the frame pruned or complete, the LIMIT pushed into the frame or not: the BASE query (without LIMIT) has a
reference result; the emitted statement either stops with `unmodelled`, or yields a table whose client-visible rows are
 (1) the first k rows of a list `M` that depends on the join order ONLY (not on pruning, not on the pushdown) and is a permutation of the
     base query's matches — hence
 (2) a sub-bag of the base query's rows, and
 (3) exactly min(k, number of base rows) many. -/
theorem s2l_sound (km : KindMap) (g : Graph) (hok : GraphOK2 km g) (q : S2L.Query) (flip prune push : Bool) (st : Stmt)
    (h : q.trWith km flip prune push = some st) :
    ∃ r names rows, Cy.eval .none g q.base.toCy = .ok r ∧ BenignT (Sql.eval (encode km g) st []) (⟨names, rows⟩ : Table) ∧
      sqlRows ⟨names, rows⟩ = ((hopM g q.base flip).take q.k).map (rowOf2 km g q.base) ∧
      ((hopM g q.base flip).map (rowOf2 km g q.base)).Perm (cyRows g km r) ∧
      SubBag (sqlRows ⟨names, rows⟩) (cyRows g km r) ∧
      rows.length = min q.k r.2.length := by
  have hn : ∀ n ∈ g.nodes, g.node? n.id = some n := find_of_nodup g.nodes hok.nodup
  have he : ∀ e ∈ g.edges, g.edge? e.id = some e := fun e hm => hok.edge? e hm
  have h' : q.base.stmtWith km flip prune ((if push then some q.k else none).map S1.natLitS) ((some q.k).map S1.natLitS) = some st := by
    cases push <;> exact h
  obtain ⟨r, names, hcy, hM, hsql, hr⟩ := s2_sound_lim km g hok q.base flip prune _ _ st h'
  have hcut : cutN none (some q.k) (cutN none (if push then some q.k else none) (hopM g q.base flip)) = (hopM g q.base flip).take q.k := by
    cases push <;> simp [cutN, List.take_take]
  rw [hcut] at hsql
  have hsubM : ∀ m ∈ (hopM g q.base flip).take q.k, m ∈ whereMatchesCy g q.base :=
    fun m hm => hM.subset ((List.take_sublist _ _).subset hm)
  have hrows := rows_conv km g q.base hn he names _ hsubM
  have hcyr : cyRows g km r = (whereMatchesCy g q.base).map (rowOf2 km g q.base) := by rw [hr]; exact cyRows_conv km g q.base _ _
  have hperm : ((hopM g q.base flip).map (rowOf2 km g q.base)).Perm (cyRows g km r) := by rw [hcyr]; exact hM.map _
  refine ⟨r, names, _, hcy, hsql, hrows, hperm, ?_, ?_⟩
  · rw [hrows]
    refine ⟨((hopM g q.base flip).drop q.k).map (rowOf2 km g q.base), ?_⟩
    rw [← List.map_append, List.take_append_drop]
    exact hperm
  · rw [List.length_map, List.length_take, hr, List.length_map, hM.length_eq]

-- ------------------------------------------------------------------ the recogniser and the stage split

theorem ofCyLimit2_sound (q : Cy.Query) (s : S2L.Query) (h : ofCyLimit2 q = some s) : s.toCy = q := by
  unfold ofCyLimit2 at h
  split at h
  · rename_i i hl
    split at h
    · cases h
    · rename_i hi
      split at h
      · rename_i b hb
        cases h
        have hq := ofCy2_sound _ _ hb
        unfold S2L.Query.toCy
        rw [hq]
        cases q with
        | mk parts clauses ret =>
          cases ret with
          | mk distinct all ritems orderBy rskip rlimit =>
            simp only at hl
            subst hl
            have : ((i.toNat : Nat) : Int) = i := Int.toNat_of_nonneg (by omega)
            simp only [S1.natLit, this]
      · cases h
  · cases h

theorem tr6_some (flipOf : S2.Query → Bool) (flipCh : Ch.Query → Bool) (flipN : S2n.Query → Bool) (fast prune push : Bool) (km : KindMap) (q : Cy.Query)
    (st : Stmt) (ps : List (String × Val)) (h : tr6F flipOf flipCh flipN fast prune push km q = some (st, ps)) :
    (ofCyLimit2 q = none ∧ tr5F flipOf flipCh flipN fast prune km q = some (st, ps)) ∨
    (∃ s : S2L.Query, ofCyLimit2 q = some s ∧ s.toCy = q ∧ s.trWith km (flipOf s.base) prune push = some st ∧ ps = []) := by
  unfold tr6F at h
  cases ho : ofCyLimit2 q with
  | none => rw [ho] at h; exact Or.inl ⟨rfl, h⟩
  | some s =>
    rw [ho] at h
    simp only [Option.map_eq_some_iff] at h
    obtain ⟨st', hst, heq⟩ := h
    cases heq
    exact Or.inr ⟨s, rfl, ofCyLimit2_sound q s ho, hst, rfl⟩

end Dawgs.C01.Proofs
