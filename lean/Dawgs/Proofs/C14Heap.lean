/- Helper lemmas for C14: projection handles are immutable values (non-interference), nested projections compose. -/
import Dawgs.Proofs.C14Glue
set_option linter.unusedSimpArgs false
set_option linter.unusedVariables false
namespace Dawgs.C14

theorem lookup_hset_eq {α : Type} (hs : List (String × α)) (n : String) (v : α) : (hset hs n v).lookup n = some v := by
  unfold hset
  induction hs with
  | nil => simp [List.lookup]
  | cons p hs ih =>
    obtain ⟨k, w⟩ := p
    by_cases e : k = n
    · subst e; simpa [List.filter_cons] using ih
    · have : (k != n) = true := by simpa using e
      have hne : (n == k) = false := by simpa using fun h : n = k => e h.symm
      simp only [List.filter_cons, this, if_true, List.cons_append, List.lookup_cons, hne]
      exact ih

theorem lookup_hset_ne {α : Type} (hs : List (String × α)) {n h : String} (v : α) (hne : h ≠ n) :
    (hset hs n v).lookup h = hs.lookup h := by
  unfold hset
  induction hs with
  | nil =>
    have : (h == n) = false := by simpa using hne
    simp [List.lookup, this]
  | cons p hs ih =>
    obtain ⟨k, w⟩ := p
    by_cases e : k = n
    · subst e
      have hk : (h == k) = false := by simpa using hne
      simp only [List.filter_cons, bne_self_eq_false, Bool.false_eq_true, if_false, List.lookup_cons, hk]
      exact ih
    · have : (k != n) = true := by simpa using e
      simp only [List.filter_cons, this, if_true, List.cons_append, List.lookup_cons]
      cases hk : (h == k)
      · exact ih
      · rfl

theorem HState.step_derive_some (s : HState) (n p : String) (dn de : List Nat) (pv : List Nat × List Nat)
    (h : s.handles.lookup p = some pv) :
    s.step (.derive n p dn de) = { s with handles := hset s.handles n (sunion pv.1 (sofList dn), sunion pv.2 (sofList de)) } := by
  show (match s.handles.lookup p with | some pv => _ | none => s) = _
  rw [h]

theorem HState.step_derive_none (s : HState) (n p : String) (dn de : List Nat) (h : s.handles.lookup p = none) :
    s.step (.derive n p dn de) = s := by
  show (match s.handles.lookup p with | some pv => _ | none => s) = _
  rw [h]

/-- one step leaves every handle it does not (re)bind exactly as it was -/
theorem HState.step_lookup (s : HState) (op : HOp) (h : String) (hb : op.binds ≠ some h) :
    (s.step op).handles.lookup h = s.handles.lookup h := by
  cases op with
  | build o => rfl
  | del id => rfl
  | fromStore n dn de =>
    have : h ≠ n := fun e => hb (by simp [HOp.binds, e])
    exact lookup_hset_ne _ _ this
  | derive n p dn de =>
    have : h ≠ n := fun e => hb (by simp [HOp.binds, e])
    cases hl : s.handles.lookup p with
    | none => rw [HState.step_derive_none s n p dn de hl]
    | some pv => rw [HState.step_derive_some s n p dn de pv hl]; exact lookup_hset_ne _ _ this

theorem HState.foldl_lookup (ops : List HOp) : ∀ (s : HState) (h : String), (∀ op ∈ ops, op.binds ≠ some h) →
    (ops.foldl HState.step s).handles.lookup h = s.handles.lookup h := by
  induction ops with
  | nil => intro s h _; rfl
  | cons op ops ih =>
    intro s h hb
    rw [List.foldl_cons, ih _ h (fun o ho => hb o (List.mem_cons_of_mem _ ho)), HState.step_lookup s op h (hb op (by simp))]

/-- the store of a run is related to the graph of its build operations; tombstones and handles do not matter -/
theorem HState.ts_rel (ops : List HOp) : (HState.run ops).ts.Rel (G.ofRun ops) := by
  unfold HState.run G.ofRun
  refine foldl_rel (fun (s : HState) (g : G) => s.ts.Rel g) HState.step G.hstep ?_ ops {} {} TS.rel_empty
  intro s g op r
  cases op with
  | build o => exact TS.rel_step r o
  | del id => exact { edges := r.edges, start := r.start, stop := r.stop, nodes := r.nodes, asc := r.asc }
  | fromStore n dn de => exact r
  | derive n p dn de =>
    show (HState.step s (.derive n p dn de)).ts.Rel g
    cases hl : s.handles.lookup p with
    | none => rw [HState.step_derive_none s n p dn de hl]; exact r
    | some pv => rw [HState.step_derive_some s n p dn de pv hl]; exact r

theorem contains_sunion (a c : List Nat) (x : Nat) : (sunion a (sofList c)).contains x = (a.contains x || c.contains x) := by
  rw [Bool.eq_iff_iff]
  simp [mem_sunion, mem_sofList]

/-- projecting a projection = projecting once by the accumulated deletions -/
theorem G.project_project (g : G) (a b c d : List Nat) :
    (g.project a b).project c d = g.project (sunion a (sofList c)) (sunion b (sofList d)) := by
  unfold G.project G.dropNodes G.dropEdges
  simp only [List.filter_filter]
  congr 1
  · apply List.filter_congr
    intro n _
    rw [contains_sunion]
    cases a.contains n <;> cases c.contains n <;> rfl
  · apply List.filter_congr
    intro e _
    rw [contains_sunion, contains_sunion, contains_sunion]
    cases a.contains e.start <;> cases c.contains e.start <;> cases a.contains e.stop <;> cases c.contains e.stop <;>
      cases b.contains e.id <;> cases d.contains e.id <;> rfl

end Dawgs.C14
