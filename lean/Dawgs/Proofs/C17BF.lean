/- Helper lemmas for C17 (b): the BreadthFirst protocol LTS. Property statements live in Props/C17.lean. -/
import Dawgs.Proofs.C17Pipe
import Mathlib.Data.Multiset.Basic
import Mathlib.Data.Multiset.AddSub
import Mathlib.Algebra.Order.Group.Multiset
import Mathlib.Algebra.BigOperators.Group.List.Basic
import Mathlib.Tactic.Abel
set_option linter.unusedSimpArgs false
set_option linter.unusedVariables false
namespace Dawgs.C17

/-! ### trees -/

@[simp] theorem nodesL_nil : nodesL [] = [] := by simp [nodesL]
@[simp] theorem nodesL_cons (t : T) (ts : List T) : nodesL (t :: ts) = t.nodes ++ nodesL ts := by simp [nodesL]
theorem T.nodes_eq (t : T) : t.nodes = t :: nodesL t.kids := by
  cases t with | node i ks => simp [T.nodes, T.kids]
@[simp] theorem nodesL_append (a b : List T) : nodesL (a ++ b) = nodesL a ++ nodesL b := by
  induction a with
  | nil => simp
  | cons t ts ih => simp [ih, List.append_assoc]

/-- number of nodes -/
def T.sz (t : T) : Nat := t.nodes.length
def szL (l : List T) : Nat := (nodesL l).length
theorem T.sz_eq (t : T) : t.sz = 1 + szL t.kids := by
  unfold T.sz szL; rw [T.nodes_eq]; simp; omega
theorem T.sz_pos (t : T) : 1 ≤ t.sz := by rw [T.sz_eq]; omega
@[simp] theorem szL_nil : szL [] = 0 := by simp [szL]
@[simp] theorem szL_cons (t : T) (l : List T) : szL (t :: l) = t.sz + szL l := by simp [szL, T.sz]
@[simp] theorem szL_append (a b : List T) : szL (a ++ b) = szL a + szL b := by simp [szL]

/-- multiset of nodes of a forest -/
def nm (l : List T) : Multiset T := ↑(nodesL l)
@[simp] theorem nm_nil : nm [] = 0 := by simp [nm]
@[simp] theorem nm_append (a b : List T) : nm (a ++ b) = nm a + nm b := by simp [nm]
theorem nm_cons (t : T) (l : List T) : nm (t :: l) = nm [t] + nm l := by
  rw [show t :: l = [t] ++ l from rfl, nm_append]
theorem nm_single (t : T) : nm [t] = {t} + nm t.kids := by
  simp only [nm, nodesL_cons, nodesL_nil, List.append_nil]; rw [T.nodes_eq]; rfl

/-! ### generic: replacing one list element -/

theorem sum_set_nat (f : WState → Nat) (ws : List WState) (i : Nat) (w w' : WState) (h : ws[i]? = some w) :
    ((ws.set i w').map f).sum + f w = (ws.map f).sum + f w' := by
  induction ws generalizing i with
  | nil => simp at h
  | cons x xs ih =>
    cases i with
    | zero =>
      simp only [List.getElem?_cons_zero, Option.some.injEq] at h; subst h
      simp only [List.set_cons_zero, List.map_cons, List.sum_cons]; omega
    | succ j =>
      simp only [List.getElem?_cons_succ] at h; have := ih j h
      simp only [List.set_cons_succ, List.map_cons, List.sum_cons]; omega

theorem sum_set_ms (f : WState → Multiset T) (ws : List WState) (i : Nat) (w w' : WState) (h : ws[i]? = some w) :
    ((ws.set i w').map f).sum + f w = (ws.map f).sum + f w' := by
  induction ws generalizing i with
  | nil => simp at h
  | cons x xs ih =>
    cases i with
    | zero =>
      simp only [List.getElem?_cons_zero, Option.some.injEq] at h; subst h
      simp only [List.set_cons_zero, List.map_cons, List.sum_cons]
      abel
    | succ j =>
      simp only [List.getElem?_cons_succ] at h; have := ih j h
      simp only [List.set_cons_succ, List.map_cons, List.sum_cons]
      rw [add_assoc, this, add_assoc]

theorem exists_of_sum_pos (f : WState → Nat) (ws : List WState) (h : 0 < (ws.map f).sum) :
    ∃ (i : Nat) (w : WState), ws[i]? = some w ∧ 0 < f w := by
  induction ws with
  | nil => simp at h
  | cons x xs ih =>
    simp at h
    by_cases hx : 0 < f x
    · exact ⟨0, x, by simp, hx⟩
    · obtain ⟨i, w, hi, hw⟩ := ih (by omega)
      exact ⟨i + 1, w, by simpa using hi, hw⟩

theorem sum_pos_of_mem (f : WState → Nat) (ws : List WState) (i : Nat) (w : WState) (h : ws[i]? = some w)
    (hw : 0 < f w) : 0 < (ws.map f).sum := by
  induction ws generalizing i with
  | nil => simp at h
  | cons x xs ih =>
    cases i with
    | zero => simp at h; subst h; simp; omega
    | succ j => simp at h; have := ih j h; simp; omega

/-! ### worker step, relational form -/

inductive WStep (cfg : Cfg) (sh : Shared) : WState → WAct → Shared → WState → Prop where
  | recv {s : T} {rest : List T} : sh.pipe.phase ≠ .done → sh.pipe.buf = s :: rest →
      WStep cfg sh .idle .recv (sh.setPipe { sh.pipe with buf := rest, delivered := sh.pipe.delivered ++ [s] }) (.got s)
  | exitIdle : sh.cancelled = true → WStep cfg sh .idle .exitIdle sh .exited
  | memErr {s : T} : WStep cfg sh (.got s) .memErr { sh with lost := s :: sh.lost } .failed
  | driverOk {s : T} : WStep cfg sh (.got s) .driverOk { sh with expanded := sh.expanded ++ [s] } (.sub s.kids)
  | driverErr {s : T} : WStep cfg sh (.got s) .driverErr
      { sh with expanded := sh.expanded ++ [s], lost := s.kids ++ sh.lost } .failed
  | driverErrSilent {s : T} : WStep cfg sh (.got s) .driverErrSilent
      { sh with expanded := sh.expanded ++ [s], lost := s.kids ++ sh.lost } .failedSilent
  | inc {c : T} {rest : List T} : WStep cfg sh (.sub (c :: rest)) .inc { sh with count := sh.count + 1 } (.incd c rest)
  | submit {c : T} {rest : List T} : sh.pipe.phase = .loop →
      WStep cfg sh (.incd c rest) .submit
        (sh.setPipe { sh.pipe with buf := sh.pipe.buf ++ [c], submitted := sh.pipe.submitted ++ [c] }) (.sub rest)
  | submitDrop {c : T} {rest : List T} : sh.cancelled = true →
      WStep cfg sh (.incd c rest) .submitDrop { sh with lost := c :: sh.lost, dropUnits := sh.dropUnits + 1 } (.sub rest)
  | dec : WStep cfg sh (.sub []) .dec { sh with count := sh.count - 1 } .decd
  | compl : sh.compl < 2 * cfg.n → WStep cfg sh .decd .compl { sh with compl := sh.compl + 1 } .idle
  | complCancel : sh.cancelled = true → WStep cfg sh .decd .complCancel sh .exited
  | fail : WStep cfg sh .failed .fail
      { (sh.setPipe { sh.pipe with cancelled := true }) with err := true } .exitedFailed
  | failSilentFixed : cfg.fixed = true →
      WStep cfg sh .failedSilent .failSilent
        { (sh.setPipe { sh.pipe with cancelled := true }) with err := sh.err || !sh.cancelled } .exitedFailed
  | failSilent : cfg.fixed = false → WStep cfg sh .failedSilent .failSilent sh .exitedFailed

theorem wstep_sound {cfg : Cfg} {sh sh' : Shared} {w w' : WState} {a : WAct}
    (h : wstep cfg sh w a = some (sh', w')) : WStep cfg sh w a sh' w' := by
  cases w <;> cases a <;> try simp only [wstep, reduceCtorEq] at h
  case idle.recv =>
    split at h
    · next s rest p' hb hs =>
      obtain ⟨hp, v, r, hb', rfl⟩ := Pipe.step_send hs
      rw [hb] at hb'; cases hb'
      cases h; exact WStep.recv hp hb
    · cases h
  case idle.exitIdle =>
    split at h
    · next hc => cases h; exact WStep.exitIdle hc
    · cases h
  case got.memErr => cases h; exact WStep.memErr
  case got.driverOk => cases h; exact WStep.driverOk
  case got.driverErr => cases h; exact WStep.driverErr
  case got.driverErrSilent => cases h; exact WStep.driverErrSilent
  case sub.inc rest =>
    cases rest with
    | nil => simp [wstep] at h
    | cons c rest => simp only [wstep] at h; cases h; exact WStep.inc
  case sub.dec rest =>
    cases rest with
    | nil => simp only [wstep] at h; cases h; exact WStep.dec
    | cons c rest => simp [wstep] at h
  case incd.submit =>
    split at h
    · next p' hs =>
      obtain ⟨hp, rfl⟩ := Pipe.step_recv hs
      cases h; exact WStep.submit hp
    · cases h
  case incd.submitDrop =>
    split at h
    · next hc => cases h; exact WStep.submitDrop hc
    · cases h
  case decd.compl =>
    split at h
    · next hc => cases h; exact WStep.compl hc
    · cases h
  case decd.complCancel =>
    split at h
    · next hc => cases h; exact WStep.complCancel hc
    · cases h
  case failed.fail => cases h; exact WStep.fail
  case failedSilent.failSilent =>
    split at h
    · next hf => cases h; exact WStep.failSilentFixed hf
    · next hf => cases h; exact WStep.failSilent (by simpa using hf)

/-! ### bookkeeping functions of the invariants -/

/-- counter units held by a worker: the segment being expanded (+1 for a child already counted but
not yet submitted). A worker that failed keeps its unit for ever (it never runs `Add(-1)`). -/
def wt : WState → Nat
  | .got _ => 1
  | .sub _ => 1
  | .incd _ _ => 2
  | .failed => 1
  | .failedSilent => 1
  | .exitedFailed => 1
  | _ => 0

/-- subtrees held by a worker whose nodes have not been handed to the driver yet -/
def pend : WState → List T
  | .got s => [s]
  | .sub rest => rest
  | .incd c rest => c :: rest
  | _ => []

def cwt : CState → Nat
  | .c1 => 1
  | _ => 0

def cpend (root : T) : CState → List T
  | .c0 => [root]
  | .c1 => [root]
  | _ => []

def isFailedish : WState → Nat
  | .failed => 1
  | .failedSilent => 1
  | .exitedFailed => 1
  | _ => 0

def isDecd : WState → Nat
  | .decd => 1
  | _ => 0

def isExitedN : WState → Nat
  | .exited => 1
  | .exitedFailed => 1
  | _ => 0

def wtSum (ws : List WState) : Nat := (ws.map wt).sum
def pendSum (ws : List WState) : Multiset T := (ws.map (fun w => nm (pend w))).sum
def failSum (ws : List WState) : Nat := (ws.map isFailedish).sum
def decdSum (ws : List WState) : Nat := (ws.map isDecd).sum
def exitedSum (ws : List WState) : Nat := (ws.map isExitedN).sum

theorem isFailedish_le_wt (w : WState) : isFailedish w ≤ wt w := by cases w <;> simp [isFailedish, wt]
theorem failSum_le_wtSum (ws : List WState) : failSum ws ≤ wtSum ws := by
  induction ws with
  | nil => simp [failSum, wtSum]
  | cons x xs ih =>
    have := isFailedish_le_wt x
    simp only [failSum, wtSum, List.map_cons, List.sum_cons] at *; omega

/-! ### local (one worker) effect of a step on each invariant -/

theorem WStep.cnt {cfg sh w a sh' w'} (h : WStep cfg sh w a sh' w') :
    sh'.count + ((wt w + sh.pipe.buf.length + sh.dropUnits : Nat) : Int) =
      sh.count + ((wt w' + sh'.pipe.buf.length + sh'.dropUnits : Nat) : Int) := by
  cases h <;> simp [wt, Shared.setPipe] <;> try omega
  case recv hp hb => rw [hb]; simp; omega

theorem WStep.tree {cfg sh w a sh' w'} (h : WStep cfg sh w a sh' w') :
    (↑sh'.expanded : Multiset T) + nm sh'.pipe.buf + nm (pend w') + nm sh'.lost =
      ↑sh.expanded + nm sh.pipe.buf + nm (pend w) + nm sh.lost := by
  cases h <;> simp only [pend, Shared.setPipe, nm_nil, nm_append, add_zero] <;> try rfl
  case recv s rest hp hb => rw [hb, nm_cons s rest]; abel
  case memErr s => rw [nm_cons s sh.lost]; abel
  case driverOk s => rw [nm_single s, ← Multiset.coe_add, Multiset.coe_singleton]; abel
  case driverErr s => rw [nm_single s, ← Multiset.coe_add, Multiset.coe_singleton]; abel
  case driverErrSilent s => rw [nm_single s, ← Multiset.coe_add, Multiset.coe_singleton]; abel
  case submit c rest hp => rw [nm_cons c rest]; abel
  case submitDrop c rest hc => rw [nm_cons c rest, nm_cons c sh.lost]; abel

theorem WStep.cancelled_mono {cfg sh w a sh' w'} (h : WStep cfg sh w a sh' w') :
    sh.cancelled = true → sh'.cancelled = true := by
  cases h <;> simp [Shared.cancelled, Shared.setPipe]

theorem WStep.lostc {cfg sh w a sh' w'} (h : WStep cfg sh w a sh' w') :
    sh.dropUnits ≤ sh'.dropUnits ∧ isFailedish w ≤ isFailedish w' ∧
    (sh'.lost = sh.lost ∨ sh.dropUnits < sh'.dropUnits ∨ 0 < isFailedish w') := by
  cases h <;> simp [isFailedish, Shared.setPipe]

/-! ### global steps -/

inductive BF.Reach (cfg : Cfg) : BF → Prop where
  | init : BF.Reach cfg (BF.init cfg)
  | step {s s' : BF} {a : Act} : BF.Reach cfg s → s.step cfg a = some s' → BF.Reach cfg s'

theorem step_w_inv {cfg : Cfg} {s s' : BF} {i : Nat} {a : WAct} (h : s.step cfg (.w i a) = some s') :
    ∃ w sh' w', s.ws[i]? = some w ∧ WStep cfg s.sh w a sh' w' ∧ s' = { s with sh := sh', ws := s.ws.set i w' } := by
  simp only [BF.step] at h
  split at h
  · cases h
  · next w hw =>
    split at h
    · cases h
    · next sh' w' hs => cases h; exact ⟨w, sh', w', hw, wstep_sound hs, rfl⟩

/-- safety invariant (holds for the code as it is and for the repaired variant) -/
structure Inv (cfg : Cfg) (s : BF) : Prop where
  cnt : s.sh.count = ((s.sh.pipe.buf.length + wtSum s.ws + cwt s.coord + s.sh.dropUnits : Nat) : Int)
  tree : (↑cfg.root.nodes : Multiset T) =
    ↑s.sh.expanded + nm s.sh.pipe.buf + pendSum s.ws + nm (cpend cfg.root s.coord) + nm s.sh.lost
  lostc : s.sh.lost ≠ [] → 0 < s.sh.dropUnits ∨ 0 < failSum s.ws
  len : s.ws.length = cfg.n

theorem sum_replicate_zero (f : WState → Nat) (n : Nat) (w : WState) (h : f w = 0) :
    ((List.replicate n w).map f).sum = 0 := by
  induction n with
  | zero => rfl
  | succ k ih => simp [List.replicate_succ, h, ih]

theorem pendSum_replicate_idle (n : Nat) : pendSum (List.replicate n .idle) = 0 := by
  induction n with
  | zero => rfl
  | succ k ih => simp [pendSum, List.replicate_succ, pend] at *

theorem inv_init (cfg : Cfg) : Inv cfg (BF.init cfg) := by
  refine ⟨?_, ?_, ?_, ?_⟩
  · have := sum_replicate_zero wt cfg.n .idle rfl
    simp only [BF.init, wtSum, this, cwt]; rfl
  · simp [BF.init, pendSum_replicate_idle, cpend, nm]
  · intro h; exact absurd rfl h
  · simp [BF.init]

theorem inv_step_w {cfg : Cfg} {s : BF} {i : Nat} {w w' : WState} {a : WAct} {sh' : Shared}
    (hi : Inv cfg s) (hw : s.ws[i]? = some w) (hs : WStep cfg s.sh w a sh' w') :
    Inv cfg { s with sh := sh', ws := s.ws.set i w' } := by
  refine ⟨?_, ?_, ?_, ?_⟩
  · have h1 := hs.cnt
    have h2 := sum_set_nat wt s.ws i w w' hw
    have h3 := hi.cnt
    simp only [wtSum] at *
    show sh'.count = _
    push_cast at *
    omega
  · have h1 := hs.tree
    have h2 := sum_set_ms (fun w => nm (pend w)) s.ws i w w' hw
    have h3 := hi.tree
    simp only [pendSum] at *
    show _ = ↑sh'.expanded + nm sh'.pipe.buf + _ + nm (cpend cfg.root s.coord) + nm sh'.lost
    apply add_right_cancel (b := nm (pend w))
    calc (↑cfg.root.nodes : Multiset T) + nm (pend w)
        = (↑s.sh.expanded + nm s.sh.pipe.buf + nm (pend w) + nm s.sh.lost) +
            ((s.ws.map (fun w => nm (pend w))).sum + nm (cpend cfg.root s.coord)) := by rw [h3]; abel
      _ = (↑sh'.expanded + nm sh'.pipe.buf + nm sh'.lost + nm (cpend cfg.root s.coord)) +
            ((s.ws.map (fun w => nm (pend w))).sum + nm (pend w')) := by rw [← h1]; abel
      _ = (↑sh'.expanded + nm sh'.pipe.buf + nm sh'.lost + nm (cpend cfg.root s.coord)) +
            (((s.ws.set i w').map (fun w => nm (pend w))).sum + nm (pend w)) := by rw [h2]
      _ = _ := by abel
  · have ⟨h1, h2, h3⟩ := hs.lostc
    have h4 : failSum (s.ws.set i w') + isFailedish w = failSum s.ws + isFailedish w' :=
      sum_set_nat isFailedish s.ws i w w' hw
    intro hl
    show 0 < sh'.dropUnits ∨ 0 < failSum (s.ws.set i w')
    rcases h3 with h3 | h3 | h3
    · rw [h3] at hl
      rcases hi.lostc hl with h | h
      · left; omega
      · right; omega
    · left; omega
    · right
      have hlt : i < s.ws.length := by
        rcases Nat.lt_or_ge i s.ws.length with h | h
        · exact h
        · rw [List.getElem?_eq_none h] at hw; cases hw
      exact sum_pos_of_mem isFailedish (s.ws.set i w') i w' (by simp [hlt]) h3
  · simpa using hi.len

theorem inv_step {cfg : Cfg} {s s' : BF} {a : Act} (hi : Inv cfg s) (h : s.step cfg a = some s') : Inv cfg s' := by
  cases a with
  | w i a =>
    obtain ⟨w, sh', w', hw, hs, rfl⟩ := step_w_inv h
    exact inv_step_w hi hw hs
  | cInc =>
    simp only [BF.step] at h
    split at h <;> try cases h
    next hc =>
    refine ⟨?_, ?_, hi.lostc, hi.len⟩
    · have := hi.cnt; rw [hc] at this; simp only [cwt] at *; show s.sh.count + 1 = _; push_cast at *; omega
    · have := hi.tree; rw [hc] at this; simpa [cpend] using this
  | cSubmitRoot =>
    simp only [BF.step] at h
    split at h <;> try cases h
    next p' hc hs =>
    obtain ⟨hp, rfl⟩ := Pipe.step_recv hs
    refine ⟨?_, ?_, hi.lostc, hi.len⟩
    · have := hi.cnt; rw [hc] at this; simp only [cwt, Shared.setPipe] at *
      show s.sh.count = _; simp only [List.length_append, List.length_singleton]; push_cast at *; omega
    · have := hi.tree; rw [hc] at this
      simp only [cpend, Shared.setPipe, nm_append, nm_nil, add_zero] at *
      rw [this]; abel
  | cSubmitRootCancel =>
    simp only [BF.step] at h
    split at h <;> try cases h
    next hc =>
    split at h <;> try cases h
    refine ⟨?_, ?_, fun _ => Or.inl (Nat.succ_pos _), hi.len⟩
    · have := hi.cnt; rw [hc] at this; simp only [cwt] at *
      show s.sh.count = _; push_cast at *; omega
    · have := hi.tree; rw [hc] at this
      simp only [cpend, nm_nil, add_zero] at *
      show _ = ↑s.sh.expanded + nm s.sh.pipe.buf + pendSum s.ws + nm (cfg.root :: s.sh.lost)
      rw [this, nm_cons cfg.root s.sh.lost]; abel
  | cRecv =>
    simp only [BF.step] at h
    split at h <;> try cases h
    next hc =>
    split at h <;> try cases h
    refine ⟨?_, ?_, hi.lostc, hi.len⟩
    · have := hi.cnt; rw [hc] at this; simpa [cwt] using this
    · have := hi.tree; rw [hc] at this; simpa [cpend] using this
  | cRecvCancel =>
    simp only [BF.step] at h
    split at h <;> try cases h
    next hc =>
    split at h <;> try cases h
    refine ⟨?_, ?_, hi.lostc, hi.len⟩
    · have := hi.cnt; rw [hc] at this; simpa [cwt] using this
    · have := hi.tree; rw [hc] at this; simpa [cpend] using this
  | cLoad =>
    simp only [BF.step] at h
    split at h <;> try cases h
    next hc =>
    split at h <;> cases h <;> refine ⟨?_, ?_, hi.lostc, hi.len⟩
    all_goals first
      | (have := hi.cnt; rw [hc] at this; simpa [cwt] using this)
      | (have := hi.tree; rw [hc] at this; simpa [cpend] using this)
  | cCancel =>
    simp only [BF.step] at h
    split at h <;> try cases h
    next z hc =>
    refine ⟨?_, ?_, hi.lostc, hi.len⟩
    · have := hi.cnt; rw [hc] at this; simpa [cwt, Shared.setPipe] using this
    · have := hi.tree; rw [hc] at this; simpa [cpend, Shared.setPipe] using this
  | cReturn =>
    simp only [BF.step] at h
    split at h <;> try cases h
    next z hc =>
    split at h <;> try cases h
    refine ⟨?_, ?_, hi.lostc, hi.len⟩
    · have := hi.cnt; rw [hc] at this; simpa [cwt] using this
    · have := hi.tree; rw [hc] at this; simpa [cpend] using this
  | pipeExit =>
    simp only [BF.step] at h
    split at h <;> try cases h
    next p' hs =>
    obtain ⟨_, _, rfl⟩ := Pipe.step_observe hs
    exact ⟨hi.cnt, hi.tree, hi.lostc, hi.len⟩
  | cancel =>
    simp only [BF.step] at h
    split at h <;> try cases h
    exact ⟨hi.cnt, hi.tree, hi.lostc, hi.len⟩

theorem reach_inv {cfg : Cfg} {s : BF} (h : BF.Reach cfg s) : Inv cfg s := by
  induction h with
  | init => exact inv_init cfg
  | step _ hs ih => exact inv_step ih hs

/-! ### termination measure: remaining atomic actions, an upper bound that every step decreases -/

def bufPot : List T → Nat
  | [] => 0
  | t :: l => (8 * t.sz - 2) + bufPot l

@[simp] theorem bufPot_nil : bufPot [] = 0 := rfl
@[simp] theorem bufPot_cons (t : T) (l : List T) : bufPot (t :: l) = (8 * t.sz - 2) + bufPot l := rfl
@[simp] theorem bufPot_append (a b : List T) : bufPot (a ++ b) = bufPot a + bufPot b := by
  induction a with
  | nil => simp
  | cons t l ih => simp [ih]; omega

def wμ : WState → Nat
  | .idle => 1
  | .got s => 8 * s.sz - 2
  | .sub rest => 5 + 8 * szL rest
  | .incd c rest => 4 + 8 * c.sz + 8 * szL rest
  | .decd => 4
  | .failed => 2
  | .failedSilent => 2
  | .exited => 0
  | .exitedFailed => 0

def cμ (root : T) : CState → Nat
  | .c0 => 8 * root.sz + 4
  | .c1 => 8 * root.sz + 3
  | .wait => 3
  | .load => 4
  | .brk _ => 2
  | .join _ => 1
  | .ret _ => 0

def phasePot : Phase → Nat
  | .done => 0
  | _ => 1
def cancPot : Bool → Nat
  | true => 0
  | false => 1
theorem cancPot_le (b : Bool) : cancPot b ≤ 1 := by cases b <;> simp [cancPot]

def shμ (sh : Shared) : Nat :=
  bufPot sh.pipe.buf + 2 * sh.compl + phasePot sh.pipe.phase + cancPot sh.pipe.cancelled

/-- the measure: an upper bound on the number of atomic actions still to come -/
def BF.μ (cfg : Cfg) (s : BF) : Nat := shμ s.sh + (s.ws.map wμ).sum + cμ cfg.root s.coord

theorem WStep.measure {cfg sh w a sh' w'} (h : WStep cfg sh w a sh' w') : shμ sh' + wμ w' < shμ sh + wμ w := by
  have hcp := cancPot_le sh.pipe.cancelled
  cases h <;> simp only [shμ, wμ, Shared.setPipe, Shared.cancelled, cancPot] at *
  case recv s rest hp hb => rw [hb]; simp; omega
  case exitIdle hc => omega
  case memErr s => have := s.sz_pos; omega
  case driverOk s => have := s.sz_eq; omega
  case driverErr s => have := s.sz_pos; omega
  case driverErrSilent s => have := s.sz_pos; omega
  case inc c rest => simp; omega
  case submit c rest hp => have := c.sz_pos; simp; omega
  case submitDrop c rest hc => have := c.sz_pos; omega
  case dec => simp
  case compl hc => omega
  case complCancel hc => omega
  case fail => omega
  case failSilentFixed hf => omega
  case failSilent hf => omega

theorem measure_step {cfg : Cfg} {s s' : BF} {a : Act} (h : s.step cfg a = some s') : s'.μ cfg < s.μ cfg := by
  cases a with
  | w i a =>
    obtain ⟨w, sh', w', hw, hs, rfl⟩ := step_w_inv h
    have h1 := hs.measure
    have h2 := sum_set_nat wμ s.ws i w w' hw
    simp only [BF.μ]; omega
  | cInc =>
    simp only [BF.step] at h
    split at h <;> try cases h
    next hc => simp only [BF.μ, hc, cμ, shμ]; omega
  | cSubmitRoot =>
    simp only [BF.step] at h
    split at h <;> try cases h
    next p' hc hs =>
    obtain ⟨hp, rfl⟩ := Pipe.step_recv hs
    have := cfg.root.sz_pos
    simp only [BF.μ, hc, cμ, shμ, Shared.setPipe, bufPot_append, bufPot_cons, bufPot_nil]; omega
  | cSubmitRootCancel =>
    simp only [BF.step] at h
    split at h <;> try cases h
    next hc =>
    split at h <;> try cases h
    simp only [BF.μ, hc, cμ, shμ]; omega
  | cRecv =>
    simp only [BF.step] at h
    split at h <;> try cases h
    next hc =>
    split at h <;> try cases h
    next hpos => simp only [BF.μ, hc, cμ, shμ]; omega
  | cRecvCancel =>
    simp only [BF.step] at h
    split at h <;> try cases h
    next hc =>
    split at h <;> try cases h
    simp only [BF.μ, hc, cμ, shμ]; omega
  | cLoad =>
    simp only [BF.step] at h
    split at h <;> try cases h
    next hc =>
    split at h <;> cases h <;> simp only [BF.μ, hc, cμ, shμ] <;> omega
  | cCancel =>
    simp only [BF.step] at h
    split at h <;> try cases h
    next z hc => have := cancPot_le s.sh.pipe.cancelled; simp only [BF.μ, hc, cμ, shμ, Shared.setPipe, cancPot]; omega
  | cReturn =>
    simp only [BF.step] at h
    split at h <;> try cases h
    next z hc =>
    split at h <;> try cases h
    simp only [BF.μ, hc, cμ, shμ]; omega
  | pipeExit =>
    simp only [BF.step] at h
    split at h <;> try cases h
    next p' hs =>
    obtain ⟨_, hp, rfl⟩ := Pipe.step_observe hs
    have : 1 ≤ phasePot s.sh.pipe.phase := by
      cases hph : s.sh.pipe.phase <;> simp_all [phasePot]
    simp only [BF.μ, shμ, Shared.setPipe, phasePot]; omega
  | cancel =>
    simp only [BF.step] at h
    split at h <;> try cases h
    next hc =>
    simp only [Shared.cancelled] at hc
    have : s.sh.pipe.cancelled = false := by simpa using hc
    simp only [BF.μ, shμ, Shared.setPipe, this, cancPot]; omega

/-! ### progress (deadlock freedom) invariants -/

theorem sum_set_split (f : WState → Nat) (ws : List WState) (i : Nat) (w w' : WState) (h : ws[i]? = some w) :
    ∃ k, (ws.map f).sum = k + f w ∧ ((ws.set i w').map f).sum = k + f w' := by
  induction ws generalizing i with
  | nil => simp at h
  | cons x xs ih =>
    cases i with
    | zero =>
      simp only [List.getElem?_cons_zero, Option.some.injEq] at h; subst h
      exact ⟨(xs.map f).sum, by simp only [List.set_cons_zero, List.map_cons, List.sum_cons]; omega⟩
    | succ j =>
      simp only [List.getElem?_cons_succ] at h
      obtain ⟨k, h1, h2⟩ := ih j h
      exact ⟨f x + k, by simp only [List.set_cons_succ, List.map_cons, List.sum_cons]; omega⟩

def needsCancel : CState → Bool
  | .join _ => true
  | .ret _ => true
  | _ => false

/-- invariants needed for progress; `ex` is where the repair (`cfg.fixed`) is used -/
structure Inv2 (cfg : Cfg) (s : BF) : Prop where
  ph : s.sh.pipe.phase = .loop ∨ (s.sh.pipe.phase = .done ∧ s.sh.cancelled = true)
  du : 0 < s.sh.dropUnits → s.sh.cancelled = true
  ex : cfg.fixed = true → 0 < exitedSum s.ws → s.sh.cancelled = true
  jn : needsCancel s.coord = true → s.sh.cancelled = true
  j : s.coord = .wait → s.sh.cancelled = true ∨ s.sh.count ≠ 0 ∨ 0 < s.sh.compl ∨ 0 < decdSum s.ws
  errc : s.sh.err = true → s.sh.cancelled = true

theorem WStep.dl {cfg sh w a sh' w'} (h : WStep cfg sh w a sh' w') :
    sh'.pipe.phase = sh.pipe.phase ∧
    (sh'.dropUnits = sh.dropUnits ∨ sh'.cancelled = true) ∧
    (isExitedN w' ≤ isExitedN w ∨ sh'.cancelled = true ∨ cfg.fixed = false) ∧
    (sh'.err = sh.err ∨ sh'.cancelled = true) ∧
    (∀ k : Nat, 0 ≤ sh.count →
      (sh.cancelled = true ∨ sh.count ≠ 0 ∨ 0 < sh.compl ∨ 0 < k + isDecd w) →
      (sh'.cancelled = true ∨ sh'.count ≠ 0 ∨ 0 < sh'.compl ∨ 0 < k + isDecd w')) := by
  cases h <;> simp [Shared.setPipe, Shared.cancelled, isExitedN, isDecd] at * <;> try omega
  all_goals first
    | (rename_i hc; exact ⟨Or.inl hc, fun _ _ => Or.inl hc⟩)
    | (rename_i hc; exact Or.inl hc)
    | (rename_i hc; exact Or.inr hc)

theorem inv2_init (cfg : Cfg) : Inv2 cfg (BF.init cfg) := by
  refine ⟨Or.inl rfl, ?_, ?_, (fun h => by cases h), (fun h => by cases h), (fun h => by cases h)⟩
  · intro h; simp [BF.init] at h
  · intro _ h
    have := sum_replicate_zero isExitedN cfg.n .idle rfl
    simp only [BF.init, exitedSum, this] at h; omega

theorem inv2_step_w {cfg : Cfg} {s : BF} {i : Nat} {w w' : WState} {a : WAct} {sh' : Shared}
    (hi : Inv cfg s) (h2 : Inv2 cfg s) (hw : s.ws[i]? = some w)
    (hs : WStep cfg s.sh w a sh' w') : Inv2 cfg { s with sh := sh', ws := s.ws.set i w' } := by
  obtain ⟨d1, d2, d3, d4, d5⟩ := hs.dl
  have hm := hs.cancelled_mono
  refine ⟨?_, ?_, ?_, ?_, ?_, ?_⟩
  · show sh'.pipe.phase = .loop ∨ (sh'.pipe.phase = .done ∧ sh'.cancelled = true)
    rw [d1]
    rcases h2.ph with h | ⟨h, hc⟩
    · exact Or.inl h
    · exact Or.inr ⟨h, hm hc⟩
  · show 0 < sh'.dropUnits → sh'.cancelled = true
    intro h
    rcases d2 with d | d
    · rw [d] at h; exact hm (h2.du h)
    · exact d
  · show cfg.fixed = true → 0 < exitedSum (s.ws.set i w') → sh'.cancelled = true
    intro hf h
    obtain ⟨k, e1, e2⟩ := sum_set_split isExitedN s.ws i w w' hw
    rcases d3 with d | d | d
    · apply hm; apply h2.ex hf; simp only [exitedSum] at *; omega
    · exact d
    · rw [hf] at d; cases d
  · show needsCancel s.coord = true → sh'.cancelled = true
    exact fun h => hm (h2.jn h)
  · show s.coord = .wait → sh'.cancelled = true ∨ sh'.count ≠ 0 ∨ 0 < sh'.compl ∨ 0 < decdSum (s.ws.set i w')
    intro hc
    obtain ⟨k, e1, e2⟩ := sum_set_split isDecd s.ws i w w' hw
    have h0 : 0 ≤ s.sh.count := by rw [hi.cnt]; exact Int.natCast_nonneg _
    have := d5 k h0 (by have := h2.j hc; simp only [decdSum] at this; rw [e1] at this; exact this)
    simp only [decdSum]; rw [e2]; exact this
  · show sh'.err = true → sh'.cancelled = true
    intro h
    rcases d4 with d | d
    · rw [d] at h; exact hm (h2.errc h)
    · exact d

theorem inv2_step {cfg : Cfg} {s s' : BF} {a : Act} (hi : Inv cfg s) (h2 : Inv2 cfg s)
    (h : s.step cfg a = some s') : Inv2 cfg s' := by
  have hi' := inv_step hi h
  cases a with
  | w i a =>
    obtain ⟨w, sh', w', hw, hs, rfl⟩ := step_w_inv h
    exact inv2_step_w hi h2 hw hs
  | cInc =>
    simp only [BF.step] at h
    split at h <;> try cases h
    exact ⟨h2.ph, h2.du, h2.ex, (fun h => by cases h), (fun h => by cases h), h2.errc⟩
  | cSubmitRoot =>
    simp only [BF.step] at h
    split at h <;> try cases h
    next p' hc hs =>
    obtain ⟨hp, rfl⟩ := Pipe.step_recv hs
    refine ⟨h2.ph, h2.du, h2.ex, (fun h => by cases h), fun _ => ?_, h2.errc⟩
    right; left
    have := hi'.cnt
    simp only [Shared.setPipe, List.length_append, List.length_singleton] at this
    show s.sh.count ≠ 0
    have e : s.sh.count = _ := this
    rw [e]; push_cast; omega
  | cSubmitRootCancel =>
    simp only [BF.step] at h
    split at h <;> try cases h
    next hc =>
    split at h <;> try cases h
    next hcan =>
    exact ⟨h2.ph, fun _ => hcan, h2.ex, (fun h => by cases h), (fun h => by cases h), h2.errc⟩
  | cRecv =>
    simp only [BF.step] at h
    split at h <;> try cases h
    next hc =>
    split at h <;> try cases h
    exact ⟨h2.ph, h2.du, h2.ex, (fun h => by cases h), (fun h => by cases h), h2.errc⟩
  | cRecvCancel =>
    simp only [BF.step] at h
    split at h <;> try cases h
    next hc =>
    split at h <;> try cases h
    exact ⟨h2.ph, h2.du, h2.ex, (fun h => by cases h), (fun h => by cases h), h2.errc⟩
  | cLoad =>
    simp only [BF.step] at h
    split at h <;> try cases h
    next hc =>
    split at h <;> cases h
    · exact ⟨h2.ph, h2.du, h2.ex, (fun h => by cases h), (fun h => by cases h), h2.errc⟩
    · next hne =>
      exact ⟨h2.ph, h2.du, h2.ex, (fun h => by cases h), fun _ => Or.inr (Or.inl hne), h2.errc⟩
  | cCancel =>
    simp only [BF.step] at h
    split at h <;> try cases h
    next z hc =>
    refine ⟨?_, fun _ => rfl, fun _ _ => rfl, fun _ => rfl, (fun h => by cases h), fun _ => rfl⟩
    rcases h2.ph with h | ⟨h, _⟩
    · exact Or.inl h
    · exact Or.inr ⟨h, rfl⟩
  | cReturn =>
    simp only [BF.step] at h
    split at h <;> try cases h
    next z hc =>
    split at h <;> try cases h
    have hcan : s.sh.cancelled = true := h2.jn (by rw [hc]; rfl)
    exact ⟨h2.ph, h2.du, h2.ex, fun _ => hcan, (fun h => by cases h), h2.errc⟩
  | pipeExit =>
    simp only [BF.step] at h
    split at h <;> try cases h
    next p' hs =>
    obtain ⟨hcan, _, rfl⟩ := Pipe.step_observe hs
    exact ⟨Or.inr ⟨rfl, hcan⟩, h2.du, h2.ex, h2.jn, h2.j, h2.errc⟩
  | cancel =>
    simp only [BF.step] at h
    split at h <;> try cases h
    refine ⟨?_, fun _ => rfl, fun _ _ => rfl, fun _ => rfl, fun _ => Or.inl rfl, fun _ => rfl⟩
    rcases h2.ph with h | ⟨h, _⟩
    · exact Or.inl h
    · exact Or.inr ⟨h, rfl⟩

theorem reach_inv2 {cfg : Cfg} {s : BF} (h : BF.Reach cfg s) : Inv2 cfg s := by
  induction h with
  | init => exact inv2_init cfg
  | step hr hs ih => exact inv2_step (reach_inv hr) ih hs

/-! ### progress: in every reachable state of the repaired protocol that has not returned, some
non-environment action is enabled -/

theorem step_w_enabled {cfg : Cfg} {s : BF} {i : Nat} {w w' : WState} {a : WAct} {sh' : Shared}
    (hw : s.ws[i]? = some w) (hs : wstep cfg s.sh w a = some (sh', w')) :
    ∃ a' s', Act.isEnv a' = false ∧ s.step cfg a' = some s' :=
  ⟨.w i a, { s with sh := sh', ws := s.ws.set i w' }, rfl, by simp [BF.step, hw, hs]⟩

theorem le_sum_of_mem (f : WState → Nat) (ws : List WState) (i : Nat) (w : WState) (h : ws[i]? = some w) :
    f w ≤ (ws.map f).sum := by
  obtain ⟨k, e, _⟩ := sum_set_split f ws i w w h
  omega

theorem step_w_enabled' {cfg : Cfg} {s : BF} {i : Nat} {w : WState} {a : WAct}
    (hw : s.ws[i]? = some w) (hs : (wstep cfg s.sh w a).isSome = true) :
    ∃ a' s', Act.isEnv a' = false ∧ s.step cfg a' = some s' := by
  obtain ⟨⟨sh', w'⟩, h⟩ := Option.isSome_iff_exists.mp hs
  exact step_w_enabled hw h

/-- a worker that has not returned can always move once the context is cancelled -/
theorem live_enabled_cancelled (cfg : Cfg) (sh : Shared) (w : WState) (hc : sh.cancelled = true)
    (hw : w.isExited = false) : ∃ a, (wstep cfg sh w a).isSome = true := by
  cases w with
  | idle => exact ⟨.exitIdle, by simp [wstep, hc]⟩
  | got s => exact ⟨.driverOk, rfl⟩
  | sub rest =>
    cases rest with
    | nil => exact ⟨.dec, rfl⟩
    | cons c r => exact ⟨.inc, rfl⟩
  | incd c rest => exact ⟨.submitDrop, by simp [wstep, hc]⟩
  | decd => exact ⟨.complCancel, by simp [wstep, hc]⟩
  | failed => exact ⟨.fail, rfl⟩
  | failedSilent =>
    cases hf : cfg.fixed
    · exact ⟨.failSilent, by simp [wstep, hf]⟩
    · exact ⟨.failSilent, by simp [wstep, hf]⟩
  | exited => cases hw
  | exitedFailed => cases hw

/-- a worker holding counter units can always move while the pipe goroutine is in its main loop -/
theorem busy_enabled (cfg : Cfg) (sh : Shared) (w : WState) (hp : sh.pipe.phase = .loop)
    (hw : 0 < wt w) (hx : isExitedN w = 0) : ∃ a, (wstep cfg sh w a).isSome = true := by
  cases w with
  | idle => simp [wt] at hw
  | got s => exact ⟨.driverOk, rfl⟩
  | sub rest =>
    cases rest with
    | nil => exact ⟨.dec, rfl⟩
    | cons c r => exact ⟨.inc, rfl⟩
  | incd c rest => exact ⟨.submit, by simp [wstep, Pipe.step, hp]⟩
  | decd => simp [wt] at hw
  | failed => exact ⟨.fail, rfl⟩
  | failedSilent =>
    cases hf : cfg.fixed
    · exact ⟨.failSilent, by simp [wstep, hf]⟩
    · exact ⟨.failSilent, by simp [wstep, hf]⟩
  | exited => simp [wt] at hw
  | exitedFailed => simp [isExitedN] at hx

theorem progress {cfg : Cfg} {s : BF} (hn : 1 ≤ cfg.n) (hf : cfg.fixed = true) (hi : Inv cfg s) (h2 : Inv2 cfg s)
    (hnr : ∀ z, s.coord ≠ .ret z) : ∃ a s', Act.isEnv a = false ∧ s.step cfg a = some s' := by
  cases hc : s.coord with
  | c0 => exact ⟨.cInc, _, rfl, by simp [BF.step, hc]; rfl⟩
  | c1 =>
    rcases h2.ph with hp | ⟨hp, hcan⟩
    · exact ⟨.cSubmitRoot, _, rfl, by simp [BF.step, hc, Pipe.step, hp]; rfl⟩
    · exact ⟨.cSubmitRootCancel, _, rfl, by simp [BF.step, hc, hcan]; rfl⟩
  | load =>
    by_cases h0 : s.sh.count = 0
    · exact ⟨.cLoad, _, rfl, by simp [BF.step, hc, h0]; rfl⟩
    · exact ⟨.cLoad, _, rfl, by simp [BF.step, hc, h0]; rfl⟩
  | brk z => exact ⟨.cCancel, _, rfl, by simp [BF.step, hc]; rfl⟩
  | ret z => exact absurd hc (hnr z)
  | join z =>
    have hcan : s.sh.cancelled = true := h2.jn (by rw [hc]; rfl)
    by_cases hall : s.ws.all WState.isExited = true
    · exact ⟨.cReturn, _, rfl, by simp only [BF.step, hc, hall]; rfl⟩
    · have : ∃ w ∈ s.ws, w.isExited = false := by
        simp only [List.all_eq_true, not_forall] at hall
        obtain ⟨w, hm, hw⟩ := hall
        exact ⟨w, hm, by simpa using hw⟩
      obtain ⟨w, hm, hw⟩ := this
      obtain ⟨i, hi'⟩ := List.getElem?_of_mem hm
      obtain ⟨a, hs⟩ := live_enabled_cancelled cfg s.sh w hcan hw
      exact step_w_enabled' hi' hs
  | wait =>
    by_cases hcp : 0 < s.sh.compl
    · exact ⟨.cRecv, _, rfl, by simp [BF.step, hc, hcp]; rfl⟩
    by_cases hcan : s.sh.cancelled = true
    · exact ⟨.cRecvCancel, _, rfl, by simp [BF.step, hc, hcan]; rfl⟩
    have hp : s.sh.pipe.phase = .loop := by
      rcases h2.ph with hp | ⟨_, h⟩
      · exact hp
      · exact absurd h hcan
    have hdecd : ∀ (i : Nat) (w : WState), s.ws[i]? = some w → 0 < isDecd w → ∃ a s', Act.isEnv a = false ∧ s.step cfg a = some s' := by
      intro i w hw hd
      cases w <;> simp [isDecd] at hd
      exact step_w_enabled' (a := .compl) hw (by simp [wstep]; omega)
    rcases h2.j hc with h | h | h | h
    · exact absurd h hcan
    · -- the counter is non-zero: someone holds work, or the pipe does
      have hcnt := hi.cnt
      rw [hc] at hcnt
      simp only [cwt] at hcnt
      have hdu : s.sh.dropUnits = 0 := by
        rcases Nat.eq_zero_or_pos s.sh.dropUnits with h' | h'
        · exact h'
        · exact absurd (h2.du h') hcan
      by_cases hwt : 0 < wtSum s.ws
      · obtain ⟨i, w, hw, hpos⟩ := exists_of_sum_pos wt s.ws hwt
        have hx : isExitedN w = 0 := by
          rcases Nat.eq_zero_or_pos (isExitedN w) with h' | h'
          · exact h'
          · exact absurd (h2.ex hf (sum_pos_of_mem isExitedN s.ws i w hw h')) hcan
        obtain ⟨a, hs⟩ := busy_enabled cfg s.sh w hp hpos hx
        exact step_w_enabled' hw hs
      · have hbuf : s.sh.pipe.buf ≠ [] := by
          intro hb; rw [hb] at hcnt; apply h; rw [hcnt]; simp; omega
        have hlen : 0 < s.ws.length := by rw [hi.len]; omega
        have hw0 : s.ws[0]? = some (s.ws[0]'hlen) := by simp
        have hwt0 : wt (s.ws[0]'hlen) = 0 := by
          have := le_sum_of_mem wt s.ws 0 _ hw0
          simp only [wtSum] at hwt; omega
        have hx0 : isExitedN (s.ws[0]'hlen) = 0 := by
          rcases Nat.eq_zero_or_pos (isExitedN (s.ws[0]'hlen)) with h' | h'
          · exact h'
          · exact absurd (h2.ex hf (sum_pos_of_mem isExitedN s.ws 0 _ hw0 h')) hcan
        generalize s.ws[0]'hlen = w0 at hw0 hwt0 hx0
        cases w0 <;> simp [wt, isExitedN] at hwt0 hx0
        · -- idle: receives the pipe's front value
          cases hb : s.sh.pipe.buf with
          | nil => exact absurd hb hbuf
          | cons v rest =>
            exact step_w_enabled' (a := .recv) hw0 (by simp [wstep, Pipe.step, hp, hb])
        · exact hdecd 0 _ hw0 (by simp [isDecd])
    · exact absurd h hcp
    · obtain ⟨i, w, hw, hpos⟩ := exists_of_sum_pos isDecd s.ws h
      exact hdecd i w hw hpos

/-! ### once the coordinator has seen zero, the counter stays zero -/

def viaZero : CState → Bool
  | .brk true => true
  | .join true => true
  | .ret true => true
  | _ => false

theorem WStep.count_of_wt0 {cfg sh w a sh' w'} (h : WStep cfg sh w a sh' w') (h0 : wt w = 0) : sh'.count = sh.count := by
  cases h <;> simp [wt, Shared.setPipe] at h0 ⊢

theorem invz_step {cfg : Cfg} {s s' : BF} {a : Act} (hi : Inv cfg s)
    (hz : viaZero s.coord = true → s.sh.count = 0) (h : s.step cfg a = some s') :
    viaZero s'.coord = true → s'.sh.count = 0 := by
  cases a with
  | w i a =>
    obtain ⟨w, sh', w', hw, hs, rfl⟩ := step_w_inv h
    intro hv
    have h0 := hz hv
    have hc := hi.cnt
    rw [h0] at hc
    have hle := le_sum_of_mem wt s.ws i w hw
    have : wt w = 0 := by simp only [wtSum] at hc; omega
    show sh'.count = 0
    rw [hs.count_of_wt0 this]; exact h0
  | cInc => simp only [BF.step] at h; split at h <;> try cases h
            intro hv; cases hv
  | cSubmitRoot => simp only [BF.step] at h; split at h <;> try cases h
                   intro hv; cases hv
  | cSubmitRootCancel =>
    simp only [BF.step] at h; split at h <;> try cases h
    split at h <;> try cases h
    intro hv; cases hv
  | cRecv =>
    simp only [BF.step] at h; split at h <;> try cases h
    split at h <;> try cases h
    intro hv; cases hv
  | cRecvCancel =>
    simp only [BF.step] at h; split at h <;> try cases h
    split at h <;> try cases h
    intro hv; cases hv
  | cLoad =>
    simp only [BF.step] at h; split at h <;> try cases h
    split at h <;> cases h
    · next h0 => exact fun _ => h0
    · intro hv; cases hv
  | cCancel =>
    simp only [BF.step] at h; split at h <;> try cases h
    next z hc =>
    intro hv
    cases z
    · cases hv
    · exact hz (by rw [hc]; rfl)
  | cReturn =>
    simp only [BF.step] at h; split at h <;> try cases h
    next z hc =>
    split at h <;> try cases h
    intro hv
    cases z
    · cases hv
    · exact hz (by rw [hc]; rfl)
  | pipeExit =>
    simp only [BF.step] at h; split at h <;> try cases h
    exact hz
  | cancel =>
    simp only [BF.step] at h; split at h <;> try cases h
    exact hz

theorem reach_invz {cfg : Cfg} {s : BF} (h : BF.Reach cfg s) : viaZero s.coord = true → s.sh.count = 0 := by
  induction h with
  | init => intro hv; cases hv
  | step hr hs ih => exact invz_step (reach_inv hr) ih hs

theorem pend_of_wt0 (w : WState) (h : wt w = 0) : pend w = [] := by cases w <;> simp [wt, pend] at h ⊢

theorem pendSum_of_wtSum0 (ws : List WState) (h : wtSum ws = 0) : pendSum ws = 0 := by
  induction ws with
  | nil => rfl
  | cons x xs ih =>
    simp only [wtSum, pendSum, List.map_cons, List.sum_cons] at *
    have hx : wt x = 0 := by omega
    rw [pend_of_wt0 x hx, ih (by omega)]; simp

/-- what `descentCount = 0` means in any reachable state: nothing is queued, held or lost, and the
driver has been called on exactly the nodes of the tree -/
theorem zero_means_done {cfg : Cfg} {s : BF} (hi : Inv cfg s) (hne : s.coord ≠ .c0) (h0 : s.sh.count = 0) :
    s.sh.pipe.buf = [] ∧ wtSum s.ws = 0 ∧ s.sh.dropUnits = 0 ∧ s.sh.lost = [] ∧
    s.sh.expanded.Perm cfg.root.nodes := by
  have hc := hi.cnt
  rw [h0] at hc
  have hb : s.sh.pipe.buf = [] := List.length_eq_zero_iff.mp (by omega)
  have hw : wtSum s.ws = 0 := by omega
  have hd : s.sh.dropUnits = 0 := by omega
  have hcw : cwt s.coord = 0 := by omega
  have hl : s.sh.lost = [] := by
    by_contra hne
    rcases hi.lostc hne with h | h
    · omega
    · have := failSum_le_wtSum s.ws; omega
  refine ⟨hb, hw, hd, hl, ?_⟩
  have ht := hi.tree
  have hcp : cpend cfg.root s.coord = [] ∨ s.coord = .c0 := by
    cases hcc : s.coord <;> simp [cpend, cwt, hcc] at hcw ⊢
  rcases hcp with hcp | hcp
  · rw [hb, hl, pendSum_of_wtSum0 s.ws hw, hcp] at ht
    simp only [nm_nil, add_zero] at ht
    exact (Multiset.coe_eq_coe.mp ht).symm
  · exact absurd hcp hne

/-! ### the code as it is, along schedules in which the driver never returns a swallowed error -/

def Cfg.repaired (cfg : Cfg) : Cfg := { cfg with fixed := true }

/-- reachable without the action "driver returns an error that `errors.Is` context.Canceled /
ErrContextTimedOut while the traversal context is live" -/
inductive BF.ReachNS (cfg : Cfg) : BF → Prop where
  | init : BF.ReachNS cfg (BF.init cfg)
  | step {s s' : BF} {a : Act} : BF.ReachNS cfg s → (∀ i, a ≠ .w i .driverErrSilent) →
      s.step cfg a = some s' → BF.ReachNS cfg s'

def isFS : WState → Nat
  | .failedSilent => 1
  | _ => 0

theorem WStep.fs {cfg sh w a sh' w'} (h : WStep cfg sh w a sh' w') (ha : a ≠ .driverErrSilent) :
    isFS w' ≤ isFS w := by
  cases h <;> simp [isFS] at ha ⊢

theorem wstep_repaired (cfg : Cfg) (sh : Shared) (w : WState) (a : WAct) (hw : isFS w = 0) :
    wstep cfg.repaired sh w a = wstep cfg sh w a := by
  cases w <;> cases a <;> first
    | rfl
    | (rename_i r; cases r <;> rfl)
    | (simp [isFS] at hw)

theorem step_repaired (cfg : Cfg) (s : BF) (a : Act) (h : (s.ws.map isFS).sum = 0) :
    s.step cfg.repaired a = s.step cfg a := by
  cases a with
  | w i a =>
    simp only [BF.step]
    cases hw : s.ws[i]? with
    | none => rfl
    | some w =>
      have := le_sum_of_mem isFS s.ws i w hw
      simp only []
      rw [wstep_repaired cfg s.sh w a (by omega)]
  | _ => rfl

theorem fs_step {cfg : Cfg} {s s' : BF} {a : Act} (hns : ∀ i, a ≠ .w i .driverErrSilent)
    (h0 : (s.ws.map isFS).sum = 0) (h : s.step cfg a = some s') : (s'.ws.map isFS).sum = 0 := by
  cases a with
  | w i a =>
    obtain ⟨w, sh', w', hw, hs, rfl⟩ := step_w_inv h
    have h1 := hs.fs (fun e => hns i (by rw [e]))
    obtain ⟨k, e1, e2⟩ := sum_set_split isFS s.ws i w w' hw
    show ((s.ws.set i w').map isFS).sum = 0
    omega
  | cInc => simp only [BF.step] at h; split at h <;> try cases h
            exact h0
  | cSubmitRoot => simp only [BF.step] at h; split at h <;> try cases h
                   exact h0
  | cSubmitRootCancel =>
    simp only [BF.step] at h; split at h <;> try cases h
    split at h <;> try cases h
    exact h0
  | cRecv =>
    simp only [BF.step] at h; split at h <;> try cases h
    split at h <;> try cases h
    exact h0
  | cRecvCancel =>
    simp only [BF.step] at h; split at h <;> try cases h
    split at h <;> try cases h
    exact h0
  | cLoad =>
    simp only [BF.step] at h; split at h <;> try cases h
    split at h <;> cases h <;> exact h0
  | cCancel => simp only [BF.step] at h; split at h <;> try cases h
               exact h0
  | cReturn =>
    simp only [BF.step] at h; split at h <;> try cases h
    split at h <;> try cases h
    exact h0
  | pipeExit => simp only [BF.step] at h; split at h <;> try cases h
                exact h0
  | cancel => simp only [BF.step] at h; split at h <;> try cases h
              exact h0

theorem reachNS_repaired {cfg : Cfg} {s : BF} (h : BF.ReachNS cfg s) :
    (s.ws.map isFS).sum = 0 ∧ BF.Reach cfg.repaired s := by
  induction h with
  | init => exact ⟨sum_replicate_zero isFS cfg.n .idle rfl, BF.Reach.init⟩
  | @step s s' a hr hns hs ih =>
    refine ⟨fs_step hns ih.1 hs, BF.Reach.step (a := a) ih.2 ?_⟩
    rw [step_repaired _ _ _ ih.1]; exact hs

theorem reachNS_reach {cfg : Cfg} {s : BF} (h : BF.ReachNS cfg s) : BF.Reach cfg s := by
  induction h with
  | init => exact BF.Reach.init
  | step _ _ hs ih => exact BF.Reach.step ih hs

/-- runs: the length of any run is bounded by the measure of its start -/
theorem run_length_le {cfg : Cfg} {s s' : BF} {as : List Act} (h : BF.run cfg s as = some s') :
    as.length + s'.μ cfg ≤ s.μ cfg := by
  induction as generalizing s with
  | nil => cases h; simp
  | cons a as ih =>
    unfold BF.run at h
    cases hs : s.step cfg a with
    | none => rw [hs] at h; cases h
    | some q =>
      rw [hs] at h
      have := ih h
      have := measure_step hs
      simp only [List.length_cons]; omega

theorem reach_run {cfg : Cfg} {s s' : BF} {as : List Act} (hr : BF.Reach cfg s) (h : BF.run cfg s as = some s') :
    BF.Reach cfg s' := by
  induction as generalizing s with
  | nil => cases h; exact hr
  | cons a as ih =>
    unfold BF.run at h
    cases hs : s.step cfg a with
    | none => rw [hs] at h; cases h
    | some q => rw [hs] at h; exact ih (BF.Reach.step hr hs) h

/-! ### the pipe inside BreadthFirst is the BufferedPipe LTS -/

theorem WStep.pipe {cfg sh w a sh' w'} (h : WStep cfg sh w a sh' w') :
    sh'.pipe = sh.pipe ∨ ∃ pa, sh.pipe.step pa = some sh'.pipe := by
  cases h
  case recv s rest hp hb =>
    right; refine ⟨.send, ?_⟩
    simp only [Pipe.step, if_neg hp, hb, Shared.setPipe]
  case submit c rest hp =>
    right; exact ⟨.recv c, by simp only [Pipe.step, if_pos hp, Shared.setPipe]⟩
  case fail => right; exact ⟨.cancel, rfl⟩
  case failSilentFixed hf => right; exact ⟨.cancel, rfl⟩
  all_goals (left; rfl)

theorem reach_pipe {cfg : Cfg} {s : BF} (h : BF.Reach cfg s) : Pipe.Reach s.sh.pipe := by
  induction h with
  | init => exact Pipe.Reach.init
  | @step s s' a hr hs ih =>
    cases a with
    | w i a =>
      obtain ⟨w, sh', w', hw, hws, rfl⟩ := step_w_inv hs
      rcases hws.pipe with h | ⟨pa, h⟩
      · show Pipe.Reach sh'.pipe; rw [h]; exact ih
      · exact Pipe.Reach.step ih h
    | cInc => simp only [BF.step] at hs; split at hs <;> try cases hs
              exact ih
    | cSubmitRoot =>
      simp only [BF.step] at hs; split at hs <;> try cases hs
      next p' hc hp => exact Pipe.Reach.step ih hp
    | cSubmitRootCancel =>
      simp only [BF.step] at hs; split at hs <;> try cases hs
      split at hs <;> try cases hs
      exact ih
    | cRecv =>
      simp only [BF.step] at hs; split at hs <;> try cases hs
      split at hs <;> try cases hs
      exact ih
    | cRecvCancel =>
      simp only [BF.step] at hs; split at hs <;> try cases hs
      split at hs <;> try cases hs
      exact ih
    | cLoad =>
      simp only [BF.step] at hs; split at hs <;> try cases hs
      split at hs <;> cases hs <;> exact ih
    | cCancel =>
      simp only [BF.step] at hs; split at hs <;> try cases hs
      exact Pipe.Reach.step (a := .cancel) ih rfl
    | cReturn =>
      simp only [BF.step] at hs; split at hs <;> try cases hs
      split at hs <;> try cases hs
      exact ih
    | pipeExit =>
      simp only [BF.step] at hs; split at hs <;> try cases hs
      next p' hp => exact Pipe.Reach.step ih hp
    | cancel =>
      simp only [BF.step] at hs; split at hs <;> try cases hs
      exact Pipe.Reach.step (a := .cancel) ih rfl

end Dawgs.C17
