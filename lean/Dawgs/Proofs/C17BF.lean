/- Helper lemmas for C17 (b): the BreadthFirst protocol LTS. Property statements live in Props/C17.lean. -/
import Dawgs.Proofs.C17Pipe
import Mathlib.Data.Multiset.Basic
import Mathlib.Data.Multiset.AddSub
import Mathlib.Algebra.Order.Group.Multiset
import Mathlib.Algebra.BigOperators.Group.List.Basic
import Mathlib.Tactic.Abel
set_option linter.unusedSimpArgs false
set_option linter.unusedVariables false
namespace Dawgs.C17

/-! ### trees -/

@[simp] theorem nodesL_nil : nodesL [] = [] := by simp [nodesL]
@[simp] theorem nodesL_cons (t : T) (ts : List T) : nodesL (t :: ts) = t.nodes ++ nodesL ts := by simp [nodesL]
theorem T.nodes_eq (t : T) : t.nodes = t :: nodesL t.kids := by
  cases t with | node i ks => simp [T.nodes, T.kids]
@[simp] theorem nodesL_append (a b : List T) : nodesL (a ++ b) = nodesL a ++ nodesL b := by
  induction a with
  | nil => simp
  | cons t ts ih => simp [ih, List.append_assoc]

/-- number of nodes -/
def T.sz (t : T) : Nat := t.nodes.length
def szL (l : List T) : Nat := (nodesL l).length
theorem T.sz_eq (t : T) : t.sz = 1 + szL t.kids := by
  unfold T.sz szL; rw [T.nodes_eq]; simp; omega
theorem T.sz_pos (t : T) : 1 ≤ t.sz := by rw [T.sz_eq]; omega
@[simp] theorem szL_nil : szL [] = 0 := by simp [szL]
@[simp] theorem szL_cons (t : T) (l : List T) : szL (t :: l) = t.sz + szL l := by simp [szL, T.sz]
@[simp] theorem szL_append (a b : List T) : szL (a ++ b) = szL a + szL b := by simp [szL]

/-- multiset of nodes of a forest -/
def nm (l : List T) : Multiset T := ↑(nodesL l)
@[simp] theorem nm_nil : nm [] = 0 := by simp [nm]
@[simp] theorem nm_append (a b : List T) : nm (a ++ b) = nm a + nm b := by simp [nm]
theorem nm_cons (t : T) (l : List T) : nm (t :: l) = nm [t] + nm l := by
  rw [show t :: l = [t] ++ l from rfl, nm_append]
theorem nm_single (t : T) : nm [t] = {t} + nm t.kids := by
  simp only [nm, nodesL_cons, nodesL_nil, List.append_nil]; rw [T.nodes_eq]; rfl

/-! ### generic: replacing one list element -/

theorem sum_set_nat (f : WState → Nat) (ws : List WState) (i : Nat) (w w' : WState) (h : ws[i]? = some w) :
    ((ws.set i w').map f).sum + f w = (ws.map f).sum + f w' := by
  induction ws generalizing i with
  | nil => simp at h
  | cons x xs ih =>
    cases i with
    | zero =>
      simp only [List.getElem?_cons_zero, Option.some.injEq] at h; subst h
      simp only [List.set_cons_zero, List.map_cons, List.sum_cons]; omega
    | succ j =>
      simp only [List.getElem?_cons_succ] at h; have := ih j h
      simp only [List.set_cons_succ, List.map_cons, List.sum_cons]; omega

theorem sum_set_ms (f : WState → Multiset T) (ws : List WState) (i : Nat) (w w' : WState) (h : ws[i]? = some w) :
    ((ws.set i w').map f).sum + f w = (ws.map f).sum + f w' := by
  induction ws generalizing i with
  | nil => simp at h
  | cons x xs ih =>
    cases i with
    | zero =>
      simp only [List.getElem?_cons_zero, Option.some.injEq] at h; subst h
      simp only [List.set_cons_zero, List.map_cons, List.sum_cons]
      abel
    | succ j =>
      simp only [List.getElem?_cons_succ] at h; have := ih j h
      simp only [List.set_cons_succ, List.map_cons, List.sum_cons]
      rw [add_assoc, this, add_assoc]

theorem exists_of_sum_pos (f : WState → Nat) (ws : List WState) (h : 0 < (ws.map f).sum) :
    ∃ (i : Nat) (w : WState), ws[i]? = some w ∧ 0 < f w := by
  induction ws with
  | nil => simp at h
  | cons x xs ih =>
    simp at h
    by_cases hx : 0 < f x
    · exact ⟨0, x, by simp, hx⟩
    · obtain ⟨i, w, hi, hw⟩ := ih (by omega)
      exact ⟨i + 1, w, by simpa using hi, hw⟩

theorem sum_pos_of_mem (f : WState → Nat) (ws : List WState) (i : Nat) (w : WState) (h : ws[i]? = some w)
    (hw : 0 < f w) : 0 < (ws.map f).sum := by
  induction ws generalizing i with
  | nil => simp at h
  | cons x xs ih =>
    cases i with
    | zero => simp at h; subst h; simp; omega
    | succ j => simp at h; have := ih j h; simp; omega

/-! ### worker step, relational form -/

inductive WStep (cfg : Cfg) (sh : Shared) : WState → WAct → Shared → WState → Prop where
  | recv {s : T} {rest : List T} : sh.pipe.phase ≠ .done → sh.pipe.buf = s :: rest →
      WStep cfg sh .idle .recv (sh.setPipe { sh.pipe with buf := rest, delivered := sh.pipe.delivered ++ [s] }) (.got s)
  | exitIdle : sh.cancelled = true → WStep cfg sh .idle .exitIdle sh .exited
  | memErr {s : T} : WStep cfg sh (.got s) .memErr { sh with lost := s :: sh.lost } .failed
  | driverOk {s : T} : WStep cfg sh (.got s) .driverOk { sh with expanded := sh.expanded ++ [s] } (.sub s.kids)
  | driverErr {s : T} : WStep cfg sh (.got s) .driverErr
      { sh with expanded := sh.expanded ++ [s], lost := s.kids ++ sh.lost } .failed
  | driverErrSilent {s : T} : WStep cfg sh (.got s) .driverErrSilent
      { sh with expanded := sh.expanded ++ [s], lost := s.kids ++ sh.lost } .failedSilent
  | inc {c : T} {rest : List T} : WStep cfg sh (.sub (c :: rest)) .inc { sh with count := sh.count + 1 } (.incd c rest)
  | submit {c : T} {rest : List T} : sh.pipe.phase = .loop →
      WStep cfg sh (.incd c rest) .submit
        (sh.setPipe { sh.pipe with buf := sh.pipe.buf ++ [c], submitted := sh.pipe.submitted ++ [c] }) (.sub rest)
  | submitDrop {c : T} {rest : List T} : sh.cancelled = true →
      WStep cfg sh (.incd c rest) .submitDrop { sh with lost := c :: sh.lost, dropUnits := sh.dropUnits + 1 } (.sub rest)
  | dec : WStep cfg sh (.sub []) .dec { sh with count := sh.count - 1 } .decd
  | compl : sh.compl < 2 * cfg.n → WStep cfg sh .decd .compl { sh with compl := sh.compl + 1 } .idle
  | complCancel : sh.cancelled = true → WStep cfg sh .decd .complCancel sh .exited
  | fail : WStep cfg sh .failed .fail
      { (sh.setPipe { sh.pipe with cancelled := true }) with err := true } .exitedFailed
  | failSilentFixed : cfg.fixed = true →
      WStep cfg sh .failedSilent .failSilent (sh.setPipe { sh.pipe with cancelled := true }) .exitedFailed
  | failSilent : cfg.fixed = false → WStep cfg sh .failedSilent .failSilent sh .exitedFailed

theorem wstep_sound {cfg : Cfg} {sh sh' : Shared} {w w' : WState} {a : WAct}
    (h : wstep cfg sh w a = some (sh', w')) : WStep cfg sh w a sh' w' := by
  cases w <;> cases a <;> try simp only [wstep, reduceCtorEq] at h
  case idle.recv =>
    split at h
    · next s rest p' hb hs =>
      obtain ⟨hp, v, r, hb', rfl⟩ := Pipe.step_send hs
      rw [hb] at hb'; cases hb'
      cases h; exact WStep.recv hp hb
    · cases h
  case idle.exitIdle =>
    split at h
    · next hc => cases h; exact WStep.exitIdle hc
    · cases h
  case got.memErr => cases h; exact WStep.memErr
  case got.driverOk => cases h; exact WStep.driverOk
  case got.driverErr => cases h; exact WStep.driverErr
  case got.driverErrSilent => cases h; exact WStep.driverErrSilent
  case sub.inc rest =>
    cases rest with
    | nil => simp [wstep] at h
    | cons c rest => simp only [wstep] at h; cases h; exact WStep.inc
  case sub.dec rest =>
    cases rest with
    | nil => simp only [wstep] at h; cases h; exact WStep.dec
    | cons c rest => simp [wstep] at h
  case incd.submit =>
    split at h
    · next p' hs =>
      obtain ⟨hp, rfl⟩ := Pipe.step_recv hs
      cases h; exact WStep.submit hp
    · cases h
  case incd.submitDrop =>
    split at h
    · next hc => cases h; exact WStep.submitDrop hc
    · cases h
  case decd.compl =>
    split at h
    · next hc => cases h; exact WStep.compl hc
    · cases h
  case decd.complCancel =>
    split at h
    · next hc => cases h; exact WStep.complCancel hc
    · cases h
  case failed.fail => cases h; exact WStep.fail
  case failedSilent.failSilent =>
    split at h
    · next hf => cases h; exact WStep.failSilentFixed hf
    · next hf => cases h; exact WStep.failSilent (by simpa using hf)

/-! ### bookkeeping functions of the invariants -/

/-- counter units held by a worker: the segment being expanded (+1 for a child already counted but
not yet submitted). A worker that failed keeps its unit for ever (it never runs `Add(-1)`). -/
def wt : WState → Nat
  | .got _ => 1
  | .sub _ => 1
  | .incd _ _ => 2
  | .failed => 1
  | .failedSilent => 1
  | .exitedFailed => 1
  | _ => 0

/-- subtrees held by a worker whose nodes have not been handed to the driver yet -/
def pend : WState → List T
  | .got s => [s]
  | .sub rest => rest
  | .incd c rest => c :: rest
  | _ => []

def cwt : CState → Nat
  | .c1 => 1
  | _ => 0

def cpend (root : T) : CState → List T
  | .c0 => [root]
  | .c1 => [root]
  | _ => []

def isFailedish : WState → Nat
  | .failed => 1
  | .failedSilent => 1
  | .exitedFailed => 1
  | _ => 0

def isDecd : WState → Nat
  | .decd => 1
  | _ => 0

def isExitedN : WState → Nat
  | .exited => 1
  | .exitedFailed => 1
  | _ => 0

def wtSum (ws : List WState) : Nat := (ws.map wt).sum
def pendSum (ws : List WState) : Multiset T := (ws.map (fun w => nm (pend w))).sum
def failSum (ws : List WState) : Nat := (ws.map isFailedish).sum
def decdSum (ws : List WState) : Nat := (ws.map isDecd).sum
def exitedSum (ws : List WState) : Nat := (ws.map isExitedN).sum

theorem isFailedish_le_wt (w : WState) : isFailedish w ≤ wt w := by cases w <;> simp [isFailedish, wt]
theorem failSum_le_wtSum (ws : List WState) : failSum ws ≤ wtSum ws := by
  induction ws with
  | nil => simp [failSum, wtSum]
  | cons x xs ih =>
    have := isFailedish_le_wt x
    simp only [failSum, wtSum, List.map_cons, List.sum_cons] at *; omega

/-! ### local (one worker) effect of a step on each invariant -/

theorem WStep.cnt {cfg sh w a sh' w'} (h : WStep cfg sh w a sh' w') :
    sh'.count + ((wt w + sh.pipe.buf.length + sh.dropUnits : Nat) : Int) =
      sh.count + ((wt w' + sh'.pipe.buf.length + sh'.dropUnits : Nat) : Int) := by
  cases h <;> simp [wt, Shared.setPipe] <;> try omega
  case recv hp hb => rw [hb]; simp; omega

theorem WStep.tree {cfg sh w a sh' w'} (h : WStep cfg sh w a sh' w') :
    (↑sh'.expanded : Multiset T) + nm sh'.pipe.buf + nm (pend w') + nm sh'.lost =
      ↑sh.expanded + nm sh.pipe.buf + nm (pend w) + nm sh.lost := by
  cases h <;> simp only [pend, Shared.setPipe, nm_nil, nm_append, add_zero] <;> try rfl
  case recv s rest hp hb => rw [hb, nm_cons s rest]; abel
  case memErr s => rw [nm_cons s sh.lost]; abel
  case driverOk s => rw [nm_single s, ← Multiset.coe_add, Multiset.coe_singleton]; abel
  case driverErr s => rw [nm_single s, ← Multiset.coe_add, Multiset.coe_singleton]; abel
  case driverErrSilent s => rw [nm_single s, ← Multiset.coe_add, Multiset.coe_singleton]; abel
  case submit c rest hp => rw [nm_cons c rest]; abel
  case submitDrop c rest hc => rw [nm_cons c rest, nm_cons c sh.lost]; abel

theorem WStep.cancelled_mono {cfg sh w a sh' w'} (h : WStep cfg sh w a sh' w') :
    sh.cancelled = true → sh'.cancelled = true := by
  cases h <;> simp [Shared.cancelled, Shared.setPipe]

theorem WStep.lostc {cfg sh w a sh' w'} (h : WStep cfg sh w a sh' w') :
    sh.dropUnits ≤ sh'.dropUnits ∧ isFailedish w ≤ isFailedish w' ∧
    (sh'.lost = sh.lost ∨ sh.dropUnits < sh'.dropUnits ∨ 0 < isFailedish w') := by
  cases h <;> simp [isFailedish, Shared.setPipe]

/-! ### global steps -/

inductive BF.Reach (cfg : Cfg) : BF → Prop where
  | init : BF.Reach cfg (BF.init cfg)
  | step {s s' : BF} {a : Act} : BF.Reach cfg s → s.step cfg a = some s' → BF.Reach cfg s'

theorem step_w_inv {cfg : Cfg} {s s' : BF} {i : Nat} {a : WAct} (h : s.step cfg (.w i a) = some s') :
    ∃ w sh' w', s.ws[i]? = some w ∧ WStep cfg s.sh w a sh' w' ∧ s' = { s with sh := sh', ws := s.ws.set i w' } := by
  simp only [BF.step] at h
  split at h
  · cases h
  · next w hw =>
    split at h
    · cases h
    · next sh' w' hs => cases h; exact ⟨w, sh', w', hw, wstep_sound hs, rfl⟩

/-- safety invariant (holds for the code as it is and for the repaired variant) -/
structure Inv (cfg : Cfg) (s : BF) : Prop where
  cnt : s.sh.count = ((s.sh.pipe.buf.length + wtSum s.ws + cwt s.coord + s.sh.dropUnits : Nat) : Int)
  tree : (↑cfg.root.nodes : Multiset T) =
    ↑s.sh.expanded + nm s.sh.pipe.buf + pendSum s.ws + nm (cpend cfg.root s.coord) + nm s.sh.lost
  lostc : s.sh.lost ≠ [] → 0 < s.sh.dropUnits ∨ 0 < failSum s.ws
  len : s.ws.length = cfg.n

theorem sum_replicate_zero (f : WState → Nat) (n : Nat) (w : WState) (h : f w = 0) :
    ((List.replicate n w).map f).sum = 0 := by
  induction n with
  | zero => rfl
  | succ k ih => simp [List.replicate_succ, h, ih]

theorem pendSum_replicate_idle (n : Nat) : pendSum (List.replicate n .idle) = 0 := by
  induction n with
  | zero => rfl
  | succ k ih => simp [pendSum, List.replicate_succ, pend] at *

theorem inv_init (cfg : Cfg) : Inv cfg (BF.init cfg) := by
  refine ⟨?_, ?_, ?_, ?_⟩
  · have := sum_replicate_zero wt cfg.n .idle rfl
    simp only [BF.init, wtSum, this, cwt]; rfl
  · simp [BF.init, pendSum_replicate_idle, cpend, nm]
  · intro h; exact absurd rfl h
  · simp [BF.init]

theorem inv_step_w {cfg : Cfg} {s : BF} {i : Nat} {w w' : WState} {a : WAct} {sh' : Shared}
    (hi : Inv cfg s) (hw : s.ws[i]? = some w) (hs : WStep cfg s.sh w a sh' w') :
    Inv cfg { s with sh := sh', ws := s.ws.set i w' } := by
  refine ⟨?_, ?_, ?_, ?_⟩
  · have h1 := hs.cnt
    have h2 := sum_set_nat wt s.ws i w w' hw
    have h3 := hi.cnt
    simp only [wtSum] at *
    show sh'.count = _
    push_cast at *
    omega
  · have h1 := hs.tree
    have h2 := sum_set_ms (fun w => nm (pend w)) s.ws i w w' hw
    have h3 := hi.tree
    simp only [pendSum] at *
    show _ = ↑sh'.expanded + nm sh'.pipe.buf + _ + nm (cpend cfg.root s.coord) + nm sh'.lost
    apply add_right_cancel (b := nm (pend w))
    calc (↑cfg.root.nodes : Multiset T) + nm (pend w)
        = (↑s.sh.expanded + nm s.sh.pipe.buf + nm (pend w) + nm s.sh.lost) +
            ((s.ws.map (fun w => nm (pend w))).sum + nm (cpend cfg.root s.coord)) := by rw [h3]; abel
      _ = (↑sh'.expanded + nm sh'.pipe.buf + nm sh'.lost + nm (cpend cfg.root s.coord)) +
            ((s.ws.map (fun w => nm (pend w))).sum + nm (pend w')) := by rw [← h1]; abel
      _ = (↑sh'.expanded + nm sh'.pipe.buf + nm sh'.lost + nm (cpend cfg.root s.coord)) +
            (((s.ws.set i w').map (fun w => nm (pend w))).sum + nm (pend w)) := by rw [h2]
      _ = _ := by abel
  · have ⟨h1, h2, h3⟩ := hs.lostc
    have h4 : failSum (s.ws.set i w') + isFailedish w = failSum s.ws + isFailedish w' :=
      sum_set_nat isFailedish s.ws i w w' hw
    intro hl
    show 0 < sh'.dropUnits ∨ 0 < failSum (s.ws.set i w')
    rcases h3 with h3 | h3 | h3
    · rw [h3] at hl
      rcases hi.lostc hl with h | h
      · left; omega
      · right; omega
    · left; omega
    · right
      have hlt : i < s.ws.length := by
        rcases Nat.lt_or_ge i s.ws.length with h | h
        · exact h
        · rw [List.getElem?_eq_none h] at hw; cases hw
      exact sum_pos_of_mem isFailedish (s.ws.set i w') i w' (by simp [hlt]) h3
  · simpa using hi.len

theorem inv_step {cfg : Cfg} {s s' : BF} {a : Act} (hi : Inv cfg s) (h : s.step cfg a = some s') : Inv cfg s' := by
  cases a with
  | w i a =>
    obtain ⟨w, sh', w', hw, hs, rfl⟩ := step_w_inv h
    exact inv_step_w hi hw hs
  | cInc =>
    simp only [BF.step] at h
    split at h <;> try cases h
    next hc =>
    refine ⟨?_, ?_, hi.lostc, hi.len⟩
    · have := hi.cnt; rw [hc] at this; simp only [cwt] at *; show s.sh.count + 1 = _; push_cast at *; omega
    · have := hi.tree; rw [hc] at this; simpa [cpend] using this
  | cSubmitRoot =>
    simp only [BF.step] at h
    split at h <;> try cases h
    next p' hc hs =>
    obtain ⟨hp, rfl⟩ := Pipe.step_recv hs
    refine ⟨?_, ?_, hi.lostc, hi.len⟩
    · have := hi.cnt; rw [hc] at this; simp only [cwt, Shared.setPipe] at *
      show s.sh.count = _; simp only [List.length_append, List.length_singleton]; push_cast at *; omega
    · have := hi.tree; rw [hc] at this
      simp only [cpend, Shared.setPipe, nm_append, nm_nil, add_zero] at *
      rw [this]; abel
  | cSubmitRootCancel =>
    simp only [BF.step] at h
    split at h <;> try cases h
    next hc =>
    split at h <;> try cases h
    refine ⟨?_, ?_, fun _ => Or.inl (Nat.succ_pos _), hi.len⟩
    · have := hi.cnt; rw [hc] at this; simp only [cwt] at *
      show s.sh.count = _; push_cast at *; omega
    · have := hi.tree; rw [hc] at this
      simp only [cpend, nm_nil, add_zero] at *
      show _ = ↑s.sh.expanded + nm s.sh.pipe.buf + pendSum s.ws + nm (cfg.root :: s.sh.lost)
      rw [this, nm_cons cfg.root s.sh.lost]; abel
  | cRecv =>
    simp only [BF.step] at h
    split at h <;> try cases h
    next hc =>
    split at h <;> try cases h
    refine ⟨?_, ?_, hi.lostc, hi.len⟩
    · have := hi.cnt; rw [hc] at this; simpa [cwt] using this
    · have := hi.tree; rw [hc] at this; simpa [cpend] using this
  | cRecvCancel =>
    simp only [BF.step] at h
    split at h <;> try cases h
    next hc =>
    split at h <;> try cases h
    refine ⟨?_, ?_, hi.lostc, hi.len⟩
    · have := hi.cnt; rw [hc] at this; simpa [cwt] using this
    · have := hi.tree; rw [hc] at this; simpa [cpend] using this
  | cLoad =>
    simp only [BF.step] at h
    split at h <;> try cases h
    next hc =>
    split at h <;> cases h <;> refine ⟨?_, ?_, hi.lostc, hi.len⟩
    all_goals first
      | (have := hi.cnt; rw [hc] at this; simpa [cwt] using this)
      | (have := hi.tree; rw [hc] at this; simpa [cpend] using this)
  | cCancel =>
    simp only [BF.step] at h
    split at h <;> try cases h
    next z hc =>
    refine ⟨?_, ?_, hi.lostc, hi.len⟩
    · have := hi.cnt; rw [hc] at this; simpa [cwt, Shared.setPipe] using this
    · have := hi.tree; rw [hc] at this; simpa [cpend, Shared.setPipe] using this
  | cReturn =>
    simp only [BF.step] at h
    split at h <;> try cases h
    next z hc =>
    split at h <;> try cases h
    refine ⟨?_, ?_, hi.lostc, hi.len⟩
    · have := hi.cnt; rw [hc] at this; simpa [cwt] using this
    · have := hi.tree; rw [hc] at this; simpa [cpend] using this
  | pipeExit =>
    simp only [BF.step] at h
    split at h <;> try cases h
    next p' hs =>
    obtain ⟨_, _, rfl⟩ := Pipe.step_observe hs
    exact ⟨hi.cnt, hi.tree, hi.lostc, hi.len⟩
  | cancel =>
    simp only [BF.step] at h
    split at h <;> try cases h
    exact ⟨hi.cnt, hi.tree, hi.lostc, hi.len⟩

theorem reach_inv {cfg : Cfg} {s : BF} (h : BF.Reach cfg s) : Inv cfg s := by
  induction h with
  | init => exact inv_init cfg
  | step _ hs ih => exact inv_step ih hs

/-! ### termination measure: remaining atomic actions, an upper bound that every step decreases -/

def bufPot : List T → Nat
  | [] => 0
  | t :: l => (8 * t.sz - 2) + bufPot l

@[simp] theorem bufPot_nil : bufPot [] = 0 := rfl
@[simp] theorem bufPot_cons (t : T) (l : List T) : bufPot (t :: l) = (8 * t.sz - 2) + bufPot l := rfl
@[simp] theorem bufPot_append (a b : List T) : bufPot (a ++ b) = bufPot a + bufPot b := by
  induction a with
  | nil => simp
  | cons t l ih => simp [ih]; omega

def wμ : WState → Nat
  | .idle => 1
  | .got s => 8 * s.sz - 2
  | .sub rest => 5 + 8 * szL rest
  | .incd c rest => 4 + 8 * c.sz + 8 * szL rest
  | .decd => 4
  | .failed => 2
  | .failedSilent => 2
  | .exited => 0
  | .exitedFailed => 0

def cμ (root : T) : CState → Nat
  | .c0 => 8 * root.sz + 4
  | .c1 => 8 * root.sz + 3
  | .wait => 3
  | .load => 4
  | .brk _ => 2
  | .join _ => 1
  | .ret _ => 0

def phasePot : Phase → Nat
  | .done => 0
  | _ => 1
def cancPot : Bool → Nat
  | true => 0
  | false => 1
theorem cancPot_le (b : Bool) : cancPot b ≤ 1 := by cases b <;> simp [cancPot]

def shμ (sh : Shared) : Nat :=
  bufPot sh.pipe.buf + 2 * sh.compl + phasePot sh.pipe.phase + cancPot sh.pipe.cancelled

/-- the measure: an upper bound on the number of atomic actions still to come -/
def BF.μ (cfg : Cfg) (s : BF) : Nat := shμ s.sh + (s.ws.map wμ).sum + cμ cfg.root s.coord

theorem WStep.measure {cfg sh w a sh' w'} (h : WStep cfg sh w a sh' w') : shμ sh' + wμ w' < shμ sh + wμ w := by
  have hcp := cancPot_le sh.pipe.cancelled
  cases h <;> simp only [shμ, wμ, Shared.setPipe, Shared.cancelled, cancPot] at *
  case recv s rest hp hb => rw [hb]; simp; omega
  case exitIdle hc => omega
  case memErr s => have := s.sz_pos; omega
  case driverOk s => have := s.sz_eq; omega
  case driverErr s => have := s.sz_pos; omega
  case driverErrSilent s => have := s.sz_pos; omega
  case inc c rest => simp; omega
  case submit c rest hp => have := c.sz_pos; simp; omega
  case submitDrop c rest hc => have := c.sz_pos; omega
  case dec => simp
  case compl hc => omega
  case complCancel hc => omega
  case fail => omega
  case failSilentFixed hf => omega
  case failSilent hf => omega

theorem measure_step {cfg : Cfg} {s s' : BF} {a : Act} (h : s.step cfg a = some s') : s'.μ cfg < s.μ cfg := by
  cases a with
  | w i a =>
    obtain ⟨w, sh', w', hw, hs, rfl⟩ := step_w_inv h
    have h1 := hs.measure
    have h2 := sum_set_nat wμ s.ws i w w' hw
    simp only [BF.μ]; omega
  | cInc =>
    simp only [BF.step] at h
    split at h <;> try cases h
    next hc => simp only [BF.μ, hc, cμ, shμ]; omega
  | cSubmitRoot =>
    simp only [BF.step] at h
    split at h <;> try cases h
    next p' hc hs =>
    obtain ⟨hp, rfl⟩ := Pipe.step_recv hs
    have := cfg.root.sz_pos
    simp only [BF.μ, hc, cμ, shμ, Shared.setPipe, bufPot_append, bufPot_cons, bufPot_nil]; omega
  | cSubmitRootCancel =>
    simp only [BF.step] at h
    split at h <;> try cases h
    next hc =>
    split at h <;> try cases h
    simp only [BF.μ, hc, cμ, shμ]; omega
  | cRecv =>
    simp only [BF.step] at h
    split at h <;> try cases h
    next hc =>
    split at h <;> try cases h
    next hpos => simp only [BF.μ, hc, cμ, shμ]; omega
  | cRecvCancel =>
    simp only [BF.step] at h
    split at h <;> try cases h
    next hc =>
    split at h <;> try cases h
    simp only [BF.μ, hc, cμ, shμ]; omega
  | cLoad =>
    simp only [BF.step] at h
    split at h <;> try cases h
    next hc =>
    split at h <;> cases h <;> simp only [BF.μ, hc, cμ, shμ] <;> omega
  | cCancel =>
    simp only [BF.step] at h
    split at h <;> try cases h
    next z hc => have := cancPot_le s.sh.pipe.cancelled; simp only [BF.μ, hc, cμ, shμ, Shared.setPipe, cancPot]; omega
  | cReturn =>
    simp only [BF.step] at h
    split at h <;> try cases h
    next z hc =>
    split at h <;> try cases h
    simp only [BF.μ, hc, cμ, shμ]; omega
  | pipeExit =>
    simp only [BF.step] at h
    split at h <;> try cases h
    next p' hs =>
    obtain ⟨_, hp, rfl⟩ := Pipe.step_observe hs
    have : 1 ≤ phasePot s.sh.pipe.phase := by
      cases hph : s.sh.pipe.phase <;> simp_all [phasePot]
    simp only [BF.μ, shμ, Shared.setPipe, phasePot]; omega
  | cancel =>
    simp only [BF.step] at h
    split at h <;> try cases h
    next hc =>
    simp only [Shared.cancelled] at hc
    have : s.sh.pipe.cancelled = false := by simpa using hc
    simp only [BF.μ, shμ, Shared.setPipe, this, cancPot]; omega

end Dawgs.C17
