import Dawgs.Proofs.C07YieldPat
set_option linter.unusedSimpArgs false
set_option linter.unusedVariables false
set_option linter.unusedSectionVars false
/-! `yield (treeOf query) = emit query`: clauses, single-part and multi-part queries. -/
namespace Dawgs.C07
open Dawgs.Grammar Dawgs.C08

theorem commaSep_yield {α} (N : Names) (f : α → Tree) (F : α → List String) (xs : List α) (h : ∀ x ∈ xs, F x = yieldT (f x)) :
    commaSep (xs.map F) = yieldL (interleave (N.lf "T__6" ",") (xs.map f)) := by
  rw [yieldL_interleave, commaSep_eq, List.map_map]
  congr 1
  exact List.map_congr_left h

theorem size_mem_interleave {α} (sep : Tree) (f : α → Tree) (xs : List α) (x : α) (hx : x ∈ xs) :
    size (f x) ≤ sizeL (interleave sep (xs.map f)) :=
  Nat.le_trans (size_le_sizeL (List.mem_map_of_mem (f := f) hx)) (sizeL_le_interleave sep _)

theorem flatten_yield {α} (f : α → Tree) (F : α → List String) (xs : List α) (h : ∀ x ∈ xs, F x = yieldT (f x)) :
    (xs.map F).flatten = yieldL (xs.map f) := by
  rw [yieldL_map]
  congr 1
  exact List.map_congr_left h

section YC
variable {N : Names} (recT : Expr → Tree) (recW : Expr → Bool) (Hrec : EmitOK N recT recW)
include Hrec

theorem yield_exprNode (e : Expr) (hw : recW e = true) (hG : size (exprNode N (recT e)) ≤ bigFuel) :
    eExpr bigFuel e = yieldT (exprNode N (recT e)) := by
  have := Hrec e bigFuel hw (by simp [exprNode] at hG; omega)
  simp [exprNode, this]

theorem yield_where (w : Option Expr) (hw : ∀ e, w = some e → recW e = true) (hG : sizeL (optList w (whereNode N recT)) ≤ bigFuel) :
    eWhere w = yieldL (optList w (whereNode N recT)) := by
  cases w with
  | none => simp [eWhere, optList]
  | some e =>
    have := yield_exprNode recT recW Hrec e (hw e rfl) (by simp [optList, whereNode] at hG ⊢; omega)
    simp [eWhere, optList, whereNode, this]

theorem yield_projItem (it : Expr × Option String) (hw : recW it.1 = true) (hG : size (projItem N recT it) ≤ bigFuel) :
    eItem it = yieldT (projItem N recT it) := by
  obtain ⟨e, a⟩ := it
  have := yield_exprNode recT recW Hrec e hw (by cases a <;> simp [projItem] at hG ⊢ <;> omega)
  cases a <;> simp [eItem, eAs, projItem, this, varNode, symName]

theorem yield_sortItem (si : Bool × Expr) (hw : recW si.2 = true) (hG : size (sortItem N recT si) ≤ bigFuel) :
    eSortItem si = yieldT (sortItem N recT si) := by
  obtain ⟨a, e⟩ := si
  have := yield_exprNode recT recW Hrec e hw (by simp [sortItem] at hG ⊢; omega)
  cases a <;> simp [eSortItem, sortItem, this]

theorem yield_order (o : Option (List (Bool × Expr))) (hw : ∀ ol, o = some ol → ol.all (fun si => recW si.2) = true)
    (hG : sizeL (optList o (orderNode N recT)) ≤ bigFuel) : eOrder o = yieldL (optList o (orderNode N recT)) := by
  cases o with
  | none => simp [eOrder, optList]
  | some ol =>
    simp only [optList, orderNode, sizeL_cons', sizeL_nil', size_nd, sizeL_append, size_lf] at hG
    have := commaSep_yield N (sortItem N recT) eSortItem ol (fun si hsi =>
      yield_sortItem recT recW Hrec si (by simpa using (List.all_eq_true.1 (hw ol rfl)) si hsi)
        (by have := size_mem_interleave (N.lf "T__6" ",") (sortItem N recT) ol si hsi; omega))
    simp [eOrder, optList, orderNode, this]

theorem yield_kwExpr (kw r tk : String) (e : Option Expr) (hw : ∀ x, e = some x → recW x = true)
    (hG : sizeL (optList e (fun x => N.nd r [N.lf tk kw, exprNode N (recT x)])) ≤ bigFuel) :
    eKwExpr kw e = yieldL (optList e (fun x => N.nd r [N.lf tk kw, exprNode N (recT x)])) := by
  cases e with
  | none => simp [eKwExpr, optList]
  | some x =>
    have := yield_exprNode recT recW Hrec x (hw x rfl) (by simp [optList] at hG ⊢; omega)
    simp [eKwExpr, optList, this]

theorem isStarItem_eq' (it : Expr × Option String) (h : isStarItem it = true) : it = (.var "*", none) := by
  obtain ⟨e, a⟩ := it
  cases e <;> cases a <;> simp [isStarItem] at h ⊢
  exact h

theorem sizeL_commaItems_mem' : ∀ (rest : List (Expr × Option String)) (x : Expr × Option String), x ∈ rest →
    size (projItem N recT x) ≤ sizeL ((rest.map (fun x => [N.lf "T__6" ",", projItem N recT x])).flatten)
  | [], _, h => by cases h
  | y :: rest, x, h => by
    rcases List.mem_cons.1 h with h | h
    · subst h; simp; omega
    · have := sizeL_commaItems_mem' rest x h; simp; omega

theorem yield_projItems (items : List (Expr × Option String)) (hw : wItems recW items = true)
    (hG : sizeL (projItemsKids N recT items) ≤ bigFuel) : commaSep (items.map eItem) = yieldL (projItemsKids N recT items) := by
  cases items with
  | nil => simp [projItemsKids, commaSep]
  | cons it rest =>
    by_cases hs : isStarItem it = true
    · simp only [wItems, hs, if_true] at hw
      simp only [projItemsKids, hs, if_true, sizeL_cons', size_lf] at hG ⊢
      have hit := isStarItem_eq' recT recW Hrec it hs
      obtain ⟨G, hGe⟩ : ∃ G, bigFuel = G + 1 := ⟨99999, rfl⟩
      have hstar : eItem it = ["*"] := by rw [hit]; simp only [eItem, eAs]; rw [hGe]; simp [eExpr]
      have hrest : (rest.map (fun y => "," :: eItem y)).flatten =
          yieldL ((rest.map (fun x => [N.lf "T__6" ",", projItem N recT x])).flatten) := by
        rw [yieldL_flatten_map]
        refine congrArg List.flatten (List.map_congr_left ?_)
        intro x hx
        have := sizeL_commaItems_mem' recT recW Hrec rest x hx
        have hwx := (List.all_eq_true.1 hw) x hx
        simp only [wItem, Bool.and_eq_true] at hwx
        have := yield_projItem recT recW Hrec x hwx.1 (by omega)
        simp [this]
      simp only [List.map_cons, commaSep, hstar, yieldL_cons, yieldT_lf, ← hrest, List.map_map]
      rfl
    · have hs' : isStarItem it = false := by simpa using hs
      simp only [wItems, hs', Bool.false_eq_true, if_false] at hw
      simp only [projItemsKids, hs', Bool.false_eq_true, if_false] at hG ⊢
      exact commaSep_yield N (projItem N recT) eItem (it :: rest) (fun x hx => by
        have hwx := (List.all_eq_true.1 hw) x hx
        simp only [wItem, Bool.and_eq_true] at hwx
        exact yield_projItem recT recW Hrec x hwx.1
          (by have := size_mem_interleave (N.lf "T__6" ",") (projItem N recT) (it :: rest) x hx; omega))

theorem yield_projBody (p : Projection) (hw : wProjBody recW p = true) (hG : size (tProjBody N recT p) ≤ bigFuel) :
    eProjection p = yieldT (tProjBody N recT p) := by
  obtain ⟨d, items, order, skip, limit⟩ := p
  simp only [wProjBody, Bool.and_eq_true] at hw
  obtain ⟨⟨⟨hwi, hwo⟩, hws⟩, hwl⟩ := hw
  simp only [tProjBody, size_nd, sizeL_append, sizeL_cons', sizeL_nil'] at hG
  have h1 := yield_projItems recT recW Hrec items hwi (by omega)
  have h2 := yield_order recT recW Hrec order (by intro ol h; subst h; exact hwo) (by omega)
  have h3 := yield_kwExpr recT recW Hrec "skip" "oC_Skip" "L_SKIP" skip (by intro e h; subst h; exact hws) (by omega)
  have h4 := yield_kwExpr recT recW Hrec "limit" "oC_Limit" "LIMIT" limit (by intro e h; subst h; exact hwl) (by omega)
  simp only [eProjection, tProjBody, yieldT_nd, yieldL_append, yieldL_cons, yieldL_nil, h1, h2, h3, h4]
  cases d <;> simp

/-! ### reading clauses -/

theorem yield_pattern (ps : List PatternPart) (hw : ps.all (wPart recW) = true) (hG : size (patternNode N recT ps) ≤ bigFuel) :
    commaSep (ps.map ePatternPart) = yieldT (patternNode N recT ps) := by
  simp only [patternNode, size_nd] at hG
  simp only [patternNode, yieldT_nd]
  exact commaSep_yield N (tPart N recT) ePatternPart ps (fun p hp =>
    yield_tPart recT recW Hrec p ((List.all_eq_true.1 hw) p hp)
      (by have := size_mem_interleave (N.lf "T__6" ",") (tPart N recT) ps p hp; omega))

theorem yield_reading (r : Reading) (hw : wReading recW r = true) (hG : size (tReading N recT r) ≤ bigFuel) :
    eReading r = yieldT (tReading N recT r) := by
  cases r with
  | unwind e v =>
    simp only [wReading] at hw
    have := yield_exprNode recT recW Hrec e hw (by simp [tReading] at hG ⊢; omega)
    simp [eReading, tReading, this, varNode, symName]
  | match_ o ps w =>
    simp only [wReading, Bool.and_eq_true] at hw
    simp only [tReading, size_nd, sizeL_append, sizeL_cons', sizeL_nil', size_lf] at hG
    have h1 := yield_pattern recT recW Hrec ps hw.1 (by omega)
    have h2 := yield_where recT recW Hrec w (by intro e h; subst h; exact hw.2) (by omega)
    simp only [eReading, tReading, yieldT_nd, yieldL_append, yieldL_cons, yieldL_nil, yieldT_lf, h1, h2]
    cases o <;> simp

/-! ### updating clauses -/

theorem yield_propExpr (a : Expr) (k : String) (hwa : wAtom recW a = true) (hk : simpleKey k = true)
    (hG : size (propExprNode N recT a k) ≤ bigFuel) : eExpr bigFuel (.prop a k) = yieldT (propExprNode N recT a k) := by
  obtain ⟨G, hGe⟩ : ∃ G, bigFuel = G + 1 := ⟨99999, rfl⟩
  rw [hGe] at hG ⊢
  simp only [propExprNode, size_nd, sizeL_cons', sizeL_nil'] at hG
  have := yield_tAtom recT recW Hrec a G hwa (by have := size_pos (propNode N k); omega)
  simp [eExpr, propExprNode, this, propNode, schemaName, symName, escapeKeyTok_simple k hk]

theorem yield_labels (ks : List String) : eKinds ks = yieldT (labelsNode N ks) := by
  simp [eKinds, yield_labelsNode recT recW Hrec]

theorem yield_setItem (it : SetItem) (hw : wSetItem recW it = true) (hG : size (setItemNode N recT it) ≤ bigFuel) :
    eSetItem it = yieldT (setItemNode N recT it) := by
  obtain ⟨left, op, right⟩ := it
  have hbig : 1 ≤ bigFuel := by decide
  cases left with
  | prop a k =>
    cases right with
    | expr e =>
      simp only [wSetItem, Bool.and_eq_true, Bool.or_eq_true, beq_iff_eq] at hw
      obtain ⟨⟨hl, hop⟩, hr⟩ := hw
      simp only [setItemNode, size_nd, sizeL_append, sizeL_cons', sizeL_nil'] at hG
      have h1 := yield_propExpr recT recW Hrec a k hl.1 hl.2 (by omega)
      have h2 := yield_exprNode recT recW Hrec e hr (by omega)
      rcases hop with (h | h) | h <;> subst h <;> simp [eSetItem, eSetRhs, setItemNode, h1, h2]
    | kinds ks =>
      simp only [wSetItem, Bool.and_eq_true, Bool.or_eq_true, beq_iff_eq] at hw
      obtain ⟨⟨hl, hop⟩, hr⟩ := hw
      simp only [setItemNode, size_nd, sizeL_append, sizeL_cons', sizeL_nil'] at hG
      have h1 := yield_propExpr recT recW Hrec a k hl.1 hl.2 (by omega)
      have h2 := yield_labels recT recW Hrec ks
      rcases hop with (h | h) | h <;> subst h <;> simp [eSetItem, eSetRhs, setItemNode, h1, h2]
  | var v =>
    obtain ⟨G, hGe⟩ : ∃ G, bigFuel = G + 1 := ⟨99999, rfl⟩
    have hv : eExpr bigFuel (.var v) = [v] := by rw [hGe]; simp [eExpr]
    cases right with
    | expr e =>
      simp only [wSetItem, Bool.and_eq_true, Bool.or_eq_true, beq_iff_eq] at hw
      obtain ⟨⟨hl, hop⟩, hr⟩ := hw
      simp only [setItemNode, size_nd, sizeL_append, sizeL_cons', sizeL_nil'] at hG
      have h2 := yield_exprNode recT recW Hrec e hr (by omega)
      rcases hop with (h | h) | h <;> subst h <;> simp [eSetItem, eSetRhs, setItemNode, hv, h2, varNode, symName]
    | kinds ks =>
      simp only [wSetItem, Bool.and_eq_true, Bool.or_eq_true, beq_iff_eq] at hw
      obtain ⟨⟨hl, hop⟩, hr⟩ := hw
      have h2 := yield_labels recT recW Hrec ks
      rcases hop with (h | h) | h <;> subst h <;> simp [eSetItem, eSetRhs, setItemNode, hv, h2, varNode, symName]
  | _ => simp [wSetItem] at hw

theorem yield_setItems (items : List SetItem) (hw : items.all (wSetItem recW) = true) (hG : size (setNode N recT items) ≤ bigFuel) :
    eSetItems items = yieldT (setNode N recT items) := by
  simp only [setNode, size_nd, sizeL_cons', size_lf] at hG
  have := commaSep_yield N (setItemNode N recT) eSetItem items (fun it hit =>
    yield_setItem recT recW Hrec it ((List.all_eq_true.1 hw) it hit)
      (by have := size_mem_interleave (N.lf "T__6" ",") (setItemNode N recT) items it hit; omega))
  simp [eSetItems, setNode, this]

theorem yield_removeItem (it : RemoveItem) (hw : wRemoveItem recW it = true) (hG : size (removeItemNode N recT it) ≤ bigFuel) :
    eRemoveItem it = yieldT (removeItemNode N recT it) := by
  cases it with
  | kinds r ks =>
    have h2 := yield_labels recT recW Hrec ks
    simp [eRemoveItem, removeItemNode, h2, varNode, symName]
  | prop l =>
    cases l with
    | prop a k =>
      simp only [wRemoveItem, Bool.and_eq_true] at hw
      simp only [removeItemNode, size_nd, sizeL_cons', sizeL_nil'] at hG
      have h1 := yield_propExpr recT recW Hrec a k hw.1 hw.2 (by omega)
      simp [eRemoveItem, removeItemNode, h1]
    | _ => simp [wRemoveItem] at hw

theorem yield_mergeAction (a : Bool × Bool × List SetItem) (hx : (a.1 != a.2.1) = true) (hw : a.2.2.all (wSetItem recW) = true)
    (hG : size (mergeActionNode N recT a) ≤ bigFuel) : eMergeAction a = yieldT (mergeActionNode N recT a) := by
  obtain ⟨c, m, items⟩ := a
  simp only [mergeActionNode, size_nd, sizeL_cons', sizeL_nil', size_lf] at hG
  have hs := yield_setItems recT recW Hrec items hw (by split at hG <;> simp at hG <;> omega)
  cases c <;> cases m <;> simp at hx <;> simp [eMergeAction, mergeActionNode, hs]

theorem yield_updating (u : Updating) (hw : wUpdating recW u = true) (hG : size (tUpdating N recT u) ≤ bigFuel) :
    eUpdating u = yieldT (tUpdating N recT u) := by
  cases u with
  | create ps =>
    simp only [wUpdating] at hw
    simp only [tUpdating, size_nd, sizeL_cons', sizeL_nil', size_lf] at hG
    have h1 := yield_pattern recT recW Hrec ps hw (by omega)
    simp [eUpdating, tUpdating, h1]
  | delete d es =>
    simp only [wUpdating] at hw
    simp only [tUpdating, size_nd, sizeL_cons', sizeL_nil', size_lf, sizeL_append] at hG
    have h1 := commaSep_yield N (fun e => exprNode N (recT e)) (eExpr bigFuel) es (fun e he =>
      yield_exprNode recT recW Hrec e ((List.all_eq_true.1 hw) e he)
        (by have := size_mem_interleave (N.lf "T__6" ",") (fun e => exprNode N (recT e)) es e he; omega))
    cases d <;> simp [eUpdating, tUpdating, h1]
  | remove items =>
    simp only [wUpdating] at hw
    simp only [tUpdating, size_nd, sizeL_cons', sizeL_nil', size_lf] at hG
    have h1 := commaSep_yield N (removeItemNode N recT) eRemoveItem items (fun it hit =>
      yield_removeItem recT recW Hrec it ((List.all_eq_true.1 hw) it hit)
        (by have := size_mem_interleave (N.lf "T__6" ",") (removeItemNode N recT) items it hit; omega))
    simp [eUpdating, tUpdating, h1]
  | set items =>
    simp only [wUpdating] at hw
    simp only [tUpdating, size_nd, sizeL_cons', sizeL_nil'] at hG
    have h1 := yield_setItems recT recW Hrec items hw (by omega)
    simp [eUpdating, tUpdating, h1]
  | merge part acts =>
    simp only [wUpdating, Bool.and_eq_true] at hw
    simp only [tUpdating, size_nd, sizeL_cons', sizeL_nil', size_lf, sizeL_append] at hG
    have h1 := yield_tPart recT recW Hrec part hw.1 (by omega)
    have h2 := flatten_yield (mergeActionNode N recT) eMergeAction acts (fun a ha => by
      have hwa := (List.all_eq_true.1 hw.2) a ha
      simp only [Bool.and_eq_true] at hwa
      exact yield_mergeAction recT recW Hrec a hwa.1 hwa.2
        (by have := size_le_sizeL (List.mem_map_of_mem (f := mergeActionNode N recT) ha); omega))
    simp [eUpdating, tUpdating, h1, h2]

/-! ### queries -/

theorem yield_readings (rs : List Reading) (hw : rs.all (wReading recW) = true) (hG : sizeL (rs.map (tReading N recT)) ≤ bigFuel) :
    (rs.map eReading).flatten = yieldL (rs.map (tReading N recT)) :=
  flatten_yield (tReading N recT) eReading rs (fun r hr =>
    yield_reading recT recW Hrec r ((List.all_eq_true.1 hw) r hr)
      (by have := size_le_sizeL (List.mem_map_of_mem (f := tReading N recT) hr); omega))

theorem yield_updatings (us : List Updating) (hw : us.all (wUpdating recW) = true) (hG : sizeL (us.map (tUpdating N recT)) ≤ bigFuel) :
    (us.map eUpdating).flatten = yieldL (us.map (tUpdating N recT)) :=
  flatten_yield (tUpdating N recT) eUpdating us (fun u hu =>
    yield_updating recT recW Hrec u ((List.all_eq_true.1 hw) u hu)
      (by have := size_le_sizeL (List.mem_map_of_mem (f := tUpdating N recT) hu); omega))

theorem yield_singlePart (q : SinglePart) (hw : wSinglePart recW q = true) (hG : size (tSinglePart N recT q) ≤ bigFuel) :
    eSinglePart q = yieldT (tSinglePart N recT q) := by
  obtain ⟨rs, us, ret⟩ := q
  simp only [wSinglePart, Bool.and_eq_true] at hw
  obtain ⟨⟨hwr, hwu⟩, hwp⟩ := hw
  simp only [tSinglePart, size_nd, sizeL_append] at hG
  have h1 := yield_readings recT recW Hrec rs hwr (by omega)
  have h2 := yield_updatings recT recW Hrec us hwu (by omega)
  have h3 : eReturn ret = yieldL (optList ret (returnNode N recT)) := by
    cases ret with
    | none => simp [eReturn, optList]
    | some p =>
      have := yield_projBody recT recW Hrec p hwp (by simp [optList, returnNode] at hG; omega)
      simp [eReturn, optList, returnNode, this]
  simp only [eSinglePart, tSinglePart, yieldT_nd, yieldL_append, h1, h2, h3]

theorem yield_part (p : Part) (hw : wPartQ recW p = true) (hG : sizeL (partKids N recT p) ≤ bigFuel) :
    ePart p = yieldL (partKids N recT p) := by
  obtain ⟨rs, us, proj, wh⟩ := p
  simp only [wPartQ, Bool.and_eq_true] at hw
  obtain ⟨⟨⟨hwr, hwu⟩, hwp⟩, hww⟩ := hw
  simp only [partKids, withNode, sizeL_append, sizeL_cons', sizeL_nil', size_nd, size_lf] at hG
  have h1 := yield_readings recT recW Hrec rs hwr (by omega)
  have h2 := yield_updatings recT recW Hrec us hwu (by omega)
  have h3 := yield_projBody recT recW Hrec proj hwp (by omega)
  have h4 := yield_where recT recW Hrec wh (by intro e h; subst h; exact hww) (by omega)
  simp only [ePart, partKids, withNode, yieldL_append, yieldL_cons, yieldL_nil, yieldT_nd, yieldT_lf, h1, h2, h3, h4]
  simp

theorem yield_query (q : Query) (hw : wQuery recW q = true) (hG : size (tQuery N recT q) ≤ bigFuel) :
    emit q = yieldT (tQuery N recT q) := by
  cases q with
  | single s =>
    simp only [wQuery] at hw
    have := yield_singlePart recT recW Hrec s hw (by simp [tQuery, tBody] at hG; omega)
    simp [emit, tQuery, tBody, this]
  | multi ps l =>
    simp only [wQuery, Bool.and_eq_true] at hw
    have hsz : size (tQuery N recT (.multi ps l)) = 7 + (sizeL (ps.map (partKids N recT)).flatten + size (tSinglePart N recT l)) := by
      simp [tQuery, tBody]; omega
    have h1 := yield_singlePart recT recW Hrec l hw.2 (by omega)
    have h2 : (ps.map ePart).flatten = yieldL (ps.map (partKids N recT)).flatten := by
      rw [yieldL_flatten_map]
      congr 1
      apply List.map_congr_left
      intro p hp
      have hm : sizeL (partKids N recT p) ≤ sizeL (ps.map (partKids N recT)).flatten := by
        clear hsz hG h1
        induction ps with
        | nil => cases hp
        | cons x xs ih =>
          rcases List.mem_cons.1 hp with h | h
          · subst h; simp
          · have := ih (by simp only [List.all_cons, Bool.and_eq_true] at hw; exact ⟨hw.1.2, hw.2⟩) h; simp; omega
      exact yield_part recT recW Hrec p ((List.all_eq_true.1 hw.1) p hp) (by omega)
    simp [emit, tQuery, tBody, h1, h2]

end YC
end Dawgs.C07
