/-
C19, content of the finished dump: the fragments the chain of checkpoint versions commits hold, per graph
and phase, every entity exactly once in id order. This joins the C19 protocol model (`next`: the next
`ShardSize` entities after the committed cursor) to the C18 keyset-scan invariant (`C18.Cur`, `filter_after`).
-/
import Dawgs.Proofs.C19
set_option linter.unusedSimpArgs false
set_option linter.unusedVariables false
namespace Dawgs.C19
open Dawgs.C18

variable {P : Type}

/-- the node records of a fragment list, in order -/
def nodeRecsOf (fs : List (Frag P)) : List (NodeRec P) :=
  fs.flatMap (fun f => match f.content with | .nodes rs => rs | .edges _ => [])

/-- the relationship records of a fragment list, in order -/
def edgeRecsOf (fs : List (Frag P)) : List (EdgeRec P) :=
  fs.flatMap (fun f => match f.content with | .nodes _ => [] | .edges rs => rs)

/-- a fragment list holds exactly the graph: every node once and every relationship once, in id order -/
def HoldsGraph (fs : List (Frag P)) (g : Graph P) : Prop :=
  nodeRecsOf fs = (sortBy nodeKey g.nodes).map Node.toRec ∧ edgeRecsOf fs = (sortBy edgeKey g.edges).map Edge.toRec

/-- taking the next chunk after the cursor and moving the cursor to the chunk's last key keeps the scan invariant -/
theorem cur_chunk {α : Type} (key : α → Nat) (acc rest : List α) (s : Nat) (hs : 1 ≤ s) (hne : rest ≠ [])
    (hsorted : StrictSorted key (acc ++ rest)) :
    Dawgs.C18.Cur key (acc ++ rest.take s) (rest.drop s) (lastKey key (rest.take s)) := by
  have hcne : rest.take s ≠ [] := by
    cases rest with
    | nil => exact absurd rfl hne
    | cons x xs => cases s with
      | zero => omega
      | succ s => simp
  have hsplit : rest.take s = (rest.take s).dropLast ++ [(rest.take s).getLast hcne] := (List.dropLast_concat_getLast hcne).symm
  have hlast : lastKey key (rest.take s) = some (key ((rest.take s).getLast hcne)) := by
    unfold lastKey; rw [List.getLast?_eq_some_getLast hcne]; rfl
  rw [hlast]
  have hwhole : acc ++ rest = (acc ++ (rest.take s).dropLast) ++ ((rest.take s).getLast hcne :: rest.drop s) := by
    conv => lhs; rw [← List.take_append_drop s rest, hsplit]
    simp [List.append_assoc]
  unfold StrictSorted at hsorted
  rw [hwhole, List.pairwise_append] at hsorted
  obtain ⟨_, h2, h3⟩ := hsorted
  rw [List.pairwise_cons] at h2
  constructor
  · intro y hy
    rw [hsplit, ← List.append_assoc, List.mem_append] at hy
    rcases hy with hy | hy
    · exact Nat.le_of_lt (h3 y hy _ (List.mem_cons_self ..))
    · simp only [List.mem_singleton] at hy; subst hy; exact Nat.le_refl _
  · intro y hy
    exact h2.1 y hy

theorem nodeRecsOf_append (a b : List (Frag P)) : nodeRecsOf (a ++ b) = nodeRecsOf a ++ nodeRecsOf b := by
  simp [nodeRecsOf, List.flatMap_append]
theorem edgeRecsOf_append (a b : List (Frag P)) : edgeRecsOf (a ++ b) = edgeRecsOf a ++ edgeRecsOf b := by
  simp [edgeRecsOf, List.flatMap_append]

/-- the content part of a current-graph checkpoint: what is committed is a prefix of the id-ordered scan, the
cursor separates it from the rest -/
def CurContent (g : Graph P) (c : Cur P) : Prop :=
  match c.phase with
  | .nodes =>
    (∃ acc rest, sortBy nodeKey g.nodes = acc ++ rest ∧ Dawgs.C18.Cur nodeKey acc rest c.last ∧
      nodeRecsOf c.files = acc.map Node.toRec) ∧ edgeRecsOf c.files = []
  | .edges =>
    nodeRecsOf c.files = (sortBy nodeKey g.nodes).map Node.toRec ∧
    ∃ acc rest, sortBy edgeKey g.edges = acc ++ rest ∧ Dawgs.C18.Cur edgeKey acc rest c.last ∧
      edgeRecsOf c.files = acc.map Edge.toRec

theorem curContent_nodes (g : Graph P) (c : Cur P) (hph : c.phase = .nodes)
    (h : (∃ acc rest, sortBy nodeKey g.nodes = acc ++ rest ∧ Dawgs.C18.Cur nodeKey acc rest c.last ∧
      nodeRecsOf c.files = acc.map Node.toRec) ∧ edgeRecsOf c.files = []) : CurContent g c := by
  unfold CurContent; rw [hph]; exact h

theorem curContent_edges (g : Graph P) (c : Cur P) (hph : c.phase = .edges)
    (h : nodeRecsOf c.files = (sortBy nodeKey g.nodes).map Node.toRec ∧
      ∃ acc rest, sortBy edgeKey g.edges = acc ++ rest ∧ Dawgs.C18.Cur edgeKey acc rest c.last ∧
        edgeRecsOf c.files = acc.map Edge.toRec) : CurContent g c := by
  unfold CurContent; rw [hph]; exact h

/-- content invariant of a checkpoint version -/
structure ContentInv (db : List (Graph P)) (v : Ckpt P) : Prop where
  done : ∀ (j : Nat) (d : Done P), v.done[j]? = some d → ∃ g, db[j]? = some g ∧ d.name = g.name ∧ (d.nodeCount, d.edgeCount) = counts g ∧ HoldsGraph d.files g
  cur : ∀ (g : Graph P), db[v.done.length]? = some g → CurContent g (curOf v) ∧ ∀ s, (curOf v).snapshot = some s → s = counts g

theorem content_fresh (g : Graph P) (i : Nat) : CurContent g (freshCur (P := P) i) := by
  show (∃ acc rest, sortBy nodeKey g.nodes = acc ++ rest ∧ Dawgs.C18.Cur nodeKey acc rest none ∧
      nodeRecsOf ([] : List (Frag P)) = acc.map Node.toRec) ∧ edgeRecsOf ([] : List (Frag P)) = []
  exact ⟨⟨[], sortBy nodeKey g.nodes, by simp, rfl, rfl⟩, rfl⟩

theorem content_V0 (db : List (Graph P)) (ident : Identity) : ContentInv db (V0 (P := P) ident) := by
  constructor
  · intro j d h; simp [V0] at h
  · intro g _
    refine ⟨?_, ?_⟩
    · show CurContent g (freshCur _)
      exact content_fresh g _
    · intro s hs; simp [curOf, V0, freshCur] at hs

/-- ids of every graph are distinct (part of `C18.WF`) -/
def IdsDistinct (db : List (Graph P)) : Prop :=
  ∀ g ∈ db, (g.nodes.map nodeKey).Nodup ∧ (g.edges.map edgeKey).Nodup

theorem content_next (db : List (Graph P)) (hids : IdsDistinct db) (v : Ckpt P) (hshard : 1 ≤ v.identity.shard)
    (hv : ContentInv db v) (s : Option (Frag P) × Ckpt P) (hn : next db v = some s) : ContentInv db s.2 ∧ s.2.identity = v.identity := by
  unfold next at hn
  cases hg : db[v.done.length]? with
  | none => rw [hg] at hn; cases hn
  | some g =>
    rw [hg] at hn
    have hgm : g ∈ db := List.mem_of_getElem? hg
    obtain ⟨hcur, hsnapEq⟩ := hv.cur g hg
    have hN := sortBy_strict nodeKey g.nodes (hids g hgm).1
    have hE := sortBy_strict edgeKey g.edges (hids g hgm).2
    simp only at hn
    cases hsnap : (curOf v).snapshot with
    | none =>
      rw [hsnap] at hn
      cases hn
      refine ⟨⟨hv.done, ?_⟩, rfl⟩
      intro g' hg'
      rw [hg] at hg'; cases hg'
      refine ⟨?_, ?_⟩
      · exact hcur
      · intro s hs
        have : some (counts g) = some s := hs
        exact (Option.some.inj this).symm
    | some snap =>
      rw [hsnap] at hn
      have hsn := hsnapEq snap hsnap
      cases hph : (curOf v).phase with
      | nodes =>
        rw [hph] at hn
        simp only at hn
        unfold CurContent at hcur
        rw [hph] at hcur
        obtain ⟨⟨acc, rest, hsplit, hc, hrecs⟩, hnoE⟩ := hcur
        have hrem : remainingNodes g (curOf v).last = rest := by
          unfold remainingNodes; rw [hsplit]; exact filter_after nodeKey acc rest _ hc
        rw [hrem] at hn
        by_cases hemp : rest.isEmpty = true
        · rw [if_pos hemp] at hn
          cases hn
          refine ⟨⟨hv.done, ?_⟩, rfl⟩
          intro g' hg'
          rw [hg] at hg'; cases hg'
          have hr : rest = [] := List.isEmpty_iff.mp hemp
          subst hr
          refine ⟨?_, ?_⟩
          · apply curContent_edges g _ rfl
            refine ⟨?_, [], sortBy edgeKey g.edges, by simp, rfl, ?_⟩
            · show nodeRecsOf (curOf v).files = _
              rw [hrecs, hsplit]; simp
            · show edgeRecsOf (curOf v).files = _
              rw [hnoE]; rfl
          · intro s hs
            have hss : some snap = some s := hs
            rw [← Option.some.inj hss]; exact hsn
        · rw [if_neg hemp] at hn
          cases hn
          refine ⟨⟨hv.done, ?_⟩, rfl⟩
          intro g' hg'
          rw [hg] at hg'; cases hg'
          have hne : rest ≠ [] := by intro h; apply hemp; rw [h]; rfl
          refine ⟨?_, ?_⟩
          · apply curContent_nodes g _ rfl
            refine ⟨⟨acc ++ rest.take v.identity.shard, rest.drop v.identity.shard, ?_, ?_, ?_⟩, ?_⟩
            · rw [hsplit, List.append_assoc, List.take_append_drop]
            · exact cur_chunk nodeKey acc rest _ hshard hne (hsplit ▸ hN)
            · show nodeRecsOf ((curOf v).files ++ [_]) = _
              rw [nodeRecsOf_append, hrecs]; simp [nodeRecsOf]
            · show edgeRecsOf ((curOf v).files ++ [_]) = _
              rw [edgeRecsOf_append, hnoE]; simp [edgeRecsOf]
          · intro s hs
            have hss : some snap = some s := hs
            rw [← Option.some.inj hss]; exact hsn
      | edges =>
        rw [hph] at hn
        simp only at hn
        unfold CurContent at hcur
        rw [hph] at hcur
        obtain ⟨hnodes, acc, rest, hsplit, hc, hrecs⟩ := hcur
        have hrem : remainingEdges g (curOf v).last = rest := by
          unfold remainingEdges; rw [hsplit]; exact filter_after edgeKey acc rest _ hc
        rw [hrem] at hn
        by_cases hemp : rest.isEmpty = true
        · rw [if_pos hemp] at hn
          cases hn
          have hr : rest = [] := List.isEmpty_iff.mp hemp
          subst hr
          refine ⟨⟨?_, ?_⟩, rfl⟩
          · intro j d hd
            simp only at hd
            by_cases hj : j < v.done.length
            · rw [List.getElem?_append_left hj] at hd
              exact hv.done j d hd
            · have hj' : v.done.length ≤ j := Nat.le_of_not_lt hj
              rw [List.getElem?_append_right hj'] at hd
              cases hk : j - v.done.length with
              | zero =>
                rw [hk] at hd
                simp at hd
                subst hd
                have : j = v.done.length := by omega
                subst this
                refine ⟨g, hg, rfl, by simpa using hsn, hnodes, ?_⟩
                simpa using (show edgeRecsOf (curOf v).files = (sortBy edgeKey g.edges).map Edge.toRec by rw [hrecs, hsplit]; simp)
              | succ k => rw [hk] at hd; simp at hd
          · intro g' hg'
            refine ⟨?_, ?_⟩
            · show CurContent g' (freshCur _)
              exact content_fresh g' _
            · intro s hs; simp [curOf, freshCur] at hs
        · rw [if_neg hemp] at hn
          cases hn
          refine ⟨⟨hv.done, ?_⟩, rfl⟩
          intro g' hg'
          rw [hg] at hg'; cases hg'
          have hne : rest ≠ [] := by intro h; apply hemp; rw [h]; rfl
          refine ⟨?_, ?_⟩
          · apply curContent_edges g _ rfl
            refine ⟨?_, acc ++ rest.take v.identity.shard, rest.drop v.identity.shard, ?_, ?_, ?_⟩
            · show nodeRecsOf ((curOf v).files ++ [_]) = _
              rw [nodeRecsOf_append, hnodes]; simp [nodeRecsOf]
            · rw [hsplit, List.append_assoc, List.take_append_drop]
            · exact cur_chunk edgeKey acc rest _ hshard hne (hsplit ▸ hE)
            · show edgeRecsOf ((curOf v).files ++ [_]) = _
              rw [edgeRecsOf_append, hrecs]; simp [edgeRecsOf]
          · intro s hs
            have hss : some snap = some s := hs
            rw [← Option.some.inj hss]; exact hsn

theorem content_reaches (db : List (Graph P)) (hids : IdsDistinct db) {a b : Ckpt P} (h : Reaches db a b)
    (hshard : 1 ≤ a.identity.shard) (ha : ContentInv db a) : ContentInv db b := by
  induction h with
  | refl v => exact ha
  | step v s w hn _ ih =>
    obtain ⟨hc, hid⟩ := content_next db hids v hshard ha s hn
    exact ih (by rw [hid]; exact hshard) hc

/-- Every genuine terminal version lists every graph, and each graph's fragments hold every node and every
relationship exactly once in id order. -/
theorem terminal_holds_every_entity (db : List (Graph P)) (ident : Identity) (hshard : 1 ≤ ident.shard) (hids : IdsDistinct db)
    (t : Ckpt P) (hg : Genuine db ident t) (ht : next db t = none) :
    t.done.length = db.length ∧
    ∀ (j : Nat) (g : Graph P), db[j]? = some g → ∃ d : Done P, t.done[j]? = some d ∧ d.name = g.name ∧ (d.nodeCount, d.edgeCount) = counts g ∧ HoldsGraph d.files g := by
  have hc : ContentInv db t := content_reaches db hids hg hshard (content_V0 db ident)
  have hge : db.length ≤ t.done.length := by
    unfold next at ht
    cases hdb : db[t.done.length]? with
    | none => exact List.getElem?_eq_none_iff.mp hdb
    | some g =>
      rw [hdb] at ht
      simp only at ht
      split at ht
      · cases ht
      · split at ht
        · split at ht <;> cases ht
        · split at ht <;> cases ht
  have hle : t.done.length ≤ db.length := by
    cases hlen : t.done.length with
    | zero => omega
    | succ k =>
      have hk : k < t.done.length := by omega
      obtain ⟨g, hgk, _⟩ := hc.done k t.done[k] (List.getElem?_eq_getElem hk)
      have := (List.getElem?_eq_some_iff.mp hgk).1
      omega
  refine ⟨by omega, ?_⟩
  intro j g hj
  have hjl : j < t.done.length := by have := (List.getElem?_eq_some_iff.mp hj).1; omega
  obtain ⟨g', hg', h1, h2, h3⟩ := hc.done j t.done[j] (List.getElem?_eq_getElem hjl)
  rw [hj] at hg'; cases hg'
  exact ⟨_, List.getElem?_eq_getElem hjl, h1, h2, h3⟩

end Dawgs.C19
