/- C18: lifting the per-graph results to the whole collection (Dump loop over the targets, Load loop over the
manifest's graphs). Helper lemmas; statements are in Props/C18.lean. -/
import Dawgs.Proofs.C18
import Dawgs.Proofs.C18Metrics
set_option linter.unusedSimpArgs false
set_option linter.unusedVariables false
namespace Dawgs.C18

section MultiSec
variable {P B D : Type}

/-- `ds` is what `dumpAll` writes for `gs`: graph by graph, in order, the assembled dump of that graph -/
def Dumped (c : Codec P B D) (shard : Nat) : List (Graph P) → List (GraphDump P B D) → Prop
  | [], [] => True
  | g :: gs, d :: ds =>
    (∃ m, metricsOf (dumpNodeObs g) (dumpEdgeObs g) = some m ∧ d = assemble c g shard (sortedNodes g) (sortedEdges g) m) ∧
    Dumped c shard gs ds
  | _, _ => False

theorem dumpAll_spec (c : Codec P B D) (batch shard : Nat) (hb : 1 ≤ batch) : ∀ (gs : List (Graph P)), (∀ g ∈ gs, WF g) →
    ∃ ds, dumpAll c batch shard gs = .ok ds ∧ Dumped c shard gs ds := by
  intro gs
  induction gs with
  | nil => intro _; exact ⟨[], rfl, trivial⟩
  | cons g gs ih =>
    intro hw
    obtain ⟨m, hm, hd⟩ := dumpGraph_ok c g (hw g List.mem_cons_self) batch shard hb
    obtain ⟨ds, hds, hD⟩ := ih (fun g' hg' => hw g' (List.mem_cons_of_mem _ hg'))
    exact ⟨_ :: ds, by simp [dumpAll, hd, hds], ⟨m, hm, rfl⟩, hD⟩

theorem Dumped.length (c : Codec P B D) (shard : Nat) : ∀ (gs : List (Graph P)) (ds : List (GraphDump P B D)),
    Dumped c shard gs ds → ds.length = gs.length := by
  intro gs
  induction gs with
  | nil => intro ds h; cases ds with
    | nil => rfl
    | cons _ _ => exact absurd h (by simp [Dumped])
  | cons g gs ih => intro ds h; cases ds with
    | nil => exact absurd h (by simp [Dumped])
    | cons d ds => simp only [Dumped] at h; simp [ih ds h.2]

/-- the manifest lists every target graph exactly once, in the order of the target list -/
theorem Dumped.names (c : Codec P B D) (shard : Nat) : ∀ (gs : List (Graph P)) (ds : List (GraphDump P B D)),
    Dumped c shard gs ds → ds.map (fun d => d.manifest.name) = gs.map (fun g => g.name) := by
  intro gs
  induction gs with
  | nil => intro ds h; cases ds with
    | nil => rfl
    | cons _ _ => exact absurd h (by simp [Dumped])
  | cons g gs ih => intro ds h; cases ds with
    | nil => exact absurd h (by simp [Dumped])
    | cons d ds =>
      simp only [Dumped] at h
      obtain ⟨⟨m, _, rfl⟩, hrest⟩ := h
      simp only [List.map_cons, ih ds hrest]
      rfl

theorem assemble_file_graph (c : Codec P B D) (g : Graph P) (shard : Nat) (ns es m) :
    ∀ f ∈ (assemble c g shard ns es m).files, f.1.graph = g.name := by
  intro f hf
  rw [assemble_files] at hf
  rcases List.mem_append.mp hf with h | h
  · exact (writeFragments_paths c _ _ _ _ f h).1
  · exact (writeFragments_paths c _ _ _ _ f h).1

theorem Dumped.file_graphs (c : Codec P B D) (shard : Nat) : ∀ (gs : List (Graph P)) (ds : List (GraphDump P B D)),
    Dumped c shard gs ds → ∀ f ∈ allFiles ds, f.1.graph ∈ gs.map (fun g => g.name) := by
  intro gs
  induction gs with
  | nil => intro ds h f hf; cases ds with
    | nil => simp [allFiles] at hf
    | cons _ _ => exact absurd h (by simp [Dumped])
  | cons g gs ih => intro ds h f hf; cases ds with
    | nil => exact absurd h (by simp [Dumped])
    | cons d ds =>
      simp only [Dumped] at h
      obtain ⟨⟨m, _, rfl⟩, hrest⟩ := h
      simp only [allFiles, List.map_cons, List.flatten_cons, List.mem_append] at hf
      simp only [List.map_cons, List.mem_cons]
      rcases hf with hf | hf
      · left; exact assemble_file_graph c g shard _ _ m f hf
      · right; exact ih ds hrest f hf

/-- fragment paths are distinct across the whole directory when the target names are distinct -/
theorem Dumped.paths_nodup (c : Codec P B D) (shard : Nat) : ∀ (gs : List (Graph P)) (ds : List (GraphDump P B D)),
    Dumped c shard gs ds → (gs.map (fun g => g.name)).Nodup → ((allFiles ds).map (fun f => f.1)).Nodup := by
  intro gs
  induction gs with
  | nil => intro ds h _; cases ds with
    | nil => simp [allFiles]
    | cons _ _ => exact absurd h (by simp [Dumped])
  | cons g gs ih => intro ds h hnd; cases ds with
    | nil => exact absurd h (by simp [Dumped])
    | cons d ds =>
      simp only [Dumped] at h
      obtain ⟨⟨m, _, rfl⟩, hrest⟩ := h
      simp only [List.map_cons, List.nodup_cons] at hnd
      simp only [allFiles, List.map_cons, List.flatten_cons, List.map_append]
      rw [List.nodup_append]
      refine ⟨assemble_paths_nodup c g shard _ _ m, ih ds hrest hnd.2, ?_⟩
      intro a ha b hb hab
      obtain ⟨f1, hf1, rfl⟩ := List.mem_map.mp ha
      obtain ⟨f2, hf2, rfl⟩ := List.mem_map.mp hb
      have g1 := assemble_file_graph c g shard _ _ m f1 hf1
      have g2 := Dumped.file_graphs c shard gs ds hrest f2 hf2
      rw [← hab, g1] at g2
      exact hnd.1 g2

/-- what holds for one graph of the collection after dump and load -/
structure GraphOk (c : Codec P B D) (g : Graph P) (d : GraphDump P B D) (r : Dst P × IdMap) : Prop where
  name : d.manifest.name = g.name
  describes : Describes c d.manifest.files d.files
  nodeCount : d.manifest.nodeCount = g.nodes.length
  edgeCount : d.manifest.edgeCount = g.edges.length
  iso : Iso g r.1.nodes r.1.edges (phiOf r.2)
  /-- the id map of this graph holds exactly this graph's source node ids: nothing leaks from another graph -/
  mapKeys : r.2.map (fun p => p.1) = (sortedNodes g).map (fun n => n.id)
  verify : verify d.manifest.metrics r.1.nodes r.1.edges = .ok

def AllOk (c : Codec P B D) : List (Graph P) → List (GraphDump P B D) → List (Dst P × IdMap) → Prop
  | [], [], [] => True
  | g :: gs, d :: ds, r :: rs => GraphOk c g d r ∧ AllOk c gs ds rs
  | _, _, _ => False

theorem wf_sorted_facts (g : Graph P) (hw : WF g) :
    ((sortedNodes g).map (fun n => n.id)).Nodup ∧
    (∀ e ∈ sortedEdges g, e.src ∈ (sortedNodes g).map (fun n => n.id) ∧ e.dst ∈ (sortedNodes g).map (fun n => n.id)) := by
  have hperm : (sortedNodes g).Perm g.nodes := sortBy_perm _ _
  have hpermE : (sortedEdges g).Perm g.edges := sortBy_perm _ _
  refine ⟨(hperm.map _).nodup_iff.mpr hw.nodeIds, ?_⟩
  intro e he
  obtain ⟨⟨n1, hn1, h1⟩, ⟨n2, hn2, h2⟩⟩ := hw.endpoints e (hpermE.mem_iff.mp he)
  exact ⟨List.mem_map.mpr ⟨n1, hperm.mem_iff.mpr hn1, h1⟩, List.mem_map.mpr ⟨n2, hperm.mem_iff.mpr hn2, h2⟩⟩

theorem verifyAll_spec [DecidableEq D] (c : Codec P B D) (shard : Nat) (dir : List (Path × B)) (hnd : (dir.map (fun f => f.1)).Nodup) :
    ∀ (gs : List (Graph P)) (ds : List (GraphDump P B D)), Dumped c shard gs ds → (∀ g ∈ gs, WF g) →
      (∀ d ∈ ds, ∀ f ∈ d.files, f ∈ dir) → verifyAll c dir (ds.map (fun d => d.manifest)) = .ok () := by
  intro gs
  induction gs with
  | nil => intro ds h _ _; cases ds with
    | nil => rfl
    | cons _ _ => exact absurd h (by simp [Dumped])
  | cons g gs ih => intro ds h hw hsub; cases ds with
    | nil => exact absurd h (by simp [Dumped])
    | cons d ds =>
      simp only [Dumped] at h
      obtain ⟨⟨m, _, rfl⟩, hrest⟩ := h
      obtain ⟨hN, hE⟩ := wf_sorted_facts g (hw g List.mem_cons_self)
      simp only [List.map_cons, verifyAll]
      rw [verify_assemble_in c g shard _ _ m dir hnd (hsub _ List.mem_cons_self) hN hE]
      exact ih ds hrest (fun g' hg' => hw g' (List.mem_cons_of_mem _ hg')) (fun d' hd' => hsub d' (List.mem_cons_of_mem _ hd'))

theorem loadGraphs_spec [DecidableEq D] (c : Codec P B D) (shard batch : Nat) (alloc allocE : Nat → Nat)
    (halloc : ∀ a b, alloc a = alloc b → a = b) (dir : List (Path × B)) (hnd : (dir.map (fun f => f.1)).Nodup) :
    ∀ (gs : List (Graph P)) (ds : List (GraphDump P B D)), Dumped c shard gs ds → (∀ g ∈ gs, WF g) →
      (∀ d ∈ ds, ∀ f ∈ d.files, f ∈ dir) → ∀ (nc ec : Nat),
      ∃ rs, loadGraphs c dir batch alloc allocE (ds.map (fun d => d.manifest)) nc ec = .ok rs ∧ AllOk c gs ds rs := by
  intro gs
  induction gs with
  | nil => intro ds h _ _ nc ec; cases ds with
    | nil => exact ⟨[], rfl, trivial⟩
    | cons _ _ => exact absurd h (by simp [Dumped])
  | cons g gs ih => intro ds h hw hsub nc ec; cases ds with
    | nil => exact absurd h (by simp [Dumped])
    | cons d ds =>
      simp only [Dumped] at h
      obtain ⟨⟨m, hm, rfl⟩, hrest⟩ := h
      have hwg := hw g List.mem_cons_self
      obtain ⟨hN, hE⟩ := wf_sorted_facts g hwg
      have hl := loadGraph_assemble_in c g shard batch (sortedNodes g) (sortedEdges g) m alloc allocE nc ec dir hnd
        (hsub _ List.mem_cons_self) hN hE (sortBy_length _ _) (sortBy_length _ _)
      obtain ⟨rs, hrs, hok⟩ := ih ds hrest (fun g' hg' => hw g' (List.mem_cons_of_mem _ hg'))
        (fun d' hd' => hsub d' (List.mem_cons_of_mem _ hd')) (nc + (sortedNodes g).length) (ec + (sortedEdges g).length)
      refine ⟨({ nodes := newNodes alloc nc ((sortedNodes g).map Node.toRec),
                 edges := newEdges allocE (phiOf (newMap alloc nc ((sortedNodes g).map Node.toRec))) ec ((sortedEdges g).map Edge.toRec),
                 nodeCtr := nc + (sortedNodes g).length, edgeCtr := ec + (sortedEdges g).length },
               newMap alloc nc ((sortedNodes g).map Node.toRec)) :: rs, ?_, ?_, hok⟩
      · simp only [List.map_cons, loadGraphs]
        rw [hl]
        simp only [hrs]
      · refine ⟨rfl, assemble_describes c g shard _ _ m, rfl, rfl, iso_of_load g hwg alloc allocE halloc nc ec, ?_,
          verify_loaded g hwg alloc allocE halloc nc ec m hm⟩
        show (newMap alloc nc ((sortedNodes g).map Node.toRec)).map (fun p => p.1) = _
        rw [newMap_keys, toRec_ids]

end MultiSec
end Dawgs.C18
