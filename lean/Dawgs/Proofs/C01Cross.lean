import Dawgs.Model.C01Cross
import Dawgs.Proofs.C01Distinct
import Dawgs.Proofs.C01S2Sound
/-
C01 / S2x — one directed hop whose WHERE also compares a property of `a` with a property of `b`.

Cypher side: the MATCH clause of stage S2b with an arbitrary WHERE (`clause_hopG`, `cy_sideG`), then the mixed conjunct list.
SQL side: the FROM clause of stage S2b with the conjuncts over `b` moved from the join condition of n1 into the frame's WHERE, next to
the two-variable conjuncts; on scalars jsonb `=` / `<>` is openCypher's `=` / `<>` (`cross_val`).
-/
namespace Dawgs.C01.Proofs
open Dawgs Dawgs.Sql

section Cy
open Dawgs.Cy

-- ------------------------------------------------------------------ the hop with an arbitrary WHERE, under the reference semantics

/-- the stage-S2b query text with `wh` as its WHERE -/
def hopCy (q : S2.Query) (wh : Option Cy.Expr) : Cy.Query :=
  { parts := []
    clauses := [.match false [.mk none false false (.mk (some q.a) q.akinds [])
      [(.mk (some q.r) q.rkinds .out none [], .mk (some q.b) q.bkinds [])]] wh]
    ret := { distinct := false, all := false, items := q.items.map (S2.Item.toCy q), orderBy := [], skip := none, limit := none } }

/-- the matches of the hop that pass `ok`, in Cypher's enumeration order -/
def okMatches (g : Graph) (q : S2.Query) (ok : NodeRec → EdgeRec → NodeRec → Bool) : List (NodeRec × EdgeRec × NodeRec) :=
  (hopMatchesCy g q).filter (fun m => ok m.1 m.2.1 m.2.2)

theorem okMatches_mem (g : Graph) (q : S2.Query) (ok : NodeRec → EdgeRec → NodeRec → Bool) (m : NodeRec × EdgeRec × NodeRec)
    (hm : m ∈ okMatches g q ok) : m ∈ hopMatchesCy g q := (List.mem_filter.mp hm).1

theorem clause_hopG (g : Graph) (q : S2.Query) (hwf : q.wf = true) (hn : ∀ n ∈ g.nodes, g.node? n.id = some n)
    (wh : Option Cy.Expr) (ok : NodeRec → EdgeRec → NodeRec → Bool)
    (hwh : ∀ m ∈ hopMatchesCy g q, (wh = none → ok m.1 m.2.1 m.2.2 = true) ∧
      (∀ w, wh = some w → (do let v ← Cy.evalExpr .none g (hopState q m.1 m.2.1 m.2.2).env false w; truthy v) = .ok (ok m.1 m.2.1 m.2.2))) :
    evalClauses .none g true [[]] (hopCy q wh).clauses = .ok ((okMatches g q ok).map (fun m => (hopState q m.1 m.2.1 m.2.2).env)) := by
  unfold hopCy
  have hmp := matchPart_hop g q hwf hn
  simp only [evalClauses, evalClause, mapE_singleton, matchParts, ite_self, hmp, ebind_ok, epure_ok, List.flatten_cons, List.flatten_nil,
    List.append_nil]
  rw [filterE_map_ok (fun m => hopState q m.1 m.2.1 m.2.2) _ (fun m => ok m.1 m.2.1 m.2.2) (hopMatchesCy g q)]
  · simp only [ebind_ok, Bool.false_and, Bool.and_false, Bool.false_eq_true, if_false, List.map_map, Function.comp_def,
      List.flatten_cons, List.flatten_nil, List.append_nil]
    rfl
  · intro m hm
    obtain ⟨w1, w2⟩ := hwh m hm
    cases hw : wh with
    | none => simp only [w1 hw]
    | some w => exact w2 w hw

/-- CYPHER SIDE of a hop with an arbitrary WHERE whose truth on every match is `ok` -/
theorem cy_sideG (g : Graph) (q : S2.Query) (hwf : q.wf = true) (hn : ∀ n ∈ g.nodes, g.node? n.id = some n) (he : ∀ e ∈ g.edges, g.edge? e.id = some e)
    (wh : Option Cy.Expr) (ok : NodeRec → EdgeRec → NodeRec → Bool)
    (hwh : ∀ m ∈ hopMatchesCy g q, (wh = none → ok m.1 m.2.1 m.2.2 = true) ∧
      (∀ w, wh = some w → (do let v ← Cy.evalExpr .none g (hopState q m.1 m.2.1 m.2.2).env false w; truthy v) = .ok (ok m.1 m.2.1 m.2.2))) :
    Cy.eval .none g (hopCy q wh) = .ok (Cy.projNames (q.items.map (S2.Item.toCy q)),
      (okMatches g q ok).map (fun m => q.items.map (itemC2 m.1 m.2.1 m.2.2))) := by
  have hc := clause_hopG g q hwf hn wh ok hwh
  unfold Cy.eval
  have hparts : (hopCy q wh).parts = [] := rfl
  simp only [hparts, evalParts, ebind_ok, List.isEmpty_nil, hc]
  unfold evalProjection
  have hall : (hopCy q wh).ret.all = false := rfl
  have hdist : (hopCy q wh).ret.distinct = false := rfl
  have hitems : (hopCy q wh).ret.items = q.items.map (S2.Item.toCy q) := rfl
  have hob : (hopCy q wh).ret.orderBy = [] := rfl
  have hskip : (hopCy q wh).ret.skip = none := rfl
  have hlim : (hopCy q wh).ret.limit = none := rfl
  simp only [hall, hdist, hitems, hob, hskip, hlim, Bool.false_eq_true, if_false, anyAgg_items2, Bool.or_self]
  have hpr : plainRows .none g (Cy.projNames (q.items.map (S2.Item.toCy q))) (q.items.map (S2.Item.toCy q))
      ((okMatches g q ok).map (fun m => (hopState q m.1 m.2.1 m.2.2).env)) =
      .ok ((okMatches g q ok).map (fun m => (q.items.map (itemC2 m.1 m.2.1 m.2.2),
        (Cy.projNames (q.items.map (S2.Item.toCy q))).zip (q.items.map (itemC2 m.1 m.2.1 m.2.2)) ++ (hopState q m.1 m.2.1 m.2.2).env))) := by
    unfold plainRows
    apply mapE_map_ok
    intro m hm
    obtain ⟨h1, h2, h3, _, _⟩ := hopMatches_mem g q hn he m (okMatches_mem g q ok m hm)
    have : (q.items.map (S2.Item.toCy q)).mapE (fun it => Cy.evalExpr .none g (hopState q m.1 m.2.1 m.2.2).env false it.e) =
        .ok (q.items.map (itemC2 m.1 m.2.1 m.2.2)) :=
      mapE_map_ok _ _ _ q.items (fun it _ => eval_itemC2 g q hwf m.1 m.2.1 m.2.2 h1 h2 h3 it)
    simp only [this, ebind_ok, epure_ok]
  rw [hpr]
  simp only [ebind_ok, keyRows_none, intOf, cutKeyed, epure_ok, List.map_map, Function.comp_def, Bool.false_eq_true, if_false]

-- ------------------------------------------------------------------ the mixed conjunct list

/-- three-valued meaning of a two-variable conjunct on the match (a, e, b) -/
def crossTri (c : S2x.Cross) (a : NodeRec) (e : EdgeRec) (b : NodeRec) : Tri :=
  relT (if c.neg then .ne else .eq) (propCE (entOf a e b c.x) c.kx) (propCE (entOf a e b c.y) c.ky)

def conjTri (a : NodeRec) (e : EdgeRec) (b : NodeRec) : S2x.Conj → Tri
  | .one x p => semE (entOf a e b x) p
  | .two c => crossTri c a e b

/-- every WHERE conjunct holds on the match (a, e, b) -/
def okWhereX (q : S2x.Query) (a : NodeRec) (e : EdgeRec) (b : NodeRec) : Bool :=
  q.wh.all (fun c => conjTri a e b c == some true)

theorem cross_hop (g : Graph) (q : S2.Query) (hwf : q.wf = true) (a : NodeRec) (e : EdgeRec) (b : NodeRec)
    (ha : g.node? a.id = some a) (he : g.edge? e.id = some e) (hb : g.node? b.id = some b) (c : S2x.Cross) (fl : Bool) :
    Cy.evalExpr .none g (hopState q a e b).env fl (c.toCy q) = .ok (triToC (crossTri c a e b)) := by
  obtain ⟨la, lr, lb⟩ := hopEnv_lookup q hwf a e b
  have hl : ∀ x : S2.Ref, ∃ cv, (hopState q a e b).env.lookup (q.name x) = some cv ∧ CyEnt g cv (entOf a e b x) := by
    intro x
    cases x with
    | a => exact ⟨_, la, cyEnt_node g a ha⟩
    | r => exact ⟨_, lr, cyEnt_edge g e he⟩
    | b => exact ⟨_, lb, cyEnt_node g b hb⟩
  obtain ⟨cx, hlx, hx⟩ := hl c.x
  obtain ⟨cy, hly, hy⟩ := hl c.y
  unfold S2x.Cross.toCy crossTri
  rw [Cy.evalExpr, Cy.evalExpr, Cy.evalExpr, Cy.evalExpr, Cy.evalExpr]
  simp only [lookupVar, hlx, hly, ebind_ok, hx.prop c.kx, hy.prop c.ky]
  cases c.neg
  · exact cmpOp_rel fl .eq _ _ _ _ _ _
  · exact cmpOp_rel fl .ne _ _ _ _ _ _

theorem conj_hopX (g : Graph) (q : S2.Query) (hwf : q.wf = true) (a : NodeRec) (e : EdgeRec) (b : NodeRec)
    (ha : g.node? a.id = some a) (he : g.edge? e.id = some e) (hb : g.node? b.id = some b) (c : S2x.Conj) (fl : Bool) :
    Cy.evalExpr .none g (hopState q a e b).env fl (c.toCy q) = .ok (triToC (conjTri a e b c)) := by
  cases c with
  | one x p => exact conjunct_hop g q hwf a e b ha he hb (x, p) fl
  | two c => exact cross_hop g q hwf a e b ha he hb c fl

theorem evalConj_hopX (g : Graph) (q : S2.Query) (hwf : q.wf = true) (a : NodeRec) (e : EdgeRec) (b : NodeRec)
    (ha : g.node? a.id = some a) (he : g.edge? e.id = some e) (hb : g.node? b.id = some b) : ∀ (cs : List S2x.Conj),
    Cy.evalConj .none g (hopState q a e b).env (cs.map (S2x.Conj.toCy q)) = .ok ((cs.map (conjTri a e b)).foldr triAnd (some true))
  | [] => by rw [List.map_nil, Cy.evalConj]; rfl
  | c :: cs => by
    rw [List.map_cons, Cy.evalConj, conj_hopX g q hwf a e b ha he hb c false, evalConj_hopX g q hwf a e b ha he hb cs]
    simp only [ebind_ok, triOfC_triToC, epure_ok, List.map_cons, List.foldr_cons]

/-- the WHERE test of the MATCH clause on a match of the hop -/
theorem where_hopX (g : Graph) (q : S2x.Query) (hwf : q.base.wf = true) (a : NodeRec) (e : EdgeRec) (b : NodeRec)
    (ha : g.node? a.id = some a) (he : g.edge? e.id = some e) (hb : g.node? b.id = some b) :
    (q.whereCy = none → okWhereX q a e b = true) ∧
    (∀ w, q.whereCy = some w → (do let v ← Cy.evalExpr .none g (hopState q.base a e b).env false w; truthy v) = .ok (okWhereX q a e b)) := by
  unfold S2x.Query.whereCy okWhereX
  cases hw : q.wh with
  | nil => exact ⟨fun _ => rfl, fun w h => by cases h⟩
  | cons c cs =>
    cases cs with
    | nil =>
      refine ⟨fun h => (by cases h), fun w h => ?_⟩
      simp only [Option.some.injEq] at h
      subst h
      simp only [conj_hopX g q.base hwf a e b ha he hb c false, ebind_ok, truthy_tri, List.all_cons, List.all_nil, Bool.and_true]
    | cons c' cs' =>
      refine ⟨fun h => (by cases h), fun w h => ?_⟩
      simp only [Option.some.injEq] at h
      subst h
      rw [Cy.evalExpr, evalConj_hopX g q.base hwf a e b ha he hb (c :: c' :: cs')]
      simp only [ebind_ok, epure_ok, truthy_tri, foldr_triAnd_true, List.all_map]
      rfl

theorem toCy_hopCy (q : S2x.Query) : q.toCy = hopCy q.base q.whereCy := rfl

/-- CYPHER SIDE of S2x -/
theorem cy_sideX (g : Graph) (q : S2x.Query) (hwf : q.base.wf = true) (hn : ∀ n ∈ g.nodes, g.node? n.id = some n) (he : ∀ e ∈ g.edges, g.edge? e.id = some e) :
    Cy.eval .none g q.toCy = .ok (Cy.projNames (q.items.map (S2.Item.toCy q.base)),
      (okMatches g q.base (okWhereX q)).map (fun m => q.items.map (itemC2 m.1 m.2.1 m.2.2))) := by
  rw [toCy_hopCy]
  exact cy_sideG g q.base hwf hn he q.whereCy (okWhereX q) (fun m hm => by
    obtain ⟨h1, h2, h3, _, _⟩ := hopMatches_mem g q.base hn he m hm
    exact where_hopX g q hwf m.1 m.2.1 m.2.2 h1 h2 h3)

end Cy

-- ------------------------------------------------------------------ SQL side: jsonb `=` / `<>` on stored scalars

/-- the value under key `k` is a string / number / boolean, or the key is absent -/
def ScalarAt (props : List (String × Json)) (k : String) : Prop :=
  match Json.lookup k props with
  | none => True
  | some (.str _) => True
  | some (.num _) => True
  | some (.bool _) => True
  | some _ => False

def pv (props : List (String × Json)) (k : String) : Val := match Json.lookup k props with | some j => .jsonb j | none => .null

theorem cross_val (x y : Ent) (kx ky : String) (hx : ScalarAt x.props kx) (hy : ScalarAt y.props ky) (neg : Bool) :
    vCompare (if neg then "<>" else "=") (pv x.props kx) (pv y.props ky) =
      .ok (triVal (relT (if neg then .ne else .eq) (propCE x kx) (propCE y ky))) := by
  unfold ScalarAt at hx hy
  unfold pv propCE
  cases hla : Json.lookup kx x.props with
  | none => cases neg <;> simp [vCompare, relT, Cy.cEq, triVal, Cy.triNot]
  | some ja =>
    cases hlb : Json.lookup ky y.props with
    | none => cases neg <;> cases ja <;> simp_all [vCompare, relT, Cy.cEq, triVal, Cy.triNot, Cy.jsonToC]
    | some jb =>
      cases neg <;> cases ja <;> cases jb <;>
        simp_all [vCompare, relT, Cy.cEq, triVal, Cy.triNot, Cy.jsonToC, valCmp, jsonCmp, Json.canon, jsonCmpC, jsonRank, Dec.eq, relOp]
      all_goals first
        | rfl
        | exact strCmp_eq _ _
        | (rename_i b1 b2; cases b1 <;> cases b2 <;> rfl)
        | (simp only [bne, strCmp_eq])

/-- the hypothesis of the stage: every property key a two-variable conjunct compares holds a scalar (or is absent) on every node -/
def CrossScalar (q : S2x.Query) (ns : List NodeRec) : Prop := ∀ k ∈ q.keys, ∀ n ∈ ns, ScalarAt n.props k

theorem at_pv {km : KindMap} {E' : EEnv} {t : String} {edge : Bool} {x : Ent} (H : EntAt km E' t edge x) (k : String) :
    evalExpr E' (.bin "->" (S2.col t "properties") (S1.strLit k)) = .ok (pv x.props k) := at_arrow H k

/-- one two-variable conjunct on a FROM row that holds a under n0 and b under n1 -/
theorem cross_ben {km : KindMap} {E' : EEnv} {a b : NodeRec} (e : EdgeRec) (Ha : EntAt km E' "n0" false (nodeEnt a)) (Hb : EntAt km E' "n1" false (nodeEnt b))
    (c : S2x.Cross) (hab : c.ab = true) (hsa : ∀ k, k = c.kx ∨ k = c.ky → ScalarAt a.props k) (hsb : ∀ k, k = c.kx ∨ k = c.ky → ScalarAt b.props k) :
    Benign (evalExpr E' c.tr) (crossTri c a e b) ∧ NotAny c.tr := by
  refine ⟨Or.inl ?_, bin_not_any ..⟩
  unfold S2x.Cross.tr crossTri
  have hop : ((if c.neg then "<>" else "=") == "and" || (if c.neg then "<>" else "=") == "or") = false := by cases c.neg <;> decide
  rw [eval_bin _ _ _ _ hop (bin_not_any ..).1 (bin_not_any ..).2]
  unfold S2x.Cross.ab at hab
  have hbin : ∀ u v, binOp (if c.neg then "<>" else "=") u v = vCompare (if c.neg then "<>" else "=") u v := by
    intro u v; cases c.neg
    · exact binOp_eq u v
    · exact binOp_ne u v
  cases hx : c.x <;> cases hy : c.y <;> simp [hx, hy] at hab
  · simp only [S2.frameName, at_pv Ha, at_pv Hb, ebind_ok, hbin, entOf]
    exact cross_val (nodeEnt a) (nodeEnt b) c.kx c.ky (hsa _ (Or.inl rfl)) (hsb _ (Or.inr rfl)) c.neg
  · simp only [S2.frameName, at_pv Ha, at_pv Hb, ebind_ok, hbin, entOf]
    exact cross_val (nodeEnt b) (nodeEnt a) c.kx c.ky (hsb _ (Or.inl rfl)) (hsa _ (Or.inr rfl)) c.neg

theorem crossAnd_ben {km : KindMap} {E' : EEnv} {a b : NodeRec} (e : EdgeRec) (Ha : EntAt km E' "n0" false (nodeEnt a)) (Hb : EntAt km E' "n1" false (nodeEnt b)) :
    ∀ (cs : List S2x.Cross) (ex : Expr), (∀ c ∈ cs, c.ab = true ∧ (∀ k, k = c.kx ∨ k = c.ky → ScalarAt a.props k) ∧ (∀ k, k = c.kx ∨ k = c.ky → ScalarAt b.props k)) →
      S2x.crossAnd cs = some ex → Benign (evalExpr E' ex) (conjT (cs.map (fun c => crossTri c a e b))) ∧ NotAny ex
  | [], ex, _, h => by simp [S2x.crossAnd] at h
  | [c], ex, hc, h => by
    simp only [S2x.crossAnd, Option.some.injEq] at h
    subst h
    obtain ⟨h1, h2, h3⟩ := hc c (List.mem_cons_self ..)
    exact cross_ben e Ha Hb c h1 h2 h3
  | c :: c' :: cs, ex, hc, h => by
    simp only [S2x.crossAnd, Option.map_eq_some_iff] at h
    obtain ⟨r, hr, rfl⟩ := h
    obtain ⟨h1, h2, h3⟩ := hc c (List.mem_cons_self ..)
    obtain ⟨hb, hna⟩ := crossAnd_ben e Ha Hb (c' :: cs) r (fun d hd => hc d (List.mem_cons_of_mem _ hd)) hr
    exact ⟨and_ben _ _ _ _ _ (cross_ben e Ha Hb c h1 h2 h3).1 hb hna.1 hna.2, bin_not_any ..⟩

/-- every two-variable conjunct holds on the match -/
def crossAll (q : S2x.Query) (a : NodeRec) (e : EdgeRec) (b : NodeRec) : Bool := q.cross.all (fun c => crossTri c a e b == some true)

theorem conjT_all (ts : List Cy.Tri) : (conjT ts == some true) = ts.all (fun t => t == some true) := conjT_is_true ts

/-- the right node's constraint (conjuncts over b and the two-variable conjuncts) on a FROM row -/
theorem rightUser_ben {km : KindMap} {E' : EEnv} {a b : NodeRec} (e : EdgeRec) (Ha : EntAt km E' "n0" false (nodeEnt a)) (Hb : EntAt km E' "n1" false (nodeEnt b))
    (hnnb : ∀ k, Json.lookup k b.props ≠ some .null) (q : S2x.Query)
    (hc : ∀ c ∈ q.cross, c.ab = true ∧ (∀ k, k = c.kx ∨ k = c.ky → ScalarAt a.props k) ∧ (∀ k, k = c.kx ∨ k = c.ky → ScalarAt b.props k))
    (ru : Expr) (h : q.rightUser km = some ru) :
    ∃ t, Benign (evalExpr E' ru) t ∧ NotAny ru ∧ (t == some true) = (okPreds (nodeEnt b) (q.base.preds .b) && crossAll q a e b) := by
  unfold S2x.Query.rightUser at h
  cases hca : S2x.crossAnd q.cross with
  | none => rw [hca] at h; cases h
  | some ab =>
    rw [hca] at h
    simp only at h
    obtain ⟨hab, hnab⟩ := crossAnd_ben e Ha Hb q.cross ab hc hca
    have hpar : ∀ x, NotAny (Expr.paren x) := fun x => by constructor <;> (intro arr hh; cases hh)
    cases hemp : (q.base.preds .b).isEmpty with
    | true =>
      simp only [hemp, if_true, Option.some.injEq] at h
      subst h
      have hnil : q.base.preds .b = [] := List.isEmpty_iff.mp hemp
      refine ⟨_, paren_ben _ _ _ hab, hpar _, ?_⟩
      rw [conjT_all, hnil]
      simp [okPreds, crossAll, List.all_map, Function.comp_def]
    | false =>
      simp only [hemp, Bool.false_eq_true, if_false, Option.map_eq_some_iff] at h
      obtain ⟨pb, hpb, rfl⟩ := h
      obtain ⟨hb, hnb⟩ := predsAnd_ben Hb (by simpa [nodeEnt] using hnnb) (q.base.preds .b) pb hpb
      cases q.bFirst with
      | true =>
        simp only [if_true]
        refine ⟨_, paren_ben _ _ _ (and_ben _ _ _ _ _ hb hab hnab.1 hnab.2), hpar _, ?_⟩
        rw [triAnd_is_true, okPreds_conjT, conjT_all]
        simp [crossAll, List.all_map, Function.comp_def]
      | false =>
        simp only [Bool.false_eq_true, if_false]
        refine ⟨_, paren_ben _ _ _ (and_ben _ _ _ _ _ hab hb hnb.1 hnb.2), hpar _, ?_⟩
        rw [triAnd_is_true, okPreds_conjT, conjT_all, Bool.and_comm]
        simp [crossAll, List.all_map, Function.comp_def]

-- ------------------------------------------------------------------ the stage-S2b query the statement is built around

/-- the base query without the conjuncts over b (they are evaluated in the frame's WHERE, not in the join condition of n1) -/
def base0 (q : S2x.Query) : S2.Query := { q.base with wh := q.base.wh.filter (fun c => c.1 != .b) }

theorem base0_preds (q : S2x.Query) (x : S2.Ref) (hx : x ≠ .b) : (base0 q).preds x = q.base.preds x := by
  unfold S2.Query.preds base0
  simp only [List.filter_filter]
  congr 1
  apply List.filter_congr
  intro c _
  cases hc : c.1 <;> cases x <;> simp_all

theorem base0_preds_b (q : S2x.Query) : (base0 q).preds .b = [] := by
  unfold S2.Query.preds base0
  simp only [List.filter_filter]
  have : ∀ (cs : List (S2.Ref × S1.Pred)), cs.filter (fun c => c.1 == .b && c.1 != .b) = [] := by
    intro cs
    apply List.filter_eq_nil_iff.mpr
    intro c _
    cases c.1 <;> simp
  rw [this]; rfl

theorem base0_wf (q : S2x.Query) (h : q.base.wf = true) : (base0 q).wf = true := by
  unfold S2.Query.wf at h ⊢
  simp only [Bool.and_eq_true, List.all_eq_true] at h ⊢
  obtain ⟨⟨⟨⟨h1, h2⟩, h3⟩, h4⟩, h5⟩ := h
  exact ⟨⟨⟨⟨h1, h2⟩, h3⟩, h4⟩, fun c hc => h5 c (List.mem_filter.mp hc).1⟩

/-- the FROM rows of either join order, filtered by the relationship's constraints, are a permutation of the Cypher matches (stage S2b) -/
theorem hopM_perm (g : Graph) (hnd : (g.nodes.map (·.id)).Nodup) (q : S2.Query) (flip : Bool) : (hopM g q flip).Perm (whereMatchesCy g q) := by
  have hCyPerm : (g.edges.flatMap (fun e => (g.nodes.filter (pA q e)).flatMap (fun a => hopF g q e a))).Perm (hopMatchesCy g q) := by
    rw [hopMatchesCy_eq]
    exact flatMap_filter_swap (pA q) (hopF g q) g.edges g.nodes
  cases flip with
  | false =>
    simp only [hopM]
    rw [sqlMatches'_eq, whereMatchesCy_eq, sqlMatches_eq g hnd q]
    exact hCyPerm.filter _
  | true =>
    simp only [hopM]
    rw [sqlMatches'_flip_eq, whereMatchesCy_eq]
    exact ((sqlMatches_flip_perm g hnd q).trans hCyPerm).filter _

theorem rows_permG (km : KindMap) (g : Graph) (q : S2.Query) (hn : ∀ n ∈ g.nodes, g.node? n.id = some n) (he : ∀ e ∈ g.edges, g.edge? e.id = some e)
    (names : List String) (M L : List (NodeRec × EdgeRec × NodeRec)) (hM : M.Perm L) (hL : ∀ m ∈ L, m ∈ hopMatchesCy g q) :
    (sqlRows ⟨names, M.map (fun m => q.items.map (itemVal2 km m.2.1 m.1 m.2.2))⟩).Perm
      (cyRows g km (Cy.projNames (q.items.map (S2.Item.toCy q)), L.map (fun m => q.items.map (itemC2 m.1 m.2.1 m.2.2)))) := by
  unfold sqlRows cyRows
  simp only [List.map_map, Function.comp_def]
  have hcongr : L.map (fun m => q.items.map (fun it => Cy.CVal.toR g km (itemC2 m.1 m.2.1 m.2.2 it))) =
      L.map (fun m => valsToR (q.items.map (itemVal2 km m.2.1 m.1 m.2.2))) := by
    apply List.map_congr_left
    intro m hm
    obtain ⟨h1, h2, h3, _, _⟩ := hopMatches_mem g q hn he m (hL m hm)
    rw [valsToR_map, List.map_map]
    apply List.map_congr_left
    intro it _
    exact (item2_toR km g m.1 m.2.1 m.2.2 h1 h2 h3 it).symm
  rw [hcongr]
  exact hM.map _

/-- the conjunct list splits into the single-variable conjuncts and the two-variable conjuncts -/
theorem okWhereX_split (q : S2x.Query) (a : NodeRec) (e : EdgeRec) (b : NodeRec) :
    okWhereX q a e b = (okWhere q.base a e b && crossAll q a e b) := by
  unfold okWhereX okWhere crossAll S2x.Query.base S2x.Query.cross
  simp only
  induction q.wh with
  | nil => rfl
  | cons c cs ih =>
    rw [List.all_cons, ih]
    cases c with
    | one x p =>
      simp only [List.filterMap_cons, S2x.Conj.one?, S2x.Conj.two?, List.all_cons, Bool.and_assoc]
      rfl
    | two c =>
      simp only [List.filterMap_cons, S2x.Conj.one?, S2x.Conj.two?, List.all_cons]
      show (crossTri c a e b == some true && _) = _
      cases (crossTri c a e b == some true) <;> simp

/-- what the frame's WHERE adds to the stage-S2b statement of `base0`: the conjuncts over b and the two-variable conjuncts -/
def extraOk (q : S2x.Query) (m : NodeRec × EdgeRec × NodeRec) : Bool := okPreds (nodeEnt m.2.2) (q.base.preds .b) && crossAll q m.1 m.2.1 m.2.2

theorem okMatchesX_eq (g : Graph) (q : S2x.Query) : okMatches g q.base (okWhereX q) = (whereMatchesCy g (base0 q)).filter (extraOk q) := by
  unfold okMatches whereMatchesCy
  have hh : hopMatchesCy g (base0 q) = hopMatchesCy g q.base := rfl
  rw [hh, List.filter_filter]
  apply List.filter_congr
  intro m _
  rw [okWhereX_split, okWhere_split, okWhere_split]
  unfold ok3 extraOk
  rw [base0_preds q .a (by decide), base0_preds q .r (by decide), base0_preds_b]
  simp only [okPreds, List.all_nil, Bool.and_true]
  cases (q.base.preds .a).all (fun p => semE (nodeEnt m.1) p == some true) <;>
    cases (q.base.preds .r).all (fun p => semE (edgeEnt m.2.1) p == some true) <;>
    cases (q.base.preds .b).all (fun p => semE (nodeEnt m.2.2) p == some true) <;> cases crossAll q m.1 m.2.1 m.2.2 <;> rfl

/-- the frame WHERE part `[(conjuncts over r) and] [e0.kind_id = any (array[…])]` with its three-valued meaning -/
theorem edgeW_ben (km : KindMap) (hinj : ∀ a b i, km.id? a = some i → km.id? b = some i → a = b) (E : EEnv) (l : Level) (e : EdgeRec)
    (he : findBinding "e0" l = some (eB km e)) (hknown : (km.id? e.kind).isSome = true) (hnn : ∀ k, Json.lookup k e.props ≠ some .null)
    (ks : List String) (kr : Option (List Nat)) (hk : S2.kindIds? km ks = some kr)
    (ps : List S1.Pred) (pe : Option Expr) (hp : S2.predsE km "e0" true ps = some pe) :
    OptBen (E.push l) (S2.both pe (kr.map (fun ids => Expr.bin "=" (S2.col "e0" "kind_id") (.anyOf (S2.kindsLit ids)))))
      (Cy.triAnd (conjT (ps.map (semE (edgeEnt e)))) (some (Cy.kindAnyOf e.kind ks))) := by
  have H := entAt_edge km hinj E l e he hknown
  have hkinds : OptBen (E.push l) (kr.map (fun ids => Expr.bin "=" (S2.col "e0" "kind_id") (.anyOf (S2.kindsLit ids)))) (some (Cy.kindAnyOf e.kind ks)) := by
    unfold S2.kindIds? at hk
    cases hks : ks.isEmpty with
    | true =>
      simp only [hks, if_true, Option.some.injEq] at hk
      subst hk
      simp only [Option.map_none, OptBen, Cy.kindAnyOf, hks, Bool.true_or]
    | false =>
      simp only [hks, Bool.false_eq_true, if_false, Option.map_eq_some_iff] at hk
      obtain ⟨ids, hids, rfl⟩ := hk
      have := H.kinds ks ids hids
      unfold kindsExpr at this
      simp only [if_true] at this
      refine ⟨Or.inl ?_, bin_not_any ..⟩
      simp only [Option.map_some, S2.col, S2.kindsLit, Cy.kindAnyOf, hks, Bool.false_or]
      exact this
  exact both_ben (E.push l) pe _ _ _ (predsE_ben H hnn ps pe hp) hkinds

theorem hopTriples_mem3 (g : Graph) (p1 p2 : EdgeRec → NodeRec → Bool) (t : (EdgeRec × NodeRec) × NodeRec) (ht : t ∈ hopTriples g p1 p2) :
    t.1.1 ∈ g.edges ∧ t.1.2 ∈ g.nodes ∧ t.2 ∈ g.nodes := by
  unfold hopTriples at ht
  obtain ⟨en, hen, ht⟩ := List.mem_flatMap.mp ht
  obtain ⟨n, hn, rfl⟩ := List.mem_map.mp ht
  obtain ⟨e, he, hen⟩ := List.mem_flatMap.mp hen
  obtain ⟨n', hn', rfl⟩ := List.mem_map.mp hen
  exact ⟨he, (List.mem_filter.mp hn').1, (List.mem_filter.mp hn).1⟩

theorem cross_hyp (q : S2x.Query) (hwf : q.wf = true) (g : Graph) (hS : CrossScalar q g.nodes) (a b : NodeRec) (ha : a ∈ g.nodes) (hb : b ∈ g.nodes) :
    ∀ c ∈ q.cross, c.ab = true ∧ (∀ k, k = c.kx ∨ k = c.ky → ScalarAt a.props k) ∧ (∀ k, k = c.kx ∨ k = c.ky → ScalarAt b.props k) := by
  intro c hc
  unfold S2x.Query.wf at hwf
  simp only [Bool.and_eq_true, List.all_eq_true] at hwf
  have hk : ∀ k, k = c.kx ∨ k = c.ky → k ∈ q.keys := by
    intro k hk
    unfold S2x.Query.keys
    rw [List.mem_flatMap]
    refine ⟨c, hc, ?_⟩
    rcases hk with rfl | rfl <;> simp
  exact ⟨hwf.2 c hc, fun k h => hS k (hk k h) a ha, fun k h => hS k (hk k h) b hb⟩

/-- the matches in the order the statement's frame produces them -/
def hopMX (g : Graph) (q : S2x.Query) (flip : Bool) : List (NodeRec × EdgeRec × NodeRec) := (hopM g (base0 q) flip).filter (extraOk q)

/-- STAGE S2x (one directed hop whose WHERE also compares properties of a and b), for ALL graphs satisfying `GraphOK2` in which the compared
keys hold scalars, ALL queries of the stage, BOTH join orders, the frame pruned or not: the reference semantics yields a result; the emitted
statement either yields a table whose client-visible rows are a permutation of the Cypher rows, or the SQL model stops with `unmodelled` -/
theorem s2x_sound (km : KindMap) (g : Graph) (hok : GraphOK2 km g) (q : S2x.Query) (hS : CrossScalar q g.nodes) (flip prune : Bool) (st : Stmt)
    (h : q.stmtWith km flip prune = some st) :
    ∃ r names rows, Cy.eval .none g q.toCy = .ok r ∧ BenignT (Sql.eval (encode km g) st []) (⟨names, rows⟩ : Table) ∧
      (sqlRows ⟨names, rows⟩).Perm (cyRows g km r) := by
  have hnd := hok.nodup
  have hinj := hok.inj
  have hn : ∀ n ∈ g.nodes, g.node? n.id = some n := find_of_nodup g.nodes hnd
  have he : ∀ e ∈ g.edges, g.edge? e.id = some e := fun e hm => hok.edge? e hm
  unfold S2x.Query.stmtWith at h
  cases hwf : q.wf with
  | false => simp [hwf] at h
  | true =>
  simp only [hwf, Bool.not_true, Bool.false_eq_true, if_false] at h
  have hbwf : q.base.wf = true := by
    unfold S2x.Query.wf at hwf
    simp only [Bool.and_eq_true] at hwf
    exact hwf.1.1
  cases hka : S2.kindIds? km q.akinds with
  | none => simp [hka] at h
  | some ka =>
  cases hkr : S2.kindIds? km q.rkinds with
  | none => simp [hka, hkr] at h
  | some kr =>
  cases hkb : S2.kindIds? km q.bkinds with
  | none => simp [hka, hkr, hkb] at h
  | some kb =>
  cases hpa : S2.predsE km "n0" false (q.base.preds .a) with
  | none => simp [hka, hkr, hkb, hpa] at h
  | some pa =>
  cases hpr : S2.predsE km "e0" true (q.base.preds .r) with
  | none => simp [hka, hkr, hkb, hpa, hpr] at h
  | some pr =>
  cases hru : q.rightUser km with
  | none => simp [hka, hkr, hkb, hpa, hpr, hru] at h
  | some ru =>
  simp only [hka, hkr, hkb, hpa, hpr, hru, Option.some.injEq] at h
  have hcy := cy_sideX g q hbwf hn he
  have hkeep : ∀ it ∈ (base0 q).items, keepOf (!prune || q.base.reads .r) true true it.ref = true := by
    intro it hit
    have hr : q.base.reads it.ref = true := by
      unfold S2.Query.reads
      simp only [Bool.or_eq_true, List.any_eq_true]
      exact Or.inl ⟨it, hit, by simp⟩
    cases hx : it.ref <;> (rw [hx] at hr; simp [keepOf, hr])
  have hb0a : (base0 q).akinds = q.akinds := rfl
  have hb0b : (base0 q).bkinds = q.bkinds := rfl
  have hb0r : (base0 q).rkinds = q.rkinds := rfl
  -- the two join conditions, on FROM rows
  have honA : ∀ (l : Level) (e : EdgeRec) (n : NodeRec), e ∈ g.edges → n ∈ g.nodes → findBinding "e0" l = some (eB km e) →
      findBinding "n0" l = some (nB "n0" km n) →
      BenignT (whTest (E0 (encode km g)) (some (S2.joinOnC "n0" "start_id" (S2.both pa (S2.nodeKindsE "n0" ka)))) l) (pA' (base0 q) e n) := by
    intro l e n _ hnm hfe hfn
    have := joinOnC_ben km hinj (E0 (encode km g)) l "n0" "start_id" e n e.start hfn (hok.noNull n hnm)
      (lookup_e0 km l _ e hfe).2.1 q.akinds ka hka (q.base.preds .a) pa hpa
    unfold pA'
    rw [base0_preds q .a (by decide)]
    exact this
  have honB : ∀ (l : Level) (e : EdgeRec) (n : NodeRec), e ∈ g.edges → n ∈ g.nodes → findBinding "e0" l = some (eB km e) →
      findBinding "n1" l = some (nB "n1" km n) →
      BenignT (whTest (E0 (encode km g)) (some (S2.joinOnC "n1" "end_id" (S2.nodeKindsE "n1" kb))) l) (pB' (base0 q) e n) := by
    intro l e n _ hnm hfe hfn
    have := joinOnC_ben km hinj (E0 (encode km g)) l "n1" "end_id" e n e.stop hfn (hok.noNull n hnm)
      (lookup_e0 km l _ e hfe).2.2.1 q.bkinds kb hkb [] none rfl
    unfold pB'
    rw [base0_preds_b]
    exact this
  -- the frame WHERE on a FROM row holding e, a (under n0), b (under n1)
  have hwhere : ∀ (l : Level) (e : EdgeRec) (a b : NodeRec), e ∈ g.edges → a ∈ g.nodes → b ∈ g.nodes → findBinding "e0" l = some (eB km e) →
      findBinding "n0" l = some (nB "n0" km a) → findBinding "n1" l = some (nB "n1" km b) → ∀ (fl : Bool),
      BenignT (whTest (E0 (encode km g)) (if fl then S2.both (S2.both pr (kr.map (fun ids => Expr.bin "=" (S2.col "e0" "kind_id") (.anyOf (S2.kindsLit ids))))) (some ru)
          else S2.both (some ru) (S2.both pr (kr.map (fun ids => Expr.bin "=" (S2.col "e0" "kind_id") (.anyOf (S2.kindsLit ids)))))) l)
        (wR' (base0 q) e && extraOk q (a, e, b)) := by
    intro l e a b hem ham hbm hfe hfa hfb fl
    have Ha := entAt_node km hinj (E0 (encode km g)) l "n0" a hfa
    have Hb := entAt_node km hinj (E0 (encode km g)) l "n1" b hfb
    obtain ⟨tru, hben, hnot, htru⟩ := rightUser_ben e Ha Hb (hok.noNull b hbm) q (cross_hyp q hwf g hS a b ham hbm) ru hru
    have hedge := edgeW_ben km hinj (E0 (encode km g)) l e hfe (hok.edgeKinds e hem) (hok.edgeNoNull e hem) q.rkinds kr hkr (q.base.preds .r) pr hpr
    have hruO : OptBen ((E0 (encode km g)).push l) (some ru) tru := ⟨hben, hnot⟩
    have hval : (wR' (base0 q) e && extraOk q (a, e, b)) =
        ((conjT ((q.base.preds .r).map (semE (edgeEnt e))) == some true && (some (Cy.kindAnyOf e.kind q.rkinds) == some true)) && (tru == some true)) := by
      unfold wR' extraOk
      rw [base0_preds q .r (by decide), htru, okPreds_conjT]
      simp
      rfl
    rw [hval]
    cases fl with
    | true =>
      have := whTest_ben (E0 (encode km g)) _ l _ (both_ben _ _ _ _ _ hedge hruO)
      rw [triAnd_is_true, triAnd_is_true] at this
      simpa using this
    | false =>
      have := whTest_ben (E0 (encode km g)) _ l _ (both_ben _ _ _ _ _ hruO hedge)
      rw [triAnd_is_true, triAnd_is_true, Bool.and_comm] at this
      simpa using this
  have hitems : q.items = (base0 q).items := rfl
  cases flip with
  | false =>
    simp only [Bool.false_eq_true, if_false] at h
    subst h
    have hfrom := hop_from_ben km g "n0" "n1" _ _ (pA' (base0 q)) (pB' (base0 q)) (by decide) (by decide) (by decide) honA honB
    obtain ⟨names, hsql⟩ := sql_hop_ben km g (base0 q) _ _ _ hkeep none none (hopTriples g (pA' (base0 q)) (pB' (base0 q)))
      (fun t => [eB km t.1.1, nB "n0" km t.1.2, nB "n1" km t.2])
      (fun t => t.1.1) (fun t => t.1.2) (fun t => t.2) _ hfrom
      (fun t _ => ⟨by simp [findBinding, eB], by simp [findBinding, eB, nB], by simp [findBinding, eB, nB]⟩)
      _ (fun t => wR' (base0 q) t.1.1 && extraOk q (t.1.2, t.1.1, t.2))
      (fun t ht => by
        obtain ⟨h1, h2, h3⟩ := hopTriples_mem3 g _ _ t ht
        exact hwhere _ t.1.1 t.1.2 t.2 h1 h2 h3 (by simp [findBinding, eB]) (by simp [findBinding, eB, nB]) (by simp [findBinding, eB, nB]) false)
    have hM : (hopMX g q false).Perm (okMatches g q.base (okWhereX q)) := by
      rw [okMatchesX_eq]
      exact (hopM_perm g hnd (base0 q) false).filter _
    refine ⟨_, names, _, hcy, hsql, ?_⟩
    simp only [cutN]
    have hrows : ((hopTriples g (pA' (base0 q)) (pB' (base0 q))).filter (fun t => wR' (base0 q) t.1.1 && extraOk q (t.1.2, t.1.1, t.2))).map
        (fun t => (base0 q).items.map (itemVal2 km t.1.1 t.1.2 t.2)) = (hopMX g q false).map (fun m => q.base.items.map (itemVal2 km m.2.1 m.1 m.2.2)) := by
      unfold hopMX
      simp only [hopM, List.filter_map, List.map_map, List.filter_filter, Function.comp_def]
      congr 1
      apply List.filter_congr
      intro t _
      rw [Bool.and_comm]
    rw [hrows]
    exact rows_permG km g q.base hn he names _ _ hM (fun m hm => okMatches_mem g q.base _ m hm)
  | true =>
    simp only [if_true] at h
    subst h
    have hfrom := hop_from_ben km g "n1" "n0" _ _ (pB' (base0 q)) (pA' (base0 q)) (by decide) (by decide) (by decide) honB honA
    obtain ⟨names, hsql⟩ := sql_hop_ben km g (base0 q) _ _ _ hkeep none none (hopTriples g (pB' (base0 q)) (pA' (base0 q)))
      (fun t => [eB km t.1.1, nB "n1" km t.1.2, nB "n0" km t.2])
      (fun t => t.1.1) (fun t => t.2) (fun t => t.1.2) _ hfrom
      (fun t _ => ⟨by simp [findBinding, eB], by simp [findBinding, eB, nB], by simp [findBinding, eB, nB]⟩)
      _ (fun t => wR' (base0 q) t.1.1 && extraOk q (t.2, t.1.1, t.1.2))
      (fun t ht => by
        obtain ⟨h1, h2, h3⟩ := hopTriples_mem3 g _ _ t ht
        exact hwhere _ t.1.1 t.2 t.1.2 h1 h3 h2 (by simp [findBinding, eB]) (by simp [findBinding, eB, nB]) (by simp [findBinding, eB, nB]) true)
    have hM : (hopMX g q true).Perm (okMatches g q.base (okWhereX q)) := by
      rw [okMatchesX_eq]
      exact (hopM_perm g hnd (base0 q) true).filter _
    refine ⟨_, names, _, hcy, hsql, ?_⟩
    simp only [cutN]
    have hrows : ((hopTriples g (pB' (base0 q)) (pA' (base0 q))).filter (fun t => wR' (base0 q) t.1.1 && extraOk q (t.2, t.1.1, t.1.2))).map
        (fun t => (base0 q).items.map (itemVal2 km t.1.1 t.2 t.1.2)) = (hopMX g q true).map (fun m => q.base.items.map (itemVal2 km m.2.1 m.1 m.2.2)) := by
      unfold hopMX
      simp only [hopM, List.filter_map, List.map_map, List.filter_filter, Function.comp_def]
      congr 1
      apply List.filter_congr
      intro t _
      rw [Bool.and_comm]
    rw [hrows]
    exact rows_permG km g q.base hn he names _ _ hM (fun m hm => okMatches_mem g q.base _ m hm)

-- ------------------------------------------------------------------ the executable hypothesis, and the recogniser of the stage

theorem crossScalarB_sound (g : Graph) (q : S2x.Query) (h : q.keys.all (scalarKeyB g) = true) : CrossScalar q g.nodes := by
  intro k hk n hn
  have hs := List.all_eq_true.mp h k hk
  unfold scalarKeyB at hs
  have := List.all_eq_true.mp hs n hn
  unfold ScalarAt
  cases hl : Json.lookup k n.props with
  | none => trivial
  | some j => rw [hl] at this; cases j <;> simp_all

theorem crossOf_sound (b : S2.Query) (e : Cy.Expr) (c : S2x.Cross) (h : crossOf b.a b.r b.b e = some c) : c.toCy b = e := by
  unfold crossOf at h
  split at h
  · rename_i op v k v' k'
    split at h
    · rename_i hop
      split at h
      · rename_i x y hx hy
        simp only [Option.some.injEq] at h
        subst h
        simp only [S2x.Cross.toCy, refOf2_name _ _ _ _ x hx b rfl rfl rfl, refOf2_name _ _ _ _ y hy b rfl rfl rfl]
        simp only [Bool.or_eq_true, beq_iff_eq] at hop
        rcases hop with rfl | rfl <;> simp
      · cases h
    · cases h
  · cases h

theorem conjOfX_sound (b : S2.Query) (e : Cy.Expr) (c : S2x.Conj) (h : conjOfX b.a b.r b.b e = some c) : c.toCy b = e := by
  unfold conjOfX at h
  cases h2 : conjunctOf2 b.a b.r b.b e with
  | some c2 =>
    rw [h2] at h
    simp only [Option.some.injEq] at h
    subst h
    exact conjunctOf2_sound b e c2 h2
  | none =>
    rw [h2] at h
    obtain ⟨x, hx, rfl⟩ := Option.map_eq_some_iff.mp h
    exact crossOf_sound b e x hx

theorem conjsOfX_sound (b : S2.Query) : ∀ (es : List Cy.Expr) (cs : List S2x.Conj), es.mapM (conjOfX b.a b.r b.b) = some cs →
    cs.map (S2x.Conj.toCy b) = es ∧ cs.length = es.length
  | [], cs, h => by simp only [List.mapM_nil] at h; cases h; exact ⟨rfl, rfl⟩
  | e :: es, cs, h => by
    rw [List.mapM_cons] at h
    cases hc : conjOfX b.a b.r b.b e with
    | none => rw [hc] at h; cases h
    | some c =>
      rw [hc] at h
      cases hr : es.mapM (conjOfX b.a b.r b.b) with
      | none => rw [hr] at h; cases h
      | some cs' =>
        rw [hr] at h; cases h
        obtain ⟨h1, h2⟩ := conjsOfX_sound b es cs' hr
        exact ⟨by rw [List.map_cons, conjOfX_sound b e c hc, h1], by rw [List.length_cons, List.length_cons, h2]⟩

theorem whereOfX_sound (q : S2x.Query) (wh : Option Cy.Expr) (h : whereOfX q.a q.r q.b wh = some q.wh) : q.whereCy = wh := by
  unfold S2x.Query.whereCy
  unfold whereOfX at h
  split at h
  · simp only [Option.some.injEq] at h; rw [← h]
  · rename_i es
    split at h
    · cases h
    · rename_i hlen
      obtain ⟨h1, h2⟩ := conjsOfX_sound q.base es q.wh h
      have hl : 2 ≤ q.wh.length := by rw [h2]; omega
      cases hw : q.wh with
      | nil => rw [hw] at hl; simp at hl
      | cons c cs =>
        cases cs with
        | nil => rw [hw] at hl; simp at hl
        | cons c' cs' => rw [hw] at h1; simp only [h1]
  · rename_i e hne
    obtain ⟨c, hc, hcs⟩ := Option.map_eq_some_iff.mp h
    rw [← hcs]
    simp only [conjOfX_sound q.base e c hc]

/-- an accepted parsed query is exactly the Cypher reading of the S2x query returned, and that query is well-formed -/
theorem ofCyCross_sound (q : Cy.Query) (s : S2x.Query) (h : ofCyCross q = some s) : s.toCy = q ∧ s.wf = true := by
  unfold ofCyCross at h
  split at h
  · rename_i a akinds r rkinds b bkinds wh hparts hclauses
    split at h
    · cases h
    · rename_i hcond
      simp only [Bool.or_eq_true, not_or, Bool.not_eq_true, Bool.not_eq_true'] at hcond
      simp only [bind, Option.bind_eq_some_iff, pure] at h
      obtain ⟨cs, hcs, items, hitems, h⟩ := h
      split at h
      · rename_i hwf
        simp only [Option.some.injEq] at h
        subst h
        refine ⟨?_, hwf⟩
        have hit := itemsOf2_sound (S2x.Query.base ⟨a, r, b, akinds, rkinds, bkinds, cs, items⟩) _ _ hitems
        have hwh := whereOfX_sound ⟨a, r, b, akinds, rkinds, bkinds, cs, items⟩ wh hcs
        cases q with
        | mk parts clauses ret =>
          cases ret with
          | mk distinct all ritems orderBy rskip rlimit =>
            simp only at hparts hclauses hcond hit
            subst hparts hclauses
            simp only [S2x.Query.toCy, hwh, Cy.Query.mk.injEq, Cy.Projection.mk.injEq, true_and]
            have hit' : List.map (S2.Item.toCy (S2x.Query.base ⟨a, r, b, akinds, rkinds, bkinds, cs, items⟩)) items = ritems := hit
            simp only [hit']
            simp_all
      · cases h
  · cases h

end Dawgs.C01.Proofs
