/- Helper lemmas for C14: the deque loop of TSDFS/TSBFS/TSStatelessBFS visits every node of the expansion tree
once and hands exactly its leaves (past the root) to the handler. Generic in the work item. -/
import Dawgs.Spec.C14
set_option linter.unusedSimpArgs false
set_option linter.unusedVariables false
namespace Dawgs.C14

variable {α : Type}

/-! ### the expansion tree -/

/-- the tree below `x` has height < `F` -/
def Bounded (children : α → List α) : Nat → α → Prop
  | 0, _ => False
  | F + 1, x => ∀ c ∈ children x, Bounded children F c

theorem bounded_succ {children : α → List α} : ∀ {F : Nat} {x : α}, Bounded children F x → Bounded children (F + 1) x := by
  intro F
  induction F with
  | zero => intro x h; exact absurd h id
  | succ F ih => intro x h c hc; exact ih (h c hc)

theorem bounded_mono {children : α → List α} {F F' : Nat} {x : α} (h : Bounded children F x) (hle : F ≤ F') :
    Bounded children F' x := by
  induction hle with
  | refl => exact h
  | step _ ih => exact bounded_succ ih

theorem treeLeaves_zero (children : α → List α) (isPath : α → Bool) (x : α) : treeLeaves children isPath 0 x = [] := rfl
theorem treeLeaves_succ (children : α → List α) (isPath : α → Bool) (F : Nat) (x : α) :
    treeLeaves children isPath (F + 1) x =
      if (children x).isEmpty then (if isPath x then [x] else [])
      else (children x).flatMap (treeLeaves children isPath F) := rfl

theorem flatMap_congr' {β : Type} {l : List α} {f g : α → List β} (h : ∀ x ∈ l, f x = g x) : l.flatMap f = l.flatMap g := by
  induction l with
  | nil => rfl
  | cons a l ih =>
    rw [List.flatMap_cons, List.flatMap_cons, h a (by simp), ih (fun x hx => h x (List.mem_cons_of_mem _ hx))]

/-- extra fuel does not change the leaves of a bounded tree -/
theorem treeLeaves_stable (children : α → List α) (isPath : α → Bool) :
    ∀ {F : Nat} {x : α}, Bounded children F x → treeLeaves children isPath (F + 1) x = treeLeaves children isPath F x := by
  intro F
  induction F with
  | zero => intro x h; exact absurd h id
  | succ F ih =>
    intro x h
    rw [treeLeaves_succ children isPath (F + 1), treeLeaves_succ children isPath F]
    split
    · rfl
    · exact flatMap_congr' (fun c hc => ih (h c hc))

theorem treeLeaves_stable_le (children : α → List α) (isPath : α → Bool) {F F' : Nat} {x : α}
    (h : Bounded children F x) (hle : F ≤ F') : treeLeaves children isPath F' x = treeLeaves children isPath F x := by
  induction hle with
  | refl => rfl
  | step hle' ih => rw [treeLeaves_stable children isPath (bounded_mono h hle'), ih]

/-- number of nodes of the tree below `x` -/
def treeSize (children : α → List α) : Nat → α → Nat
  | 0, _ => 0
  | F + 1, x => 1 + ((children x).map (treeSize children F)).sum

theorem map_congr' {β : Type} {l : List α} {f g : α → β} (h : ∀ x ∈ l, f x = g x) : l.map f = l.map g := by
  induction l with
  | nil => rfl
  | cons a l ih => rw [List.map_cons, List.map_cons, h a (by simp), ih (fun x hx => h x (List.mem_cons_of_mem _ hx))]

theorem treeSize_stable (children : α → List α) :
    ∀ {F : Nat} {x : α}, Bounded children F x → treeSize children (F + 1) x = treeSize children F x := by
  intro F
  induction F with
  | zero => intro x h; exact absurd h id
  | succ F ih =>
    intro x h
    show 1 + _ = 1 + _
    rw [map_congr' (fun c hc => ih (h c hc))]

/-! ### the deque -/

theorem popNext_nil (bfs : Bool) : popNext bfs ([] : List α) = none := rfl

theorem popNext_perm {bfs : Bool} {q : List α} {next : α} {rest : List α} (h : popNext bfs q = some (next, rest)) :
    List.Perm q (next :: rest) := by
  cases q with
  | nil => cases h
  | cons x xs =>
    unfold popNext at h
    cases bfs with
    | true => simp at h; obtain ⟨rfl, rfl⟩ := h; exact List.Perm.refl _
    | false =>
      simp only [Bool.false_eq_true, if_false, Option.some.injEq, Prod.mk.injEq] at h
      obtain ⟨rfl, rfl⟩ := h
      have := List.dropLast_concat_getLast (List.cons_ne_nil x xs)
      conv => lhs; rw [← this]
      exact List.perm_append_comm.trans (List.Perm.refl _)

theorem popNext_none {bfs : Bool} {q : List α} (h : popNext bfs q = none) : q = [] := by
  cases q with
  | nil => rfl
  | cons x xs => unfold popNext at h; cases bfs <;> simp at h

theorem travLoop_zero (bfs : Bool) (children : α → List α) (isPath exceeded : α → Bool) (q out : List α) (inc : Nat) :
    travLoop bfs children isPath exceeded 0 q out inc =
      match popNext bfs q with
      | none => some (out, inc)
      | some _ => none := rfl

theorem travLoop_succ (bfs : Bool) (children : α → List α) (isPath exceeded : α → Bool) (fuel : Nat) (q out : List α) (inc : Nat) :
    travLoop bfs children isPath exceeded (fuel + 1) q out inc =
      match popNext bfs q with
      | none => some (out, inc)
      | some (next, rest) =>
        if isPath next && (children next).isEmpty then
          travLoop bfs children isPath exceeded fuel (rest ++ children next) (out ++ [next]) (if exceeded next then inc + 1 else inc)
        else
          travLoop bfs children isPath exceeded fuel (rest ++ children next) out inc := rfl

/-- what one pop contributes to the handler -/
def reported (children : α → List α) (isPath : α → Bool) (x : α) : List α :=
  if isPath x && (children x).isEmpty then [x] else []

theorem leaves_pop (children : α → List α) (isPath : α → Bool) (F : Nat) (next : α) (rest : List α)
    (hb : ∀ r ∈ rest ++ children next, Bounded children F r) :
    ((next :: rest).flatMap (treeLeaves children isPath (F + 1))).Perm
      (reported children isPath next ++ (rest ++ children next).flatMap (treeLeaves children isPath F)) := by
  rw [List.flatMap_cons, List.flatMap_append]
  have hrest : rest.flatMap (treeLeaves children isPath (F + 1)) = rest.flatMap (treeLeaves children isPath F) :=
    flatMap_congr' (fun r hr => treeLeaves_stable children isPath (hb r (List.mem_append_left _ hr)))
  rw [hrest, treeLeaves_succ]
  unfold reported
  by_cases hc : (children next).isEmpty = true
  · have hnil : children next = [] := List.isEmpty_iff.mp hc
    rw [if_pos hc]
    by_cases hp : isPath next = true
    · simp [hp, hc, hnil]
    · simp [hp, hnil]
  · rw [if_neg hc]
    have : (isPath next && (children next).isEmpty) = false := by simp [hc]
    rw [this]
    simp only [Bool.false_eq_true, if_false, List.nil_append]
    exact List.perm_append_comm

/-- PARTIAL CORRECTNESS: a completed loop handed the handler exactly (as a multiset) the leaves of the trees
in the queue, and counted those that exceed the depth. -/
theorem travLoop_correct (bfs : Bool) (children : α → List α) (isPath exceeded : α → Bool) :
    ∀ (fuel : Nat) (q out : List α) (inc : Nat) (out' : List α) (inc' : Nat),
      travLoop bfs children isPath exceeded fuel q out inc = some (out', inc') →
      ∃ F, (∀ r ∈ q, Bounded children F r) ∧
        out'.Perm (out ++ q.flatMap (treeLeaves children isPath F)) ∧
        inc' = inc + ((q.flatMap (treeLeaves children isPath F)).filter exceeded).length := by
  intro fuel
  induction fuel with
  | zero =>
    intro q out inc out' inc' h
    rw [travLoop_zero] at h
    cases hp : popNext bfs q with
    | none =>
      rw [hp] at h; simp only [Option.some.injEq, Prod.mk.injEq] at h
      obtain ⟨rfl, rfl⟩ := h
      have := popNext_none hp; subst this
      exact ⟨0, (fun r hr => nomatch hr), by simp, by simp⟩
    | some p => rw [hp] at h; cases h
  | succ fuel ih =>
    intro q out inc out' inc' h
    rw [travLoop_succ] at h
    cases hp : popNext bfs q with
    | none =>
      rw [hp] at h; simp only [Option.some.injEq, Prod.mk.injEq] at h
      obtain ⟨rfl, rfl⟩ := h
      have := popNext_none hp; subst this
      exact ⟨0, (fun r hr => nomatch hr), by simp, by simp⟩
    | some p =>
      obtain ⟨next, rest⟩ := p
      rw [hp] at h
      simp only at h
      have hperm := popNext_perm hp
      -- both branches: recursive call on `rest ++ children next` with `out ++ reported next`
      have key : ∃ F, (∀ r ∈ rest ++ children next, Bounded children F r) ∧
          out'.Perm ((out ++ reported children isPath next) ++ (rest ++ children next).flatMap (treeLeaves children isPath F)) ∧
          inc' = (inc + ((reported children isPath next).filter exceeded).length) +
            (((rest ++ children next).flatMap (treeLeaves children isPath F)).filter exceeded).length := by
        unfold reported
        by_cases hr : (isPath next && (children next).isEmpty) = true
        · rw [if_pos hr] at h ⊢
          obtain ⟨F, hb, hpm, hinc⟩ := ih _ _ _ _ _ h
          refine ⟨F, hb, hpm, ?_⟩
          rw [hinc]
          by_cases he : exceeded next = true
          · simp [he]
          · simp [he]
        · rw [if_neg hr] at h ⊢
          obtain ⟨F, hb, hpm, hinc⟩ := ih _ _ _ _ _ h
          exact ⟨F, hb, by simpa using hpm, by simpa using hinc⟩
      obtain ⟨F, hb, hpm, hinc⟩ := key
      have hbq : ∀ r ∈ q, Bounded children (F + 1) r := by
        intro r hr
        rcases List.mem_cons.mp (hperm.mem_iff.mp hr) with rfl | hr'
        · intro c hc; exact hb c (List.mem_append_right _ hc)
        · exact bounded_succ (hb r (List.mem_append_left _ hr'))
      have hL : (q.flatMap (treeLeaves children isPath (F + 1))).Perm
          (reported children isPath next ++ (rest ++ children next).flatMap (treeLeaves children isPath F)) :=
        (List.Perm.flatMap_right _ hperm).trans (leaves_pop children isPath F next rest hb)
      refine ⟨F + 1, hbq, ?_, ?_⟩
      · refine hpm.trans ?_
        rw [List.append_assoc]
        exact List.Perm.append_left out hL.symm
      · rw [hinc, (hL.filter exceeded).length_eq, List.filter_append, List.length_append]
        omega

theorem treeSize_pos {children : α → List α} {F : Nat} {x : α} (h : Bounded children F x) : 1 ≤ treeSize children F x := by
  cases F with
  | zero => exact absurd h id
  | succ F => show 1 ≤ 1 + _; omega

/-- TERMINATION: fuel = total number of tree nodes in the queue is enough. -/
theorem travLoop_total (bfs : Bool) (children : α → List α) (isPath exceeded : α → Bool) (F : Nat) :
    ∀ (fuel : Nat) (q out : List α) (inc : Nat), (∀ r ∈ q, Bounded children F r) →
      (q.map (treeSize children F)).sum ≤ fuel → (travLoop bfs children isPath exceeded fuel q out inc).isSome := by
  intro fuel
  induction fuel with
  | zero =>
    intro q out inc hb hs
    rw [travLoop_zero]
    cases hp : popNext bfs q with
    | none => rfl
    | some p =>
      obtain ⟨next, rest⟩ := p
      have hperm := popNext_perm hp
      have hn : next ∈ q := hperm.mem_iff.mpr (by simp)
      have h1 := treeSize_pos (hb next hn)
      have hsum : (q.map (treeSize children F)).sum = treeSize children F next + (rest.map (treeSize children F)).sum := by
        rw [(hperm.map _).sum_nat]; simp
      omega
  | succ fuel ih =>
    intro q out inc hb hs
    rw [travLoop_succ]
    cases hp : popNext bfs q with
    | none => rfl
    | some p =>
      obtain ⟨next, rest⟩ := p
      simp only
      have hperm := popNext_perm hp
      have hn : next ∈ q := hperm.mem_iff.mpr (by simp)
      have hbn := hb next hn
      obtain ⟨F0, rfl⟩ : ∃ F0, F = F0 + 1 := by
        cases F with
        | zero => exact absurd hbn id
        | succ F0 => exact ⟨F0, rfl⟩
      have hb' : ∀ r ∈ rest ++ children next, Bounded children (F0 + 1) r := by
        intro r hr
        rcases List.mem_append.mp hr with hr | hr
        · exact hb r (hperm.mem_iff.mpr (List.mem_cons_of_mem _ hr))
        · exact bounded_succ (hbn r hr)
      have hsum : (q.map (treeSize children (F0 + 1))).sum =
          treeSize children (F0 + 1) next + (rest.map (treeSize children (F0 + 1))).sum := by
        rw [(hperm.map _).sum_nat]; simp
      have hnext : treeSize children (F0 + 1) next = 1 + ((children next).map (treeSize children (F0 + 1))).sum := by
        show 1 + _ = 1 + _
        rw [map_congr' (fun c hc => (treeSize_stable children (hbn c hc)).symm)]
      have hs' : ((rest ++ children next).map (treeSize children (F0 + 1))).sum ≤ fuel := by
        rw [List.map_append, List.sum_append]; omega
      split
      · exact ih _ _ _ hb' hs'
      · exact ih _ _ _ hb' hs'

/-- both together, for a single root: with enough fuel the loop completes, and whatever fuel it completes with,
the handler calls are a permutation of the tree's leaves. -/
theorem travLoop_root (bfs : Bool) (children : α → List α) (isPath exceeded : α → Bool) (F : Nat) (root : α)
    (hb : Bounded children F root) :
    ∀ fuel, treeSize children F root ≤ fuel →
      ∃ out inc, travLoop bfs children isPath exceeded fuel [root] [] 0 = some (out, inc) ∧
        out.Perm (treeLeaves children isPath F root) ∧ inc = (out.filter exceeded).length := by
  intro fuel hf
  have htot := travLoop_total bfs children isPath exceeded F fuel [root] [] 0
    (by intro r hr; simp at hr; subst hr; exact hb) (by simpa using hf)
  obtain ⟨⟨out, inc⟩, hres⟩ := Option.isSome_iff_exists.mp htot
  obtain ⟨F', hb', hpm, hinc⟩ := travLoop_correct bfs children isPath exceeded fuel [root] [] 0 out inc hres
  have hb'' := hb' root (by simp)
  have heq : treeLeaves children isPath F' root = treeLeaves children isPath F root := by
    rcases Nat.le_total F F' with h | h
    · exact treeLeaves_stable_le children isPath hb h
    · exact (treeLeaves_stable_le children isPath hb'' h).symm
  simp only [List.flatMap_cons, List.flatMap_nil, List.append_nil, List.nil_append, Nat.zero_add] at hpm hinc
  rw [heq] at hpm hinc
  exact ⟨out, inc, hres, hpm, by rw [hinc, (hpm.filter exceeded).length_eq]⟩

end Dawgs.C14
