/-
C04 helper lemmas: the lexer is a transducer (`go (a ++ b)` decomposes), what it does on the output of
`pgQuote` / `qQuote` / a safe bare identifier, and the decoder/encoder algebra.
-/
import Dawgs.Model.C04
namespace Dawgs.C04

/-! ## transducer algebra -/

theorem go_cons (m : Mode) (c : Char) (cs : Str) : go m (c :: cs) = (step m c).1 ++ go (step m c).2 cs := rfl
theorem go_nil (m : Mode) : go m [] = finish m := rfl
theorem run_nil (m : Mode) : run m [] = ([], m) := rfl
theorem run_cons (m : Mode) (c : Char) (cs : Str) :
    run m (c :: cs) = ((step m c).1 ++ (run (step m c).2 cs).1, (run (step m c).2 cs).2) := rfl

theorem go_eq_run (m : Mode) (cs : Str) : go m cs = (run m cs).1 ++ finish (run m cs).2 := by
  induction cs generalizing m with
  | nil => simp [go_nil, run_nil]
  | cons c cs ih => simp [go_cons, run_cons, ih, List.append_assoc]

theorem go_append (m : Mode) (a b : Str) : go m (a ++ b) = (run m a).1 ++ go (run m a).2 b := by
  induction a generalizing m with
  | nil => simp [run_nil]
  | cons c cs ih => simp [go_cons, run_cons, ih, List.append_assoc]

theorem run_append (m : Mode) (a b : Str) :
    run m (a ++ b) = ((run m a).1 ++ (run (run m a).2 b).1, (run (run m a).2 b).2) := by
  induction a generalizing m with
  | nil => simp [run_nil]
  | cons c cs ih => simp [run_cons, ih, List.append_assoc]

theorem goTR_eq (m : Mode) (cs : Str) (out : Array Tok) : goTR m cs out = out ++ (go m cs).toArray := by
  induction cs generalizing m out with
  | nil => simp [goTR, go_nil]
  | cons c cs ih =>
    rw [go_cons]
    unfold goTR
    cases h : step m c with
    | mk ts m' =>
      cases ts with
      | nil => simp [ih]
      | cons t ts => simp [ih, Array.append_assoc]

theorem lexFast_eq (s : Str) : lexFast s = lex s := by
  simp [lexFast, lex, goTR_eq]

/-! ## single steps -/

theorem quote_ne_nul : '\'' ≠ NUL := by decide
theorem dquote_ne_nul : '"' ≠ NUL := by decide

theorem step_ne_nul (m : Mode) (c : Char) (h : c ≠ NUL) : step m c = stepN m c := by
  simp [step, h]

theorem step_top_nul : step .top NUL = ([.nul], .dead) := by
  simp [step, stepNul, finish]

theorem go_top_cons (c : Char) (cs : Str) (h : c ≠ NUL) :
    go .top (c :: cs) = (topStep c).1 ++ go (topStep c).2 cs := by
  rw [go_cons, step_ne_nul _ _ h]; rfl

theorem go_top_space (c : Char) (cs : Str) (h : c ≠ NUL) (hs : isSpace c = true) :
    go .top (c :: cs) = go .top cs := by
  rw [go_top_cons c cs h]; simp [topStep, hs]

theorem go_top_nul (cs : Str) : go .top (NUL :: cs) = .nul :: go .dead cs := by
  rw [go_cons, step_top_nul]; rfl

theorem step_str_plain (acc : Str) (c : Char) (h0 : c ≠ NUL) (h1 : c ≠ '\'') :
    step (.str .plain acc) c = ([], .str .plain (c :: acc)) := by
  rw [step_ne_nul _ _ h0]; simp [stepN, stepStr, h1]

theorem step_str_quote (k : StrKind) (acc : Str) : step (.str k acc) '\'' = ([], .strQ k acc) := by
  rw [step_ne_nul _ _ quote_ne_nul]; simp [stepN, stepStr]

theorem step_strQ_quote (k : StrKind) (acc : Str) : step (.strQ k acc) '\'' = ([], .str k ('\'' :: acc)) := by
  rw [step_ne_nul _ _ quote_ne_nul]; simp [stepN, stepStrQ]

theorem step_top_quote : step .top '\'' = ([], .str .plain []) := by decide

theorem step_top_dquote : step .top '"' = ([], .qid false []) := by decide

theorem step_qid (acc : Str) (c : Char) (h0 : c ≠ NUL) (h1 : c ≠ '"') :
    step (.qid false acc) c = ([], .qid false (c :: acc)) := by
  rw [step_ne_nul _ _ h0]; simp [stepN, h1]

theorem step_qid_dquote (acc : Str) : step (.qid false acc) '"' = ([], .qidQ false acc) := by
  rw [step_ne_nul _ _ dquote_ne_nul]; simp [stepN]

theorem step_qidQ_dquote (acc : Str) : step (.qidQ false acc) '"' = ([], .qid false ('"' :: acc)) := by
  rw [step_ne_nul _ _ dquote_ne_nul]; simp [stepN]

/-! ## string constants written by `pgQuote` -/

theorem str_body (s acc rest : Str) (h : NUL ∉ s) :
    go (.str .plain acc) (escQ s ++ rest) = go (.str .plain (s.reverse ++ acc)) rest := by
  induction s generalizing acc with
  | nil => simp [escQ]
  | cons c cs ih =>
    have hc : c ≠ NUL := fun e => h (by simp [e])
    have hcs : NUL ∉ cs := fun e => h (by simp [e])
    by_cases hq : c = '\''
    · subst hq
      simp only [escQ, if_true, List.cons_append]
      rw [go_cons, step_str_quote, go_cons, step_strQ_quote]
      simp only [List.nil_append]
      rw [ih _ hcs]; simp
    · simp only [escQ, hq, if_false, List.cons_append]
      rw [go_cons, step_str_plain _ _ hc hq]
      simp only [List.nil_append]
      rw [ih _ hcs]; simp

theorem strWs_end (k : StrKind) (acc : Str) (nl : Bool) (r : Str) (h : wsCont nl r = false) :
    go (.strWs k acc nl) r = strTok k acc :: go .top r := by
  induction r generalizing nl with
  | nil => simp [go_nil, finish]
  | cons c cs ih =>
    by_cases hq : c = '\''
    · subst hq
      have hnl : nl = false := by simpa [wsCont] using h
      subst hnl
      rw [go_cons, step_ne_nul _ _ quote_ne_nul, go_cons, step_top_quote]
      simp [stepN, stepStrWs]
    · by_cases h0 : c = NUL
      · subst h0
        rw [go_cons, go_top_nul]
        simp [step, stepNul, finish]
      · by_cases hs : isSpace c = true
        · have h' : wsCont (nl || isNl c) cs = false := by simpa [wsCont, hq, h0, hs] using h
          rw [go_cons, step_ne_nul _ _ h0, go_top_space c cs h0 hs]
          simp only [stepN, stepStrWs, hq, if_false, hs, if_true, List.nil_append]
          exact ih _ h'
        · rw [go_cons, step_ne_nul _ _ h0, go_top_cons c cs h0]
          simp [stepN, stepStrWs, hq, hs, emitThen]

theorem strQ_end (k : StrKind) (acc : Str) (r : Str) (h : contQuote r = false) :
    go (.strQ k acc) r = strTok k acc :: go .top r := by
  cases r with
  | nil => simp [go_nil, finish]
  | cons c cs =>
    by_cases hq : c = '\''
    · subst hq; simp [contQuote] at h
    · by_cases h0 : c = NUL
      · subst h0
        rw [go_cons, go_top_nul]
        simp [step, stepNul, finish]
      · by_cases hs : isSpace c = true
        · have h' : wsCont (isNl c) cs = false := by simpa [contQuote, hq, h0, hs] using h
          rw [go_cons, step_ne_nul _ _ h0, go_top_space c cs h0 hs]
          simp only [stepN, stepStrQ, hq, if_false, hs, if_true, List.nil_append]
          exact strWs_end k acc _ cs h'
        · rw [go_cons, step_ne_nul _ _ h0, go_top_cons c cs h0]
          simp [stepN, stepStrQ, hq, hs, emitThen]

theorem go_top_pgQuote (s r : Str) (h : NUL ∉ s) :
    go .top (pgQuote s ++ r) = go (.strQ .plain s.reverse) r := by
  simp only [pgQuote, List.cons_append, List.append_assoc]
  rw [go_cons, step_top_quote]
  simp only [List.nil_append]
  rw [str_body s [] _ h, List.append_nil, go_cons, step_str_quote]
  rfl

theorem lex_pgQuote (s r : Str) (h : NUL ∉ s) (hr : contQuote r = false) :
    lex (pgQuote s ++ r) = .str s :: lex r := by
  unfold lex
  rw [go_top_pgQuote s r h, strQ_end _ _ _ hr]
  simp [strTok]

/-- a value written with `pgQuote` after any text that leaves the lexer in no open token -/
theorem lit_in_context (pre s post : Str) (hpre : (run .top pre).2 = .top) (h : NUL ∉ s)
    (hpost : contQuote post = false) :
    lex (pre ++ pgQuote s ++ post) = (run .top pre).1 ++ .str s :: lex post := by
  unfold lex
  rw [List.append_assoc, go_append, hpre]
  exact congrArg _ (lex_pgQuote s post h hpost)

theorem mem_escQ (c : Char) (s : Str) (h : c ∈ escQ s) : c ∈ s ∨ c = '\'' := by
  induction s with
  | nil => simp [escQ] at h
  | cons d ds ih =>
    by_cases hd : d = '\''
    · subst hd
      simp only [escQ, if_true, List.mem_cons] at h
      rcases h with h | h | h
      · exact Or.inr h
      · exact Or.inr h
      · rcases ih h with h | h
        · exact Or.inl (List.mem_cons_of_mem _ h)
        · exact Or.inr h
    · simp only [escQ, hd, if_false, List.mem_cons] at h
      rcases h with h | h
      · exact Or.inl (by simp [h])
      · rcases ih h with h | h
        · exact Or.inl (List.mem_cons_of_mem _ h)
        · exact Or.inr h

theorem nul_not_mem_pgQuote (s : Str) (h : NUL ∉ s) : NUL ∉ pgQuote s := by
  intro hm
  simp only [pgQuote, List.mem_cons, List.mem_append] at hm
  have hq : NUL ≠ '\'' := by decide
  rcases hm with hm | hm | hm
  · exact hq hm
  · rcases mem_escQ _ _ hm with hm | hm
    · exact h hm
    · exact hq hm
  · rcases hm with hm | hm
    · exact hq hm
    · cases hm

/-! ## quoted identifiers written by `qQuote` (the repaired emitter) -/

def contDQ : Str → Bool
  | '"' :: _ => true
  | _ => false

theorem qid_body (s acc rest : Str) (h : NUL ∉ s) :
    go (.qid false acc) (escDQ s ++ rest) = go (.qid false (s.reverse ++ acc)) rest := by
  induction s generalizing acc with
  | nil => simp [escDQ]
  | cons c cs ih =>
    have hc : c ≠ NUL := fun e => h (by simp [e])
    have hcs : NUL ∉ cs := fun e => h (by simp [e])
    by_cases hq : c = '"'
    · subst hq
      simp only [escDQ, if_true, List.cons_append]
      rw [go_cons, step_qid_dquote, go_cons, step_qidQ_dquote]
      simp only [List.nil_append]
      rw [ih _ hcs]; simp
    · simp only [escDQ, hq, if_false, List.cons_append]
      rw [go_cons, step_qid _ _ hc hq]
      simp only [List.nil_append]
      rw [ih _ hcs]; simp

theorem qidQ_end (acc r : Str) (h : contDQ r = false) :
    go (.qidQ false acc) r = .qident acc.reverse :: go .top r := by
  cases r with
  | nil => simp [go_nil, finish, qidTok]
  | cons c cs =>
    by_cases hq : c = '"'
    · subst hq; simp [contDQ] at h
    · by_cases h0 : c = NUL
      · subst h0
        rw [go_cons, go_top_nul]
        simp [step, stepNul, finish, qidTok]
      · rw [go_cons, step_ne_nul _ _ h0, go_top_cons c cs h0]
        simp [stepN, hq, emitThen, qidTok]

theorem lex_qQuote (s r : Str) (h : NUL ∉ s) (hr : contDQ r = false) :
    lex (qQuote s ++ r) = .qident s :: lex r := by
  unfold lex
  simp only [qQuote, List.cons_append, List.append_assoc]
  rw [go_cons, step_top_dquote]
  simp only [List.nil_append]
  rw [qid_body s [] _ h, List.append_nil, go_cons, step_qid_dquote]
  simp only [List.nil_append]
  rw [qidQ_end _ _ hr]; simp

theorem qident_in_context (pre s post : Str) (hpre : (run .top pre).2 = .top) (h : NUL ∉ s)
    (hpost : contDQ post = false) :
    lex (pre ++ qQuote s ++ post) = (run .top pre).1 ++ .qident s :: lex post := by
  unfold lex
  rw [List.append_assoc, go_append, hpre]
  exact congrArg _ (lex_qQuote s post h hpost)

/-! ## bare identifiers -/

/-- what may follow a bare identifier without being absorbed into it or turning it into a string prefix
(`e'…'`, `b'…'`, `x'…'`, `n'…'`, `u&'…'`, `u&"…"`) -/
def identFollow : Str → Bool
  | [] => true
  | c :: _ => !isIdentCont c && c != '\'' && c != '&'

theorem identCont_ne_nul (c : Char) (h : isIdentCont c = true) : c ≠ NUL := by
  intro e; subst e; revert h; decide

theorem word_body (name acc rest : Str) (h : ∀ c ∈ name, isIdentCont c = true) :
    go (.word acc) (name ++ rest) = go (.word (name.reverse ++ acc)) rest := by
  induction name generalizing acc with
  | nil => simp
  | cons c cs ih =>
    have hc : isIdentCont c = true := h c (by simp)
    have hcs : ∀ d ∈ cs, isIdentCont d = true := fun d hd => h d (List.mem_cons_of_mem _ hd)
    simp only [List.cons_append]
    rw [go_cons, step_ne_nul _ _ (identCont_ne_nul c hc)]
    simp only [stepN, stepWord, hc, if_true, List.nil_append]
    rw [ih _ hcs]; simp

theorem word_end (acc r : Str) (h : identFollow r = true) :
    go (.word acc) r = .word acc.reverse :: go .top r := by
  cases r with
  | nil => simp [go_nil, finish]
  | cons c cs =>
    have hc : (isIdentCont c = false ∧ c ≠ '\'') ∧ c ≠ '&' := by simpa [identFollow] using h
    by_cases h0 : c = NUL
    · subst h0
      rw [go_cons, go_top_nul]
      simp [step, stepNul, finish]
    · rw [go_cons, step_ne_nul _ _ h0, go_top_cons c cs h0]
      simp [stepN, stepWord, hc.1.1, hc.1.2, hc.2, emitThen]

theorem topStep_ascii_table :
    ∀ n : Fin 128, isIdentStart (Char.ofNat n) = true → topStep (Char.ofNat n) = ([], .word [Char.ofNat n]) := by
  decide

theorem ne_of_toNat_lt {c d : Char} (hc : 128 ≤ c.toNat) (hd : d.toNat < 128) : c ≠ d := by
  intro e; subst e; omega

theorem topStep_nonascii (c : Char) (h : 128 ≤ c.toNat) : topStep c = ([], .word [c]) := by
  have n := fun (d : Char) (hd : d.toNat < 128) => ne_of_toNat_lt h hd
  have hs : isSpace c = false := by
    simp [isSpace, n ' ' (by decide), n '\t' (by decide), n '\n' (by decide), n '\r' (by decide),
      n '\x0c' (by decide), n '\x0b' (by decide)]
  have ho : isOpChar c = false := by
    simp [isOpChar, n '~' (by decide), n '!' (by decide), n '@' (by decide), n '#' (by decide), n '^' (by decide),
      n '&' (by decide), n '|' (by decide), n '`' (by decide), n '?' (by decide), n '+' (by decide), n '-' (by decide),
      n '*' (by decide), n '/' (by decide), n '%' (by decide), n '<' (by decide), n '>' (by decide), n '=' (by decide)]
  have hd : isDigit c = false := by
    simp only [isDigit, Bool.and_eq_false_iff, decide_eq_false_iff_not]; omega
  have hi : isIdentStart c = true := by
    simp only [isIdentStart, Bool.or_eq_true, decide_eq_true_eq]; exact Or.inr h
  simp [topStep, hs, ho, hd, hi, n '\'' (by decide), n '"' (by decide), n '$' (by decide), n '@' (by decide),
    n '-' (by decide), n '/' (by decide)]

theorem topStep_identStart (c : Char) (h : isIdentStart c = true) : topStep c = ([], .word [c]) := by
  by_cases hlt : c.toNat < 128
  · have := topStep_ascii_table ⟨c.toNat, hlt⟩
    simp only [Char.ofNat_toNat] at this
    exact this h
  · exact topStep_nonascii c (by omega)

theorem identStart_ne_nul (c : Char) (h : isIdentStart c = true) : c ≠ NUL := by
  intro e; subst e; revert h; decide

theorem lex_bare_ident (c : Char) (cs r : Str) (hc : isIdentStart c = true)
    (hcs : ∀ d ∈ cs, isIdentCont d = true) (hr : identFollow r = true) :
    lex (c :: cs ++ r) = .word (c :: cs) :: lex r := by
  unfold lex
  simp only [List.cons_append]
  rw [go_top_cons _ _ (identStart_ne_nul c hc), topStep_identStart c hc]
  simp only [List.nil_append]
  rw [word_body cs [c] r hcs, word_end _ _ hr]
  simp

theorem cypherBare_parts (s : Str) (h : cypherBare s = true) :
    ∃ c cs, s = c :: cs ∧ isIdentStart c = true ∧ ∀ d ∈ cs, isIdentCont d = true := by
  cases s with
  | nil => simp [cypherBare] at h
  | cons c cs =>
    simp only [cypherBare, Bool.and_eq_true, List.all_eq_true] at h
    exact ⟨c, cs, rfl, h.1, h.2⟩

theorem asciiIdentStart_identStart (c : Char) (h : isAsciiIdentStart c = true) : isIdentStart c = true := by
  simp only [isAsciiIdentStart, Bool.or_eq_true] at h
  simp only [isIdentStart, Bool.or_eq_true]
  exact Or.inl h

theorem asciiIdentCont_identCont (c : Char) (h : isAsciiIdentCont c = true) : isIdentCont c = true := by
  simp only [isAsciiIdentCont, Bool.or_eq_true] at h
  simp only [isIdentCont, isIdentStart, Bool.or_eq_true]
  rcases h with (h | h) | h
  · exact Or.inl (Or.inl (Or.inl (Or.inl h)))
  · exact Or.inl (Or.inl (Or.inl (Or.inr h)))
  · exact Or.inl (Or.inr h)

theorem identSafe_cypherBare (s : Str) (h : identSafe s = true) : cypherBare s = true := by
  cases s with
  | nil => simp [identSafe] at h
  | cons c cs =>
    simp only [identSafe, Bool.and_eq_true, List.all_eq_true] at h
    simp only [cypherBare, Bool.and_eq_true, List.all_eq_true]
    exact ⟨asciiIdentStart_identStart c h.1.1, fun d hd => asciiIdentCont_identCont d (h.1.2 d hd)⟩

/-- a bare symbol does not start with a back-tick, so both emitters write it verbatim -/
theorem emitIdent_bare (s : Str) (h : cypherBare s = true) : emitIdent s = s := by
  obtain ⟨c, cs, rfl, hc, _⟩ := cypherBare_parts s h
  have hne : c ≠ '`' := by intro e; subst e; revert hc; decide
  simp [emitIdent, hne]

theorem bare_in_context (pre s post : Str) (hpre : (run .top pre).2 = .top) (h : cypherBare s = true)
    (hpost : identFollow post = true) :
    lex (pre ++ s ++ post) = (run .top pre).1 ++ .word s :: lex post := by
  obtain ⟨c, cs, rfl, hc, hcs⟩ := cypherBare_parts s h
  unfold lex
  rw [List.append_assoc, go_append, hpre]
  exact congrArg _ (lex_bare_ident c cs post hc hcs hpost)

/-! ## shape -/

theorem shape_append (a b : List Tok) : shape (a ++ b) = shape a ++ shape b := by simp [shape]
theorem shape_str_cons (v : Str) (b : List Tok) : shape (.str v :: b) = .str [] :: shape b := by simp [shape, shapeTok]

/-! ## Cypher string literals -/

/-- escape letter `e` denotes character `d` (openCypher EscapedChar, the subset the decoder supports) -/
inductive EscOf : Char → Char → Prop
  | bs : EscOf '\\' '\\'
  | sq : EscOf '\'' '\''
  | dq : EscOf '"' '"'
  | b : EscOf 'b' '\x08'
  | B : EscOf 'B' '\x08'
  | f : EscOf 'f' '\x0c'
  | F : EscOf 'F' '\x0c'
  | n : EscOf 'n' '\n'
  | N : EscOf 'N' '\n'
  | r : EscOf 'r' '\r'
  | R : EscOf 'R' '\r'
  | t : EscOf 't' '\t'
  | T : EscOf 'T' '\t'

/-- literal body `b` denotes the string `v` -/
inductive BodyDen : Str → Str → Prop
  | nil : BodyDen [] []
  | lit (c : Char) (b v : Str) : c ≠ '\\' → BodyDen b v → BodyDen (c :: b) (c :: v)
  | esc (e d : Char) (b v : Str) : EscOf e d → BodyDen b v → BodyDen ('\\' :: e :: b) (d :: v)

/-- the Cypher string-literal token `raw` denotes `v` -/
def Denotes (raw v : Str) : Prop :=
  ∃ q body, (q = '\'' ∨ q = '"') ∧ raw = q :: (body ++ [q]) ∧ BodyDen body v

theorem escChar_iff (e d : Char) : escChar e = some d ↔ EscOf e d := by
  constructor
  · intro h
    unfold escChar at h
    repeat' split at h
    all_goals (first | (cases h; done) | skip)
    all_goals
      simp only [Option.some.injEq] at h
      subst h
      first
        | (subst_vars; constructor; done)
        | (rename_i hh; rcases hh with hh | hh <;> subst hh <;> constructor)
  · intro h; cases h <;> decide

theorem unesc_nil : unesc [] = .ok [] := rfl

theorem unesc_cons_ne (c : Char) (cs : Str) (h : c ≠ '\\') : unesc (c :: cs) = consOk c (unesc cs) := by
  simp [unesc, unescGo, h]

theorem unesc_bs_nil : unesc ['\\'] = .error .dangling := by
  simp [unesc, unescGo]

theorem unesc_bs_cons (e : Char) (rest : Str) :
    unesc ('\\' :: e :: rest) =
      (match escChar e with | none => .error .invalidEscape | some d => consOk d (unesc rest)) := by
  simp only [unesc, unescGo, if_true, Bool.false_eq_true, if_false]
  cases escChar e <;> rfl

theorem consOk_ok (c : Char) (r : Except DecErr Str) (v : Str) (h : consOk c r = .ok v) :
    ∃ w, r = .ok w ∧ v = c :: w := by
  cases r with
  | ok w => simp [consOk] at h; exact ⟨w, rfl, h.symm⟩
  | error x => simp [consOk] at h

theorem unesc_sound (n : Nat) : ∀ (b v : Str), b.length ≤ n → unesc b = .ok v → BodyDen b v := by
  induction n with
  | zero =>
    intro b v hl h
    cases b with
    | nil => rw [unesc_nil] at h; cases h; exact .nil
    | cons c cs => simp at hl
  | succ n ih =>
    intro b v hl h
    cases b with
    | nil => rw [unesc_nil] at h; cases h; exact .nil
    | cons c cs =>
      by_cases hc : c = '\\'
      · subst hc
        cases cs with
        | nil => rw [unesc_bs_nil] at h; cases h
        | cons e rest =>
          rw [unesc_bs_cons] at h
          cases he : escChar e with
          | none => simp [he] at h
          | some d =>
            simp only [he] at h
            obtain ⟨w, hw, rfl⟩ := consOk_ok _ _ _ h
            have hl' : rest.length ≤ n := by simp at hl; omega
            exact .esc e d rest w ((escChar_iff e d).1 he) (ih rest w hl' hw)
      · rw [unesc_cons_ne _ _ hc] at h
        obtain ⟨w, hw, rfl⟩ := consOk_ok _ _ _ h
        have hl' : cs.length ≤ n := by simp at hl; omega
        exact .lit c cs w hc (ih cs w hl' hw)

theorem unesc_iff (b v : Str) : unesc b = .ok v ↔ BodyDen b v := by
  constructor
  · exact unesc_sound b.length b v (Nat.le_refl _)
  · intro h
    induction h with
    | nil => rfl
    | lit c b v hc _ ih => rw [unesc_cons_ne _ _ hc, ih]; rfl
    | esc e d b v he _ ih => rw [unesc_bs_cons, (escChar_iff e d).2 he]; simp only; rw [ih]; rfl

theorem unesc_encBody (s : Str) : unesc (encBody s) = .ok s := by
  induction s with
  | nil => rfl
  | cons c cs ih =>
    by_cases h1 : c = '\\'
    · subst h1
      have : encBody ('\\' :: cs) = '\\' :: '\\' :: encBody cs := by simp [encBody, encC]
      rw [this, unesc_bs_cons, ih]; rfl
    · by_cases h2 : c = '\''
      · subst h2
        have : encBody ('\'' :: cs) = '\\' :: '\'' :: encBody cs := by simp [encBody, encC]
        rw [this, unesc_bs_cons, ih]; rfl
      · have : encBody (c :: cs) = c :: encBody cs := by simp [encBody, encC, h1, h2]
        rw [this, unesc_cons_ne _ _ h1, ih]; rfl

theorem utf8Len_cons (c : Char) (s : Str) : utf8Len (c :: s) = c.utf8Size + utf8Len s := by
  simp [utf8Len]

theorem utf8Len_append (a b : Str) : utf8Len (a ++ b) = utf8Len a + utf8Len b := by
  simp [utf8Len]

theorem utf8Len_wrapped (q p : Char) (body : Str) : 2 ≤ utf8Len (q :: (body ++ [p])) := by
  rw [utf8Len_cons, utf8Len_append, utf8Len_cons]
  have h1 := Char.utf8Size_pos q
  have h2 := Char.utf8Size_pos p
  omega

theorem getLast?_wrapped (q p : Char) (body : Str) : (q :: (body ++ [p])).getLast? = some p := by
  have : q :: (body ++ [p]) = (q :: body) ++ [p] := by simp
  rw [this, List.getLast?_concat]

theorem decode_wrapped (q : Char) (body : Str) (hq : q = '\'' ∨ q = '"') :
    decode (q :: (body ++ [q])) = unesc body := by
  have h2 := utf8Len_wrapped q q body
  have hl := getLast?_wrapped q q body
  unfold decode
  rw [if_neg (by omega)]
  simp only [hl]
  have : ¬ ((q ≠ '\'' ∧ q ≠ '"') ∨ some q ≠ some q) := by
    rcases hq with h | h <;> subst h <;> simp
  rw [if_neg this, List.dropLast_concat]

theorem decode_encode_aux (s : Str) : decode (encode s) = .ok s := by
  unfold encode
  rw [decode_wrapped _ _ (Or.inl rfl), unesc_encBody]

theorem decode_ok_shape (raw v : Str) (h : decode raw = .ok v) :
    ∃ q body, (q = '\'' ∨ q = '"') ∧ raw = q :: (body ++ [q]) ∧ unesc body = .ok v := by
  unfold decode at h
  split at h
  · cases h
  · rename_i hlen
    cases raw with
    | nil => cases h
    | cons q rest =>
      simp only at h
      split at h
      · cases h
      · rename_i hq
        have hq' : (q = '\'' ∨ q = '"') ∧ (q :: rest).getLast? = some q := by
          constructor
          · by_cases h1 : q = '\''
            · exact Or.inl h1
            · by_cases h2 : q = '"'
              · exact Or.inr h2
              · exact absurd (Or.inl ⟨h1, h2⟩) hq
          · by_cases h3 : (q :: rest).getLast? = some q
            · exact h3
            · exact absurd (Or.inr h3) hq
        have hne : rest ≠ [] := by
          intro e; subst e
          have : utf8Len [q] = 1 := by
            rcases hq'.1 with h1 | h1 <;> subst h1 <;> decide
          omega
        have hrest : rest = rest.dropLast ++ [rest.getLast hne] := (List.dropLast_concat_getLast hne).symm
        have hlast : rest.getLast hne = q := by
          have h1 : (q :: rest).getLast? = rest.getLast? := by
            cases rest with
            | nil => exact absurd rfl hne
            | cons a as => simp [List.getLast?_cons_cons]
          rw [h1, List.getLast?_eq_some_getLast hne] at hq'
          exact Option.some.inj hq'.2
        refine ⟨q, rest.dropLast, hq'.1, ?_, h⟩
        rw [← hlast]
        exact congrArg _ hrest

theorem decode_iff (raw v : Str) : decode raw = .ok v ↔ Denotes raw v := by
  constructor
  · intro h
    obtain ⟨q, body, hq, hraw, hb⟩ := decode_ok_shape raw v h
    exact ⟨q, body, hq, hraw, (unesc_iff body v).1 hb⟩
  · rintro ⟨q, body, hq, rfl, hb⟩
    rw [decode_wrapped q body hq]
    exact (unesc_iff body v).2 hb

/-! ## the Cypher debug comment of FromCypher -/

theorem go_lineC_nl_dashes (x : Str) : go .lineC ('\n' :: '-' :: '-' :: ' ' :: x) = go .lineC x := by
  have h1 : step .lineC '\n' = ([], .top) := by decide
  have h2 : step .top '-' = ([], .opDash []) := by decide
  have h3 : step (.opDash []) '-' = ([], .lineC) := by decide
  have h4 : step .lineC ' ' = ([], .lineC) := by decide
  rw [go_cons, h1, go_cons, h2, go_cons, h3, go_cons, h4]; rfl

theorem go_lineC_other (c : Char) (x : Str) (h0 : c ≠ NUL) (h1 : c ≠ '\n') (h2 : c ≠ '\r') :
    go .lineC (c :: x) = go .lineC x := by
  rw [go_cons, step_ne_nul _ _ h0]
  simp [stepN, isNl, h1, h2]

theorem go_lineC_nlGo (t rest : Str) (b : Bool) (h : NUL ∉ t) : go .lineC (nlGo b t ++ rest) = go .lineC rest := by
  induction t generalizing b with
  | nil => simp [nlGo]
  | cons c cs ih =>
    have hc : c ≠ NUL := fun e => h (by simp [e])
    have hcs : NUL ∉ cs := fun e => h (by simp [e])
    by_cases h1 : c = '\n'
    · subst h1
      cases b with
      | true => simp only [nlGo, if_true]; exact ih _ hcs
      | false =>
        simp only [nlGo, if_true, Bool.false_eq_true, if_false, List.cons_append]
        rw [go_lineC_nl_dashes]; exact ih _ hcs
    · by_cases h2 : c = '\r'
      · subst h2
        have : ('\r' : Char) ≠ '\n' := by decide
        simp only [nlGo, this, if_false, if_true, List.cons_append]
        rw [go_lineC_nl_dashes]; exact ih _ hcs
      · simp only [nlGo, h1, h2, if_false, List.cons_append]
        rw [go_lineC_other c _ hc h1 h2]; exact ih _ hcs

theorem lex_commentHeader (text sql : Str) (strip : Bool) (h : NUL ∉ text) :
    lex (commentHeader text strip ++ sql) = lex sql := by
  unfold lex commentHeader
  have h1 : step .top '-' = ([], .opDash []) := by decide
  have h2 : step (.opDash []) '-' = ([], .lineC) := by decide
  have h3 : step .lineC ' ' = ([], .lineC) := by decide
  have h4 : step .lineC '\n' = ([], .top) := by decide
  show go .top ('-' :: '-' :: ' ' :: ((nlGo false text ++ ['\n']) ++ sql)) = go .top sql
  rw [go_cons, h1, go_cons, h2, go_cons, h3]
  show go .lineC ((nlGo false text ++ ['\n']) ++ sql) = go .top sql
  rw [List.append_assoc, go_lineC_nlGo text _ false h]
  show go .lineC ('\n' :: sql) = go .top sql
  rw [go_cons, h4]; rfl

theorem linesCommented_nlGo (t rest : Str) (b : Bool) (hrest : linesCommented .mid rest = true) :
    linesCommented .mid (nlGo b t ++ rest) = true := by
  induction t generalizing b with
  | nil => simpa [nlGo] using hrest
  | cons c cs ih =>
    by_cases h1 : c = '\n'
    · subst h1
      cases b with
      | true => simp only [nlGo, if_true]; exact ih _
      | false =>
        simp only [nlGo, if_true, Bool.false_eq_true, if_false, List.cons_append]
        simp [linesCommented, isNl, ih]
    · by_cases h2 : c = '\r'
      · subst h2
        have : ('\r' : Char) ≠ '\n' := by decide
        simp only [nlGo, this, if_false, if_true, List.cons_append]
        simp [linesCommented, isNl, ih]
      · simp only [nlGo, h1, h2, if_false, List.cons_append]
        simp [linesCommented, isNl, h1, h2, ih]

theorem linesCommented_header (text : Str) (strip : Bool) : linesCommented .start (commentHeader text strip) = true := by
  unfold commentHeader
  simp only [linesCommented, if_true]
  have hsp : isNl ' ' = false := by decide
  simp only [hsp, Bool.false_eq_true, if_false]
  exact linesCommented_nlGo text ['\n'] false (by decide)

/-! ## numbers -/

theorem valOf_foldl (cs : Str) (a : Nat) :
    cs.foldl (fun a c => a * 10 + (c.toNat - 48)) a = a * 10 ^ cs.length + valOf cs := by
  unfold valOf
  induction cs generalizing a with
  | nil => simp
  | cons c cs ih =>
    simp only [List.foldl_cons, List.length_cons]
    rw [ih (a * 10 + (c.toNat - 48)), ih (0 * 10 + (c.toNat - 48))]
    simp only [Nat.zero_mul, Nat.zero_add, Nat.pow_succ]
    rw [Nat.add_mul, Nat.add_assoc, Nat.mul_assoc, Nat.mul_comm 10]

theorem valOf_append (a b : Str) : valOf (a ++ b) = valOf a * 10 ^ b.length + valOf b := by
  unfold valOf
  rw [List.foldl_append, valOf_foldl]
  rfl

theorem valOf_zeros (k : Nat) : valOf (List.replicate k '0') = 0 := by
  induction k with
  | zero => rfl
  | succ k ih =>
    have : List.replicate (k + 1) '0' = ['0'] ++ List.replicate k '0' := by simp [List.replicate_succ]
    have h0 : valOf ['0'] = 0 := by decide
    rw [this, valOf_append, ih, h0]; simp

theorem valOf_zeros_append (k : Nat) (x : Str) : valOf (List.replicate k '0' ++ x) = valOf x := by
  rw [valOf_append, valOf_zeros]; simp

theorem valOf_append_zeros (x : Str) (k : Nat) : valOf (x ++ List.replicate k '0') = valOf x * 10 ^ k := by
  rw [valOf_append, valOf_zeros]; simp

theorem takeWhile_nodot (xs ys : Str) (h : ∀ c ∈ xs, c ≠ '.') :
    (xs ++ '.' :: ys).takeWhile notDot = xs ∧ (xs ++ '.' :: ys).dropWhile notDot = '.' :: ys := by
  induction xs with
  | nil =>
    have : notDot '.' = false := by decide
    simp [List.takeWhile_cons, List.dropWhile_cons, this]
  | cons c cs ih =>
    have hc : notDot c = true := by simp [notDot, h c (by simp)]
    have := ih (fun d hd => h d (List.mem_cons_of_mem _ hd))
    simp only [List.cons_append, List.takeWhile_cons, List.dropWhile_cons, hc, if_true, this.1, this.2, and_self]

theorem takeWhile_nodot_all (xs : Str) (h : ∀ c ∈ xs, c ≠ '.') :
    xs.takeWhile notDot = xs ∧ xs.dropWhile notDot = [] := by
  induction xs with
  | nil => simp
  | cons c cs ih =>
    have hc : notDot c = true := by simp [notDot, h c (by simp)]
    have := ih (fun d hd => h d (List.mem_cons_of_mem _ hd))
    simp only [List.takeWhile_cons, List.dropWhile_cons, hc, if_true, this.1, this.2, and_self]

theorem digit_ne_dot (c : Char) (h : isDigit c = true) : c ≠ '.' := by
  intro e; subst e; revert h; decide

theorem decValue_int (ip : Str) (h : ∀ c ∈ ip, isDigit c = true) : decValue ip = (valOf ip * 10 ^ 0, 1) := by
  have hd := takeWhile_nodot_all ip (fun c hc => digit_ne_dot c (h c hc))
  simp [decValue, hd.1, hd.2]

theorem decValue_frac (ip fp : Str) (h : ∀ c ∈ ip, isDigit c = true) (hfp : fp ≠ []) :
    decValue (ip ++ '.' :: fp) = (valOf (ip ++ fp), 10 ^ fp.length) := by
  have hd := takeWhile_nodot ip fp (fun c hc => digit_ne_dot c (h c hc))
  have : fp.isEmpty = false := by cases fp <;> simp_all
  simp [decValue, hd.1, hd.2, this]

/-- the number token strconv writes for the digits `ds` and decimal point `dp` reads back as exactly ds × 10^(dp − n) -/
theorem decValue_renderF (ds : Str) (dp : Int) (hds : ∀ c ∈ ds, isDigit c = true) (hz : ds ≠ [] ∨ dp = 0) :
    decValue (renderF ds dp) = ratOf (valOf ds) (dp - ds.length) := by
  have hzero : ∀ k, ∀ c ∈ List.replicate k '0', isDigit c = true := by
    intro k c hc; rw [List.mem_replicate] at hc; rw [hc.2]; decide
  by_cases h1 : dp ≤ 0
  · by_cases hn : ds = []
    · subst hn
      have : dp = 0 := by rcases hz with h | h; exact absurd rfl h; exact h
      subst this
      decide
    · have hlen : 0 < ds.length := List.length_pos_iff.mpr hn
      have hfl : ((ds.length : Int) - dp).toNat ≠ 0 := by omega
      have htn : dp.toNat = 0 := by omega
      simp only [renderF, h1, if_true, hfl, if_false, htn, List.drop_zero]
      rw [decValue_frac ['0'] _ (by intro c hc; simp at hc; subst hc; decide) (by
        intro e; have := congrArg List.length e
        simp only [List.length_append, List.length_replicate, List.length_nil] at this; omega)]
      have hneg : ¬ (0 ≤ dp - (ds.length : Int)) := by omega
      simp only [ratOf, hneg, if_false]
      have hv : valOf (['0'] ++ (List.replicate (-dp).toNat '0' ++ ds)) = valOf ds := by
        have : ['0'] ++ (List.replicate (-dp).toNat '0' ++ ds) = List.replicate ((-dp).toNat + 1) '0' ++ ds := by
          simp [List.replicate_succ]
        rw [this, valOf_zeros_append]
      rw [hv]
      congr 2
      simp; omega
  · by_cases h2 : dp < ds.length
    · have hfl : ((ds.length : Int) - dp).toNat ≠ 0 := by omega
      have hpad : dp.toNat - ds.length = 0 := by omega
      have hnz : (-dp).toNat = 0 := by omega
      simp only [renderF, h1, if_false, hfl, hpad, hnz, List.replicate_zero, List.append_nil, List.nil_append]
      have htk : ∀ c ∈ ds.take dp.toNat, isDigit c = true := fun c hc => hds c (List.mem_of_mem_take hc)
      rw [decValue_frac _ _ htk (by
        intro e; have := congrArg List.length e
        simp only [List.length_drop, List.length_nil] at this; omega)]
      have hneg : ¬ (0 ≤ dp - (ds.length : Int)) := by omega
      simp only [ratOf, hneg, if_false, List.take_append_drop]
      congr 2
      simp; omega
    · have hfl : ((ds.length : Int) - dp).toNat = 0 := by omega
      simp only [renderF, h1, if_false, hfl, if_true]
      have htake : ds.take dp.toNat = ds := List.take_of_length_le (by omega)
      rw [htake]
      rw [decValue_int _ (by
        intro c hc; rw [List.mem_append] at hc
        rcases hc with hc | hc
        · exact hds c hc
        · exact hzero _ c hc)]
      have hpos : 0 ≤ dp - (ds.length : Int) := by omega
      simp only [ratOf, hpos, if_true, valOf_append_zeros, Nat.pow_zero, Nat.mul_one]
      congr 3
      omega

theorem topStep_digit_table : ∀ n : Fin 128, isDigit (Char.ofNat n) = true → topStep (Char.ofNat n) = ([], .num [Char.ofNat n]) := by
  decide

theorem topStep_digit (c : Char) (h : isDigit c = true) : topStep c = ([], .num [c]) := by
  have hlt : c.toNat < 128 := by
    simp only [isDigit, Bool.and_eq_true, decide_eq_true_eq] at h; omega
  have := topStep_digit_table ⟨c.toNat, hlt⟩
  simp only [Char.ofNat_toNat] at this
  exact this h

theorem digit_ne_nul (c : Char) (h : isDigit c = true) : c ≠ NUL := by
  intro e; subst e; revert h; decide

theorem num_body (ds acc rest : Str) (h : ∀ c ∈ ds, isDigit c = true) :
    go (.num acc) (ds ++ rest) = go (.num (ds.reverse ++ acc)) rest := by
  induction ds generalizing acc with
  | nil => simp
  | cons c cs ih =>
    have hc := h c (by simp)
    simp only [List.cons_append]
    rw [go_cons, step_ne_nul _ _ (digit_ne_nul c hc)]
    simp only [stepN, hc, if_true, List.nil_append]
    rw [ih _ (fun d hd => h d (List.mem_cons_of_mem _ hd))]; simp

theorem num_end (acc r : Str) (h : numFollow r = true) : go (.num acc) r = .num acc.reverse :: go .top r := by
  cases r with
  | nil => simp [go_nil, finish]
  | cons c cs =>
    have hc : isDigit c = false ∧ c ≠ '.' := by simpa [numFollow] using h
    by_cases h0 : c = NUL
    · subst h0
      rw [go_cons, go_top_nul]
      simp [step, stepNul, finish]
    · rw [go_cons, step_ne_nul _ _ h0, go_top_cons c cs h0]
      simp [stepN, hc.1, hc.2, emitThen]

theorem lex_digits (c : Char) (cs r : Str) (hc : isDigit c = true) (hcs : ∀ d ∈ cs, isDigit d = true)
    (hr : numFollow r = true) : lex (c :: cs ++ r) = .num (c :: cs) :: lex r := by
  unfold lex
  simp only [List.cons_append]
  rw [go_top_cons _ _ (digit_ne_nul c hc), topStep_digit c hc]
  simp only [List.nil_append]
  rw [num_body cs [c] r hcs, num_end _ _ hr]; simp

theorem lex_decimal (c : Char) (cs : Str) (f : Char) (fs r : Str) (hc : isDigit c = true) (hcs : ∀ d ∈ cs, isDigit d = true)
    (hf : isDigit f = true) (hfs : ∀ d ∈ fs, isDigit d = true) (hr : numFollow r = true) :
    lex (c :: cs ++ '.' :: f :: fs ++ r) = .num (c :: cs ++ '.' :: f :: fs) :: lex r := by
  unfold lex
  simp only [List.cons_append, List.append_assoc]
  rw [go_top_cons _ _ (digit_ne_nul c hc), topStep_digit c hc]
  simp only [List.nil_append]
  rw [num_body cs [c] _ hcs]
  have hdot : step (.num (cs.reverse ++ [c])) '.' = ([], .numDot (cs.reverse ++ [c])) := by
    rw [step_ne_nul _ _ (by decide)]; simp [stepN, isDigit]
  rw [go_cons, hdot]
  simp only [List.nil_append]
  rw [go_cons, step_ne_nul _ _ (digit_ne_nul f hf)]
  simp only [stepN, hf, if_true, List.nil_append]
  rw [num_body fs _ r hfs, num_end _ _ hr]
  simp

/-- the text strconv writes for a number is exactly ONE number token -/
theorem lex_renderF (ds : Str) (dp : Int) (r : Str) (hds : ∀ c ∈ ds, isDigit c = true) (hz : ds ≠ [] ∨ dp = 0)
    (hr : numFollow r = true) : lex (renderF ds dp ++ r) = .num (renderF ds dp) :: lex r := by
  have hzero : ∀ k, ∀ c ∈ List.replicate k '0', isDigit c = true := by
    intro k c hc; rw [List.mem_replicate] at hc; rw [hc.2]; decide
  have h0 : isDigit '0' = true := by decide
  by_cases h1 : dp ≤ 0
  · by_cases hn : ds = []
    · subst hn
      have : dp = 0 := by rcases hz with h | h; exact absurd rfl h; exact h
      subst this
      show lex ('0' :: [] ++ r) = _
      exact lex_digits '0' [] r h0 (by simp) hr
    · have hlen : 0 < ds.length := List.length_pos_iff.mpr hn
      have hfl : ((ds.length : Int) - dp).toNat ≠ 0 := by omega
      have htn : dp.toNat = 0 := by omega
      simp only [renderF, h1, if_true, hfl, if_false, htn, List.drop_zero]
      obtain ⟨f, fs, hfeq⟩ : ∃ f fs, List.replicate (-dp).toNat '0' ++ ds = f :: fs := by
        cases hrep : List.replicate (-dp).toNat '0' ++ ds with
        | nil =>
          have := congrArg List.length hrep
          simp only [List.length_append, List.length_replicate, List.length_nil] at this; omega
        | cons f fs => exact ⟨f, fs, rfl⟩
      have hall : ∀ d ∈ f :: fs, isDigit d = true := by
        rw [← hfeq]; intro d hd; rw [List.mem_append] at hd
        rcases hd with hd | hd
        · exact hzero _ d hd
        · exact hds d hd
      rw [hfeq]
      exact lex_decimal '0' [] f fs r h0 (by simp) (hall f (by simp)) (fun d hd => hall d (List.mem_cons_of_mem _ hd)) hr
  · have hdp : 0 < dp.toNat := by omega
    by_cases h2 : dp < ds.length
    · have hfl : ((ds.length : Int) - dp).toNat ≠ 0 := by omega
      have hpad : dp.toNat - ds.length = 0 := by omega
      have hnz : (-dp).toNat = 0 := by omega
      simp only [renderF, h1, if_false, hfl, hpad, hnz, List.replicate_zero, List.append_nil, List.nil_append]
      obtain ⟨c, cs, hceq⟩ : ∃ c cs, ds.take dp.toNat = c :: cs := by
        cases ht : ds.take dp.toNat with
        | nil =>
          have := congrArg List.length ht
          simp only [List.length_take, List.length_nil] at this; omega
        | cons c cs => exact ⟨c, cs, rfl⟩
      obtain ⟨f, fs, hfeq⟩ : ∃ f fs, ds.drop dp.toNat = f :: fs := by
        cases ht : ds.drop dp.toNat with
        | nil =>
          have := congrArg List.length ht
          simp only [List.length_drop, List.length_nil] at this; omega
        | cons f fs => exact ⟨f, fs, rfl⟩
      have hallc : ∀ d ∈ c :: cs, isDigit d = true := by rw [← hceq]; exact fun d hd => hds d (List.mem_of_mem_take hd)
      have hallf : ∀ d ∈ f :: fs, isDigit d = true := by rw [← hfeq]; exact fun d hd => hds d (List.mem_of_mem_drop hd)
      rw [hceq, hfeq]
      exact lex_decimal c cs f fs r (hallc c (by simp)) (fun d hd => hallc d (List.mem_cons_of_mem _ hd))
        (hallf f (by simp)) (fun d hd => hallf d (List.mem_cons_of_mem _ hd)) hr
    · have hfl : ((ds.length : Int) - dp).toNat = 0 := by omega
      simp only [renderF, h1, if_false, hfl, if_true]
      have htake : ds.take dp.toNat = ds := List.take_of_length_le (by omega)
      rw [htake]
      have hn : ds ≠ [] := by
        intro e; subst e; rcases hz with h | h
        · exact h rfl
        · subst h; simp at h1
      obtain ⟨c, cs, rfl⟩ : ∃ c cs, ds = c :: cs := by
        cases ds with
        | nil => exact absurd rfl hn
        | cons c cs => exact ⟨c, cs, rfl⟩
      have hall : ∀ d ∈ cs ++ List.replicate (dp.toNat - (c :: cs).length) '0', isDigit d = true := by
        intro d hd; rw [List.mem_append] at hd
        rcases hd with hd | hd
        · exact hds d (List.mem_cons_of_mem _ hd)
        · exact hzero _ d hd
      have := lex_digits c (cs ++ List.replicate (dp.toNat - (c :: cs).length) '0') r (hds c (by simp)) hall hr
      simpa [List.cons_append, List.append_assoc] using this

/-! ## LIKE patterns -/

theorem likeLiteral_likeEsc (s : Str) : likeLiteral (likeEsc s) = some s := by
  unfold likeLiteral
  induction s with
  | nil => rfl
  | cons c cs ih =>
    by_cases h : c = '\\' ∨ c = '%' ∨ c = '_'
    · simp only [likeEsc, h, if_true]
      simp [likeLitGo, ih]
    · simp only [likeEsc, h, if_false]
      have h1 : c ≠ '\\' := fun e => h (Or.inl e)
      have h2 : ¬ (c = '%' ∨ c = '_') := fun e => h (Or.inr e)
      simp [likeLitGo, h1, h2, ih]

/-! ## property keys -/

theorem unBt_cons_ne (c : Char) (l : Str) (h : c ≠ '`') : unBt (c :: l) = c :: unBt l := by
  cases l with
  | nil => simp [unBt]
  | cons d ds => simp [unBt, h]

theorem unBt_dblBt (s : Str) : unBt (dblBt s) = s := by
  induction s with
  | nil => rfl
  | cons c cs ih =>
    by_cases h : c = '`'
    · subst h; simp [dblBt, unBt, ih]
    · simp only [dblBt, h, if_false]
      rw [unBt_cons_ne _ _ h, ih]

theorem unescapeKey_escapeKeyBt_aux (s : Str) : unescapeKey (escapeKeyBt s) = s := by
  unfold escapeKeyBt unescapeKey
  have h2 := utf8Len_wrapped '`' '`' (dblBt s)
  have hl := getLast?_wrapped '`' '`' (dblBt s)
  simp only [hl]
  rw [if_pos ⟨h2, trivial, trivial⟩, List.dropLast_concat, unBt_dblBt]

/-- `formatIdentifier` on the back-ticked token of `name` writes `"name"` with `"` doubled -/
theorem emitIdent_bt (name : Str) : emitIdent (escapeKeyBt name) = qQuote name := by
  unfold escapeKeyBt emitIdent
  have h2 := utf8Len_wrapped '`' '`' (dblBt name)
  have hl := getLast?_wrapped '`' '`' (dblBt name)
  simp only [hl]
  rw [if_pos ⟨h2, trivial, trivial⟩, List.dropLast_concat, unBt_dblBt]

/-! ## a whole statement with any number of user-text positions -/

theorem wsFree_cont (t r : Str) (nl : Bool) (h : wsFree nl t = true) : wsCont nl (t ++ r) = false := by
  induction t generalizing nl with
  | nil => simp [wsFree] at h
  | cons c cs ih =>
    by_cases hq : c = '\''
    · subst hq
      have : nl = false := by simpa [wsFree] using h
      subst this; simp [wsCont]
    · by_cases h0 : c = NUL
      · subst h0; simp [wsCont, hq]
      · by_cases hs : isSpace c = true
        · have h' : wsFree (nl || isNl c) cs = true := by simpa [wsFree, hq, h0, hs] using h
          simp only [List.cons_append, wsCont, hq, h0, hs, if_false, if_true]
          exact ih _ h'
        · simp [wsCont, hq, h0, hs]

theorem contFree_cont (t r : Str) (h : contFree t = true) : contQuote (t ++ r) = false := by
  cases t with
  | nil => simp [contFree] at h
  | cons c cs =>
    by_cases hq : c = '\''
    · subst hq; simp [contFree] at h
    · by_cases h0 : c = NUL
      · subst h0; simp [contQuote, hq]
      · by_cases hs : isSpace c = true
        · have h' : wsFree (isNl c) cs = true := by simpa [contFree, hq, h0, hs] using h
          simp only [List.cons_append, contQuote, hq, h0, hs, if_false, if_true]
          exact wsFree_cont cs r _ h'
        · simp [contQuote, hq, h0, hs]

theorem nulFree_iff (s : Str) (h : nulFree s = true) : NUL ∉ s := by
  intro hm
  simp [nulFree, List.contains_iff_mem, hm] at h

theorem renderSegs_cons (x : Seg) (xs : List Seg) : renderSegs (x :: xs) = x.render ++ renderSegs xs := by
  simp [renderSegs]

theorem toksOfSegs_cons (x : Seg) (xs : List Seg) : toksOfSegs (x :: xs) = x.toks ++ toksOfSegs xs := by
  simp [toksOfSegs]

/-- the tokens of a well-formed statement are the tokens of the formatter's own text with exactly one token per
user-text position, whatever the user values are and however many positions there are -/
theorem lex_renderSegs (segs : List Seg) (h : wfSegs segs = true) : lex (renderSegs segs) = toksOfSegs segs := by
  induction segs with
  | nil => rfl
  | cons x xs ih =>
    rw [renderSegs_cons, toksOfSegs_cons]
    cases x with
    | text t =>
      simp only [wfSegs, Bool.and_eq_true, beq_iff_eq] at h
      simp only [Seg.render, Seg.toks]
      unfold lex
      rw [go_append, h.1]
      exact congrArg _ (ih h.2)
    | lit v =>
      cases xs with
      | nil => simp [wfSegs] at h
      | cons y ys =>
        cases y with
        | text t =>
          simp only [wfSegs, Bool.and_eq_true] at h
          have hcont : contQuote (renderSegs (Seg.text t :: ys)) = false := by
            rw [renderSegs_cons]; exact contFree_cont t _ h.1.2
          simp only [Seg.render, Seg.toks]
          have h2 : wfSegs (Seg.text t :: ys) = true := by simp only [wfSegs, Bool.and_eq_true]; exact h.2
          rw [lex_pgQuote v _ (nulFree_iff v h.1.1) hcont, ih h2]; rfl
        | _ => simp [wfSegs] at h
    | bare n =>
      cases xs with
      | nil => simp [wfSegs] at h
      | cons y ys =>
        cases y with
        | text t =>
          simp only [wfSegs, Bool.and_eq_true] at h
          have hfol : identFollow (renderSegs (Seg.text t :: ys)) = true := by
            rw [renderSegs_cons]
            cases t with
            | nil => simp at h
            | cons c cs => simpa [Seg.render, identFollow] using h.1.2
          simp only [Seg.render, Seg.toks]
          have := bare_in_context [] n _ rfl h.1.1 hfol
          rw [emitIdent_bare n h.1.1]
          simp only [List.nil_append] at this
          have h2 : wfSegs (Seg.text t :: ys) = true := by simp only [wfSegs, Bool.and_eq_true]; exact h.2
          rw [this, ih h2]; rfl
        | _ => simp [wfSegs] at h
    | bt n =>
      cases xs with
      | nil => simp [wfSegs] at h
      | cons y ys =>
        cases y with
        | text t =>
          simp only [wfSegs, Bool.and_eq_true] at h
          have hfol : contDQ (renderSegs (Seg.text t :: ys)) = false := by
            rw [renderSegs_cons]
            cases t with
            | nil => simp at h
            | cons c cs =>
              have hc : c ≠ '"' := by simpa using h.1.2
              simp only [Seg.render, List.cons_append]
              unfold contDQ
              split
              · rename_i heq; cases heq; exact absurd rfl hc
              · rfl
          simp only [Seg.render, Seg.toks]
          have h2 : wfSegs (Seg.text t :: ys) = true := by simp only [wfSegs, Bool.and_eq_true]; exact h.2
          rw [emitIdent_bt, lex_qQuote n _ (nulFree_iff n h.1.1) hfol, ih h2]; rfl
        | _ => simp [wfSegs] at h

end Dawgs.C04
