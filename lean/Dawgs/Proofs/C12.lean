/- Helper lemmas for C12 (no property statements here; those live in Props/C12.lean). -/
import Dawgs.Spec.C12
set_option linter.unusedSimpArgs false
set_option linter.unusedVariables false
namespace Dawgs.C12

/-! ### association lists -/

@[simp] theorem lookup_nil (k : Key) : lookup [] k = none := rfl
theorem lookup_cons (p : Key × Val) (m : KV) (k : Key) :
    lookup (p :: m) k = if p.1 = k then some p.2 else lookup m k := rfl
@[simp] theorem erase_nil (k : Key) : erase [] k = [] := rfl
theorem erase_cons (p : Key × Val) (m : KV) (k : Key) :
    erase (p :: m) k = if p.1 = k then erase m k else p :: erase m k := rfl

theorem lookup_erase (m : KV) (k k' : Key) :
    lookup (erase m k) k' = if k = k' then none else lookup m k' := by
  induction m with
  | nil => simp
  | cons p m ih =>
    rw [erase_cons]
    by_cases h : p.1 = k
    · rw [if_pos h, ih, lookup_cons]
      by_cases h' : k = k'
      · simp [h']
      · have : p.1 ≠ k' := by rw [h]; exact h'
        simp [h', this]
    · rw [if_neg h, lookup_cons, ih, lookup_cons]
      by_cases h' : k = k'
      · have : p.1 ≠ k' := by rw [← h']; exact h
        simp [h', this]
      · simp [h']

theorem lookup_insert (m : KV) (k : Key) (v : Val) (k' : Key) :
    lookup (insert m k v) k' = if k = k' then some v else lookup m k' := by
  unfold insert
  rw [lookup_cons, lookup_erase]
  by_cases h : k = k' <;> simp [h]

@[simp] theorem overlay_nil (m : KV) : overlay m [] = m := rfl
theorem overlay_cons (m : KV) (p : Key × Val) (o : KV) : overlay m (p :: o) = insert (overlay m o) p.1 p.2 := rfl

theorem lookup_overlay (m o : KV) (k : Key) :
    lookup (overlay m o) k = match lookup o k with | some v => some v | none => lookup m k := by
  induction o with
  | nil => simp
  | cons p o ih =>
    rw [overlay_cons, lookup_insert, lookup_cons]
    by_cases h : p.1 = k
    · simp [h]
    · simp [h, ih]

@[simp] theorem eraseAll_nil (m : KV) : eraseAll m [] = m := rfl
theorem eraseAll_cons (m : KV) (k : Key) (ks : List Key) : eraseAll m (k :: ks) = eraseAll (erase m k) ks := rfl

theorem lookup_eraseAll (m : KV) (ks : List Key) (k : Key) :
    lookup (eraseAll m ks) k = if k ∈ ks then none else lookup m k := by
  induction ks generalizing m with
  | nil => simp
  | cons a ks ih =>
    rw [eraseAll_cons, ih, lookup_erase]
    by_cases h : k ∈ ks
    · simp [h]
    · by_cases h' : a = k
      · simp [h, h']
      · have : ¬ k = a := fun e => h' e.symm
        simp [h, h', this]

theorem eraseAll_nil_left (ks : List Key) : eraseAll [] ks = [] := by
  induction ks with
  | nil => rfl
  | cons a ks ih => rw [eraseAll_cons, erase_nil, ih]

@[simp] theorem keysOf_nil : keysOf [] = [] := rfl
theorem keysOf_cons (p : Key × Val) (m : KV) : keysOf (p :: m) = p.1 :: keysOf m := rfl

theorem lookup_eq_none_iff (m : KV) (k : Key) : lookup m k = none ↔ k ∉ keysOf m := by
  induction m with
  | nil => simp
  | cons p m ih =>
    rw [lookup_cons, keysOf_cons, List.mem_cons, not_or]
    by_cases h : p.1 = k
    · simp [h]
    · simp only [h, if_false, ih]
      exact ⟨fun h' => ⟨fun e => h e.symm, h'⟩, fun h' => h'.2⟩

theorem lookup_ne_none_iff (m : KV) (k : Key) : lookup m k ≠ none ↔ k ∈ keysOf m := by
  rw [Ne, lookup_eq_none_iff]; exact Decidable.not_not

/-! ### sets -/

theorem mem_sadd (s : List Key) (k x : Key) : x ∈ sadd s k ↔ x ∈ s ∨ x = k := by
  unfold sadd
  by_cases h : k ∈ s
  · rw [if_pos h]; exact ⟨Or.inl, fun h' => h'.elim id (fun e => e ▸ h)⟩
  · rw [if_neg h, List.mem_cons]; exact ⟨fun h' => h'.elim Or.inr Or.inl, fun h' => h'.elim Or.inr Or.inl⟩

@[simp] theorem srem_nil (k : Key) : srem [] k = [] := rfl
theorem srem_cons (a : Key) (s : List Key) (k : Key) : srem (a :: s) k = if a = k then srem s k else a :: srem s k := rfl

theorem mem_srem (s : List Key) (k x : Key) : x ∈ srem s k ↔ x ∈ s ∧ x ≠ k := by
  induction s with
  | nil => simp
  | cons a s ih =>
    rw [srem_cons]
    by_cases h : a = k
    · rw [if_pos h, ih, List.mem_cons]
      constructor
      · exact fun h' => ⟨Or.inr h'.1, h'.2⟩
      · rintro ⟨h1 | h1, h2⟩
        · exact absurd (h1.trans h) h2
        · exact ⟨h1, h2⟩
    · rw [if_neg h, List.mem_cons, ih, List.mem_cons]
      constructor
      · rintro (h1 | h1)
        · exact ⟨Or.inl h1, h1 ▸ h⟩
        · exact ⟨Or.inr h1.1, h1.2⟩
      · rintro ⟨h1 | h1, h2⟩
        · exact Or.inl h1
        · exact Or.inr ⟨h1, h2⟩

@[simp] theorem saddAll_nil (s : List Key) : saddAll s [] = s := rfl
theorem saddAll_cons (s : List Key) (k : Key) (ks : List Key) : saddAll s (k :: ks) = saddAll (sadd s k) ks := rfl
@[simp] theorem sremAll_nil (s : List Key) : sremAll s [] = s := rfl
theorem sremAll_cons (s : List Key) (k : Key) (ks : List Key) : sremAll s (k :: ks) = sremAll (srem s k) ks := rfl

theorem mem_saddAll (s ks : List Key) (x : Key) : x ∈ saddAll s ks ↔ x ∈ s ∨ x ∈ ks := by
  induction ks generalizing s with
  | nil => simp
  | cons a ks ih =>
    rw [saddAll_cons, ih, mem_sadd, List.mem_cons]
    constructor
    · rintro ((h | h) | h)
      · exact Or.inl h
      · exact Or.inr (Or.inl h)
      · exact Or.inr (Or.inr h)
    · rintro (h | h | h)
      · exact Or.inl (Or.inl h)
      · exact Or.inl (Or.inr h)
      · exact Or.inr h

theorem mem_sremAll (s ks : List Key) (x : Key) : x ∈ sremAll s ks ↔ x ∈ s ∧ x ∉ ks := by
  induction ks generalizing s with
  | nil => simp
  | cons a ks ih =>
    rw [sremAll_cons, ih, mem_srem, List.mem_cons, not_or]
    exact ⟨fun h => ⟨h.1.1, h.1.2, h.2⟩, fun h => ⟨⟨h.1, h.2.1⟩, h.2.2⟩⟩

theorem sremAll_nil_left (ks : List Key) : sremAll [] ks = [] := by
  induction ks with
  | nil => rfl
  | cons a ks ih => rw [sremAll_cons, srem_nil, ih]

/-! ### Properties: the abstract view `(m, mod, del)` of every operation -/

@[simp] theorem load_m (st : Option KV) : (Props.load st).m = st.getD [] := rfl
@[simp] theorem load_mod (st : Option KV) : (Props.load st).mod = [] := rfl
@[simp] theorem load_del (st : Option KV) : (Props.load st).del = [] := rfl

theorem set_m (s : Props) (k : Key) (v : Val) : (s.set k v).m = insert s.m k v := by
  unfold Props.set Props.m setMap; cases s.map <;> rfl
theorem set_mod (s : Props) (k : Key) (v : Val) : (s.set k v).mod = sadd s.mod k := by
  unfold Props.set Props.mod addKey; cases s.modified <;> simp [sadd]
theorem set_del (s : Props) (k : Key) (v : Val) : (s.set k v).del = srem s.del k := by
  unfold Props.set Props.del remKey; cases s.deleted <;> rfl

theorem delete_m (s : Props) (k : Key) : (s.delete k).m = erase s.m k := by
  unfold Props.delete Props.m eraseMap; cases s.map <;> rfl
theorem delete_mod (s : Props) (k : Key) : (s.delete k).mod = srem s.mod k := by
  unfold Props.delete Props.mod remKey; cases s.modified <;> rfl
theorem delete_del (s : Props) (k : Key) : (s.delete k).del = sadd s.del k := by
  unfold Props.delete Props.del addKey; cases s.deleted <;> simp [sadd]

theorem clone_eq (s : Props) : s.clone = s := by
  cases s with
  | mk a b c => unfold Props.clone; cases a <;> cases b <;> cases c <;> rfl

theorem allocIf_getD {α : Type} (b : Bool) (x : Option (List α)) : (allocIf b x).getD [] = x.getD [] := by
  unfold allocIf; cases x <;> cases b <;> rfl

theorem mergeMap_getD (sm : Option KV) (om : KV) : (mergeMap sm om).getD [] = overlay (sm.getD []) om := by
  unfold mergeMap allocIf
  cases sm with
  | some m => rfl
  | none => cases om <;> rfl

theorem map_getD_sremAll (x : Option (List Key)) (ks : List Key) :
    (x.map (fun y => sremAll y ks)).getD [] = sremAll (x.getD []) ks := by
  cases x with
  | some y => rfl
  | none => exact (sremAll_nil_left ks).symm

theorem allocIf_map_saddAll (x : Option (List Key)) (ks : List Key) :
    ((allocIf (!ks.isEmpty) x).map (fun y => saddAll y ks)).getD [] = saddAll (x.getD []) ks := by
  unfold allocIf
  cases x with
  | some y => rfl
  | none => cases ks <;> rfl

theorem map_getD_eraseAll (x : Option KV) (ks : List Key) :
    (x.map (fun y => eraseAll y ks)).getD [] = eraseAll (x.getD []) ks := by
  cases x with
  | some y => rfl
  | none => exact (eraseAll_nil_left ks).symm

theorem mergeOld_m (s o : Props) : (s.mergeOld o).m = eraseAll (overlay s.m o.m) o.del := by
  show ((mergeMap s.map o.m).map (fun m => eraseAll m o.del)).getD [] = _
  rw [map_getD_eraseAll, mergeMap_getD]; rfl
theorem mergeOld_mod (s o : Props) : (s.mergeOld o).mod = sremAll (saddAll s.mod o.mod) o.del := by
  show (((allocIf (!o.mod.isEmpty) s.modified).map (fun x => saddAll x o.mod)).map (fun x => sremAll x o.del)).getD [] = _
  rw [map_getD_sremAll, allocIf_map_saddAll]; rfl
theorem mergeOld_del (s o : Props) : (s.mergeOld o).del = saddAll (sremAll s.del o.mod) o.del := by
  show ((allocIf (!o.del.isEmpty) (s.deleted.map (fun x => sremAll x o.mod))).map (fun x => saddAll x o.del)).getD [] = _
  rw [allocIf_map_saddAll, map_getD_sremAll]; rfl

theorem merge_m (s o : Props) : (s.merge o).m = eraseAll (overlay s.m o.m) o.del := by
  show ((mergeMap s.map o.m).map (fun m => eraseAll m o.del)).getD [] = _
  rw [map_getD_eraseAll, mergeMap_getD]; rfl
theorem merge_mod (s o : Props) : (s.merge o).mod = sremAll (saddAll s.mod o.mod) o.del := by
  show (((allocIf (!o.mod.isEmpty) s.modified).map (fun x => saddAll x o.mod)).map (fun x => sremAll x o.del)).getD [] = _
  rw [map_getD_sremAll, allocIf_map_saddAll]; rfl
theorem merge_del (s o : Props) :
    (s.merge o).del = saddAll (sremAll (sremAll s.del (keysOf o.m)) o.mod) o.del := by
  show ((allocIf (!o.del.isEmpty) ((s.deleted.map (fun x => sremAll x (keysOf o.m))).map (fun x => sremAll x o.mod))).map
      (fun x => saddAll x o.del)).getD [] = _
  rw [allocIf_map_saddAll, map_getD_sremAll, map_getD_sremAll]; rfl

theorem getOrDefault_eq (s : Props) (k : Key) (d : Val) : s.getOrDefault k d = s.getWithFallback k d [] := by
  unfold Props.getOrDefault Props.getWithFallback orDefault
  cases s.map with
  | none => rfl
  | some m => cases lookup m k <;> rfl

/-! ### the invariant is preserved by every Properties operation -/

theorem Inv.toWeak {L : KV} {s : Props} (h : Inv L s) : WeakInv L s := ⟨h.disj, h.modDom, h.untouched⟩

theorem inv_load (st : Option KV) : Inv (st.getD []) (Props.load st) :=
  ⟨by simp, by simp, by simp, by simp⟩

theorem inv_set {L : KV} {s : Props} (h : Inv L s) (k : Key) (v : Val) : Inv L (s.set k v) := by
  have hd := h.disj; have hm := h.modDom; have he := h.delDom; have hu := h.untouched
  constructor
  · intro x; rw [set_mod, set_del, mem_sadd, mem_srem]; grind
  · intro x; rw [set_mod, set_m, mem_sadd, lookup_insert]; grind
  · intro x; rw [set_del, set_m, mem_srem, lookup_insert]; grind
  · intro x; rw [set_mod, set_del, set_m, mem_sadd, mem_srem, lookup_insert]; grind

theorem inv_delete {L : KV} {s : Props} (h : Inv L s) (k : Key) : Inv L (s.delete k) := by
  have hd := h.disj; have hm := h.modDom; have he := h.delDom; have hu := h.untouched
  constructor
  · intro x; rw [delete_mod, delete_del, mem_sadd, mem_srem]; grind
  · intro x; rw [delete_mod, delete_m, mem_srem, lookup_erase]; grind
  · intro x; rw [delete_del, delete_m, mem_sadd, lookup_erase]; grind
  · intro x; rw [delete_mod, delete_del, delete_m, mem_sadd, mem_srem, lookup_erase]; grind

theorem weak_set {L : KV} {s : Props} (h : WeakInv L s) (k : Key) (v : Val) : WeakInv L (s.set k v) := by
  have hd := h.disj; have hm := h.modDom; have hu := h.untouched
  constructor
  · intro x; rw [set_mod, set_del, mem_sadd, mem_srem]; grind
  · intro x; rw [set_mod, set_m, mem_sadd, lookup_insert]; grind
  · intro x; rw [set_mod, set_del, set_m, mem_sadd, mem_srem, lookup_insert]; grind

theorem weak_delete {L : KV} {s : Props} (h : WeakInv L s) (k : Key) : WeakInv L (s.delete k) := by
  have hd := h.disj; have hm := h.modDom; have hu := h.untouched
  constructor
  · intro x; rw [delete_mod, delete_del, mem_sadd, mem_srem]; grind
  · intro x; rw [delete_mod, delete_m, mem_srem, lookup_erase]; grind
  · intro x; rw [delete_mod, delete_del, delete_m, mem_sadd, mem_srem, lookup_erase]; grind

theorem setAll_nil (s : Props) : s.setAll [] = s := rfl
theorem setAll_cons (s : Props) (p : Key × Val) (kvs : KV) : s.setAll (p :: kvs) = (s.set p.1 p.2).setAll kvs := rfl

theorem inv_setAll {L : KV} {s : Props} (h : Inv L s) (kvs : KV) : Inv L (s.setAll kvs) := by
  induction kvs generalizing s with
  | nil => exact h
  | cons p kvs ih => rw [setAll_cons]; exact ih (inv_set h p.1 p.2)

theorem weak_setAll {L : KV} {s : Props} (h : WeakInv L s) (kvs : KV) : WeakInv L (s.setAll kvs) := by
  induction kvs generalizing s with
  | nil => exact h
  | cons p kvs ih => rw [setAll_cons]; exact ih (weak_set h p.1 p.2)

/-- after `SetAll(kvs)` every listed key holds the value of its last listing, is tracked as modified, not deleted -/
theorem setAll_post (s : Props) (kvs : KV) (k : Key) (hk : k ∈ keysOf kvs) :
    lookup (s.setAll kvs).m k ≠ none ∧ k ∈ (s.setAll kvs).mod ∧ k ∉ (s.setAll kvs).del := by
  induction kvs generalizing s with
  | nil => simp at hk
  | cons p kvs ih =>
    rw [setAll_cons]
    by_cases h : k ∈ keysOf kvs
    · exact ih _ h
    · have hk' : k = p.1 := by
        rw [keysOf_cons, List.mem_cons] at hk; exact hk.resolve_right h
      subst hk'
      -- the remaining sets do not touch `p.1`
      have frame : ∀ (t : Props) (kvs : KV), p.1 ∉ keysOf kvs →
          lookup (t.setAll kvs).m p.1 = lookup t.m p.1 ∧ (p.1 ∈ (t.setAll kvs).mod ↔ p.1 ∈ t.mod) ∧
          (p.1 ∈ (t.setAll kvs).del ↔ p.1 ∈ t.del) := by
        intro t kvs
        induction kvs generalizing t with
        | nil => intro _; exact ⟨rfl, Iff.rfl, Iff.rfl⟩
        | cons q kvs ih2 =>
          intro hq
          rw [keysOf_cons, List.mem_cons, not_or] at hq
          rw [setAll_cons]
          obtain ⟨a, b, c⟩ := ih2 (t.set q.1 q.2) hq.2
          have hne : ¬ q.1 = p.1 := fun e => hq.1 e.symm
          refine ⟨?_, ?_, ?_⟩
          · rw [a, set_m, lookup_insert, if_neg hne]
          · rw [b, set_mod, mem_sadd]; exact ⟨fun h => h.resolve_right hq.1, Or.inl⟩
          · rw [c, set_del, mem_srem]; exact ⟨fun h => h.1, fun h => ⟨h, hq.1⟩⟩
      obtain ⟨a, b, c⟩ := frame (s.set p.1 p.2) kvs h
      refine ⟨?_, ?_, ?_⟩
      · rw [a, set_m, lookup_insert]; simp
      · rw [b, set_mod, mem_sadd]; exact Or.inr rfl
      · rw [c, set_del, mem_srem]; exact fun h => h.2 rfl

/-- `Merge` preserves the invariant, in general form: the receiver tracked relative to `Ls`, the other entity relative to
`Lo`; the result is tracked relative to `Ls` overlaid with `Lo` (both `L`: `L` again; a detached entity has `[]`). -/
theorem inv_merge_gen {Ls Lo : KV} {s o : Props} (h : Inv Ls s) (ho : Inv Lo o) : Inv (overlay Ls Lo) (s.merge o) := by
  have hd := h.disj; have hm := h.modDom; have he := h.delDom; have hu := h.untouched
  have od := ho.disj; have om := ho.modDom; have oe := ho.delDom; have ou := ho.untouched
  constructor
  · intro x
    rw [merge_mod, merge_del, mem_sremAll, mem_saddAll, mem_saddAll, mem_sremAll, mem_sremAll]
    grind
  · intro x
    rw [merge_mod, merge_m, mem_sremAll, mem_saddAll, lookup_eraseAll, lookup_overlay]
    intro hx
    rw [if_neg hx.2]
    cases hlo : lookup o.m x with
    | some v => simp
    | none =>
      simp only
      rcases hx.1 with h1 | h1
      · exact hm x h1
      · exact absurd hlo (om x h1)
  · intro x
    rw [merge_del, merge_m, mem_saddAll, mem_sremAll, mem_sremAll, lookup_eraseAll, lookup_overlay]
    intro hx
    by_cases hxd : x ∈ o.del
    · rw [if_pos hxd]
    · rw [if_neg hxd]
      have hx' := hx.resolve_right hxd
      have : lookup o.m x = none := (lookup_eq_none_iff _ _).2 hx'.1.2
      rw [this]; exact he x hx'.1.1
  · intro x
    rw [merge_mod, merge_del, merge_m, mem_sremAll, mem_saddAll, mem_saddAll, mem_sremAll, mem_sremAll,
      lookup_eraseAll, lookup_overlay]
    intro h1 h2
    have hxd : x ∉ o.del := fun hh => h2 (Or.inr hh)
    rw [if_neg hxd]
    have hxm : x ∉ o.mod := fun hh => h1 ⟨Or.inr hh, hxd⟩
    have hsm : x ∉ s.mod := fun hh => h1 ⟨Or.inl hh, hxd⟩
    have hol := ou x hxm hxd
    rw [lookup_overlay]
    cases hlo : lookup o.m x with
    | some v =>
      simp only
      rw [← hol, hlo]
    | none =>
      simp only
      have hxk : x ∉ keysOf o.m := (lookup_eq_none_iff _ _).1 hlo
      have hsd : x ∉ s.del := fun hh => h2 (Or.inl ⟨⟨hh, hxk⟩, hxm⟩)
      rw [← hol, hlo]
      exact hu x hsm hsd

theorem inv_congr {L L' : KV} {s : Props} (hl : ∀ k, lookup L k = lookup L' k) (h : Inv L s) : Inv L' s :=
  ⟨h.disj, h.modDom, h.delDom, fun k hm hd => (h.untouched k hm hd).trans (hl k)⟩

theorem weak_congr {L L' : KV} {s : Props} (hl : ∀ k, lookup L k = lookup L' k) (h : WeakInv L s) : WeakInv L' s :=
  ⟨h.disj, h.modDom, fun k hm hd => (h.untouched k hm hd).trans (hl k)⟩

theorem lookup_overlay_self (L : KV) (k : Key) : lookup (overlay L L) k = lookup L k := by
  rw [lookup_overlay]; cases lookup L k <;> rfl

/-- `Merge` preserves the invariant (both entities from the same loaded state) -/
theorem inv_merge {L : KV} {s o : Props} (h : Inv L s) (ho : Inv L o) : Inv L (s.merge o) :=
  inv_congr (lookup_overlay_self L) (inv_merge_gen h ho)

/-- the merge before commit 179da67 preserves every clause except `Deleted ∩ dom Map = ∅` -/
theorem weak_mergeOld {L : KV} {s o : Props} (h : WeakInv L s) (ho : WeakInv L o) : WeakInv L (s.mergeOld o) := by
  have hd := h.disj; have hm := h.modDom; have hu := h.untouched
  have od := ho.disj; have om := ho.modDom; have ou := ho.untouched
  constructor
  · intro x
    rw [mergeOld_mod, mergeOld_del, mem_sremAll, mem_saddAll, mem_saddAll, mem_sremAll]
    grind
  · intro x
    rw [mergeOld_mod, mergeOld_m, mem_sremAll, mem_saddAll, lookup_eraseAll, lookup_overlay]
    intro hx
    rw [if_neg hx.2]
    cases hlo : lookup o.m x with
    | some v => simp
    | none =>
      simp only
      rcases hx.1 with h1 | h1
      · exact hm x h1
      · exact absurd hlo (om x h1)
  · intro x
    rw [mergeOld_mod, mergeOld_del, mergeOld_m, mem_sremAll, mem_saddAll, mem_saddAll, mem_sremAll, lookup_eraseAll, lookup_overlay]
    intro h1 h2
    have hxd : x ∉ o.del := fun hh => h2 (Or.inr hh)
    rw [if_neg hxd]
    have hxm : x ∉ o.mod := fun hh => h1 ⟨Or.inr hh, hxd⟩
    have hsm : x ∉ s.mod := fun hh => h1 ⟨Or.inl hh, hxd⟩
    have hsd : x ∉ s.del := fun hh => h2 (Or.inl ⟨hh, hxm⟩)
    cases hlo : lookup o.m x with
    | some v => simp only; rw [← hlo]; exact ou x hxm hxd
    | none => simp only; exact hu x hsm hsd

/-- the exact condition under which the old merge keeps `Deleted ∩ dom Map = ∅` -/
def MergeSafe (s o : Props) : Prop := ∀ k, k ∈ s.del → lookup o.m k ≠ none → k ∈ o.mod

instance (s o : Props) : Decidable (MergeSafe s o) :=
  inferInstanceAs (Decidable (∀ k, k ∈ s.del → lookup o.m k ≠ none → k ∈ o.mod))

theorem mergeOld_delDom_iff {L : KV} {s o : Props} (h : Inv L s) (ho : Inv L o) :
    (∀ k, k ∈ (s.mergeOld o).del → lookup (s.mergeOld o).m k = none) ↔ MergeSafe s o := by
  have he := h.delDom; have oe := ho.delDom; have od := ho.disj
  constructor
  · intro hall k hk hlo
    apply Classical.byContradiction
    intro hkm
    have hkd : k ∉ o.del := fun hh => hlo (oe k hh)
    have h1 : k ∈ (s.mergeOld o).del := by
      rw [mergeOld_del, mem_saddAll, mem_sremAll]; exact Or.inl ⟨hk, hkm⟩
    have h2 := hall k h1
    rw [mergeOld_m, lookup_eraseAll, if_neg hkd, lookup_overlay] at h2
    cases hv : lookup o.m k with
    | none => exact hlo hv
    | some v => rw [hv] at h2; simp at h2
  · intro hsafe x
    rw [mergeOld_del, mergeOld_m, mem_saddAll, mem_sremAll, lookup_eraseAll, lookup_overlay]
    intro hx
    by_cases hxd : x ∈ o.del
    · rw [if_pos hxd]
    · rw [if_neg hxd]
      have hx' := hx.resolve_right hxd
      cases hlo : lookup o.m x with
      | none => simp only; exact he x hx'.1
      | some v =>
        exfalso
        exact hx'.2 (hsafe x hx'.1 (by rw [hlo]; simp))

theorem inv_mergeOld_iff {L : KV} {s o : Props} (h : Inv L s) (ho : Inv L o) :
    Inv L (s.mergeOld o) ↔ MergeSafe s o := by
  have w := weak_mergeOld h.toWeak ho.toWeak
  constructor
  · intro hi; exact (mergeOld_delDom_iff h ho).1 hi.delDom
  · intro hs; exact ⟨w.disj, w.modDom, (mergeOld_delDom_iff h ho).2 hs, w.untouched⟩

/-! ### the delta reproduces the current state -/

theorem keysOf_modifiedProperties (s : Props) : keysOf s.modifiedProperties = s.mod := by
  unfold Props.modifiedProperties keysOf
  rw [List.map_map]
  have : ((fun (x : Key × Val) => x.1) ∘ fun k => (k, (lookup s.m k).getD 0)) = id := by funext k; rfl
  rw [this, List.map_id]

theorem lookup_pairs (f : Key → Val) (ks : List Key) (k : Key) :
    lookup (ks.map (fun k => (k, f k))) k = if k ∈ ks then some (f k) else none := by
  induction ks with
  | nil => simp
  | cons a ks ih =>
    rw [List.map_cons, lookup_cons, ih]
    by_cases h : a = k
    · simp [h]
    · have : ¬ k = a := fun e => h e.symm
      simp [h, this]

theorem lookup_modifiedProperties (s : Props) (k : Key) :
    lookup s.modifiedProperties k = if k ∈ s.mod then some ((lookup s.m k).getD 0) else none :=
  lookup_pairs _ _ _

theorem inv_reproduces {L : KV} {s : Props} (h : Inv L s) : Reproduces L s := by
  intro k
  unfold applyDelta
  rw [lookup_eraseAll, lookup_overlay, lookup_modifiedProperties]
  by_cases hd : k ∈ s.del
  · rw [if_pos hd, h.delDom k hd]
  · rw [if_neg hd]
    by_cases hm : k ∈ s.mod
    · rw [if_pos hm]
      have := h.modDom k hm
      cases hv : lookup s.m k with
      | none => exact absurd hv this
      | some v => rfl
    · rw [if_neg hm]; exact (h.untouched k hm hd).symm

/-- conversely, disjoint change sets that reproduce the current state give the invariant: nothing weaker is needed -/
theorem inv_of_reproduces {L : KV} {s : Props} (hd : ∀ k, k ∈ s.mod → k ∉ s.del) (h : Reproduces L s) : Inv L s := by
  have key : ∀ k, (if k ∈ s.del then none else
      match (if k ∈ s.mod then some ((lookup s.m k).getD 0) else none) with
      | some v => some v | none => lookup L k) = lookup s.m k := by
    intro k
    have := h k
    unfold applyDelta at this
    rw [lookup_eraseAll, lookup_overlay, lookup_modifiedProperties] at this
    exact this
  constructor
  · exact hd
  · intro k hk
    have := key k
    rw [if_neg (hd k hk), if_pos hk] at this
    intro hn; rw [hn] at this; simp at this
  · intro k hk
    have := key k
    rw [if_pos hk] at this; exact this.symm
  · intro k hm hdel
    have := key k
    rw [if_neg hdel, if_neg hm] at this; exact this.symm

/-! ### the executable judge is the invariant -/

theorem find?_none_iff {α : Type} (p : α → Bool) (l : List α) : l.find? p = none ↔ ∀ x, x ∈ l → p x = false := by
  induction l with
  | nil => simp
  | cons a l ih =>
    rw [List.find?_cons]
    cases hp : p a with
    | true => simp [hp]
    | false => simp [hp, ih]

theorem propsViolation_none_iff (L : KV) (s : Props) :
    propsViolation L s.m s.mod s.del = none ↔ Inv L s := by
  unfold propsViolation
  constructor
  · intro h
    cases h1 : bothIn s.mod s.del with
    | some k => rw [h1] at h; simp at h
    | none =>
      rw [h1] at h; simp only at h
      cases h2 : modAbsent s.m s.mod with
      | some k => rw [h2] at h; simp at h
      | none =>
        rw [h2] at h; simp only at h
        cases h3 : delPresent s.m s.del with
        | some k => rw [h3] at h; simp at h
        | none =>
          rw [h3] at h; simp only at h
          cases h4 : untouchedChanged L s.m s.mod s.del with
          | some k => rw [h4] at h; simp at h
          | none =>
            unfold bothIn at h1; unfold modAbsent at h2; unfold delPresent at h3; unfold untouchedChanged at h4
            rw [find?_none_iff] at h1 h2 h3 h4
            constructor
            · intro k hk hd
              have := h1 k hk; simp [hd] at this
            · intro k hk hn
              have := h2 k hk; simp [hn] at this
            · intro k hk
              have := h3 k hk
              cases hv : lookup s.m k with
              | none => rfl
              | some v => rw [hv] at this; simp at this
            · intro k hm hd
              by_cases hin : k ∈ keysOf L ++ keysOf s.m
              · have := h4 k hin
                simp [hm, hd] at this; exact this
              · rw [List.mem_append, not_or] at hin
                rw [(lookup_eq_none_iff _ _).2 hin.1, (lookup_eq_none_iff _ _).2 hin.2]
  · intro hi
    have h1 : bothIn s.mod s.del = none := by
      unfold bothIn; rw [find?_none_iff]; intro k hk
      have := hi.disj k hk; simp [this]
    have h2 : modAbsent s.m s.mod = none := by
      unfold modAbsent; rw [find?_none_iff]; intro k hk
      have := hi.modDom k hk
      cases hv : lookup s.m k with
      | none => exact absurd hv this
      | some v => rfl
    have h3 : delPresent s.m s.del = none := by
      unfold delPresent; rw [find?_none_iff]; intro k hk
      rw [hi.delDom k hk]; rfl
    have h4 : untouchedChanged L s.m s.mod s.del = none := by
      unfold untouchedChanged; rw [find?_none_iff]; intro k _
      by_cases hm : k ∈ s.mod
      · simp [hm]
      · by_cases hd : k ∈ s.del
        · simp [hd]
        · simp [hm, hd, hi.untouched k hm hd]
    rw [h1, h2, h3, h4]

/-! ### kinds -/

theorem mem_kadd (s : List Kind) (k x : Kind) : x ∈ kadd s k ↔ x ∈ s ∨ x = k := by
  unfold kadd
  by_cases h : k ∈ s
  · rw [if_pos h]; exact ⟨Or.inl, fun h' => h'.elim id (fun e => e ▸ h)⟩
  · rw [if_neg h, List.mem_append, List.mem_singleton]

theorem nodup_snoc {s : List Kind} {k : Kind} (hn : s.Nodup) (hk : k ∉ s) : (s ++ [k]).Nodup := by
  induction s with
  | nil => simp
  | cons a s ih =>
    rw [List.nodup_cons] at hn
    rw [List.mem_cons, not_or] at hk
    rw [List.cons_append, List.nodup_cons, List.mem_append, List.mem_singleton, not_or]
    exact ⟨⟨hn.1, fun e => hk.1 e.symm⟩, ih hn.2 hk.2⟩

theorem nodup_kadd {s : List Kind} (hn : s.Nodup) (k : Kind) : (kadd s k).Nodup := by
  unfold kadd
  by_cases h : k ∈ s
  · rw [if_pos h]; exact hn
  · rw [if_neg h]; exact nodup_snoc hn h

@[simp] theorem kremove_nil (k : Kind) : kremove [] k = [] := rfl
theorem kremove_cons (a : Kind) (s : List Kind) (k : Kind) :
    kremove (a :: s) k = if a = k then s else a :: kremove s k := rfl

theorem mem_of_mem_kremove {s : List Kind} {k x : Kind} (h : x ∈ kremove s k) : x ∈ s := by
  induction s with
  | nil => simp at h
  | cons a s ih =>
    rw [kremove_cons] at h
    by_cases e : a = k
    · rw [if_pos e] at h; exact List.mem_cons_of_mem _ h
    · rw [if_neg e, List.mem_cons] at h
      rcases h with h | h
      · rw [h]; exact List.mem_cons_self
      · exact List.mem_cons_of_mem _ (ih h)

theorem mem_kremove {s : List Kind} (hn : s.Nodup) (k x : Kind) : x ∈ kremove s k ↔ x ∈ s ∧ x ≠ k := by
  induction s with
  | nil => simp
  | cons a s ih =>
    rw [List.nodup_cons] at hn
    rw [kremove_cons]
    by_cases e : a = k
    · rw [if_pos e, List.mem_cons]
      constructor
      · intro h; exact ⟨Or.inr h, fun hx => hn.1 (by rw [e, ← hx]; exact h)⟩
      · rintro ⟨h | h, h2⟩
        · exact absurd (h.trans e) h2
        · exact h
    · rw [if_neg e, List.mem_cons, ih hn.2, List.mem_cons]
      constructor
      · rintro (h | h)
        · exact ⟨Or.inl h, h ▸ e⟩
        · exact ⟨Or.inr h.1, h.2⟩
      · rintro ⟨h | h, h2⟩
        · exact Or.inl h
        · exact Or.inr ⟨h, h2⟩

theorem nodup_kremove {s : List Kind} (hn : s.Nodup) (k : Kind) : (kremove s k).Nodup := by
  induction s with
  | nil => simp
  | cons a s ih =>
    rw [List.nodup_cons] at hn
    rw [kremove_cons]
    by_cases e : a = k
    · rw [if_pos e]; exact hn.2
    · rw [if_neg e, List.nodup_cons]
      exact ⟨fun h => hn.1 (mem_of_mem_kremove h), ih hn.2⟩

@[simp] theorem kaddAll_nil (s : List Kind) : kaddAll s [] = s := rfl
theorem kaddAll_cons (s : List Kind) (k : Kind) (ks : List Kind) : kaddAll s (k :: ks) = kaddAll (kadd s k) ks := rfl
@[simp] theorem kremoveAll_nil (s : List Kind) : kremoveAll s [] = s := rfl
theorem kremoveAll_cons (s : List Kind) (k : Kind) (ks : List Kind) :
    kremoveAll s (k :: ks) = kremoveAll (kremove s k) ks := rfl

theorem mem_kaddAll (s ks : List Kind) (x : Kind) : x ∈ kaddAll s ks ↔ x ∈ s ∨ x ∈ ks := by
  induction ks generalizing s with
  | nil => simp
  | cons a ks ih =>
    rw [kaddAll_cons, ih, mem_kadd, List.mem_cons]
    constructor
    · rintro ((h | h) | h)
      · exact Or.inl h
      · exact Or.inr (Or.inl h)
      · exact Or.inr (Or.inr h)
    · rintro (h | h | h)
      · exact Or.inl (Or.inl h)
      · exact Or.inl (Or.inr h)
      · exact Or.inr h

theorem nodup_kaddAll {s : List Kind} (hn : s.Nodup) (ks : List Kind) : (kaddAll s ks).Nodup := by
  induction ks generalizing s with
  | nil => exact hn
  | cons a ks ih => rw [kaddAll_cons]; exact ih (nodup_kadd hn a)

theorem nodup_kremoveAll {s : List Kind} (hn : s.Nodup) (ks : List Kind) : (kremoveAll s ks).Nodup := by
  induction ks generalizing s with
  | nil => exact hn
  | cons a ks ih => rw [kremoveAll_cons]; exact ih (nodup_kremove hn a)

theorem mem_kremoveAll {s : List Kind} (hn : s.Nodup) (ks : List Kind) (x : Kind) :
    x ∈ kremoveAll s ks ↔ x ∈ s ∧ x ∉ ks := by
  induction ks generalizing s with
  | nil => simp
  | cons a ks ih =>
    rw [kremoveAll_cons, ih (nodup_kremove hn a), mem_kremove hn, List.mem_cons, not_or]
    exact ⟨fun h => ⟨h.1.1, h.1.2, h.2⟩, fun h => ⟨⟨h.1, h.2.1⟩, h.2.2⟩⟩

theorem KInv.toWeak {L : List Kind} {e : Ent} (h : KInv L e) : WeakKInv L e :=
  ⟨h.nodupK, h.nodupA, h.nodupR, h.disj, h.addedIn, h.untouched⟩

theorem kinv_load (L : Loaded) (hn : L.kinds.Nodup) : KInv L.kinds L.ent :=
  ⟨hn, List.nodup_nil, List.nodup_nil, (by intro k h; cases h), (by intro k h; cases h), (by intro k h; cases h),
   (by intro k _ _; exact Iff.rfl)⟩

theorem kinv_addKind {L : List Kind} {e : Ent} (h : KInv L e) (k : Kind) : KInv L (e.addKind k) := by
  have h1 := h.disj; have h2 := h.addedIn; have h3 := h.removedOut; have h4 := h.untouched
  have mr := mem_kremove h.nodupR k
  refine ⟨nodup_kadd h.nodupK k, nodup_kadd h.nodupA k, nodup_kremove h.nodupR k, ?_, ?_, ?_, ?_⟩
  · intro x; show x ∈ kadd e.added k → x ∉ kremove e.removed k
    rw [mem_kadd, mr]; grind
  · intro x; show x ∈ kadd e.added k → x ∈ kadd e.kinds k
    rw [mem_kadd, mem_kadd]; grind
  · intro x; show x ∈ kremove e.removed k → x ∉ kadd e.kinds k
    rw [mem_kadd, mr]; grind
  · intro x; show x ∉ kadd e.added k → x ∉ kremove e.removed k → (x ∈ kadd e.kinds k ↔ x ∈ L)
    rw [mem_kadd, mem_kadd, mr]; grind

theorem weak_addKind {L : List Kind} {e : Ent} (h : WeakKInv L e) (k : Kind) : WeakKInv L (e.addKind k) := by
  have h1 := h.disj; have h2 := h.addedIn; have h4 := h.untouched
  have mr := mem_kremove h.nodupR k
  refine ⟨nodup_kadd h.nodupK k, nodup_kadd h.nodupA k, nodup_kremove h.nodupR k, ?_, ?_, ?_⟩
  · intro x; show x ∈ kadd e.added k → x ∉ kremove e.removed k
    rw [mem_kadd, mr]; grind
  · intro x; show x ∈ kadd e.added k → x ∈ kadd e.kinds k
    rw [mem_kadd, mem_kadd]; grind
  · intro x; show x ∉ kadd e.added k → x ∉ kremove e.removed k → (x ∈ kadd e.kinds k ↔ x ∈ L)
    rw [mem_kadd, mem_kadd, mr]; grind

theorem kinv_deleteKind {L : List Kind} {e : Ent} (h : KInv L e) (k : Kind) : KInv L (e.deleteKind k) := by
  have h1 := h.disj; have h2 := h.addedIn; have h3 := h.removedOut; have h4 := h.untouched
  have mk := mem_kremove h.nodupK k
  have ma := mem_kremove h.nodupA k
  refine ⟨nodup_kremove h.nodupK k, nodup_kremove h.nodupA k, nodup_kadd h.nodupR k, ?_, ?_, ?_, ?_⟩
  · intro x; show x ∈ kremove e.added k → x ∉ kadd e.removed k
    rw [mem_kadd, ma]; grind
  · intro x; show x ∈ kremove e.added k → x ∈ kremove e.kinds k
    rw [ma, mk]; grind
  · intro x; show x ∈ kadd e.removed k → x ∉ kremove e.kinds k
    rw [mem_kadd, mk]; grind
  · intro x; show x ∉ kremove e.added k → x ∉ kadd e.removed k → (x ∈ kremove e.kinds k ↔ x ∈ L)
    rw [mem_kadd, ma, mk]; grind

theorem weak_deleteKind {L : List Kind} {e : Ent} (h : WeakKInv L e) (k : Kind) : WeakKInv L (e.deleteKind k) := by
  have h1 := h.disj; have h2 := h.addedIn; have h4 := h.untouched
  have mk := mem_kremove h.nodupK k
  have ma := mem_kremove h.nodupA k
  refine ⟨nodup_kremove h.nodupK k, nodup_kremove h.nodupA k, nodup_kadd h.nodupR k, ?_, ?_, ?_⟩
  · intro x; show x ∈ kremove e.added k → x ∉ kadd e.removed k
    rw [mem_kadd, ma]; grind
  · intro x; show x ∈ kremove e.added k → x ∈ kremove e.kinds k
    rw [ma, mk]; grind
  · intro x; show x ∉ kremove e.added k → x ∉ kadd e.removed k → (x ∈ kremove e.kinds k ↔ x ∈ L)
    rw [mem_kadd, ma, mk]; grind

theorem addKinds_nil (e : Ent) : e.addKinds [] = e := rfl
theorem addKinds_none (e : Ent) (ks : List (Option Kind)) : e.addKinds (none :: ks) = e.addKinds ks := rfl
theorem addKinds_some (e : Ent) (k : Kind) (ks : List (Option Kind)) :
    e.addKinds (some k :: ks) = (e.addKind k).addKinds ks := rfl
theorem deleteKinds_nil (e : Ent) : e.deleteKinds [] = e := rfl
theorem deleteKinds_cons (e : Ent) (k : Kind) (ks : List Kind) :
    e.deleteKinds (k :: ks) = (e.deleteKind k).deleteKinds ks := rfl

theorem kinv_addKinds {L : List Kind} {e : Ent} (h : KInv L e) (ks : List (Option Kind)) : KInv L (e.addKinds ks) := by
  induction ks generalizing e with
  | nil => exact h
  | cons k ks ih =>
    cases k with
    | none => rw [addKinds_none]; exact ih h
    | some k => rw [addKinds_some]; exact ih (kinv_addKind h k)

theorem weak_addKinds {L : List Kind} {e : Ent} (h : WeakKInv L e) (ks : List (Option Kind)) :
    WeakKInv L (e.addKinds ks) := by
  induction ks generalizing e with
  | nil => exact h
  | cons k ks ih =>
    cases k with
    | none => rw [addKinds_none]; exact ih h
    | some k => rw [addKinds_some]; exact ih (weak_addKind h k)

theorem kinv_deleteKinds {L : List Kind} {e : Ent} (h : KInv L e) (ks : List Kind) : KInv L (e.deleteKinds ks) := by
  induction ks generalizing e with
  | nil => exact h
  | cons k ks ih => rw [deleteKinds_cons]; exact ih (kinv_deleteKind h k)

theorem weak_deleteKinds {L : List Kind} {e : Ent} (h : WeakKInv L e) (ks : List Kind) :
    WeakKInv L (e.deleteKinds ks) := by
  induction ks generalizing e with
  | nil => exact h
  | cons k ks ih => rw [deleteKinds_cons]; exact ih (weak_deleteKind h k)

theorem addKinds_props (e : Ent) (ks : List (Option Kind)) : (e.addKinds ks).props = e.props := by
  induction ks generalizing e with
  | nil => rfl
  | cons k ks ih =>
    cases k with
    | none => rw [addKinds_none]; exact ih e
    | some k => rw [addKinds_some, ih]; rfl

theorem deleteKinds_props (e : Ent) (ks : List Kind) : (e.deleteKinds ks).props = e.props := by
  induction ks generalizing e with
  | nil => rfl
  | cons k ks ih => rw [deleteKinds_cons, ih]; rfl

/-- the kind merge preserves the kind invariant -/
theorem kinv_mergeKinds {L : List Kind} {s o : Ent} (h : KInv L s) (ho : KInv L o) :
    KInv L (s.mergeKinds o) := by
  have h1 := h.disj; have h2 := h.addedIn; have h3 := h.removedOut; have h4 := h.untouched
  have o1 := ho.disj; have o2 := ho.addedIn; have o3 := ho.removedOut; have o4 := ho.untouched
  have nK := nodup_kaddAll h.nodupK o.kinds
  have nR1 := nodup_kremoveAll h.nodupR o.kinds
  have mK : ∀ x, x ∈ kremoveAll (kaddAll s.kinds o.kinds) o.removed ↔ (x ∈ s.kinds ∨ x ∈ o.kinds) ∧ x ∉ o.removed := by
    intro x; rw [mem_kremoveAll nK, mem_kaddAll]
  have mA : ∀ x, x ∈ kaddAll (kremoveAll s.added o.removed) o.added ↔ (x ∈ s.added ∧ x ∉ o.removed) ∨ x ∈ o.added := by
    intro x; rw [mem_kaddAll, mem_kremoveAll h.nodupA]
  have mR : ∀ x, x ∈ kaddAll (kremoveAll (kremoveAll s.removed o.kinds) o.added) o.removed ↔
      ((x ∈ s.removed ∧ x ∉ o.kinds) ∧ x ∉ o.added) ∨ x ∈ o.removed := by
    intro x; rw [mem_kaddAll, mem_kremoveAll nR1, mem_kremoveAll h.nodupR]
  refine ⟨nodup_kremoveAll nK _, nodup_kaddAll (nodup_kremoveAll h.nodupA _) _,
    nodup_kaddAll (nodup_kremoveAll nR1 _) _, ?_, ?_, ?_, ?_⟩
  · intro x
    show x ∈ kaddAll (kremoveAll s.added o.removed) o.added →
      x ∉ kaddAll (kremoveAll (kremoveAll s.removed o.kinds) o.added) o.removed
    rw [mA, mR]; grind
  · intro x
    show x ∈ kaddAll (kremoveAll s.added o.removed) o.added → x ∈ kremoveAll (kaddAll s.kinds o.kinds) o.removed
    rw [mA, mK]; grind
  · intro x
    show x ∈ kaddAll (kremoveAll (kremoveAll s.removed o.kinds) o.added) o.removed →
      x ∉ kremoveAll (kaddAll s.kinds o.kinds) o.removed
    rw [mR, mK]; grind
  · intro x
    show x ∉ kaddAll (kremoveAll s.added o.removed) o.added →
      x ∉ kaddAll (kremoveAll (kremoveAll s.removed o.kinds) o.added) o.removed →
      (x ∈ kremoveAll (kaddAll s.kinds o.kinds) o.removed ↔ x ∈ L)
    rw [mA, mR, mK]
    have a := h4 x; have b := o4 x; have c := h3 x; have d := o3 x; have e := h2 x; have f := o2 x
    grind

theorem weak_mergeKindsOld {L : List Kind} {s o : Ent} (h : WeakKInv L s) (ho : WeakKInv L o) :
    WeakKInv L (s.mergeKindsOld o) := by
  have h1 := h.disj; have h2 := h.addedIn; have h4 := h.untouched
  have o1 := ho.disj; have o2 := ho.addedIn; have o4 := ho.untouched
  have nK := nodup_kaddAll h.nodupK o.kinds
  have mK : ∀ x, x ∈ kremoveAll (kaddAll s.kinds o.kinds) o.removed ↔ (x ∈ s.kinds ∨ x ∈ o.kinds) ∧ x ∉ o.removed := by
    intro x; rw [mem_kremoveAll nK, mem_kaddAll]
  have mA : ∀ x, x ∈ kaddAll (kremoveAll s.added o.removed) o.added ↔ (x ∈ s.added ∧ x ∉ o.removed) ∨ x ∈ o.added := by
    intro x; rw [mem_kaddAll, mem_kremoveAll h.nodupA]
  have mR : ∀ x, x ∈ kaddAll (kremoveAll s.removed o.added) o.removed ↔ (x ∈ s.removed ∧ x ∉ o.added) ∨ x ∈ o.removed := by
    intro x; rw [mem_kaddAll, mem_kremoveAll h.nodupR]
  refine ⟨nodup_kremoveAll nK _, nodup_kaddAll (nodup_kremoveAll h.nodupA _) _,
    nodup_kaddAll (nodup_kremoveAll h.nodupR _) _, ?_, ?_, ?_⟩
  · intro x
    show x ∈ kaddAll (kremoveAll s.added o.removed) o.added → x ∉ kaddAll (kremoveAll s.removed o.added) o.removed
    rw [mA, mR]; grind
  · intro x
    show x ∈ kaddAll (kremoveAll s.added o.removed) o.added → x ∈ kremoveAll (kaddAll s.kinds o.kinds) o.removed
    rw [mA, mK]; grind
  · intro x
    show x ∉ kaddAll (kremoveAll s.added o.removed) o.added → x ∉ kaddAll (kremoveAll s.removed o.added) o.removed →
      (x ∈ kremoveAll (kaddAll s.kinds o.kinds) o.removed ↔ x ∈ L)
    rw [mA, mR, mK]
    have a := h4 x; have b := o4 x; have e := h2 x; have f := o2 x
    grind

/-- the exact condition under which the old `Node.Merge` keeps `DeletedKinds ∩ Kinds = ∅` -/
def KMergeSafe (s o : Ent) : Prop := ∀ k, k ∈ s.removed → k ∈ o.kinds → k ∈ o.added

instance (s o : Ent) : Decidable (KMergeSafe s o) :=
  inferInstanceAs (Decidable (∀ k, k ∈ s.removed → k ∈ o.kinds → k ∈ o.added))

theorem kinv_mergeKindsOld_iff {L : List Kind} {s o : Ent} (h : KInv L s) (ho : KInv L o) :
    KInv L (s.mergeKindsOld o) ↔ KMergeSafe s o := by
  have w := weak_mergeKindsOld h.toWeak ho.toWeak
  have h3 := h.removedOut; have o3 := ho.removedOut; have o1 := ho.disj
  have nK := nodup_kaddAll h.nodupK o.kinds
  have mK : ∀ x, x ∈ kremoveAll (kaddAll s.kinds o.kinds) o.removed ↔ (x ∈ s.kinds ∨ x ∈ o.kinds) ∧ x ∉ o.removed := by
    intro x; rw [mem_kremoveAll nK, mem_kaddAll]
  have mR : ∀ x, x ∈ kaddAll (kremoveAll s.removed o.added) o.removed ↔ (x ∈ s.removed ∧ x ∉ o.added) ∨ x ∈ o.removed := by
    intro x; rw [mem_kaddAll, mem_kremoveAll h.nodupR]
  constructor
  · intro hi k hk hko
    apply Classical.byContradiction
    intro hka
    have := hi.removedOut k ((mR k).2 (Or.inl ⟨hk, hka⟩))
    exact this ((mK k).2 ⟨Or.inr hko, fun hh => o3 k hh hko⟩)
  · intro hs
    refine ⟨w.nodupK, w.nodupA, w.nodupR, w.disj, w.addedIn, ?_, w.untouched⟩
    intro x
    show x ∈ kaddAll (kremoveAll s.removed o.added) o.removed → x ∉ kremoveAll (kaddAll s.kinds o.kinds) o.removed
    rw [mR, mK]
    have a := hs x; have b := h3 x
    grind

theorem kinv_reproduces {L : List Kind} {e : Ent} (h : KInv L e) : KReproduces L e := by
  intro k
  unfold applyKinds
  rw [List.mem_filter, List.mem_append]
  have h1 := h.disj k; have h2 := h.addedIn k; have h3 := h.removedOut k; have h4 := h.untouched k
  simp only [Bool.not_eq_true', List.contains_eq_mem, decide_eq_false_iff_not]
  grind

theorem kindsViolation_none_iff (L : List Kind) (e : Ent) :
    kindsViolation L e.kinds e.added e.removed = none ↔
      ((∀ k, k ∈ e.added → k ∉ e.removed) ∧ (∀ k, k ∈ e.added → k ∈ e.kinds) ∧
       (∀ k, k ∈ e.removed → k ∉ e.kinds) ∧ (∀ k, k ∉ e.added → k ∉ e.removed → (k ∈ e.kinds ↔ k ∈ L))) := by
  unfold kindsViolation
  constructor
  · intro h
    cases h1 : kBothIn e.added e.removed with
    | some k => rw [h1] at h; simp at h
    | none =>
      rw [h1] at h; simp only at h
      cases h2 : kAddedAbsent e.kinds e.added with
      | some k => rw [h2] at h; simp at h
      | none =>
        rw [h2] at h; simp only at h
        cases h3 : kRemovedPresent e.kinds e.removed with
        | some k => rw [h3] at h; simp at h
        | none =>
          rw [h3] at h; simp only at h
          cases h4 : kUntouchedChanged L e.kinds e.added e.removed with
          | some k => rw [h4] at h; simp at h
          | none =>
            unfold kBothIn at h1; unfold kAddedAbsent at h2; unfold kRemovedPresent at h3
            unfold kUntouchedChanged at h4
            rw [find?_none_iff] at h1 h2 h3 h4
            refine ⟨?_, ?_, ?_, ?_⟩
            · intro k hk hd
              have := h1 k hk; simp [hd] at this
            · intro k hk
              have := h2 k hk; simpa using this
            · intro k hk hin
              have := h3 k hk; simp [hin] at this
            · intro k ha hr
              by_cases hin : k ∈ L ++ e.kinds
              · have := h4 k hin
                simp [ha, hr] at this
                exact this
              · rw [List.mem_append, not_or] at hin
                exact ⟨fun hh => absurd hh hin.2, fun hh => absurd hh hin.1⟩
  · rintro ⟨c1, c2, c3, c4⟩
    have h1 : kBothIn e.added e.removed = none := by
      unfold kBothIn; rw [find?_none_iff]; intro k hk
      have := c1 k hk; simp [this]
    have h2 : kAddedAbsent e.kinds e.added = none := by
      unfold kAddedAbsent; rw [find?_none_iff]; intro k hk
      have := c2 k hk; simp [this]
    have h3 : kRemovedPresent e.kinds e.removed = none := by
      unfold kRemovedPresent; rw [find?_none_iff]; intro k hk
      have := c3 k hk; simp [this]
    have h4 : kUntouchedChanged L e.kinds e.added e.removed = none := by
      unfold kUntouchedChanged; rw [find?_none_iff]; intro k _
      by_cases ha : k ∈ e.added
      · simp [ha]
      · by_cases hr : k ∈ e.removed
        · simp [hr]
        · have := c4 k ha hr
          simp [ha, hr, this]
    rw [h1, h2, h3, h4]

/-! ### StripAllPropertiesExcept -/

/-- value, modified?, deleted? of one key -/
def status (p : Props) (k : Key) : Option Val × Bool × Bool := (lookup p.m k, decide (k ∈ p.mod), decide (k ∈ p.del))

theorem status_set (p : Props) (j : Key) (v : Val) (k : Key) :
    status (p.set j v) k = if j = k then (some v, true, false) else status p k := by
  unfold status
  rw [set_m, set_mod, set_del, lookup_insert]
  by_cases h : j = k
  · subst h; simp [mem_sadd, mem_srem]
  · have : ¬ k = j := fun e => h e.symm
    simp [h, this, mem_sadd, mem_srem]

theorem status_delete (p : Props) (j : Key) (k : Key) :
    status (p.delete j) k = if j = k then (none, false, true) else status p k := by
  unfold status
  rw [delete_m, delete_mod, delete_del, lookup_erase]
  by_cases h : j = k
  · subst h; simp [mem_sadd, mem_srem]
  · have : ¬ k = j := fun e => h e.symm
    simp [h, this, mem_sadd, mem_srem]

/-- what `StripAllPropertiesExcept` leaves for a kept key -/
def keptStatus (s : Props) (k : Key) (otherwise : Option Val × Bool × Bool) : Option Val × Bool × Bool :=
  if k ∈ s.del then (none, false, true)
  else match lookup s.m k with
    | some v => (some v, true, false)
    | none => otherwise

theorem exists_eq (s : Props) (k : Key) : s.exists k = (lookup s.m k).isSome := by
  unfold Props.exists Props.m; cases s.map <;> rfl
theorem get_eq (s : Props) (k : Key) : s.get k = (lookup s.m k).getD 0 := by
  unfold Props.get Props.m; cases s.map <;> rfl

theorem isDeleted_eq (s : Props) (k : Key) : s.isDeleted k = decide (k ∈ s.del) := by
  unfold Props.isDeleted Props.del; cases s.deleted <;> simp

theorem status_stripKey (s acc : Props) (j k : Key) :
    status (stripKey s acc j) k = if j = k then keptStatus s k (status acc k) else status acc k := by
  unfold stripKey keptStatus
  simp only [isDeleted_eq, exists_eq, get_eq, decide_eq_true_eq]
  by_cases hd : j ∈ s.del
  · rw [if_pos hd, status_delete]
    by_cases hjk : j = k
    · subst hjk; simp [hd]
    · rw [if_neg hjk, if_neg hjk]
      cases hv : lookup s.m j with
      | some v => simp only [Option.isSome_some, if_true]; rw [status_set, if_neg hjk]
      | none => simp
  · rw [if_neg hd]
    cases hv : lookup s.m j with
    | some v =>
      simp only [Option.isSome_some, if_true, Option.getD_some]
      rw [status_set]
      by_cases hjk : j = k
      · subst hjk; simp [hd, hv]
      · simp [hjk]
    | none =>
      by_cases hjk : j = k
      · subst hjk; simp [hd, hv]
      · simp [hjk]

theorem keptStatus_idem (s : Props) (k : Key) (o : Option Val × Bool × Bool) :
    keptStatus s k (keptStatus s k o) = keptStatus s k o := by
  unfold keptStatus
  by_cases hd : k ∈ s.del
  · simp [hd]
  · simp only [hd, if_false]; cases lookup s.m k <;> rfl

theorem status_foldl_stripKey (s : Props) (ks : List Key) (acc : Props) (k : Key) :
    status (ks.foldl (stripKey s) acc) k = if k ∈ ks then keptStatus s k (status acc k) else status acc k := by
  induction ks generalizing acc with
  | nil => simp
  | cons j ks ih =>
    rw [List.foldl_cons, ih, status_stripKey]
    by_cases hjk : j = k
    · subst hjk
      by_cases hin : j ∈ ks
      · simp only [hin, if_true, List.mem_cons, true_or]; exact keptStatus_idem s j _
      · simp [hin]
    · have hkj : ¬ k = j := fun e => hjk e.symm
      by_cases hin : k ∈ ks
      · simp [hjk, hkj, hin]
      · simp [hjk, hkj, hin]

/-- after `StripAllPropertiesExcept(except)`: a kept key that was deleted is deleted, a kept key that exists has its
value and is modified, every other key is absent and untracked -/
theorem status_strip (s : Props) (ks : List Key) (k : Key) :
    status (s.strip ks) k = if k ∈ ks then keptStatus s k (none, false, false) else (none, false, false) := by
  unfold Props.strip
  rw [status_foldl_stripKey]
  have : status (Props.load none) k = (none, false, false) := by simp [status]
  rw [this]

theorem inv_stripKey {L : KV} (s : Props) {acc : Props} (h : Inv L acc) (j : Key) : Inv L (stripKey s acc j) := by
  unfold stripKey
  have h1 : Inv L (if s.exists j then acc.set j (s.get j) else acc) := by
    split
    · exact inv_set h _ _
    · exact h
  show Inv L (if s.isDeleted j = true then (if s.exists j then acc.set j (s.get j) else acc).delete j
      else (if s.exists j then acc.set j (s.get j) else acc))
  split
  · exact inv_delete h1 j
  · exact h1

/-- the stripped properties are a fresh object edited by `Set` / `Delete` only: tracked relative to the EMPTY map -/
theorem inv_strip (s : Props) (ks : List Key) : Inv [] (s.strip ks) := by
  unfold Props.strip
  have : ∀ (acc : Props), Inv [] acc → Inv [] (ks.foldl (stripKey s) acc) := by
    induction ks with
    | nil => intro acc h; exact h
    | cons j ks ih => intro acc h; exact ih _ (inv_stripKey s h j)
  exact this _ (inv_load none)

/-- An entity tracked relative to the empty map (after a strip) updates exactly the keys it touched: applied to ANY
stored map `S`, touched keys get the entity's value (or disappear), all others keep their stored value. -/
theorem detached_update_exact {s : Props} (h : Inv [] s) (S : KV) (k : Key) :
    lookup (applyDelta S s.modifiedProperties s.del) k =
      if k ∈ s.mod ∨ k ∈ s.del then lookup s.m k else lookup S k := by
  unfold applyDelta
  rw [lookup_eraseAll, lookup_overlay, lookup_modifiedProperties]
  by_cases hd : k ∈ s.del
  · simp [hd, h.delDom k hd]
  · by_cases hm : k ∈ s.mod
    · have := h.modDom k hm
      cases hv : lookup s.m k with
      | none => exact absurd hv this
      | some v => simp [hd, hm]
    · simp [hd, hm]

/-- Strip then update: applied to the stored map `S`, every kept key ends up with the value the entity had before the
strip (its deletion included), every other key keeps its stored value — whatever edits the entity carried for it. -/
theorem strip_update_exact (s : Props) (ks : List Key) (S : KV) (k : Key) :
    lookup (applyDelta S (s.strip ks).modifiedProperties (s.strip ks).del) k =
      if k ∈ ks ∧ (k ∈ s.del ∨ lookup s.m k ≠ none) then (if k ∈ s.del then none else lookup s.m k) else lookup S k := by
  rw [detached_update_exact (inv_strip s ks)]
  have hst := status_strip s ks k
  unfold status keptStatus at hst
  by_cases hk : k ∈ ks
  · by_cases hd : k ∈ s.del
    · simp only [hk, hd, if_true, Prod.mk.injEq, decide_eq_false_iff_not, decide_eq_true_eq] at hst
      simp [hk, hd, hst.1, hst.2.2]
    · cases hv : lookup s.m k with
      | some v =>
        simp only [hk, hd, hv, if_true, if_false, Prod.mk.injEq, decide_eq_false_iff_not, decide_eq_true_eq] at hst
        simp [hk, hd, hv, hst.1, hst.2.1]
      | none =>
        simp only [hk, hd, hv, if_true, if_false, Prod.mk.injEq, decide_eq_false_iff_not] at hst
        simp [hk, hd, hv, hst.2.1, hst.2.2]
  · simp only [hk, if_false, Prod.mk.injEq, decide_eq_false_iff_not] at hst
    simp [hk, hst.2.1, hst.2.2]

/-! ### JSON -/

theorem props_json_roundtrip (s : Props) : Props.ofJson s.toJson = s := by
  cases s with
  | mk m md dl => cases m <;> cases md <;> cases dl <;> rfl

theorem ent_json_roundtrip (x : Ent) : x.jsonRoundTrip = x := by
  cases x with
  | mk p k a r att =>
    show Ent.ofJson att (Ent.toJson _) = _
    unfold Ent.ofJson Ent.toJson
    simp only [props_json_roundtrip]
    rfl

/-! ### states and histories -/

theorem get_put (st : St) (e : Bool) (x : Ent) (f : Bool) : (st.put e x).get f = if f = e then x else st.get f := by
  cases e <;> cases f <;> rfl

theorem kinv_fields {L : List Kind} {x y : Ent} (h : KInv L x) (hk : y.kinds = x.kinds) (ha : y.added = x.added)
    (hr : y.removed = x.removed) : KInv L y := by
  constructor
  · rw [hk]; exact h.nodupK
  · rw [ha]; exact h.nodupA
  · rw [hr]; exact h.nodupR
  · rw [ha, hr]; exact h.disj
  · rw [ha, hk]; exact h.addedIn
  · rw [hr, hk]; exact h.removedOut
  · rw [ha, hr, hk]; exact h.untouched

theorem wkinv_fields {L : List Kind} {x y : Ent} (h : WeakKInv L x) (hk : y.kinds = x.kinds) (ha : y.added = x.added)
    (hr : y.removed = x.removed) : WeakKInv L y := by
  constructor
  · rw [hk]; exact h.nodupK
  · rw [ha]; exact h.nodupA
  · rw [hr]; exact h.nodupR
  · rw [ha, hr]; exact h.disj
  · rw [ha, hk]; exact h.addedIn
  · rw [ha, hr, hk]; exact h.untouched

theorem einv_withProps {L : Loaded} {x : Ent} (h : EInv L x) {p : Props} (hp : Inv (x.base L) p) : EInv L (x.withProps p) :=
  ⟨hp, kinv_fields h.kinds rfl rfl rfl⟩

theorem eweak_withProps {L : Loaded} {x : Ent} (h : EWeak L x) {p : Props} (hp : WeakInv (x.base L) p) :
    EWeak L (x.withProps p) :=
  ⟨hp, wkinv_fields h.kinds rfl rfl rfl⟩

theorem EInv.toWeak {L : Loaded} {x : Ent} (h : EInv L x) : EWeak L x := ⟨h.props.toWeak, h.kinds.toWeak⟩
theorem SInv.toWeak {L : Loaded} {st : St} (h : SInv L st) : SWeak L st := fun e => (h e).toWeak

theorem sinv_put {L : Loaded} {st : St} (h : SInv L st) (e : Bool) {x : Ent} (hx : EInv L x) : SInv L (st.put e x) := by
  intro f; rw [get_put]; by_cases hf : f = e
  · rw [if_pos hf]; exact hx
  · rw [if_neg hf]; exact h f

theorem sweak_put {L : Loaded} {st : St} (h : SWeak L st) (e : Bool) {x : Ent} (hx : EWeak L x) : SWeak L (st.put e x) := by
  intro f; rw [get_put]; by_cases hf : f = e
  · rw [if_pos hf]; exact hx
  · rw [if_neg hf]; exact h f

theorem sinv_init (L : Loaded) (hn : L.kinds.Nodup) : SInv L (St.init L) := by
  intro e
  have : (St.init L).get e = L.ent := by cases e <;> rfl
  rw [this]
  exact ⟨inv_load L.store, kinv_load L hn⟩

theorem addKinds_attached (e : Ent) (ks : List (Option Kind)) : (e.addKinds ks).attached = e.attached := by
  induction ks generalizing e with
  | nil => rfl
  | cons k ks ih =>
    cases k with
    | none => rw [addKinds_none]; exact ih e
    | some k => rw [addKinds_some, ih]; rfl

theorem deleteKinds_attached (e : Ent) (ks : List Kind) : (e.deleteKinds ks).attached = e.attached := by
  induction ks generalizing e with
  | nil => rfl
  | cons k ks ih => rw [deleteKinds_cons, ih]; rfl

theorem addKinds_base (e : Ent) (ks : List (Option Kind)) (L : Loaded) : (e.addKinds ks).base L = e.base L := by
  unfold Ent.base; rw [addKinds_attached]
theorem deleteKinds_base (e : Ent) (ks : List Kind) (L : Loaded) : (e.deleteKinds ks).base L = e.base L := by
  unfold Ent.base; rw [deleteKinds_attached]

theorem einv_addKinds {L : Loaded} {x : Ent} (h : EInv L x) (ks : List (Option Kind)) : EInv L (x.addKinds ks) :=
  ⟨by rw [addKinds_props, addKinds_base]; exact h.props, kinv_addKinds h.kinds ks⟩
theorem einv_deleteKinds {L : Loaded} {x : Ent} (h : EInv L x) (ks : List Kind) : EInv L (x.deleteKinds ks) :=
  ⟨by rw [deleteKinds_props, deleteKinds_base]; exact h.props, kinv_deleteKinds h.kinds ks⟩
theorem eweak_addKinds {L : Loaded} {x : Ent} (h : EWeak L x) (ks : List (Option Kind)) : EWeak L (x.addKinds ks) :=
  ⟨by rw [addKinds_props, addKinds_base]; exact h.props, weak_addKinds h.kinds ks⟩
theorem eweak_deleteKinds {L : Loaded} {x : Ent} (h : EWeak L x) (ks : List Kind) : EWeak L (x.deleteKinds ks) :=
  ⟨by rw [deleteKinds_props, deleteKinds_base]; exact h.props, weak_deleteKinds h.kinds ks⟩

/-- the base of a merge result: attached as soon as one side is -/
theorem base_or (L : Loaded) (s o : Ent) (k : Key) :
    lookup (overlay (s.base L) (o.base L)) k = lookup (if s.attached || o.attached then L.kv else []) k := by
  unfold Ent.base
  cases s.attached <;> cases o.attached
  · rfl
  · simp only [if_true, Bool.false_or, if_false, Bool.false_eq_true]
    rw [lookup_overlay]; cases lookup L.kv k <;> rfl
  · rfl
  · exact lookup_overlay_self L.kv k

theorem einv_merge {L : Loaded} {s o : Ent} (h : EInv L s) (ho : EInv L o) : EInv L (Ent.merge s o) :=
  ⟨inv_congr (base_or L s o) (inv_merge_gen h.props ho.props), kinv_fields (kinv_mergeKinds h.kinds ho.kinds) rfl rfl rfl⟩

theorem einv_relMerge {L : Loaded} {s o : Ent} (h : EInv L s) (ho : EInv L o) : EInv L (s.relMerge false o) :=
  ⟨inv_congr (base_or L s o) (inv_merge_gen h.props ho.props), kinv_fields h.kinds rfl rfl rfl⟩

theorem einv_strip {L : Loaded} {x : Ent} (h : EInv L x) (ks : List Key) : EInv L (x.strip ks) :=
  ⟨inv_strip x.props ks, kinv_fields h.kinds rfl rfl rfl⟩

theorem einv_clone {L : Loaded} {x y : Ent} (hx : EInv L x) (hy : EInv L y) :
    EInv L { y with props := x.props.clone, attached := x.attached } :=
  ⟨by show Inv (x.base L) x.props.clone; rw [clone_eq]; exact hx.props, kinv_fields hy.kinds rfl rfl rfl⟩

/-- every operation of the code as it is preserves the state invariant -/
theorem sinv_step {L : Loaded} {st : St} (h : SInv L st) (o : Op) : SInv L (st.step false o) := by
  cases o with
  | set e k v => exact sinv_put h e (einv_withProps (h e) (inv_set (h e).props k v))
  | setAll e kvs => exact sinv_put h e (einv_withProps (h e) (inv_setAll (h e).props kvs))
  | delete e k => exact sinv_put h e (einv_withProps (h e) (inv_delete (h e).props k))
  | read e => exact h
  | clone e f => exact sinv_put h f (einv_clone (h e) (h f))
  | pmerge e f => exact sinv_put h e (einv_relMerge (h e) (h f))
  | addKinds e ks => exact sinv_put h e (einv_addKinds (h e) ks)
  | deleteKinds e ks => exact sinv_put h e (einv_deleteKinds (h e) ks)
  | nmerge e f => exact sinv_put h e (einv_merge (h e) (h f))
  | rmerge e f => exact sinv_put h e (einv_relMerge (h e) (h f))
  | strip e ks => exact sinv_put h e (einv_strip (h e) ks)
  | json e => exact sinv_put h e (by rw [ent_json_roundtrip]; exact h e)

theorem sinv_run {L : Loaded} {st : St} (h : SInv L st) (ops : List Op) : SInv L (st.run false ops) := by
  induction ops generalizing st with
  | nil => exact h
  | cons o ops ih => exact ih (sinv_step h o)

/-! #### the code before commit 179da67 (histories without `strip`, which postdates the statements about it: every
entity stays attached to the loaded state) -/

/-- both entities are still tracked relative to the loaded state -/
def SAtt (st : St) : Prop := ∀ e, (st.get e).attached = true

theorem base_att {x : Ent} (h : x.attached = true) (L : Loaded) : x.base L = L.kv := by unfold Ent.base; rw [h]; rfl

theorem satt_init (L : Loaded) : SAtt (St.init L) := by intro e; cases e <;> rfl

theorem satt_put {st : St} (h : SAtt st) (e : Bool) {x : Ent} (hx : x.attached = true) : SAtt (st.put e x) := by
  intro f; rw [get_put]; by_cases hf : f = e
  · rw [if_pos hf]; exact hx
  · rw [if_neg hf]; exact h f

theorem satt_step {st : St} (h : SAtt st) (old : Bool) (o : Op) (hs : o.isStrip = false) : SAtt (st.step old o) := by
  cases o with
  | set e k v => exact satt_put h e (h e)
  | setAll e kvs => exact satt_put h e (h e)
  | delete e k => exact satt_put h e (h e)
  | read e => exact h
  | clone e f => exact satt_put h f (h e)
  | pmerge e f => exact satt_put h e (by show ((st.get e).attached || (st.get f).attached) = true; rw [h e, h f]; rfl)
  | addKinds e ks => exact satt_put h e (by rw [addKinds_attached]; exact h e)
  | deleteKinds e ks => exact satt_put h e (by rw [deleteKinds_attached]; exact h e)
  | nmerge e f =>
    refine satt_put h e ?_
    cases old
    · show ((st.get e).attached || (st.get f).attached) = true; rw [h e, h f]; rfl
    · show ((st.get e).attached || (st.get f).attached) = true; rw [h e, h f]; rfl
  | rmerge e f => exact satt_put h e (by show ((st.get e).attached || (st.get f).attached) = true; rw [h e, h f]; rfl)
  | strip e ks => simp [Op.isStrip] at hs
  | json e => exact satt_put h e (by rw [ent_json_roundtrip]; exact h e)

theorem eweak_mergeOld {L : Loaded} {s o : Ent} (hs : s.attached = true) (ho' : o.attached = true)
    (h : EWeak L s) (ho : EWeak L o) : EWeak L (Ent.mergeOld s o) := by
  have hp := h.props; have hop := ho.props
  rw [base_att hs] at hp; rw [base_att ho'] at hop
  refine ⟨?_, wkinv_fields (weak_mergeKindsOld h.kinds ho.kinds) rfl rfl rfl⟩
  have : (Ent.mergeOld s o).base L = L.kv := base_att (by show (s.attached || o.attached) = true; rw [hs, ho']; rfl) L
  rw [this]
  exact weak_mergeOld hp hop

theorem eweak_relMergeOld {L : Loaded} {s o : Ent} (hs : s.attached = true) (ho' : o.attached = true)
    (h : EWeak L s) (ho : EWeak L o) : EWeak L (s.relMerge true o) := by
  have hp := h.props; have hop := ho.props
  rw [base_att hs] at hp; rw [base_att ho'] at hop
  refine ⟨?_, wkinv_fields h.kinds rfl rfl rfl⟩
  have : (s.relMerge true o).base L = L.kv := base_att (by show (s.attached || o.attached) = true; rw [hs, ho']; rfl) L
  rw [this]
  exact weak_mergeOld hp hop

theorem einv_relMergeOld_iff {L : Loaded} {s o : Ent} (hs : s.attached = true) (ho' : o.attached = true)
    (h : EInv L s) (ho : EInv L o) : EInv L (s.relMerge true o) ↔ MergeSafe s.props o.props := by
  have hp := h.props; have hop := ho.props
  rw [base_att hs] at hp; rw [base_att ho'] at hop
  have hb : (s.relMerge true o).base L = L.kv := base_att (by show (s.attached || o.attached) = true; rw [hs, ho']; rfl) L
  constructor
  · intro hi
    have := hi.props; rw [hb] at this
    exact (inv_mergeOld_iff hp hop).1 this
  · intro hsafe
    refine ⟨?_, kinv_fields h.kinds rfl rfl rfl⟩
    rw [hb]; exact (inv_mergeOld_iff hp hop).2 hsafe

theorem einv_mergeOld_iff {L : Loaded} {s o : Ent} (hs : s.attached = true) (ho' : o.attached = true)
    (h : EInv L s) (ho : EInv L o) :
    EInv L (Ent.mergeOld s o) ↔ (MergeSafe s.props o.props ∧ KMergeSafe s o) := by
  have hp := h.props; have hop := ho.props
  rw [base_att hs] at hp; rw [base_att ho'] at hop
  have hb : (Ent.mergeOld s o).base L = L.kv := base_att (by show (s.attached || o.attached) = true; rw [hs, ho']; rfl) L
  constructor
  · intro hi
    have hpr := hi.props; rw [hb] at hpr
    exact ⟨(inv_mergeOld_iff hp hop).1 hpr,
      (kinv_mergeKindsOld_iff h.kinds ho.kinds).1 (kinv_fields hi.kinds rfl rfl rfl)⟩
  · intro hsafe
    refine ⟨?_, kinv_fields ((kinv_mergeKindsOld_iff h.kinds ho.kinds).2 hsafe.2) rfl rfl rfl⟩
    rw [hb]; exact (inv_mergeOld_iff hp hop).2 hsafe.1

/-- the code before commit 179da67: every operation, merges included, preserves every clause except
`Deleted ∩ dom Map = ∅` / `DeletedKinds ∩ Kinds = ∅` -/
theorem sweak_step_old {L : Loaded} {st : St} (h : SWeak L st) (ha : SAtt st) (o : Op) (hs : o.isStrip = false) :
    SWeak L (st.step true o) := by
  cases o with
  | set e k v => exact sweak_put h e (eweak_withProps (h e) (weak_set (h e).props k v))
  | setAll e kvs => exact sweak_put h e (eweak_withProps (h e) (weak_setAll (h e).props kvs))
  | delete e k => exact sweak_put h e (eweak_withProps (h e) (weak_delete (h e).props k))
  | read e => exact h
  | clone e f =>
    refine sweak_put h f ⟨?_, wkinv_fields (h f).kinds rfl rfl rfl⟩
    show WeakInv ((st.get e).base L) (st.get e).props.clone
    rw [clone_eq]; exact (h e).props
  | pmerge e f => exact sweak_put h e (eweak_relMergeOld (ha e) (ha f) (h e) (h f))
  | addKinds e ks => exact sweak_put h e (eweak_addKinds (h e) ks)
  | deleteKinds e ks => exact sweak_put h e (eweak_deleteKinds (h e) ks)
  | nmerge e f => exact sweak_put h e (eweak_mergeOld (ha e) (ha f) (h e) (h f))
  | rmerge e f => exact sweak_put h e (eweak_relMergeOld (ha e) (ha f) (h e) (h f))
  | strip e ks => simp [Op.isStrip] at hs
  | json e => exact sweak_put h e (by rw [ent_json_roundtrip]; exact h e)

theorem sweak_run_old {L : Loaded} {st : St} (h : SWeak L st) (ha : SAtt st) (ops : List Op)
    (hs : ∀ o, o ∈ ops → o.isStrip = false) : SWeak L (st.run true ops) := by
  induction ops generalizing st with
  | nil => exact h
  | cons o ops ih =>
    have ho := hs o List.mem_cons_self
    exact ih (sweak_step_old h ha o ho) (satt_step ha true o ho) (fun o' ho' => hs o' (List.mem_cons_of_mem _ ho'))

/-- side condition of one operation of the code before commit 179da67: merges must not re-introduce a key / kind the
receiver deleted and the other side merely carries -/
def Op.SafeAt (st : St) : Op → Prop
  | .pmerge e f => MergeSafe (st.get e).props (st.get f).props
  | .nmerge e f => MergeSafe (st.get e).props (st.get f).props ∧ KMergeSafe (st.get e) (st.get f)
  | .rmerge e f => MergeSafe (st.get e).props (st.get f).props
  | _ => True

def St.SafeRun (st : St) : List Op → Prop
  | [] => True
  | o :: ops => o.SafeAt st ∧ (st.step true o).SafeRun ops

instance Op.decSafeAt (st : St) : (o : Op) → Decidable (o.SafeAt st)
  | .pmerge e f => inferInstanceAs (Decidable (MergeSafe (st.get e).props (st.get f).props))
  | .nmerge e f =>
    inferInstanceAs (Decidable (MergeSafe (st.get e).props (st.get f).props ∧ KMergeSafe (st.get e) (st.get f)))
  | .rmerge e f => inferInstanceAs (Decidable (MergeSafe (st.get e).props (st.get f).props))
  | .set _ _ _ => isTrue trivial
  | .setAll _ _ => isTrue trivial
  | .delete _ _ => isTrue trivial
  | .read _ => isTrue trivial
  | .clone _ _ => isTrue trivial
  | .addKinds _ _ => isTrue trivial
  | .deleteKinds _ _ => isTrue trivial
  | .strip _ _ => isTrue trivial
  | .json _ => isTrue trivial

instance St.decSafeRun : (st : St) → (ops : List Op) → Decidable (st.SafeRun ops)
  | _, [] => isTrue trivial
  | st, o :: ops =>
    match Op.decSafeAt st o, St.decSafeRun (st.step true o) ops with
    | isTrue a, isTrue b => isTrue ⟨a, b⟩
    | isFalse a, _ => isFalse (fun h => a h.1)
    | _, isFalse b => isFalse (fun h => b h.2)

theorem sinv_step_old {L : Loaded} {st : St} (h : SInv L st) (ha : SAtt st) (o : Op) (hst : o.isStrip = false)
    (hs : o.SafeAt st) : SInv L (st.step true o) := by
  cases o with
  | set e k v => exact sinv_put h e (einv_withProps (h e) (inv_set (h e).props k v))
  | setAll e kvs => exact sinv_put h e (einv_withProps (h e) (inv_setAll (h e).props kvs))
  | delete e k => exact sinv_put h e (einv_withProps (h e) (inv_delete (h e).props k))
  | read e => exact h
  | clone e f => exact sinv_put h f (einv_clone (h e) (h f))
  | pmerge e f => exact sinv_put h e ((einv_relMergeOld_iff (ha e) (ha f) (h e) (h f)).2 hs)
  | addKinds e ks => exact sinv_put h e (einv_addKinds (h e) ks)
  | deleteKinds e ks => exact sinv_put h e (einv_deleteKinds (h e) ks)
  | nmerge e f => exact sinv_put h e ((einv_mergeOld_iff (ha e) (ha f) (h e) (h f)).2 hs)
  | rmerge e f => exact sinv_put h e ((einv_relMergeOld_iff (ha e) (ha f) (h e) (h f)).2 hs)
  | strip e ks => simp [Op.isStrip] at hst
  | json e => exact sinv_put h e (by rw [ent_json_roundtrip]; exact h e)

/-- … and the side condition is necessary: an unsafe merge breaks the invariant of its receiver -/
theorem sinv_step_old_iff {L : Loaded} {st : St} (h : SInv L st) (ha : SAtt st) (o : Op) (hst : o.isStrip = false) :
    SInv L (st.step true o) ↔ o.SafeAt st := by
  constructor
  · intro hi
    cases o with
    | pmerge e f =>
      have := hi e
      simp only [St.step, get_put, if_true] at this
      exact (einv_relMergeOld_iff (ha e) (ha f) (h e) (h f)).1 this
    | nmerge e f =>
      have := hi e
      simp only [St.step, get_put, if_true] at this
      exact (einv_mergeOld_iff (ha e) (ha f) (h e) (h f)).1 this
    | rmerge e f =>
      have := hi e
      simp only [St.step, get_put, if_true] at this
      exact (einv_relMergeOld_iff (ha e) (ha f) (h e) (h f)).1 this
    | set e k v => trivial
    | setAll e kvs => trivial
    | delete e k => trivial
    | read e => trivial
    | clone e f => trivial
    | addKinds e ks => trivial
    | deleteKinds e ks => trivial
    | strip e ks => trivial
    | json e => trivial
  · exact sinv_step_old h ha o hst

theorem sinv_run_old {L : Loaded} {st : St} (h : SInv L st) (ha : SAtt st) (ops : List Op)
    (hst : ∀ o, o ∈ ops → o.isStrip = false) (hs : st.SafeRun ops) : SInv L (st.run true ops) := by
  induction ops generalizing st with
  | nil => exact h
  | cons o ops ih =>
    have ho := hst o List.mem_cons_self
    exact ih (sinv_step_old h ha o ho hs.1) (satt_step ha true o ho) (fun o' ho' => hst o' (List.mem_cons_of_mem _ ho')) hs.2

theorem safeRun_of_noMerge (st : St) (ops : List Op) (hm : ∀ o, o ∈ ops → o.isMerge = false) : st.SafeRun ops := by
  induction ops generalizing st with
  | nil => trivial
  | cons o ops ih =>
    refine ⟨?_, ih _ (fun o' ho' => hm o' (List.mem_cons_of_mem _ ho'))⟩
    have := hm o List.mem_cons_self
    cases o <;> first | trivial | (simp [Op.isMerge] at this)

/-- operations on one entity leave the other one alone (`clone e f` and merges write only their receiver) -/
def Op.target : Op → Bool
  | .set e _ _ => e
  | .setAll e _ => e
  | .delete e _ => e
  | .read e => e
  | .clone _ f => f
  | .pmerge e _ => e
  | .addKinds e _ => e
  | .deleteKinds e _ => e
  | .nmerge e _ => e
  | .rmerge e _ => e
  | .strip e _ => e
  | .json e => e

theorem step_frame (old : Bool) (st : St) (o : Op) (g : Bool) (hg : g ≠ o.target) :
    (st.step old o).get g = st.get g := by
  cases o <;> simp only [St.step, get_put, Op.target] at * <;> first | rfl | (rw [if_neg hg])

/-! ### last edit wins -/

theorem runEdits_nil (s : Props) : s.runEdits [] = s := rfl
theorem runEdits_cons (s : Props) (e : Edit) (es : List Edit) : s.runEdits (e :: es) = (s.edit e).runEdits es := rfl

theorem edit_effect (s : Props) (e : Edit) (k : Key) :
    (lookup (s.edit e).m k = if e.1 = k then e.2 else lookup s.m k) ∧
    (k ∈ (s.edit e).mod ↔ if e.1 = k then e.2.isSome = true else k ∈ s.mod) ∧
    (k ∈ (s.edit e).del ↔ if e.1 = k then e.2.isNone = true else k ∈ s.del) := by
  obtain ⟨k', r⟩ := e
  cases r with
  | some v =>
    show (lookup (s.set k' v).m k = _) ∧ (k ∈ (s.set k' v).mod ↔ _) ∧ (k ∈ (s.set k' v).del ↔ _)
    rw [set_m, set_mod, set_del, lookup_insert, mem_sadd, mem_srem]
    by_cases h : k' = k
    · subst h; simp
    · have : ¬ k = k' := fun e => h e.symm
      simp [h, this]
  | none =>
    show (lookup (s.delete k').m k = _) ∧ (k ∈ (s.delete k').mod ↔ _) ∧ (k ∈ (s.delete k').del ↔ _)
    rw [delete_m, delete_mod, delete_del, lookup_erase, mem_sadd, mem_srem]
    by_cases h : k' = k
    · subst h; simp
    · have : ¬ k = k' := fun e => h e.symm
      simp [h, this]

theorem lastEdit_cons (e : Edit) (es : List Edit) (k : Key) :
    lastEdit (e :: es) k = match lastEdit es k with
      | some r => some r
      | none => if e.1 = k then some e.2 else none := rfl

theorem runEdits_lastEdit (s : Props) (es : List Edit) (k : Key) :
    (lookup (s.runEdits es).m k = match lastEdit es k with | none => lookup s.m k | some r => r) ∧
    (k ∈ (s.runEdits es).mod ↔ match lastEdit es k with | none => k ∈ s.mod | some r => r.isSome = true) ∧
    (k ∈ (s.runEdits es).del ↔ match lastEdit es k with | none => k ∈ s.del | some r => r.isNone = true) := by
  induction es generalizing s with
  | nil => exact ⟨rfl, Iff.rfl, Iff.rfl⟩
  | cons e es ih =>
    rw [runEdits_cons, lastEdit_cons]
    obtain ⟨a, b, c⟩ := ih (s.edit e)
    obtain ⟨a', b', c'⟩ := edit_effect s e k
    cases hl : lastEdit es k with
    | some r => rw [hl] at a b c; exact ⟨a, b, c⟩
    | none =>
      rw [hl] at a b c
      simp only at a b c ⊢
      by_cases h : e.1 = k
      · rw [if_pos h] at a' b' c' ⊢
        exact ⟨a.trans a', b.trans b', c.trans c'⟩
      · rw [if_neg h] at a' b' c' ⊢
        exact ⟨a.trans a', b.trans b', c.trans c'⟩

theorem setAll_eq_runEdits (s : Props) (kvs : KV) : s.setAll kvs = s.runEdits (editsOfKV kvs) := by
  induction kvs generalizing s with
  | nil => rfl
  | cons p kvs ih =>
    rw [setAll_cons, ih]; rfl

theorem inv_runEdits {L : KV} {s : Props} (h : Inv L s) (es : List Edit) : Inv L (s.runEdits es) := by
  induction es generalizing s with
  | nil => exact h
  | cons e es ih =>
    rw [runEdits_cons]
    apply ih
    obtain ⟨k, r⟩ := e
    cases r with
    | some v => exact inv_set h k v
    | none => exact inv_delete h k

/-! ### consumers -/

/-- the full form: stored map overlaid with the WHOLE current map, minus the deleted keys -/
theorem inv_reproduces_full {L : KV} {s : Props} (h : Inv L s) (k : Key) :
    lookup (applyDelta L s.m s.del) k = lookup s.m k := by
  unfold applyDelta
  rw [lookup_eraseAll, lookup_overlay]
  by_cases hd : k ∈ s.del
  · rw [if_pos hd, h.delDom k hd]
  · rw [if_neg hd]
    cases hv : lookup s.m k with
    | some v => rfl
    | none =>
      simp only
      have hm : k ∉ s.mod := fun hh => h.modDom k hh hv
      rw [← h.untouched k hm hd, hv]

theorem kinv_reproduces_full {L : List Kind} {e : Ent} (h : KInv L e) (k : Kind) :
    k ∈ applyKinds L e.kinds e.removed ↔ k ∈ e.kinds := by
  unfold applyKinds
  rw [List.mem_filter, List.mem_append]
  have h1 := h.disj k; have h2 := h.addedIn k; have h3 := h.removedOut k; have h4 := h.untouched k
  simp only [Bool.not_eq_true', List.contains_eq_mem, decide_eq_false_iff_not]
  grind

theorem sentProps_reproduces {L : KV} {s : Props} (h : Inv L s) (r : List Nat)
    (ht : propsTouched r = true) (hok : propsPartOk r = true) (k : Key) :
    lookup (applyDelta L (sentProps r s).1 (sentProps r s).2) k = lookup s.m k := by
  unfold propsPartOk at hok
  rw [ht] at hok
  simp only [Bool.not_true, Bool.false_or, Bool.and_eq_true, Bool.not_eq_true', Bool.or_eq_false_iff,
    Bool.or_eq_true] at hok
  obtain ⟨_, h4, h35⟩ := hok
  unfold sentProps
  simp only [h4, if_true]
  by_cases h3 : r.contains 3 = true
  · simp only [h3, if_true]; exact inv_reproduces h k
  · have h5 : r.contains 5 = true := h35.resolve_left h3
    simp only [h3, h5, if_true, Bool.false_eq_true, if_false]
    exact inv_reproduces_full h k

theorem sentKinds_reproduces {L : List Kind} {x : Ent} (h : KInv L x) (r : List Nat)
    (ht : kindsTouched r = true) (hok : kindsPartOk r = true) (k : Kind) :
    k ∈ applyKinds L (sentKinds r x).1 (sentKinds r x).2 ↔ k ∈ x.kinds := by
  unfold kindsPartOk at hok
  rw [ht] at hok
  simp only [Bool.not_true, Bool.false_or, Bool.and_eq_true, Bool.or_eq_true] at hok
  obtain ⟨h1, h02⟩ := hok
  unfold sentKinds
  simp only [h1, if_true]
  by_cases h0 : r.contains 0 = true
  · simp only [h0, if_true]; exact kinv_reproduces h k
  · have h2 : r.contains 2 = true := h02.resolve_left h0
    simp only [h0, h2, if_true, Bool.false_eq_true, if_false]
    exact kinv_reproduces_full h k

/-! ### the last edit wins, for merges and for kinds -/

theorem merge_lookup (s o : Props) (k : Key) : lookup (s.merge o).m k = mergeExpect s.m o.m o.del k := by
  rw [merge_m, lookup_eraseAll, lookup_overlay]
  unfold mergeExpect
  by_cases hd : k ∈ o.del
  · simp [hd]
  · simp only [hd, if_false, List.contains_eq_mem, decide_false, Bool.false_eq_true]
    cases lookup o.m k <;> rfl

theorem addKind_kinds (x : Ent) (k : Kind) : (x.addKind k).kinds = kadd x.kinds k := rfl
theorem addKind_added (x : Ent) (k : Kind) : (x.addKind k).added = kadd x.added k := rfl
theorem addKind_removed (x : Ent) (k : Kind) : (x.addKind k).removed = kremove x.removed k := rfl
theorem deleteKind_kinds (x : Ent) (k : Kind) : (x.deleteKind k).kinds = kremove x.kinds k := rfl
theorem deleteKind_added (x : Ent) (k : Kind) : (x.deleteKind k).added = kremove x.added k := rfl
theorem deleteKind_removed (x : Ent) (k : Kind) : (x.deleteKind k).removed = kadd x.removed k := rfl

/-- `AddKinds(ks)`: every listed kind ends up present, recorded as added, not recorded as deleted -/
theorem addKinds_post {L : List Kind} {x : Ent} (h : KInv L x) (ks : List (Option Kind)) (k : Kind) (hk : some k ∈ ks) :
    k ∈ (x.addKinds ks).kinds ∧ k ∈ (x.addKinds ks).added ∧ k ∉ (x.addKinds ks).removed := by
  induction ks generalizing x with
  | nil => cases hk
  | cons a ks ih =>
    cases a with
    | none =>
      rw [addKinds_none]
      exact ih h (by rw [List.mem_cons] at hk; exact hk.resolve_left (by simp))
    | some k' =>
      rw [addKinds_some]
      have h' := kinv_addKind h k'
      by_cases hin : some k ∈ ks
      · exact ih h' hin
      · have hkk : k = k' := by
          rw [List.mem_cons] at hk
          rcases hk with e | e
          · injection e
          · exact absurd e hin
        subst hkk
        -- the rest of the list does not mention k: its status stays what addKind k made it
        have frame : ∀ (y : Ent) (ks : List (Option Kind)), KInv L y → some k ∉ ks →
            (k ∈ (y.addKinds ks).kinds ↔ k ∈ y.kinds) ∧ (k ∈ (y.addKinds ks).added ↔ k ∈ y.added) ∧
            (k ∈ (y.addKinds ks).removed ↔ k ∈ y.removed) := by
          intro y ks
          induction ks generalizing y with
          | nil => intro _ _; exact ⟨Iff.rfl, Iff.rfl, Iff.rfl⟩
          | cons b ks ih2 =>
            intro hy hb
            rw [List.mem_cons, not_or] at hb
            cases b with
            | none => rw [addKinds_none]; exact ih2 y hy hb.2
            | some j =>
              rw [addKinds_some]
              have hne : k ≠ j := fun e => hb.1 (by rw [e])
              obtain ⟨a1, a2, a3⟩ := ih2 (y.addKind j) (kinv_addKind hy j) hb.2
              refine ⟨a1.trans ?_, a2.trans ?_, a3.trans ?_⟩
              · rw [addKind_kinds, mem_kadd]; exact ⟨fun hh => hh.resolve_right hne, Or.inl⟩
              · rw [addKind_added, mem_kadd]; exact ⟨fun hh => hh.resolve_right hne, Or.inl⟩
              · rw [addKind_removed, mem_kremove hy.nodupR]; exact ⟨fun hh => hh.1, fun hh => ⟨hh, hne⟩⟩
        obtain ⟨f1, f2, f3⟩ := frame (x.addKind k) ks h' hin
        refine ⟨f1.2 ?_, f2.2 ?_, fun hh => ?_⟩
        · rw [addKind_kinds, mem_kadd]; exact Or.inr rfl
        · rw [addKind_added, mem_kadd]; exact Or.inr rfl
        · have := f3.1 hh
          rw [addKind_removed, mem_kremove h.nodupR] at this
          exact this.2 rfl

/-- `DeleteKinds(ks)`: every listed kind ends up absent, recorded as deleted, not recorded as added -/
theorem deleteKinds_post {L : List Kind} {x : Ent} (h : KInv L x) (ks : List Kind) (k : Kind) (hk : k ∈ ks) :
    k ∉ (x.deleteKinds ks).kinds ∧ k ∈ (x.deleteKinds ks).removed ∧ k ∉ (x.deleteKinds ks).added := by
  induction ks generalizing x with
  | nil => cases hk
  | cons k' ks ih =>
    rw [deleteKinds_cons]
    have h' := kinv_deleteKind h k'
    by_cases hin : k ∈ ks
    · exact ih h' hin
    · have hkk : k = k' := by
        rw [List.mem_cons] at hk
        exact hk.resolve_right hin
      subst hkk
      have frame : ∀ (y : Ent) (ks : List Kind), KInv L y → k ∉ ks →
          (k ∈ (y.deleteKinds ks).kinds ↔ k ∈ y.kinds) ∧ (k ∈ (y.deleteKinds ks).added ↔ k ∈ y.added) ∧
          (k ∈ (y.deleteKinds ks).removed ↔ k ∈ y.removed) := by
        intro y ks
        induction ks generalizing y with
        | nil => intro _ _; exact ⟨Iff.rfl, Iff.rfl, Iff.rfl⟩
        | cons j ks ih2 =>
          intro hy hb
          rw [List.mem_cons, not_or] at hb
          rw [deleteKinds_cons]
          have hne : k ≠ j := hb.1
          obtain ⟨a1, a2, a3⟩ := ih2 (y.deleteKind j) (kinv_deleteKind hy j) hb.2
          refine ⟨a1.trans ?_, a2.trans ?_, a3.trans ?_⟩
          · rw [deleteKind_kinds, mem_kremove hy.nodupK]; exact ⟨fun hh => hh.1, fun hh => ⟨hh, hne⟩⟩
          · rw [deleteKind_added, mem_kremove hy.nodupA]; exact ⟨fun hh => hh.1, fun hh => ⟨hh, hne⟩⟩
          · rw [deleteKind_removed, mem_kadd]; exact ⟨fun hh => hh.resolve_right hne, Or.inl⟩
      obtain ⟨f1, f2, f3⟩ := frame (x.deleteKind k) ks h' hin
      refine ⟨fun hh => ?_, f3.2 ?_, fun hh => ?_⟩
      · have := f1.1 hh
        rw [deleteKind_kinds, mem_kremove h.nodupK] at this
        exact this.2 rfl
      · rw [deleteKind_removed, mem_kadd]; exact Or.inr rfl
      · have := f2.1 hh
        rw [deleteKind_added, mem_kremove h.nodupA] at this
        exact this.2 rfl

/-! ### the property part needs no hypothesis on the kinds -/

/-- both entities' PROPERTIES satisfy the invariant (nothing is said about kinds) -/
def SPInv (L : Loaded) (st : St) : Prop := ∀ e, Inv ((st.get e).base L) (st.get e).props

theorem spinv_put {L : Loaded} {st : St} (h : SPInv L st) (e : Bool) {x : Ent} (hx : Inv (x.base L) x.props) :
    SPInv L (st.put e x) := by
  intro f; rw [get_put]; by_cases hf : f = e
  · rw [if_pos hf]; exact hx
  · rw [if_neg hf]; exact h f

theorem spinv_init (L : Loaded) : SPInv L (St.init L) := by
  intro e
  have : (St.init L).get e = L.ent := by cases e <;> rfl
  rw [this]
  exact inv_load L.store

theorem spinv_step {L : Loaded} {st : St} (h : SPInv L st) (o : Op) : SPInv L (st.step false o) := by
  cases o with
  | set e k v => exact spinv_put h e (inv_set (h e) k v)
  | setAll e kvs => exact spinv_put h e (inv_setAll (h e) kvs)
  | delete e k => exact spinv_put h e (inv_delete (h e) k)
  | read e => exact h
  | clone e f =>
    refine spinv_put h f ?_
    show Inv ((st.get e).base L) (st.get e).props.clone
    rw [clone_eq]; exact h e
  | pmerge e f => exact spinv_put h e (inv_congr (base_or L _ _) (inv_merge_gen (h e) (h f)))
  | addKinds e ks => exact spinv_put h e (by rw [addKinds_props, addKinds_base]; exact h e)
  | deleteKinds e ks => exact spinv_put h e (by rw [deleteKinds_props, deleteKinds_base]; exact h e)
  | nmerge e f => exact spinv_put h e (inv_congr (base_or L _ _) (inv_merge_gen (h e) (h f)))
  | rmerge e f => exact spinv_put h e (inv_congr (base_or L _ _) (inv_merge_gen (h e) (h f)))
  | strip e ks => exact spinv_put h e (inv_strip _ ks)
  | json e => exact spinv_put h e (by rw [ent_json_roundtrip]; exact h e)

theorem spinv_run {L : Loaded} {st : St} (h : SPInv L st) (ops : List Op) : SPInv L (st.run false ops) := by
  induction ops generalizing st with
  | nil => exact h
  | cons o ops ih => exact ih (spinv_step h o)

end Dawgs.C12
