import Dawgs.Proofs.C01With
/-
C01 / S3b — MATCH (n) [WHERE p] WITH n MATCH (n)-[r]->(b) RETURN items: the hand-over frame of stage S3a with the single item `n`, then the
step frame of stage S2c for step number 0 (no earlier relationship, hence no uniqueness guard), then the projection over it.
-/
namespace Dawgs.C01.Proofs
open Dawgs Dawgs.Sql

-- ------------------------------------------------------------------ SQL: the step frame from a one-column hand-over frame

/-- frame `s2` = `Ch.stepFrame 0`: extends the carried nodes in `s0` by one outgoing relationship and its end node -/
theorem frameW0 (km : KindMap) (hinj : ∀ a b i, km.id? a = some i → km.id? b = some i → a = b) (g : Graph)
    (hknown : ∀ e ∈ g.edges, (km.id? e.kind).isSome = true) (ctes : List (String × Table)) (cs : List Chain)
    (hshape : ∀ c ∈ cs, ∃ y0, c = ⟨[], [y0]⟩)
    (hS : ctes.lookup "s0" = some ⟨["n0"], cs.map (rowOf km)⟩) (hedge : ctes.lookup "edge" = none) (hnode : ctes.lookup "node" = none)
    (rk nk : List String) (kr kn : Option (List Nat)) (hkr : S2.kindIds? km rk = some kr) (hkn : S2.kindIds? km nk = some kn)
    (hnn : ∀ n ∈ g.nodes, ∀ k, Json.lookup k n.props ≠ some .null) :
    BenignT (evalQuery (Ec (encode km g) ctes) (Ch.stepFrame 0 kr kn none none))
      (⟨["e0", "n0", "n1"], (stepRows g rk nk [] [] cs).map (rowOf km)⟩ : Table) := by
  have hq : Ch.stepFrame 0 kr kn none none = Query.simple (.select false
      [Ch.edgeCompositeOf "e0", Ch.carry "s0" "n0", S2.nodeCompositeOf "n1"]
      [.mk (.table ["s0"] none)
        [.mk .inner (.table ["edge"] (some "e0")) (some (.bin "=" (.rowCol (S2.col "s0" "n0") "id") (S2.col "e0" "start_id"))),
         .mk .inner (.table ["node"] (some "n1")) (some (Ch.joinOnE "n1" "e0" (S2.both none (S2.nodeKindsE "n1" kn))))]]
      (S2.both (S2.both none (kr.map (fun ids => Expr.bin "=" (S2.col "e0" "kind_id") (.anyOf (S2.kindsLit ids))))) none) [] none) := rfl
  rw [hq, evalQuery_simple, evalSelect_from' _ _ _ _ (by decide)]
  simp only [bind_assoc]
  let lv : Chain × EdgeRec × NodeRec → Level := fun t =>
    [(⟨"s0", ["n0"], rowOf km t.1⟩ : Binding), ⟨"e0", edgeCols, encodeEdge km t.2.1⟩, ⟨"n1", nodeCols, encodeNode km t.2.2⟩]
  have hfrom := chain_from km g (Ec (encode km g) ctes) (lookup_edge_Ec km g ctes hedge) (lookup_node_Ec km g ctes hnode) "s0" ["n0"]
    cs (rowOf km) (lookup_cte_Ec _ ctes "s0" _ hS) "e0" "n1"
    (.bin "=" (.rowCol (S2.col "s0" "n0") "id") (S2.col "e0" "start_id")) (Ch.joinOnE "n1" "e0" (S2.both none (S2.nodeKindsE "n1" kn)))
    pE (fun _ e n => pN nk [] e n) ?_ ?_
  · apply benT_bind hfrom
    apply benT_bind (filterE_ben lv _ (fun t => pW rk [] t.1 t.2.1) _ ?_)
    · left
      rw [mapE_map_ok lv _ (fun t => (rowOf km ⟨t.1.es ++ [t.2.1], t.1.ns ++ [t.2.2]⟩, some ((Ec (encode km g) ctes).push (lv t))))]
      · simp only [ebind_ok, epure_ok, stepRows, List.map_map, Function.comp_def]
        rfl
      · intro t ht
        have ht' := (List.mem_filter.mp ht).1
        obtain ⟨c, hc, ht'⟩ := List.mem_flatMap.mp ht'
        obtain ⟨y0, rfl⟩ := hshape c hc
        obtain ⟨e, he, ht'⟩ := List.mem_flatMap.mp ht'
        obtain ⟨n, hn, rfl⟩ := List.mem_map.mp ht'
        have h0 : evalExpr ((Ec (encode km g) ctes).push (lv (⟨[], [y0]⟩, e, n))) (S2.col "s0" "n0") = .ok (nodeVal km y0) := by
          rw [eval_col]; simp [lv, EEnv.push, lookupQualifiedV, findBinding, colVals, rowOf]
        have he0 : evalExpr ((Ec (encode km g) ctes).push (lv (⟨[], [y0]⟩, e, n))) (Ch.edgeCompositeOf "e0") = .ok (edgeVal km e) := by
          unfold Ch.edgeCompositeOf
          rw [evalExpr, evalExpr]
          simp [evalExprs, eval_col, lv, EEnv.push, lookupQualifiedV, findBinding, colVals, edgeCols, encodeEdge, edgeVal]
        have hn1 : evalExpr ((Ec (encode km g) ctes).push (lv (⟨[], [y0]⟩, e, n))) (S2.nodeCompositeOf "n1") = .ok (nodeVal km n) :=
          eval_nodeCompositeOf "n1" km _ _ n (by simp [lv, findBinding, nB])
        rw [evalProj, he0, evalProj, eval_carry, h0, evalProj, hn1, evalProj]
        · simp [rowOf]
        all_goals (intro hh; first | (unfold Ch.carry at hh; cases hh) | (unfold Ch.edgeCompositeOf at hh; cases hh) | (unfold S2.nodeCompositeOf at hh; cases hh))
    · -- WHERE
      intro t ht
      obtain ⟨c, hc, ht'⟩ := List.mem_flatMap.mp ht
      obtain ⟨y0, rfl⟩ := hshape c hc
      obtain ⟨e, he, ht'⟩ := List.mem_flatMap.mp ht'
      obtain ⟨n, hn, rfl⟩ := List.mem_map.mp ht'
      have hem := (List.mem_filter.mp he).1
      have hkid : lookupQualifiedV "e0" "kind_id" (lv (⟨[], [y0]⟩, e, n) :: (Ec (encode km g) ctes).levels) = .ok (.int ((km.id? e.kind).getD 0)) := by
        simp [lv, lookupQualifiedV, findBinding, colVals, edgeCols, encodeEdge]
      have hk := stepKinds_ben km hinj (Ec (encode km g) ctes) (lv (⟨[], [y0]⟩, e, n)) "e0" e hkid (hknown e hem) rk kr hkr
      have hw : S2.both (S2.both none (kr.map (fun ids => Expr.bin "=" (S2.col "e0" "kind_id") (.anyOf (S2.kindsLit ids))))) none =
          kr.map (fun ids => Expr.bin "=" (S2.col "e0" "kind_id") (.anyOf (S2.kindsLit ids))) := by
        cases kr <;> rfl
      rw [hw]
      have := whTest_ben _ _ _ _ hk
      have hb : pW rk [] ⟨[], [y0]⟩ e = (some (Cy.kindAnyOf e.kind rk) == some true) := by
        simp only [pW, okPreds, List.all_nil, Bool.true_and, List.map_nil, List.contains_nil, Bool.not_false, Bool.and_true]
        cases Cy.kindAnyOf e.kind rk <;> rfl
      rw [hb]; exact this
  · -- ON of the edge join
    intro c hc e _
    obtain ⟨y0, rfl⟩ := hshape c hc
    refine Or.inl (whTest_some _ _ _ _ ?_)
    have h2 : evalExpr ((Ec (encode km g) ctes).push [(⟨"s0", ["n0"], rowOf km ⟨[], [y0]⟩⟩ : Binding), ⟨"e0", edgeCols, encodeEdge km e⟩])
        (S2.col "s0" "n0") = .ok (nodeVal km y0) := by
      rw [eval_col]; simp [EEnv.push, lookupQualifiedV, findBinding, colVals, rowOf]
    rw [eval_bin _ "=" _ _ (by decide) (col_not_any ..).1 (col_not_any ..).2, rowCol_node_id _ _ km y0 h2, eval_col]
    simp [EEnv.push, lookupQualifiedV, findBinding, colVals, edgeCols, encodeEdge, binOp_eq, vCompare_int_eq, pE]
  · -- ON of the node join
    intro c hc e _ n hnm
    exact joinOnE_ben km hinj _ _ "n1" "e0" e n (by simp [findBinding, nB]) (hnn n hnm)
      (by simp [lookupQualifiedV, findBinding, colVals, edgeCols, encodeEdge]) nk kn hkn [] none rfl

/-- the hand-over frame `(with s1 as (<node frame>) select <WITH items> from s1)` where no frame is visible yet -/
theorem handover_eval (km : KindMap) (g : Graph) (w : Option Expr) (wsem : Option (NodeRec → Cy.Tri)) (hW : WOK km g (E0 (encode km g)) w wsem)
    (ws : List S3.WItem) (cs : List String) (hlen : ws.length = cs.length) :
    BenignT (evalQuery (E0 (encode km g)) (.mk false
        [.mk "s1" none none (Sql.Query.simple (.select false [S1.nodeComposite] [.mk (.table ["node"] (some "n0")) []] w [] none))]
        (.select false (S3.witemsTr ws cs) [.mk (.table ["s1"] none) []] none [] none) [] none none))
      (⟨cs, (g.nodes.filter (fun n => keepW n wsem)).map (fun n => ws.map (wval km n))⟩ : Table) := by
  have hf1 := frame_eval km g w wsem hW
  generalize g.nodes.filter (fun n => keepW n wsem) = ns at hf1 ⊢
  rw [evalQuery_cte1]
  apply benT_bind hf1
  left
  have hl : lookupTableE (⟨encode km g, [], [("s1", (⟨["n0"], ns.map (fun n => [nodeVal km n])⟩ : Table))], [], none⟩ : EEnv) "s1" =
      .ok ⟨["n0"], ns.map (fun n => [nodeVal km n])⟩ := by simp [lookupTableE]
  rw [evalSelect_single _ _ _ _ _ _ hl (hasAggL_witems ws cs)]
  have hrows : ((⟨["n0"], ns.map (fun n => [nodeVal km n])⟩ : Table).rows.map
      (fun r => [(⟨(none : Option String).getD "s1", (⟨["n0"], ns.map (fun n => [nodeVal km n])⟩ : Table).cols, r⟩ : Binding)])) =
      ns.map (fun n => [(⟨"s1", ["n0"], [nodeVal km n]⟩ : Binding)]) := by
    simp [List.map_map, Function.comp_def]
  rw [hrows, whTest_none, filterE_true]
  simp only [ebind_ok]
  rw [mapE_map_ok (fun n => [(⟨"s1", ["n0"], [nodeVal km n]⟩ : Binding)]) _
    (fun n => (ws.map (wval km n), some ((⟨encode km g, [], [("s1", (⟨["n0"], ns.map (fun n => [nodeVal km n])⟩ : Table))], [], none⟩ : EEnv).push
      [(⟨"s1", ["n0"], [nodeVal km n]⟩ : Binding)])))]
  · simp only [ebind_ok, epure_ok, List.map_map, Function.comp_def, projNames_witems _ ws cs hlen]
  · intro n _
    rw [evalProj_witems km n _ _ ws cs hlen]; rfl

-- ------------------------------------------------------------------ SQL: the whole statement

theorem cols_s2w (km : KindMap) (c : Chain) (hc : ∃ x0 y0 y1, c = ⟨[x0], [y0, y1]⟩) (E' : EEnv) (x : Ch.Ref) (r : RefE)
    (h : refGet c x = some r) :
    evalExpr (E'.push [(⟨"s2", ["e0", "n0", "n1"], rowOf km c⟩ : Binding)]) (S2.col "s2" (Ch.colOf x)) = .ok (r.val km) := by
  obtain ⟨x0, y0, y1, rfl⟩ := hc
  rw [eval_col]
  cases x with
  | node i =>
    rcases i with _ | _ | i <;> simp [refGet] at h <;> subst h <;>
      simp [Ch.colOf, Ch.nN, EEnv.push, lookupQualifiedV, findBinding, colVals, rowOf, RefE.val]
  | rel i =>
    rcases i with _ | i <;> simp [refGet] at h <;> subst h <;>
      simp [Ch.colOf, Ch.eN, EEnv.push, lookupQualifiedV, findBinding, colVals, rowOf, RefE.val]

/-- the matches of stage S3b in the statement's order: every kept node, then its outgoing relationships with their end nodes -/
def hopFrom (g : Graph) (q : S3b.Query) : List Chain :=
  (g.nodes.filter (keepS q.base)).flatMap (fun n => ext g q.hop.rkinds q.hop.nkinds ⟨[], [n]⟩)

theorem ext_shape0 (g : Graph) (rk nk : List String) (y0 : NodeRec) (c' : Chain) (h : c' ∈ ext g rk nk ⟨[], [y0]⟩) :
    ∃ x0 y0' y1, c' = ⟨[x0], [y0', y1]⟩ := by
  rw [ext_eq_pairs] at h
  obtain ⟨eb, _, rfl⟩ := List.mem_map.mp h
  exact ⟨_, _, _, rfl⟩

/-- SQL SIDE of S3b -/
theorem sql_side3b (km : KindMap) (g : Graph) (hok : GraphOK2 km g) (q : S3b.Query) (st : Stmt) (h : q.tr km = some st) :
    ∃ names, BenignT (Sql.eval (encode km g) st []) (⟨names, (hopFrom g q).map (fun c => q.items.map (itemValCh km c))⟩ : Table) := by
  have hinj := hok.inj
  have hnd := hok.nodup
  unfold S3b.Query.tr at h
  cases hwf : q.wf with
  | false => simp [hwf] at h
  | true =>
  simp only [hwf, Bool.not_true, Bool.false_eq_true, if_false] at h
  have hwf' := hwf
  unfold S3b.Query.wf at hwf'
  simp only [Bool.and_eq_true, decide_eq_true_eq, List.all_eq_true] at hwf'
  obtain ⟨⟨⟨_, _⟩, hitems⟩, _⟩ := hwf'
  cases hw : S1.whereOf km q.base with
  | none => simp [hw] at h
  | some w =>
  cases hk : Ch.hopKinds km q.hop with
  | none => simp [hw, hk] at h
  | some k0 =>
  obtain ⟨kr, kn⟩ := k0
  obtain ⟨hkr, hkn⟩ := hopKinds_some km q.hop kr kn hk
  simp only [hw, hk, Option.some.injEq] at h
  subst h
  have hW : WOK km g (E0 (encode km g)) w (semW q.base) := whereOf_ok km g hok.toGraphOK q.base w _ hw
  have hf0 := handover_eval km g w (semW q.base) hW [.node none] ["n0"] rfl
  have hkeep : (fun n => keepW n (semW q.base)) = keepS q.base := by funext n; exact keepW_semW q.base n
  rw [hkeep] at hf0
  -- the carried nodes as zero-hop chains
  have hrows0 : (g.nodes.filter (keepS q.base)).map (fun n => [S3.WItem.node none].map (wval km n)) =
      ((g.nodes.filter (keepS q.base)).map (fun n => (⟨[], [n]⟩ : Chain))).map (rowOf km) := by
    simp [List.map_map, Function.comp_def, wval, rowOf]
  rw [hrows0] at hf0
  generalize hcs : (g.nodes.filter (keepS q.base)).map (fun n => (⟨[], [n]⟩ : Chain)) = cs at hf0
  have hsh0 : ∀ c ∈ cs, ∃ y0, c = ⟨[], [y0]⟩ := by
    intro c hc; rw [← hcs] at hc; obtain ⟨n, _, rfl⟩ := List.mem_map.mp hc; exact ⟨n, rfl⟩
  have hf2 := frameW0 km hinj g hok.edgeKinds [("s0", ⟨["n0"], cs.map (rowOf km)⟩)] cs hsh0 (by simp [List.lookup]) (by simp [List.lookup])
    (by simp [List.lookup]) q.hop.rkinds q.hop.nkinds kr kn hkr hkn hok.noNull
  rw [stepRows_eq g hnd] at hf2
  have hM : cs.flatMap (extW g q.hop.rkinds q.hop.nkinds [] []) = hopFrom g q := by
    rw [← hcs]
    unfold hopFrom
    rw [List.flatMap_map]
    congr 1
    funext n
    exact extW_nil g _ _ _
  rw [hM] at hf2
  have hsh2 : ∀ c ∈ hopFrom g q, ∃ x0 y0 y1, c = ⟨[x0], [y0, y1]⟩ := by
    intro c hc
    unfold hopFrom at hc
    obtain ⟨n, _, hc⟩ := List.mem_flatMap.mp hc
    exact ext_shape0 g _ _ n c hc
  have hrefs : ∀ c ∈ hopFrom g q, ∀ it ∈ q.items, (refGet c it.ref).isSome = true := by
    intro c hc it hit
    obtain ⟨x0, y0, y1, rfl⟩ := hsh2 c hc
    have hr := hitems it hit
    obtain ⟨hr1, hr2⟩ := refs_mem q.ch it.ref (by simpa using hr)
    cases hx : it.ref with
    | node i =>
      have : i < 2 := hr1 i hx
      rcases i with _ | _ | i
      · simp [refGet]
      · simp [refGet]
      · omega
    | rel i =>
      have : i < 1 := hr2 i hx
      rcases i with _ | i
      · simp [refGet]
      · omega
  obtain ⟨names, out, hsel, hout⟩ := final_select km (encode km g)
    [("s2", ⟨["e0", "n0", "n1"], (hopFrom g q).map (rowOf km)⟩), ("s0", ⟨["n0"], cs.map (rowOf km)⟩)]
    q.ch "s2" ["e0", "n0", "n1"] (hopFrom g q) (by simp [List.lookup])
    (fun c hc E' x r hr => cols_s2w km c (hsh2 c hc) E' x r hr) hrefs
  refine ⟨names, ?_⟩
  rw [eval_ctesStmt, evalCtes_cons]
  simp only [bind_assoc]
  apply benT_bind hf0
  rw [evalCtes_cons]
  simp only [bind_assoc]
  have hE : ({ E0 (encode km g) with ctes := ("s0", (⟨["n0"], cs.map (rowOf km)⟩ : Table)) :: (E0 (encode km g)).ctes } : EEnv) =
      Ec (encode km g) [("s0", ⟨["n0"], cs.map (rowOf km)⟩)] := rfl
  rw [hE]
  apply benT_bind hf2
  left
  rw [evalCtes]
  have hits : q.ch.items = q.items := rfl
  rw [hits] at hsel hout
  simp only [ebind_ok, Ec, E0] at hsel ⊢
  rw [hsel]
  simp only [ebind_ok, epure_ok, hout]

-- ------------------------------------------------------------------ Cypher side

section Cy
open Dawgs.Cy

/-- the first part `MATCH (v:kinds) [WHERE p] WITH <plain items>`: one environment per kept node, holding the exported names only -/
theorem evalParts_with (g : Graph) (hnd : (g.nodes.map (·.id)).Nodup) (v : String) (kinds : List String) (wh : Option S1.Pred) (ws : List S3.WItem) :
    evalParts .none g true [[]] [⟨[.match false [.mk none false false (.mk (some v) kinds []) []] (wh.map (S1.Pred.toCy v))],
        S3.plainProj (ws.map (S3.WItem.toCy v)), none⟩] =
      .ok ((g.nodes.filter (keepS ⟨v, kinds, wh, [], none⟩)).map (fun n => (Cy.projNames (ws.map (S3.WItem.toCy v))).zip (ws.map (wvalC n)))) := by
  have hn : ∀ n ∈ g.nodes, g.node? n.id = some n := find_of_nodup g.nodes hnd
  have hc : evalClauses .none g true [[]] [Clause.match false [.mk none false false (.mk (some v) kinds []) []] (wh.map (S1.Pred.toCy v))] =
      .ok ((g.nodes.filter (keepS ⟨v, kinds, wh, [], none⟩)).map (fun n => [(v, CVal.node n.id)])) := clause_eval g ⟨v, kinds, wh, [], none⟩ hn
  generalize hns : g.nodes.filter (keepS ⟨v, kinds, wh, [], none⟩) = ns at hc ⊢
  have hnsn : ∀ n ∈ ns, g.node? n.id = some n := fun n h => hn n (List.mem_filter.mp (hns ▸ h)).1
  have hpr1 : plainRows .none g (Cy.projNames (ws.map (S3.WItem.toCy v))) (ws.map (S3.WItem.toCy v)) (ns.map (fun n => [(v, CVal.node n.id)])) =
      .ok (ns.map (fun n => (ws.map (wvalC n), (Cy.projNames (ws.map (S3.WItem.toCy v))).zip (ws.map (wvalC n)) ++ [(v, CVal.node n.id)]))) := by
    unfold plainRows
    apply mapE_map_ok
    intro n hmem
    have : (ws.map (S3.WItem.toCy v)).mapE (fun it => Cy.evalExpr .none g [(v, CVal.node n.id)] false it.e) = .ok (ws.map (wvalC n)) :=
      mapE_map_ok _ _ _ ws (fun w _ => eval_witemC g n v (hnsn n hmem) w)
    simp only [this, ebind_ok, epure_ok]
  have hp1 := evalProjection_plain g _ _ _ (anyAgg_witems v ws) hpr1
  have hq : Quirks.none.withDropsOrderSkipLimit = false := rfl
  simp only [evalParts, hq, Bool.false_eq_true, if_false, hc, ebind_ok, hp1, epure_ok, List.map_map, Function.comp_def]

/-- a MATCH of one outgoing hop whose start node is already bound (to `n`): the extensions of the zero-hop chain `[n]` -/
theorem clause_from_bound (g : Graph) (hn : ∀ n ∈ g.nodes, g.node? n.id = some n) (v : String) (hop : Ch.Hop) (hnd3 : [v, hop.r, hop.n].Nodup)
    (ns : List NodeRec) (hns : ∀ n ∈ ns, n ∈ g.nodes) :
    evalClauses .none g false (ns.map (fun n => [(v, CVal.node n.id)])) [.match false [.mk none false false (.mk (some v) [] []) [stepOf hop]] none] =
      .ok ((ns.flatMap (fun n => cyChainEC g [hop] [(v, CVal.node n.id)] ⟨[], [n]⟩)).map (·.1)) := by
  have hvr : v ≠ hop.r ∧ v ≠ hop.n ∧ hop.r ≠ hop.n := by
    simp only [List.nodup_cons, List.mem_cons, List.mem_nil_iff, or_false, not_or, List.nodup_nil, and_true, not_false_eq_true] at hnd3
    exact ⟨hnd3.1.1, hnd3.1.2, hnd3.2⟩
  have hnames : hopNames [hop] = [hop.r, hop.n] := by simp [hopNames]
  have hmp : ∀ n ∈ ns, matchPart .none g ⟨[(v, CVal.node n.id)], []⟩ (.mk none false false (.mk (some v) [] []) [stepOf hop]) =
      .ok ((cyChainEC g [hop] [(v, CVal.node n.id)] ⟨[], [n]⟩).map (fun ec => (⟨ec.1, (ec.2.es.map (·.id)).reverse⟩ : MState))) := by
    intro n hmem
    have hnode := hn n (hns n hmem)
    rw [matchPart]
    have hlk : ([(v, CVal.node n.id)] : Env).lookup v = some (.node n.id) := by simp [List.lookup]
    simp only [Bool.or_self, Bool.false_eq_true, if_false, NodePat.var, Option.bind_some, hlk, Option.isSome_some, Quirks.none,
      Bool.false_and, flatMap_replicate_one, mapE_singleton]
    have hmn : matchNode {} g ⟨[(v, CVal.node n.id)], []⟩ n.id (.mk (some v) [] []) = .ok (some ⟨[(v, CVal.node n.id)], []⟩) := by
      rw [matchNode]
      have hpm := propsMatch_nil g [(v, CVal.node n.id)] n.props
      simp only [Quirks.none] at hpm
      simp only [hnode, kindsAllOf, List.all_nil, Bool.not_true, Bool.false_eq_true, if_false, hpm, ebind_ok, hlk, beq_self_eq_true, if_true,
        epure_ok, List.isEmpty_nil, Bool.true_or]
    rw [hmn]
    simp only [ebind_ok]
    have h2 := matchSteps_chain g [hop] [(v, CVal.node n.id)] ⟨[], [n]⟩ n [n.id] [] true (some v) true rfl
      (by
        intro x hx
        rw [hnames] at hx
        have hxv : (x == v) = false := by
          cases hh : x == v with
          | false => rfl
          | true =>
            have := eq_of_beq hh
            subst this
            simp only [List.mem_cons, List.mem_nil_iff, or_false] at hx
            rcases hx with hx | hx
            · exact absurd hx hvr.1
            · exact absurd hx hvr.2.1
        simp only [List.lookup, hxv])
      (by rw [hnames]; simp [hvr.2.2])
    simp only [Quirks.none, List.map_nil, List.reverse_nil, List.map_cons] at h2
    simp only [h2, ebind_ok, epure_ok, List.flatten_cons, List.flatten_nil, List.append_nil, cyChain_states]
  simp only [evalClauses, evalClause, ebind_ok]
  rw [mapE_map_ok (fun n => [(v, CVal.node n.id)]) _ (fun n => (cyChainEC g [hop] [(v, CVal.node n.id)] ⟨[], [n]⟩).map (·.1)) ns]
  · simp only [ebind_ok, epure_ok, List.flatMap_def, List.map_flatten, List.map_map, Function.comp_def]
  · intro n hmem
    simp only [matchParts, mapE_singleton, hmp n hmem, ebind_ok, List.flatten_cons, List.flatten_nil, List.append_nil, filterE_true,
      Bool.false_and, Bool.false_eq_true, if_false, epure_ok, List.map_map, Function.comp_def, ite_self, Bool.and_false]

/-- the matches of stage S3b in Cypher's enumeration order, with their binding environments -/
def hopECs (g : Graph) (q : S3b.Query) : List (Env × Chain) :=
  (g.nodes.filter (keepS q.base)).flatMap (fun n => cyChainEC g [q.hop] [(q.var, CVal.node n.id)] ⟨[], [n]⟩)

theorem hopECs_chains (g : Graph) (q : S3b.Query) : (hopECs g q).map (·.2) = hopFrom g q := by
  unfold hopECs hopFrom
  rw [List.map_flatMap]
  congr 1
  funext n
  rw [cyChainEC_chains]
  simp only [chainExt]
  exact flatMap_singleton_id _

theorem hopECs_inv (g : Graph) (q : S3b.Query) (hnd3 : [q.var, q.hop.r, q.hop.n].Nodup) (hn : ∀ n ∈ g.nodes, g.node? n.id = some n)
    (hedge : ∀ e ∈ g.edges, g.edge? e.id = some e) (ec : Env × Chain) (hec : ec ∈ hopECs g q) :
    EnvOK q.ch.nodeNames q.ch.relNames ec.2 ec.1 ∧ InGraph g ec.2 ∧ ec.2.ns.length = q.ch.hops.length + 1 ∧ ec.2.es.length = q.ch.hops.length := by
  have hvr : q.var ≠ q.hop.r ∧ q.var ≠ q.hop.n ∧ q.hop.r ≠ q.hop.n := by
    simp only [List.nodup_cons, List.mem_cons, List.mem_nil_iff, or_false, not_or, List.nodup_nil, and_true, not_false_eq_true] at hnd3
    exact ⟨hnd3.1.1, hnd3.1.2, hnd3.2⟩
  have hnames : hopNames [q.hop] = [q.hop.r, q.hop.n] := by simp [hopNames]
  unfold hopECs at hec
  obtain ⟨a, ha, hec⟩ := List.mem_flatMap.mp hec
  have ham := (List.mem_filter.mp ha).1
  have h0 : EnvOK [q.var] [] ⟨[], [a]⟩ [(q.var, .node a.id)] := by
    constructor
    · intro i v y hv hy
      cases i with
      | zero => simp only [List.getElem?_cons_zero, Option.some.injEq] at hv hy; subst hv hy; simp [List.lookup]
      | succ k => simp at hv
    · intro i v x hv _; simp at hv
  have hin0 : InGraph g ⟨[], [a]⟩ := by
    constructor
    · intro y hy; simp only [List.mem_singleton] at hy; subst hy; exact hn _ ham
    · intro x hx; cases hx
  have := cyChainEC_inv g hedge [q.hop] [q.var] [] _ _ h0 hin0 rfl rfl
    (by
      intro x hx
      rw [hnames] at hx
      have hxv : (x == q.var) = false := by
        cases hh : x == q.var with
        | false => rfl
        | true =>
          have := eq_of_beq hh
          subst this
          simp only [List.mem_cons, List.mem_nil_iff, or_false] at hx
          rcases hx with hx | hx
          · exact absurd hx hvr.1
          · exact absurd hx hvr.2.1
      simp only [List.lookup, hxv])
    (by rw [hnames]; simp [hvr.2.2]) ec hec
  obtain ⟨h1, h2, h3, h4⟩ := this
  exact ⟨h1, h2, by rw [h3]; rfl, by rw [h4]; rfl⟩

theorem projNames_var (v : String) (a : Option String) : Cy.projNames [⟨.var v, a⟩] = [a.getD v] := by
  cases a <;> rfl

/-- CYPHER SIDE of S3b -/
theorem cy_side3b (g : Graph) (hnd : (g.nodes.map (·.id)).Nodup) (hedge : ∀ e ∈ g.edges, g.edge? e.id = some e) (q : S3b.Query) (hwf : q.wf = true) :
    Cy.eval .none g q.toCy = .ok (Cy.projNames (q.items.map (Ch.Item.toCy q.ch)), (hopECs g q).map (fun ec => q.items.map (itemCCh ec.2))) := by
  have hn : ∀ n ∈ g.nodes, g.node? n.id = some n := find_of_nodup g.nodes hnd
  unfold S3b.Query.wf at hwf
  simp only [Bool.and_eq_true, decide_eq_true_eq, List.all_eq_true, beq_iff_eq] at hwf
  obtain ⟨⟨⟨hnd3, hwa⟩, hitems⟩, _⟩ := hwf
  have hp := evalParts_with g hnd q.var q.kinds q.wh [.node q.walias]
  have henvs : (g.nodes.filter (keepS ⟨q.var, q.kinds, q.wh, [], none⟩)).map
      (fun n => (Cy.projNames ([S3.WItem.node q.walias].map (S3.WItem.toCy q.var))).zip ([S3.WItem.node q.walias].map (wvalC n))) =
      (g.nodes.filter (keepS q.base)).map (fun n => [(q.var, CVal.node n.id)]) := by
    apply List.map_congr_left
    intro n _
    simp only [List.map_cons, List.map_nil, S3.WItem.toCy, projNames_var, hwa, wvalC, List.zip_cons_cons, List.zip_nil_right]
  rw [henvs] at hp
  simp only [List.map_cons, List.map_nil, S3.WItem.toCy] at hp
  have hcl := clause_from_bound g hn q.var q.hop hnd3 (g.nodes.filter (keepS q.base)) (fun n h => (List.mem_filter.mp h).1)
  have hpr : plainRows .none g (Cy.projNames (q.items.map (Ch.Item.toCy q.ch))) (q.items.map (Ch.Item.toCy q.ch)) ((hopECs g q).map (·.1)) =
      .ok ((hopECs g q).map (fun ec => (q.items.map (itemCCh ec.2),
        (Cy.projNames (q.items.map (Ch.Item.toCy q.ch))).zip (q.items.map (itemCCh ec.2)) ++ ec.1))) := by
    unfold plainRows
    apply mapE_map_ok
    intro ec hec
    obtain ⟨hok, hin, hl1, hl2⟩ := hopECs_inv g q hnd3 hn hedge ec hec
    have : (q.items.map (Ch.Item.toCy q.ch)).mapE (fun it => Cy.evalExpr .none g ec.1 false it.e) = .ok (q.items.map (itemCCh ec.2)) := by
      apply mapE_map_ok
      intro it hit
      obtain ⟨⟨r, hr⟩, hn1, hn2⟩ := ref_ok q.ch ec.2 hl1 hl2 it.ref (hitems it hit)
      exact eval_itemCCh g q.ch ec.1 ec.2 hok hin it r hr hn1 hn2
    simp only [this, ebind_ok, epure_ok]
  have hp2 := evalProjection_plain g _ _ _ (anyAgg_itemsCh q.ch q.items) hpr
  have hnil : ∀ (b : Bool) (envs : List Env), evalClauses .none g b envs [] = .ok envs := fun b envs => by rw [evalClauses]
  unfold Cy.eval S3b.Query.toCy
  have hstep : ((.mk (some q.hop.r) q.hop.rkinds .out none [], .mk (some q.hop.n) q.hop.nkinds []) : RelPat × NodePat) = stepOf q.hop := rfl
  simp only [hp, ebind_ok, List.isEmpty_cons, hstep, hcl]
  unfold hopECs at hp2
  simp only [hp2, ebind_ok, epure_ok, List.map_map, Function.comp_def]
  rfl

end Cy

/-- STAGE S3b (MATCH (n) [WHERE p] WITH n MATCH (n)-[r]->(b) RETURN items), for ALL graphs satisfying `GraphOK2` and ALL queries of the stage:
the reference semantics yields a result; the emitted statement (hand-over frame, then the step frame from the carried node) either yields a
table whose client-visible rows are the Cypher rows in the same order, or the SQL model stops with `unmodelled` -/
theorem s3b_sound (km : KindMap) (g : Graph) (hok : GraphOK2 km g) (q : S3b.Query) (st : Stmt) (h : q.tr km = some st) :
    ∃ r names rows, Cy.eval .none g q.toCy = .ok r ∧ BenignT (Sql.eval (encode km g) st []) (⟨names, rows⟩ : Table) ∧
      sqlRows ⟨names, rows⟩ = cyRows g km r := by
  have hnd := hok.nodup
  have hn : ∀ n ∈ g.nodes, g.node? n.id = some n := find_of_nodup g.nodes hnd
  have he : ∀ e ∈ g.edges, g.edge? e.id = some e := fun e hm => hok.edge? e hm
  have hwf : q.wf = true := by
    unfold S3b.Query.tr at h
    cases hwf : q.wf with
    | true => rfl
    | false => simp [hwf] at h
  have hwf' := hwf
  unfold S3b.Query.wf at hwf'
  simp only [Bool.and_eq_true, decide_eq_true_eq, List.all_eq_true, beq_iff_eq] at hwf'
  obtain ⟨⟨⟨hnd3, _⟩, hitems⟩, _⟩ := hwf'
  obtain ⟨names, hsql⟩ := sql_side3b km g hok q st h
  refine ⟨_, names, _, cy_side3b g hnd he q hwf, hsql, ?_⟩
  unfold sqlRows cyRows
  simp only [List.map_map, Function.comp_def]
  rw [← hopECs_chains g q, List.map_map]
  apply List.map_congr_left
  intro ec hec
  obtain ⟨_, hin, hl1, hl2⟩ := hopECs_inv g q hnd3 hn he ec hec
  simp only [Function.comp_def]
  rw [valsToR_map, List.map_map]
  apply List.map_congr_left
  intro it hit
  obtain ⟨⟨r, hr⟩, _, _⟩ := ref_ok q.ch ec.2 hl1 hl2 it.ref (hitems it hit)
  exact itemCh_toR km g ec.2 hin it r hr

-- ------------------------------------------------------------------ the recogniser of stage S3b is sound

/-- an accepted parsed query is exactly the Cypher reading of the S3b query returned -/
theorem ofCyWithHop_sound (q : Cy.Query) (s : S3b.Query) (h : ofCyWithHop q = some s) : s.toCy = q := by
  unfold ofCyWithHop at h
  split at h
  · rename_i v kinds wh proj v2 step hparts hclauses
    split at h
    · cases h
    · rename_i hcond
      simp only [Bool.or_eq_true, not_or, Bool.not_eq_true, Bool.not_eq_false', bne_iff_ne, ne_eq, Decidable.not_not] at hcond
      obtain ⟨⟨hpp, hpr⟩, hv2⟩ := hcond
      simp only [bind, Option.bind_eq_some_iff, pure] at h
      obtain ⟨w, hw, wa, hwa, hop, hhop, items, hitems, h⟩ := h
      split at h
      · simp only [Option.some.injEq] at h
        subst h
        have hit := chItemsOf_sound ⟨v, [], [hop], [], []⟩ (S3b.Query.ch ⟨v, kinds, w, wa, hop, items⟩) rfl rfl _ _ hitems
        have hst := chHopOf_sound step hop hhop
        have hp1 := isPlainProj_eq proj hpp
        have hp2 := isPlainProj_eq q.ret hpr
        have hwh : w.map (S1.Pred.toCy v) = wh := by
          cases wh with
          | none => simp only [Option.some.injEq] at hw; subst hw; rfl
          | some e =>
            obtain ⟨p, hp, rfl⟩ := Option.map_eq_some_iff.mp hw
            simp only [Option.map_some, (predOf_sound v).1 e p hp]
        have hproj : proj.items = [⟨.var v, wa⟩] := by
          split at hwa
          · rename_i v' a hpi
            split at hwa
            · rename_i hv
              cases hwa
              rw [hpi, eq_of_beq hv]
            · cases hwa
          · cases hwa
        cases q with
        | mk parts clauses ret =>
          simp only at hparts hclauses hp2 hit
          subst hparts hclauses hv2
          have hstep : ((.mk (some hop.r) hop.rkinds .out none [], .mk (some hop.n) hop.nkinds []) : Cy.RelPat × Cy.NodePat) = step := hst
          simp only [S3b.Query.toCy, hit, hwh, hstep, Cy.Query.mk.injEq, true_and]
          refine ⟨?_, hp2.symm⟩
          rw [hp1, hproj]
      · cases h
  · cases h

end Dawgs.C01.Proofs
