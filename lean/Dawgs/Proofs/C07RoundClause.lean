import Dawgs.Proofs.C07RoundPat
set_option linter.unusedSimpArgs false
set_option linter.unusedVariables false
set_option linter.unusedSectionVars false
/-! `build ∘ treeOf = id`: WHERE, projections (WITH / RETURN bodies), reading clauses. -/
namespace Dawgs.C07
open Dawgs.Grammar Dawgs.C08

/-- every tree of the list is a node of rule `r` -/
def AllRule (N : Names) (r : String) (xs : List Tree) : Prop := ∀ x ∈ xs, ∃ ks, x = N.nd r ks

theorem allRule_map {α} (N : Names) (r : String) (f : α → Tree) (h : ∀ a, ∃ ks, f a = N.nd r ks) (xs : List α) : AllRule N r (xs.map f) := by
  intro x hx
  obtain ⟨a, _, rfl⟩ := List.mem_map.1 hx
  exact h a

theorem optList_nd {α} (N : Names) (r : String) (g : α → List Tree) (o : Option α) :
    optList o (fun a => N.nd r (g a)) = optList (o.map g) (N.nd r) := by cases o <;> rfl

theorem sizeL_optList_some {α} (f : α → Tree) (a : α) : sizeL (optList (some a) f) = size (f a) := by simp [optList]

section Cl
variable {N : Names} (hN : N.ok = true) (recT : Expr → Tree) (recW : Expr → Bool) (Hrec : RecOK N recT recW)
include hN Hrec

theorem filter_rule_all {r : String} (hr : r ∈ usedRules) : ∀ (xs : List Tree), AllRule N r xs → xs.filter (isRuleKid N r) = xs
  | [], _ => rfl
  | x :: xs, h => by
    obtain ⟨ks, rfl⟩ := h x (by simp)
    have h1 : isRuleKid N r (N.nd r ks) = true := by simp [isRuleKid, ok_rule hN hr]
    simp only [List.filter_cons, h1, if_true]
    rw [filter_rule_all hr xs (fun y hy => h y (by simp [hy]))]

theorem filter_rule_none {r r' : String} (hr' : r' ∈ usedRules) (hne : r' ≠ r) : ∀ (xs : List Tree), AllRule N r' xs →
    xs.filter (isRuleKid N r) = []
  | [], _ => rfl
  | x :: xs, h => by
    obtain ⟨ks, rfl⟩ := h x (by simp)
    have h1 : isRuleKid N r (N.nd r' ks) = false := by
      rw [isRuleKid_nd hN, if_pos (by simpa using hr')]; simpa using hne
    simp only [List.filter_cons, h1, Bool.false_eq_true, if_false]
    exact filter_rule_none hr' hne xs (fun y hy => h y (by simp [hy]))

theorem filter_isNode_all {r : String} : ∀ (xs : List Tree), AllRule N r xs → xs.filter isNode = xs
  | [], _ => rfl
  | x :: xs, h => by
    obtain ⟨ks, rfl⟩ := h x (by simp)
    simp only [List.filter_cons, isNode_nd, if_true]
    rw [filter_isNode_all xs (fun y hy => h y (by simp [hy]))]

/-! ### WHERE -/

theorem bWhere_ok (e : Expr) (f : Nat) (hw : recW e = true) (hf : 2 * size (whereNode N recT e) + 2 ≤ f) :
    bWhere N f (whereNode N recT e) = .ok e := by
  have he := bExpr_exprNode hN recT recW Hrec e f hw (by simp [whereNode] at hf; omega)
  unfold bWhere
  simp only [exprNode] at he
  bsimp [whereNode, exprNode, he]

/-- an optional WHERE child -/
theorem bOptWhere_ok (t : Tree) (w : Option Expr) (f : Nat) (hk : kidOfRule N t "oC_Where" = w.map (whereNode N recT))
    (hw : ∀ e, w = some e → recW e = true) (hf : ∀ e, w = some e → 2 * size (whereNode N recT e) + 2 ≤ f) :
    bOptWhere N f t = .ok w := by
  unfold bOptWhere
  rw [hk]
  cases w with
  | none => rfl
  | some e => simp [bWhere_ok hN recT recW Hrec e f (hw e rfl) (hf e rfl), Except.map]

/-! ### projection bodies -/

theorem bProjItem_ok (it : Expr × Option String) (f : Nat) (hw : recW it.1 = true) (hf : 2 * size (projItem N recT it) + 2 ≤ f) :
    bProjItem N f (projItem N recT it) = .ok it := by
  obtain ⟨e, a⟩ := it
  have he := bExpr_exprNode hN recT recW Hrec e f hw (by cases a <;> simp [projItem] at hf ⊢ <;> omega)
  simp only [exprNode] at he
  unfold bProjItem
  cases a with
  | none => bsimp [projItem, exprNode, he, Except.map]
  | some a =>
    obtain ⟨f', rfl⟩ : ∃ f', f = f' + 3 := ⟨f - 3, by simp [projItem] at hf; omega⟩
    have hv := getText_varNode hN recT recW Hrec f' a
    simp only [varNode] at hv
    bsimp [projItem, exprNode, he, Except.map, varNode, hv]

theorem bSortItem_ok (si : Bool × Expr) (f : Nat) (hw : recW si.2 = true) (hf : 2 * size (sortItem N recT si) + 2 ≤ f) :
    bSortItem N f (sortItem N recT si) = .ok si := by
  obtain ⟨a, e⟩ := si
  have he := bExpr_exprNode hN recT recW Hrec e f hw (by cases a <;> simp [sortItem] at hf ⊢ <;> omega)
  simp only [exprNode] at he
  unfold bSortItem
  cases a <;> bsimp [sortItem, exprNode, he, Except.map]

theorem sortItem_rule (si : Bool × Expr) : ∃ ks, sortItem N recT si = N.nd "oC_SortItem" ks := ⟨_, rfl⟩
theorem projItem_rule (it : Expr × Option String) : ∃ ks, projItem N recT it = N.nd "oC_ProjectionItem" ks := ⟨_, rfl⟩

theorem bOrder_ok (t : Tree) (o : Option (List (Bool × Expr))) (f : Nat) (hk : kidOfRule N t "oC_Order" = o.map (orderNode N recT))
    (hw : ∀ ol, o = some ol → ol.all (fun si => recW si.2) = true) (hf : ∀ ol, o = some ol → 2 * size (orderNode N recT ol) + 2 ≤ f) :
    bOrder N f t = .ok o := by
  unfold bOrder
  rw [hk]
  cases o with
  | none => rfl
  | some ol =>
    have hf' := hf ol rfl
    have hw' := hw ol rfl
    simp only [orderNode, size_nd, sizeL_append, sizeL_cons', size_lf, sizeL_nil'] at hf'
    have hsz := sizeL_le_interleave (N.lf "T__6" ",") (ol.map (sortItem N recT))
    have hfl : (interleave (N.lf "T__6" ",") (ol.map (sortItem N recT))).filter (isRuleKid N "oC_SortItem") = ol.map (sortItem N recT) :=
      kidsOfRule_interleave hN (by decide) _ rfl _ (allRule_map N _ _ (sortItem_rule hN recT recW Hrec) ol)
    have hm : mapM' (bSortItem N f) (ol.map (sortItem N recT)) = .ok ol := by
      apply mapM'_map_id
      intro si hsi
      have := size_le_sizeL (List.mem_map_of_mem (f := sortItem N recT) hsi)
      exact bSortItem_ok hN recT recW Hrec si f (by simpa using (List.all_eq_true.1 hw') si hsi) (by omega)
    simp only [Option.map_some, orderNode, kidsOfRule, kids_nd, List.filter_append]
    bsimp [hfl, hm, Except.map]

theorem bSubExpr_ok (t : Tree) (rule tokn toks : String) (hr : rule ∈ usedRules) (o : Option Expr) (f : Nat)
    (hk : kidOfRule N t rule = o.map (fun e => N.nd rule [N.lf tokn toks, exprNode N (recT e)]))
    (hw : ∀ e, o = some e → recW e = true) (hf : ∀ e, o = some e → 2 * size (exprNode N (recT e)) + 2 ≤ f) :
    bSubExpr N f t rule = .ok o := by
  unfold bSubExpr
  rw [hk]
  cases o with
  | none => rfl
  | some e =>
    have he := bExpr_exprNode hN recT recW Hrec e f (hw e rfl) (hf e rfl)
    simp only [exprNode] at he
    bsimp [exprNode, he, Except.map]

theorem proj_kids (d : Bool) (ik : List Tree) (ok sk lk : Option (List Tree)) :
    kidOfRule N (N.nd "oC_ProjectionBody" ((if d then [N.lf "DISTINCT" "distinct"] else []) ++ [N.nd "oC_ProjectionItems" ik] ++
      optList ok (N.nd "oC_Order") ++ optList sk (N.nd "oC_Skip") ++ optList lk (N.nd "oC_Limit"))) "oC_ProjectionItems" =
        some (N.nd "oC_ProjectionItems" ik) ∧
    kidOfRule N (N.nd "oC_ProjectionBody" ((if d then [N.lf "DISTINCT" "distinct"] else []) ++ [N.nd "oC_ProjectionItems" ik] ++
      optList ok (N.nd "oC_Order") ++ optList sk (N.nd "oC_Skip") ++ optList lk (N.nd "oC_Limit"))) "oC_Order" = ok.map (N.nd "oC_Order") ∧
    kidOfRule N (N.nd "oC_ProjectionBody" ((if d then [N.lf "DISTINCT" "distinct"] else []) ++ [N.nd "oC_ProjectionItems" ik] ++
      optList ok (N.nd "oC_Order") ++ optList sk (N.nd "oC_Skip") ++ optList lk (N.nd "oC_Limit"))) "oC_Skip" = sk.map (N.nd "oC_Skip") ∧
    kidOfRule N (N.nd "oC_ProjectionBody" ((if d then [N.lf "DISTINCT" "distinct"] else []) ++ [N.nd "oC_ProjectionItems" ik] ++
      optList ok (N.nd "oC_Order") ++ optList sk (N.nd "oC_Skip") ++ optList lk (N.nd "oC_Limit"))) "oC_Limit" = lk.map (N.nd "oC_Limit") ∧
    hasTok N (N.nd "oC_ProjectionBody" ((if d then [N.lf "DISTINCT" "distinct"] else []) ++ [N.nd "oC_ProjectionItems" ik] ++
      optList ok (N.nd "oC_Order") ++ optList sk (N.nd "oC_Skip") ++ optList lk (N.nd "oC_Limit"))) "DISTINCT" = d := by
  cases d <;> cases ok <;> cases sk <;> cases lk <;> bsimp [optList]

theorem litToks_interleave {r : String} : ∀ xs : List Tree, AllRule N r xs →
    ∃ n, (interleave (N.lf "T__6" ",") xs).filterMap litTok = List.replicate n ","
  | [], _ => ⟨0, rfl⟩
  | [x], h => by
    obtain ⟨ks, rfl⟩ := h x (by simp)
    exact ⟨0, by simp [interleave]⟩
  | x :: y :: rest, h => by
    obtain ⟨ks, rfl⟩ := h x (by simp)
    obtain ⟨n, hn⟩ := litToks_interleave (y :: rest) (fun z hz => h z (by simp [hz]))
    refine ⟨n + 1, ?_⟩
    simp only [interleave, List.filterMap_cons, litTok_nd, litTok_lf, hn]
    simp (config := { decide := true }) [goBlank, List.replicate_succ]

theorem isStarItem_eq (it : Expr × Option String) (h : isStarItem it = true) : it = (.var "*", none) := by
  obtain ⟨e, a⟩ := it
  cases e <;> cases a <;> simp [isStarItem] at h ⊢
  exact h

theorem filter_commaItems : ∀ rest : List (Expr × Option String),
    ((rest.map (fun x => [N.lf "T__6" ",", projItem N recT x])).flatten).filter (isRuleKid N "oC_ProjectionItem") = rest.map (projItem N recT)
  | [] => by simp
  | x :: rest => by
    have ih := filter_commaItems rest
    simp only [List.map_cons, List.flatten_cons, List.filter_append, ih]
    bsimp [projItem]

theorem sizeL_commaItems_mem : ∀ (rest : List (Expr × Option String)) (x : Expr × Option String), x ∈ rest →
    size (projItem N recT x) ≤ sizeL ((rest.map (fun x => [N.lf "T__6" ",", projItem N recT x])).flatten)
  | [], _, h => by cases h
  | y :: rest, x, h => by
    rcases List.mem_cons.1 h with h | h
    · subst h; simp; omega
    · have := sizeL_commaItems_mem rest x h; simp; omega

theorem projItems_ok (items : List (Expr × Option String)) (f : Nat) (hw : wItems recW items = true)
    (hf : 2 * sizeL (projItemsKids N recT items) + 2 ≤ f) :
    ∃ xs, mapM' (bProjItem N f) ((projItemsKids N recT items).filter (isRuleKid N "oC_ProjectionItem")) = .ok xs ∧
      bStar (N.nd "oC_ProjectionItems" (projItemsKids N recT items)) ++ xs = items := by
  cases items with
  | nil => exact ⟨[], by simp [projItemsKids, mapM'], by simp [projItemsKids, bStar, litTokens]⟩
  | cons it rest =>
    by_cases hs : isStarItem it = true
    · simp only [wItems, hs, if_true] at hw
      simp only [projItemsKids, hs, if_true, sizeL_cons', size_lf] at hf
      refine ⟨rest, ?_, ?_⟩
      · simp only [projItemsKids, hs, if_true, List.filter_cons, isRuleKid_lf, Bool.false_eq_true, if_false,
          filter_commaItems hN recT recW Hrec]
        apply mapM'_map_id
        intro x hx
        have := sizeL_commaItems_mem hN recT recW Hrec rest x hx
        have hwx := (List.all_eq_true.1 hw) x hx
        simp only [wItem, Bool.and_eq_true] at hwx
        exact bProjItem_ok hN recT recW Hrec x f hwx.1 (by omega)
      · rw [isStarItem_eq hN recT recW Hrec it hs]
        simp (config := { decide := true }) [projItemsKids, isStarItem, bStar, litTokens, goBlank]
    · have hs' : isStarItem it = false := by simpa using hs
      simp only [wItems, hs', Bool.false_eq_true, if_false] at hw
      simp only [projItemsKids, hs', Bool.false_eq_true, if_false] at hf ⊢
      have hall := allRule_map N _ _ (projItem_rule hN recT recW Hrec) (it :: rest)
      have hfl : (interleave (N.lf "T__6" ",") ((it :: rest).map (projItem N recT))).filter (isRuleKid N "oC_ProjectionItem") =
          (it :: rest).map (projItem N recT) := kidsOfRule_interleave hN (by decide) _ rfl _ hall
      have hszI := sizeL_le_interleave (N.lf "T__6" ",") ((it :: rest).map (projItem N recT))
      obtain ⟨n, hn⟩ := litToks_interleave hN recT recW Hrec _ hall
      refine ⟨it :: rest, ?_, ?_⟩
      · rw [hfl]
        apply mapM'_map_id
        intro x hx
        have := size_le_sizeL (List.mem_map_of_mem (f := projItem N recT) hx)
        have hwx := (List.all_eq_true.1 hw) x hx
        simp only [wItem, Bool.and_eq_true] at hwx
        exact bProjItem_ok hN recT recW Hrec x f hwx.1 (by omega)
      · simp only [bStar, litTokens, kids_nd, hn]
        cases n <;> simp (config := { decide := true }) [List.replicate_succ]

theorem bProjection_ok (p : Projection) (f : Nat) (hw : wProjBody recW p = true) (hf : 2 * size (tProjBody N recT p) + 2 ≤ f) :
    bProjection N f (tProjBody N recT p) = .ok p := by
  obtain ⟨d, items, order, skip, limit⟩ := p
  simp only [wProjBody, Bool.and_eq_true] at hw
  obtain ⟨⟨⟨hwi, hwo⟩, hws⟩, hwl⟩ := hw
  let go : List (Bool × Expr) → List Tree := fun o => [N.lf "ORDER" "order", N.lf "BY" "by"] ++ interleave (N.lf "T__6" ",") (o.map (sortItem N recT))
  let gs : Expr → List Tree := fun e => [N.lf "L_SKIP" "skip", exprNode N (recT e)]
  let gl : Expr → List Tree := fun e => [N.lf "LIMIT" "limit", exprNode N (recT e)]
  have ho : optList order (orderNode N recT) = optList (order.map go) (N.nd "oC_Order") := optList_nd N _ go order
  have hs : optList skip (fun e => N.nd "oC_Skip" [N.lf "L_SKIP" "skip", exprNode N (recT e)]) = optList (skip.map gs) (N.nd "oC_Skip") :=
    optList_nd N _ gs skip
  have hl : optList limit (fun e => N.nd "oC_Limit" [N.lf "LIMIT" "limit", exprNode N (recT e)]) = optList (limit.map gl) (N.nd "oC_Limit") :=
    optList_nd N _ gl limit
  have hsz : size (tProjBody N recT ⟨d, items, order, skip, limit⟩) =
      1 + (sizeL (if d then [N.lf "DISTINCT" "distinct"] else []) + (1 + sizeL (projItemsKids N recT items)) +
        sizeL (optList order (orderNode N recT)) + sizeL (optList skip (fun e => N.nd "oC_Skip" [N.lf "L_SKIP" "skip", exprNode N (recT e)])) +
        sizeL (optList limit (fun e => N.nd "oC_Limit" [N.lf "LIMIT" "limit", exprNode N (recT e)]))) := by
    simp [tProjBody]; omega
  rw [hsz] at hf
  obtain ⟨k1, k2, k3, k4, k5⟩ := proj_kids hN recT recW Hrec d (projItemsKids N recT items)
    (order.map go) (skip.map gs) (limit.map gl)
  have e2 : (order.map go).map (N.nd "oC_Order") = order.map (orderNode N recT) := by cases order <;> rfl
  have e3 : (skip.map gs).map (N.nd "oC_Skip") = skip.map (fun e => N.nd "oC_Skip" [N.lf "L_SKIP" "skip", exprNode N (recT e)]) := by
    cases skip <;> rfl
  have e4 : (limit.map gl).map (N.nd "oC_Limit") = limit.map (fun e => N.nd "oC_Limit" [N.lf "LIMIT" "limit", exprNode N (recT e)]) := by
    cases limit <;> rfl
  rw [e2] at k2; rw [e3] at k3; rw [e4] at k4
  have b2 := bOrder_ok hN recT recW Hrec _ order f k2 (by intro ol h; subst h; exact hwo)
    (by intro ol h; subst h; rw [sizeL_optList_some] at hf; omega)
  have b3 := bSubExpr_ok hN recT recW Hrec _ "oC_Skip" "L_SKIP" "skip" (by decide) skip f k3 (by intro e h; subst h; exact hws)
    (by intro e h; subst h; rw [sizeL_optList_some (fun e => N.nd "oC_Skip" [N.lf "L_SKIP" "skip", exprNode N (recT e)])] at hf
        simp only [size_nd, sizeL_cons', size_lf, sizeL_nil'] at hf ⊢; omega)
  have b4 := bSubExpr_ok hN recT recW Hrec _ "oC_Limit" "LIMIT" "limit" (by decide) limit f k4 (by intro e h; subst h; exact hwl)
    (by intro e h; subst h; rw [sizeL_optList_some (fun e => N.nd "oC_Limit" [N.lf "LIMIT" "limit", exprNode N (recT e)])] at hf
        simp only [size_nd, sizeL_cons', size_lf, sizeL_nil'] at hf ⊢; omega)
  obtain ⟨xs, hm, hxs⟩ := projItems_ok hN recT recW Hrec items f hwi (by omega)
  unfold bProjection
  simp only [tProjBody, ho, hs, hl] at k1 k2 k3 k4 k5 b2 b3 b4 ⊢
  simp only [k1, k5, b2, b3, b4, kidsOfRule, kids_nd, hm, hxs]

/-! ### reading clauses -/

theorem tPart_rule (p : PatternPart) : ∃ ks, tPart N recT p = N.nd "oC_PatternPart" ks := ⟨_, rfl⟩

theorem pattern_ok (ps : List PatternPart) (f : Nat) (hw : ps.all (wPart recW) = true) (hf : 2 * size (patternNode N recT ps) + 2 ≤ f) :
    mapM' (bPatternPart N f) (kidsOfRule N (patternNode N recT ps) "oC_PatternPart") = .ok ps := by
  simp only [patternNode, size_nd] at hf
  have hszI := sizeL_le_interleave (N.lf "T__6" ",") (ps.map (tPart N recT))
  have hfl : (interleave (N.lf "T__6" ",") (ps.map (tPart N recT))).filter (isRuleKid N "oC_PatternPart") = ps.map (tPart N recT) :=
    kidsOfRule_interleave hN (by decide) _ rfl _ (allRule_map N _ _ (tPart_rule hN recT recW Hrec) ps)
  simp only [patternNode, kidsOfRule, kids_nd, hfl]
  apply mapM'_map_id
  intro p hp
  have := size_le_sizeL (List.mem_map_of_mem (f := tPart N recT) hp)
  exact bPatternPart_tPart hN recT recW Hrec p f ((List.all_eq_true.1 hw) p hp) (by omega)

theorem match_kids (o : Bool) (pk : List Tree) (wk : Option (List Tree)) :
    kidOfRule N (N.nd "oC_Match" ((if o then [N.lf "OPTIONAL" "optional"] else []) ++ [N.lf "MATCH" "match", N.nd "oC_Pattern" pk] ++
      optList wk (N.nd "oC_Where"))) "oC_Hint" = none ∧
    kidOfRule N (N.nd "oC_Match" ((if o then [N.lf "OPTIONAL" "optional"] else []) ++ [N.lf "MATCH" "match", N.nd "oC_Pattern" pk] ++
      optList wk (N.nd "oC_Where"))) "oC_Pattern" = some (N.nd "oC_Pattern" pk) ∧
    kidOfRule N (N.nd "oC_Match" ((if o then [N.lf "OPTIONAL" "optional"] else []) ++ [N.lf "MATCH" "match", N.nd "oC_Pattern" pk] ++
      optList wk (N.nd "oC_Where"))) "oC_Where" = wk.map (N.nd "oC_Where") ∧
    hasTok N (N.nd "oC_Match" ((if o then [N.lf "OPTIONAL" "optional"] else []) ++ [N.lf "MATCH" "match", N.nd "oC_Pattern" pk] ++
      optList wk (N.nd "oC_Where"))) "OPTIONAL" = o := by
  cases o <;> cases wk <;> bsimp [optList]

theorem bReading_ok (r : Reading) (f : Nat) (hw : wReading recW r = true) (hf : 2 * size (tReading N recT r) + 2 ≤ f) :
    bReading N f (tReading N recT r) = .ok r := by
  cases r with
  | unwind e v =>
    simp only [wReading] at hw
    simp only [tReading, size_nd, sizeL_cons', size_lf, sizeL_nil'] at hf
    have he := bExpr_exprNode hN recT recW Hrec e f hw (by omega)
    simp only [exprNode] at he
    obtain ⟨f', rfl⟩ : ∃ f', f = f' + 3 := ⟨f - 3, by omega⟩
    have hv := getText_varNode hN recT recW Hrec f' v
    simp only [varNode] at hv
    unfold bReading
    bsimp [tReading, exprNode, he, Except.map, varNode, hv]
  | match_ o ps w =>
    simp only [wReading, Bool.and_eq_true] at hw
    let gw : Expr → List Tree := fun e => [N.lf "WHERE" "where", exprNode N (recT e)]
    have hwn : optList w (whereNode N recT) = optList (w.map gw) (N.nd "oC_Where") := optList_nd N _ gw w
    have hsz : size (tReading N recT (.match_ o ps w)) = 2 + (sizeL (if o then [N.lf "OPTIONAL" "optional"] else []) + (1 + size (patternNode N recT ps)) +
        sizeL (optList w (whereNode N recT))) := by simp [tReading]; omega
    rw [hsz] at hf
    obtain ⟨k1, k2, k3, k4⟩ := match_kids hN recT recW Hrec o (interleave (N.lf "T__6" ",") (ps.map (tPart N recT))) (w.map gw)
    have e3 : (w.map gw).map (N.nd "oC_Where") = w.map (whereNode N recT) := by cases w <;> rfl
    rw [e3] at k3
    have b1 := pattern_ok hN recT recW Hrec ps f hw.1 (by omega)
    have b2 := bOptWhere_ok hN recT recW Hrec _ w f k3 (by intro e h; subst h; exact hw.2)
      (by intro e h; subst h; rw [sizeL_optList_some] at hf; omega)
    unfold bReading
    simp only [patternNode] at b1
    simp only [tReading, patternNode, hwn] at k1 k2 k3 k4 b2 ⊢
    have ho : onlyKid (N.nd "oC_ReadingClause" [N.nd "oC_Match" ((if o = true then [N.lf "OPTIONAL" "optional"] else []) ++
        [N.lf "MATCH" "match", N.nd "oC_Pattern" (interleave (N.lf "T__6" ",") (ps.map (tPart N recT)))] ++ optList (w.map gw) (N.nd "oC_Where"))]) =
        some (N.nd "oC_Match" ((if o = true then [N.lf "OPTIONAL" "optional"] else []) ++
        [N.lf "MATCH" "match", N.nd "oC_Pattern" (interleave (N.lf "T__6" ",") (ps.map (tPart N recT)))] ++ optList (w.map gw) (N.nd "oC_Where"))) := by
      bsimp []
    have hr : ruleNameOf N (N.nd "oC_Match" ((if o = true then [N.lf "OPTIONAL" "optional"] else []) ++
        [N.lf "MATCH" "match", N.nd "oC_Pattern" (interleave (N.lf "T__6" ",") (ps.map (tPart N recT)))] ++ optList (w.map gw) (N.nd "oC_Where"))) = "oC_Match" := by
      bsimp []
    simp only [ho, hr, k1, k2, k4, b1, b2]
    simp

end Cl
end Dawgs.C07
