/- Helper lemmas for the heap model of the kind slices (Model/C12Heap.lean). No property statements here. -/
import Dawgs.Proofs.C12
import Dawgs.Model.C12Heap
set_option linter.unusedSimpArgs false
set_option linter.unusedVariables false
namespace Dawgs.C12

/-! ### lists -/

theorem getD_set_eq {α : Type} (l : List α) (i : Nat) (v d : α) (h : i < l.length) : (l.set i v).getD i d = v := by
  simp [List.getD_eq_getElem?_getD, h]

theorem getD_set_ne {α : Type} (l : List α) (i j : Nat) (v d : α) (h : i ≠ j) : (l.set i v).getD j d = l.getD j d := by
  simp [List.getD_eq_getElem?_getD, List.getElem?_set_ne h]

theorem getD_append_left {α : Type} (l m : List α) (i : Nat) (d : α) (h : i < l.length) :
    (l ++ m).getD i d = l.getD i d := by
  simp [List.getD_eq_getElem?_getD, List.getElem?_append_left h]

theorem getD_append_len {α : Type} (l : List α) (x d : α) : (l ++ [x]).getD l.length d = x := by
  simp [List.getD_eq_getElem?_getD]

theorem take_append_len {α : Type} (l r : List α) (n : Nat) (h : l.length = n) : (l ++ r).take n = l := by
  subst h; simp

theorem kremove_of_not_mem {l : List Kind} {k : Kind} (h : k ∉ l) : kremove l k = l := by
  induction l with
  | nil => rfl
  | cons a l ih =>
    rw [List.mem_cons, not_or] at h
    rw [kremove_cons, if_neg (fun e => h.1 e.symm), ih h.2]

theorem length_kremove_of_mem {l : List Kind} {k : Kind} (h : k ∈ l) : (kremove l k).length + 1 = l.length := by
  induction l with
  | nil => simp at h
  | cons a l ih =>
    rw [kremove_cons]
    by_cases e : a = k
    · rw [if_pos e]; simp
    · rw [if_neg e]
      have : k ∈ l := by
        rw [List.mem_cons] at h
        exact h.resolve_left (fun hh => e hh.symm)
      simp [ih this]

/-! ### one slice -/

/-- the header points into the heap and does not exceed its array -/
def WF (h : Heap) (s : Slice) : Prop := s.arr < h.length ∧ s.len ≤ (h.arr s.arr).length

theorem read_length {h : Heap} {s : Slice} (w : WF h s) : (s.read h).length = s.len := by
  unfold Slice.read; rw [List.length_take]; exact Nat.min_eq_left w.2

/-- the result `r` of a slice operation on `(h, s)` shows `out`, in place or on a fresh array, and no other array changed -/
def SpecAt (h : Heap) (s : Slice) (r : Heap × Slice) (out : List Kind) : Prop :=
  r.2.read r.1 = out ∧ WF r.1 r.2 ∧ Heap.arr r.1 0 = [] ∧
  h.length ≤ r.1.length ∧ (r.2.arr = s.arr ∨ h.length ≤ r.2.arr) ∧
  (∀ t : Slice, t.arr < h.length → (t.arr ≠ s.arr ∨ s.arr = 0) →
    t.read r.1 = t.read h ∧ (Heap.arr r.1 t.arr).length = (Heap.arr h t.arr).length)

/-- what a slice operation `f` must satisfy to be the list function `g` on the contents -/
def OpSpec (f : Heap → Slice → Heap × Slice) (g : List Kind → List Kind) : Prop :=
  ∀ (h : Heap) (s : Slice), Heap.arr h 0 = [] → WF h s → SpecAt h s (f h s) (g (s.read h))

theorem arr_set_eq (h : Heap) (a : Nat) (v : List Kind) (ha : a < h.length) : Heap.arr (h.set a v) a = v := by
  unfold Heap.arr; exact getD_set_eq h a v [] ha
theorem arr_set_ne (h : Heap) (a b : Nat) (v : List Kind) (hab : a ≠ b) : Heap.arr (h.set a v) b = Heap.arr h b := by
  unfold Heap.arr; exact getD_set_ne h a b v [] hab

theorem hremove_spec (k : Kind) (h : Heap) (s : Slice) (h0 : Heap.arr h 0 = []) (w : WF h s) :
    SpecAt h s (hremove h s k) (kremove (s.read h) k) := by
  have hlen := read_length w
  by_cases hk : k ∈ s.read h
  · have e : hremove h s k = (h.set s.arr (kremove (s.read h) k ++ (Heap.arr h s.arr).drop (s.len - 1)), ⟨s.arr, s.len - 1⟩) := by
      unfold hremove; rw [if_pos hk]
    rw [e]
    have hl1 := length_kremove_of_mem hk
    rw [hlen] at hl1
    have hpos : 1 ≤ s.len := by omega
    have hne0 : s.arr ≠ 0 := by
      intro e0
      have : s.read h = [] := by unfold Slice.read; rw [e0, h0]; simp
      rw [this] at hk; cases hk
    refine ⟨?_, ⟨?_, ?_⟩, ?_, ?_, Or.inl rfl, ?_⟩
    · show (Heap.arr (h.set s.arr _) s.arr).take (s.len - 1) = _
      rw [arr_set_eq _ _ _ w.1]
      exact take_append_len _ _ _ (by omega)
    · show s.arr < (h.set s.arr _).length
      rw [List.length_set]; exact w.1
    · show s.len - 1 ≤ (Heap.arr (h.set s.arr _) s.arr).length
      rw [arr_set_eq _ _ _ w.1, List.length_append]; omega
    · show Heap.arr (h.set s.arr _) 0 = []
      rw [arr_set_ne _ _ _ _ hne0]; exact h0
    · show h.length ≤ (h.set s.arr _).length
      rw [List.length_set]; exact Nat.le_refl _
    · intro t ht hts
      have hne : s.arr ≠ t.arr := by
        rcases hts with h1 | h1
        · exact fun e => h1 e.symm
        · exact absurd h1 hne0
      show (Heap.arr (h.set s.arr _) t.arr).take t.len = _ ∧ (Heap.arr (h.set s.arr _) t.arr).length = _
      rw [arr_set_ne _ _ _ _ hne]
      exact ⟨rfl, rfl⟩
  · have e : hremove h s k = (h, s) := by unfold hremove; rw [if_neg hk]
    rw [e]
    exact ⟨(kremove_of_not_mem hk).symm, w, h0, Nat.le_refl _, Or.inl rfl, fun t _ _ => ⟨rfl, rfl⟩⟩

theorem opSpec_hremove (k : Kind) : OpSpec (fun h s => hremove h s k) (fun l => kremove l k) :=
  fun h s h0 w => hremove_spec k h s h0 w

theorem hadd_spec (k : Kind) (h : Heap) (s : Slice) (h0 : Heap.arr h 0 = []) (w : WF h s) :
    SpecAt h s (hadd h s k) (kaddG (s.read h) k) := by
  have hlen := read_length w
  by_cases hc : containsIs (s.read h) k = true
  · have e : hadd h s k = (h, s) := by unfold hadd; rw [if_pos hc]
    rw [e]
    refine ⟨?_, w, h0, Nat.le_refl _, Or.inl rfl, fun t _ _ => ⟨rfl, rfl⟩⟩
    unfold kaddG; rw [if_pos hc]
  · have hg : kaddG (s.read h) k = s.read h ++ [k] := by unfold kaddG; rw [if_neg hc]
    by_cases hcap : s.len < (Heap.arr h s.arr).length
    · have e : hadd h s k =
          (h.set s.arr ((Heap.arr h s.arr).take s.len ++ [k] ++ (Heap.arr h s.arr).drop (s.len + 1)), ⟨s.arr, s.len + 1⟩) := by
        unfold hadd; rw [if_neg hc, if_pos hcap]
      rw [e]
      have hne0 : s.arr ≠ 0 := by
        intro e0; rw [e0, h0] at hcap; simp at hcap
      refine ⟨?_, ⟨?_, ?_⟩, ?_, ?_, Or.inl rfl, ?_⟩
      · show (Heap.arr (h.set s.arr _) s.arr).take (s.len + 1) = _
        rw [arr_set_eq _ _ _ w.1, hg]
        exact take_append_len _ _ _ (by rw [List.length_append, List.length_take]; simp; omega)
      · show s.arr < (h.set s.arr _).length
        rw [List.length_set]; exact w.1
      · show s.len + 1 ≤ (Heap.arr (h.set s.arr _) s.arr).length
        rw [arr_set_eq _ _ _ w.1]; simp; omega
      · show Heap.arr (h.set s.arr _) 0 = []
        rw [arr_set_ne _ _ _ _ hne0]; exact h0
      · show h.length ≤ (h.set s.arr _).length
        rw [List.length_set]; exact Nat.le_refl _
      · intro t ht hts
        have hne : s.arr ≠ t.arr := by
          rcases hts with h1 | h1
          · exact fun e => h1 e.symm
          · exact absurd h1 hne0
        show (Heap.arr (h.set s.arr _) t.arr).take t.len = _ ∧ (Heap.arr (h.set s.arr _) t.arr).length = _
        rw [arr_set_ne _ _ _ _ hne]
        exact ⟨rfl, rfl⟩
    · have e : hadd h s k =
          (h ++ [s.read h ++ [k] ++ List.replicate (growCap (Heap.arr h s.arr).length - s.len - 1) 0], ⟨h.length, s.len + 1⟩) := by
        unfold hadd; rw [if_neg hc, if_neg hcap]
      rw [e]
      have hpos : 0 < h.length := Nat.lt_of_le_of_lt (Nat.zero_le _) w.1
      have hnew : ∀ v : List Kind, Heap.arr (h ++ [v]) h.length = v := by
        intro v; unfold Heap.arr; exact getD_append_len _ _ _
      refine ⟨?_, ⟨?_, ?_⟩, ?_, ?_, Or.inr (Nat.le_refl _), ?_⟩
      · show (Heap.arr (h ++ [_]) h.length).take (s.len + 1) = _
        rw [hnew, hg]
        exact take_append_len _ _ _ (by rw [List.length_append, hlen]; rfl)
      · show h.length < (h ++ [_]).length
        simp
      · show s.len + 1 ≤ (Heap.arr (h ++ [_]) h.length).length
        rw [hnew]; simp [hlen]
      · show Heap.arr (h ++ [_]) 0 = []
        unfold Heap.arr; rw [getD_append_left _ _ _ _ hpos]; exact h0
      · show h.length ≤ (h ++ [_]).length
        simp
      · intro t ht _
        show (Heap.arr (h ++ [_]) t.arr).take t.len = _ ∧ (Heap.arr (h ++ [_]) t.arr).length = _
        unfold Heap.arr
        rw [getD_append_left _ _ _ _ ht]
        exact ⟨rfl, rfl⟩

theorem opSpec_hadd (k : Kind) : OpSpec (fun h s => hadd h s k) (fun l => kaddG l k) :=
  fun h s h0 w => hadd_spec k h s h0 w

theorem opSpec_id : OpSpec (fun h s => (h, s)) (fun l => l) := by
  intro h s h0 w
  exact ⟨rfl, w, h0, Nat.le_refl _, Or.inl rfl, fun t _ _ => ⟨rfl, rfl⟩⟩

/-- slice operations compose -/
theorem opSpec_comp {f f' : Heap → Slice → Heap × Slice} {g g' : List Kind → List Kind}
    (hf : OpSpec f g) (hf' : OpSpec f' g') :
    OpSpec (fun h s => f' (f h s).1 (f h s).2) (fun l => g' (g l)) := by
  intro h s h0 w
  obtain ⟨a1, a2, a3, a4, a5, a6⟩ := hf h s h0 w
  obtain ⟨b1, b2, b3, b4, b5, b6⟩ := hf' (f h s).1 (f h s).2 a3 a2
  refine ⟨by rw [b1, a1], b2, b3, Nat.le_trans a4 b4, ?_, ?_⟩
  · rcases b5 with e | e
    · rw [e]; exact a5
    · exact Or.inr (Nat.le_trans a4 e)
  · intro t ht hts
    obtain ⟨c1, c2⟩ := a6 t ht hts
    have ht' : t.arr < (f h s).1.length := Nat.lt_of_lt_of_le ht a4
    have hts' : t.arr ≠ (f h s).2.arr ∨ (f h s).2.arr = 0 := by
      rcases a5 with e | e
      · rw [e]; exact hts
      · exact Or.inl (fun e' => by omega)
    obtain ⟨d1, d2⟩ := b6 t ht' hts'
    exact ⟨d1.trans c1, d2.trans c2⟩

theorem kaddAllG_nil (l : List Kind) : kaddAllG l [] = l := rfl
theorem kaddAllG_cons (l : List Kind) (k : Kind) (ks : List Kind) : kaddAllG l (k :: ks) = kaddAllG (kaddG l k) ks := rfl

theorem opSpec_haddAll (ks : List Kind) : OpSpec (fun h s => haddAll h s ks) (fun l => kaddAllG l ks) := by
  induction ks with
  | nil => exact opSpec_id
  | cons k ks ih => exact opSpec_comp (opSpec_hadd k) ih

theorem opSpec_hremoveAll (ks : List Kind) : OpSpec (fun h s => hremoveAll h s ks) (fun l => kremoveAll l ks) := by
  induction ks with
  | nil => exact opSpec_id
  | cons k ks ih => exact opSpec_comp (opSpec_hremove k) ih

/-! ### the six headers of the two nodes -/

/-- every header is well formed and no two of them share a backing array (nil headers all point to the empty array 0) -/
structure Good (hs : HSt) : Prop where
  len : hs.sl.length = 6
  pos : 0 < hs.heap.length
  zero : Heap.arr hs.heap 0 = []
  wf : ∀ i, i < 6 → WF hs.heap (hs.slice i)
  sep : ∀ i j, i < 6 → j < 6 → i ≠ j → (hs.slice i).arr ≠ (hs.slice j).arr ∨ (hs.slice i).arr = 0

theorem slice_upd_eq (hs : HSt) (i : Nat) (f : Heap → Slice → Heap × Slice) (hi : i < hs.sl.length) :
    (hs.upd i f).slice i = (f hs.heap (hs.slice i)).2 := by
  unfold HSt.slice HSt.upd; exact getD_set_eq _ _ _ _ hi

theorem slice_upd_ne (hs : HSt) (i j : Nat) (f : Heap → Slice → Heap × Slice) (hij : i ≠ j) :
    (hs.upd i f).slice j = hs.slice j := by
  unfold HSt.slice HSt.upd; exact getD_set_ne _ _ _ _ _ hij

theorem heap_upd (hs : HSt) (i : Nat) (f : Heap → Slice → Heap × Slice) :
    (hs.upd i f).heap = (f hs.heap (hs.slice i)).1 := rfl

/-- applying a slice operation to header `i` of a good state: header `i` now shows `g` of what it showed, every other
header shows what it showed, and the state is good again -/
theorem upd_good {hs : HSt} (hg : Good hs) {i : Nat} (hi : i < 6) {f : Heap → Slice → Heap × Slice}
    {g : List Kind → List Kind} (hf : OpSpec f g) :
    Good (hs.upd i f) ∧ (hs.upd i f).readAt i = g (hs.readAt i) ∧
    (∀ j, j < 6 → j ≠ i → (hs.upd i f).readAt j = hs.readAt j) ∧ (hs.upd i f).held = hs.held := by
  have hil : i < hs.sl.length := by rw [hg.len]; exact hi
  obtain ⟨a1, a2, a3, a4, a5, a6⟩ := hf hs.heap (hs.slice i) hg.zero (hg.wf i hi)
  have frame : ∀ j, j < 6 → j ≠ i →
      (hs.slice j).read (f hs.heap (hs.slice i)).1 = (hs.slice j).read hs.heap ∧
      (Heap.arr (f hs.heap (hs.slice i)).1 (hs.slice j).arr).length = (Heap.arr hs.heap (hs.slice j).arr).length := by
    intro j hj hji
    refine a6 (hs.slice j) (hg.wf j hj).1 ?_
    rcases hg.sep i j hi hj (fun e => hji e.symm) with h1 | h1
    · exact Or.inl (fun e => h1 e.symm)
    · exact Or.inr h1
  refine ⟨⟨?_, Nat.lt_of_lt_of_le hg.pos a4, ?_, ?_, ?_⟩, ?_, ?_, rfl⟩
  · show (hs.sl.set i _).length = 6
    rw [List.length_set]; exact hg.len
  · exact a3
  · intro j hj
    by_cases hji : j = i
    · subst hji; rw [slice_upd_eq _ _ _ hil, heap_upd]; exact a2
    · rw [slice_upd_ne _ _ _ _ (fun e => hji e.symm), heap_upd]
      have w := hg.wf j hj
      exact ⟨Nat.lt_of_lt_of_le w.1 a4, by rw [(frame j hj hji).2]; exact w.2⟩
  · intro j k hj hk hjk
    by_cases hji : j = i
    · subst hji
      rw [slice_upd_eq _ _ _ hil, slice_upd_ne _ _ _ _ hjk]
      rcases a5 with e | e
      · rw [e]; exact hg.sep j k hj hk hjk
      · exact Or.inl (fun e' => by have := (hg.wf k hk).1; omega)
    · rw [slice_upd_ne _ _ _ _ (fun e => hji e.symm)]
      by_cases hki : k = i
      · subst hki
        rw [slice_upd_eq _ _ _ hil]
        rcases a5 with e | e
        · rw [e]; exact hg.sep j k hj hk hjk
        · exact Or.inl (fun e' => by have := (hg.wf j hj).1; omega)
      · rw [slice_upd_ne _ _ _ _ (fun e => hki e.symm)]
        exact hg.sep j k hj hk hjk
  · show ((hs.upd i f).slice i).read (hs.upd i f).heap = _
    rw [slice_upd_eq _ _ _ hil, heap_upd]; exact a1
  · intro j hj hji
    show ((hs.upd i f).slice j).read (hs.upd i f).heap = _
    rw [slice_upd_ne _ _ _ _ (fun e => hji e.symm), heap_upd]
    exact (frame j hj hji).1

/-! ### the list view of the kind operations (with the two equalities) -/

abbrev KTriple := List Kind × List Kind × List Kind

def KTriple.addKind (t : KTriple) (k : Kind) : KTriple := (kaddG t.1 k, kaddG t.2.1 k, kremove t.2.2 k)
def KTriple.deleteKind (t : KTriple) (k : Kind) : KTriple := (kremove t.1 k, kremove t.2.1 k, kaddG t.2.2 k)

def KTriple.addKinds (t : KTriple) : List (Option Kind) → KTriple
  | [] => t
  | none :: ks => t.addKinds ks
  | some k :: ks => (t.addKind k).addKinds ks

def KTriple.deleteKinds (t : KTriple) : List Kind → KTriple
  | [] => t
  | k :: ks => (t.deleteKind k).deleteKinds ks

/-- the kind part of `Node.Merge` on contents -/
def KTriple.merge (s o : KTriple) : KTriple :=
  (kremoveAll (kaddAllG s.1 o.1) o.2.2, kaddAllG (kremoveAll s.2.1 o.2.2) o.2.1,
   kaddAllG (kremoveAll (kremoveAll s.2.2 o.1) o.2.1) o.2.2)

theorem hidx_lt (e : Bool) (f : Nat) (hf : f < 3) : hidx e f < 6 := by
  unfold hidx; cases e <;> simp <;> omega

theorem hidx_ne_field (e : Bool) {f g : Nat} (h : f ≠ g) : hidx e f ≠ hidx e g := by
  unfold hidx; cases e <;> simp <;> omega

theorem hidx_ne_ent {e e' : Bool} (h : e ≠ e') (f g : Nat) (hf : f < 3) (hg : g < 3) : hidx e f ≠ hidx e' g := by
  unfold hidx; cases e <;> cases e' <;> simp at h ⊢ <;> omega

/-- every header of the other node -/
theorem other_unchanged_of {hs hs' : HSt} {e : Bool}
    (h : ∀ j, j < 6 → j ≠ hidx e 0 → j ≠ hidx e 1 → j ≠ hidx e 2 → hs'.readAt j = hs.readAt j) (e' : Bool) (he : e' ≠ e) :
    hs'.kindsOf e' = hs.kindsOf e' := by
  unfold HSt.kindsOf
  rw [h _ (hidx_lt e' 0 (by omega)) (hidx_ne_ent he 0 0 (by omega) (by omega)) (hidx_ne_ent he 0 1 (by omega) (by omega))
        (hidx_ne_ent he 0 2 (by omega) (by omega)),
      h _ (hidx_lt e' 1 (by omega)) (hidx_ne_ent he 1 0 (by omega) (by omega)) (hidx_ne_ent he 1 1 (by omega) (by omega))
        (hidx_ne_ent he 1 2 (by omega) (by omega)),
      h _ (hidx_lt e' 2 (by omega)) (hidx_ne_ent he 2 0 (by omega) (by omega)) (hidx_ne_ent he 2 1 (by omega) (by omega))
        (hidx_ne_ent he 2 2 (by omega) (by omega))]

/-- a heap step on node `e`: good again, node `e` shows `t'`, every header outside node `e` shows what it showed -/
structure StepOn (hs hs' : HSt) (e : Bool) (t' : KTriple) : Prop where
  good : Good hs'
  here : hs'.kindsOf e = t'
  frame : ∀ j, j < 6 → j ≠ hidx e 0 → j ≠ hidx e 1 → j ≠ hidx e 2 → hs'.readAt j = hs.readAt j

theorem StepOn.trans {a b c : HSt} {e : Bool} {t t' : KTriple} (h1 : StepOn a b e t) (h2 : StepOn b c e t') :
    StepOn a c e t' :=
  ⟨h2.good, h2.here, fun j hj h0 h1' h2' => (h2.frame j hj h0 h1' h2').trans (h1.frame j hj h0 h1' h2')⟩

/-- three slice operations, one per header of node `e` -/
theorem upd3 {hs : HSt} (hg : Good hs) (e : Bool) {f0 f1 f2 : Heap → Slice → Heap × Slice}
    {g0 g1 g2 : List Kind → List Kind} (h0 : OpSpec f0 g0) (h1 : OpSpec f1 g1) (h2 : OpSpec f2 g2) :
    StepOn hs (((hs.upd (hidx e 0) f0).upd (hidx e 1) f1).upd (hidx e 2) f2) e
      (g0 (hs.kindsOf e).1, g1 (hs.kindsOf e).2.1, g2 (hs.kindsOf e).2.2) := by
  have i0 := hidx_lt e 0 (by omega); have i1 := hidx_lt e 1 (by omega); have i2 := hidx_lt e 2 (by omega)
  have n01 : hidx e 0 ≠ hidx e 1 := hidx_ne_field e (by omega)
  have n02 : hidx e 0 ≠ hidx e 2 := hidx_ne_field e (by omega)
  have n12 : hidx e 1 ≠ hidx e 2 := hidx_ne_field e (by omega)
  obtain ⟨ga, ra, fa, _⟩ := upd_good hg i0 h0
  obtain ⟨gb, rb, fb, _⟩ := upd_good ga i1 h1
  obtain ⟨gc, rc, fc, _⟩ := upd_good gb i2 h2
  refine ⟨gc, ?_, ?_⟩
  · unfold HSt.kindsOf
    rw [fc _ i0 n02, fb _ i0 n01, ra, fc _ i1 n12, rb, fa _ i1 n01.symm, rc, fb _ i2 n12.symm, fa _ i2 n02.symm]
  · intro j hj a0 a1 a2
    rw [fc j hj a2, fb j hj a1, fa j hj a0]

theorem addKind_stepOn {hs : HSt} (hg : Good hs) (e : Bool) (k : Kind) :
    StepOn hs (hs.addKind e k) e (KTriple.addKind (hs.kindsOf e) k) :=
  upd3 hg e (opSpec_hadd k) (opSpec_hadd k) (opSpec_hremove k)

theorem deleteKind_stepOn {hs : HSt} (hg : Good hs) (e : Bool) (k : Kind) :
    StepOn hs (hs.deleteKind e k) e (KTriple.deleteKind (hs.kindsOf e) k) :=
  upd3 hg e (opSpec_hremove k) (opSpec_hremove k) (opSpec_hadd k)

theorem stepOn_refl {hs : HSt} (hg : Good hs) (e : Bool) : StepOn hs hs e (hs.kindsOf e) :=
  ⟨hg, rfl, fun _ _ _ _ _ => rfl⟩

theorem addKinds_stepOn {hs : HSt} (hg : Good hs) (e : Bool) (ks : List (Option Kind)) :
    StepOn hs (hs.addKinds e ks) e (KTriple.addKinds (hs.kindsOf e) ks) := by
  induction ks generalizing hs with
  | nil => exact stepOn_refl hg e
  | cons k ks ih =>
    cases k with
    | none => exact ih hg
    | some k =>
      have h1 := addKind_stepOn hg e k
      have h2 := ih h1.good
      show StepOn hs ((hs.addKind e k).addKinds e ks) e (KTriple.addKinds (KTriple.addKind (hs.kindsOf e) k) ks)
      rw [← h1.here]
      exact h1.trans h2

theorem deleteKinds_stepOn {hs : HSt} (hg : Good hs) (e : Bool) (ks : List Kind) :
    StepOn hs (hs.deleteKinds e ks) e (KTriple.deleteKinds (hs.kindsOf e) ks) := by
  induction ks generalizing hs with
  | nil => exact stepOn_refl hg e
  | cons k ks ih =>
    have h1 := deleteKind_stepOn hg e k
    have h2 := ih h1.good
    show StepOn hs ((hs.deleteKind e k).deleteKinds e ks) e (KTriple.deleteKinds (KTriple.deleteKind (hs.kindsOf e) k) ks)
    rw [← h1.here]
    exact h1.trans h2

theorem removeBoth_nil (hs : HSt) (e : Bool) : hs.removeBoth e [] = hs := rfl
theorem removeBoth_cons (hs : HSt) (e : Bool) (k : Kind) (ks : List Kind) :
    hs.removeBoth e (k :: ks) =
      ((hs.upd (hidx e 0) (fun h s => hremove h s k)).upd (hidx e 1) (fun h s => hremove h s k)).removeBoth e ks := rfl

theorem removeBoth_spec {hs : HSt} (hg : Good hs) (e : Bool) (ks : List Kind) :
    Good (hs.removeBoth e ks) ∧
    (hs.removeBoth e ks).readAt (hidx e 0) = kremoveAll (hs.readAt (hidx e 0)) ks ∧
    (hs.removeBoth e ks).readAt (hidx e 1) = kremoveAll (hs.readAt (hidx e 1)) ks ∧
    (∀ j, j < 6 → j ≠ hidx e 0 → j ≠ hidx e 1 → (hs.removeBoth e ks).readAt j = hs.readAt j) := by
  have i0 := hidx_lt e 0 (by omega); have i1 := hidx_lt e 1 (by omega)
  have n01 : hidx e 0 ≠ hidx e 1 := hidx_ne_field e (by omega)
  induction ks generalizing hs with
  | nil => exact ⟨hg, rfl, rfl, fun _ _ _ _ => rfl⟩
  | cons k ks ih =>
    obtain ⟨ga, ra, fa, _⟩ := upd_good hg i0 (opSpec_hremove k)
    obtain ⟨gb, rb, fb, _⟩ := upd_good ga i1 (opSpec_hremove k)
    obtain ⟨gc, rc0, rc1, fc⟩ := ih gb
    rw [removeBoth_cons]
    refine ⟨gc, ?_, ?_, ?_⟩
    · rw [rc0, fb _ i0 n01, ra]; rfl
    · rw [rc1, rb, fa _ i1 n01.symm]; rfl
    · intro j hj a0 a1
      rw [fc j hj a0 a1, fb j hj a1, fa j hj a0]

/-- the kind part of `Node.Merge` on the heap, for two DIFFERENT nodes that own their arrays, is the list merge -/
theorem mergeKinds_stepOn {hs : HSt} (hg : Good hs) {e f : Bool} (hef : e ≠ f) :
    StepOn hs (hs.mergeKinds e f) e (KTriple.merge (hs.kindsOf e) (hs.kindsOf f)) := by
  have i0 := hidx_lt e 0 (by omega); have i1 := hidx_lt e 1 (by omega); have i2 := hidx_lt e 2 (by omega)
  have j0 := hidx_lt f 0 (by omega); have j1 := hidx_lt f 1 (by omega); have j2 := hidx_lt f 2 (by omega)
  have n01 : hidx e 0 ≠ hidx e 1 := hidx_ne_field e (by omega)
  have n02 : hidx e 0 ≠ hidx e 2 := hidx_ne_field e (by omega)
  have n12 : hidx e 1 ≠ hidx e 2 := hidx_ne_field e (by omega)
  have hfe : f ≠ e := fun h => hef h.symm
  have x00 := hidx_ne_ent hfe 0 0 (by omega) (by omega); have x01 := hidx_ne_ent hfe 0 1 (by omega) (by omega)
  have x02 := hidx_ne_ent hfe 0 2 (by omega) (by omega); have x10 := hidx_ne_ent hfe 1 0 (by omega) (by omega)
  have x11 := hidx_ne_ent hfe 1 1 (by omega) (by omega); have x12 := hidx_ne_ent hfe 1 2 (by omega) (by omega)
  have x20 := hidx_ne_ent hfe 2 0 (by omega) (by omega); have x21 := hidx_ne_ent hfe 2 1 (by omega) (by omega)
  have x22 := hidx_ne_ent hfe 2 2 (by omega) (by omega)
  simp only [HSt.mergeKinds]
  generalize hS1 : hs.upd (hidx e 0) (fun h s => haddAll h s (hs.readAt (hidx f 0))) = S1
  obtain ⟨g1, r1, f1, _⟩ := upd_good hg i0 (opSpec_haddAll (hs.readAt (hidx f 0)))
  rw [hS1] at g1 r1 f1
  generalize hS2 : S1.upd (hidx e 2) (fun h s => hremoveAll h s (S1.readAt (hidx f 0))) = S2
  obtain ⟨g2, r2, f2, _⟩ := upd_good g1 i2 (opSpec_hremoveAll (S1.readAt (hidx f 0)))
  rw [hS2] at g2 r2 f2
  generalize hS3 : S2.upd (hidx e 2) (fun h s => hremoveAll h s (S2.readAt (hidx f 1))) = S3
  obtain ⟨g3, r3, f3, _⟩ := upd_good g2 i2 (opSpec_hremoveAll (S2.readAt (hidx f 1)))
  rw [hS3] at g3 r3 f3
  generalize hS4 : S3.removeBoth e (S3.readAt (hidx f 2)) = S4
  obtain ⟨g4, r40, r41, f4⟩ := removeBoth_spec g3 e (S3.readAt (hidx f 2))
  rw [hS4] at g4 r40 r41 f4
  generalize hS5 : S4.upd (hidx e 1) (fun h s => haddAll h s (S4.readAt (hidx f 1))) = S5
  obtain ⟨g5, r5, f5, _⟩ := upd_good g4 i1 (opSpec_haddAll (S4.readAt (hidx f 1)))
  rw [hS5] at g5 r5 f5
  obtain ⟨g6, r6, f6, _⟩ := upd_good g5 i2 (opSpec_haddAll (S5.readAt (hidx f 2)))
  -- the other node's headers never change
  have o1 : ∀ j, j < 6 → j ≠ hidx e 0 → j ≠ hidx e 1 → j ≠ hidx e 2 → S1.readAt j = hs.readAt j :=
    fun j hj a0 _ _ => f1 j hj a0
  have o2 : ∀ j, j < 6 → j ≠ hidx e 0 → j ≠ hidx e 1 → j ≠ hidx e 2 → S2.readAt j = hs.readAt j :=
    fun j hj a0 a1 a2 => (f2 j hj a2).trans (o1 j hj a0 a1 a2)
  have o3 : ∀ j, j < 6 → j ≠ hidx e 0 → j ≠ hidx e 1 → j ≠ hidx e 2 → S3.readAt j = hs.readAt j :=
    fun j hj a0 a1 a2 => (f3 j hj a2).trans (o2 j hj a0 a1 a2)
  have o4 : ∀ j, j < 6 → j ≠ hidx e 0 → j ≠ hidx e 1 → j ≠ hidx e 2 → S4.readAt j = hs.readAt j :=
    fun j hj a0 a1 a2 => (f4 j hj a0 a1).trans (o3 j hj a0 a1 a2)
  have o5 : ∀ j, j < 6 → j ≠ hidx e 0 → j ≠ hidx e 1 → j ≠ hidx e 2 → S5.readAt j = hs.readAt j :=
    fun j hj a0 a1 a2 => (f5 j hj a1).trans (o4 j hj a0 a1 a2)
  refine ⟨g6, ?_, fun j hj a0 a1 a2 => (f6 j hj a2).trans (o5 j hj a0 a1 a2)⟩
  unfold HSt.kindsOf KTriple.merge
  simp only
  -- Kinds
  have hK : (S5.upd (hidx e 2) (fun h s => haddAll h s (S5.readAt (hidx f 2)))).readAt (hidx e 0) =
      kremoveAll (kaddAllG (hs.readAt (hidx e 0)) (hs.readAt (hidx f 0))) (hs.readAt (hidx f 2)) := by
    rw [f6 _ i0 n02, f5 _ i0 n01, r40, f3 _ i0 n02, f2 _ i0 n02, r1, o3 _ j2 x20 x21 x22]
  have hA : (S5.upd (hidx e 2) (fun h s => haddAll h s (S5.readAt (hidx f 2)))).readAt (hidx e 1) =
      kaddAllG (kremoveAll (hs.readAt (hidx e 1)) (hs.readAt (hidx f 2))) (hs.readAt (hidx f 1)) := by
    rw [f6 _ i1 n12, r5, r41, f3 _ i1 n12, f2 _ i1 n12, f1 _ i1 n01.symm, o3 _ j2 x20 x21 x22, o4 _ j1 x10 x11 x12]
  have hR : (S5.upd (hidx e 2) (fun h s => haddAll h s (S5.readAt (hidx f 2)))).readAt (hidx e 2) =
      kaddAllG (kremoveAll (kremoveAll (hs.readAt (hidx e 2)) (hs.readAt (hidx f 0))) (hs.readAt (hidx f 1)))
        (hs.readAt (hidx f 2)) := by
    rw [r6, f5 _ i2 n12.symm, f4 _ i2 n02.symm n12.symm, r3, r2, f1 _ i2 n02.symm, o1 _ j0 x00 x01 x02,
      o2 _ j1 x10 x11 x12, o5 _ j2 x20 x21 x22]
  rw [hK, hA, hR]

/-! ### fresh arrays (JSON decoding), the initial state -/

theorem alloc_spec {hs : HSt} (hg : Good hs) {i : Nat} (hi : i < 6) (xs : List Kind) :
    Good (hs.alloc i xs) ∧ (hs.alloc i xs).readAt i = xs ∧
    (∀ j, j < 6 → j ≠ i → (hs.alloc i xs).readAt j = hs.readAt j) := by
  have hil : i < hs.sl.length := by rw [hg.len]; exact hi
  unfold HSt.alloc
  cases hx : xs.isEmpty with
  | true =>
    have hxs : xs = [] := by simpa using hx
    simp only [if_true]
    have sl_i : ({ hs with sl := hs.sl.set i nilSlice } : HSt).slice i = nilSlice := by
      unfold HSt.slice; exact getD_set_eq _ _ _ _ hil
    have sl_j : ∀ j, j ≠ i → ({ hs with sl := hs.sl.set i nilSlice } : HSt).slice j = hs.slice j := by
      intro j hj; unfold HSt.slice; exact getD_set_ne _ _ _ _ _ (fun e => hj e.symm)
    refine ⟨⟨?_, hg.pos, hg.zero, ?_, ?_⟩, ?_, ?_⟩
    · show (hs.sl.set i nilSlice).length = 6
      rw [List.length_set]; exact hg.len
    · intro j hj
      by_cases hji : j = i
      · subst hji; rw [sl_i]; exact ⟨hg.pos, Nat.zero_le _⟩
      · rw [sl_j j hji]; exact hg.wf j hj
    · intro j k hj hk hjk
      by_cases hji : j = i
      · subst hji; rw [sl_i]; exact Or.inr rfl
      · rw [sl_j j hji]
        by_cases hki : k = i
        · subst hki; rw [sl_i]
          by_cases h0 : (hs.slice j).arr = 0
          · exact Or.inr h0
          · exact Or.inl h0
        · rw [sl_j k hki]; exact hg.sep j k hj hk hjk
    · show (({ hs with sl := hs.sl.set i nilSlice } : HSt).slice i).read hs.heap = xs
      rw [sl_i, hxs]; unfold Slice.read nilSlice; simp
    · intro j hj hji
      show (({ hs with sl := hs.sl.set i nilSlice } : HSt).slice j).read hs.heap = _
      rw [sl_j j hji]; rfl
  | false =>
    have hne : xs ≠ [] := by intro e; rw [e] at hx; simp at hx
    simp only [Bool.false_eq_true, if_false]
    have sl_i : ({ hs with heap := hs.heap ++ [xs], sl := hs.sl.set i ⟨hs.heap.length, xs.length⟩ } : HSt).slice i =
        ⟨hs.heap.length, xs.length⟩ := by
      unfold HSt.slice; exact getD_set_eq _ _ _ _ hil
    have sl_j : ∀ j, j ≠ i →
        ({ hs with heap := hs.heap ++ [xs], sl := hs.sl.set i ⟨hs.heap.length, xs.length⟩ } : HSt).slice j = hs.slice j := by
      intro j hj; unfold HSt.slice; exact getD_set_ne _ _ _ _ _ (fun e => hj e.symm)
    have hnew : Heap.arr (hs.heap ++ [xs]) hs.heap.length = xs := by unfold Heap.arr; exact getD_append_len _ _ _
    have hold : ∀ a, a < hs.heap.length → Heap.arr (hs.heap ++ [xs]) a = Heap.arr hs.heap a := by
      intro a ha; unfold Heap.arr; exact getD_append_left _ _ _ _ ha
    refine ⟨⟨?_, ?_, ?_, ?_, ?_⟩, ?_, ?_⟩
    · show (hs.sl.set i _).length = 6
      rw [List.length_set]; exact hg.len
    · show 0 < (hs.heap ++ [xs]).length
      simp
    · show Heap.arr (hs.heap ++ [xs]) 0 = []
      rw [hold 0 hg.pos]; exact hg.zero
    · intro j hj
      by_cases hji : j = i
      · subst hji; rw [sl_i]
        refine ⟨?_, ?_⟩
        · show hs.heap.length < (hs.heap ++ [xs]).length
          simp
        · show xs.length ≤ (Heap.arr (hs.heap ++ [xs]) hs.heap.length).length
          rw [hnew]; exact Nat.le_refl _
      · rw [sl_j j hji]
        have w := hg.wf j hj
        refine ⟨?_, ?_⟩
        · show (hs.slice j).arr < (hs.heap ++ [xs]).length
          rw [List.length_append]; exact Nat.lt_of_lt_of_le w.1 (Nat.le_add_right _ _)
        · show (hs.slice j).len ≤ (Heap.arr (hs.heap ++ [xs]) (hs.slice j).arr).length
          rw [hold _ w.1]; exact w.2
    · intro j k hj hk hjk
      by_cases hji : j = i
      · subst hji; rw [sl_i, sl_j k (fun e => hjk e.symm)]
        refine Or.inl ?_
        show hs.heap.length ≠ (hs.slice k).arr
        have := (hg.wf k hk).1; omega
      · rw [sl_j j hji]
        by_cases hki : k = i
        · subst hki; rw [sl_i]
          refine Or.inl ?_
          show (hs.slice j).arr ≠ hs.heap.length
          have := (hg.wf j hj).1; omega
        · rw [sl_j k hki]; exact hg.sep j k hj hk hjk
    · show (({ hs with heap := hs.heap ++ [xs], sl := hs.sl.set i ⟨hs.heap.length, xs.length⟩ } : HSt).slice i).read
          (hs.heap ++ [xs]) = xs
      rw [sl_i]; unfold Slice.read; rw [hnew]; simp
    · intro j hj hji
      show (({ hs with heap := hs.heap ++ [xs], sl := hs.sl.set i ⟨hs.heap.length, xs.length⟩ } : HSt).slice j).read
          (hs.heap ++ [xs]) = _
      rw [sl_j j hji]
      unfold HSt.readAt Slice.read
      rw [hold _ (hg.wf j hj).1]

/-- canonical kinds: every code is the `StringKind` value of its name -/
def Canon (l : List Kind) : Prop := ∀ x, x ∈ l → x < 100

theorem map_kname_canon {l : List Kind} (h : Canon l) : l.map kname = l := by
  induction l with
  | nil => rfl
  | cons a l ih =>
    rw [List.map_cons, ih (fun x hx => h x (List.mem_cons_of_mem _ hx))]
    have : kname a = a := by unfold kname; exact Nat.mod_eq_of_lt (h a List.mem_cons_self)
    rw [this]

theorem json_stepOn {hs : HSt} (hg : Good hs) (e : Bool) (hc0 : Canon (hs.readAt (hidx e 0)))
    (hc1 : Canon (hs.readAt (hidx e 1))) (hc2 : Canon (hs.readAt (hidx e 2))) :
    StepOn hs (hs.json e) e (hs.kindsOf e) := by
  have i0 := hidx_lt e 0 (by omega); have i1 := hidx_lt e 1 (by omega); have i2 := hidx_lt e 2 (by omega)
  have n01 : hidx e 0 ≠ hidx e 1 := hidx_ne_field e (by omega)
  have n02 : hidx e 0 ≠ hidx e 2 := hidx_ne_field e (by omega)
  have n12 : hidx e 1 ≠ hidx e 2 := hidx_ne_field e (by omega)
  unfold HSt.json
  rw [map_kname_canon hc0, map_kname_canon hc1, map_kname_canon hc2]
  obtain ⟨ga, ra, fa⟩ := alloc_spec hg i0 (hs.readAt (hidx e 0))
  obtain ⟨gb, rb, fb⟩ := alloc_spec ga i1 (hs.readAt (hidx e 1))
  obtain ⟨gc, rc, fc⟩ := alloc_spec gb i2 (hs.readAt (hidx e 2))
  refine ⟨gc, ?_, fun j hj a0 a1 a2 => by rw [fc j hj a2, fb j hj a1, fa j hj a0]⟩
  unfold HSt.kindsOf
  rw [fc _ i0 n02, fb _ i0 n01, ra, fc _ i1 n12, rb, rc]

theorem good_init (kinds : List Kind) (prep : Bool) : Good (HSt.init kinds false prep) := by
  unfold HSt.init
  cases hk : kinds.isEmpty with
  | true =>
    simp only [if_true]
    refine ⟨rfl, (by show (0 : Nat) < 1; decide), rfl, ?_, ?_⟩
    · intro i hi
      have : ({ heap := [[]], sl := List.replicate 6 nilSlice, held := [] } : HSt).slice i = nilSlice := by
        unfold HSt.slice
        rcases i with _ | _ | _ | _ | _ | _ | i <;> first | rfl | omega
      rw [this]; exact ⟨(by show (0 : Nat) < 1; decide), Nat.zero_le _⟩
    · intro i j hi hj _
      have : ({ heap := [[]], sl := List.replicate 6 nilSlice, held := [] } : HSt).slice i = nilSlice := by
        unfold HSt.slice
        rcases i with _ | _ | _ | _ | _ | _ | i <;> first | rfl | omega
      rw [this]; exact Or.inr rfl
  | false =>
    simp only [Bool.false_eq_true, if_false]
    have hlen : kinds.length ≤ (if prep then appendOneByOne kinds else kinds).length := by
      cases prep
      · simp
      · simp only [if_true]; unfold appendOneByOne; simp
    refine ⟨rfl, (by show (0 : Nat) < 3; decide), rfl, ?_, ?_⟩
    · intro i hi
      rcases i with _ | _ | _ | _ | _ | _ | i
      · exact ⟨(by show (1 : Nat) < 3; decide), hlen⟩
      · exact ⟨(by show (0 : Nat) < 3; decide), Nat.zero_le _⟩
      · exact ⟨(by show (0 : Nat) < 3; decide), Nat.zero_le _⟩
      · exact ⟨(by show (2 : Nat) < 3; decide), hlen⟩
      · exact ⟨(by show (0 : Nat) < 3; decide), Nat.zero_le _⟩
      · exact ⟨(by show (0 : Nat) < 3; decide), Nat.zero_le _⟩
      · omega
    · intro i j hi hj hij
      rcases i with _ | _ | _ | _ | _ | _ | i <;> rcases j with _ | _ | _ | _ | _ | _ | j <;>
        first | omega | exact Or.inr rfl | (refine Or.inl ?_; show (1 : Nat) ≠ 2; decide) |
          (refine Or.inl ?_; show (2 : Nat) ≠ 1; decide) | (refine Or.inl ?_; show (1 : Nat) ≠ 0; decide) |
          (refine Or.inl ?_; show (2 : Nat) ≠ 0; decide)

theorem kindsOf_init (kinds : List Kind) (prep e : Bool) :
    (HSt.init kinds false prep).kindsOf e = (kinds, [], []) := by
  unfold HSt.init
  cases hk : kinds.isEmpty with
  | true =>
    have : kinds = [] := by simpa using hk
    subst this
    cases e <;> rfl
  | false =>
    simp only [Bool.false_eq_true, if_false]
    have hpre : ∀ a : List Kind, (kinds ++ a).take kinds.length = kinds := fun a => by simp
    have htake : (if prep then appendOneByOne kinds else kinds).take kinds.length = kinds := by
      cases prep
      · simp
      · simp only [if_true]; unfold appendOneByOne; exact hpre _
    cases e
    · show ((if prep then appendOneByOne kinds else kinds).take kinds.length, [], []) = _
      rw [htake]
    · show ((if prep then appendOneByOne kinds else kinds).take kinds.length, [], []) = _
      rw [htake]

/-! ### canonical kinds: the two equalities coincide, the heap's list view is the list model of Model/C12.lean -/

theorem kis_canon {x k : Kind} (hx : x < 100) (hk : k < 100) : kis x k = true ↔ x = k := by
  unfold kis kname
  rw [Nat.mod_eq_of_lt hx, Nat.mod_eq_of_lt hk]
  simp

theorem containsIs_canon {l : List Kind} {k : Kind} (hl : Canon l) (hk : k < 100) : containsIs l k = true ↔ k ∈ l := by
  unfold containsIs
  rw [List.any_eq_true]
  constructor
  · rintro ⟨x, hx, hxk⟩
    rw [← (kis_canon (hl x hx) hk).1 hxk]; exact hx
  · intro h; exact ⟨k, h, (kis_canon hk hk).2 rfl⟩

theorem kaddG_canon {l : List Kind} {k : Kind} (hl : Canon l) (hk : k < 100) : kaddG l k = kadd l k := by
  unfold kaddG kadd
  by_cases h : k ∈ l
  · rw [if_pos ((containsIs_canon hl hk).2 h), if_pos h]
  · rw [if_neg (fun hc => h ((containsIs_canon hl hk).1 hc)), if_neg h]

theorem canon_kadd {l : List Kind} {k : Kind} (hl : Canon l) (hk : k < 100) : Canon (kadd l k) := by
  intro x hx
  rw [mem_kadd] at hx
  rcases hx with h | h
  · exact hl x h
  · rw [h]; exact hk

theorem canon_kremove {l : List Kind} (hl : Canon l) (k : Kind) : Canon (kremove l k) :=
  fun x hx => hl x (mem_of_mem_kremove hx)

theorem kaddAllG_canon {l ks : List Kind} (hl : Canon l) (hks : Canon ks) :
    kaddAllG l ks = kaddAll l ks ∧ Canon (kaddAll l ks) := by
  induction ks generalizing l with
  | nil => exact ⟨rfl, hl⟩
  | cons k ks ih =>
    have hk := hks k List.mem_cons_self
    rw [kaddAllG_cons, kaddAll_cons, kaddG_canon hl hk]
    exact ih (canon_kadd hl hk) (fun x hx => hks x (List.mem_cons_of_mem _ hx))

theorem canon_kremoveAll {l : List Kind} (hl : Canon l) (ks : List Kind) : Canon (kremoveAll l ks) := by
  induction ks generalizing l with
  | nil => exact hl
  | cons k ks ih => rw [kremoveAll_cons]; exact ih (canon_kremove hl k)

def Ent.triple (x : Ent) : KTriple := (x.kinds, x.added, x.removed)

structure CanonE (x : Ent) : Prop where
  k : Canon x.kinds
  a : Canon x.added
  r : Canon x.removed

theorem triple_addKind {x : Ent} (hx : CanonE x) {k : Kind} (hk : k < 100) :
    KTriple.addKind x.triple k = (x.addKind k).triple ∧ CanonE (x.addKind k) := by
  refine ⟨?_, ⟨canon_kadd hx.k hk, canon_kadd hx.a hk, canon_kremove hx.r k⟩⟩
  show (kaddG x.kinds k, kaddG x.added k, kremove x.removed k) = (kadd x.kinds k, kadd x.added k, kremove x.removed k)
  rw [kaddG_canon hx.k hk, kaddG_canon hx.a hk]

theorem triple_deleteKind {x : Ent} (hx : CanonE x) {k : Kind} (hk : k < 100) :
    KTriple.deleteKind x.triple k = (x.deleteKind k).triple ∧ CanonE (x.deleteKind k) := by
  refine ⟨?_, ⟨canon_kremove hx.k k, canon_kremove hx.a k, canon_kadd hx.r hk⟩⟩
  show (kremove x.kinds k, kremove x.added k, kaddG x.removed k) = (kremove x.kinds k, kremove x.added k, kadd x.removed k)
  rw [kaddG_canon hx.r hk]

theorem triple_addKinds {x : Ent} (hx : CanonE x) {ks : List (Option Kind)} (hks : ∀ k, some k ∈ ks → k < 100) :
    KTriple.addKinds x.triple ks = (x.addKinds ks).triple ∧ CanonE (x.addKinds ks) := by
  induction ks generalizing x with
  | nil => exact ⟨rfl, hx⟩
  | cons k ks ih =>
    have hks' : ∀ k', some k' ∈ ks → k' < 100 := fun k' h => hks k' (List.mem_cons_of_mem _ h)
    cases k with
    | none => exact ih hx hks'
    | some k =>
      obtain ⟨e1, c1⟩ := triple_addKind hx (hks k List.mem_cons_self)
      show KTriple.addKinds (KTriple.addKind x.triple k) ks = ((x.addKind k).addKinds ks).triple ∧ _
      rw [e1]
      exact ih c1 hks'

theorem triple_deleteKinds {x : Ent} (hx : CanonE x) {ks : List Kind} (hks : Canon ks) :
    KTriple.deleteKinds x.triple ks = (x.deleteKinds ks).triple ∧ CanonE (x.deleteKinds ks) := by
  induction ks generalizing x with
  | nil => exact ⟨rfl, hx⟩
  | cons k ks ih =>
    obtain ⟨e1, c1⟩ := triple_deleteKind hx (hks k List.mem_cons_self)
    show KTriple.deleteKinds (KTriple.deleteKind x.triple k) ks = ((x.deleteKind k).deleteKinds ks).triple ∧ _
    rw [e1]
    exact ih c1 (fun y hy => hks y (List.mem_cons_of_mem _ hy))

theorem triple_merge {s o : Ent} (hs : CanonE s) (ho : CanonE o) :
    KTriple.merge s.triple o.triple = (s.merge o).triple ∧ CanonE (s.merge o) := by
  have a1 := kaddAllG_canon hs.k ho.k
  have a2 := kaddAllG_canon (canon_kremoveAll hs.a o.removed) ho.a
  have a3 := kaddAllG_canon (canon_kremoveAll (canon_kremoveAll hs.r o.kinds) o.added) ho.r
  refine ⟨?_, ⟨canon_kremoveAll a1.2 _, a2.2, a3.2⟩⟩
  show (kremoveAll (kaddAllG s.kinds o.kinds) o.removed, kaddAllG (kremoveAll s.added o.removed) o.added,
      kaddAllG (kremoveAll (kremoveAll s.removed o.kinds) o.added) o.removed) = _
  rw [a1.1, a2.1, a3.1]
  rfl

/-- the operation uses canonical kinds only, and `Node.Merge` is not called on a node with itself -/
def Op.Plain : Op → Prop
  | .addKinds _ ks => ∀ k, some k ∈ ks → k < 100
  | .deleteKinds _ ks => Canon ks
  | .nmerge e f => e ≠ f
  | _ => True

/-- heap state and list state agree, the headers own their arrays, all kinds are canonical -/
structure Rel (hs : HSt) (st : St) : Prop where
  good : Good hs
  same : ∀ e, hs.kindsOf e = (st.get e).triple
  canon : ∀ e, CanonE (st.get e)

theorem rel_put {hs hs' : HSt} {st : St} {e : Bool} {x : Ent} (h : Rel hs st) (hstep : StepOn hs hs' e x.triple)
    (hc : CanonE x) : Rel hs' (st.put e x) := by
  refine ⟨hstep.good, ?_, ?_⟩
  · intro e'
    rw [get_put]
    by_cases he : e' = e
    · rw [if_pos he, he]; exact hstep.here
    · rw [if_neg he, other_unchanged_of hstep.frame e' he]; exact h.same e'
  · intro e'
    rw [get_put]
    by_cases he : e' = e
    · rw [if_pos he]; exact hc
    · rw [if_neg he]; exact h.canon e'

/-- an operation that does not touch kinds -/
theorem rel_same_triple {hs : HSt} {st st' : St} (h : Rel hs st)
    (ht : ∀ e, (st'.get e).triple = (st.get e).triple) : Rel hs st' := by
  refine ⟨h.good, fun e => by rw [ht e]; exact h.same e, fun e => ?_⟩
  have := h.canon e
  have e3 := ht e
  unfold Ent.triple at e3
  injection e3 with e3a e3b
  injection e3b with e3b e3c
  exact ⟨by rw [e3a]; exact this.k, by rw [e3b]; exact this.a, by rw [e3c]; exact this.r⟩

theorem triple_put_same (st : St) (e : Bool) (x : Ent) (hx : x.triple = (st.get e).triple) (e' : Bool) :
    ((st.put e x).get e').triple = (st.get e').triple := by
  rw [get_put]
  by_cases he : e' = e
  · rw [if_pos he, he]; exact hx
  · rw [if_neg he]

/-- one operation: the heap model of the kind slices stays in step with the list model -/
theorem rel_step {hs : HSt} {st : St} (h : Rel hs st) (o : Op) (hp : o.Plain) :
    Rel (hs.step false o) (st.step false o) := by
  cases o with
  | set e k v => exact rel_same_triple h (triple_put_same st e _ rfl)
  | setAll e kvs => exact rel_same_triple h (triple_put_same st e _ rfl)
  | delete e k => exact rel_same_triple h (triple_put_same st e _ rfl)
  | read e => exact h
  | clone e f => exact rel_same_triple h (triple_put_same st f _ rfl)
  | pmerge e f => exact rel_same_triple h (triple_put_same st e _ rfl)
  | rmerge e f => exact rel_same_triple h (triple_put_same st e _ rfl)
  | strip e ks => exact rel_same_triple h (triple_put_same st e _ rfl)
  | addKinds e ks =>
    obtain ⟨e1, c1⟩ := triple_addKinds (h.canon e) hp
    have hs1 := addKinds_stepOn h.good e ks
    rw [h.same e, e1] at hs1
    exact rel_put h hs1 c1
  | deleteKinds e ks =>
    obtain ⟨e1, c1⟩ := triple_deleteKinds (h.canon e) hp
    have hs1 := deleteKinds_stepOn h.good e ks
    rw [h.same e, e1] at hs1
    exact rel_put h hs1 c1
  | nmerge e f =>
    obtain ⟨e1, c1⟩ := triple_merge (h.canon e) (h.canon f)
    have hs1 := mergeKinds_stepOn h.good hp
    rw [h.same e, h.same f, e1] at hs1
    exact rel_put h hs1 c1
  | json e =>
    have hc := h.canon e
    have hsame := h.same e
    unfold HSt.kindsOf Ent.triple at hsame
    injection hsame with s0 s12
    injection s12 with s1 s2
    have hs1 := json_stepOn h.good e (by rw [s0]; exact hc.k) (by rw [s1]; exact hc.a) (by rw [s2]; exact hc.r)
    rw [h.same e] at hs1
    have hx : (st.get e).jsonRoundTrip = st.get e := ent_json_roundtrip _
    show Rel (hs.json e) (st.put e (st.get e).jsonRoundTrip)
    rw [hx]
    exact rel_put h hs1 hc

theorem rel_run {hs : HSt} {st : St} (h : Rel hs st) (ops : List Op) (hp : ∀ o, o ∈ ops → o.Plain) :
    Rel (hs.run false ops) (st.run false ops) := by
  induction ops generalizing hs st with
  | nil => exact h
  | cons o ops ih =>
    exact ih (rel_step h o (hp o List.mem_cons_self)) (fun o' ho' => hp o' (List.mem_cons_of_mem _ ho'))

theorem rel_init (L : Loaded) (prep : Bool) (hc : Canon L.kinds) : Rel (HSt.init L.kinds false prep) (St.init L) := by
  refine ⟨good_init L.kinds prep, ?_, ?_⟩
  · intro e
    rw [kindsOf_init]
    cases e <;> rfl
  · intro e
    have : (St.init L).get e = L.ent := by cases e <;> rfl
    rw [this]
    exact ⟨hc, (fun _ h => by cases h), (fun _ h => by cases h)⟩

/-! ### duplicates -/

theorem mem_kremove_of_ne {l : List Kind} {x k : Kind} (hx : x ∈ l) (hne : x ≠ k) : x ∈ kremove l k := by
  induction l with
  | nil => cases hx
  | cons a l ih =>
    rw [kremove_cons]
    by_cases e : a = k
    · rw [if_pos e]
      rw [List.mem_cons] at hx
      rcases hx with h | h
      · exact absurd (h.trans e) hne
      · exact h
    · rw [if_neg e, List.mem_cons]
      rw [List.mem_cons] at hx
      rcases hx with h | h
      · exact Or.inl h
      · exact Or.inr (ih h)

/-- a list with a duplicate has an element that survives its own removal (`Kinds.Remove` drops one occurrence) -/
theorem exists_mem_kremove_of_not_nodup {l : List Kind} (h : ¬ l.Nodup) : ∃ k, k ∈ kremove l k := by
  induction l with
  | nil => exact absurd List.nodup_nil h
  | cons a l ih =>
    by_cases ha : a ∈ l
    · exact ⟨a, by rw [kremove_cons, if_pos rfl]; exact ha⟩
    · have hl : ¬ l.Nodup := fun hn => h (List.nodup_cons.2 ⟨ha, hn⟩)
      obtain ⟨k, hk⟩ := ih hl
      refine ⟨k, ?_⟩
      rw [kremove_cons]
      by_cases e : a = k
      · rw [if_pos e]; exact mem_of_mem_kremove hk
      · rw [if_neg e]; exact List.mem_cons_of_mem _ hk

end Dawgs.C12
