import Dawgs.Model.C01Order
import Dawgs.Proofs.C01WithHop
/-
C01 / S1o — ORDER BY on a property: the statement sorts by the jsonb value of the property, the reference semantics by Cypher's global order.
The two orders agree on the values of the key present in a graph as long as they are scalars and no BOOLEAN value meets a NUMBER value
(jsonb: Number < Boolean, openCypher: Boolean < Number) — `KeyOK`. Under that hypothesis both sides are the same stable sort of the same list.
-/
namespace Dawgs.C01.Proofs
open Dawgs Dawgs.Sql

/-- what kind of value property `k` has on node `n` -/
inductive KeyKind where
  | missing | str | num | bool | other
deriving DecidableEq, Repr

def keyKind (k : String) (n : NodeRec) : KeyKind :=
  match Json.lookup k n.props with
  | none => .missing
  | some (.str _) => .str
  | some (.num _) => .num
  | some (.bool _) => .bool
  | some _ => .other

/-- the stage's hypothesis on the nodes that are sorted: every value of the key is a scalar, and booleans do not meet numbers -/
def KeyOK (k : String) (ns : List NodeRec) : Prop :=
  (∀ n ∈ ns, keyKind k n ≠ .other) ∧ (∀ a ∈ ns, ∀ b ∈ ns, ¬ (keyKind k a = .bool ∧ keyKind k b = .num))

/-- the order the statement sorts by: the jsonb order of the key values, SQL NULL (missing property) last when ascending -/
def propLe (k : String) (asc : Bool) (a b : NodeRec) : Bool := keysLe [(propVal a.props k, asc)] [(propVal b.props k, asc)]

section Cy
open Dawgs.Cy

/-- on scalar key values that do not pair a boolean with a number, openCypher's order of the key IS the jsonb order -/
theorem sortKeysLe_prop (k : String) (asc : Bool) (a b : NodeRec) (ha : keyKind k a ≠ .other) (hb : keyKind k b ≠ .other)
    (h1 : ¬ (keyKind k a = .bool ∧ keyKind k b = .num)) (h2 : ¬ (keyKind k b = .bool ∧ keyKind k a = .num)) :
    sortKeysLe false [(propC a k, asc)] [(propC b k, asc)] = propLe k asc a b := by
  unfold keyKind at ha hb h1 h2
  unfold propLe propVal propC
  cases hla : Json.lookup k a.props with
  | none =>
    cases hlb : Json.lookup k b.props with
    | none => rfl
    | some jb =>
      cases jb <;> simp_all [sortKeysLe, orderCmp, orderRank, cCmp, jsonToC, keysLe, keyLe, valCmp] <;> cases asc <;> rfl
  | some ja =>
    cases hlb : Json.lookup k b.props with
    | none =>
      cases ja <;> simp_all [sortKeysLe, orderCmp, orderRank, cCmp, jsonToC, keysLe, keyLe, valCmp] <;> cases asc <;> rfl
    | some jb =>
      cases ja <;> cases jb <;> simp_all [sortKeysLe, orderCmp, orderRank, cCmp, jsonToC, keysLe, keyLe, valCmp, jsonCmp, Json.canon, jsonCmpC, jsonRank]
      all_goals first
        | rfl
        | (generalize Dec.cmp _ _ = o; cases o <;> rfl)
        | (generalize strCmp _ _ = o; cases o <;> rfl)
        | (generalize compare (Bool.toNat _) (Bool.toNat _) = o; cases o <;> rfl)

end Cy

-- ------------------------------------------------------------------ sorting a mapped list, the key function agreeing on its members only

theorem insertBy_map_mem {α β : Type} (f : α → β) (le : α → α → Bool) (le' : β → β → Bool) (x : α) :
    ∀ (xs : List α), (∀ y ∈ xs, le' (f x) (f y) = le x y) → insertBy le' (f x) (xs.map f) = (insertBy le x xs).map f
  | [], _ => rfl
  | y :: ys, h => by
    simp only [List.map_cons, insertBy, h y (List.mem_cons_self ..)]
    cases le x y
    · simp only [Bool.false_eq_true, if_false, List.map_cons, insertBy_map_mem f le le' x ys (fun z hz => h z (List.mem_cons_of_mem _ hz))]
    · simp only [if_true, List.map_cons]

theorem sortBy_map_mem {α β : Type} (f : α → β) (le : α → α → Bool) (le' : β → β → Bool) :
    ∀ (xs : List α), (∀ a ∈ xs, ∀ b ∈ xs, le' (f a) (f b) = le a b) → sortBy le' (xs.map f) = (sortBy le xs).map f
  | [], _ => rfl
  | x :: xs, h => by
    show insertBy le' (f x) (sortBy le' (xs.map f)) = (insertBy le x (sortBy le xs)).map f
    rw [sortBy_map_mem f le le' xs (fun a ha b hb => h a (List.mem_cons_of_mem _ ha) b (List.mem_cons_of_mem _ hb))]
    apply insertBy_map_mem
    intro y hy
    have : y ∈ xs := (sortBy_perm le xs).subset hy
    exact h x (List.mem_cons_self ..) y (List.mem_cons_of_mem _ this)

-- ------------------------------------------------------------------ SQL side

theorem orderKeys_prop (km : KindMap) (n : NodeRec) (E : EEnv) (names : List String) (vals : List Val) (k : String) (asc : Bool) :
    evalOrderKeys names (vals, some (E.push (sLvl km n))) [(S1o.keyExpr k, asc)] = .ok [(propVal n.props k, asc)] := by
  rw [evalOrderKeys]
  have hb : bareNameE (S1o.keyExpr k) = none := rfl
  unfold S1o.keyExpr at *
  simp only [hb, eval_outerArrow, ebind_ok, evalOrderKeys, epure_ok]
  rfl

theorem sortFamily_prop (k : String) (n : NodeRec) : sortFamily (propVal n.props k) = none ∨ sortFamily (propVal n.props k) = some 3 := by
  unfold propVal
  cases Json.lookup k n.props with
  | none => exact Or.inl rfl
  | some j => exact Or.inr rfl

/-- key columns of scalar jsonb values (or NULL) are comparable -/
theorem keysComparable_props (k : String) (asc : Bool) (ns : List NodeRec) (hs : ∀ n ∈ ns, keyKind k n ≠ .other) :
    keysComparable (ns.map (fun n => [(propVal n.props k, asc)])) = true := by
  cases ns with
  | nil => rfl
  | cons n ns =>
    have hcol : ∀ (ms : List NodeRec), (ms.map (fun n => [(propVal n.props k, asc)])).filterMap (fun ks => (ks[0]?).map (·.1)) = ms.map (fun n => propVal n.props k) := by
      intro ms; induction ms with
      | nil => rfl
      | cons m ms ih => simp [List.filterMap_cons, ih]
    have hfam : ∀ (ms : List NodeRec), ((ms.map (fun n => propVal n.props k)).filterMap sortFamily).eraseDups.length ≤ 1 := by
      intro ms
      have hall : ∀ x ∈ (ms.map (fun n => propVal n.props k)).filterMap sortFamily, x = 3 := by
        intro x hx
        obtain ⟨v, hv, hvx⟩ := List.mem_filterMap.mp hx
        obtain ⟨m, _, rfl⟩ := List.mem_map.mp hv
        rcases sortFamily_prop k m with h | h
        · rw [h] at hvx; cases hvx
        · rw [h] at hvx; cases hvx; rfl
      generalize (ms.map (fun n => propVal n.props k)).filterMap sortFamily = L at hall
      cases L with
      | nil => simp
      | cons x L =>
        have hx : x = 3 := hall x (List.mem_cons_self ..)
        subst hx
        have hfil : L.filter (fun b => !b == 3) = [] := by
          rw [List.filter_eq_nil_iff]
          intro y hy
          have := hall y (List.mem_cons_of_mem _ hy)
          subst this
          simp
        rw [List.eraseDups_cons, hfil]
        simp
    have hobj : ∀ (ms : List NodeRec), (∀ m ∈ ms, keyKind k m ≠ .other) →
        (ms.map (fun n => propVal n.props k)).all (fun v => match v with | .jsonb (.obj _) => false | _ => true) = true := by
      intro ms hms
      rw [List.all_eq_true]
      intro v hv
      obtain ⟨m, hm, rfl⟩ := List.mem_map.mp hv
      have := hms m hm
      unfold keyKind at this
      unfold propVal
      cases hl : Json.lookup k m.props with
      | none => rfl
      | some j => cases j <;> simp_all
    rw [List.map_cons]
    unfold keysComparable
    simp only
    have h1 : ([(propVal n.props k, asc)] : List (Val × Bool)).length = 1 := rfl
    rw [h1, List.range_one, List.all_cons, List.all_nil, Bool.and_true, Bool.and_eq_true, decide_eq_true_eq]
    have hc := hcol (n :: ns)
    rw [List.map_cons] at hc
    rw [hc]
    exact ⟨hfam _, hobj _ hs⟩

/-- the nodes of the result, in the statement's order -/
def ordPropNodes (q : S1o.Query) (g : Graph) : List NodeRec :=
  cutN q.skip q.limit (sortBy (propLe q.key q.asc) (g.nodes.filter (keepS q.base)))

/-- SQL SIDE of S1o: the statement's rows are the item values of the kept nodes, stably sorted by the jsonb order of the key, then cut -/
theorem sql_side_o (km : KindMap) (g : Graph) (hok : GraphOK km g) (q : S1o.Query) (hkey : ∀ n ∈ g.nodes, keyKind q.key n ≠ .other)
    (st : Stmt) (h : q.tr km = some st) :
    ∃ names, BenignT (Sql.eval (encode km g) st []) (⟨names, (ordPropNodes q g).map (fun n => q.base.items.map (itemVal km n))⟩ : Table) := by
  unfold S1o.Query.tr at h
  cases hwf : q.wf with
  | false => simp [hwf] at h
  | true =>
  simp only [hwf, Bool.not_true, Bool.false_eq_true, if_false] at h
  cases hwo : S1.whereOf km q.base with
  | none => rw [hwo] at h; cases h
  | some w =>
    rw [hwo] at h
    simp only [Option.some.injEq] at h
    subst h
    refine ⟨projNames (q.base.items.map (S1.Item.tr q.base.var)) ((g.nodes.filter (keepS q.base)).map (sLvl km)), ?_⟩
    have hst := eval_s1Stmt (encode km g) w (q.base.items.map (S1.Item.tr q.base.var)) [(S1o.keyExpr q.key, q.asc)]
      (q.skip.map S1.natLitS) (q.limit.map S1.natLitS)
    unfold s1Stmt at hst
    rw [hst]
    have hfr := frame_eval km g w (semW q.base) (whereOf_ok km g hok q.base w (E0 (encode km g)) hwo)
    apply benT_bind hfr
    left
    have hkeep : (fun n => keepW n (semW q.base)) = keepS q.base := by funext n; exact keepW_semW q.base n
    rw [hkeep]
    rw [outer_eval km (encode km g) (g.nodes.filter (keepS q.base)) q.base.var q.base.items _ rfl]
    simp only [ebind_ok]
    generalize hE : E1 (encode km g) ⟨["n0"], (g.nodes.filter (keepS q.base)).map (fun n => [nodeVal km n])⟩ = E
    unfold ordPropNodes
    have hsub : ∀ n ∈ g.nodes.filter (keepS q.base), keyKind q.key n ≠ .other := fun n hn => hkey n (List.mem_filter.mp hn).1
    generalize g.nodes.filter (keepS q.base) = ns at hsub ⊢
    generalize projNames (q.base.items.map (S1.Item.tr q.base.var)) (ns.map (sLvl km)) = names
    have hk : (ns.map (fun n => (q.base.items.map (itemVal km n), some (E.push (sLvl km n))))).mapE
        (fun row => do let ks ← evalOrderKeys names row [(S1o.keyExpr q.key, q.asc)]; pure (ks, row)) =
        .ok (ns.map (fun n => ([(propVal n.props q.key, q.asc)], (q.base.items.map (itemVal km n), some (E.push (sLvl km n)))))) := by
      apply mapE_of_forall₂
      induction ns with
      | nil => exact .nil
      | cons n ns ih => exact .cons (by rw [orderKeys_prop]; rfl) (ih (fun m hm => hsub m (List.mem_cons_of_mem _ hm)))
    rw [hk]
    simp only [ebind_ok]
    unfold orderRows
    have hkc : keysComparable ((ns.map (fun n => ([(propVal n.props q.key, q.asc)], (q.base.items.map (itemVal km n), some (E.push (sLvl km n)))))).map (·.1)) = true := by
      rw [List.map_map]
      exact keysComparable_props q.key q.asc ns hsub
    rw [hkc]
    simp only [if_true, ebind_ok]
    rw [sortBy_map (fun n => ([(propVal n.props q.key, q.asc)], (q.base.items.map (itemVal km n), some (E.push (sLvl km n))))) (propLe q.key q.asc) _
      (fun a b => rfl)]
    rw [evalOpt_nat, evalOpt_nat]
    simp only [ebind_ok, cutRows_nat, epure_ok]
    congr 1
    cases q.skip <;> cases q.limit <;> simp [cutN, List.map_map, Function.comp_def, List.map_drop, List.map_take]

-- ------------------------------------------------------------------ Cypher side

section Cy
open Dawgs.Cy

theorem wf_lookup_o (q : S1o.Query) (n : NodeRec) (hwf : q.wf = true) :
    (((Cy.projNames (q.base.items.map (S1.Item.toCy q.base.var))).zip (q.base.items.map (itemC n))) ++ [(q.base.var, CVal.node n.id)]).lookup q.base.var =
      some (.node n.id) := by
  apply lookup_after
  intro p hp hpv
  unfold S1o.Query.wf at hwf
  simp only [Bool.and_eq_true, List.all_eq_true] at hwf
  rw [List.zip_map_right] at hp
  obtain ⟨x, hx, rfl⟩ := List.mem_map.mp hp
  have := hwf.2 x hx
  simp only [Prod.map, id] at hpv ⊢
  rw [hpv] at this
  simp only [bne_self_eq_false, Bool.false_or] at this
  cases hx2 : x.2 with
  | node a => rfl
  | prop k a => rw [hx2] at this; cases this
  | id a => rw [hx2] at this; cases this

/-- the scalar key value of a row is accepted as a sort key (it is neither a path nor a list) -/
theorem keyRows_prop (g : Graph) (q : S1o.Query) (hwf : q.wf = true) (ns : List NodeRec) (hn : ∀ n ∈ ns, g.node? n.id = some n)
    (hK : KeyOK q.key ns) :
    keyRows .none g [(.prop (.var q.base.var) q.key, q.asc)] (ns.map (rowC q.base)) =
      .ok ((Sql.sortBy (propLe q.key q.asc) ns).map (fun n => ([(propC n q.key, q.asc)], rowC q.base n))) := by
  unfold keyRows
  rw [mapE_map_ok (rowC q.base) _ (fun n => ([(propC n q.key, q.asc)], rowC q.base n))]
  · simp only [ebind_ok, epure_ok, stableSort_eq]
    rw [sortBy_map_mem (fun n => ([(propC n q.key, q.asc)], rowC q.base n)) (propLe q.key q.asc) _ ns
      (fun a ha b hb => sortKeysLe_prop q.key q.asc a b (hK.1 a ha) (hK.1 b hb) (hK.2 a ha b hb) (hK.2 b hb a ha))]
  · intro n hmem
    have hl := wf_lookup_o q n hwf
    have hev : Cy.evalExpr .none g (rowC q.base n).2 false (.prop (.var q.base.var) q.key) = .ok (propC n q.key) := by
      rw [Cy.evalExpr, Cy.evalExpr]
      simp only [lookupVar, rowC, cyNames, hl, ebind_ok, propOf_node g n q.key (hn n hmem)]
    have hkind := hK.1 n hmem
    simp only [mapE_singleton, hev, ebind_ok]
    unfold keyKind at hkind
    unfold propC
    cases hlk : Json.lookup q.key n.props with
    | none => rfl
    | some j => cases j <;> simp_all [jsonToC]

/-- `cutKeyed` either refuses (a cut inside a block of equal keys) or cuts like `cutN` -/
theorem cutKeyed_ok (skip limit : Option Nat) (L L' : List KeyedRow) (h : cutKeyed skip limit L = .ok L') : L' = cutN skip limit L := by
  unfold cutKeyed at h
  cases skip with
  | none =>
    simp only [Bool.false_eq_true, if_false] at h
    cases limit with
    | none =>
      simp only [Bool.false_eq_true, if_false, Except.ok.injEq] at h
      rw [← h]; rfl
    | some k =>
      by_cases ht : tieAt L k = true
      · simp [ht] at h
      · simp only [ht, Bool.false_eq_true, if_false, Except.ok.injEq] at h
        rw [← h]; rfl
  | some j =>
    by_cases hs : tieAt L j = true
    · simp [hs] at h
    · simp only [hs, Bool.false_eq_true, if_false] at h
      cases limit with
      | none =>
        simp only [Bool.false_eq_true, if_false, Except.ok.injEq] at h
        rw [← h]; rfl
      | some k =>
        by_cases ht : tieAt (L.drop j) k = true
        · simp [ht] at h
        · simp only [ht, Bool.false_eq_true, if_false, Except.ok.injEq] at h
          rw [← h]; rfl

/-- CYPHER SIDE of S1o, as an equation: the reference semantics sorts the kept nodes by the key (stable sort), then cuts — `cutKeyed` refuses a
cut that falls inside a block of equal keys -/
theorem cy_eval_o (g : Graph) (hnd : (g.nodes.map (·.id)).Nodup) (q : S1o.Query) (hwf : q.wf = true)
    (hK : KeyOK q.key (g.nodes.filter (keepS q.base))) :
    Cy.eval .none g q.toCy = (do
      let keyed ← cutKeyed q.skip q.limit ((Sql.sortBy (propLe q.key q.asc) (g.nodes.filter (keepS q.base))).map
        (fun n => ([(propC n q.key, q.asc)], rowC q.base n)))
      pure (cyNames q.base, keyed.map (fun kr => kr.2.1))) := by
  have hn : ∀ n ∈ g.nodes, g.node? n.id = some n := find_of_nodup g.nodes hnd
  have hc : evalClauses .none g true [[]] q.toCy.clauses = .ok ((g.nodes.filter (keepS q.base)).map (fun n => [(q.base.var, CVal.node n.id)])) :=
    clause_eval g q.base hn
  unfold Cy.eval
  have hparts : q.toCy.parts = [] := rfl
  simp only [hparts, evalParts, ebind_ok, List.isEmpty_nil, hc]
  unfold evalProjection
  have hall : q.toCy.ret.all = false := rfl
  have hdist : q.toCy.ret.distinct = false := rfl
  have hitems : q.toCy.ret.items = q.base.items.map (S1.Item.toCy q.base.var) := rfl
  have hob : q.toCy.ret.orderBy = [(.prop (.var q.base.var) q.key, q.asc)] := rfl
  have hskip : q.toCy.ret.skip = q.skip.map S1.natLit := rfl
  have hlim : q.toCy.ret.limit = q.limit.map S1.natLit := rfl
  simp only [hall, hdist, hitems, hob, hskip, hlim, Bool.false_eq_true, if_false, anyAgg_items, Bool.or_self]
  have hns : ∀ n ∈ g.nodes.filter (keepS q.base), g.node? n.id = some n := fun n h => hn n (List.mem_filter.mp h).1
  have hpr := plainRows_eval g q.base (g.nodes.filter (keepS q.base)) hns
  unfold cyNames at hpr
  rw [hpr]
  simp only [ebind_ok]
  have hkr := keyRows_prop g q hwf _ hns hK
  unfold cyNames at hkr
  rw [hkr]
  simp only [ebind_ok, intOf_nat]
  cases cutKeyed q.skip q.limit ((Sql.sortBy (propLe q.key q.asc) (g.nodes.filter (keepS q.base))).map (fun n => ([(propC n q.key, q.asc)], rowC q.base n))) with
  | error e => rfl
  | ok L' => simp only [ebind_ok, epure_ok, cyNames, List.map_map, Function.comp_def]

/-- whenever the reference semantics answers, it answers with the item values of `ordPropNodes` -/
theorem cy_side_o (g : Graph) (hnd : (g.nodes.map (·.id)).Nodup) (q : S1o.Query) (hwf : q.wf = true)
    (hK : KeyOK q.key (g.nodes.filter (keepS q.base))) (r : List String × List (List CVal)) (hr : Cy.eval .none g q.toCy = .ok r) :
    r = (cyNames q.base, (ordPropNodes q g).map (fun n => q.base.items.map (itemC n))) := by
  rw [cy_eval_o g hnd q hwf hK] at hr
  unfold ordPropNodes
  generalize g.nodes.filter (keepS q.base) = ns at hr ⊢
  cases hcut : cutKeyed q.skip q.limit ((Sql.sortBy (propLe q.key q.asc) ns).map (fun n => ([(propC n q.key, q.asc)], rowC q.base n))) with
  | error e => rw [hcut] at hr; cases hr
  | ok L' =>
    rw [hcut] at hr
    simp only [ebind_ok, epure_ok] at hr
    have hL := cutKeyed_ok _ _ _ _ hcut
    cases hr
    rw [hL]
    congr 1
    cases q.skip <;> cases q.limit <;> simp [cutN, List.map_map, Function.comp_def, List.map_drop, List.map_take, rowC]

theorem cutKeyed_cases (skip limit : Option Nat) (L : List KeyedRow) :
    (∃ L', cutKeyed skip limit L = .ok L') ∨ cutKeyed skip limit L = .error "nondeterministic-skip-inside-ties" ∨
      cutKeyed skip limit L = .error "nondeterministic-limit-inside-ties" := by
  unfold cutKeyed
  cases skip with
  | none =>
    cases limit with
    | none => exact Or.inl ⟨L, by simp⟩
    | some k =>
      by_cases ht : tieAt L k = true
      · exact Or.inr (Or.inr (by simp [ht]))
      · exact Or.inl ⟨L.take k, by simp [ht]⟩
  | some j =>
    by_cases hs : tieAt L j = true
    · exact Or.inr (Or.inl (by simp [hs]))
    · cases limit with
      | none => exact Or.inl ⟨L.drop j, by simp [hs]⟩
      | some k =>
        by_cases ht : tieAt (L.drop j) k = true
        · exact Or.inr (Or.inr (by simp [hs, ht]))
        · exact Or.inl ⟨(L.drop j).take k, by simp [hs, ht]⟩

/-- the reference semantics refuses a query of the stage only for a SKIP / LIMIT that cuts inside equal sort keys -/
theorem cy_refuses_only_ties (g : Graph) (hnd : (g.nodes.map (·.id)).Nodup) (q : S1o.Query) (hwf : q.wf = true)
    (hK : KeyOK q.key (g.nodes.filter (keepS q.base))) :
    (∃ r, Cy.eval .none g q.toCy = .ok r) ∨ Cy.eval .none g q.toCy = .error "nondeterministic-skip-inside-ties" ∨
      Cy.eval .none g q.toCy = .error "nondeterministic-limit-inside-ties" := by
  rw [cy_eval_o g hnd q hwf hK]
  generalize (Sql.sortBy (propLe q.key q.asc) (g.nodes.filter (keepS q.base))).map (fun n => ([(propC n q.key, q.asc)], rowC q.base n)) = L
  rcases cutKeyed_cases q.skip q.limit L with ⟨L', h⟩ | h | h
  · rw [h]; exact Or.inl ⟨_, rfl⟩
  · rw [h]; exact Or.inr (Or.inl rfl)
  · rw [h]; exact Or.inr (Or.inr rfl)

end Cy

theorem keyOK_sub (k : String) (ns ms : List NodeRec) (hsub : ∀ n ∈ ms, n ∈ ns) (h : KeyOK k ns) : KeyOK k ms :=
  ⟨fun n hn => h.1 n (hsub n hn), fun a ha b hb => h.2 a (hsub a ha) b (hsub b hb)⟩

theorem ordPropNodes_sub (q : S1o.Query) (g : Graph) : ∀ n ∈ ordPropNodes q g, n ∈ g.nodes := by
  intro n hn
  unfold ordPropNodes at hn
  have h1 := cutN_sub q.skip q.limit _ n hn
  have h2 := (sortBy_perm (propLe q.key q.asc) (g.nodes.filter (keepS q.base))).subset h1
  exact (List.mem_filter.mp h2).1

/-- STAGE S1o (ORDER BY on a property), for ALL graphs satisfying `GraphOK` whose values of the sort key are scalars with no boolean meeting a
number (`KeyOK`), ALL queries of the stage: the statement either stops with `unmodelled` or yields a table; and whenever the reference semantics
answers (it refuses only a SKIP / LIMIT cutting inside equal keys), the client-visible rows are its rows, in the same order -/
theorem s1o_sound (km : KindMap) (g : Graph) (hok : GraphOK km g) (q : S1o.Query) (hK : KeyOK q.key g.nodes) (st : Stmt) (h : q.tr km = some st) :
    ∃ names rows, BenignT (Sql.eval (encode km g) st []) (⟨names, rows⟩ : Table) ∧
      ∀ r, Cy.eval .none g q.toCy = .ok r → sqlRows ⟨names, rows⟩ = cyRows g km r := by
  have hwf : q.wf = true := by
    unfold S1o.Query.tr at h
    cases hwf : q.wf with
    | true => rfl
    | false => simp [hwf] at h
  have hn : ∀ n ∈ g.nodes, g.node? n.id = some n := find_of_nodup g.nodes hok.nodup
  obtain ⟨names, hsql⟩ := sql_side_o km g hok q hK.1 st h
  refine ⟨names, _, hsql, fun r hr => ?_⟩
  have hKf : KeyOK q.key (g.nodes.filter (keepS q.base)) := keyOK_sub q.key g.nodes _ (fun n hn' => (List.mem_filter.mp hn').1) hK
  rw [cy_side_o g hok.nodup q hwf hKf r hr]
  unfold sqlRows cyRows
  exact rows_agree km g q.base hn _ (ordPropNodes_sub q g)

/-- the executable hypothesis implies `KeyOK` -/
theorem keyOKb_sound (g : Graph) (k : String) (h : keyOKb g k = true) : KeyOK k g.nodes := by
  unfold keyOKb scalarKeyB at h
  simp only [Bool.and_eq_true, List.all_eq_true, Bool.not_eq_true', Bool.and_eq_false_iff, List.any_eq_false] at h
  obtain ⟨hs, hmix⟩ := h
  constructor
  · intro n hn
    have := hs n hn
    unfold keyKind
    cases hl : Json.lookup k n.props with
    | none => simp
    | some j => rw [hl] at this; cases j <;> simp_all
  · intro a ha b hb ⟨hka, hkb⟩
    unfold keyKind at hka hkb
    rcases hmix with hm | hm
    · have := hm a ha
      cases hl : Json.lookup k a.props with
      | none => rw [hl] at hka; cases hka
      | some j => rw [hl] at hka this; cases j <;> simp_all
    · have := hm b hb
      cases hl : Json.lookup k b.props with
      | none => rw [hl] at hkb; cases hkb
      | some j => rw [hl] at hkb this; cases j <;> simp_all

-- ------------------------------------------------------------------ the recogniser of stage S1o is sound

theorem ofCyOrder_sound (q : Cy.Query) (s : S1o.Query) (h : ofCyOrder q = some s) : s.toCy = q := by
  unfold ofCyOrder at h
  split at h
  · rename_i v kinds wh hparts hclauses
    split at h
    · cases h
    · rename_i hcond
      simp only [Bool.or_eq_true, not_or, Bool.not_eq_true] at hcond
      simp only [bind, Option.bind_eq_some_iff, pure] at h
      obtain ⟨w, hw, items, hitems, skip, hskip, limit, hlimit, h⟩ := h
      split at h
      · rename_i v' k asc hob
        split at h
        · cases h
        · rename_i hc2
          simp only [Bool.or_eq_true, not_or, bne_iff_ne, ne_eq, Decidable.not_not, Bool.not_eq_true] at hc2
          split at h
          · simp only [Option.some.injEq] at h
            subst h
            have hit := itemsOf_sound v _ _ hitems
            have hwh : w.map (S1.Pred.toCy v) = wh := by
              cases wh with
              | none => simp only [Option.some.injEq] at hw; subst hw; rfl
              | some e =>
                obtain ⟨p, hp, rfl⟩ := Option.map_eq_some_iff.mp hw
                simp only [Option.map_some, (predOf_sound v).1 e p hp]
            have hsk := natOf_sound _ _ hskip
            have hli := natOf_sound _ _ hlimit
            cases q with
            | mk parts clauses ret =>
              cases ret with
              | mk distinct all ritems orderBy rskip rlimit =>
                simp only at hparts hclauses hcond hit hob hsk hli
                subst hparts hclauses hob
                obtain ⟨hv', _⟩ := hc2
                subst hv'
                simp only [S1o.Query.toCy, S1.Query.toCy, hit, hwh, hsk, hli, Cy.Query.mk.injEq, Cy.Projection.mk.injEq, true_and]
                simp_all
          · cases h
      · cases h
  · cases h

end Dawgs.C01.Proofs
