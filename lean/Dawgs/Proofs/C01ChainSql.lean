import Dawgs.Model.C01Chain
import Dawgs.Proofs.C01S2Sound
/-
C01 / S2c — SQL side of chains: every further frame `s_i` extends the partial matches of `s_{i-1}` by one relationship and one node,
keeping exactly the relationships not yet used (`e_i.id != (s_{i-1}.e_j).id`).
-/
namespace Dawgs.C01.Proofs
open Dawgs Dawgs.Sql

/-- a partial match of a chain pattern: relationships and nodes in pattern order -/
structure Chain where
  es : List EdgeRec
  ns : List NodeRec
deriving Inhabited

def rowOf (km : KindMap) (c : Chain) : List Val := c.es.map (edgeVal km) ++ c.ns.map (nodeVal km)

/-- the far node of edge e, if it exists and carries the kinds -/
def farK (g : Graph) (nk : List String) (e : EdgeRec) : List NodeRec :=
  match g.node? e.stop with
  | some b => if Cy.kindsAllOf b.kinds nk then [b] else []
  | none => []

/-- the extensions of a partial match by one directed hop `-[:rk]->(:nk)`: outgoing relationships of its last node that are not used yet -/
def ext (g : Graph) (rk nk : List String) (c : Chain) : List Chain :=
  match c.ns.getLast? with
  | none => []
  | some l =>
    (g.edges.filter (fun e => e.start == l.id && Cy.kindAnyOf e.kind rk && !(c.es.map (·.id)).contains e.id)).flatMap (fun e =>
      (farK g nk e).map (fun n => ⟨c.es ++ [e], c.ns ++ [n]⟩))

/-- environment of a frame: the database and the frames evaluated so far -/
def Ec (db : Db) (ctes : List (String × Table)) : EEnv := ⟨db, [], ctes, [], none⟩

-- ------------------------------------------------------------------ generic join step

/-- one `join <table> <al> on <on>` step over partial rows indexed by `ps` (ON total up to `unmodelled`) -/
theorem join_tbl_step (E : EEnv) {ι ρ : Type} (ps : List ι) (lv : ι → Level) (t al : String) (cols : List String) (rows : List ρ)
    (enc : ρ → List Val) (hT : lookupTableE E t = .ok ⟨cols, rows.map enc⟩) (on : Expr) (p : ι → ρ → Bool)
    (hon : ∀ x ∈ ps, ∀ r ∈ rows, BenignT (whTest E (some on) (lv x ++ [(⟨al, cols, enc r⟩ : Binding)])) (p x r)) :
    BenignT (evalJoin E (ps.map lv) .inner (.table [t] (some al)) (some on))
      ((ps.flatMap (fun x => (rows.filter (p x)).map (fun r => (x, r)))).map (fun xr => lv xr.1 ++ [(⟨al, cols, enc xr.2⟩ : Binding)])) := by
  rw [evalJoin_table _ _ _ _ _ _ hT]
  apply benT_bind (mapE_map_ben lv _ (fun x => (rows.filter (p x)).map (fun r => lv x ++ [(⟨al, cols, enc r⟩ : Binding)])) ps ?_)
  · left
    simp only [epure_ok]
    rw [flatten_map_map]
  · intro x hx
    simp only [Option.getD_some, List.map_map, Function.comp_def]
    exact filterE_ben (fun r => lv x ++ [(⟨al, cols, enc r⟩ : Binding)]) _ (p x) rows (fun r hr => hon x hx r hr)

/-- `from <sp> join edge <ek> on <onE> join node <nk> on <onN>` over the rows `cs` of frame `sp` -/
theorem chain_from (km : KindMap) (g : Graph) (E : EEnv)
    (hE : lookupTableE E "edge" = .ok ⟨edgeCols, g.edges.map (encodeEdge km)⟩) (hN : lookupTableE E "node" = .ok ⟨nodeCols, g.nodes.map (encodeNode km)⟩)
    (sp : String) (pcols : List String) {ρ : Type} (cs : List ρ) (row : ρ → List Val) (hS : lookupTableE E sp = .ok ⟨pcols, cs.map row⟩)
    (ek nk : String) (onE onN : Expr) (pE : ρ → EdgeRec → Bool) (pN : ρ → EdgeRec → NodeRec → Bool)
    (honE : ∀ c ∈ cs, ∀ e ∈ g.edges, BenignT (whTest E (some onE) [(⟨sp, pcols, row c⟩ : Binding), ⟨ek, edgeCols, encodeEdge km e⟩]) (pE c e))
    (honN : ∀ c ∈ cs, ∀ e ∈ g.edges, ∀ n ∈ g.nodes,
      BenignT (whTest E (some onN) [(⟨sp, pcols, row c⟩ : Binding), ⟨ek, edgeCols, encodeEdge km e⟩, ⟨nk, nodeCols, encodeNode km n⟩]) (pN c e n)) :
    BenignT (evalFromClauses E [[]] [.mk (.table [sp] none)
        [.mk .inner (.table ["edge"] (some ek)) (some onE), .mk .inner (.table ["node"] (some nk)) (some onN)]])
      ((cs.flatMap (fun c => (g.edges.filter (pE c)).flatMap (fun e => (g.nodes.filter (pN c e)).map (fun n => (c, e, n))))).map
        (fun t => [(⟨sp, pcols, row t.1⟩ : Binding), ⟨ek, edgeCols, encodeEdge km t.2.1⟩, ⟨nk, nodeCols, encodeNode km t.2.2⟩])) := by
  have hstart : evalJoin E [[]] .inner (.table [sp] none) none = .ok (cs.map (fun c => [(⟨sp, pcols, row c⟩ : Binding)])) := by
    rw [evalJoin_table _ _ _ _ _ _ hS]
    simp only [mapE_singleton, whTest_none, filterE_true, ebind_ok, epure_ok, List.flatten_cons, List.flatten_nil, List.append_nil,
      List.nil_append, List.map_map, Function.comp_def, Option.getD_none]
  rw [evalFromClauses, hstart]
  simp only [ebind_ok]
  rw [evalJoins]
  simp only [bind_assoc]
  apply benT_bind (join_tbl_step E cs (fun c => [(⟨sp, pcols, row c⟩ : Binding)]) "edge" ek edgeCols g.edges (encodeEdge km) hE onE pE
    (fun c hc e he => honE c hc e he))
  rw [evalJoins]
  simp only [bind_assoc]
  apply benT_bind (join_tbl_step E _ (fun (ce : ρ × EdgeRec) => [(⟨sp, pcols, row ce.1⟩ : Binding)] ++ [(⟨ek, edgeCols, encodeEdge km ce.2⟩ : Binding)])
    "node" nk nodeCols g.nodes (encodeNode km) hN onN (fun ce n => pN ce.1 ce.2 n) ?_)
  · left
    simp only [ebind_ok, evalJoins, evalFromClauses]
    simp only [List.flatMap_assoc, List.flatMap_map, List.map_flatMap, List.map_map, Function.comp_def, List.cons_append, List.nil_append]
  · intro ce hce n hn
    obtain ⟨c, hc, hce⟩ := List.mem_flatMap.mp hce
    obtain ⟨e, he, rfl⟩ := List.mem_map.mp hce
    exact honN c hc e (List.mem_filter.mp he).1 n hn

-- ------------------------------------------------------------------ expressions over a carried frame

theorem rowCol_node_id (E' : EEnv) (x : Expr) (km : KindMap) (y : NodeRec) (h : evalExpr E' x = .ok (nodeVal km y)) :
    evalExpr E' (.rowCol x "id") = .ok (.int y.id) := by
  rw [evalExpr, h]; simp [nodeVal, compositeFields, List.zip, List.lookup]

theorem rowCol_edge_id (E' : EEnv) (x : Expr) (km : KindMap) (e : EdgeRec) (h : evalExpr E' x = .ok (edgeVal km e)) :
    evalExpr E' (.rowCol x "id") = .ok (.int e.id) := by
  rw [evalExpr, h]; simp [edgeVal, compositeFields, List.zip, List.lookup]

theorem eval_carry (E' : EEnv) (s c : String) : evalExpr E' (Ch.carry s c) = evalExpr E' (S2.col s c) := by
  unfold Ch.carry; rw [evalExpr]

theorem vCompare_int_ne (a b : Int) : vCompare "!=" (.int a) (.int b) = .ok (.bool (a != b)) := by
  simp only [vCompare, valCmp, relOp, intCmp_eq, bne]

/-- `e_i.id != (s.e_j).id` -/
theorem eval_guard (km : KindMap) (E' : EEnv) (s : String) (i j : Nat) (e x : EdgeRec)
    (he : evalExpr E' (S2.col (Ch.eN i) "id") = .ok (.int e.id)) (hx : evalExpr E' (S2.col s (Ch.eN j)) = .ok (edgeVal km x)) :
    evalExpr E' (Ch.guard s i j) = .ok (.bool (e.id != x.id)) := by
  unfold Ch.guard
  rw [eval_bin _ "!=" _ _ (by decide) (rowCol_not_any ..).1 (rowCol_not_any ..).2, he, rowCol_edge_id E' _ km x hx]
  simp only [ebind_ok]
  unfold binOp
  exact vCompare_int_ne _ _

/-- the binding of a relationship under alias `ek` -/
def eBA (ek : String) (km : KindMap) (e : EdgeRec) : Binding := ⟨ek, edgeCols, encodeEdge km e⟩

theorem lookup_eA (ek : String) (km : KindMap) (l : Level) (rest : List Level) (e : EdgeRec) (h : findBinding ek l = some (eBA ek km e)) :
    lookupQualifiedV ek "id" (l :: rest) = .ok (.int e.id) ∧
    lookupQualifiedV ek "start_id" (l :: rest) = .ok (.int e.start) ∧
    lookupQualifiedV ek "end_id" (l :: rest) = .ok (.int e.stop) ∧
    lookupQualifiedV ek "kind_id" (l :: rest) = .ok (.int ((km.id? e.kind).getD 0)) ∧
    lookupQualifiedV ek "properties" (l :: rest) = .ok (.jsonb (.obj e.props)) := by
  refine ⟨?_, ?_, ?_, ?_, ?_⟩ <;> simp [lookupQualifiedV, h, eBA, colVals, edgeCols, encodeEdge]

/-- a row that binds relationship `e` under alias `ek` shows it as an entity to lowered predicates -/
theorem entAt_edgeA (km : KindMap) (hinj : ∀ a b i, km.id? a = some i → km.id? b = some i → a = b)
    (E : EEnv) (l : Level) (ek : String) (e : EdgeRec) (he : findBinding ek l = some (eBA ek km e)) (hknown : (km.id? e.kind).isSome = true) :
    EntAt km (E.push l) ek true (edgeEnt e) where
  id := by rw [show Expr.compound [ek, "id"] = S2.col ek "id" from rfl, eval_col]; exact (lookup_eA ek km l E.levels e he).1
  props := by rw [show Expr.compound [ek, "properties"] = S2.col ek "properties" from rfl, eval_col]; exact (lookup_eA ek km l E.levels e he).2.2.2.2
  kinds ks ids hids := by
    obtain ⟨kid, hkid⟩ := Option.isSome_iff_exists.mp hknown
    unfold kindsExpr
    simp only [if_true]
    rw [evalExpr]
    have h1 : ("=" == "and" || "=" == "or") = false := by decide
    rw [show Expr.compound [ek, "kind_id"] = S2.col ek "kind_id" from rfl, eval_col, evalExpr.eq_def (E.push l) (.lit ..)]
    simp only [EEnv.push, (lookup_eA ek km l E.levels e he).2.2.2.1, hkid, Option.getD_some, litVal, ebind_ok, List.map_map, Function.comp_def]
    simp only [h1, Bool.false_eq_true, if_false]
    have := anyOp_ints (Int.ofNat kid) ids
    simp only [List.map_map, Function.comp_def, Int.ofNat_eq_natCast] at this ⊢
    rw [this]
    simp only [edgeEnt]
    congr 2
    have := any_kind_ids km hinj e.kind kid hkid ks ids hids
    simpa [Int.ofNat_eq_natCast] using this

/-- `[(conjuncts over n) and] [n.kind_ids @> array[…] and] n.id = e.end_id` on a row holding node n under alias `al` and the edge under alias `ek` -/
theorem joinOnE_ben (km : KindMap) (hinj : ∀ a b i, km.id? a = some i → km.id? b = some i → a = b)
    (E : EEnv) (l : Level) (al ek : String) (e : EdgeRec) (n : NodeRec)
    (hn : findBinding al l = some (nB al km n)) (hnn : ∀ k, Json.lookup k n.props ≠ some .null)
    (hep : lookupQualifiedV ek "end_id" (l :: E.levels) = .ok (.int e.stop))
    (ks : List String) (kid : Option (List Nat)) (hk : S2.kindIds? km ks = some kid)
    (ps : List S1.Pred) (pe : Option Expr) (hp : S2.predsE km al false ps = some pe) :
    BenignT (whTest E (some (Ch.joinOnE al ek (S2.both pe (S2.nodeKindsE al kid)))) l)
      ((okPreds (nodeEnt n) ps && Cy.kindsAllOf n.kinds ks) && n.id == e.stop) := by
  have H := entAt_node km hinj E l al n hn
  have hid := (lookup_n al km l E.levels n hn).1
  have heq : evalExpr (E.push l) (.bin "=" (S2.col al "id") (S2.col ek "end_id")) = .ok (.bool (n.id == e.stop)) := by
    rw [eval_bin _ "=" (S2.col al "id") (S2.col ek "end_id") (by decide) (col_not_any ..).1 (col_not_any ..).2, eval_col, eval_col]
    simp only [EEnv.push, hid, hep, ebind_ok, binOp_eq, vCompare_int_eq]
  have hc := both_ben (E.push l) pe (S2.nodeKindsE al kid) _ _ (predsE_ben H hnn ps pe hp)
    (nodeKindsE_ben H ks kid hk (by simp [nodeEnt, Cy.kindsAllOf]))
  have hall : OptBen (E.push l) (some (Ch.joinOnE al ek (S2.both pe (S2.nodeKindsE al kid))))
      (Cy.triAnd (Cy.triAnd (conjT (ps.map (semE (nodeEnt n)))) (some ((nodeEnt n).kindsOk ks))) (some (n.id == e.stop))) := by
    unfold Ch.joinOnE
    cases hb : S2.both pe (S2.nodeKindsE al kid) with
    | none =>
      rw [hb] at hc
      simp only [OptBen] at hc
      rw [hc, triAnd_true_left]
      exact ⟨Or.inl heq, bin_not_any ..⟩
    | some c =>
      rw [hb] at hc
      exact ⟨and_ben _ _ _ _ _ hc.1 (Or.inl heq) (bin_not_any ..).1 (bin_not_any ..).2, bin_not_any ..⟩
  have := whTest_ben E _ l _ hall
  rw [triAnd_is_true, triAnd_is_true, okPreds_conjT] at this
  simpa [nodeEnt] using this

/-- relationship kinds of a later step: `e_i.kind_id = any (array[…])` -/
theorem stepKinds_ben (km : KindMap) (hinj : ∀ a b i, km.id? a = some i → km.id? b = some i → a = b) (E : EEnv) (l : Level) (ek : String) (e : EdgeRec)
    (hkid : lookupQualifiedV ek "kind_id" (l :: E.levels) = .ok (.int ((km.id? e.kind).getD 0))) (hknown : (km.id? e.kind).isSome = true)
    (ks : List String) (kr : Option (List Nat)) (hk : S2.kindIds? km ks = some kr) :
    OptBen (E.push l) (kr.map (fun ids => Expr.bin "=" (S2.col ek "kind_id") (.anyOf (S2.kindsLit ids)))) (some (Cy.kindAnyOf e.kind ks)) := by
  unfold S2.kindIds? at hk
  cases hks : ks.isEmpty with
  | true =>
    simp only [hks, if_true, Option.some.injEq] at hk
    subst hk
    simp only [Option.map_none, OptBen, Cy.kindAnyOf, hks, Bool.true_or]
  | false =>
    simp only [hks, Bool.false_eq_true, if_false, Option.map_eq_some_iff] at hk
    obtain ⟨ids, hids, rfl⟩ := hk
    obtain ⟨kid, hkid'⟩ := Option.isSome_iff_exists.mp hknown
    refine ⟨Or.inl ?_, bin_not_any ..⟩
    simp only [Option.map_some]
    rw [evalExpr]
    have h1 : ("=" == "and" || "=" == "or") = false := by decide
    rw [eval_col, S2.kindsLit, evalExpr.eq_def (E.push l) (.lit ..)]
    simp only [EEnv.push, hkid, hkid', Option.getD_some, litVal, ebind_ok, List.map_map, Function.comp_def]
    simp only [h1, Bool.false_eq_true, if_false]
    have := anyOp_ints (Int.ofNat kid) ids
    simp only [List.map_map, Function.comp_def, Int.ofNat_eq_natCast] at this ⊢
    rw [this]
    simp only [Cy.kindAnyOf, hks, Bool.false_or, triVal]
    congr 2
    have := any_kind_ids km hinj e.kind kid hkid' ks ids hids
    simpa [Int.ofNat_eq_natCast] using this

-- ------------------------------------------------------------------ one further frame

def pE (c : Chain) (e : EdgeRec) : Bool :=
  match c.ns.getLast? with
  | some l => l.id == e.start
  | none => false
def pN (nk : List String) (psn : List S1.Pred) (e : EdgeRec) (n : NodeRec) : Bool :=
  (okPreds (nodeEnt n) psn && Cy.kindsAllOf n.kinds nk) && n.id == e.stop
def pW (rk : List String) (psr : List S1.Pred) (c : Chain) (e : EdgeRec) : Bool :=
  (okPreds (edgeEnt e) psr && Cy.kindAnyOf e.kind rk) && !(c.es.map (·.id)).contains e.id

/-- the rows of frame `s_i` in the order the statement produces them (`psr` / `psn`: the WHERE conjuncts over the new relationship / node) -/
def stepRows (g : Graph) (rk nk : List String) (psr psn : List S1.Pred) (cs : List Chain) : List Chain :=
  ((cs.flatMap (fun c => (g.edges.filter (pE c)).flatMap (fun e => (g.nodes.filter (pN nk psn e)).map (fun n => (c, e, n))))).filter
    (fun t => pW rk psr t.1 t.2.1)).map (fun t => ⟨t.1.es ++ [t.2.1], t.1.ns ++ [t.2.2]⟩)

theorem lookup_edge_Ec (km : KindMap) (g : Graph) (ctes : List (String × Table)) (h : ctes.lookup "edge" = none) :
    lookupTableE (Ec (encode km g) ctes) "edge" = .ok ⟨edgeCols, g.edges.map (encodeEdge km)⟩ := by
  simp [lookupTableE, Ec, h, encode, Db.table?, List.lookup, edgeCols]

theorem lookup_node_Ec (km : KindMap) (g : Graph) (ctes : List (String × Table)) (h : ctes.lookup "node" = none) :
    lookupTableE (Ec (encode km g) ctes) "node" = .ok ⟨nodeCols, g.nodes.map (encodeNode km)⟩ := by
  simp [lookupTableE, Ec, h, encode, Db.table?, List.lookup, nodeCols]

theorem lookup_cte_Ec (db : Db) (ctes : List (String × Table)) (s : String) (t : Table) (h : ctes.lookup s = some t) :
    lookupTableE (Ec db ctes) s = .ok t := by
  simp [lookupTableE, Ec, h]

/-- frame `s1`: extends the one-hop matches in `s0` -/
theorem frame1 (km : KindMap) (hinj : ∀ a b i, km.id? a = some i → km.id? b = some i → a = b) (g : Graph)
    (hknown : ∀ e ∈ g.edges, (km.id? e.kind).isSome = true) (ctes : List (String × Table)) (cs : List Chain)
    (hshape : ∀ c ∈ cs, ∃ x0 y0 y1, c = ⟨[x0], [y0, y1]⟩)
    (hS : ctes.lookup "s0" = some ⟨["e0", "n0", "n1"], cs.map (rowOf km)⟩) (hedge : ctes.lookup "edge" = none) (hnode : ctes.lookup "node" = none)
    (rk nk : List String) (kr kn : Option (List Nat)) (hkr : S2.kindIds? km rk = some kr) (hkn : S2.kindIds? km nk = some kn)
    (hnn : ∀ n ∈ g.nodes, ∀ k, Json.lookup k n.props ≠ some .null) (hen : ∀ e ∈ g.edges, ∀ k, Json.lookup k e.props ≠ some .null)
    (psr psn : List S1.Pred) (pr pn : Option Expr) (hpr : S2.predsE km "e1" true psr = some pr) (hpn : S2.predsE km "n2" false psn = some pn) :
    BenignT (evalQuery (Ec (encode km g) ctes) (Ch.stepFrame 1 kr kn pr pn))
      (⟨["e0", "e1", "n0", "n1", "n2"], (stepRows g rk nk psr psn cs).map (rowOf km)⟩ : Table) := by
  have hq : Ch.stepFrame 1 kr kn pr pn = Query.simple (.select false
      [Ch.carry "s0" "e0", Ch.edgeCompositeOf "e1", Ch.carry "s0" "n0", Ch.carry "s0" "n1", S2.nodeCompositeOf "n2"]
      [.mk (.table ["s0"] none)
        [.mk .inner (.table ["edge"] (some "e1")) (some (.bin "=" (.rowCol (S2.col "s0" "n1") "id") (S2.col "e1" "start_id"))),
         .mk .inner (.table ["node"] (some "n2")) (some (Ch.joinOnE "n2" "e1" (S2.both pn (S2.nodeKindsE "n2" kn))))]]
      (S2.both (S2.both pr (kr.map (fun ids => Expr.bin "=" (S2.col "e1" "kind_id") (.anyOf (S2.kindsLit ids))))) (some (Ch.guard "s0" 1 0))) [] none) := rfl
  rw [hq, evalQuery_simple, evalSelect_from' _ _ _ _ (by decide)]
  simp only [bind_assoc]
  -- the level of a FROM row
  let lv : Chain × EdgeRec × NodeRec → Level := fun t =>
    [(⟨"s0", ["e0", "n0", "n1"], rowOf km t.1⟩ : Binding), ⟨"e1", edgeCols, encodeEdge km t.2.1⟩, ⟨"n2", nodeCols, encodeNode km t.2.2⟩]
  have hfrom := chain_from km g (Ec (encode km g) ctes) (lookup_edge_Ec km g ctes hedge) (lookup_node_Ec km g ctes hnode) "s0" ["e0", "n0", "n1"]
    cs (rowOf km) (lookup_cte_Ec _ ctes "s0" _ hS) "e1" "n2"
    (.bin "=" (.rowCol (S2.col "s0" "n1") "id") (S2.col "e1" "start_id")) (Ch.joinOnE "n2" "e1" (S2.both pn (S2.nodeKindsE "n2" kn))) pE (fun _ e n => pN nk psn e n) ?_ ?_
  · apply benT_bind hfrom
    apply benT_bind (filterE_ben lv _ (fun t => pW rk psr t.1 t.2.1) _ ?_)
    · left
      rw [mapE_map_ok lv _ (fun t => (rowOf km ⟨t.1.es ++ [t.2.1], t.1.ns ++ [t.2.2]⟩, some ((Ec (encode km g) ctes).push (lv t))))]
      · simp only [ebind_ok, epure_ok, stepRows, List.map_map, Function.comp_def]
        rfl
      · intro t ht
        have ht' := (List.mem_filter.mp ht).1
        obtain ⟨c, hc, ht'⟩ := List.mem_flatMap.mp ht'
        obtain ⟨x0, y0, y1, rfl⟩ := hshape c hc
        obtain ⟨e, he, ht'⟩ := List.mem_flatMap.mp ht'
        obtain ⟨n, hn, rfl⟩ := List.mem_map.mp ht'
        have h0 : evalExpr ((Ec (encode km g) ctes).push (lv (⟨[x0], [y0, y1]⟩, e, n))) (S2.col "s0" "e0") = .ok (edgeVal km x0) := by
          rw [eval_col]; simp [lv, EEnv.push, lookupQualifiedV, findBinding, colVals, rowOf]
        have h1 : evalExpr ((Ec (encode km g) ctes).push (lv (⟨[x0], [y0, y1]⟩, e, n))) (S2.col "s0" "n0") = .ok (nodeVal km y0) := by
          rw [eval_col]; simp [lv, EEnv.push, lookupQualifiedV, findBinding, colVals, rowOf]
        have h2 : evalExpr ((Ec (encode km g) ctes).push (lv (⟨[x0], [y0, y1]⟩, e, n))) (S2.col "s0" "n1") = .ok (nodeVal km y1) := by
          rw [eval_col]; simp [lv, EEnv.push, lookupQualifiedV, findBinding, colVals, rowOf]
        have he1 : evalExpr ((Ec (encode km g) ctes).push (lv (⟨[x0], [y0, y1]⟩, e, n))) (Ch.edgeCompositeOf "e1") = .ok (edgeVal km e) := by
          unfold Ch.edgeCompositeOf
          rw [evalExpr, evalExpr]
          simp [evalExprs, eval_col, lv, EEnv.push, lookupQualifiedV, findBinding, colVals, edgeCols, encodeEdge, edgeVal]
        have hn2 : evalExpr ((Ec (encode km g) ctes).push (lv (⟨[x0], [y0, y1]⟩, e, n))) (S2.nodeCompositeOf "n2") = .ok (nodeVal km n) :=
          eval_nodeCompositeOf "n2" km _ _ n (by simp [lv, findBinding, nB])
        rw [evalProj, eval_carry, h0, evalProj, he1, evalProj, eval_carry, h1, evalProj, eval_carry, h2, evalProj, hn2, evalProj]
        · simp [rowOf]
        all_goals (intro hh; first | (unfold Ch.carry at hh; cases hh) | (unfold Ch.edgeCompositeOf at hh; cases hh) | (unfold S2.nodeCompositeOf at hh; cases hh))
    · -- WHERE
      intro t ht
      obtain ⟨c, hc, ht'⟩ := List.mem_flatMap.mp ht
      obtain ⟨x0, y0, y1, rfl⟩ := hshape c hc
      obtain ⟨e, he, ht'⟩ := List.mem_flatMap.mp ht'
      obtain ⟨n, hn, rfl⟩ := List.mem_map.mp ht'
      have hem := (List.mem_filter.mp he).1
      have hkid : lookupQualifiedV "e1" "kind_id" (lv (⟨[x0], [y0, y1]⟩, e, n) :: (Ec (encode km g) ctes).levels) = .ok (.int ((km.id? e.kind).getD 0)) := by
        simp [lv, lookupQualifiedV, findBinding, colVals, edgeCols, encodeEdge]
      have hid : evalExpr ((Ec (encode km g) ctes).push (lv (⟨[x0], [y0, y1]⟩, e, n))) (S2.col (Ch.eN 1) "id") = .ok (.int e.id) := by
        rw [eval_col]; simp [lv, Ch.eN, EEnv.push, lookupQualifiedV, findBinding, colVals, edgeCols, encodeEdge]
      have h0 : evalExpr ((Ec (encode km g) ctes).push (lv (⟨[x0], [y0, y1]⟩, e, n))) (S2.col "s0" (Ch.eN 0)) = .ok (edgeVal km x0) := by
        rw [eval_col]; simp [lv, Ch.eN, EEnv.push, lookupQualifiedV, findBinding, colVals, rowOf]
      have hg : OptBen ((Ec (encode km g) ctes).push (lv (⟨[x0], [y0, y1]⟩, e, n))) (some (Ch.guard "s0" 1 0)) (some (e.id != x0.id)) :=
        ⟨Or.inl (eval_guard km _ "s0" 1 0 e x0 hid h0), by unfold Ch.guard; exact bin_not_any ..⟩
      have Hed := entAt_edgeA km hinj (Ec (encode km g) ctes) (lv (⟨[x0], [y0, y1]⟩, e, n)) "e1" e (by simp [lv, findBinding, eBA]) (hknown e hem)
      have hpreds := predsE_ben Hed (hen e hem) psr pr hpr
      have := whTest_ben _ _ _ _ (both_ben _ _ _ _ _ (both_ben _ _ _ _ _ hpreds (stepKinds_ben km hinj _ _ "e1" e hkid (hknown e hem) rk kr hkr)) hg)
      rw [triAnd_is_true, triAnd_is_true, okPreds_conjT] at this
      have hb : pW rk psr ⟨[x0], [y0, y1]⟩ e =
          ((okPreds (edgeEnt e) psr && (some (Cy.kindAnyOf e.kind rk) == some true)) && (some (e.id != x0.id) == some true)) := by
        simp only [pW, List.map_cons, List.map_nil, List.contains_cons, List.contains_nil, Bool.or_false, bne]
        cases okPreds (edgeEnt e) psr <;> cases Cy.kindAnyOf e.kind rk <;> cases (e.id == x0.id) <;> rfl
      rw [hb]; exact this
  · -- ON of the edge join
    intro c hc e _
    obtain ⟨x0, y0, y1, rfl⟩ := hshape c hc
    refine Or.inl (whTest_some _ _ _ _ ?_)
    have h2 : evalExpr ((Ec (encode km g) ctes).push [(⟨"s0", ["e0", "n0", "n1"], rowOf km ⟨[x0], [y0, y1]⟩⟩ : Binding), ⟨"e1", edgeCols, encodeEdge km e⟩])
        (S2.col "s0" "n1") = .ok (nodeVal km y1) := by
      rw [eval_col]; simp [EEnv.push, lookupQualifiedV, findBinding, colVals, rowOf]
    rw [eval_bin _ "=" _ _ (by decide) (col_not_any ..).1 (col_not_any ..).2, rowCol_node_id _ _ km y1 h2, eval_col]
    simp [EEnv.push, lookupQualifiedV, findBinding, colVals, edgeCols, encodeEdge, binOp_eq, vCompare_int_eq, pE]
  · -- ON of the node join
    intro c hc e _ n hnm
    exact joinOnE_ben km hinj _ _ "n2" "e1" e n (by simp [findBinding, nB]) (hnn n hnm) (by simp [lookupQualifiedV, findBinding, colVals, edgeCols, encodeEdge]) nk kn hkn psn pn hpn

/-- frame `s2`: extends the two-hop matches in `s1` -/
theorem frame2 (km : KindMap) (hinj : ∀ a b i, km.id? a = some i → km.id? b = some i → a = b) (g : Graph)
    (hknown : ∀ e ∈ g.edges, (km.id? e.kind).isSome = true) (ctes : List (String × Table)) (cs : List Chain)
    (hshape : ∀ c ∈ cs, ∃ x0 x1 y0 y1 y2, c = ⟨[x0, x1], [y0, y1, y2]⟩)
    (hS : ctes.lookup "s1" = some ⟨["e0", "e1", "n0", "n1", "n2"], cs.map (rowOf km)⟩) (hedge : ctes.lookup "edge" = none) (hnode : ctes.lookup "node" = none)
    (rk nk : List String) (kr kn : Option (List Nat)) (hkr : S2.kindIds? km rk = some kr) (hkn : S2.kindIds? km nk = some kn)
    (hnn : ∀ n ∈ g.nodes, ∀ k, Json.lookup k n.props ≠ some .null) (hen : ∀ e ∈ g.edges, ∀ k, Json.lookup k e.props ≠ some .null)
    (psr psn : List S1.Pred) (pr pn : Option Expr) (hpr : S2.predsE km "e2" true psr = some pr) (hpn : S2.predsE km "n3" false psn = some pn) :
    BenignT (evalQuery (Ec (encode km g) ctes) (Ch.stepFrame 2 kr kn pr pn))
      (⟨["e0", "e1", "e2", "n0", "n1", "n2", "n3"], (stepRows g rk nk psr psn cs).map (rowOf km)⟩ : Table) := by
  have hq : Ch.stepFrame 2 kr kn pr pn = Query.simple (.select false
      [Ch.carry "s1" "e0", Ch.carry "s1" "e1", Ch.edgeCompositeOf "e2", Ch.carry "s1" "n0", Ch.carry "s1" "n1", Ch.carry "s1" "n2", S2.nodeCompositeOf "n3"]
      [.mk (.table ["s1"] none)
        [.mk .inner (.table ["edge"] (some "e2")) (some (.bin "=" (.rowCol (S2.col "s1" "n2") "id") (S2.col "e2" "start_id"))),
         .mk .inner (.table ["node"] (some "n3")) (some (Ch.joinOnE "n3" "e2" (S2.both pn (S2.nodeKindsE "n3" kn))))]]
      (S2.both (S2.both pr (kr.map (fun ids => Expr.bin "=" (S2.col "e2" "kind_id") (.anyOf (S2.kindsLit ids)))))
        (some (.bin "and" (Ch.guard "s1" 2 0) (Ch.guard "s1" 2 1)))) [] none) := rfl
  rw [hq, evalQuery_simple, evalSelect_from' _ _ _ _ (by decide)]
  simp only [bind_assoc]
  let lv : Chain × EdgeRec × NodeRec → Level := fun t =>
    [(⟨"s1", ["e0", "e1", "n0", "n1", "n2"], rowOf km t.1⟩ : Binding), ⟨"e2", edgeCols, encodeEdge km t.2.1⟩, ⟨"n3", nodeCols, encodeNode km t.2.2⟩]
  have hfrom := chain_from km g (Ec (encode km g) ctes) (lookup_edge_Ec km g ctes hedge) (lookup_node_Ec km g ctes hnode) "s1" ["e0", "e1", "n0", "n1", "n2"]
    cs (rowOf km) (lookup_cte_Ec _ ctes "s1" _ hS) "e2" "n3"
    (.bin "=" (.rowCol (S2.col "s1" "n2") "id") (S2.col "e2" "start_id")) (Ch.joinOnE "n3" "e2" (S2.both pn (S2.nodeKindsE "n3" kn))) pE (fun _ e n => pN nk psn e n) ?_ ?_
  · apply benT_bind hfrom
    apply benT_bind (filterE_ben lv _ (fun t => pW rk psr t.1 t.2.1) _ ?_)
    · left
      rw [mapE_map_ok lv _ (fun t => (rowOf km ⟨t.1.es ++ [t.2.1], t.1.ns ++ [t.2.2]⟩, some ((Ec (encode km g) ctes).push (lv t))))]
      · simp only [ebind_ok, epure_ok, stepRows, List.map_map, Function.comp_def]
        rfl
      · intro t ht
        have ht' := (List.mem_filter.mp ht).1
        obtain ⟨c, hc, ht'⟩ := List.mem_flatMap.mp ht'
        obtain ⟨x0, x1, y0, y1, y2, rfl⟩ := hshape c hc
        obtain ⟨e, he, ht'⟩ := List.mem_flatMap.mp ht'
        obtain ⟨n, hn, rfl⟩ := List.mem_map.mp ht'
        have hx0 : evalExpr ((Ec (encode km g) ctes).push (lv (⟨[x0, x1], [y0, y1, y2]⟩, e, n))) (S2.col "s1" "e0") = .ok (edgeVal km x0) := by
          rw [eval_col]; simp [lv, EEnv.push, lookupQualifiedV, findBinding, colVals, rowOf]
        have hx1 : evalExpr ((Ec (encode km g) ctes).push (lv (⟨[x0, x1], [y0, y1, y2]⟩, e, n))) (S2.col "s1" "e1") = .ok (edgeVal km x1) := by
          rw [eval_col]; simp [lv, EEnv.push, lookupQualifiedV, findBinding, colVals, rowOf]
        have h0 : evalExpr ((Ec (encode km g) ctes).push (lv (⟨[x0, x1], [y0, y1, y2]⟩, e, n))) (S2.col "s1" "n0") = .ok (nodeVal km y0) := by
          rw [eval_col]; simp [lv, EEnv.push, lookupQualifiedV, findBinding, colVals, rowOf]
        have h1 : evalExpr ((Ec (encode km g) ctes).push (lv (⟨[x0, x1], [y0, y1, y2]⟩, e, n))) (S2.col "s1" "n1") = .ok (nodeVal km y1) := by
          rw [eval_col]; simp [lv, EEnv.push, lookupQualifiedV, findBinding, colVals, rowOf]
        have h2 : evalExpr ((Ec (encode km g) ctes).push (lv (⟨[x0, x1], [y0, y1, y2]⟩, e, n))) (S2.col "s1" "n2") = .ok (nodeVal km y2) := by
          rw [eval_col]; simp [lv, EEnv.push, lookupQualifiedV, findBinding, colVals, rowOf]
        have he2 : evalExpr ((Ec (encode km g) ctes).push (lv (⟨[x0, x1], [y0, y1, y2]⟩, e, n))) (Ch.edgeCompositeOf "e2") = .ok (edgeVal km e) := by
          unfold Ch.edgeCompositeOf
          rw [evalExpr, evalExpr]
          simp [evalExprs, eval_col, lv, EEnv.push, lookupQualifiedV, findBinding, colVals, edgeCols, encodeEdge, edgeVal]
        have hn3 : evalExpr ((Ec (encode km g) ctes).push (lv (⟨[x0, x1], [y0, y1, y2]⟩, e, n))) (S2.nodeCompositeOf "n3") = .ok (nodeVal km n) :=
          eval_nodeCompositeOf "n3" km _ _ n (by simp [lv, findBinding, nB])
        rw [evalProj, eval_carry, hx0, evalProj, eval_carry, hx1, evalProj, he2, evalProj, eval_carry, h0, evalProj, eval_carry, h1,
          evalProj, eval_carry, h2, evalProj, hn3, evalProj]
        · simp [rowOf]
        all_goals (intro hh; first | (unfold Ch.carry at hh; cases hh) | (unfold Ch.edgeCompositeOf at hh; cases hh) | (unfold S2.nodeCompositeOf at hh; cases hh))
    · -- WHERE
      intro t ht
      obtain ⟨c, hc, ht'⟩ := List.mem_flatMap.mp ht
      obtain ⟨x0, x1, y0, y1, y2, rfl⟩ := hshape c hc
      obtain ⟨e, he, ht'⟩ := List.mem_flatMap.mp ht'
      obtain ⟨n, hn, rfl⟩ := List.mem_map.mp ht'
      have hem := (List.mem_filter.mp he).1
      have hkid : lookupQualifiedV "e2" "kind_id" (lv (⟨[x0, x1], [y0, y1, y2]⟩, e, n) :: (Ec (encode km g) ctes).levels) = .ok (.int ((km.id? e.kind).getD 0)) := by
        simp [lv, lookupQualifiedV, findBinding, colVals, edgeCols, encodeEdge]
      have hid : evalExpr ((Ec (encode km g) ctes).push (lv (⟨[x0, x1], [y0, y1, y2]⟩, e, n))) (S2.col (Ch.eN 2) "id") = .ok (.int e.id) := by
        rw [eval_col]; simp [lv, Ch.eN, EEnv.push, lookupQualifiedV, findBinding, colVals, edgeCols, encodeEdge]
      have hx0 : evalExpr ((Ec (encode km g) ctes).push (lv (⟨[x0, x1], [y0, y1, y2]⟩, e, n))) (S2.col "s1" (Ch.eN 0)) = .ok (edgeVal km x0) := by
        rw [eval_col]; simp [lv, Ch.eN, EEnv.push, lookupQualifiedV, findBinding, colVals, rowOf]
      have hx1 : evalExpr ((Ec (encode km g) ctes).push (lv (⟨[x0, x1], [y0, y1, y2]⟩, e, n))) (S2.col "s1" (Ch.eN 1)) = .ok (edgeVal km x1) := by
        rw [eval_col]; simp [lv, Ch.eN, EEnv.push, lookupQualifiedV, findBinding, colVals, rowOf]
      have hg : OptBen ((Ec (encode km g) ctes).push (lv (⟨[x0, x1], [y0, y1, y2]⟩, e, n))) (some (.bin "and" (Ch.guard "s1" 2 0) (Ch.guard "s1" 2 1)))
          (Cy.triAnd (some (e.id != x0.id)) (some (e.id != x1.id))) :=
        ⟨and_ben _ _ _ _ _ (Or.inl (eval_guard km _ "s1" 2 0 e x0 hid hx0)) (Or.inl (eval_guard km _ "s1" 2 1 e x1 hid hx1))
          (by unfold Ch.guard; exact (bin_not_any ..).1) (by unfold Ch.guard; exact (bin_not_any ..).2), bin_not_any ..⟩
      have Hed := entAt_edgeA km hinj (Ec (encode km g) ctes) (lv (⟨[x0, x1], [y0, y1, y2]⟩, e, n)) "e2" e (by simp [lv, findBinding, eBA]) (hknown e hem)
      have hpreds := predsE_ben Hed (hen e hem) psr pr hpr
      have := whTest_ben _ _ _ _ (both_ben _ _ _ _ _ (both_ben _ _ _ _ _ hpreds (stepKinds_ben km hinj _ _ "e2" e hkid (hknown e hem) rk kr hkr)) hg)
      rw [triAnd_is_true, triAnd_is_true, triAnd_is_true, okPreds_conjT] at this
      have hb : pW rk psr ⟨[x0, x1], [y0, y1, y2]⟩ e =
          ((okPreds (edgeEnt e) psr && (some (Cy.kindAnyOf e.kind rk) == some true)) &&
            ((some (e.id != x0.id) == some true) && (some (e.id != x1.id) == some true))) := by
        simp only [pW, List.map_cons, List.map_nil, List.contains_cons, List.contains_nil, Bool.or_false, bne]
        cases okPreds (edgeEnt e) psr <;> cases Cy.kindAnyOf e.kind rk <;> cases (e.id == x0.id) <;> cases (e.id == x1.id) <;> rfl
      rw [hb]; exact this
  · -- ON of the edge join
    intro c hc e _
    obtain ⟨x0, x1, y0, y1, y2, rfl⟩ := hshape c hc
    refine Or.inl (whTest_some _ _ _ _ ?_)
    have h2 : evalExpr ((Ec (encode km g) ctes).push [(⟨"s1", ["e0", "e1", "n0", "n1", "n2"], rowOf km ⟨[x0, x1], [y0, y1, y2]⟩⟩ : Binding), ⟨"e2", edgeCols, encodeEdge km e⟩])
        (S2.col "s1" "n2") = .ok (nodeVal km y2) := by
      rw [eval_col]; simp [EEnv.push, lookupQualifiedV, findBinding, colVals, rowOf]
    rw [eval_bin _ "=" _ _ (by decide) (col_not_any ..).1 (col_not_any ..).2, rowCol_node_id _ _ km y2 h2, eval_col]
    simp [EEnv.push, lookupQualifiedV, findBinding, colVals, edgeCols, encodeEdge, binOp_eq, vCompare_int_eq, pE]
  · -- ON of the node join
    intro c hc e _ n hnm
    exact joinOnE_ben km hinj _ _ "n3" "e2" e n (by simp [findBinding, nB]) (hnn n hnm) (by simp [lookupQualifiedV, findBinding, colVals, edgeCols, encodeEdge]) nk kn hkn psn pn hpn

-- ------------------------------------------------------------------ the frame's rows are the extensions of the previous frame's rows

theorem filter_pN (g : Graph) (hnd : (g.nodes.map (·.id)).Nodup) (nk : List String) (psn : List S1.Pred) (e : EdgeRec) :
    g.nodes.filter (pN nk psn e) = (farK g nk e).filter (fun n => okPreds (nodeEnt n) psn) := by
  have h0 : g.nodes.filter (fun n => Cy.kindsAllOf n.kinds nk && n.id == e.stop) = farK g nk e := by
    unfold farK Graph.node?
    exact filter_by_id g.nodes hnd e.stop (fun n => Cy.kindsAllOf n.kinds nk)
  rw [← h0, List.filter_filter]
  apply List.filter_congr
  intro n _
  simp only [pN]
  cases okPreds (nodeEnt n) psn <;> cases Cy.kindsAllOf n.kinds nk <;> cases (n.id == e.stop) <;> rfl

/-- the extensions of a partial match by one hop whose new relationship and new node pass the WHERE conjuncts over them -/
def extW (g : Graph) (rk nk : List String) (psr psn : List S1.Pred) (c : Chain) : List Chain :=
  match c.ns.getLast? with
  | none => []
  | some l =>
    (g.edges.filter (fun e => e.start == l.id && Cy.kindAnyOf e.kind rk && !(c.es.map (·.id)).contains e.id && okPreds (edgeEnt e) psr)).flatMap (fun e =>
      ((farK g nk e).filter (fun n => okPreds (nodeEnt n) psn)).map (fun n => ⟨c.es ++ [e], c.ns ++ [n]⟩))

theorem extW_nil (g : Graph) (rk nk : List String) (c : Chain) : extW g rk nk [] [] c = ext g rk nk c := by
  unfold extW ext
  cases c.ns.getLast? with
  | none => rfl
  | some l =>
    have ht : ∀ (L : List NodeRec), L.filter (fun _ => true) = L := fun L => List.filter_eq_self.mpr (fun _ _ => rfl)
    simp [okPreds, ht]

theorem stepRows_eq (g : Graph) (hnd : (g.nodes.map (·.id)).Nodup) (rk nk : List String) (psr psn : List S1.Pred) (cs : List Chain) :
    stepRows g rk nk psr psn cs = cs.flatMap (extW g rk nk psr psn) := by
  unfold stepRows
  simp only [List.filter_flatMap, List.map_flatMap, List.filter_map, List.map_map, Function.comp_def, filter_pN g hnd]
  congr 1
  funext c
  unfold extW pE
  cases hl : c.ns.getLast? with
  | none => simp
  | some l =>
    simp only
    have hconst : ∀ (b : Bool) (l : List NodeRec), l.filter (fun _ => b) = if b then l else [] := by
      intro b l; cases b <;> simp
    have hfun : (fun a => List.map (fun x => ({ es := c.es ++ [a], ns := c.ns ++ [x] } : Chain))
          (List.filter (fun _ => pW rk psr c a) (List.filter (fun n => okPreds (nodeEnt n) psn) (farK g nk a)))) =
        fun a => if pW rk psr c a then ((farK g nk a).filter (fun n => okPreds (nodeEnt n) psn)).map (fun x => ({ es := c.es ++ [a], ns := c.ns ++ [x] } : Chain)) else [] := by
      funext a
      rw [hconst]
      cases pW rk psr c a <;> simp
    rw [hfun, ← filter_flatMap_ite, List.filter_filter]
    congr 1
    apply List.filter_congr
    intro e _
    simp only [pW]
    rw [Bool.beq_comm (a := l.id)]
    cases (e.start == l.id) <;> cases Cy.kindAnyOf e.kind rk <;> cases (c.es.map (·.id)).contains e.id <;> cases okPreds (edgeEnt e) psr <;> rfl

-- ------------------------------------------------------------------ a statement with several frames

theorem evalCtes_cons (E : EEnv) (name : String) (q : Query) (cs : List Cte) :
    evalCtes E false (.mk name none none q :: cs) = (do
      let t ← evalQuery E q
      evalCtes { E with ctes := (name, t) :: E.ctes } false cs) := by
  rw [evalCtes]
  · simp only [bind_assoc, epure_ok, ebind_ok]
  · intro _ _ _ _ _ hh _; cases hh

theorem eval_ctesStmt (db : Db) (ctes : List Cte) (body : SetExpr) :
    Sql.eval db (.query (.mk false ctes body [] none none)) [] = (do
      let cs ← evalCtes (E0 db) false ctes
      let r ← evalSetExpr (Ec db cs) body
      pure (⟨r.1, r.2.map (·.1)⟩ : Table)) := by
  rw [Sql.eval, evalQuery]
  simp only [ebind_ok, epure_ok, bind_assoc, evalOrderKeys, evalOpt, cutRows_none]
  congr 1
  funext cs
  congr 1
  funext r
  rw [mapE_pure (fun row => (([] : List (Val × Bool)), row)) r.2]
  simp only [ebind_ok, orderRows_nokeys, cutRows_none, epure_ok]

-- ------------------------------------------------------------------ the final projection over the last frame

/-- the matched entity a RETURN item reads -/
inductive RefE where
  | n (y : NodeRec)
  | e (x : EdgeRec)

def refGet (c : Chain) : Ch.Ref → Option RefE
  | .node i => (c.ns[i]?).map RefE.n
  | .rel i => (c.es[i]?).map RefE.e

def RefE.val (km : KindMap) : RefE → Val
  | .n y => nodeVal km y
  | .e x => edgeVal km x
def RefE.id : RefE → Int
  | .n y => y.id
  | .e x => x.id
def RefE.props : RefE → List (String × Json)
  | .n y => y.props
  | .e x => x.props

/-- the SQL value of a RETURN item on a chain match -/
def itemValCh (km : KindMap) (c : Chain) : Ch.Item → Val
  | .ent x _ => ((refGet c x).map (RefE.val km)).getD .null
  | .idOf x _ => ((refGet c x).map (fun r => Val.int r.id)).getD .null
  | .prop x k _ => ((refGet c x).map (fun r => propVal r.props k)).getD .null

theorem refE_fields (E' : EEnv) (km : KindMap) (x : Expr) (r : RefE) (h : evalExpr E' x = .ok (r.val km)) :
    evalExpr E' (.rowCol x "id") = .ok (.int r.id) ∧ evalExpr E' (.rowCol x "properties") = .ok (.jsonb (.obj r.props)) := by
  cases r with
  | n y => constructor <;> (rw [evalExpr, h]; simp [RefE.val, RefE.id, RefE.props, nodeVal, compositeFields, List.zip, List.lookup])
  | e x => constructor <;> (rw [evalExpr, h]; simp [RefE.val, RefE.id, RefE.props, edgeVal, compositeFields, List.zip, List.lookup])

/-- an item over a frame column that shows the referenced entity -/
theorem eval_itemCh (km : KindMap) (q : Ch.Query) (s : String) (c : Chain) (E' : EEnv) (it : Ch.Item) (r : RefE)
    (hr : refGet c it.ref = some r) (hcol : evalExpr E' (S2.col s (Ch.colOf it.ref)) = .ok (r.val km)) :
    evalExpr E' (it.tr q s) = .ok (itemValCh km c it) := by
  obtain ⟨hid, hpr⟩ := refE_fields E' km _ r hcol
  have harrow : ∀ (k : String), evalExpr E' (.bin "->" (.rowCol (S2.col s (Ch.colOf it.ref)) "properties") (S1.strLit k)) = .ok (propVal r.props k) := by
    intro k
    rw [eval_bin _ _ _ _ (by decide) (strLit_not_any k).1 (strLit_not_any k).2]
    simp only [hpr, eval_strLit, ebind_ok]
    unfold binOp
    simp only [arrowOp, jsonGet, propVal]
    rfl
  cases it with
  | ent x al =>
    simp only [Ch.Item.ref] at hr hcol
    simp only [Ch.Item.tr, itemValCh, hr, Option.map_some, Option.getD_some]
    rw [evalExpr]; exact hcol
  | idOf x al =>
    simp only [Ch.Item.ref] at hr hid
    cases al <;> simp only [Ch.Item.tr, itemValCh, hr, Option.map_some, Option.getD_some]
    · exact hid
    · rw [evalExpr]; exact hid
  | prop x k al =>
    simp only [Ch.Item.ref] at hr harrow
    cases al <;> simp only [Ch.Item.tr, itemValCh, hr, Option.map_some, Option.getD_some]
    · exact harrow k
    · rw [evalExpr]; exact harrow k

theorem evalProj_itemsCh (km : KindMap) (q : Ch.Query) (s : String) (c : Chain) (E' : EEnv) (lvl : Level)
    (hcols : ∀ x r, refGet c x = some r → evalExpr E' (S2.col s (Ch.colOf x)) = .ok (r.val km)) : ∀ (items : List Ch.Item),
    (∀ it ∈ items, (refGet c it.ref).isSome = true) → evalProj E' lvl (items.map (Ch.Item.tr q s)) = .ok (items.map (itemValCh km c))
  | [], _ => by rw [List.map_nil, evalProj]; rfl
  | it :: items, h => by
    obtain ⟨r, hr⟩ := Option.isSome_iff_exists.mp (h it (List.mem_cons_self ..))
    rw [List.map_cons, evalProj]
    · rw [eval_itemCh km q s c E' it r hr (hcols _ r hr), evalProj_itemsCh km q s c E' lvl hcols items (fun i hi => h i (List.mem_cons_of_mem _ hi))]; rfl
    · intro hh; cases it with
      | ent x al => cases hh
      | idOf x al => cases al <;> cases hh
      | prop x k al => cases al <;> cases hh

theorem hasAggL_itemsCh (q : Ch.Query) (s : String) : ∀ (items : List Ch.Item), hasAggL (items.map (Ch.Item.tr q s)) = false
  | [] => by simp [hasAggL]
  | it :: items => by
    rw [List.map_cons, hasAggL, hasAggL_itemsCh q s items]
    cases it with
    | ent x al => simp [Ch.Item.tr, S2.col, hasAgg]
    | idOf x al => cases al <;> simp [Ch.Item.tr, S2.col, hasAgg]
    | prop x k al => cases al <;> simp [Ch.Item.tr, S2.col, S1.strLit, hasAgg]

/-- `select items from s` over the last frame -/
theorem final_select (km : KindMap) (db : Db) (ctes : List (String × Table)) (q : Ch.Query) (s : String) (cols : List String) (cs : List Chain)
    (hS : ctes.lookup s = some ⟨cols, cs.map (rowOf km)⟩)
    (hcols : ∀ c ∈ cs, ∀ (E' : EEnv) x r, refGet c x = some r →
      evalExpr (E'.push [(⟨s, cols, rowOf km c⟩ : Binding)]) (S2.col s (Ch.colOf x)) = .ok (r.val km))
    (hrefs : ∀ c ∈ cs, ∀ it ∈ q.items, (refGet c it.ref).isSome = true) :
    ∃ names out, evalSetExpr (Ec db ctes) (.select false (q.items.map (Ch.Item.tr q s)) [.mk (.table [s] none) []] none [] none) = .ok (names, out) ∧
      out.map (·.1) = cs.map (fun c => q.items.map (itemValCh km c)) := by
  rw [evalSelect_single _ _ _ _ _ _ (lookup_cte_Ec db ctes s _ hS) (hasAggL_itemsCh q s q.items)]
  have hrows : ((⟨cols, cs.map (rowOf km)⟩ : Table).rows.map (fun r => [(⟨(none : Option String).getD s, (⟨cols, cs.map (rowOf km)⟩ : Table).cols, r⟩ : Binding)])) =
      cs.map (fun c => [(⟨s, cols, rowOf km c⟩ : Binding)]) := by
    simp [List.map_map, Function.comp_def]
  rw [hrows, whTest_none, filterE_true]
  simp only [ebind_ok]
  rw [mapE_map_ok (fun c => [(⟨s, cols, rowOf km c⟩ : Binding)]) _
    (fun c => (q.items.map (itemValCh km c), some ((Ec db ctes).push [(⟨s, cols, rowOf km c⟩ : Binding)])))]
  · simp only [ebind_ok, epure_ok]
    exact ⟨_, _, rfl, by simp [List.map_map, Function.comp_def]⟩
  · intro c hc
    rw [evalProj_itemsCh km q s c _ _ (fun x r hx => hcols c hc _ x r hx) q.items (hrefs c hc)]; rfl

end Dawgs.C01.Proofs
