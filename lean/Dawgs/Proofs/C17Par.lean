/- Helper lemmas for C17 round 2: parallelNodeQuery LTS, FilteredSkipLimit, pattern.Driver. -/
import Dawgs.Model.C17Par
import Dawgs.Proofs.C17Seq
import Mathlib.Data.List.Perm.Basic
set_option linter.unusedSimpArgs false
set_option linter.unusedVariables false
set_option linter.unnecessarySimpa false
namespace Dawgs.C17.Par
open Dawgs.C17.Seq

/-! ### parallelNodeQuery -/

inductive PNQ.Reach (floors : List Nat) (n : Nat) : PNQ → Prop where
  | init : PNQ.Reach floors n (PNQ.init floors n)
  | step {s s' : PNQ} {a : PAct} : PNQ.Reach floors n s → s.step a = some s' → PNQ.Reach floors n s'

theorem removeOne_perm {x : Nat} {l l' : List Nat} (h : removeOne x l = some l') : l.Perm (x :: l') := by
  induction l generalizing l' with
  | nil => cases h
  | cons y ys ih =>
    unfold removeOne at h
    split at h
    · next hxy => cases h; simp at hxy; subst hxy; exact List.Perm.refl _
    · cases hr : removeOne x ys with
      | none => rw [hr] at h; cases h
      | some t =>
        rw [hr] at h; cases h
        exact ((ih hr).cons y).trans (List.Perm.swap x y t)

theorem removeOne_length {x : Nat} {l l' : List Nat} (h : removeOne x l = some l') : l.length = l'.length + 1 := by
  have := (removeOne_perm h).length_eq; simpa using this

structure PInv (floors : List Nat) (n : Nat) (s : PNQ) : Prop where
  workers : s.idle + s.holding.length + s.failing + s.exited = n
  fl : floors.Perm (s.handled ++ s.holding ++ s.floors ++ s.dropped)
  errs : s.errs + s.failing + s.errsDropped = s.failures
  dropC : (s.dropped ≠ [] ∨ 0 < s.errsDropped) → s.cancelled = true
  pcF : s.pc ≠ .sending → s.floors = []
  pcW : (s.pc = .waitMerge ∨ s.pc = .returned) → s.idle = 0 ∧ s.holding = [] ∧ s.failing = 0
  mg : s.mergeAlive = false → s.cancelled = true ∨ s.pc = .waitMerge ∨ s.pc = .returned
  rt : s.pc = .returned → s.mergeAlive = false
  ex : s.pc = .sending → s.cancelled = false → s.exited ≤ s.errs

theorem pinv_init (floors : List Nat) (n : Nat) : PInv floors n (PNQ.init floors n) := by
  refine ⟨?_, ?_, rfl, ?_, ?_, ?_, ?_, ?_, ?_⟩ <;> simp [PNQ.init]

theorem pinv_step {floors : List Nat} {n : Nat} {s s' : PNQ} {a : PAct} (hi : PInv floors n s) (h : s.step a = some s') :
    PInv floors n s' := by
  obtain ⟨hw, hf, he, hd, hpf, hpw, hmg, hrt, hex⟩ := hi
  -- a worker that is idle / holding / failing exists only before the join
  have hbusy : (0 < s.idle ∨ s.holding ≠ [] ∨ 0 < s.failing) → s.pc ≠ .waitMerge ∧ s.pc ≠ .returned := by
    intro hb
    constructor <;> intro hh
    · obtain ⟨h1, h2, h3⟩ := hpw (Or.inl hh); rcases hb with hb | hb | hb <;> simp_all
    · obtain ⟨h1, h2, h3⟩ := hpw (Or.inr hh); rcases hb with hb | hb | hb <;> simp_all
  cases a with
  | send =>
    simp only [PNQ.step] at h
    split at h <;> try cases h
    next f rest hpc hfl =>
    split at h <;> cases h
    next hidle =>
    refine ⟨?_, ?_, he, hd, ?_, ?_, hmg, ?_, hex⟩
    · simp only [List.length_cons]; omega
    · rw [hfl] at hf
      refine hf.trans ?_
      simp only [List.append_assoc]
      refine List.Perm.append_left _ ?_
      simpa using List.perm_middle (l₁ := s.holding) (a := f) (l₂ := rest ++ s.dropped)
    · intro hne; exact absurd hpc hne
    · intro hh; rw [hpc] at hh; rcases hh with hh | hh <;> cases hh
    · intro hh; rw [hpc] at hh; cases hh
  | sendDropped =>
    simp only [PNQ.step] at h
    split at h <;> try cases h
    next f rest hpc hfl =>
    split at h <;> cases h
    next hcan =>
    refine ⟨hw, ?_, he, ?_, ?_, ?_, hmg, ?_, ?_⟩
    · rw [hfl] at hf
      refine hf.trans ?_
      simp only [List.append_assoc]
      refine List.Perm.append_left _ (List.Perm.append_left _ ?_)
      simpa using (List.perm_middle (l₁ := rest) (a := f) (l₂ := s.dropped)).symm
    · intro _; exact hcan
    · intro hne; exact absurd hpc hne
    · intro hh; rw [hpc] at hh; rcases hh with hh | hh <;> cases hh
    · intro hh; rw [hpc] at hh; cases hh
    · intro _ hc; rw [hcan] at hc; cases hc
  | close =>
    simp only [PNQ.step] at h
    split at h <;> try cases h
    next hpc hfl =>
    refine ⟨hw, hf, he, hd, ?_, ?_, ?_, ?_, ?_⟩
    · intro _; exact hfl
    · intro hh; rcases hh with hh | hh <;> cases hh
    · intro hm
      rcases hmg hm with h1 | h1 | h1
      · exact Or.inl h1
      · rw [hpc] at h1; cases h1
      · rw [hpc] at h1; cases h1
    · intro hh; cases hh
    · intro hh; cases hh
  | queryOk f =>
    simp only [PNQ.step, Option.map_eq_some_iff] at h
    obtain ⟨h', hr, rfl⟩ := h
    have hlen := removeOne_length hr
    have hne := hbusy (Or.inr (Or.inl (by intro hh; rw [hh] at hr; cases hr)))
    refine ⟨?_, ?_, he, hd, hpf, ?_, hmg, hrt, hex⟩
    · show s.idle + 1 + h'.length + s.failing + s.exited = n; omega
    · refine hf.trans ?_
      simp only [List.append_assoc]
      refine List.Perm.append_left _ ?_
      have := (removeOne_perm hr).append_right (s.floors ++ s.dropped)
      simpa using this
    · intro hh; rcases hh with hh | hh
      · exact absurd hh hne.1
      · exact absurd hh hne.2
  | queryErr f =>
    simp only [PNQ.step, Option.map_eq_some_iff] at h
    obtain ⟨h', hr, rfl⟩ := h
    have hlen := removeOne_length hr
    have hne := hbusy (Or.inr (Or.inl (by intro hh; rw [hh] at hr; cases hr)))
    refine ⟨?_, ?_, ?_, hd, hpf, ?_, hmg, hrt, hex⟩
    · show s.idle + h'.length + (s.failing + 1) + s.exited = n; omega
    · refine hf.trans ?_
      simp only [List.append_assoc]
      refine List.Perm.append_left _ ?_
      have := (removeOne_perm hr).append_right (s.floors ++ s.dropped)
      simpa using this
    · show s.errs + (s.failing + 1) + s.errsDropped = s.failures + 1; omega
    · intro hh; rcases hh with hh | hh
      · exact absurd hh hne.1
      · exact absurd hh hne.2
  | submitErr =>
    simp only [PNQ.step] at h
    split at h <;> cases h
    next hc =>
    have hne := hbusy (Or.inr (Or.inr hc.1))
    refine ⟨?_, hf, ?_, hd, hpf, ?_, hmg, hrt, ?_⟩
    · show s.idle + s.holding.length + (s.failing - 1) + (s.exited + 1) = n; omega
    · show s.errs + 1 + (s.failing - 1) + s.errsDropped = s.failures; omega
    · intro hh; rcases hh with hh | hh
      · exact absurd hh hne.1
      · exact absurd hh hne.2
    · intro h1 h2; have := hex h1 h2; show s.exited + 1 ≤ s.errs + 1; omega
  | submitErrDropped =>
    simp only [PNQ.step] at h
    split at h <;> cases h
    next hc =>
    have hne := hbusy (Or.inr (Or.inr hc.1))
    refine ⟨?_, hf, ?_, ?_, hpf, ?_, hmg, hrt, ?_⟩
    · show s.idle + s.holding.length + (s.failing - 1) + (s.exited + 1) = n; omega
    · show s.errs + (s.failing - 1) + (s.errsDropped + 1) = s.failures; omega
    · intro _; exact hc.2
    · intro hh; rcases hh with hh | hh
      · exact absurd hh hne.1
      · exact absurd hh hne.2
    · intro _ h2; rw [hc.2] at h2; cases h2
  | workerClosed =>
    simp only [PNQ.step] at h
    split at h <;> cases h
    next hc =>
    have hne := hbusy (Or.inl hc.1)
    refine ⟨?_, hf, he, hd, hpf, ?_, hmg, hrt, ?_⟩
    · show s.idle - 1 + s.holding.length + s.failing + (s.exited + 1) = n; omega
    · intro hh; rcases hh with hh | hh
      · exact absurd hh hne.1
      · exact absurd hh hne.2
    · intro h1 _; exact absurd h1 hc.2
  | workerCancel =>
    simp only [PNQ.step] at h
    split at h <;> cases h
    next hc =>
    have hne := hbusy (Or.inl hc.1)
    refine ⟨?_, hf, he, hd, hpf, ?_, hmg, hrt, ?_⟩
    · show s.idle - 1 + s.holding.length + s.failing + (s.exited + 1) = n; omega
    · intro hh; rcases hh with hh | hh
      · exact absurd hh hne.1
      · exact absurd hh hne.2
    · intro _ h2; rw [hc.2] at h2; cases h2
  | joined =>
    simp only [PNQ.step] at h
    split at h <;> cases h
    next hc =>
    refine ⟨hw, hf, he, hd, ?_, ?_, ?_, ?_, ?_⟩
    · intro _; exact hpf (by rw [hc.1]; intro hh; cases hh)
    · intro _; exact ⟨hc.2.1, hc.2.2.1, hc.2.2.2⟩
    · intro _; exact Or.inr (Or.inl rfl)
    · intro hh; cases hh
    · intro hh; cases hh
  | mergeClosed =>
    simp only [PNQ.step] at h
    split at h <;> cases h
    next hc =>
    refine ⟨hw, hf, he, hd, hpf, hpw, ?_, ?_, hex⟩
    · intro _; exact Or.inr (Or.inl hc.1)
    · intro _; rfl
  | mergeCancel =>
    simp only [PNQ.step] at h
    split at h <;> cases h
    next hc =>
    refine ⟨hw, hf, he, hd, hpf, hpw, ?_, ?_, hex⟩
    · intro _; exact Or.inl hc.1
    · intro _; rfl
  | ret =>
    simp only [PNQ.step] at h
    split at h <;> cases h
    next hc =>
    have hm : s.mergeAlive = false := by simpa using hc.2
    refine ⟨hw, hf, he, hd, ?_, ?_, ?_, ?_, ?_⟩
    · intro _; exact hpf (by rw [hc.1]; intro hh; cases hh)
    · intro _; exact hpw (Or.inl hc.1)
    · intro _; exact Or.inr (Or.inr rfl)
    · intro _; exact hm
    · intro hh; cases hh
  | cancel =>
    simp only [PNQ.step] at h
    split at h <;> cases h
    refine ⟨hw, hf, he, ?_, hpf, hpw, ?_, hrt, ?_⟩
    · intro _; rfl
    · intro _; exact Or.inl rfl
    · intro _ hh; cases hh

theorem preach_inv {floors : List Nat} {n : Nat} {s : PNQ} (h : PNQ.Reach floors n s) : PInv floors n s := by
  induction h with
  | init => exact pinv_init floors n
  | step _ hs ih => exact pinv_step ih hs

/-- remaining atomic actions (upper bound) -/
def PNQ.μ (s : PNQ) : Nat :=
  5 * s.floors.length + 3 * s.holding.length + 2 * s.failing + s.idle +
    (match s.pc with | .sending => 3 | .waitWorkers => 2 | .waitMerge => 1 | .returned => 0) +
    (if s.mergeAlive then 1 else 0) + (if s.cancelled then 0 else 1)

theorem pnq_measure_step {s s' : PNQ} {a : PAct} (h : s.step a = some s') : s'.μ < s.μ := by
  cases a with
  | send =>
    simp only [PNQ.step] at h
    split at h <;> try cases h
    next f rest hpc hfl =>
    split at h <;> cases h
    simp only [PNQ.μ, hfl, hpc, List.length_cons]; omega
  | sendDropped =>
    simp only [PNQ.step] at h
    split at h <;> try cases h
    next f rest hpc hfl =>
    split at h <;> cases h
    simp only [PNQ.μ, hfl, hpc, List.length_cons]; omega
  | close =>
    simp only [PNQ.step] at h
    split at h <;> try cases h
    next hpc hfl => simp only [PNQ.μ, hfl, hpc]; omega
  | queryOk f =>
    simp only [PNQ.step, Option.map_eq_some_iff] at h
    obtain ⟨h', hr, rfl⟩ := h
    have := removeOne_length hr
    simp only [PNQ.μ]; omega
  | queryErr f =>
    simp only [PNQ.step, Option.map_eq_some_iff] at h
    obtain ⟨h', hr, rfl⟩ := h
    have := removeOne_length hr
    simp only [PNQ.μ]; omega
  | submitErr => simp only [PNQ.step] at h; split at h <;> cases h
                 next hc => simp only [PNQ.μ]; omega
  | submitErrDropped => simp only [PNQ.step] at h; split at h <;> cases h
                        next hc => simp only [PNQ.μ]; omega
  | workerClosed => simp only [PNQ.step] at h; split at h <;> cases h
                    next hc => simp only [PNQ.μ]; omega
  | workerCancel => simp only [PNQ.step] at h; split at h <;> cases h
                    next hc => simp only [PNQ.μ]; omega
  | joined => simp only [PNQ.step] at h; split at h <;> cases h
              next hc => simp only [PNQ.μ, hc.1]; omega
  | mergeClosed => simp only [PNQ.step] at h; split at h <;> cases h
                   next hc => simp only [PNQ.μ, hc.2]; simp
  | mergeCancel => simp only [PNQ.step] at h; split at h <;> cases h
                   next hc => simp only [PNQ.μ, hc.2]; simp
  | ret => simp only [PNQ.step] at h; split at h <;> cases h
           next hc => simp only [PNQ.μ, hc.1]; omega
  | cancel =>
    simp only [PNQ.step] at h; split at h <;> cases h
    next hc => simp only [PNQ.μ]; simp [hc]

theorem removeOne_head (f : Nat) (l : List Nat) : removeOne f (f :: l) = some l := by simp [removeOne]

/-- progress: a non-returned reachable state has an enabled non-environment step, or is the O2 situation -/
theorem pnq_progress {floors : List Nat} {n : Nat} {s : PNQ} (hi : PInv floors n s) (hnr : s.pc ≠ .returned) :
    (∃ a s', PAct.isEnv a = false ∧ s.step a = some s') ∨ s.stuckO2 = true := by
  have hquery : s.holding ≠ [] → ∃ a s', PAct.isEnv a = false ∧ s.step a = some s' := by
    intro hh
    cases hl : s.holding with
    | nil => exact absurd hl hh
    | cons f rest => exact ⟨.queryOk f, _, rfl, by simp [PNQ.step, hl, removeOne_head]; rfl⟩
  cases hpc : s.pc with
  | returned => exact absurd hpc hnr
  | waitMerge =>
    left
    cases hm : s.mergeAlive
    · exact ⟨.ret, _, rfl, by simp [PNQ.step, hpc, hm]; rfl⟩
    · exact ⟨.mergeClosed, _, rfl, by simp [PNQ.step, hpc, hm]; rfl⟩
  | waitWorkers =>
    left
    by_cases h1 : 0 < s.idle
    · exact ⟨.workerClosed, _, rfl, by simp [PNQ.step, hpc, h1]; rfl⟩
    by_cases h2 : s.holding = []
    · by_cases h3 : 0 < s.failing
      · cases hm : s.mergeAlive
        · have : s.cancelled = true := by
            rcases hi.mg hm with h | h | h
            · exact h
            · rw [hpc] at h; cases h
            · rw [hpc] at h; cases h
          exact ⟨.submitErrDropped, _, rfl, by simp [PNQ.step, h3, this]; rfl⟩
        · exact ⟨.submitErr, _, rfl, by simp [PNQ.step, h3, hm]; rfl⟩
      · exact ⟨.joined, _, rfl, by
          have e1 : s.idle = 0 := by omega
          have e3 : s.failing = 0 := by omega
          simp [PNQ.step, hpc, h2, e1, e3]; rfl⟩
    · exact hquery h2
  | sending =>
    cases hfl : s.floors with
    | nil => left; exact ⟨.close, _, rfl, by simp [PNQ.step, hpc, hfl]; rfl⟩
    | cons f rest =>
      by_cases h1 : 0 < s.idle
      · left; exact ⟨.send, _, rfl, by simp [PNQ.step, hpc, hfl, h1]; rfl⟩
      cases hc : s.cancelled
      · by_cases h2 : s.holding = []
        · by_cases h3 : 0 < s.failing
          · left
            have hm : s.mergeAlive = true := by
              cases hm : s.mergeAlive
              · rcases hi.mg hm with h | h | h
                · rw [hc] at h; cases h
                · rw [hpc] at h; cases h
                · rw [hpc] at h; cases h
              · rfl
            exact ⟨.submitErr, _, rfl, by simp [PNQ.step, h3, hm]; rfl⟩
          · right
            simp [PNQ.stuckO2, hpc, hfl, hc, h2]
            omega
        · left; exact hquery h2
      · left; exact ⟨.sendDropped, _, rfl, by simp [PNQ.step, hpc, hfl, hc]; rfl⟩

/-- O2 needs every worker to have failed -/
theorem pnq_stuck_needs_all_failed {floors : List Nat} {n : Nat} {s : PNQ} (hi : PInv floors n s)
    (hs : s.stuckO2 = true) : n ≤ s.failures := by
  simp only [PNQ.stuckO2, Bool.and_eq_true, beq_iff_eq, Bool.not_eq_true', List.isEmpty_iff] at hs
  obtain ⟨⟨⟨⟨⟨hpc, _⟩, hidle⟩, hhold⟩, hfail⟩, hcan⟩ := hs
  have h1 := hi.ex hpc hcan
  have h2 := hi.workers
  have h3 := hi.errs
  rw [hhold] at h2
  simp at h2
  omega

theorem preach_run {floors : List Nat} {n : Nat} {s s' : PNQ} {as : List PAct} (hr : PNQ.Reach floors n s)
    (h : s.run as = some s') : PNQ.Reach floors n s' := by
  induction as generalizing s with
  | nil => cases h; exact hr
  | cons a as ih =>
    unfold PNQ.run at h
    cases hs : s.step a with
    | none => rw [hs] at h; cases h
    | some q => rw [hs] at h; exact ih (PNQ.Reach.step hr hs) h

/-! ### atomics.Counter / FilteredSkipLimit -/

/-- results of `k` successive calls of a counter with the given maximum, starting at `cur` -/
def ctrRun (maximum : Nat) : Nat → Nat → List Bool
  | _, 0 => []
  | cur, k + 1 => (ctrCall maximum cur).2 :: ctrRun maximum (ctrCall maximum cur).1 k

theorem ctrRun_count (maximum cur k : Nat) (h : cur ≤ maximum) :
    (ctrRun maximum cur k).count false = min k (maximum - cur) := by
  induction k generalizing cur with
  | zero => simp [ctrRun]
  | succ k ih =>
    unfold ctrRun ctrCall
    by_cases hc : cur < maximum
    · simp only [hc, if_true, List.count_cons_self]
      rw [ih (cur + 1) (by omega)]; omega
    · simp only [hc, if_false]
      have : (true == false) = false := rfl
      rw [List.count_cons, ih cur h]
      simp; omega

def collectable (calls : List (Nat × Bool × Bool)) : List Nat := (calls.filter (fun c => c.2.1)).map (·.1)

/-- what FilteredSkipLimit visits, from any counter state -/
def fslSpecFrom (bound : Nat) (s : FSL) (xs : List Nat) : List Nat :=
  let ys := if s.skip == 0 then xs else xs.drop (u64 s.skip bound - s.skipCtr)
  if s.limit > 0 then ys.take (s.limit.toNat - s.limitCtr) else ys

theorem fslRun_gen (bound : Nat) (calls : List (Nat × Bool × Bool)) :
    ∀ s : FSL, (fslRun bound s calls).1 = fslSpecFrom bound s (collectable calls) := by
  induction calls with
  | nil => intro s; simp [fslRun, fslSpecFrom, collectable]
  | cons call rest ih =>
    intro s
    obtain ⟨i, c, d⟩ := call
    cases c with
    | false =>
      have : collectable ((i, false, d) :: rest) = collectable rest := by simp [collectable]
      rw [this, ← ih s]
      simp [fslRun, fslCall]
    | true =>
      have hx : collectable ((i, true, d) :: rest) = i :: collectable rest := by simp [collectable]
      rw [hx]
      by_cases hs0 : (s.skip == 0) = true
      · -- no skip counter
        by_cases hl : s.limit > 0
        · by_cases hb : s.limitCtr < s.limit.toNat
          · have e : fslCall bound s true d = ({ s with limitCtr := s.limitCtr + 1 }, true, d) := by
              simp [fslCall, hs0, hl, ctrCall, hb]
            simp only [fslRun, e, if_true]
            rw [ih]
            simp only [fslSpecFrom, hs0, if_true, hl]
            have : s.limit.toNat - s.limitCtr = (s.limit.toNat - (s.limitCtr + 1)) + 1 := by omega
            rw [this, List.take_succ_cons]
          · have e : fslCall bound s true d = ({ s with limitCtr := s.limitCtr }, false, false) := by
              simp [fslCall, hs0, hl, ctrCall, hb]
            simp only [fslRun, e]
            rw [ih]
            simp only [fslSpecFrom, hs0, if_true, hl]
            have : s.limit.toNat - s.limitCtr = 0 := by omega
            simp [this]
        · have e : fslCall bound s true d = (s, true, d) := by simp [fslCall, hs0, hl]
          simp only [fslRun, e, if_true]
          rw [ih]
          simp [fslSpecFrom, hs0, hl]
      · have hs0' : (s.skip == 0) = false := by simpa using hs0
        by_cases ha : s.skipCtr < u64 s.skip bound
        · -- still skipping
          have e : fslCall bound s true d = ({ s with skipCtr := s.skipCtr + 1 }, false, d) := by
            simp [fslCall, hs0', ctrCall, ha]
          simp only [fslRun, e]
          rw [ih]
          simp only [fslSpecFrom, hs0']
          have : u64 s.skip bound - s.skipCtr = (u64 s.skip bound - (s.skipCtr + 1)) + 1 := by omega
          rw [this, List.drop_succ_cons]
          rfl
        · have hd0 : u64 s.skip bound - s.skipCtr = 0 := by omega
          by_cases hl : s.limit > 0
          · by_cases hb : s.limitCtr < s.limit.toNat
            · have e : fslCall bound s true d = ({ s with limitCtr := s.limitCtr + 1 }, true, d) := by
                simp [fslCall, hs0', hl, ctrCall, hb, ha]
              simp only [fslRun, e, if_true]
              rw [ih]
              simp only [fslSpecFrom, hs0', hl, hd0, List.drop_zero, if_true]
              have : s.limit.toNat - s.limitCtr = (s.limit.toNat - (s.limitCtr + 1)) + 1 := by omega
              rw [this]; simp [List.take_succ_cons]
            · have e : fslCall bound s true d = ({ s with limitCtr := s.limitCtr }, false, false) := by
                simp [fslCall, hs0', hl, ctrCall, hb, ha]
              simp only [fslRun, e]
              rw [ih]
              simp only [fslSpecFrom, hs0', hl, hd0, if_true]
              have : s.limit.toNat - s.limitCtr = 0 := by omega
              simp [this]
          · have e : fslCall bound s true d = (s, true, d) := by simp [fslCall, hs0', hl, ctrCall, ha]
            simp only [fslRun, e, if_true]
            rw [ih]
            simp [fslSpecFrom, hs0', hl, hd0]

/-! ### pattern.Driver -/

theorem fetchFunc_eq (seg : Seg) (tag : Tag) (rows : List (Nat × Nat)) :
    fetchFunc seg tag rows = (extend seg rows).map (fun c => (c, { idx := tag.idx, depth := tag.depth + 1 })) := rfl

theorem flatMap_map_tag (f : Seg × Tag → List Seg) (l : List Seg) (t : Tag) :
    (l.map (fun c => (c, t))).flatMap f = l.flatMap (fun c => f (c, t)) := by
  induction l with
  | nil => rfl
  | cons x xs ih => simp [List.flatMap_cons, ih]

theorem expand_eq_patSpec (exps : List Exp) (edges : List (Nat × Nat × Nat)) :
    ∀ fuel seg tag, expand exps edges fuel (seg, tag) = patSpec exps edges fuel seg tag.idx tag.depth := by
  intro fuel
  induction fuel with
  | zero => intro seg tag; rfl
  | succ n ih =>
    intro seg tag
    unfold expand patSpec driver
    cases hcur : exps[tag.idx]? with
    | none => simp
    | some cur =>
      simp only []
      have hrec : ∀ (l : List Seg) (t : Tag),
          (l.map (fun c => (c, t))).flatMap (expand exps edges n) = l.flatMap (fun c => patSpec exps edges n c t.idx t.depth) := by
        intro l t
        rw [flatMap_map_tag]
        congr 1; funext c; exact ih c t
      have fin : ∀ {A B : List Seg}, A = B → A = B := fun h => h
      by_cases hadv : ((tag.depth > 0 && cur.min == 0) || tag.depth ≥ cur.min) = true
      · simp only [hadv, if_true]
        cases hnxt : exps[tag.idx + 1]? with
        | none =>
          simp only []
          by_cases hcont : (cur.max == 0 || decide (tag.depth < cur.max)) = true
          · simp only [hcont, if_true, fetchFunc_eq, List.isEmpty_map, hrec]
          · have hcont' : (cur.max == 0 || decide (tag.depth < cur.max)) = false := by simpa using hcont
            simp [hcont']
        | some nxt =>
          simp only []
          by_cases hcont : (cur.max == 0 || decide (tag.depth < cur.max)) = true <;>
          by_cases hopt : (nxt.min == 0) = true <;>
          simp only [hcont, hopt, if_true, fetchFunc_eq, List.flatMap_append, hrec, List.nil_append,
                List.flatMap_cons, List.flatMap_nil, List.append_nil, ih, Bool.false_eq_true, if_false,
                List.isEmpty_nil, List.flatMap_nil] <;>
          simp
      · have hadv' : ((tag.depth > 0 && cur.min == 0) || tag.depth ≥ cur.min) = false := by simpa using hadv
        simp only [hadv']
        by_cases hcont : (cur.max == 0 || decide (tag.depth < cur.max)) = true
        · simp only [hcont, if_true, fetchFunc_eq]; simp; rw [hrec]
        · have hcont' : (cur.max == 0 || decide (tag.depth < cur.max)) = false := by simpa using hcont
          simp [hcont']

end Dawgs.C17.Par
