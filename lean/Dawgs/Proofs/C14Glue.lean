/- Glue lemmas for C14: closedness of derived graphs, and Reach/BFSTree over any callback that presents a graph. -/
import Dawgs.Proofs.C14TS
import Dawgs.Proofs.C14Csr
import Dawgs.Proofs.C14Bfs
import Dawgs.Proofs.C14Norm
import Dawgs.Proofs.C14Seg
import Dawgs.Proofs.C14TravInst
import Dawgs.Proofs.C14Edges
import Dawgs.Proofs.C14Dims
set_option linter.unusedSimpArgs false
set_option linter.unusedVariables false
namespace Dawgs.C14

theorem adj_mem_nodes {g : G} (hc : g.Closed) {v y : Nat} {d : Dir} (h : y ∈ g.adj v d) : y ∈ g.nodes := by
  rw [mem_adj] at h
  cases d with
  | out => exact (hc v y h).2
  | inn => exact (hc y v h).1
  | both =>
    rcases h with h | h
    · exact (hc v y h).2
    · exact (hc y v h).1

theorem G.closed_dropEdges {g : G} (hc : g.Closed) (ids : List Nat) : (g.dropEdges ids).Closed := by
  intro s t he
  obtain ⟨e, he, _, h1, h2⟩ := hasEdge_filter.mp he
  exact hc s t ⟨e, he, h1, h2⟩

theorem G.closed_project {g : G} (hc : g.Closed) (dn de : List Nat) : (g.project dn de).Closed := by
  intro s t he
  unfold G.project G.dropNodes at he ⊢
  simp only at he ⊢
  obtain ⟨e, he', hq, h1, h2⟩ := hasEdge_filter.mp he
  have hn := G.closed_dropEdges hc de s t ⟨e, he', h1, h2⟩
  simp only [Bool.and_eq_true, Bool.not_eq_true'] at hq
  subst h1; subst h2
  simp only [List.mem_filter, Bool.not_eq_true']
  exact ⟨⟨hn.1, hq.1⟩, ⟨hn.2, hq.2⟩⟩

theorem G.dropEdges_congr (g : G) {a b : List Nat} (h : ∀ x, x ∈ a ↔ x ∈ b) : g.dropEdges a = g.dropEdges b := by
  unfold G.dropEdges
  congr 1
  apply List.filter_congr
  intro e _
  have : a.contains e.id = b.contains e.id := by
    rw [Bool.eq_iff_iff]; simp [h e.id]
  rw [this]

/-- `Reach` over ANY callback that presents `g` in direction `d`, with fuel `|nodes| + 1` where `nodes` lists
(at least) the nodes of `g`: it terminates and returns exactly the ≥ 1-step reachable set of `g`. -/
theorem reach_of_presents (adj : Nat → List Nat) (g : G) (d : Dir) (hp : ∀ v w, w ∈ adj v ↔ w ∈ g.adj v d)
    (hc : g.Closed) (nodes : List Nat) (hn : ∀ n, n ∈ g.nodes → n ∈ nodes) (s : Nat) :
    ∃ r, reach adj (nodes.length + 1) s = some r ∧ ∀ w, w ∈ r ↔ Reachable (fun v => g.adj v d) s w := by
  have htot := reach_total adj nodes (fun v w hw => hn w (adj_mem_nodes hc ((hp v w).mp hw))) s
  obtain ⟨r, hr⟩ := Option.isSome_iff_exists.mp htot
  refine ⟨r, hr, fun w => ?_⟩
  rw [reach_correct adj _ s r hr w]
  exact reachable_congr hp s w

/-- `BFSTree` over any callback that presents `g`: terminates with fuel `|nodes| + 1`; each reachable node
once, with the length of a shortest walk in `g`. -/
theorem bfs_of_presents (adj : Nat → List Nat) (g : G) (d : Dir) (hp : ∀ v w, w ∈ adj v ↔ w ∈ g.adj v d)
    (hc : g.Closed) (nodes : List Nat) (hn : ∀ n, n ∈ g.nodes → n ∈ nodes) (s : Nat) :
    ∃ ts, bfsTree adj (nodes.length + 1) s = some ts ∧ (ts.map (·.node)).Nodup ∧
      (∀ w, (∃ t ∈ ts, t.node = w) ↔ Reachable (fun v => g.adj v d) s w) ∧
      (∀ t ∈ ts, IsDist (fun v => g.adj v d) s t.node t.dist) := by
  have htot := bfsTree_total adj nodes (fun v w hw => hn w (adj_mem_nodes hc ((hp v w).mp hw))) s
  obtain ⟨ts, hts⟩ := Option.isSome_iff_exists.mp htot
  obtain ⟨h1, h2, h3⟩ := bfsTree_correct adj _ s ts hts
  refine ⟨ts, hts, h1, fun w => by rw [h2 w]; exact reachable_congr hp s w, ?_⟩
  intro t ht
  obtain ⟨a, b, c⟩ := h3 t ht
  exact ⟨a, (walkEnds_congr hp s _ _).mp b, fun k hk1 hk2 hm => c k hk1 hk2 ((walkEnds_congr hp s _ _).mpr hm)⟩

theorem length_eq_of_nodup_mem {a b : List Nat} (ha : a.Nodup) (hb : b.Nodup) (h : ∀ x, x ∈ a ↔ x ∈ b) : a.length = b.length :=
  ((List.perm_ext_iff_of_nodup ha hb).mpr h).length_eq

theorem G.dropEdges_nil (g : G) : g.dropEdges [] = g := by
  cases g; simp [G.dropEdges]

theorem TS.build_deleted (ops : List Op) : (TS.build ops).deleted = [] := by
  unfold TS.build
  exact foldl_rel (fun (t : TS) (_ : Unit) => t.deleted = []) TS.step (fun u _ => u)
    (fun a _ o h => by cases o <;> exact h) ops {} () rfl

/-- the store without tombstones presents the graph itself -/
theorem TS.adjacent_build_spec (ops : List Op) (v y : Nat) (d : Dir) :
    y ∈ (TS.build ops).adjacent true v d ↔ y ∈ (G.ofOps ops).adj v d := by
  rw [TS.adjacent_spec (TS.rel_build ops) true v y d (Or.inr rfl), TS.build_deleted, G.dropEdges_nil]

end Dawgs.C14
