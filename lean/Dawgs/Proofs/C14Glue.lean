/- Glue lemmas for C14: closedness of derived graphs, and Reach/BFSTree over any callback that presents a graph. -/
import Dawgs.Proofs.C14TS
import Dawgs.Proofs.C14Csr
import Dawgs.Proofs.C14Bfs
import Dawgs.Proofs.C14Norm
import Dawgs.Proofs.C14Seg
import Dawgs.Proofs.C14TravInst
import Dawgs.Proofs.C14Edges
import Dawgs.Proofs.C14Dims
import Dawgs.Proofs.C14ToSeg
import Dawgs.Proofs.C14Factory
set_option linter.unusedSimpArgs false
set_option linter.unusedVariables false
namespace Dawgs.C14

theorem adj_mem_nodes {g : G} (hc : g.Closed) {v y : Nat} {d : Dir} (h : y ∈ g.adj v d) : y ∈ g.nodes := by
  rw [mem_adj] at h
  cases d with
  | out => exact (hc v y h).2
  | inn => exact (hc y v h).1
  | both =>
    rcases h with h | h
    · exact (hc v y h).2
    · exact (hc y v h).1

theorem G.closed_dropEdges {g : G} (hc : g.Closed) (ids : List Nat) : (g.dropEdges ids).Closed := by
  intro s t he
  obtain ⟨e, he, _, h1, h2⟩ := hasEdge_filter.mp he
  exact hc s t ⟨e, he, h1, h2⟩

theorem G.closed_project {g : G} (hc : g.Closed) (dn de : List Nat) : (g.project dn de).Closed := by
  intro s t he
  unfold G.project G.dropNodes at he ⊢
  simp only at he ⊢
  obtain ⟨e, he', hq, h1, h2⟩ := hasEdge_filter.mp he
  have hn := G.closed_dropEdges hc de s t ⟨e, he', h1, h2⟩
  simp only [Bool.and_eq_true, Bool.not_eq_true'] at hq
  subst h1; subst h2
  simp only [List.mem_filter, Bool.not_eq_true']
  exact ⟨⟨hn.1, hq.1⟩, ⟨hn.2, hq.2⟩⟩

theorem G.dropEdges_congr (g : G) {a b : List Nat} (h : ∀ x, x ∈ a ↔ x ∈ b) : g.dropEdges a = g.dropEdges b := by
  unfold G.dropEdges
  congr 1
  apply List.filter_congr
  intro e _
  have : a.contains e.id = b.contains e.id := by
    rw [Bool.eq_iff_iff]; simp [h e.id]
  rw [this]

/-- `Reach` over ANY callback that presents `g` in direction `d`, with fuel `|nodes| + 1` where `nodes` lists
(at least) the nodes of `g`: it terminates and returns exactly the ≥ 1-step reachable set of `g`. -/
theorem reach_of_presents (adj : Nat → List Nat) (g : G) (d : Dir) (hp : ∀ v w, w ∈ adj v ↔ w ∈ g.adj v d)
    (hc : g.Closed) (nodes : List Nat) (hn : ∀ n, n ∈ g.nodes → n ∈ nodes) (s : Nat) :
    ∃ r, reach adj (nodes.length + 1) s = some r ∧ ∀ w, w ∈ r ↔ Reachable (fun v => g.adj v d) s w := by
  have htot := reach_total adj nodes (fun v w hw => hn w (adj_mem_nodes hc ((hp v w).mp hw))) s
  obtain ⟨r, hr⟩ := Option.isSome_iff_exists.mp htot
  refine ⟨r, hr, fun w => ?_⟩
  rw [reach_correct adj _ s r hr w]
  exact reachable_congr hp s w

/-- `BFSTree` over any callback that presents `g`: terminates with fuel `|nodes| + 1`; each reachable node
once, with the length of a shortest walk in `g`. -/
theorem bfs_of_presents (adj : Nat → List Nat) (g : G) (d : Dir) (hp : ∀ v w, w ∈ adj v ↔ w ∈ g.adj v d)
    (hc : g.Closed) (nodes : List Nat) (hn : ∀ n, n ∈ g.nodes → n ∈ nodes) (s : Nat) :
    ∃ ts, bfsTree adj (nodes.length + 1) s = some ts ∧ (ts.map (·.node)).Nodup ∧
      (∀ w, (∃ t ∈ ts, t.node = w) ↔ Reachable (fun v => g.adj v d) s w) ∧
      (∀ t ∈ ts, IsDist (fun v => g.adj v d) s t.node t.dist) := by
  have htot := bfsTree_total adj nodes (fun v w hw => hn w (adj_mem_nodes hc ((hp v w).mp hw))) s
  obtain ⟨ts, hts⟩ := Option.isSome_iff_exists.mp htot
  obtain ⟨h1, h2, h3⟩ := bfsTree_correct adj _ s ts hts
  refine ⟨ts, hts, h1, fun w => by rw [h2 w]; exact reachable_congr hp s w, ?_⟩
  intro t ht
  obtain ⟨a, b, c⟩ := h3 t ht
  exact ⟨a, (walkEnds_congr hp s _ _).mp b, fun k hk1 hk2 hm => c k hk1 hk2 ((walkEnds_congr hp s _ _).mpr hm)⟩

theorem length_eq_of_nodup_mem {a b : List Nat} (ha : a.Nodup) (hb : b.Nodup) (h : ∀ x, x ∈ a ↔ x ∈ b) : a.length = b.length :=
  ((List.perm_ext_iff_of_nodup ha hb).mpr h).length_eq

theorem G.dropEdges_nil (g : G) : g.dropEdges [] = g := by
  cases g; simp [G.dropEdges]

theorem TS.build_deleted (ops : List Op) : (TS.build ops).deleted = [] := by
  unfold TS.build
  exact foldl_rel (fun (t : TS) (_ : Unit) => t.deleted = []) TS.step (fun u _ => u)
    (fun a _ o h => by cases o <;> exact h) ops {} () rfl

/-- the store without tombstones presents the graph itself -/
theorem TS.adjacent_build_spec (ops : List Op) (v y : Nat) (d : Dir) :
    y ∈ (TS.build ops).adjacent true v d ↔ y ∈ (G.ofOps ops).adj v d := by
  rw [TS.adjacent_spec (TS.rel_build ops) true v y d (Or.inr rfl), TS.build_deleted, G.dropEdges_nil]

/-- TSDFS / TSBFS over ANY `EachAdjacentEdge` that lists exactly the incident edges of `g`: termination with the
explicit fuel bound `treeSize`, and the handler calls are a permutation of `maxWalks`. -/
theorem traverse_of_incident (bfs : Bool) (adjE : Nat → Dir → List Edge) (g : G) (hinc : ∀ n d, adjE n d = g.incident n d)
    (d : Dir) (filt : Edge → Bool) (maxDepth : Int) (root : Nat)
    (hterm : maxDepth > 0 ∨ ∃ rk : Nat → Nat, ∀ n e, e ∈ g.incident n d → filt e = true → rk (e.other n) < rk n) :
    ∃ F fuel0,
      (∀ F', F ≤ F' → maxWalks g d filt maxDepth Edge.other F' [⟨root, 0⟩] = maxWalks g d filt maxDepth Edge.other F [⟨root, 0⟩]) ∧
      ∀ fuel, fuel0 ≤ fuel → ∃ out inc,
        tsTraverse bfs true (fun n => adjE n d) d filt maxDepth fuel root = some (out, inc) ∧
        out.Perm (maxWalks g d filt maxDepth Edge.other F [⟨root, 0⟩]) ∧
        inc = (out.filter (segExceeded maxDepth)).length := by
  have hadj : (fun n => adjE n d) = (fun n => g.incident n d) := by funext n; exact hinc n d
  have hb : ∃ F, Bounded (segChildren (fun n => g.incident n d) filt maxDepth Edge.other) F [⟨root, 0⟩] := by
    rcases hterm with hmd | ⟨rk, hrk⟩
    · exact ⟨maxDepth.toNat + 1, seg_bounded_depth _ filt maxDepth _ hmd maxDepth.toNat [⟨root, 0⟩] (by simp; omega)⟩
    · exact ⟨rk root + 1, seg_bounded_rank _ filt maxDepth _ rk hrk (rk root) [⟨root, 0⟩] (Nat.le_refl _)⟩
  obtain ⟨F, hF⟩ := hb
  refine ⟨F, treeSize (segChildren (fun n => g.incident n d) filt maxDepth Edge.other) F [⟨root, 0⟩], ?_, ?_⟩
  · intro F' hle
    exact treeLeaves_stable_le _ _ hF hle
  · intro fuel hfuel
    unfold tsTraverse
    rw [hadj, pickAt_true]
    exact travLoop_root bfs _ segIsPath (segExceeded maxDepth) F [⟨root, 0⟩] hF fuel hfuel

theorem stateless_of_incident (adjE : Nat → Dir → List Edge) (g : G) (hinc : ∀ n d, adjE n d = g.incident n d)
    (d : Dir) (wfilt : Edge → Option Nat) (maxDepth : Int) (root : Nat)
    (hterm : maxDepth > 0 ∨ ∃ rk : Nat → Nat, ∀ n e, e ∈ g.incident n d → (wfilt e).isSome = true → rk (e.other n) < rk n) :
    ∃ F fuel0,
      (∀ F', F ≤ F' → maxTerms g d wfilt maxDepth F' ⟨root, 0, 0⟩ = maxTerms g d wfilt maxDepth F ⟨root, 0, 0⟩) ∧
      ∀ fuel, fuel0 ≤ fuel → ∃ out inc,
        statelessBFS true (fun n => adjE n d) d wfilt maxDepth fuel root = some (out, inc) ∧
        out.Perm (maxTerms g d wfilt maxDepth F ⟨root, 0, 0⟩) ∧
        inc = (out.filter (ptExceeded maxDepth)).length ∧
        ∀ t ∈ out, 1 ≤ t.dist ∧ t.node ∈ walkEnds (admittedEnds (fun n => g.incident n d) wfilt) root t.dist := by
  have hadj : (fun n => adjE n d) = (fun n => g.incident n d) := by funext n; exact hinc n d
  have hb : ∃ F, Bounded (ptChildren (fun n => g.incident n d) wfilt maxDepth Edge.other) F ⟨root, 0, 0⟩ := by
    rcases hterm with hmd | ⟨rk, hrk⟩
    · exact ⟨maxDepth.toNat + 2, pt_bounded_depth _ wfilt maxDepth _ hmd (maxDepth.toNat + 1) ⟨root, 0, 0⟩ (by simp)⟩
    · exact ⟨rk root + 1, pt_bounded_rank _ wfilt maxDepth _ rk hrk (rk root) ⟨root, 0, 0⟩ (Nat.le_refl _)⟩
  obtain ⟨F, hF⟩ := hb
  refine ⟨F, treeSize (ptChildren (fun n => g.incident n d) wfilt maxDepth Edge.other) F ⟨root, 0, 0⟩, ?_, ?_⟩
  · intro F' hle
    exact treeLeaves_stable_le _ _ hF hle
  · intro fuel hfuel
    unfold statelessBFS
    rw [hadj, pickAt_true]
    obtain ⟨out, inc, h1, h2, h3⟩ := travLoop_root true _ ptIsPath (ptExceeded maxDepth) F ⟨root, 0, 0⟩ hF fuel hfuel
    refine ⟨out, inc, h1, h2, h3, ?_⟩
    intro t ht
    have hmem := h2.mem_iff.mp ht
    refine ⟨?_, ptLeaves_walk _ wfilt maxDepth root F ⟨root, 0, 0⟩ t (by simp [walkEnds_zero]) hmem⟩
    have := treeLeaves_isPath _ ptIsPath F _ t hmem
    simpa [ptIsPath] using this

/-! ### hooks/C14-fix3.patch semantics: every read path honours the tombstones -/

theorem dropEdges_incident (g : G) (ids : List Nat) (n : Nat) (d : Dir) :
    (g.dropEdges ids).incident n d = (g.incident n d).filter (fun e => !(ids.contains e.id)) := by
  rw [incident_eq, incident_eq]
  show List.filter _ (List.filter _ g.edges) = _
  rw [List.filter_filter, List.filter_filter]
  apply List.filter_congr
  intro e _
  rw [Bool.and_comm]

theorem TS.adjacentEdgesT_eq {t : TS} {g : G} (r : t.Rel g) (n : Nat) (d : Dir) :
    t.adjacentEdgesT true n d = (g.dropEdges t.deleted).incident n d := by
  unfold TS.adjacentEdgesT
  rw [if_pos rfl, TS.adjacentEdges_eq r, dropEdges_incident]
  rfl

theorem Proj.adjacentEdgesT_eq {t : TS} {g : G} (r : t.Rel g) (dn de : List Nat) (n : Nat) (d : Dir) :
    Proj.adjacentEdgesT true ⟨t, dn, de⟩ n d = ((g.dropEdges t.deleted).project dn de).incident n d := by
  unfold Proj.adjacentEdgesT
  simp only
  rw [TS.adjacentEdgesT_eq r, incident_eq, incident_eq, project_edges_eq, List.filter_filter, List.filter_filter]
  apply List.filter_congr
  intro e _
  rw [Bool.and_comm]
  rfl

theorem TS.edgesT_eq {t : TS} {g : G} (r : t.Rel g) : t.edgesT true = (g.dropEdges t.deleted).edges := by
  unfold TS.edgesT
  rw [if_pos rfl, r.edges]
  rfl

theorem mem_incident {g : G} {e : Edge} {n : Nat} {d : Dir} : e ∈ g.incident n d ↔ e ∈ g.edges ∧ Incident e n d := by
  rw [incident_eq, List.mem_filter, incB_iff]

/-- a projection under the fix3 semantics presents the projection of the tombstone-free graph -/
theorem Proj.adjacentT_spec {t : TS} {g : G} (r : t.Rel g) (dn de : List Nat) (v y : Nat) (d : Dir) :
    y ∈ Proj.adjacentT true true ⟨t, dn, de⟩ v d ↔ y ∈ ((g.dropEdges t.deleted).project dn de).adj v d := by
  unfold Proj.adjacentT
  rw [Proj.adjacentEdgesT_eq r, List.mem_map, mem_adj]
  have hfilt : ((g.dropEdges t.deleted).project dn de).edges = ((g.dropEdges t.deleted).project dn de).edges.filter (fun _ => true) := by
    exact (List.filter_eq_self.mpr (fun _ _ => rfl)).symm
  rw [hfilt, adjRel_filter]
  constructor
  · rintro ⟨e, he, hy⟩
    obtain ⟨he1, hinc⟩ := mem_incident.mp he
    exact ⟨e, he1, rfl, hinc, by rw [← pickOr_good hinc (Or.inr rfl)]; exact hy⟩
  · rintro ⟨e, he, _, hinc, hy⟩
    exact ⟨e, mem_incident.mpr ⟨he, hinc⟩, by rw [pickOr_good hinc (Or.inr rfl)]; exact hy⟩

end Dawgs.C14
