/-
C05 helper lemmas: iteration bound and error discipline of the `walk.Generic` model, freshness of deep copies.
Core Lean only. (Shared with C11, see Model/C05.lean.)
-/
import Dawgs.Model.C05
namespace Dawgs.C05
set_option linter.unusedVariables false

variable {υ : Type}

/-! ### termination: every iteration that continues strictly decreases the stack weight -/

theorem exitPop_weight {v : Visitor υ} {c c' : Cfg υ} {top : Cursor} {rest : List Cursor}
    (h : exitPop v c top rest = .cont c') : c'.stack = rest := by
  unfold exitPop at h
  split at h
  · cases h
  · cases h; rfl

theorem pushNext_weight {bad : Nat → Bool} {c c' : Cfg υ} {top : Cursor} {rest : List Cursor}
    (h : pushNext bad c top rest = .cont c') : stackWeight c'.stack < cursorWeight top + stackWeight rest := by
  unfold pushNext at h
  split at h
  · cases h; simp [cursorWeight]; omega
  · rename_i l ks more hr
    split at h
    · cases h
    · cases h
      simp [stackWeight, cursorWeight, hr, Forest.weight]; omega

theorem afterEnter_weight {v : Visitor υ} {bad : Nat → Bool} {c c' : Cfg υ} {top : Cursor} {rest : List Cursor} {b : Bool}
    (h : afterEnter v bad c top rest b = .cont c') : stackWeight c'.stack < cursorWeight top + stackWeight rest := by
  have hpop : ∀ {c0 : Cfg υ}, exitPop v c0 top rest = .cont c' → stackWeight c'.stack < cursorWeight top + stackWeight rest := by
    intro c0 h0; rw [exitPop_weight h0]; simp [cursorWeight]; omega
  unfold afterEnter at h
  split at h
  · exact hpop h
  · split at h
    · exact hpop h
    · split at h
      · exact pushNext_weight h
      · split at h
        · cases h
        · split at h
          · cases h
          · split at h
            · exact hpop h
            · exact pushNext_weight h

theorem iter_weight {v : Visitor υ} {bad : Nat → Bool} {c c' : Cfg υ}
    (h : iter v bad c = .cont c') : stackWeight c'.stack < stackWeight c.stack := by
  unfold iter at h
  split at h
  · cases h
  · rename_i top rest hs
    rw [hs]
    simp only [stackWeight]
    split at h
    · cases h
    · split at h
      · split at h
        · cases h
        · split at h
          · cases h
          · exact afterEnter_weight h
      · exact afterEnter_weight h

theorem runFuel_terminates (v : Visitor υ) (bad : Nat → Bool) :
    ∀ (n : Nat) (c : Cfg υ), stackWeight c.stack < n → (runFuel v bad n c).1 ≠ .outOfFuel
  | 0, c, h => by omega
  | n + 1, c, h => by
    unfold runFuel
    cases hi : iter v bad c with
    | fin r c' =>
      simp only
      -- `iter` never reports outOfFuel
      unfold iter at hi
      intro hr
      subst hr
      split at hi
      · cases hi
      · split at hi
        · cases hi
        · have hx : ∀ {c0 : Cfg υ} {top rest}, exitPop v c0 top rest ≠ .fin .outOfFuel c' := by
            intro c0 top rest hh; unfold exitPop at hh; split at hh <;> cases hh
          have hp : ∀ {c0 : Cfg υ} {top rest}, pushNext bad c0 top rest ≠ .fin .outOfFuel c' := by
            intro c0 top rest hh; unfold pushNext at hh
            split at hh
            · cases hh
            · split at hh <;> cases hh
          have ha : ∀ {c0 : Cfg υ} {top rest b}, afterEnter v bad c0 top rest b ≠ .fin .outOfFuel c' := by
            intro c0 top rest b hh; unfold afterEnter at hh
            split at hh
            · exact hx hh
            · split at hh
              · exact hx hh
              · split at hh
                · exact hp hh
                · split at hh
                  · cases hh
                  · split at hh
                    · cases hh
                    · split at hh
                      · exact hx hh
                      · exact hp hh
          split at hi
          · split at hi
            · cases hi
            · split at hi
              · cases hi
              · exact ha hi
          · exact ha hi
    | cont c' =>
      simp only
      have := iter_weight hi
      exact runFuel_terminates v bad n c' (by omega)

/-! ### error discipline: an error can only sit on the most recent log entry, and then it is returned -/

def LogClean (log : List LogEntry) : Prop := ∀ e ∈ log, e.after.err = none

/-- what a finished walk guarantees about its callback log -/
def FinOK (r : Result) (c : Cfg υ) : Prop :=
  match r with
  | .err e => ∃ en t, c.log = en :: t ∧ en.after.err = some e ∧ LogClean t
  | _ => LogClean c.log

theorem logClean_cons {en : LogEntry} {t : List LogEntry} (h1 : en.after.err = none) (h2 : LogClean t) : LogClean (en :: t) := by
  intro e he
  cases he with
  | head => exact h1
  | tail _ h => exact h2 e h

def StepOK : Step υ → Prop
  | .cont c' => LogClean c'.log
  | .fin r c' => FinOK r c'

theorem exitPop_log {v : Visitor υ} {c : Cfg υ} {top : Cursor} {rest : List Cursor} (hc : LogClean c.log) :
    StepOK (exitPop v c top rest) := by
  unfold exitPop
  cases he : (call .exit v.exit c top.label).st.2.err with
  | some e => exact ⟨_, _, rfl, he, hc⟩
  | none => exact logClean_cons he hc

theorem pushNext_log {bad : Nat → Bool} {c : Cfg υ} {top : Cursor} {rest : List Cursor} (hc : LogClean c.log) :
    StepOK (pushNext bad c top rest) := by
  unfold pushNext
  split
  · exact hc
  · split
    · exact hc
    · exact hc

theorem afterEnter_log {v : Visitor υ} {bad : Nat → Bool} {c : Cfg υ} {top : Cursor} {rest : List Cursor} {b : Bool}
    (hc : LogClean c.log) : StepOK (afterEnter v bad c top rest b) := by
  unfold afterEnter
  split
  · exact exitPop_log hc
  · split
    · exact exitPop_log (c := clearConsumed c) hc
    · split
      · exact pushNext_log hc
      · cases he : (call .visit v.visit c top.label).st.2.err with
        | some e => exact ⟨_, _, rfl, he, hc⟩
        | none =>
          have hc1 : LogClean (call .visit v.visit c top.label).log := logClean_cons he hc
          simp only
          split
          · exact hc1
          · split
            · exact exitPop_log (c := clearConsumed (call .visit v.visit c top.label)) hc1
            · exact pushNext_log hc1

theorem iter_log {v : Visitor υ} {bad : Nat → Bool} {c : Cfg υ} (hc : LogClean c.log) : StepOK (iter v bad c) := by
  unfold iter
  split
  · exact hc
  · split
    · exact hc
    · split
      · rename_i top rest _ _ _
        cases he : (call .enter v.enter c top.label).st.2.err with
        | some e => exact ⟨_, _, rfl, he, hc⟩
        | none =>
          have hc1 : LogClean (call .enter v.enter c top.label).log := logClean_cons he hc
          simp only
          split
          · exact hc1
          · exact afterEnter_log hc1
      · exact afterEnter_log hc

theorem runFuel_log (v : Visitor υ) (bad : Nat → Bool) :
    ∀ (n : Nat) (c : Cfg υ), LogClean c.log → FinOK (runFuel v bad n c).1 (runFuel v bad n c).2
  | 0, c, h => h
  | n + 1, c, h => by
    unfold runFuel
    have hi := iter_log (v := v) (bad := bad) h
    cases hiter : iter v bad c with
    | fin r c' => rw [hiter] at hi; exact hi
    | cont c' => rw [hiter] at hi; exact runFuel_log v bad n c' hi

/-! ### deep copies are fresh -/

theorem copy_erase : ∀ (t : AForest) (n : Nat), (t.copy n).1.erase = t.erase
  | .nil, _ => rfl
  | .cons a l k r, n => by
    simp only [AForest.copy, AForest.erase]
    rw [copy_erase k (n + 1), copy_erase r (k.copy (n + 1)).2]

theorem copy_next_le : ∀ (t : AForest) (n : Nat), n ≤ (t.copy n).2
  | .nil, _ => Nat.le_refl _
  | .cons a l k r, n => by
    simp only [AForest.copy]
    have h1 := copy_next_le k (n + 1)
    have h2 := copy_next_le r (k.copy (n + 1)).2
    omega

theorem copy_fresh : ∀ (t : AForest) (n : Nat), ∀ a ∈ (t.copy n).1.addrs, n ≤ a ∧ a < (t.copy n).2
  | .nil, _, a, h => nomatch h
  | .cons a0 l k r, n, a, h => by
    simp only [AForest.copy, AForest.addrs, List.mem_cons, List.mem_append] at h ⊢
    have hk := copy_next_le k (n + 1)
    have hr := copy_next_le r (k.copy (n + 1)).2
    rcases h with h | h | h
    · subst h; omega
    · have := copy_fresh k (n + 1) a h; omega
    · have := copy_fresh r (k.copy (n + 1)).2 a h; omega

theorem write_not_mem : ∀ (t : AForest) (a l : Nat), a ∉ t.addrs → t.write a l = t
  | .nil, _, _, _ => rfl
  | .cons a' l' k r, a, l, h => by
    simp only [AForest.addrs, List.mem_cons, List.mem_append, not_or] at h
    simp only [AForest.write]
    rw [write_not_mem k a l h.2.1, write_not_mem r a l h.2.2]
    have : ¬ a' = a := fun e => h.1 e.symm
    simp [this]

theorem writes_not_mem (t : AForest) : ∀ (ws : List (Nat × Nat)), (∀ w ∈ ws, w.1 ∉ t.addrs) → t.writes ws = t
  | [], _ => rfl
  | w :: ws, h => by
    unfold AForest.writes
    simp only [List.foldl_cons]
    rw [write_not_mem t w.1 w.2 (h w (List.mem_cons_self ..))]
    exact writes_not_mem t ws (fun w' hw' => h w' (List.mem_cons_of_mem _ hw'))

/-! ### kind mapper: every kind exactly one id, for every schedule -/

/-- table invariant: one entry per kind, ids pairwise distinct, all below `next`, dense -/
structure KMInv (g : KM) : Prop where
  keys : (g.table.map (·.1)).Nodup
  ids : (g.table.map (·.2)).Nodup
  bound : ∀ p ∈ g.table, 1 ≤ p.2 ∧ p.2 < g.next
  dense : g.table.length + 1 = g.next

theorem has_iff {g : KM} {k : Nat} : g.has k = true ↔ k ∈ g.table.map (·.1) := by
  unfold KM.has
  simp [List.any_eq_true, List.mem_map]

theorem KMInv.new : KMInv KM.new where
  keys := List.nodup_nil
  ids := List.nodup_nil
  bound := fun _ h => (nomatch h)
  dense := rfl

theorem KMInv.put {g : KM} (h : KMInv g) (k : Nat) : KMInv (g.put true k) := by
  unfold KM.put
  by_cases hk : g.has k = true
  · simp [hk]; exact h
  · simp only [hk, Bool.and_false, Bool.false_eq_true, if_false]
    have hnk : k ∉ g.table.map (·.1) := fun hm => hk (has_iff.2 hm)
    refine ⟨?_, ?_, ?_, ?_⟩
    · simp only [List.map_cons, List.nodup_cons]; exact ⟨hnk, h.keys⟩
    · simp only [List.map_cons, List.nodup_cons]
      refine ⟨?_, h.ids⟩
      intro hm
      obtain ⟨p, hp, e⟩ := List.mem_map.1 hm
      have := (h.bound p hp).2
      omega
    · intro p hp
      cases hp with
      | head => have := h.dense; simp; omega
      | tail _ hp => have := h.bound p hp; simp; omega
    · simp; have := h.dense; omega

theorem has_put_mono (c : Bool) {g : KM} {k k' : Nat} (h : g.has k = true) : (g.put c k').has k = true := by
  unfold KM.put
  split
  · exact h
  · unfold KM.has at h ⊢; simp [List.any_cons, h]

theorem has_put_self {g : KM} (k : Nat) : (g.put true k).has k = true := by
  unfold KM.put
  by_cases hk : g.has k = true
  · simp [hk]
  · have hk' : g.has k = false := by simpa using hk
    simp only [hk', Bool.and_false, Bool.false_eq_true, if_false]
    simp [KM.has]

/-- per-goroutine invariant: every requested kind is registered already or still on this goroutine's to-do list -/
def KMPCInv (g : KM) : KMPC → Prop
  | .start _ => True
  | .putting ks todo => ∀ k ∈ ks, g.has k = true ∨ k ∈ todo
  | .done ks => ∀ k ∈ ks, g.has k = true

theorem KMPCInv.mono {g : KM} {pc : KMPC} (h : KMPCInv g pc) (k' : Nat) : KMPCInv (g.put true k') pc := by
  cases pc with
  | start ks => trivial
  | putting ks todo => intro k hk; cases h k hk with
    | inl h1 => exact Or.inl (has_put_mono true h1)
    | inr h1 => exact Or.inr h1
  | done ks => intro k hk; exact has_put_mono true (h k hk)

theorem kmStepT_inv {g : KM} (hg : KMInv g) {pc : KMPC} (hp : KMPCInv g pc) :
    KMInv (kmStepT true g pc).1 ∧ KMPCInv (kmStepT true g pc).1 (kmStepT true g pc).2 := by
  cases pc with
  | start ks =>
    refine ⟨hg, ?_⟩
    intro k hk
    by_cases h : g.has k = true
    · exact Or.inl h
    · exact Or.inr (List.mem_filter.2 ⟨hk, by simp [h]⟩)
  | putting ks todo =>
    cases todo with
    | nil =>
      refine ⟨hg, ?_⟩
      intro k hk
      cases hp k hk with
      | inl h => exact h
      | inr h => cases h
    | cons k' t =>
      refine ⟨hg.put k', ?_⟩
      intro k hk
      cases hp k hk with
      | inl h => exact Or.inl (has_put_mono true h)
      | inr h =>
        cases h with
        | head => exact Or.inl (has_put_self _)
        | tail _ h => exact Or.inr h
  | done ks => exact ⟨hg, hp⟩

/-- what the other goroutines see of one step: the table only grows through `put true` or stays -/
theorem kmStepT_others {g : KM} {pc pc' : KMPC} (h : KMPCInv g pc') : KMPCInv (kmStepT true g pc).1 pc' := by
  cases pc with
  | start ks => exact h
  | putting ks todo =>
    cases todo with
    | nil => exact h
    | cons k' t => exact h.mono k'
  | done ks => exact h

theorem kmStep_inv {s : KMState} (hg : KMInv s.g) (hp : ∀ pc ∈ s.pcs, KMPCInv s.g pc) (i : Nat) :
    KMInv (kmStep true s i).g ∧ ∀ pc ∈ (kmStep true s i).pcs, KMPCInv (kmStep true s i).g pc := by
  unfold kmStep
  cases hi : s.pcs[i]? with
  | none => exact ⟨hg, hp⟩
  | some pc =>
    have hmem : pc ∈ s.pcs := List.mem_of_getElem? hi
    have h := kmStepT_inv hg (hp pc hmem)
    refine ⟨h.1, ?_⟩
    intro pc' hpc'
    rcases List.mem_or_eq_of_mem_set hpc' with h1 | h1
    · exact kmStepT_others (hp pc' h1)
    · rw [h1]; exact h.2

theorem kmRun_inv : ∀ (sched : List Nat) (s : KMState), KMInv s.g → (∀ pc ∈ s.pcs, KMPCInv s.g pc) →
    KMInv (kmRun true s sched).g ∧ ∀ pc ∈ (kmRun true s sched).pcs, KMPCInv (kmRun true s sched).g pc
  | [], s, hg, hp => ⟨hg, hp⟩
  | i :: t, s, hg, hp => by
    have h := kmStep_inv hg hp i
    exact kmRun_inv t (kmStep true s i) h.1 h.2

/-! ### AssertKinds returns its ids in the order of the kinds, independent of the mapper's history -/

theorem put_of_has {g : KM} {k : Nat} (h : g.has k = true) : g.put true k = g := by
  unfold KM.put; simp [h]

theorem idOf_put_stable {g : KM} {k : Nat} (h : g.has k = true) (k' : Nat) : (g.put true k').idOf k = g.idOf k := by
  unfold KM.put
  by_cases hk' : g.has k' = true
  · simp [hk']
  · have hne : ¬ (k' == k) = true := by
      intro e
      have : k' = k := by simpa using e
      subst this; exact hk' h
    simp only [hk', Bool.and_false, Bool.false_eq_true, if_false]
    unfold KM.idOf
    simp [List.find?_cons, hne]

theorem has_assertKinds_mono : ∀ (ks : List Nat) {g : KM} {k : Nat}, g.has k = true → (g.assertKinds ks).1.has k = true
  | [], _, _, h => h
  | k' :: t, g, k, h => by
    unfold KM.assertKinds
    exact has_assertKinds_mono t (has_put_mono true h)

theorem idOf_assertKinds_stable : ∀ (ks : List Nat) {g : KM} {k : Nat}, g.has k = true → (g.assertKinds ks).1.idOf k = g.idOf k
  | [], _, _, _ => rfl
  | k' :: t, g, k, h => by
    unfold KM.assertKinds
    rw [idOf_assertKinds_stable t (has_put_mono true h), idOf_put_stable h]

/-- the ids returned are the final table's ids of the kinds, in the order of the kinds -/
theorem assertKinds_ids : ∀ (ks : List Nat) (g : KM), (g.assertKinds ks).2 = ks.map (g.assertKinds ks).1.idOf
  | [], _ => rfl
  | k :: t, g => by
    unfold KM.assertKinds
    simp only [List.map_cons]
    rw [assertKinds_ids t (g.put true k), idOf_assertKinds_stable t (has_put_self k)]

theorem assertKinds_all_present : ∀ (ks : List Nat) (g : KM), ∀ k ∈ ks, (g.assertKinds ks).1.has k = true
  | [], _, _, h => nomatch h
  | k' :: t, g, k, h => by
    unfold KM.assertKinds
    cases h with
    | head => exact has_assertKinds_mono t (has_put_self _)
    | tail _ h => exact assertKinds_all_present t _ k h

theorem assertKinds_noop : ∀ (ks : List Nat) (g : KM), (∀ k ∈ ks, g.has k = true) → (g.assertKinds ks).1 = g
  | [], _, _ => rfl
  | k :: t, g, h => by
    unfold KM.assertKinds
    rw [put_of_has (h k (List.mem_cons_self ..))]
    exact assertKinds_noop t g (fun k' hk' => h k' (List.mem_cons_of_mem _ hk'))

/-! ### an id, once handed out, is the kind's id for the rest of every history -/

theorem kmStepT_stable {g : KM} {k : Nat} (h : g.has k = true) (pc : KMPC) :
    (kmStepT true g pc).1.has k = true ∧ (kmStepT true g pc).1.idOf k = g.idOf k := by
  cases pc with
  | start ks => exact ⟨h, rfl⟩
  | putting ks todo =>
    cases todo with
    | nil => exact ⟨h, rfl⟩
    | cons k' t => exact ⟨has_put_mono true h, idOf_put_stable h k'⟩
  | done ks => exact ⟨h, rfl⟩

theorem kmStep_stable {s : KMState} {k : Nat} (h : s.g.has k = true) (i : Nat) :
    (kmStep true s i).g.has k = true ∧ (kmStep true s i).g.idOf k = s.g.idOf k := by
  unfold kmStep
  cases s.pcs[i]? with
  | none => exact ⟨h, rfl⟩
  | some pc => exact kmStepT_stable h pc

theorem kmRun_stable : ∀ (sched : List Nat) (s : KMState) (k : Nat), s.g.has k = true →
    (kmRun true s sched).g.has k = true ∧ (kmRun true s sched).g.idOf k = s.g.idOf k
  | [], _, _, h => ⟨h, rfl⟩
  | i :: t, s, k, h => by
    have h1 := kmStep_stable h i
    have h2 := kmRun_stable t (kmStep true s i) k h1.1
    exact ⟨h2.1, h2.2.trans h1.2⟩

end Dawgs.C05
