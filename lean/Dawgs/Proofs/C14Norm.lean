/- Helper lemmas for C14: `Normalize` of the adjacency map and of the CSR digraph is an isomorphism. -/
import Dawgs.Proofs.C14Csr
set_option linter.unusedSimpArgs false
set_option linter.unusedVariables false
namespace Dawgs.C14

theorem idxIn_nil (x i : Nat) : idxIn [] x i = none := rfl
theorem idxIn_cons (y : Nat) (ys : List Nat) (x i : Nat) :
    idxIn (y :: ys) x i = if y = x then some i else idxIn ys x (i + 1) := rfl

theorem idxIn_of_get {l : List Nat} (h : l.Nodup) : ∀ {j x : Nat} (k : Nat), l[j]? = some x → idxIn l x k = some (k + j) := by
  induction l with
  | nil => intro j x k hj; simp at hj
  | cons y ys ih =>
    intro j x k hj
    rw [List.nodup_cons] at h
    rw [idxIn_cons]
    cases j with
    | zero => simp at hj; subst hj; simp
    | succ j =>
      simp at hj
      have hx : x ∈ ys := List.mem_of_getElem? hj
      have hne : ¬ y = x := by intro e; subst e; exact h.1 hx
      rw [if_neg hne, ih h.2 (k + 1) hj]
      congr 1; omega

theorem normIdx_of_get {l : List Nat} (h : l.Nodup) {j x : Nat} (hj : l[j]? = some x) : normIdx l x = j := by
  unfold normIdx; rw [idxIn_of_get h 0 hj]; simp

theorem normIdx_eq_iff {l : List Nat} (h : l.Nodup) {x : Nat} (hx : x ∈ l) (j : Nat) :
    normIdx l x = j ↔ l[j]? = some x := by
  obtain ⟨j', hj'⟩ := List.getElem?_of_mem hx
  rw [normIdx_of_get h hj']
  constructor
  · intro e; subst e; exact hj'
  · intro hj; exact nodup_getElem?_inj h hj' hj

theorem mem_foldl_sinsert_map (f : Nat → Nat) (s : List Nat) : ∀ (acc : List Nat) (j : Nat),
    j ∈ s.foldl (fun acc a => sinsert (f a) acc) acc ↔ j ∈ acc ∨ ∃ a ∈ s, f a = j := by
  induction s with
  | nil => intro acc j; simp
  | cons a s ih =>
    intro acc j
    rw [List.foldl_cons, ih, mem_sinsert]
    simp only [List.mem_cons]
    constructor
    · rintro ((h | h) | ⟨b, hb, h⟩)
      · exact Or.inr ⟨a, Or.inl rfl, h.symm⟩
      · exact Or.inl h
      · exact Or.inr ⟨b, Or.inr hb, h⟩
    · rintro (h | ⟨b, rfl | hb, h⟩)
      · exact Or.inl (Or.inr h)
      · exact Or.inl (Or.inl h.symm)
      · exact Or.inr ⟨b, hb, h⟩

theorem mget_map_normRow {order : List Nat} (hn : order.Nodup) {v : Nat} (hv : v ∈ order) : ∀ (m : NMap),
    (∀ k, (mlookup m k).isSome → k ∈ order) →
    mget (m.map (normRow order)) (normIdx order v) =
      (mget m v).foldl (fun acc a => sinsert (normIdx order a) acc) [] := by
  intro m
  induction m with
  | nil => intro _; rfl
  | cons p m ih =>
    intro hk
    obtain ⟨k, s⟩ := p
    have hkm : ∀ k', (mlookup m k').isSome → k' ∈ order := by
      intro k' h'
      apply hk k'
      rw [mlookup_cons]
      by_cases e : k = k'
      · simp [e]
      · simp [e, h']
    have hkin : k ∈ order := hk k (by rw [mlookup_cons]; simp)
    rw [List.map_cons]
    show mget ((normIdx order k, _) :: _) _ = _
    rw [mget_cons, mget_cons]
    by_cases e : k = v
    · subst e; simp
    · have : ¬ normIdx order k = normIdx order v := by
        intro heq
        obtain ⟨j, hj⟩ := List.getElem?_of_mem hv
        have h1 := normIdx_of_get hn hj
        rw [h1] at heq
        have := (normIdx_eq_iff hn hkin j).mp heq
        rw [hj] at this; cases this; exact e rfl
      rw [if_neg this, if_neg e, ih hkm]

/-- adjacency map: `j` is a neighbour of normal node `i` iff `rev[j]` is a neighbour of `rev[i]` -/
theorem AdjMap.normalize_spec {a : AdjMap} {g : G} (r : a.Rel g) (hc : g.Closed) {i v : Nat}
    (hi : a.normalize.1[i]? = some v) (d : Dir) (j : Nat) :
    j ∈ a.normalize.2.adjacent i d ↔ ∃ w, a.normalize.1[j]? = some w ∧ w ∈ g.adj v d := by
  have hn : a.nodes.Nodup := Asc.nodup r.asc
  have hrev : a.normalize.1 = a.nodes := rfl
  rw [hrev] at hi ⊢
  have hv : v ∈ a.nodes := List.mem_of_getElem? hi
  have hidx : normIdx a.nodes v = i := normIdx_of_get hn hi
  have side : ∀ (m : NMap) (P : Nat → Nat → Prop), (∀ k, (mlookup m k).isSome → k ∈ a.nodes) →
      (∀ x y, y ∈ mget m x ↔ P x y) → (∀ x y, P x y → y ∈ g.nodes) →
      (j ∈ mget (m.map (normRow a.nodes)) i ↔ ∃ w, a.nodes[j]? = some w ∧ P v w) := by
    intro m P hk hP hPn
    rw [← hidx, mget_map_normRow hn hv m hk, mem_foldl_sinsert_map]
    simp only [List.not_mem_nil, false_or]
    constructor
    · rintro ⟨w, hw, hj⟩
      have hwn : w ∈ a.nodes := (r.nodes w).mpr (hPn v w ((hP v w).mp hw))
      exact ⟨w, (normIdx_eq_iff hn hwn j).mp hj, (hP v w).mp hw⟩
    · rintro ⟨w, hj, hp⟩
      exact ⟨w, (hP v w).mpr hp, normIdx_of_get hn hj⟩
  have hout := side a.outbound (fun x y => HasEdge g.edges x y) r.keysOut r.out (fun x y h => (hc x y h).2)
  have hin := side a.inbound (fun x y => HasEdge g.edges y x) r.keysIn r.inn (fun x y h => (hc y x h).1)
  rw [AdjMap.mem_adjacent]
  show (match d with
    | .out => j ∈ mget (a.outbound.map (normRow a.nodes)) i
    | .inn => j ∈ mget (a.inbound.map (normRow a.nodes)) i
    | .both => j ∈ mget (a.outbound.map (normRow a.nodes)) i ∨ j ∈ mget (a.inbound.map (normRow a.nodes)) i) ↔ _
  cases d with
  | out => simp only [hout, mem_adj, AdjRel]
  | inn => simp only [hin, mem_adj, AdjRel]
  | both =>
    simp only [hout, hin, mem_adj, AdjRel]
    constructor
    · rintro (⟨w, h1, h2⟩ | ⟨w, h1, h2⟩)
      · exact ⟨w, h1, Or.inl h2⟩
      · exact ⟨w, h1, Or.inr h2⟩
    · rintro ⟨w, h1, h2 | h2⟩
      · exact Or.inl ⟨w, h1, h2⟩
      · exact Or.inr ⟨w, h1, h2⟩

/-! ### CSR -/

theorem ilookup_identity (n x : Nat) :
    ilookup ((List.range n).map (fun i => (i, i))) x = if x < n then some x else none := by
  induction n with
  | zero => simp [ilookup_nil]
  | succ n ih =>
    rw [List.range_succ, List.map_append, List.map_cons, List.map_nil, ilookup_append, ih]
    by_cases h : x < n
    · have : x < n + 1 := by omega
      simp [h, this]
    · by_cases h' : n = x
      · subst h'; simp
      · have : ¬ x < n + 1 := by omega
        simp [h, h', this]

theorem csrSlice_map (offs adj : List Nat) (f : Nat → Nat) (i : Nat) :
    csrSlice offs (adj.map f) i = (csrSlice offs adj i).map f := by
  unfold csrSlice
  simp only [List.map_take, List.map_drop]

theorem Csr.slice_mem {b : CsrB} {g : G} (r : b.Rel g) (tmp : NMap) (P : Nat → Nat → Prop)
    (htmp : ∀ i j, j ∈ mget tmp i ↔ ∃ s t, b.denseToId[i]? = some s ∧ b.denseToId[j]? = some t ∧ P s t)
    (hP : ∀ s t, P s t → s ∈ g.nodes ∧ t ∈ g.nodes) {i v : Nat} (hi : b.denseToId[i]? = some v) (y : Nat) :
    y ∈ csrSlice (buildSide b.denseToId tmp).1 (buildSide b.denseToId tmp).2 i ↔ P v y := by
  have := Csr.mem_adjacent_side r tmp v y P htmp hP
  rw [(r.idx v i).mpr hi] at this
  exact this

/-- CSR: `j` is a neighbour of normal node `i` iff `rev[j]` is a neighbour of `rev[i]` -/
theorem Csr.normalize_spec {b : CsrB} {g : G} (r : b.Rel g) {i v : Nat}
    (hi : b.build.normalize.1[i]? = some v) (d : Dir) (j : Nat) :
    j ∈ b.build.normalize.2.adjacent i d ↔ ∃ w, b.build.normalize.1[j]? = some w ∧ w ∈ g.adj v d := by
  have hrev : b.build.normalize.1 = b.denseToId := rfl
  rw [hrev] at hi ⊢
  have hlt : i < b.denseToId.length := by
    rcases Nat.lt_or_ge i b.denseToId.length with h | h
    · exact h
    · rw [List.getElem?_eq_none h] at hi; cases hi
  have hout := fun y => Csr.slice_mem r b.outTmp (fun s t => HasEdge g.edges s t) r.out (fun s t h => r.closed s t h) hi y
  have hin := fun y => Csr.slice_mem r b.inTmp (fun s t => HasEdge g.edges t s) r.inn
    (fun s t h => ⟨(r.closed t s h).2, (r.closed t s h).1⟩) hi y
  have hcsr : ∀ w, w ∈ g.nodes → (csrIdx b.idToDense w = j ↔ b.denseToId[j]? = some w) := by
    intro w hw
    obtain ⟨j', hj'⟩ := List.getElem?_of_mem ((r.nodes w).mpr hw)
    have hl := (r.idx w j').mpr hj'
    unfold csrIdx; rw [hl]
    simp only [Option.getD_some]
    constructor
    · intro e; subst e; exact hj'
    · intro hj; exact nodup_getElem?_inj r.nodup hj' hj
  have side : ∀ (offs adj : List Nat) (P : Nat → Nat → Prop), (∀ y, y ∈ csrSlice offs adj i ↔ P v y) →
      (∀ y, P v y → y ∈ g.nodes) →
      (j ∈ csrSlice offs (adj.map (csrIdx b.idToDense)) i ↔ ∃ w, b.denseToId[j]? = some w ∧ P v w) := by
    intro offs adj P hs hPn
    rw [csrSlice_map, List.mem_map]
    constructor
    · rintro ⟨w, hw, hj⟩
      have hp := (hs w).mp hw
      exact ⟨w, (hcsr w (hPn w hp)).mp hj, hp⟩
    · rintro ⟨w, hj, hp⟩
      exact ⟨w, (hs w).mpr hp, (hcsr w (hPn w hp)).mpr hj⟩
  have so := side _ _ (fun s t => HasEdge g.edges s t) hout (fun y h => (r.closed v y h).2)
  have si := side _ _ (fun s t => HasEdge g.edges t s) hin (fun y h => (r.closed y v h).1)
  unfold Csr.adjacent Csr.normalize CsrB.build
  simp only
  rw [ilookup_identity, if_pos hlt]
  simp only
  cases d with
  | out => simp only [mem_adj, AdjRel]; exact so
  | inn => simp only [mem_adj, AdjRel]; exact si
  | both =>
    simp only [mem_adj, AdjRel, List.mem_append]
    rw [so, si]
    constructor
    · rintro (⟨w, h1, h2⟩ | ⟨w, h1, h2⟩)
      · exact ⟨w, h1, Or.inl h2⟩
      · exact ⟨w, h1, Or.inr h2⟩
    · rintro ⟨w, h1, h2 | h2⟩
      · exact Or.inl ⟨w, h1, h2⟩
      · exact Or.inr ⟨w, h1, h2⟩

end Dawgs.C14
