import Dawgs.Model.C01With
import Dawgs.Proofs.C01Limit
import Dawgs.Proofs.C01ChainSound
/-
C01 / S3a — MATCH (n) [WHERE p] WITH plain items RETURN plain items: the nested statement
`with s0 as (with s1 as (<node frame>) select <WITH items> from s1) select <RETURN items> from s0`
returns, in the same order, the rows of the stage-S1 query `MATCH (n) [WHERE p] RETURN <the S1 items the RETURN items stand for>`.
-/
namespace Dawgs.C01.Proofs
open Dawgs Dawgs.Sql

-- ------------------------------------------------------------------ lists with distinct names

theorem colVals_idx (al : String) : ∀ (names : List String) (vals : List Val), names.Nodup → names.length = vals.length →
    ∀ (i : Nat) (c : String) (v : Val), names[i]? = some c → vals[i]? = some v → colVals ⟨al, names, vals⟩ c = [v]
  | [], _, _, _, i, c, v, hc, _ => by simp at hc
  | n :: names, [], _, hl, _, _, _, _, _ => by simp at hl
  | n :: names, x :: vals, hnd, hl, i, c, v, hc, hv => by
    rw [List.nodup_cons] at hnd
    have hl' : names.length = vals.length := by simpa using hl
    cases i with
    | zero =>
      simp only [List.getElem?_cons_zero, Option.some.injEq] at hc hv
      subst hc hv
      have hrest : ((names.zip vals).filterMap (fun p => if p.1 == n then some p.2 else none)) = [] := by
        rw [List.filterMap_eq_nil_iff]
        intro p hp
        have : p.1 ∈ names := (List.of_mem_zip hp).1
        have hne : (p.1 == n) = false := by
          cases h : p.1 == n with
          | false => rfl
          | true => exact absurd (by rw [← eq_of_beq h]; exact this) hnd.1
        simp [hne]
      simp only [colVals, List.zip_cons_cons, List.filterMap_cons, beq_self_eq_true, if_true]
      rw [hrest]
    | succ j =>
      simp only [List.getElem?_cons_succ] at hc hv
      have hmem : c ∈ names := List.mem_of_getElem? hc
      have hne : (n == c) = false := by
        cases h : n == c with
        | false => rfl
        | true => exact absurd (by rw [eq_of_beq h]; exact hmem) hnd.1
      have ih := colVals_idx al names vals hnd.2 hl' j c v hc hv
      simp only [colVals] at ih ⊢
      simp only [List.zip_cons_cons, List.filterMap_cons, hne, Bool.false_eq_true, if_false]
      exact ih

/-- a qualified column of a one-binding level whose column names are distinct -/
theorem eval_colIdx (E : EEnv) (al : String) (names : List String) (vals : List Val) (hnd : names.Nodup) (hl : names.length = vals.length)
    (i : Nat) (c : String) (v : Val) (hc : names[i]? = some c) (hv : vals[i]? = some v) :
    evalExpr (E.push [(⟨al, names, vals⟩ : Binding)]) (S2.col al c) = .ok v := by
  rw [eval_col]
  simp only [EEnv.push, lookupQualifiedV, findBinding, beq_self_eq_true, if_true, colVals_idx al names vals hnd hl i c v hc hv]

theorem lookup_zip_idx {β : Type} : ∀ (names : List String) (vals : List β) (rest : List (String × β)), names.Nodup →
    ∀ (i : Nat) (c : String) (v : β), names[i]? = some c → vals[i]? = some v → ((names.zip vals) ++ rest).lookup c = some v
  | [], _, _, _, i, c, v, hc, _ => by simp at hc
  | n :: names, [], _, _, i, c, v, _, hv => by simp at hv
  | n :: names, x :: vals, rest, hnd, i, c, v, hc, hv => by
    rw [List.nodup_cons] at hnd
    cases i with
    | zero =>
      simp only [List.getElem?_cons_zero, Option.some.injEq] at hc hv
      subst hc hv
      simp [List.lookup]
    | succ j =>
      simp only [List.getElem?_cons_succ] at hc hv
      have hmem : c ∈ names := List.mem_of_getElem? hc
      have hne : (c == n) = false := by
        cases h : c == n with
        | false => rfl
        | true => exact absurd (by rw [← eq_of_beq h]; exact hmem) hnd.1
      simp only [List.zip_cons_cons, List.cons_append, List.lookup, hne]
      exact lookup_zip_idx names vals rest hnd.2 j c v hc hv

-- ------------------------------------------------------------------ the naming scheme

theorem wcolsFrom_length (v : String) : ∀ (ws : List S3.WItem) (nn ni : Nat), (S3.wcolsFrom v nn ni ws).length = ws.length
  | [], _, _ => rfl
  | .node a :: ws, nn, ni => by
    unfold S3.wcolsFrom
    split
    · rw [List.length_cons, List.length_cons, wcolsFrom_length v ws nn ni]
    · rw [List.length_cons, List.length_cons, wcolsFrom_length v ws (nn + 1) ni]
  | .prop k a :: ws, nn, ni => by
    unfold S3.wcolsFrom
    rw [List.length_cons, List.length_cons, wcolsFrom_length v ws nn (ni + 1)]

theorem wcols_length (q : S3.Query) : q.wcols.length = q.witems.length := wcolsFrom_length q.var q.witems 1 0

-- ------------------------------------------------------------------ SQL values

/-- the SQL value a WITH item exports for node `n` -/
def wval (km : KindMap) (n : NodeRec) : S3.WItem → Val
  | .node _ => nodeVal km n
  | .prop k _ => propVal n.props k

/-- the stage-S1 RETURN item a RETURN item of the stage stands for: entity operations on a node name are the same operations on the matched
variable, a value name `x` exported as `n.k AS x` is `n.k` -/
def asS1 (q : S3.Query) : S3.RItem → S1.Item
  | .node _ a => .node a
  | .prop _ k a => .prop k a
  | .id _ a => .id a
  | .val i a => match q.witems[i]? with
    | some (.prop k _) => .prop k a
    | _ => .node a

/-- the S1 query with the same rows -/
def s1Of (q : S3.Query) : S1.Query := ⟨q.var, q.kinds, q.wh, q.ritems.map (asS1 q), none⟩

theorem itemVal_prop (km : KindMap) (n : NodeRec) (k : String) (a : Option String) : itemVal km n (.prop k a) = propVal n.props k := rfl

theorem wcol_get (q : S3.Query) (i : Nat) (hi : i < q.witems.length) : q.wcols[i]? = some (S3.wcol q i) := by
  have : i < q.wcols.length := by rw [wcols_length]; exact hi
  simp [S3.wcol, List.getElem?_eq_getElem this]

/-- a column of the hand-over frame shows the value its WITH item exports -/
theorem eval_wcol (km : KindMap) (n : NodeRec) (q : S3.Query) (hnd : q.wcols.Nodup) (E : EEnv) (i : Nat) (w : S3.WItem) (hw : q.witems[i]? = some w) :
    evalExpr (E.push [(⟨"s0", q.wcols, q.witems.map (wval km n)⟩ : Binding)]) (S2.col "s0" (S3.wcol q i)) = .ok (wval km n w) := by
  have hi : i < q.witems.length := by
    cases h : decide (i < q.witems.length) with
    | true => exact of_decide_eq_true h
    | false =>
      have : q.witems.length ≤ i := by have := of_decide_eq_false h; omega
      rw [List.getElem?_eq_none this] at hw; cases hw
  exact eval_colIdx E "s0" q.wcols _ hnd (by rw [wcols_length, List.length_map]) i _ _ (wcol_get q i hi) (by rw [List.getElem?_map, hw]; rfl)

theorem fits_node (ws : List S3.WItem) (i : Nat) (h : ((ws[i]?).any (fun w => w.isNode)) = true) : ∃ a, ws[i]? = some (.node a) := by
  cases hw : ws[i]? with
  | none => rw [hw] at h; cases h
  | some w =>
    rw [hw] at h
    cases w with
    | node a => exact ⟨a, rfl⟩
    | prop k a => simp [S3.WItem.isNode] at h

theorem fits_val (ws : List S3.WItem) (i : Nat) (h : ((ws[i]?).any (fun w => !w.isNode)) = true) : ∃ k a, ws[i]? = some (.prop k a) := by
  cases hw : ws[i]? with
  | none => rw [hw] at h; cases h
  | some w =>
    rw [hw] at h
    cases w with
    | node a => simp [S3.WItem.isNode] at h
    | prop k a => exact ⟨k, a, rfl⟩

/-- a RETURN item over the hand-over frame evaluates to the value of the S1 item it stands for -/
theorem eval_ritem (km : KindMap) (n : NodeRec) (q : S3.Query) (hnd : q.wcols.Nodup) (E : EEnv) (r : S3.RItem) (hfit : r.fits q.witems = true) :
    evalExpr (E.push [(⟨"s0", q.wcols, q.witems.map (wval km n)⟩ : Binding)]) (r.tr q) = .ok (itemVal km n (asS1 q r)) := by
  have hnode : ∀ i, ((q.witems[i]?).any (fun w => w.isNode)) = true →
      evalExpr (E.push [(⟨"s0", q.wcols, q.witems.map (wval km n)⟩ : Binding)]) (S2.col "s0" (S3.wcol q i)) = .ok (nodeVal km n) := by
    intro i h
    obtain ⟨a, ha⟩ := fits_node q.witems i h
    exact eval_wcol km n q hnd E i _ ha
  have harrow : ∀ i k, ((q.witems[i]?).any (fun w => w.isNode)) = true →
      evalExpr (E.push [(⟨"s0", q.wcols, q.witems.map (wval km n)⟩ : Binding)])
        (.bin "->" (.rowCol (S2.col "s0" (S3.wcol q i)) "properties") (S1.strLit k)) = .ok (propVal n.props k) := by
    intro i k h
    have hpr := (refE_fields _ km _ (.n n) (hnode i h)).2
    rw [eval_bin _ _ _ _ (by decide) (strLit_not_any k).1 (strLit_not_any k).2]
    simp only [hpr, eval_strLit, ebind_ok]
    unfold binOp
    simp only [arrowOp, jsonGet, propVal, RefE.props]
    rfl
  cases r with
  | node i a =>
    simp only [S3.RItem.fits, S3.RItem.idx] at hfit
    simp only [S3.RItem.tr, asS1]
    rw [evalExpr, hnode i hfit]; rfl
  | val i a =>
    simp only [S3.RItem.fits] at hfit
    obtain ⟨k, a', hw⟩ := fits_val q.witems i hfit
    simp only [S3.RItem.tr, asS1, hw]
    rw [evalExpr, eval_wcol km n q hnd E i _ hw]; rfl
  | prop i k a =>
    simp only [S3.RItem.fits, S3.RItem.idx] at hfit
    cases a with
    | none => simp only [S3.RItem.tr, asS1]; rw [harrow i k hfit]; rfl
    | some al => simp only [S3.RItem.tr, asS1]; rw [evalExpr, harrow i k hfit]; rfl
  | id i a =>
    simp only [S3.RItem.fits, S3.RItem.idx] at hfit
    have hid := (refE_fields _ km _ (.n n) (hnode i hfit)).1
    cases a with
    | none => simp only [S3.RItem.tr, asS1]; rw [hid]; rfl
    | some al => simp only [S3.RItem.tr, asS1]; rw [evalExpr, hid]; rfl

theorem ritem_not_wildcard (q : S3.Query) (r : S3.RItem) : r.tr q ≠ .wildcard := by
  cases r with
  | node i a => intro hh; cases hh
  | val i a => intro hh; cases hh
  | prop i k a => cases a <;> (intro hh; cases hh)
  | id i a => cases a <;> (intro hh; cases hh)

theorem evalProj_ritems (km : KindMap) (n : NodeRec) (q : S3.Query) (hnd : q.wcols.Nodup) (E : EEnv) (lvl : Level) : ∀ (rs : List S3.RItem),
    (∀ r ∈ rs, r.fits q.witems = true) →
    evalProj (E.push [(⟨"s0", q.wcols, q.witems.map (wval km n)⟩ : Binding)]) lvl (rs.map (S3.RItem.tr q)) = .ok ((rs.map (asS1 q)).map (itemVal km n))
  | [], _ => by rw [List.map_nil, evalProj]; rfl
  | r :: rs, h => by
    rw [List.map_cons, evalProj]
    · rw [eval_ritem km n q hnd E r (h r (List.mem_cons_self ..)), evalProj_ritems km n q hnd E lvl rs (fun x hx => h x (List.mem_cons_of_mem _ hx))]; rfl
    · intro hh; exact ritem_not_wildcard q r hh

theorem hasAggL_ritems (q : S3.Query) : ∀ (rs : List S3.RItem), hasAggL (rs.map (S3.RItem.tr q)) = false
  | [] => by simp [hasAggL]
  | r :: rs => by
    rw [List.map_cons, hasAggL, hasAggL_ritems q rs]
    cases r with
    | node i a => simp [S3.RItem.tr, S2.col, hasAgg]
    | val i a => simp [S3.RItem.tr, S2.col, hasAgg]
    | prop i k a => cases a <;> simp [S3.RItem.tr, S2.col, S1.strLit, hasAgg]
    | id i a => cases a <;> simp [S3.RItem.tr, S2.col, hasAgg]

/-- the WITH items over a row of the node frame `s1` -/
theorem evalProj_witems (km : KindMap) (n : NodeRec) (E : EEnv) (lvl : Level) : ∀ (ws : List S3.WItem) (cs : List String), ws.length = cs.length →
    evalProj (E.push [(⟨"s1", ["n0"], [nodeVal km n]⟩ : Binding)]) lvl (S3.witemsTr ws cs) = .ok (ws.map (wval km n))
  | [], [], _ => by
    show evalProj _ lvl [] = _
    rw [evalProj]; rfl
  | [], _ :: _, h => by simp at h
  | _ :: _, [], h => by simp at h
  | w :: ws, c :: cs, h => by
    have hn0 : evalExpr (E.push [(⟨"s1", ["n0"], [nodeVal km n]⟩ : Binding)]) (S2.col "s1" "n0") = .ok (nodeVal km n) := by
      rw [eval_col]; simp [EEnv.push, lookupQualifiedV, findBinding, colVals]
    have ih := evalProj_witems km n E lvl ws cs (by simpa using h)
    rw [S3.witemsTr, evalProj]
    · cases w with
      | node a =>
        simp only [S3.WItem.tr]
        rw [evalExpr, hn0, ih]; rfl
      | prop k a =>
        simp only [S3.WItem.tr]
        have hpr := (refE_fields _ km _ (.n n) hn0).2
        have : evalExpr (E.push [(⟨"s1", ["n0"], [nodeVal km n]⟩ : Binding)])
            (.bin "->" (.rowCol (S2.col "s1" "n0") "properties") (S1.strLit k)) = .ok (propVal n.props k) := by
          rw [eval_bin _ _ _ _ (by decide) (strLit_not_any k).1 (strLit_not_any k).2]
          simp only [hpr, eval_strLit, ebind_ok]
          unfold binOp
          simp only [arrowOp, jsonGet, propVal, RefE.props]
          rfl
        rw [evalExpr, this, ih]; rfl
    · cases w <;> (intro hh; cases hh)

theorem hasAggL_witems : ∀ (ws : List S3.WItem) (cs : List String), hasAggL (S3.witemsTr ws cs) = false
  | [], _ => by simp [S3.witemsTr, hasAggL]
  | _ :: _, [] => by simp [S3.witemsTr, hasAggL]
  | w :: ws, c :: cs => by
    rw [S3.witemsTr, hasAggL, hasAggL_witems ws cs]
    cases w <;> simp [S3.WItem.tr, S2.col, S1.strLit, hasAgg]

-- ------------------------------------------------------------------ the nested statement

/-- a query with one frame `name` and neither ORDER BY nor OFFSET / LIMIT, evaluated where no frame is visible yet -/
theorem evalQuery_cte1 (db : Db) (name : String) (frameQ : Query) (body : SetExpr) :
    evalQuery (E0 db) (.mk false [.mk name none none frameQ] body [] none none) = (do
      let t ← evalQuery (E0 db) frameQ
      let r ← evalSetExpr ⟨db, [], [(name, t)], [], none⟩ body
      pure (⟨r.1, r.2.map (·.1)⟩ : Table)) := by
  rw [evalQuery, evalCtes]
  · simp only [evalCtes, ebind_ok, epure_ok, bind_assoc, evalOrderKeys, evalOpt, E0]
    congr 1
    funext t
    congr 1
    funext r
    rw [mapE_pure (fun row => (([] : List (Val × Bool)), row)) r.2]
    simp only [ebind_ok, orderRows_nokeys, cutRows_none, epure_ok]
  · intro _ _ _ _ _ hh _; cases hh

theorem projNames_witems (lv : List Level) : ∀ (ws : List S3.WItem) (cs : List String), ws.length = cs.length → projNames (S3.witemsTr ws cs) lv = cs
  | [], [], _ => rfl
  | [], _ :: _, h => by simp at h
  | _ :: _, [], h => by simp at h
  | w :: ws, c :: cs, h => by
    have ih := projNames_witems lv ws cs (by simpa using h)
    unfold projNames at ih ⊢
    rw [S3.witemsTr, List.flatMap_cons, ih]
    cases w <;> rfl

/-- SQL SIDE of S3a: the statement's rows are the rows of the S1 query `s1Of q`, in node order -/
theorem sql_side3 (km : KindMap) (g : Graph) (hok : GraphOK km g) (q : S3.Query) (st : Stmt) (h : q.tr km = some st) :
    ∃ names, BenignT (Sql.eval (encode km g) st [])
      (⟨names, (g.nodes.filter (keepS (s1Of q))).map (fun n => (s1Of q).items.map (itemVal km n))⟩ : Table) := by
  unfold S3.Query.tr at h
  cases hwf : q.wf with
  | false => simp [hwf] at h
  | true =>
  simp only [hwf, Bool.not_true, Bool.false_eq_true, if_false] at h
  have hwf' := hwf
  unfold S3.Query.wf at hwf'
  simp only [Bool.and_eq_true, decide_eq_true_eq, List.all_eq_true] at hwf'
  obtain ⟨⟨⟨⟨⟨_, _⟩, _⟩, hndc⟩, _⟩, hfits⟩ := hwf'
  cases hw : S1.whereOf km q.base with
  | none => simp [hw] at h
  | some w =>
  simp only [hw, Option.some.injEq] at h
  subst h
  have hW : WOK km g (E0 (encode km g)) w (semW q.base) := whereOf_ok km g hok q.base w _ hw
  have hkeep : (fun n => keepW n (semW q.base)) = keepS (s1Of q) := by
    funext n
    rw [keepW_semW]
    rfl
  have hf1 := frame_eval km g w (semW q.base) hW
  rw [hkeep] at hf1
  generalize hns : g.nodes.filter (keepS (s1Of q)) = ns at hf1 ⊢
  -- the hand-over frame
  have hmid : BenignT (evalQuery (E0 (encode km g)) (.mk false
        [.mk "s1" none none (Sql.Query.simple (.select false [S1.nodeComposite] [.mk (.table ["node"] (some "n0")) []] w [] none))]
        (.select false (S3.witemsTr q.witems q.wcols) [.mk (.table ["s1"] none) []] none [] none) [] none none))
      (⟨projNames (S3.witemsTr q.witems q.wcols) (ns.map (fun n => [(⟨"s1", ["n0"], [nodeVal km n]⟩ : Binding)])),
        ns.map (fun n => q.witems.map (wval km n))⟩ : Table) := by
    rw [evalQuery_cte1]
    apply benT_bind hf1
    left
    have hl : lookupTableE (⟨encode km g, [], [("s1", (⟨["n0"], ns.map (fun n => [nodeVal km n])⟩ : Table))], [], none⟩ : EEnv) "s1" =
        .ok ⟨["n0"], ns.map (fun n => [nodeVal km n])⟩ := by simp [lookupTableE]
    rw [evalSelect_single _ _ _ _ _ _ hl (hasAggL_witems q.witems q.wcols)]
    have hrows : ((⟨["n0"], ns.map (fun n => [nodeVal km n])⟩ : Table).rows.map
        (fun r => [(⟨(none : Option String).getD "s1", (⟨["n0"], ns.map (fun n => [nodeVal km n])⟩ : Table).cols, r⟩ : Binding)])) =
        ns.map (fun n => [(⟨"s1", ["n0"], [nodeVal km n]⟩ : Binding)]) := by
      simp [List.map_map, Function.comp_def]
    rw [hrows, whTest_none, filterE_true]
    simp only [ebind_ok]
    rw [mapE_map_ok (fun n => [(⟨"s1", ["n0"], [nodeVal km n]⟩ : Binding)]) _
      (fun n => (q.witems.map (wval km n), some ((⟨encode km g, [], [("s1", (⟨["n0"], ns.map (fun n => [nodeVal km n])⟩ : Table))], [], none⟩ : EEnv).push
        [(⟨"s1", ["n0"], [nodeVal km n]⟩ : Binding)])))]
    · simp only [ebind_ok, epure_ok, List.map_map, Function.comp_def]
    · intro n _
      rw [evalProj_witems km n _ _ q.witems q.wcols (wcols_length q).symm]; rfl
  rw [projNames_witems _ q.witems q.wcols (wcols_length q).symm] at hmid
  -- the final select over the hand-over frame
  have hE0 : (⟨encode km g, [], [], [], none⟩ : EEnv) = E0 (encode km g) := rfl
  refine ⟨projNames (q.ritems.map (S3.RItem.tr q)) (ns.map (fun n => [(⟨"s0", q.wcols, q.witems.map (wval km n)⟩ : Binding)])), ?_⟩
  have hstmt := eval_cteStmt_lim (encode km g) (.mk false
        [.mk "s1" none none (Sql.Query.simple (.select false [S1.nodeComposite] [.mk (.table ["node"] (some "n0")) []] w [] none))]
        (.select false (S3.witemsTr q.witems q.wcols) [.mk (.table ["s1"] none) []] none [] none) [] none none)
      (.select false (q.ritems.map (S3.RItem.tr q)) [.mk (.table ["s0"] none) []] none [] none) none
  simp only [Option.map_none] at hstmt
  rw [hstmt]
  apply benT_bind hmid
  left
  have hl : lookupTableE (E1 (encode km g) (⟨q.wcols, ns.map (fun n => q.witems.map (wval km n))⟩ : Table)) "s0" =
      .ok ⟨q.wcols, ns.map (fun n => q.witems.map (wval km n))⟩ := by simp [lookupTableE, E1]
  rw [evalSelect_single _ _ _ _ _ _ hl (hasAggL_ritems q q.ritems)]
  have hrows : ((⟨q.wcols, ns.map (fun n => q.witems.map (wval km n))⟩ : Table).rows.map
      (fun r => [(⟨(none : Option String).getD "s0", (⟨q.wcols, ns.map (fun n => q.witems.map (wval km n))⟩ : Table).cols, r⟩ : Binding)])) =
      ns.map (fun n => [(⟨"s0", q.wcols, q.witems.map (wval km n)⟩ : Binding)]) := by
    simp [List.map_map, Function.comp_def]
  rw [hrows, whTest_none, filterE_true]
  simp only [ebind_ok]
  rw [mapE_map_ok (fun n => [(⟨"s0", q.wcols, q.witems.map (wval km n)⟩ : Binding)]) _
    (fun n => ((s1Of q).items.map (itemVal km n), some ((E1 (encode km g) (⟨q.wcols, ns.map (fun n => q.witems.map (wval km n))⟩ : Table)).push
      [(⟨"s0", q.wcols, q.witems.map (wval km n)⟩ : Binding)])))]
  · simp only [ebind_ok, epure_ok, cutN, List.map_map, Function.comp_def]
  · intro n _
    rw [evalProj_ritems km n q hndc _ _ q.ritems hfits]; rfl

-- ------------------------------------------------------------------ Cypher side

section Cy
open Dawgs.Cy

/-- a projection without aggregation, DISTINCT, ORDER BY, SKIP, LIMIT: one row per input row; the NEXT part sees the exported names only -/
theorem evalProjection_plain (g : Graph) (items : List ProjItem) (envs : List Env) (rows : List (List CVal × Env))
    (hagg : items.any (fun it => hasAggregate it.e) = false)
    (hrows : plainRows .none g (Cy.projNames items) items envs = .ok rows) :
    evalProjection .none g envs (S3.plainProj items) =
      .ok (Cy.projNames items, rows.map (fun r => (r.1, (Cy.projNames items).zip r.1, ([] : List CVal)))) := by
  unfold evalProjection
  simp only [S3.plainProj, Bool.false_eq_true, if_false, hagg, hrows, ebind_ok, Bool.or_self, keyRows_none, intOf, cutKeyed, epure_ok,
    List.map_map, Function.comp_def, List.map_nil]

theorem projNames_indep (items : List ProjItem) (h : ∀ it ∈ items, ∀ i, itemName it i = itemName it 0) :
    Cy.projNames items = items.map (fun it => itemName it 0) := by
  unfold Cy.projNames
  have h1 : ((List.range items.length).zip items).map (fun x => itemName x.2 x.1) = ((List.range items.length).zip items).map (fun x => itemName x.2 0) := by
    apply List.map_congr_left
    intro x hx
    exact h x.2 (List.of_mem_zip hx).2 x.1
  rw [h1]
  have h2 : ((List.range items.length).zip items).map (fun x => itemName x.2 0) = (((List.range items.length).zip items).map Prod.snd).map (fun it => itemName it 0) := by
    rw [List.map_map]; rfl
  rw [h2, List.map_snd_zip]
  simp

theorem wnames_cy (q : S3.Query) : Cy.projNames (q.witems.map (S3.WItem.toCy q.var)) = q.wnames := by
  rw [projNames_indep]
  · unfold S3.Query.wnames
    rw [List.map_map]
    apply List.map_congr_left
    intro w _
    cases w with
    | node a => cases a <;> rfl
    | prop k a => rfl
  · intro it hit i
    obtain ⟨w, _, rfl⟩ := List.mem_map.mp hit
    cases w with
    | node a => cases a <;> rfl
    | prop k a => rfl

/-- the Cypher value a WITH item exports for node `n` -/
def wvalC (n : NodeRec) : S3.WItem → CVal
  | .node _ => .node n.id
  | .prop k _ => propC n k

theorem eval_witemC (g : Graph) (n : NodeRec) (v : String) (hnode : g.node? n.id = some n) (w : S3.WItem) :
    Cy.evalExpr .none g [(v, CVal.node n.id)] false (w.toCy v).e = .ok (wvalC n w) := by
  have henv : ([(v, CVal.node n.id)] : Env).lookup v = some (.node n.id) := by simp [List.lookup]
  cases w with
  | node a => exact eval_itemC g n v _ hnode henv (.node a)
  | prop k a => exact eval_itemC g n v _ hnode henv (.prop k (some a))

theorem hasAggregate_witem (v : String) (w : S3.WItem) : hasAggregate (w.toCy v).e = false := by
  cases w <;> simp [S3.WItem.toCy, hasAggregate, hasAggregateL, isAggregate]

theorem anyAgg_witems (v : String) : ∀ (ws : List S3.WItem), (ws.map (S3.WItem.toCy v)).any (fun it => hasAggregate it.e) = false
  | [] => rfl
  | w :: ws => by rw [List.map_cons, List.any_cons, hasAggregate_witem, anyAgg_witems v ws]; rfl

theorem hasAggregate_ritem (q : S3.Query) (r : S3.RItem) : hasAggregate (r.toCy q).e = false := by
  cases r <;> simp [S3.RItem.toCy, hasAggregate, hasAggregateL, isAggregate]

theorem anyAgg_ritems (q : S3.Query) : ∀ (rs : List S3.RItem), (rs.map (S3.RItem.toCy q)).any (fun it => hasAggregate it.e) = false
  | [] => rfl
  | r :: rs => by rw [List.map_cons, List.any_cons, hasAggregate_ritem, anyAgg_ritems q rs]; rfl

theorem wname_get (q : S3.Query) (i : Nat) (w : S3.WItem) (hw : q.witems[i]? = some w) : q.wnames[i]? = some (q.wname i) := by
  have : q.wnames[i]? = some (w.name q.var) := by unfold S3.Query.wnames; rw [List.getElem?_map, hw]; rfl
  simp [S3.Query.wname, this]

/-- a RETURN item evaluates, on the bindings the WITH exports, to the value of the S1 item it stands for -/
theorem eval_ritemC (g : Graph) (n : NodeRec) (q : S3.Query) (hndn : q.wnames.Nodup) (hnode : g.node? n.id = some n) (r : S3.RItem)
    (hfit : r.fits q.witems = true) :
    Cy.evalExpr .none g (q.wnames.zip (q.witems.map (wvalC n))) false (r.toCy q).e = .ok (itemC n (asS1 q r)) := by
  have hlook : ∀ i w, q.witems[i]? = some w → (q.wnames.zip (q.witems.map (wvalC n))).lookup (q.wname i) = some (wvalC n w) := by
    intro i w hw
    have := lookup_zip_idx q.wnames (q.witems.map (wvalC n)) [] hndn i (q.wname i) (wvalC n w) (wname_get q i w hw) (by rw [List.getElem?_map, hw]; rfl)
    simpa using this
  have hnodeEnv : ∀ i, ((q.witems[i]?).any (fun w => w.isNode)) = true →
      (q.wnames.zip (q.witems.map (wvalC n))).lookup (q.wname i) = some (.node n.id) := by
    intro i h
    obtain ⟨a, ha⟩ := fits_node q.witems i h
    exact hlook i _ ha
  cases r with
  | node i a =>
    simp only [S3.RItem.fits, S3.RItem.idx] at hfit
    exact eval_itemC g n (q.wname i) _ hnode (hnodeEnv i hfit) (.node a)
  | prop i k a =>
    simp only [S3.RItem.fits, S3.RItem.idx] at hfit
    exact eval_itemC g n (q.wname i) _ hnode (hnodeEnv i hfit) (.prop k a)
  | id i a =>
    simp only [S3.RItem.fits, S3.RItem.idx] at hfit
    exact eval_itemC g n (q.wname i) _ hnode (hnodeEnv i hfit) (.id a)
  | val i a =>
    simp only [S3.RItem.fits] at hfit
    obtain ⟨k, a', hw⟩ := fits_val q.witems i hfit
    simp only [S3.RItem.toCy, asS1, hw, itemC]
    rw [Cy.evalExpr]
    simp only [lookupVar, hlook i _ hw, wvalC]

/-- CYPHER SIDE of S3a: the reference semantics returns the rows of the S1 query `s1Of q`, in node order -/
theorem cy_side3 (g : Graph) (hnd : (g.nodes.map (·.id)).Nodup) (q : S3.Query) (hwf : q.wf = true) :
    Cy.eval .none g q.toCy = .ok (Cy.projNames (q.ritems.map (S3.RItem.toCy q)),
      (g.nodes.filter (keepS (s1Of q))).map (fun n => (s1Of q).items.map (itemC n))) := by
  have hn : ∀ n ∈ g.nodes, g.node? n.id = some n := find_of_nodup g.nodes hnd
  unfold S3.Query.wf at hwf
  simp only [Bool.and_eq_true, decide_eq_true_eq, List.all_eq_true] at hwf
  obtain ⟨⟨⟨⟨⟨_, _⟩, hndn⟩, _⟩, _⟩, hfits⟩ := hwf
  have hc : evalClauses .none g true [[]] [Clause.match false [.mk none false false (.mk (some q.var) q.kinds []) []] (q.wh.map (S1.Pred.toCy q.var))] =
      .ok ((g.nodes.filter (keepS (s1Of q))).map (fun n => [(q.var, CVal.node n.id)])) := clause_eval g (s1Of q) hn
  generalize hns : g.nodes.filter (keepS (s1Of q)) = ns at hc ⊢
  have hnsn : ∀ n ∈ ns, g.node? n.id = some n := fun n h => hn n (List.mem_filter.mp (hns ▸ h)).1
  -- the WITH
  have hpr1 : plainRows .none g (Cy.projNames (q.witems.map (S3.WItem.toCy q.var))) (q.witems.map (S3.WItem.toCy q.var))
      (ns.map (fun n => [(q.var, CVal.node n.id)])) =
      .ok (ns.map (fun n => (q.witems.map (wvalC n), (Cy.projNames (q.witems.map (S3.WItem.toCy q.var))).zip (q.witems.map (wvalC n)) ++ [(q.var, CVal.node n.id)]))) := by
    unfold plainRows
    apply mapE_map_ok
    intro n hmem
    have : (q.witems.map (S3.WItem.toCy q.var)).mapE (fun it => Cy.evalExpr .none g [(q.var, CVal.node n.id)] false it.e) = .ok (q.witems.map (wvalC n)) :=
      mapE_map_ok _ _ _ q.witems (fun w _ => eval_witemC g n q.var (hnsn n hmem) w)
    simp only [this, ebind_ok, epure_ok]
  have hp1 := evalProjection_plain g _ _ _ (anyAgg_witems q.var q.witems) hpr1
  -- the RETURN
  have hpr2 : plainRows .none g (Cy.projNames (q.ritems.map (S3.RItem.toCy q))) (q.ritems.map (S3.RItem.toCy q))
      (ns.map (fun n => q.wnames.zip (q.witems.map (wvalC n)))) =
      .ok (ns.map (fun n => ((s1Of q).items.map (itemC n),
        (Cy.projNames (q.ritems.map (S3.RItem.toCy q))).zip ((s1Of q).items.map (itemC n)) ++ q.wnames.zip (q.witems.map (wvalC n))))) := by
    unfold plainRows
    apply mapE_map_ok
    intro n hmem
    have : (q.ritems.map (S3.RItem.toCy q)).mapE (fun it => Cy.evalExpr .none g (q.wnames.zip (q.witems.map (wvalC n))) false it.e) =
        .ok ((s1Of q).items.map (itemC n)) := by
      have := mapE_map_ok (S3.RItem.toCy q) (fun it => Cy.evalExpr .none g (q.wnames.zip (q.witems.map (wvalC n))) false it.e)
        (fun r => itemC n (asS1 q r)) q.ritems (fun r hr => eval_ritemC g n q hndn (hnsn n hmem) r (hfits r hr))
      simpa [s1Of, List.map_map, Function.comp_def] using this
    simp only [this, ebind_ok, epure_ok]
  have hp2 := evalProjection_plain g _ _ _ (anyAgg_ritems q q.ritems) hpr2
  have hq : Quirks.none.withDropsOrderSkipLimit = false := rfl
  unfold Cy.eval S3.Query.toCy
  have hnil : ∀ (b : Bool) (envs : List Env), evalClauses .none g b envs [] = .ok envs := fun b envs => by rw [evalClauses]
  simp only [evalParts, hq, Bool.false_eq_true, if_false, hc, ebind_ok, hp1, epure_ok, List.map_map, Function.comp_def, wnames_cy]
  simp only [hnil, ebind_ok, hp2, epure_ok, List.map_map, Function.comp_def]

end Cy

/-- STAGE S3a (MATCH (n) [WHERE p] WITH plain items RETURN plain items), for ALL graphs satisfying `GraphOK` and ALL queries of the stage: the
reference semantics yields a result; the emitted nested statement either yields a table whose client-visible rows are the Cypher rows in
the same order, or the SQL model stops with `unmodelled` (never a run-time / type / name error) -/
theorem s3_sound (km : KindMap) (g : Graph) (hok : GraphOK km g) (q : S3.Query) (st : Stmt) (h : q.tr km = some st) :
    ∃ r names rows, Cy.eval .none g q.toCy = .ok r ∧ BenignT (Sql.eval (encode km g) st []) (⟨names, rows⟩ : Table) ∧
      sqlRows ⟨names, rows⟩ = cyRows g km r := by
  have hwf : q.wf = true := by
    unfold S3.Query.tr at h
    cases hwf : q.wf with
    | true => rfl
    | false => simp [hwf] at h
  have hn : ∀ n ∈ g.nodes, g.node? n.id = some n := find_of_nodup g.nodes hok.nodup
  obtain ⟨names, hsql⟩ := sql_side3 km g hok q st h
  refine ⟨_, names, _, cy_side3 g hok.nodup q hwf, hsql, ?_⟩
  unfold sqlRows cyRows
  exact rows_agree km g (s1Of q) hn _ (fun n hn' => (List.mem_filter.mp hn').1)

-- ------------------------------------------------------------------ the recogniser of stage S3a is sound

theorem witemOf_sound (v : String) (it : Cy.ProjItem) (w : S3.WItem) (h : witemOf v it = some w) : w.toCy v = it := by
  obtain ⟨e, alias⟩ := it
  unfold witemOf at h
  split at h
  · subst_vars
    simp only at h
    split at h
    · rename_i hv
      cases h
      rw [eq_of_beq hv]
      rfl
    · cases h
  · subst_vars
    split at h
    · rename_i hv
      cases h
      rw [eq_of_beq hv]
      rfl
    · cases h
  · cases h

theorem witemsOf_sound (v : String) : ∀ (its : List Cy.ProjItem) (ws : List S3.WItem), its.mapM (witemOf v) = some ws → ws.map (S3.WItem.toCy v) = its
  | [], ws, h => by simp only [List.mapM_nil] at h; cases h; rfl
  | it :: its, ws, h => by
    rw [List.mapM_cons] at h
    cases hi : witemOf v it with
    | none => rw [hi] at h; cases h
    | some w =>
      rw [hi] at h
      cases hr : its.mapM (witemOf v) with
      | none => rw [hr] at h; cases h
      | some ws' =>
        rw [hr] at h; cases h
        rw [List.map_cons, witemOf_sound v it w hi, witemsOf_sound v its ws' hr]

theorem ritemOf_sound (q : S3.Query) (it : Cy.ProjItem) (r : S3.RItem) (h : ritemOf q.var q.witems it = some r) : r.toCy q = it := by
  have hname : ∀ m i, (q.witems.map (S3.WItem.name q.var)).idxOf? m = some i → q.wname i = m := by
    intro m i hi
    have := idxOf?_getElem _ _ _ hi
    simp [S3.Query.wname, S3.Query.wnames, this]
  obtain ⟨e, alias⟩ := it
  unfold ritemOf at h
  simp only at h
  split at h
  · rename_i _ m
    obtain ⟨i, hi, hr⟩ := Option.map_eq_some_iff.mp h
    split at hr <;> (cases hr; simp only [S3.RItem.toCy, hname m i hi])
  · rename_i _ m k
    obtain ⟨i, hi, hr⟩ := Option.map_eq_some_iff.mp h
    cases hr
    simp only [S3.RItem.toCy, hname m i hi]
  · rename_i _ m
    obtain ⟨i, hi, hr⟩ := Option.map_eq_some_iff.mp h
    cases hr
    simp only [S3.RItem.toCy, hname m i hi]
  · cases h

theorem ritemsOf_sound (q : S3.Query) : ∀ (its : List Cy.ProjItem) (rs : List S3.RItem), its.mapM (ritemOf q.var q.witems) = some rs →
    rs.map (S3.RItem.toCy q) = its
  | [], rs, h => by simp only [List.mapM_nil] at h; cases h; rfl
  | it :: its, rs, h => by
    rw [List.mapM_cons] at h
    cases hi : ritemOf q.var q.witems it with
    | none => rw [hi] at h; cases h
    | some r =>
      rw [hi] at h
      cases hr : its.mapM (ritemOf q.var q.witems) with
      | none => rw [hr] at h; cases h
      | some rs' =>
        rw [hr] at h; cases h
        rw [List.map_cons, ritemOf_sound q it r hi, ritemsOf_sound q its rs' hr]

theorem isPlainProj_eq (p : Cy.Projection) (h : isPlainProj p = true) : p = S3.plainProj p.items := by
  unfold isPlainProj at h
  simp only [Bool.and_eq_true, Bool.not_eq_true', List.isEmpty_iff, Option.isNone_iff_eq_none] at h
  obtain ⟨⟨⟨⟨h1, h2⟩, h3⟩, h4⟩, h5⟩ := h
  cases p with
  | mk distinct all items orderBy skip limit =>
    simp only at h1 h2 h3 h4 h5
    subst h1 h2 h3 h4 h5
    rfl

/-- an accepted parsed query is exactly the Cypher reading of the S3a query returned -/
theorem ofCyWith_sound (q : Cy.Query) (s : S3.Query) (h : ofCyWith q = some s) : s.toCy = q := by
  unfold ofCyWith at h
  split at h
  · rename_i v kinds wh proj hparts hclauses
    split at h
    · cases h
    · rename_i hcond
      simp only [Bool.or_eq_true, not_or, Bool.not_eq_true, Bool.not_eq_false'] at hcond
      simp only [bind, Option.bind_eq_some_iff, pure] at h
      obtain ⟨w, hw, ws, hws, rs, hrs, h⟩ := h
      split at h
      · simp only [Option.some.injEq] at h
        subst h
        have hwi := witemsOf_sound v _ _ hws
        have hri := ritemsOf_sound ⟨v, kinds, w, ws, rs⟩ _ _ hrs
        have hp1 := isPlainProj_eq proj hcond.1
        have hp2 := isPlainProj_eq q.ret hcond.2
        have hwh : w.map (S1.Pred.toCy v) = wh := by
          cases wh with
          | none => simp only [Option.some.injEq] at hw; subst hw; rfl
          | some e =>
            obtain ⟨p, hp, rfl⟩ := Option.map_eq_some_iff.mp hw
            simp only [Option.map_some, (predOf_sound v).1 e p hp]
        cases q with
        | mk parts clauses ret =>
          simp only at hparts hclauses hp2 hri
          subst hparts hclauses
          simp only [S3.Query.toCy, hwi, hri, hwh, Cy.Query.mk.injEq, true_and]
          refine ⟨?_, hp2.symm⟩
          rw [← hp1]
      · cases h
  · cases h

end Dawgs.C01.Proofs
