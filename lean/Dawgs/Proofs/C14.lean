/- Helper lemmas for C14: bitmaps/maps, adjacency map, triple store, projection, segments.
(No property statements here; those live in Props/C14.lean.) -/
import Dawgs.Spec.C14
set_option linter.unusedSimpArgs false
set_option linter.unusedVariables false
namespace Dawgs.C14

/-! ### generic -/

theorem foldl_rel {α β σ : Type} (R : α → β → Prop) (f : α → σ → α) (g : β → σ → β)
    (h : ∀ a b s, R a b → R (f a s) (g b s)) : ∀ (ops : List σ) a b, R a b → R (ops.foldl f a) (ops.foldl g b) := by
  intro ops
  induction ops with
  | nil => intro a b r; exact r
  | cons o ops ih => intro a b r; exact ih _ _ (h a b o r)

/-! ### bitmaps -/

theorem sinsert_nil (x : Nat) : sinsert x [] = [x] := rfl
theorem sinsert_cons (x y : Nat) (ys : List Nat) :
    sinsert x (y :: ys) = if x < y then x :: y :: ys else if x = y then y :: ys else y :: sinsert x ys := rfl

theorem mem_sinsert {x y : Nat} {l : List Nat} : y ∈ sinsert x l ↔ y = x ∨ y ∈ l := by
  induction l with
  | nil => simp [sinsert_nil]
  | cons z zs ih =>
    rw [sinsert_cons]
    split
    · simp
    · split
      · rename_i h; subst h; simp
      · simp only [List.mem_cons, ih]
        constructor
        · rintro (h | h | h) <;> simp [h]
        · rintro (h | h | h) <;> simp [h]

theorem sunion_nil (a : List Nat) : sunion a [] = a := rfl
theorem sunion_cons (a : List Nat) (x : Nat) (b : List Nat) : sunion a (x :: b) = sunion (sinsert x a) b := rfl

theorem mem_sunion {a b : List Nat} {y : Nat} : y ∈ sunion a b ↔ y ∈ a ∨ y ∈ b := by
  induction b generalizing a with
  | nil => simp [sunion_nil]
  | cons x b ih =>
    rw [sunion_cons, ih, mem_sinsert]
    simp only [List.mem_cons]
    constructor
    · rintro ((h | h) | h) <;> simp [h]
    · rintro (h | h | h) <;> simp [h]

theorem mem_sofList {xs : List Nat} {y : Nat} : y ∈ sofList xs ↔ y ∈ xs := by
  unfold sofList; rw [mem_sunion]; simp

/-- strictly ascending -/
def Asc (l : List Nat) : Prop := l.Pairwise (· < ·)

theorem Asc.nodup {l : List Nat} (h : Asc l) : l.Nodup := by
  unfold Asc at h
  exact h.imp (fun hab => Nat.ne_of_lt hab)

theorem asc_sinsert {x : Nat} {l : List Nat} (h : Asc l) : Asc (sinsert x l) := by
  unfold Asc at *
  induction l with
  | nil => simp [sinsert_nil]
  | cons y ys ih =>
    rw [sinsert_cons]
    rw [List.pairwise_cons] at h
    split
    · rename_i hxy
      rw [List.pairwise_cons]
      refine ⟨?_, List.pairwise_cons.mpr h⟩
      intro a ha
      rcases List.mem_cons.mp ha with rfl | ha
      · exact hxy
      · exact Nat.lt_trans hxy (h.1 a ha)
    · split
      · exact List.pairwise_cons.mpr h
      · rename_i h1 h2
        rw [List.pairwise_cons]
        refine ⟨?_, ih h.2⟩
        intro a ha
        rcases mem_sinsert.mp ha with rfl | ha
        · omega
        · exact h.1 a ha

theorem asc_sunion {a b : List Nat} (h : Asc a) : Asc (sunion a b) := by
  induction b generalizing a with
  | nil => exact h
  | cons x b ih => rw [sunion_cons]; exact ih (asc_sinsert h)

theorem asc_nil : Asc [] := List.Pairwise.nil

/-! ### maps -/

theorem mlookup_nil (x : Nat) : mlookup [] x = none := rfl
theorem mlookup_cons (k : Nat) (v : List Nat) (m : NMap) (x : Nat) :
    mlookup ((k, v) :: m) x = if k = x then some v else mlookup m x := rfl
theorem mget_nil (x : Nat) : mget [] x = [] := rfl
theorem mget_cons (k : Nat) (v : List Nat) (m : NMap) (x : Nat) :
    mget ((k, v) :: m) x = if k = x then v else mget m x := by
  unfold mget; rw [mlookup_cons]; split <;> rfl
theorem madd_nil (k v : Nat) : madd [] k v = [(k, [v])] := rfl
theorem madd_cons (k' : Nat) (s : List Nat) (m : NMap) (k v : Nat) :
    madd ((k', s) :: m) k v = if k' = k then (k', sinsert v s) :: m else (k', s) :: madd m k v := rfl

theorem mget_madd (m : NMap) (k v x : Nat) :
    mget (madd m k v) x = if x = k then sinsert v (mget m k) else mget m x := by
  induction m with
  | nil =>
    rw [madd_nil, mget_cons, mget_nil, mget_nil]
    by_cases h : k = x
    · simp [h, sinsert_nil]
    · have : ¬ x = k := fun e => h e.symm
      simp [h, this]
  | cons p m ih =>
    obtain ⟨k', s⟩ := p
    rw [madd_cons]
    by_cases hk : k' = k
    · subst hk
      rw [if_pos rfl, mget_cons, mget_cons, mget_cons]
      by_cases hx : k' = x
      · subst hx; simp
      · have : ¬ x = k' := fun e => hx e.symm
        simp [hx, this]
    · rw [if_neg hk, mget_cons, ih, mget_cons, mget_cons]
      by_cases hx : k' = x
      · subst hx; simp [hk]
      · simp [hx, hk]

theorem mem_mget_madd {m : NMap} {k v x y : Nat} :
    y ∈ mget (madd m k v) x ↔ (x = k ∧ y = v) ∨ y ∈ mget m x := by
  rw [mget_madd]
  by_cases h : x = k
  · subst h; simp [mem_sinsert]
  · simp [h]

theorem mlookup_isSome_madd (m : NMap) (k v x : Nat) :
    (mlookup (madd m k v) x).isSome = (decide (x = k) || (mlookup m x).isSome) := by
  induction m with
  | nil =>
    rw [madd_nil, mlookup_cons, mlookup_nil]
    by_cases h : k = x
    · simp [h]
    · have : ¬ x = k := fun e => h e.symm
      simp [h, this]
  | cons p m ih =>
    obtain ⟨k', s⟩ := p
    rw [madd_cons]
    by_cases hk : k' = k
    · subst hk
      rw [if_pos rfl, mlookup_cons, mlookup_cons]
      by_cases hx : k' = x
      · simp [hx]
      · have : ¬ x = k' := fun e => hx e.symm
        simp [hx, this]
    · rw [if_neg hk, mlookup_cons, mlookup_cons]
      by_cases hx : k' = x
      · simp [hx]
      · simp [hx, ih]

theorem mget_eq_of_lookup {m : NMap} {k : Nat} {s : List Nat} (h : mlookup m k = some s) : mget m k = s := by
  unfold mget; rw [h]; rfl
theorem mget_eq_nil_of_lookup {m : NMap} {k : Nat} (h : mlookup m k = none) : mget m k = [] := by
  unfold mget; rw [h]; rfl

theorem mget_append_empty (m : NMap) (k x : Nat) : mget (mempty m k) x = mget m x := by
  unfold mempty
  induction m with
  | nil => simp [mget_cons, mget_nil]
  | cons p m ih => obtain ⟨k', s⟩ := p; simp only [List.cons_append, mget_cons, ih]

theorem ilookup_nil (x : Nat) : ilookup [] x = none := rfl
theorem ilookup_cons (k v : Nat) (m : IMap) (x : Nat) :
    ilookup ((k, v) :: m) x = if k = x then some v else ilookup m x := rfl

theorem ilookup_append (m : IMap) (k v x : Nat) :
    ilookup (m ++ [(k, v)]) x = match ilookup m x with
      | some i => some i
      | none => if k = x then some v else none := by
  induction m with
  | nil => simp [ilookup_cons, ilookup_nil]
  | cons p m ih =>
    obtain ⟨k', v'⟩ := p
    simp only [List.cons_append, ilookup_cons]
    by_cases h : k' = x
    · simp [h]
    · simp [h, ih]

/-! ### the spec graph -/

/-- an edge `s → t` exists in the list -/
def HasEdge (es : List Edge) (s t : Nat) : Prop := ∃ e ∈ es, e.start = s ∧ e.stop = t

theorem hasEdge_nil (s t : Nat) : ¬ HasEdge [] s t := by
  rintro ⟨e, he, _⟩; cases he

theorem hasEdge_append_single {es : List Edge} {id a b s t : Nat} :
    HasEdge (es ++ [⟨id, a, b⟩]) s t ↔ HasEdge es s t ∨ (s = a ∧ t = b) := by
  unfold HasEdge
  constructor
  · rintro ⟨e, he, h1, h2⟩
    rcases List.mem_append.mp he with he | he
    · exact Or.inl ⟨e, he, h1, h2⟩
    · simp at he; subst he; exact Or.inr ⟨h1.symm, h2.symm⟩
  · rintro (⟨e, he, h1, h2⟩ | ⟨h1, h2⟩)
    · exact ⟨e, List.mem_append_left _ he, h1, h2⟩
    · exact ⟨⟨id, a, b⟩, by simp, h1.symm, h2.symm⟩

theorem mem_adj_out {g : G} {v y : Nat} : y ∈ g.adj v .out ↔ HasEdge g.edges v y := by
  unfold G.adj HasEdge outOf
  simp only [List.mem_filterMap]
  constructor
  · rintro ⟨e, he, h⟩
    by_cases hs : e.start = v
    · simp [hs] at h; exact ⟨e, he, hs, h⟩
    · simp [hs] at h
  · rintro ⟨e, he, h1, h2⟩; exact ⟨e, he, by simp [h1, h2]⟩

theorem mem_adj_in {g : G} {v y : Nat} : y ∈ g.adj v .inn ↔ HasEdge g.edges y v := by
  unfold G.adj HasEdge inOf
  simp only [List.mem_filterMap]
  constructor
  · rintro ⟨e, he, h⟩
    by_cases hs : e.stop = v
    · simp [hs] at h; exact ⟨e, he, h, hs⟩
    · simp [hs] at h
  · rintro ⟨e, he, h1, h2⟩; exact ⟨e, he, by simp [h1, h2]⟩

theorem mem_adj_both {g : G} {v y : Nat} : y ∈ g.adj v .both ↔ HasEdge g.edges v y ∨ HasEdge g.edges y v := by
  have h1 := @mem_adj_out g v y
  have h2 := @mem_adj_in g v y
  unfold G.adj at *
  simp only [List.mem_append]
  rw [h1, h2]

/-- what membership in `g.adj v d` means -/
def AdjRel (es : List Edge) (v y : Nat) : Dir → Prop
  | .out => HasEdge es v y
  | .inn => HasEdge es y v
  | .both => HasEdge es v y ∨ HasEdge es y v

theorem mem_adj {g : G} {v y : Nat} {d : Dir} : y ∈ g.adj v d ↔ AdjRel g.edges v y d := by
  cases d
  · exact mem_adj_out
  · exact mem_adj_in
  · exact mem_adj_both

theorem G.step_node (g : G) (n : Nat) : g.step (.node n) = { g with nodes := g.nodes ++ [n] } := rfl
theorem G.step_edge (g : G) (id s e : Nat) :
    g.step (.edge id s e) = { nodes := g.nodes ++ [s, e], edges := g.edges ++ [⟨id, s, e⟩] } := rfl

/-- endpoints of edges are nodes, in every graph denoted by a history -/
def G.Closed (g : G) : Prop := ∀ s t, HasEdge g.edges s t → s ∈ g.nodes ∧ t ∈ g.nodes

theorem G.closed_step {g : G} (h : g.Closed) (o : Op) : (g.step o).Closed := by
  cases o with
  | node n =>
    intro s t he
    have := h s t he
    simp [G.step_node, this.1, this.2]
  | edge id a b =>
    intro s t he
    rw [G.step_edge] at he ⊢
    simp only at he ⊢
    rcases hasEdge_append_single.mp he with he | ⟨rfl, rfl⟩
    · have := h s t he; simp [this.1, this.2]
    · simp

theorem G.closed_ofOps (ops : List Op) : (G.ofOps ops).Closed := by
  unfold G.ofOps
  have := foldl_rel (fun (a : G) (_ : Unit) => a.Closed) G.step (fun u _ => u) (fun a _ s r => G.closed_step r s) ops {} ()
  exact this (by intro s t he; exact absurd he (hasEdge_nil s t))

/-! ### adjacency map -/

structure AdjMap.Rel (a : AdjMap) (g : G) : Prop where
  out : ∀ v y, y ∈ mget a.outbound v ↔ HasEdge g.edges v y
  inn : ∀ v y, y ∈ mget a.inbound v ↔ HasEdge g.edges y v
  nodes : ∀ n, n ∈ a.nodes ↔ n ∈ g.nodes
  asc : Asc a.nodes
  keysOut : ∀ k, (mlookup a.outbound k).isSome → k ∈ a.nodes
  keysIn : ∀ k, (mlookup a.inbound k).isSome → k ∈ a.nodes
  ascOut : ∀ v, Asc (mget a.outbound v)
  ascIn : ∀ v, Asc (mget a.inbound v)

theorem AdjMap.rel_empty : AdjMap.Rel {} {} where
  ascOut := by intro v; rw [mget_nil]; exact asc_nil
  ascIn := by intro v; rw [mget_nil]; exact asc_nil
  out := by intro v y; simp [mget_nil, HasEdge]
  inn := by intro v y; simp [mget_nil, HasEdge]
  nodes := by intro n; simp
  asc := asc_nil
  keysOut := by intro k h; simp [mlookup_nil] at h
  keysIn := by intro k h; simp [mlookup_nil] at h

theorem AdjMap.rel_step {a : AdjMap} {g : G} (r : a.Rel g) (o : Op) : (a.step o).Rel (g.step o) := by
  cases o with
  | node n =>
    show (a.addNode n).Rel _
    rw [G.step_node]
    unfold AdjMap.addNode
    exact { out := r.out, inn := r.inn,
            nodes := by intro x; simp [mem_sinsert, r.nodes x]; constructor <;> (rintro (h | h) <;> simp [h]),
            asc := asc_sinsert r.asc,
            keysOut := fun k h => mem_sinsert.mpr (Or.inr (r.keysOut k h)),
            keysIn := fun k h => mem_sinsert.mpr (Or.inr (r.keysIn k h)),
            ascOut := r.ascOut, ascIn := r.ascIn }
  | edge id s e =>
    show (a.addEdge s e).Rel _
    rw [G.step_edge]
    unfold AdjMap.addEdge
    refine { out := ?_, inn := ?_, nodes := ?_, asc := asc_sinsert (asc_sinsert r.asc), keysOut := ?_, keysIn := ?_,
             ascOut := fun v => by
               simp only [mget_madd]; split
               · exact asc_sinsert (r.ascOut _)
               · exact r.ascOut v,
             ascIn := fun v => by
               simp only [mget_madd]; split
               · exact asc_sinsert (r.ascIn _)
               · exact r.ascIn v }
    · intro v y
      simp only [mem_mget_madd, hasEdge_append_single, r.out v y]
      constructor <;> (rintro (h | h) <;> simp [h])
    · intro v y
      simp only [mem_mget_madd, hasEdge_append_single, r.inn v y]
      constructor
      · rintro (⟨h1, h2⟩ | h)
        · exact Or.inr ⟨h2, h1⟩
        · exact Or.inl h
      · rintro (h | ⟨h1, h2⟩)
        · exact Or.inr h
        · exact Or.inl ⟨h2, h1⟩
    · intro x
      simp only [mem_sinsert, r.nodes x, List.mem_append, List.mem_cons, List.not_mem_nil, or_false]
      constructor
      · rintro (h | h | h) <;> simp [h]
      · rintro (h | h | h) <;> simp [h]
    · intro k h
      simp only at h
      rw [mlookup_isSome_madd] at h
      simp only [Bool.or_eq_true, decide_eq_true_eq] at h
      rcases h with h | h
      · subst h; simp [mem_sinsert]
      · simp [mem_sinsert, r.keysOut k h]
    · intro k h
      simp only at h
      rw [mlookup_isSome_madd] at h
      simp only [Bool.or_eq_true, decide_eq_true_eq] at h
      rcases h with h | h
      · subst h; simp [mem_sinsert]
      · simp [mem_sinsert, r.keysIn k h]

theorem AdjMap.rel_build (ops : List Op) : (AdjMap.build ops).Rel (G.ofOps ops) :=
  foldl_rel AdjMap.Rel AdjMap.step G.step (fun _ _ s r => AdjMap.rel_step r s) ops {} {} AdjMap.rel_empty

theorem AdjMap.mem_adjacent (a : AdjMap) (v y : Nat) (d : Dir) :
    y ∈ a.adjacent v d ↔ match d with
      | .out => y ∈ mget a.outbound v
      | .inn => y ∈ mget a.inbound v
      | .both => y ∈ mget a.outbound v ∨ y ∈ mget a.inbound v := by
  unfold AdjMap.adjacent AdjMap.getAdjacent
  cases d with
  | out => simp only [mget]
  | inn => simp only [mget]
  | both =>
    simp only [mget]
    cases ho : mlookup a.outbound v <;> cases hi : mlookup a.inbound v <;> simp [mem_sunion]

theorem AdjMap.adjacent_spec {a : AdjMap} {g : G} (r : a.Rel g) (v y : Nat) (d : Dir) :
    y ∈ a.adjacent v d ↔ y ∈ g.adj v d := by
  rw [AdjMap.mem_adjacent, mem_adj]
  cases d
  · exact r.out v y
  · exact r.inn v y
  · simp only [AdjRel]; rw [r.out v y, r.inn v y]

end Dawgs.C14
