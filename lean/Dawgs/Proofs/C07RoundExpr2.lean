import Dawgs.Proofs.C07RoundExpr
set_option linter.unusedSimpArgs false
set_option linter.unusedVariables false
set_option linter.unusedSectionVars false
/-! `build ∘ treeOf = id` on the expression layer: NonArithmeticOperatorExpression (property lookups, labels, count(*)). -/
namespace Dawgs.C07
open Dawgs.Grammar Dawgs.C08

theorem unescapeKey_simple (k : String) (h : simpleKey k = true) : unescapeKey k = k ∧ k.isEmpty = false := by
  unfold simpleKey at h
  cases hk : k.toList with
  | nil => simp [hk] at h
  | cons c cs =>
    simp only [hk, Bool.and_eq_true, Bool.or_eq_true] at h
    have hc : c ≠ '`' := by
      intro hc; subst hc
      rcases h.1 with h1 | h1 <;> simp (config := { decide := true }) at h1
    constructor
    · unfold unescapeKey
      simp [hk, hc]
    · have : k ≠ "" := by intro he; subst he; simp at hk
      simpa [String.isEmpty_iff] using this

def pBase : Expr → Expr
  | .prop a _ => pBase a
  | e => e
def pKeys : Expr → List String
  | .prop a k => pKeys a ++ [k]
  | _ => []

theorem isCountStar_eq (e : Expr) (h : isCountStar e = true) : e = .fn false [] "count" [.star] := by
  unfold isCountStar at h
  split at h
  · rename_i name; simp at h; subst h; rfl
  · cases h

theorem filter_isNode_self (xs : List Tree) (h : ∀ x ∈ xs, isNode x = true) : xs.filter isNode = xs :=
  List.filter_eq_self.2 h

section NonArith
variable {N : Names} (hN : N.ok = true) (recT : Expr → Tree) (recW : Expr → Bool) (Hrec : RecOK N recT recW)
include hN Hrec

theorem propKids_eq : ∀ e : Expr, propKids N recT e =
    (if isCountStar (pBase e) then countAtom N else tAtom N recT (pBase e)) :: (pKeys e).map (propNode N)
  | .prop a k => by
    have ih := propKids_eq a
    rw [propKids, ih]
    simp only [pBase, pKeys, List.map_append, List.map_cons, List.map_nil, List.cons_append]
    rfl
  | .var _ => by simp [propKids, pBase, pKeys, isCountStar]
  | .param _ => by simp [propKids, pBase, pKeys, isCountStar]
  | .lit _ => by simp [propKids, pBase, pKeys, isCountStar]
  | .kindMatcher _ _ => by simp [propKids, pBase, pKeys, isCountStar]
  | .fn d ns n args => by
    simp only [propKids, pBase, pKeys, List.map_nil]
    split <;> simp_all
  | .star => by simp [propKids, pBase, pKeys, isCountStar]
  | .paren _ => by simp [propKids, pBase, pKeys, isCountStar]
  | .neg _ => by simp [propKids, pBase, pKeys, isCountStar]
  | .conj _ => by simp [propKids, pBase, pKeys, isCountStar]
  | .disj _ => by simp [propKids, pBase, pKeys, isCountStar]
  | .xdisj _ => by simp [propKids, pBase, pKeys, isCountStar]
  | .cmp _ _ => by simp [propKids, pBase, pKeys, isCountStar]
  | .arith _ _ => by simp [propKids, pBase, pKeys, isCountStar]
  | .unary _ _ => by simp [propKids, pBase, pKeys, isCountStar]
  | .list _ => by simp [propKids, pBase, pKeys, isCountStar]
  | .map _ => by simp [propKids, pBase, pKeys, isCountStar]
  | .quant _ _ _ _ => by simp [propKids, pBase, pKeys, isCountStar]
  | .patPred _ => by simp [propKids, pBase, pKeys, isCountStar]
  | .nil => by simp [propKids, pBase, pKeys, isCountStar]

theorem prop_fold : ∀ e : Expr, (pKeys e).foldl Expr.prop (pBase e) = e
  | .prop a k => by
    have ih := prop_fold a
    simp [pBase, pKeys, List.foldl_append, ih]
  | .var _ | .param _ | .lit _ | .kindMatcher _ _ | .fn _ _ _ _ | .star | .paren _ | .neg _ | .conj _ | .disj _ | .xdisj _
  | .cmp _ _ | .arith _ _ | .unary _ _ | .list _ | .map _ | .quant _ _ _ _ | .patPred _ | .nil => by simp [pBase, pKeys]

theorem wProps_spec : ∀ e : Expr, wProps recW e = true →
    (pKeys e).all simpleKey = true ∧ (isCountStar (pBase e) = true ∨ wAtom recW (pBase e) = true)
  | .prop a k => by
    intro h
    simp only [wProps, Bool.and_eq_true] at h
    have ih := wProps_spec a h.2
    simp [pBase, pKeys, List.all_append, ih.1, h.1]
    simpa using ih.2
  | .var _ | .param _ | .lit _ | .kindMatcher _ _ | .fn _ _ _ _ | .star | .paren _ | .neg _ | .conj _ | .disj _ | .xdisj _
  | .cmp _ _ | .arith _ _ | .unary _ _ | .list _ | .map _ | .quant _ _ _ _ | .patPred _ | .nil => by
    intro h
    simp only [wProps, Bool.or_eq_true] at h
    simpa [pBase, pKeys] using h

theorem tAtomInner_node (e : Expr) (hw : wAtom recW e = true) : ∃ r ks, tAtomInner N recT e = N.nd r ks := by
  cases e with
  | lit v => cases v <;> exact ⟨_, _, rfl⟩
  | var _ | param _ | list _ | paren _ | fn _ _ _ _ | map _ | quant _ _ _ _ => exact ⟨_, _, rfl⟩
  | _ => simp [wAtom] at hw

theorem bPostfix_props : ∀ (ks : List String) (acc : Expr) (tail : List Tree) (f : Nat),
    ks.all simpleKey = true → ks.length + 4 ≤ f →
    bPostfix N f acc (ks.map (propNode N) ++ tail) = bPostfix N (f - ks.length) (ks.foldl Expr.prop acc) tail
  | [], acc, tail, f, _, _ => by simp
  | k :: ks, acc, tail, f, hk, hf => by
    simp only [List.all_cons, Bool.and_eq_true] at hk
    obtain ⟨f', rfl⟩ : ∃ f', f = f' + 5 := ⟨f - 5, by simp at hf; omega⟩
    have hu := unescapeKey_simple k hk.1
    have hgt : getText (f' + 4 + 1) (schemaName N "oC_PropertyKeyName" k) = k := getText_schemaName hN (f' + 1) _ k
    have ih := bPostfix_props ks (.prop acc k) tail (f' + 4) hk.2 (by simp at hf; omega)
    simp only [List.map_cons, List.cons_append, List.foldl_cons, List.length_cons]
    rw [show f' + 5 = (f' + 4) + 1 from rfl, bPostfix]
    bsimp [propNode, schemaName]
    simp only [schemaName] at hgt
    simp only [hgt, hu.1, hu.2]
    rw [ih]
    have hne : k ≠ "" := by
      intro he; have := hu.2; simp [he] at this
    simp [hne]

theorem labels_eq (f : Nat) : ∀ ls : List String,
    (kidsOfRule N (labelsNode N ls) "oC_NodeLabel").map (fun l => match kidOfRule N l "oC_LabelName" with
      | some n => getText (f + 4) n
      | none => "") = ls
  | [] => by simp [labelsNode, kidsOfRule]
  | l :: ls => by
    have ih := labels_eq f ls
    have hgt : getText (f + 4) (schemaName N "oC_LabelName" l) = l := getText_schemaName hN f _ l
    simp only [labelsNode, kidsOfRule, kids_nd] at ih ⊢
    bsimp [schemaName]
    simp only [schemaName] at hgt
    refine ⟨hgt, ?_⟩
    bsimp_at ih [schemaName]
    exact ih

theorem bPostfix_labels (ls : List String) (acc : Expr) (f : Nat) :
    bPostfix N (f + 6) acc [labelsNode N ls] = .ok (.kindMatcher acc ls) := by
  have hl := labels_eq hN recT recW Hrec (f + 2) ls
  rw [show f + 6 = (f + 5) + 1 from rfl, bPostfix]
  have hr : ruleNameOf N (labelsNode N ls) = "oC_NodeLabels" := by bsimp [labelsNode]
  rw [show f + 2 + 4 = f + 5 + 1 from by omega] at hl
  simp only [hr]
  simp only [bPostfix]
  exact congrArg (fun x => Except.ok (acc.kindMatcher x)) hl

theorem size_propNode (k : String) : size (propNode N k) = 6 := by simp [propNode, schemaName, symName]

theorem sizeL_propNodes (ks : List String) : sizeL (ks.map (propNode N)) = 6 * ks.length := by
  induction ks with
  | nil => simp
  | cons k ks ih => simp [ih, size_propNode hN recT recW Hrec]; omega

/-- NonArithmetic node over base `b`, property keys `ks` and an optional label tail -/
theorem bNonArith_core (b : Expr) (ks : List String) (tail : List Tree) (res : Expr) (g : Nat)
    (hb : isCountStar b = true ∨ wAtom recW b = true) (hks : ks.all simpleKey = true)
    (htailN : ∀ x ∈ tail, isNode x = true)
    (hg : 2 * size (N.nd "oC_NonArithmeticOperatorExpression"
      ((if isCountStar b then countAtom N else tAtom N recT b) :: ks.map (propNode N) ++ tail)) + 2 ≤ g)
    (htail : ∀ f, 6 ≤ f → bPostfix N f (ks.foldl Expr.prop b) tail = .ok res) :
    bExpr N g (N.nd "oC_NonArithmeticOperatorExpression"
      ((if isCountStar b then countAtom N else tAtom N recT b) :: ks.map (propNode N) ++ tail)) = .ok res := by
  have hsz := sizeL_propNodes hN recT recW Hrec ks
  simp only [size_nd, sizeL_cons', sizeL_append, hsz] at hg
  have hkidsN : ∀ x ∈ ((if isCountStar b then countAtom N else tAtom N recT b) :: ks.map (propNode N) ++ tail), isNode x = true := by
    intro x hx
    simp only [List.cons_append, List.mem_cons, List.mem_append, List.mem_map] at hx
    rcases hx with rfl | ⟨k, _, rfl⟩ | hx
    · split <;> rfl
    · rfl
    · exact htailN x hx
  have hrk := filter_isNode_self _ hkidsN
  by_cases hc : isCountStar b = true
  · -- count(*)
    have hbe := isCountStar_eq b hc
    simp only [hc, if_true] at hg hrk ⊢
    simp only [countAtom, size_nd, sizeL_cons', size_lf, sizeL_nil'] at hg
    obtain ⟨g', rfl⟩ : ∃ g', g = g' + 2 := ⟨g - 2, by omega⟩
    have hp := bPostfix_props hN recT recW Hrec ks b tail g' hks (by omega)
    have ht := htail (g' - ks.length) (by omega)
    rw [show g' + 2 = (g' + 1) + 1 from rfl, bExpr]
    have hname : ruleNameOf N (N.nd "oC_NonArithmeticOperatorExpression" (countAtom N :: (ks.map (propNode N) ++ tail))) = "oC_NonArithmeticOperatorExpression" := by
      bsimp []
    simp only [List.cons_append] at hrk ⊢
    simp only [hname]
    rw [bNonArith]
    simp only [ruleKids, kids_nd, hrk]
    have hct : hasTok N (countAtom N) "COUNT" = true := by bsimp [countAtom]
    simp only [hct, if_true]
    rw [← hbe, hp, ht]
  · -- an ordinary atom
    have hcf : isCountStar b = false := by simpa using hc
    have hwa : wAtom recW b = true := by rcases hb with h | h; exact absurd h hc; exact h
    simp only [hcf, Bool.false_eq_true, if_false] at hg hrk ⊢
    obtain ⟨g', rfl⟩ : ∃ g', g = g' + 2 := ⟨g - 2, by omega⟩
    have ha := bAtom_tAtom hN recT recW Hrec b g' hwa (by omega)
    have hp := bPostfix_props hN recT recW Hrec ks b tail g' hks (by
      have : 1 ≤ size (tAtom N recT b) := size_pos _
      omega)
    have ht := htail (g' - ks.length) (by
      have : 2 ≤ size (tAtom N recT b) := by simp [tAtom]; have := size_pos (tAtomInner N recT b); omega
      omega)
    rw [show g' + 2 = (g' + 1) + 1 from rfl, bExpr]
    have hname : ruleNameOf N (N.nd "oC_NonArithmeticOperatorExpression" (tAtom N recT b :: (ks.map (propNode N) ++ tail))) = "oC_NonArithmeticOperatorExpression" := by
      bsimp []
    simp only [List.cons_append] at hrk ⊢
    simp only [hname]
    rw [bNonArith]
    simp only [ruleKids, kids_nd, hrk]
    obtain ⟨r, iks, hin⟩ := tAtomInner_node hN recT recW Hrec b hwa
    have hct : hasTok N (tAtom N recT b) "COUNT" = false := by
      simp only [tAtom, hin]; bsimp []
    simp only [hct, Bool.false_eq_true, if_false, ha]
    rw [hp, ht]

theorem bExpr_tNonArith (e : Expr) (g : Nat) (hw : wNonArith recW e = true)
    (hg : 2 * size (tNonArith N recT e) + 2 ≤ g) : bExpr N g (tNonArith N recT e) = .ok e := by
  by_cases hkm : ∃ a ls, e = .kindMatcher a ls
  · obtain ⟨a, ls, rfl⟩ := hkm
    simp only [wNonArith, Bool.and_eq_true] at hw
    obtain ⟨hk, hb⟩ := wProps_spec hN recT recW Hrec a hw.2
    simp only [tNonArith, propKids_eq hN recT recW Hrec a] at hg ⊢
    simp only [List.cons_append] at hg ⊢
    apply bNonArith_core hN recT recW Hrec (pBase a) (pKeys a) [labelsNode N ls] (.kindMatcher a ls) g hb hk
    · intro x hx; simp at hx; subst hx; rfl
    · simpa using hg
    · intro f hf
      obtain ⟨f', rfl⟩ : ∃ f', f = f' + 6 := ⟨f - 6, by omega⟩
      rw [prop_fold hN recT recW Hrec a]
      exact bPostfix_labels hN recT recW Hrec ls a f'
  · have ht : tNonArith N recT e = N.nd "oC_NonArithmeticOperatorExpression" (propKids N recT e) := by
      cases e <;> first | rfl | exact absurd ⟨_, _, rfl⟩ hkm
    have hw' : wProps recW e = true := by
      cases e <;> first | exact hw | exact absurd ⟨_, _, rfl⟩ hkm
    obtain ⟨hk, hb⟩ := wProps_spec hN recT recW Hrec e hw'
    rw [ht, propKids_eq hN recT recW Hrec e] at hg ⊢
    have := bNonArith_core hN recT recW Hrec (pBase e) (pKeys e) [] e g hb hk (by simp) (by simpa using hg)
      (fun f hf => by
        obtain ⟨f', rfl⟩ : ∃ f', f = f' + 1 := ⟨f - 1, by omega⟩
        rw [prop_fold hN recT recW Hrec e]; simp [bPostfix])
    simpa using this

end NonArith
end Dawgs.C07
