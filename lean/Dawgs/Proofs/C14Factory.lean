/- Helper lemmas for C14: what graph a build history denotes, in terms of its operations; factory descriptions. -/
import Dawgs.Proofs.C14
set_option linter.unusedSimpArgs false
set_option linter.unusedVariables false
namespace Dawgs.C14

theorem G.foldl_nodes (ops : List Op) : ∀ (g : G) (n : Nat),
    n ∈ (ops.foldl G.step g).nodes ↔ n ∈ g.nodes ∨ ∃ op ∈ ops, op = .node n ∨ (∃ id t, op = .edge id n t) ∨ (∃ id s, op = .edge id s n) := by
  induction ops with
  | nil => intro g n; simp
  | cons o ops ih =>
    intro g n
    rw [List.foldl_cons, ih]
    cases o with
    | node m =>
      simp only [G.step_node, List.mem_append, List.mem_cons, List.not_mem_nil, or_false]
      constructor
      · rintro ((h | h) | ⟨op, hop, h⟩)
        · exact Or.inl h
        · exact Or.inr ⟨.node m, Or.inl rfl, Or.inl (by rw [h])⟩
        · exact Or.inr ⟨op, Or.inr hop, h⟩
      · rintro (h | ⟨op, rfl | hop, h⟩)
        · exact Or.inl (Or.inl h)
        · rcases h with h | ⟨_, _, h⟩ | ⟨_, _, h⟩
          · cases h; exact Or.inl (Or.inr rfl)
          · cases h
          · cases h
        · exact Or.inr ⟨op, hop, h⟩
    | edge id s t =>
      simp only [G.step_edge, List.mem_append, List.mem_cons, List.not_mem_nil, or_false]
      constructor
      · rintro ((h | h | h) | ⟨op, hop, h⟩)
        · exact Or.inl h
        · exact Or.inr ⟨.edge id s t, Or.inl rfl, Or.inr (Or.inl ⟨id, t, by rw [h]⟩)⟩
        · exact Or.inr ⟨.edge id s t, Or.inl rfl, Or.inr (Or.inr ⟨id, s, by rw [h]⟩)⟩
        · exact Or.inr ⟨op, Or.inr hop, h⟩
      · rintro (h | ⟨op, rfl | hop, h⟩)
        · exact Or.inl (Or.inl h)
        · rcases h with h | ⟨_, _, h⟩ | ⟨_, _, h⟩
          · cases h
          · cases h; exact Or.inl (Or.inr (Or.inl rfl))
          · cases h; exact Or.inl (Or.inr (Or.inr rfl))
        · exact Or.inr ⟨op, hop, h⟩

theorem G.foldl_edges (ops : List Op) : ∀ (g : G) (s t : Nat),
    HasEdge (ops.foldl G.step g).edges s t ↔ HasEdge g.edges s t ∨ ∃ id, Op.edge id s t ∈ ops := by
  induction ops with
  | nil => intro g s t; simp
  | cons o ops ih =>
    intro g s t
    rw [List.foldl_cons, ih]
    cases o with
    | node m =>
      simp only [G.step_node, List.mem_cons]
      constructor
      · rintro (h | ⟨id, h⟩)
        · exact Or.inl h
        · exact Or.inr ⟨id, Or.inr h⟩
      · rintro (h | ⟨id, h | h⟩)
        · exact Or.inl h
        · cases h
        · exact Or.inr ⟨id, h⟩
    | edge id a b =>
      simp only [G.step_edge, hasEdge_append_single, List.mem_cons]
      constructor
      · rintro ((h | ⟨rfl, rfl⟩) | ⟨id', h⟩)
        · exact Or.inl h
        · exact Or.inr ⟨id, Or.inl rfl⟩
        · exact Or.inr ⟨id', Or.inr h⟩
      · rintro (h | ⟨id', h | h⟩)
        · exact Or.inl (Or.inl h)
        · cases h; exact Or.inl (Or.inr ⟨rfl, rfl⟩)
        · exact Or.inr ⟨id', h⟩

theorem G.mem_nodes_ofOps (ops : List Op) (n : Nat) :
    n ∈ (G.ofOps ops).nodes ↔ ∃ op ∈ ops, op = .node n ∨ (∃ id t, op = .edge id n t) ∨ (∃ id s, op = .edge id s n) := by
  unfold G.ofOps; rw [G.foldl_nodes]; simp

theorem G.hasEdge_ofOps (ops : List Op) (s t : Nat) : HasEdge (G.ofOps ops).edges s t ↔ ∃ id, Op.edge id s t ∈ ops := by
  unfold G.ofOps; rw [G.foldl_edges]
  constructor
  · rintro (h | h)
    · exact absurd h (hasEdge_nil s t)
    · exact h
  · exact Or.inr

theorem mem_descOps {desc : Desc} {op : Op} :
    op ∈ descOps desc ↔ ∃ kv ∈ desc, op = .node kv.1 ∨ ∃ dst ∈ kv.2, op = .node dst ∨ op = .edge 0 kv.1 dst := by
  unfold descOps
  simp only [List.mem_flatMap, List.mem_cons, List.not_mem_nil, or_false]

/-- the nodes of a description: every key (whatever its list — empty and nil alike) and every destination -/
theorem desc_nodes (desc : Desc) (n : Nat) :
    n ∈ (G.ofOps (descOps desc)).nodes ↔ ∃ kv ∈ desc, n = kv.1 ∨ n ∈ kv.2 := by
  rw [G.mem_nodes_ofOps]
  constructor
  · rintro ⟨op, hop, h⟩
    obtain ⟨kv, hkv, h'⟩ := mem_descOps.mp hop
    refine ⟨kv, hkv, ?_⟩
    rcases h' with rfl | ⟨dst, hd, rfl | rfl⟩
    · rcases h with h | ⟨_, _, h⟩ | ⟨_, _, h⟩
      · cases h; exact Or.inl rfl
      · cases h
      · cases h
    · rcases h with h | ⟨_, _, h⟩ | ⟨_, _, h⟩
      · cases h; exact Or.inr hd
      · cases h
      · cases h
    · rcases h with h | ⟨_, _, h⟩ | ⟨_, _, h⟩
      · cases h
      · cases h; exact Or.inl rfl
      · cases h; exact Or.inr hd
  · rintro ⟨kv, hkv, rfl | h⟩
    · exact ⟨.node kv.1, mem_descOps.mpr ⟨kv, hkv, Or.inl rfl⟩, Or.inl rfl⟩
    · exact ⟨.node n, mem_descOps.mpr ⟨kv, hkv, Or.inr ⟨n, h, Or.inl rfl⟩⟩, Or.inl rfl⟩

theorem desc_edges (desc : Desc) (s t : Nat) :
    HasEdge (G.ofOps (descOps desc)).edges s t ↔ ∃ kv ∈ desc, kv.1 = s ∧ t ∈ kv.2 := by
  rw [G.hasEdge_ofOps]
  constructor
  · rintro ⟨id, hop⟩
    obtain ⟨kv, hkv, h'⟩ := mem_descOps.mp hop
    rcases h' with h | ⟨dst, hd, h | h⟩
    · cases h
    · cases h
    · cases h; exact ⟨kv, hkv, rfl, hd⟩
  · rintro ⟨kv, hkv, rfl, ht⟩
    exact ⟨0, mem_descOps.mpr ⟨kv, hkv, Or.inr ⟨t, ht, Or.inr rfl⟩⟩⟩

theorem fetch_nodes (sel : Edge → Bool) (edges : List Edge) (n : Nat) :
    n ∈ (G.ofOps (fetchOps sel edges)).nodes ↔ ∃ e ∈ edges, sel e = true ∧ (n = e.start ∨ n = e.stop) := by
  rw [G.mem_nodes_ofOps]
  unfold fetchOps
  simp only [List.mem_map, List.mem_filter]
  constructor
  · rintro ⟨op, ⟨e, ⟨he, hs⟩, rfl⟩, h⟩
    rcases h with h | ⟨_, _, h⟩ | ⟨_, _, h⟩
    · cases h
    · cases h; exact ⟨e, he, hs, Or.inl rfl⟩
    · cases h; exact ⟨e, he, hs, Or.inr rfl⟩
  · rintro ⟨e, he, hs, rfl | rfl⟩
    · exact ⟨_, ⟨e, ⟨he, hs⟩, rfl⟩, Or.inr (Or.inl ⟨e.id, e.stop, rfl⟩)⟩
    · exact ⟨_, ⟨e, ⟨he, hs⟩, rfl⟩, Or.inr (Or.inr ⟨e.id, e.start, rfl⟩)⟩

theorem fetch_edges (sel : Edge → Bool) (edges : List Edge) (s t : Nat) :
    HasEdge (G.ofOps (fetchOps sel edges)).edges s t ↔ ∃ e ∈ edges, sel e = true ∧ e.start = s ∧ e.stop = t := by
  rw [G.hasEdge_ofOps]
  unfold fetchOps
  simp only [List.mem_map, List.mem_filter]
  constructor
  · rintro ⟨id, e, ⟨he, hs⟩, h⟩
    cases h; exact ⟨e, he, hs, rfl, rfl⟩
  · rintro ⟨e, he, hs, rfl, rfl⟩
    exact ⟨e.id, e, ⟨he, hs⟩, rfl⟩

theorem G.foldl_mem_edges (ops : List Op) : ∀ (g : G) (e : Edge),
    e ∈ (ops.foldl G.step g).edges ↔ e ∈ g.edges ∨ Op.edge e.id e.start e.stop ∈ ops := by
  induction ops with
  | nil => intro g e; simp
  | cons o ops ih =>
    intro g e
    rw [List.foldl_cons, ih]
    cases o with
    | node m =>
      simp only [G.step_node, List.mem_cons]
      constructor
      · rintro (h | h)
        · exact Or.inl h
        · exact Or.inr (Or.inr h)
      · rintro (h | h | h)
        · exact Or.inl h
        · cases h
        · exact Or.inr h
    | edge id a b =>
      simp only [G.step_edge, List.mem_append, List.mem_cons, List.not_mem_nil, or_false]
      constructor
      · rintro ((h | h) | h)
        · exact Or.inl h
        · subst h; exact Or.inr (Or.inl rfl)
        · exact Or.inr (Or.inr h)
      · rintro (h | h | h)
        · exact Or.inl (Or.inl h)
        · cases e; cases h; exact Or.inl (Or.inr rfl)
        · exact Or.inr h

theorem G.mem_edges_ofOps (ops : List Op) (e : Edge) : e ∈ (G.ofOps ops).edges ↔ Op.edge e.id e.start e.stop ∈ ops := by
  unfold G.ofOps; rw [G.foldl_mem_edges]; simp

end Dawgs.C14
