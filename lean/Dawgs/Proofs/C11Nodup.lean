/-
C11 proofs, part 3: a branch table whose cases never draw two entries from the same child (`distinctTab`) yields
branch trees in which every node label (access path + type) occurs once: no node is a branch twice.
-/
import Dawgs.Proofs.C11Data
set_option linter.unusedSectionVars false
namespace Dawgs.C11

/-- every label's path extends `p` -/
def Under (p : List Nat) (X : List Lbl) : Prop := ∀ l ∈ X, ∃ r, l.path = p ++ r
/-- every label's path extends `p ++ [i]` -/
def UnderIdx (p : List Nat) (i : Nat) (X : List Lbl) : Prop := ∀ l ∈ X, ∃ r, l.path = p ++ i :: r
/-- every label's path extends `p ++ [k]` for some `k ≥ j` -/
def UnderFrom (p : List Nat) (j : Nat) (X : List Lbl) : Prop := ∀ l ∈ X, ∃ k r, j ≤ k ∧ l.path = p ++ k :: r

theorem idx_disjoint {p : List Nat} {i j : Nat} {l : Lbl} (h1 : ∃ r, l.path = p ++ i :: r)
    (h2 : ∃ r, l.path = p ++ j :: r) : i = j := by
  obtain ⟨r1, e1⟩ := h1
  obtain ⟨r2, e2⟩ := h2
  rw [e1] at e2
  have := List.append_cancel_left e2
  simp at this
  exact this.1

theorem Under_to_idx {p : List Nat} {i : Nat} {X : List Lbl} (h : Under (p ++ [i]) X) : UnderIdx p i X := by
  intro l hl
  obtain ⟨r, hr⟩ := h l hl
  exact ⟨r, by rw [hr]; simp⟩

theorem UnderFrom_to_idx {p : List Nat} {i : Nat} {X : List Lbl} (h : UnderFrom (p ++ [i]) 0 X) : UnderIdx p i X := by
  intro l hl
  obtain ⟨k, r, _, hr⟩ := h l hl
  exact ⟨k :: r, by rw [hr]; simp⟩

structure InfoWF (q : List Nat) (I : Info) : Prop where
  nodeND : I.asNode.labels.Nodup
  nodeU : Under q I.asNode.labels
  elemsND : (labelsL I.elems).Nodup
  elemsU : UnderFrom q 0 (labelsL I.elems)
  itemsND : (labelsL I.items).Nodup
  itemsU : UnderFrom q 0 (labelsL I.items)

theorem InfoWF_none (q : List Nat) : InfoWF q Info.none := by
  constructor <;> simp [Info.none, Tree.labels, labelsL, Under, UnderFrom]

theorem InfoWF_scalar (T : Tables) (q : List Nat) (tn : String) : InfoWF q (scalarInfo T q tn) := by
  constructor
  · unfold scalarInfo; split <;> simp [Tree.labels, labelsL]
  · unfold scalarInfo; split
    · intro l hl; simp [Tree.labels, labelsL] at hl; subst hl; exact ⟨[], by simp⟩
    · intro l hl; simp [Tree.labels] at hl
  all_goals simp [scalarInfo, labelsL, UnderFrom]

section Sel
variable (p : List Nat) (kids : List Val) (infos : List Info) (self : List (Tree Lbl))

/-- what one entry yields, when every child info is well formed -/
theorem entry_wf (hI : ∀ i, InfoWF (p ++ [i]) (infos.getD i Info.none)) (hS : (labelsL self).Nodup) (e : Entry) :
    (labelsL (entryTrees kids infos self e)).Nodup ∧
    (match e.tgt.key with
     | some (some i) => UnderIdx p i (labelsL (entryTrees kids infos self e))
     | some none => ∀ l ∈ labelsL (entryTrees kids infos self e), l ∈ labelsL self
     | none => labelsL (entryTrees kids infos self e) = []) := by
  unfold entryTrees
  by_cases hc : evalConds kids e.conds = true
  case neg =>
    simp only [hc, Bool.false_eq_true, ite_false, labelsL]
    refine ⟨List.nodup_nil, ?_⟩
    cases e.tgt <;> simp [Target.key, UnderIdx]
  simp only [hc, ite_true]
  cases ht : e.tgt with
  | field i =>
    simp only [Target.key]
    split
    · exact ⟨by simp [labelsL], by simp [labelsL, UnderIdx]⟩
    · simp only [labelsL, List.append_nil]
      exact ⟨(hI i).nodeND, Under_to_idx (hI i).nodeU⟩
  | elems i =>
    simp only [Target.key]
    exact ⟨(hI i).elemsND, UnderFrom_to_idx (hI i).elemsU⟩
  | mapItems i =>
    simp only [Target.key]
    exact ⟨(hI i).itemsND, UnderFrom_to_idx (hI i).itemsU⟩
  | selfItems =>
    simp only [Target.key]
    exact ⟨hS, fun l hl => hl⟩
  | unknown =>
    simp [Target.key, labelsL, Tree.labels]

/-- case A: the node has no own items (struct nodes, synthesised map items) -/
theorem select_wf_A (hI : ∀ i, InfoWF (p ++ [i]) (infos.getD i Info.none)) :
    ∀ (es : List Entry), distinctEntries es = true →
      (labelsL (selectTrees kids infos [] es)).Nodup ∧
      ∀ l ∈ labelsL (selectTrees kids infos [] es), ∃ e ∈ es, ∃ i, e.tgt.key = some (some i) ∧ ∃ r, l.path = p ++ i :: r
  | [], _ => by simp [selectTrees, labelsL]
  | e :: es, hd => by
    simp only [distinctEntries, Bool.and_eq_true] at hd
    have ih := select_wf_A hI es hd.2
    have he := entry_wf p kids infos [] hI (by simp [labelsL]) e
    simp only [selectTrees, labelsL_append]
    have hfoot : ∀ l ∈ labelsL (entryTrees kids infos [] e), ∃ i, e.tgt.key = some (some i) ∧ ∃ r, l.path = p ++ i :: r := by
      intro l hl
      cases hk : e.tgt.key with
      | none => have := he.2; simp only [hk] at this; rw [this] at hl; cases hl
      | some o =>
        cases o with
        | none => have := he.2; simp only [hk] at this; have := this l hl; simp [labelsL] at this
        | some i => have := he.2; simp only [hk] at this; exact ⟨i, rfl, this l hl⟩
    constructor
    · rw [List.nodup_append]
      refine ⟨he.1, ih.1, ?_⟩
      intro a ha b hb hab
      subst hab
      obtain ⟨i, hki, hpi⟩ := hfoot a ha
      obtain ⟨e', he', i', hki', hpi'⟩ := ih.2 a hb
      have := idx_disjoint hpi hpi'
      subst this
      have hne := (List.all_eq_true.1 hd.1) e' he'
      rw [hki, hki'] at hne
      simp at hne
    · intro l hl
      rcases List.mem_append.1 hl with h | h
      · obtain ⟨i, hki, hpi⟩ := hfoot l h
        exact ⟨e, List.mem_cons_self, i, hki, hpi⟩
      · obtain ⟨e', he', i', hki', hpi'⟩ := ih.2 l h
        exact ⟨e', List.mem_cons_of_mem _ he', i', hki', hpi'⟩

end Sel

/-- case B: the node has only its own items (map nodes) or nothing (slice nodes): no child infos -/
theorem select_none (self : List (Tree Lbl)) :
    ∀ (es : List Entry), (∀ e ∈ es, e.tgt.key ≠ some none) → labelsL (selectTrees [] [] self es) = []
  | [], _ => by simp [selectTrees, labelsL]
  | e :: es, h => by
    simp only [selectTrees, labelsL_append]
    rw [select_none self es (fun e' he' => h e' (List.mem_cons_of_mem _ he'))]
    have := h e List.mem_cons_self
    unfold entryTrees
    split
    · cases ht : e.tgt with
      | selfItems => simp [ht, Target.key] at this
      | field i => simp [Info.none]; split <;> simp [labelsL, Tree.labels]
      | elems i => simp [labelsL, Info.none]
      | mapItems i => simp [labelsL, Info.none]
      | unknown => simp [labelsL, Tree.labels]
    · simp [labelsL]

theorem select_wf_B (self : List (Tree Lbl)) (hS : (labelsL self).Nodup) :
    ∀ (es : List Entry), distinctEntries es = true →
      (labelsL (selectTrees [] [] self es)).Nodup ∧ ∀ l ∈ labelsL (selectTrees [] [] self es), l ∈ labelsL self
  | [], _ => by simp [selectTrees, labelsL]
  | e :: es, hd => by
    simp only [distinctEntries, Bool.and_eq_true] at hd
    have ih := select_wf_B self hS es hd.2
    have he := entry_wf [] [] [] self (fun i => by simpa using InfoWF_none _) hS e
    simp only [selectTrees, labelsL_append]
    by_cases hk : e.tgt.key = some none
    · have hrest : labelsL (selectTrees [] [] self es) = [] := by
        apply select_none
        intro e' he' hk'
        have hne := (List.all_eq_true.1 hd.1) e' he'
        rw [hk, hk'] at hne
        simp at hne
      rw [hrest, List.append_nil]
      refine ⟨he.1, ?_⟩
      have := he.2
      simp only [hk] at this
      exact this
    · have hnil : labelsL (entryTrees [] [] self e) = [] := by
        have := select_none self [e] (by intro e' he'; simp at he'; subst he'; exact hk)
        simpa [selectTrees, labelsL_append] using this
      rw [hnil, List.nil_append]
      exact ih

theorem distinctTab_get (tab : BranchTab) (h : distinctTab tab = true) (ty : Nat) (es : List Entry)
    (hg : tab.getD ty none = some es) : distinctEntries es = true := by
  have hm : some es ∈ tab := by
    rw [List.getD_eq_getElem?_getD] at hg
    cases h' : tab[ty]? with
    | none => simp [h'] at hg
    | some o => simp [h'] at hg; subst hg; exact List.mem_of_getElem? h'
  have := (List.all_eq_true.1 h) _ hm
  simpa using this

/-- a struct-like node: children at `p ++ [i]`, no own items -/
theorem mkNode_wf_A (tab : BranchTab) (hD : distinctTab tab = true) (p : List Nat) (n : String) (ty : Nat)
    (kids : List Val) (infos : List Info) (hI : ∀ i, InfoWF (p ++ [i]) (infos.getD i Info.none)) :
    (mkNode tab ⟨p, n⟩ ty kids infos []).labels.Nodup ∧ Under p (mkNode tab ⟨p, n⟩ ty kids infos []).labels := by
  unfold mkNode
  cases hg : tab.getD ty none with
  | none => simp [Tree.labels, Under]
  | some es =>
    have hw := select_wf_A p kids infos hI es (distinctTab_get tab hD ty es hg)
    simp only [Tree.labels]
    constructor
    · rw [List.nodup_cons]
      refine ⟨?_, hw.1⟩
      intro hmem
      obtain ⟨_, _, i, _, r, hr⟩ := hw.2 _ hmem
      have : p.length = (p ++ i :: r).length := by rw [← hr]
      simp at this
    · intro l hl
      rcases List.mem_cons.1 hl with rfl | hl
      · exact ⟨[], by simp⟩
      · obtain ⟨_, _, i, _, r, hr⟩ := hw.2 _ hl
        exact ⟨i :: r, hr⟩

/-- a map or slice node: only its own items `self`, found at `p ++ [k]` -/
theorem mkNode_wf_B (tab : BranchTab) (hD : distinctTab tab = true) (p : List Nat) (n : String) (ty : Nat)
    (self : List (Tree Lbl)) (hS : (labelsL self).Nodup) (hU : UnderFrom p 0 (labelsL self)) :
    (mkNode tab ⟨p, n⟩ ty [] [] self).labels.Nodup ∧ Under p (mkNode tab ⟨p, n⟩ ty [] [] self).labels := by
  unfold mkNode
  cases hg : tab.getD ty none with
  | none => simp [Tree.labels, Under]
  | some es =>
    have hw := select_wf_B self hS es (distinctTab_get tab hD ty es hg)
    simp only [Tree.labels]
    constructor
    · rw [List.nodup_cons]
      refine ⟨?_, hw.1⟩
      intro hmem
      obtain ⟨k, r, _, hr⟩ := hU _ (hw.2 _ hmem)
      have : p.length = (p ++ k :: r).length := by rw [← hr]
      simp at this
    · intro l hl
      rcases List.mem_cons.1 hl with rfl | hl
      · exact ⟨[], by simp⟩
      · obtain ⟨k, r, _, hr⟩ := hU _ (hw.2 _ hl)
        exact ⟨k :: r, hr⟩

/-- trees found at consecutive indices `j, j+1, …` below `p`, each well formed, have pairwise disjoint labels -/
theorem indexed_wf (p : List Nat) :
    ∀ (ts : List (Tree Lbl)) (j : Nat),
      (∀ k, (h : k < ts.length) → (ts[k]).labels.Nodup ∧ Under (p ++ [j + k]) (ts[k]).labels) →
      (labelsL ts).Nodup ∧ UnderFrom p j (labelsL ts)
  | [], _, _ => by simp [labelsL, UnderFrom]
  | t :: ts, j, h => by
    have h0 := h 0 (by simp)
    simp only [List.getElem_cons_zero, Nat.add_zero] at h0
    have ih := indexed_wf p ts (j + 1) (fun k hk => by
      have := h (k + 1) (by simpa using hk)
      simpa [Nat.add_assoc, Nat.add_comm 1 k] using this)
    simp only [labelsL]
    have hU0 : UnderFrom p j t.labels := by
      intro l hl
      obtain ⟨r, hr⟩ := h0.2 l hl
      exact ⟨j, r, Nat.le_refl _, by rw [hr]; simp⟩
    constructor
    · rw [List.nodup_append]
      refine ⟨h0.1, ih.1, ?_⟩
      intro a ha b hb hab
      subst hab
      obtain ⟨r, hr⟩ := h0.2 a ha
      obtain ⟨k, r', hk, hr'⟩ := ih.2 a hb
      have := idx_disjoint (p := p) (i := j) (j := k) ⟨r, by rw [hr]; simp⟩ ⟨r', hr'⟩
      omega
    · intro l hl
      rcases List.mem_append.1 hl with h1 | h1
      · exact hU0 l h1
      · obtain ⟨k, r, hk, hr⟩ := ih.2 l h1
        exact ⟨k, r, by omega, hr⟩

section Main
variable (T : Tables) (tab : BranchTab) (hD : distinctTab tab = true)
include hD

theorem item_wf (p : List Nat) (j : Nat) (key : String) (v : Val) (x : Info)
    (hx : InfoWF (p ++ [j, 1]) x) :
    let t := mkNode tab ⟨p ++ [j], T.typeName T.mapItemTy⟩ T.mapItemTy [Val.scalar "string" key, v]
      [scalarInfo T (p ++ [j, 0]) "string", x] []
    t.labels.Nodup ∧ Under (p ++ [j]) t.labels := by
  apply mkNode_wf_A tab hD
  intro i
  match i with
  | 0 => simpa using InfoWF_scalar T (p ++ [j, 0]) "string"
  | 1 => simpa using hx
  | i + 2 => simpa using InfoWF_none _

theorem items_wf (p : List Nat) :
    ∀ (keys : List String) (vs : List Val) (xs : List Info) (j : Nat),
      (∀ k, InfoWF (p ++ [j + k, 1]) (xs.getD k Info.none)) →
      (labelsL (itemTrees T tab p j keys vs xs)).Nodup ∧ UnderFrom p j (labelsL (itemTrees T tab p j keys vs xs))
  | [], _, _, _, _ => by simp [itemTrees, labelsL, UnderFrom]
  | _ :: _, [], _, _, _ => by simp [itemTrees, labelsL, UnderFrom]
  | _ :: _, _ :: _, [], _, _ => by simp [itemTrees, labelsL, UnderFrom]
  | key :: keys, v :: vs, x :: xs, j, h => by
    have h0 := item_wf T tab hD p j key v x (by simpa using h 0)
    have ih := items_wf p keys vs xs (j + 1) (fun k => by
      have := h (k + 1)
      simpa [Nat.add_assoc, Nat.add_comm 1 k] using this)
    simp only [itemTrees, labelsL]
    have hU0 : UnderFrom p j (mkNode tab ⟨p ++ [j], T.typeName T.mapItemTy⟩ T.mapItemTy [Val.scalar "string" key, v]
        [scalarInfo T (p ++ [j, 0]) "string", x] []).labels := by
      intro l hl
      obtain ⟨r, hr⟩ := h0.2 l hl
      exact ⟨j, r, Nat.le_refl _, by rw [hr]; simp⟩
    constructor
    · rw [List.nodup_append]
      refine ⟨h0.1, ih.1, ?_⟩
      intro a ha b hb hab
      subst hab
      obtain ⟨r, hr⟩ := h0.2 a ha
      obtain ⟨k, r', hk, hr'⟩ := ih.2 a hb
      have := idx_disjoint (p := p) (i := j) (j := k) ⟨r, by rw [hr]; simp⟩ ⟨r', hr'⟩
      omega
    · intro l hl
      rcases List.mem_append.1 hl with h1 | h1
      · exact hU0 l h1
      · obtain ⟨k, r, hk, hr⟩ := ih.2 l h1
        exact ⟨k, r, by omega, hr⟩

mutual
theorem info_wf : ∀ (v : Val) (p : List Nat), InfoWF p (info T tab p v)
  | .scalar tn _, p => by simpa [info] using InfoWF_scalar T p tn
  | .nil, p => by simpa [info] using InfoWF_none p
  | .tnil _, p => by simpa [info] using InfoWF_none p
  | .node sh a ty keys kids, p => by
    have ihK := infoK_wf kids sh p 0
    unfold info
    by_cases hs : ((T.decl ty).shape == sh) = true
    · simp only [hs, ite_true]
      cases sh with
      | obj =>
        have hw := mkNode_wf_A tab hD p (T.typeName ty) ty kids (infoK T tab .obj p 0 kids)
          (fun i => by simpa [kidPath] using ihK i)
        constructor
        · exact hw.1
        · exact hw.2
        all_goals simp [labelsL, UnderFrom]
      | list =>
        have hel := indexed_wf p ((infoK T tab .list p 0 kids).map (·.asNode)) 0 (fun k hk => by
          have := ihK k
          simp only [kidPath, Nat.zero_add] at this
          rw [List.getElem_map]
          have hk' : k < (infoK T tab .list p 0 kids).length := by simpa using hk
          rw [List.getD_eq_getElem?_getD, List.getElem?_eq_getElem hk'] at this
          simpa using ⟨this.nodeND, this.nodeU⟩)
        have hw := mkNode_wf_B tab hD p (T.typeName ty) ty [] (by simp [labelsL]) (by simp [labelsL, UnderFrom])
        constructor
        · exact hw.1
        · exact hw.2
        · exact hel.1
        · exact hel.2
        all_goals simp [labelsL, UnderFrom]
      | map =>
        have hit := items_wf T tab hD p keys kids (infoK T tab .map p 0 kids) 0 (fun k => by
          simpa [kidPath] using ihK k)
        have hw := mkNode_wf_B tab hD p (T.typeName ty) ty _ hit.1 hit.2
        constructor
        · exact hw.1
        · exact hw.2
        · simp [labelsL]
        · simp [labelsL, UnderFrom]
        · exact hit.1
        · exact hit.2
    · simp only [hs]
      exact InfoWF_none p
theorem infoK_wf : ∀ (ks : List Val) (sh : Shape) (p : List Nat) (j : Nat) (k : Nat),
    InfoWF (kidPath sh p (j + k)) ((infoK T tab sh p j ks).getD k Info.none)
  | [], sh, p, j, k => by simpa [infoK] using InfoWF_none _
  | v :: ks, sh, p, j, 0 => by simpa [infoK] using info_wf v (kidPath sh p j)
  | v :: ks, sh, p, j, k + 1 => by
    have := infoK_wf ks sh p (j + 1) k
    simpa [infoK, Nat.add_assoc, Nat.add_comm 1 k] using this
end

/-- with a `distinctTab` constructor table no node is yielded as a branch twice -/
theorem treeOf_nodup (v : Val) : (treeOf T tab v).labels.Nodup := (info_wf T tab hD v []).nodeND

end Main

end Dawgs.C11
