import Dawgs.Proofs.C07RoundExpr4
set_option linter.unusedSimpArgs false
set_option linter.unusedVariables false
set_option linter.unusedSectionVars false
/-! `build ∘ treeOf = id`: map literals, properties, node and relationship patterns, pattern parts. -/
namespace Dawgs.C07
open Dawgs.Grammar Dawgs.C08

end Dawgs.C07
